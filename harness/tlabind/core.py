"""Check orchestration shared by all property drivers.

A driver module (harness/drivers/cXX.py) defines
    PROPERTY = "C02"
    def run(ctx): ...                      # stages S1..S3, calling ctx helpers
    def classify(mm) -> str | None         # maps a mismatch record to a KNOWN_FINDINGS id
    def replay(record) -> dict             # optional: re-execute one stored mismatch
"""

from __future__ import annotations

import hashlib
import json
import os
import random
import sys
import time

from . import tlc as T
from .pool import _default

VERIF = T.VERIF
# VERIF_EVIDENCE_DIR: used by the seeded-change tools so that a run against a changed tree never
# overwrites the committed evidence of the unchanged tree
EVID = os.environ.get("VERIF_EVIDENCE_DIR") or os.path.join(VERIF, "evidence")
REPLAYS = os.path.join(EVID, "replays")
KF_PATH = os.path.join(VERIF, "KNOWN_FINDINGS.json")


class Vacuity(RuntimeError):
    pass


def load_findings(prop):
    """Committed known findings: KNOWN_FINDINGS.json (plus per-property files in findings.d/,
    merged into the main file when a property's check is integrated). Never written at run time."""
    import glob

    out = {}
    for path in [KF_PATH] + sorted(glob.glob(os.path.join(VERIF, "findings.d", "*.json"))):
        try:
            with open(path) as f:
                allf = json.load(f)
        except OSError:
            continue
        for e in allf.get("findings", []):
            if e["property"] == prop:
                out[e["id"]] = e
    return out


class Ctx:
    def __init__(self, prop: str, tier: str, seed: int, driver):
        self.prop = prop
        self.tier = tier
        self.quick = tier == "quick"
        self.seed = seed
        self.driver = driver
        self.rng = random.Random(seed)
        self.t0 = time.time()
        self.findings = load_findings(prop)
        self.known_hit: dict[str, int] = {}
        self.known_example: dict[str, dict] = {}
        self.violations: list[dict] = []
        self.states = 0
        self.transitions = 0
        self.traces_validated = 0
        self.evaluations = 0
        self.nontrivial = 0
        self.samples: list = []
        self.cov: dict = {}
        self.assumptions: list[str] = []
        self.notes: list[str] = []
        self.exhaustive = False
        self.spec_dir = os.path.join(VERIF, "specs", prop)

    # ------------------------------------------------------------------ logging
    def log(self, msg):
        print(f"[{self.prop} {time.time()-self.t0:6.1f}s] {msg}", flush=True)

    def note(self, msg):
        self.notes.append(msg)
        print(f"NOTE: {msg}", flush=True)

    def sample(self, s, cap=6):
        if len(self.samples) < cap:
            self.samples.append(json.loads(json.dumps(s, default=_default)))

    # ------------------------------------------------------------------ TLC
    def tlc(self, module, cfg, *, stage="S1", count=True, expect_ok=True, spec_dir=None, **kw):
        res = T.run_tlc(spec_dir or self.spec_dir, module, cfg, **kw)
        T.require_ok(res, f"{self.prop} {stage} {module}/{cfg}")
        self._last_tlc_out = res.out
        if count:
            self.states += res.distinct
            self.transitions += res.generated
        self.cov.setdefault("tlc_runs", []).append(
            {"stage": stage, "module": module, "cfg": cfg, "distinct": res.distinct,
             "generated": res.generated, "depth": res.depth, "wall_s": round(res.wall_s, 1),
             "violated": res.violated})
        self.log(f"{stage} TLC {module}/{cfg}: {res.distinct} distinct / {res.generated} generated"
                 f" states, depth {res.depth}, {res.wall_s:.1f}s"
                 + (f", VIOLATED {res.violated}" if res.violated else ""))
        if res.violated and expect_ok:
            # a violated invariant of the *model* (S1): the design itself breaks the property
            self.mismatch({"stage": stage, "kind": "spec_invariant", "invariant": res.violated,
                           "module": module, "cfg": cfg, "trace": res.trace_text[-4000:]})
        return res

    def require_coverage(self, res, actions):
        """Vacuity guard: every named action must have been taken at least once."""
        missing = [a for a in actions if res.coverage.get(a, (0, 0))[1] == 0]
        self.cov.setdefault("action_counts", {}).update(
            {a: list(res.coverage.get(a, (0, 0))) for a in actions})
        if missing:
            raise Vacuity(f"actions never taken in {self.prop}: {missing}")

    # ------------------------------------------------------------------ verdicts
    def mismatch(self, mm: dict):
        """Register a disagreement between specification and implementation (or a violated
        model invariant). Known findings are counted, anything else is a violation."""
        fid = None
        try:
            fid = self.driver.classify(mm) if hasattr(self.driver, "classify") else None
        except Exception as e:  # classifier bug = treat as unknown
            self.note(f"classifier failed: {e!r}")
        ent = self.findings.get(fid) if fid else None
        if ent is not None and ent.get("status") == "known":
            self.known_hit[fid] = self.known_hit.get(fid, 0) + 1
            self.known_example.setdefault(fid, mm)
        else:
            if fid and ent is None:
                mm = dict(mm, classified_as=fid, note="classifier id not listed in KNOWN_FINDINGS.json")
            elif fid:
                mm = dict(mm, classified_as=fid, note="finding is recorded as fixed but reappeared")
            self.violations.append(mm)

    def check_results(self, results, items, stage):
        """Common handling for pool results: each result is None/{} (agree), or a dict with
        'mismatch' (list of mismatch records), 'crash', or 'driver_error'."""
        for it, r in zip(items, results):
            if r is None:
                raise RuntimeError(f"{stage}: missing result for item")
            if "driver_error" in r:
                raise RuntimeError(f"{stage}: driver error {r['driver_error']}\n{r.get('tb','')}")
            if "crash" in r:
                self.mismatch({"stage": stage, "kind": "crash", "signal": r["crash"],
                               "stderr": r.get("stderr", ""), "item": it})
            for mm in r.get("mismatch", ()):
                mm.setdefault("stage", stage)
                self.mismatch(mm)

    # ------------------------------------------------------------------ finish
    def finish(self) -> int:
        os.makedirs(EVID, exist_ok=True)
        replay_paths = []
        if self.violations:
            os.makedirs(REPLAYS, exist_ok=True)
            # keep replay files for up to 3 violations of every group (max 60 files)
            per_group = {}
            ordered = []
            for v in self.violations:
                key = json.dumps({k: v.get(k) for k in ("stage", "kind", "app_kind", "tool", "op", "c", "bad", "what")
                                  if k in v}, default=_default)
                per_group[key] = per_group.get(key, 0) + 1
                if per_group[key] <= 3 and len(ordered) < 60:
                    ordered.append(v)
            rest = [v for v in self.violations if not any(v is o for o in ordered)]
            self.violations = ordered + rest
            for v in ordered:
                blob = json.dumps(v, sort_keys=True, default=_default)
                h = hashlib.sha256(blob.encode()).hexdigest()[:12]
                path = os.path.join(REPLAYS, f"{self.prop}-{h}.json")
                with open(path, "w") as f:
                    json.dump({"property": self.prop, "tier": self.tier, "seed": self.seed,
                               "record": v}, f, indent=1, default=_default)
                replay_paths.append(path)
        coverage = dict(self.cov)
        coverage.update({
            "states": self.states,
            "transitions": self.transitions,
            "traces_validated_against_impl": self.traces_validated,
            "evaluations": self.evaluations,
            "distinct_nontrivial": self.nontrivial,
            "samples": self.samples or ["(no samples recorded)"],
            "exhaustive": self.exhaustive,
            "known_findings_reproduced": dict(self.known_hit),
            "notes": self.notes[:50],
        })
        ev = {
            "property_id": self.prop,
            "tier": self.tier,
            "seed": self.seed,
            "level": "model_checking",
            "coverage": coverage,
            "assumptions": self.assumptions,
            "wall_s": round(time.time() - self.t0, 2),
            "violations": len(self.violations),
        }
        # specifications beyond the listed properties (ids X..) keep their evidence apart
        evdir = os.path.join(EVID, "extra") if self.prop.startswith("X") else EVID
        os.makedirs(evdir, exist_ok=True)
        with open(os.path.join(evdir, f"{self.prop}.json"), "w") as f:
            json.dump(ev, f, indent=1, default=_default)
        for fid, n in sorted(self.known_hit.items()):
            ent = self.findings[fid]
            print(f"KNOWN-FINDING: property={self.prop} {fid}: {ent['what']} (reproduced {n}x)", flush=True)
        if self.violations:
            groups = {}
            for v in self.violations:
                key = json.dumps({k: v.get(k) for k in ("stage", "kind", "app_kind", "tool", "op", "c", "bad", "what")
                                  if k in v}, default=_default)
                groups[key] = groups.get(key, 0) + 1
            print(f"{len(self.violations)} violations in {len(groups)} groups:", flush=True)
            for key, n in sorted(groups.items(), key=lambda kv: -kv[1])[:60]:
                print(f"  {n:6d} x {key}", flush=True)
            for v, p in zip(self.violations, replay_paths):
                brief = {k: v[k] for k in list(v)[:6]}
                print(f"VIOLATION property={self.prop} replay={p}", flush=True)
                print("  " + json.dumps(brief, default=_default)[:600], flush=True)
            if len(self.violations) > len(replay_paths):
                print(f"  ... and {len(self.violations)-len(replay_paths)} more violations", flush=True)
            return 1
        self.log(f"OK: states={self.states} transitions={self.transitions} "
                 f"impl-validated={self.traces_validated} known={sum(self.known_hit.values())}")
        return 0


def main(argv=None):
    import argparse
    import importlib

    ap = argparse.ArgumentParser()
    ap.add_argument("prop")
    ap.add_argument("--tier", default=os.environ.get("VERIF_TIER", "quick"), choices=["quick", "thorough"])
    ap.add_argument("--replay")
    ap.add_argument("--no-build", action="store_true")
    a = ap.parse_args(argv)
    seed = int(os.environ.get("VERIF_SEED", "20260927") or 0)
    prop = a.prop.upper()
    sys.path.insert(0, VERIF)
    os.environ.setdefault("PYTHONHASHSEED", "0")
    try:
        driver = importlib.import_module(f"harness.drivers.{prop.lower()}")
        if a.replay:
            with open(a.replay) as f:
                rec = json.load(f)
            from . import build

            build.ensure_built()
            out = driver.replay(rec["record"]) if hasattr(driver, "replay") else {"error": "no replay"}
            print(json.dumps(out, indent=1, default=_default))
            return 1 if out.get("mismatch") or out.get("crash") else 0
        ctx = Ctx(prop, a.tier, seed, driver)
        if not a.no_build:
            from . import build

            rebuilt = build.ensure_built()
            if rebuilt:
                ctx.cov["rebuilt"] = rebuilt
        driver.run(ctx)
        return ctx.finish()
    except (T.TLCFailure, Vacuity, RuntimeError) as e:
        print(f"MACHINERY-FAILURE property={prop}: {e}", file=sys.stderr, flush=True)
        return 2
    except Exception:  # noqa: BLE001 - a bug in a driver is a machinery failure, never a verdict
        import traceback

        print(f"MACHINERY-FAILURE property={prop}: unexpected exception in the check\n"
              + traceback.format_exc(), file=sys.stderr, flush=True)
        return 2
    finally:
        T.cleanup_scratch()
