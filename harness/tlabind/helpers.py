"""Reusable stage helpers for drivers (see harness/README.md)."""

from __future__ import annotations

import copy
import json
import os

from . import tlc as T
from .core import Vacuity
from .pool import _default
from .tlaval import parse_dump, parse_value, to_py


def dump_states(ctx, module, cfg, *, stage="S1", workers=16, timeout=900, count=True, **kw):
    """Run TLC with -dump and return (result, list of state dicts in to_py form)."""
    d = T.scratch_dir("dump")
    prefix = os.path.join(d, "states")
    res = ctx.tlc(module, cfg, stage=stage, dump=prefix, workers=workers, timeout=timeout,
                  count=count, **kw)
    path = prefix + ".dump" if os.path.exists(prefix + ".dump") else prefix
    states = [{k: to_py(v) for k, v in st.items()} for st in parse_dump(path)]
    return res, states


def tlc_validate(ctx, traces, *, module="Trace", cfg="Trace.cfg", tag="MISMATCH",
                 stage="S3", selftest=False, timeout=1200, spec_dir=None, keep=None):
    """Validate recorded traces with TLC.

    Convention of the Trace spec: TRACE_FILE holds a JSON array of traces, each an array of
    events; variables include `tid` (trace number, chosen in Init) and `l` (events consumed,
    0 in Init); every step consumes exactly one event, so TLC must find
    sum(len(trace)+1) distinct states. A disagreement is reported by
    PrintT(<<"MISMATCH", tid, eventIndex, ...>>) and never stops the run.
    Returns the list of parsed MISMATCH tuples (to_py form)."""
    if not traces:
        return []
    d = T.scratch_dir("trace")
    tf = os.path.join(d, "traces.json")
    with open(tf, "w") as f:
        if keep:
            json.dump([[{k: e[k] for k in keep if k in e} for e in tr] for tr in traces], f,
                      default=_default)
        else:
            json.dump(traces, f, default=_default)
    res = ctx.tlc(module, cfg, stage=(stage + "-selftest") if selftest else stage, workers=1,
                  env={"TRACE_FILE": tf}, count=not selftest, timeout=timeout, spec_dir=spec_dir)
    expect = sum(len(t) + 1 for t in traces)
    if res.distinct != expect:
        raise RuntimeError(
            f"{ctx.prop} {stage}: trace validation visited {res.distinct} states, expected {expect}"
            " (an event was not consumed)")
    out = []
    for txt in T.printed_values(res.out, tag):
        out.append(to_py(parse_value(txt)))
    return out


def binding_selftest(ctx, traces, corrupt, *, module="Trace", cfg="Trace.cfg", spec_dir=None,
                     max_traces=3):
    """Corrupt recorded traces with `corrupt(trace) -> bool` (in place, True if it changed
    something) and require TLC to report at least one MISMATCH per corrupted trace."""
    bad = copy.deepcopy(traces[:max_traces])
    changed = [tr for tr in bad if corrupt(tr)]
    if not changed:
        ctx.note("binding self-test skipped: nothing to corrupt")
        return
    mm = tlc_validate(ctx, changed, module=module, cfg=cfg, selftest=True, spec_dir=spec_dir)
    hit = {m[1] for m in mm}
    if len(hit) < len(changed):
        raise Vacuity(f"binding self-test: {len(changed)} corrupted traces, {len(hit)} rejected")
    ctx.cov["selftest_corrupted_rejected"] = ctx.cov.get("selftest_corrupted_rejected", 0) + len(hit)


def run_pool(ctx, target, items, *, stage, env=None, item_timeout=30, procs=16):
    """pool.run_isolated + standard result handling (crash -> mismatch record with progress,
    'mismatch' lists -> ctx.mismatch, driver_error -> machinery failure).
    Returns the raw results."""
    from . import pool

    results = pool.run_isolated(target, items, env=env, item_timeout=item_timeout, procs=procs)
    for it, r in zip(items, results):
        if r is None:
            raise RuntimeError(f"{stage}: missing result")
        if "driver_error" in r:
            raise RuntimeError(f"{stage}: driver error {r['driver_error']}\n{r.get('tb', '')}")
        if "crash" in r:
            ctx.mismatch({"stage": stage, "kind": "crash", "signal": r["crash"],
                          "progress": r.get("progress"), "item": it})
            continue
        for mm in r.get("mismatch", ()):
            mm.setdefault("stage", stage)
            ctx.mismatch(mm)
    return results


def chunked(seq, k):
    return [seq[i:i + k] for i in range(0, len(seq), k)]
