"""Crash-isolated parallel execution of implementation calls.

`run_isolated("harness.drivers.c02:exec_item", items)` executes func(item) for every item
in child interpreters. A child that dies (SIGSEGV, SIGABRT, os._exit) costs exactly the item
in flight: its result becomes {"crash": <signal or code>} and a fresh child continues with the
next item. Results come back in input order.
"""

from __future__ import annotations

import json
import os
import subprocess
import sys
import tempfile
import threading
import time

from .tlc import VERIF, scratch_dir

PY = "/venv/bin/python"


_progress_fh = None


def progress(info):
    """Called by driver functions inside a child before a risky step: the last value written
    is attached to the crash record if the process dies."""
    fh = _progress_fh
    if fh is not None:
        b = json.dumps(info, default=_default).encode()
        os.pwrite(fh, b + b" " * max(0, 4096 - len(b)), 0)


def _call(f, item):
    try:
        return f(item)
    except BaseException as e:  # the driver itself failed: machinery error
        import traceback

        return {"driver_error": f"{type(e).__name__}: {e}", "tb": traceback.format_exc()[-1500:]}


def _run_forked(f, item, item_timeout):
    """Run f(item) in a forked grandchild: a native crash costs only this item (no restart)."""
    import select
    import signal

    rfd, wfd = os.pipe()
    pid = os.fork()
    if pid == 0:
        try:
            os.close(rfd)
            data = json.dumps(_call(f, item), default=_default).encode()
            mv = memoryview(data)
            while mv:
                k = os.write(wfd, mv)
                mv = mv[k:]
            os.close(wfd)
        finally:
            os._exit(0)
    os.close(wfd)
    chunks = []
    deadline = time.time() + item_timeout
    timed_out = False
    while True:
        left = deadline - time.time()
        if left <= 0:
            timed_out = True
            break
        rl, _, _ = select.select([rfd], [], [], left)
        if not rl:
            timed_out = True
            break
        b = os.read(rfd, 1 << 16)
        if not b:
            break
        chunks.append(b)
    os.close(rfd)
    if timed_out:
        try:
            os.kill(pid, signal.SIGKILL)
        except OSError:
            pass
    _, status = os.waitpid(pid, 0)
    if timed_out:
        return {"crash": "timeout", "progress": _read_progress() if _progress_fh is not None else None}
    if os.WIFSIGNALED(status):
        return {"crash": os.WTERMSIG(status), "progress": _read_progress() if _progress_fh is not None else None}
    try:
        return json.loads(b"".join(chunks))
    except ValueError:
        return {"crash": f"exit{os.WEXITSTATUS(status)}", "progress": _read_progress()}


def in_fork(fn, timeout=20.0):
    """Run fn() (returning something JSON-able) in a forked process. Returns its result, or
    {"crash": signal} if the process died. Lets a driver try a call that may take the
    process down while keeping its own objects intact."""
    return _run_forked(lambda _x: fn(), None, timeout)


def _read_progress():
    try:
        t = os.pread(_progress_fh, 4096, 0).strip()
        return json.loads(t) if t else None
    except (OSError, ValueError):
        return None


def _child_main(argv):
    import importlib
    global _progress_fh

    target, inpath, outpath, start = argv[0], argv[1], argv[2], int(argv[3])
    mod, fn = target.split(":")
    sys.path.insert(0, VERIF)
    m = importlib.import_module(mod)
    f = getattr(m, fn)
    if hasattr(m, "warmup"):
        m.warmup()  # import the library / load shared tables once, before forking per item
    with open(inpath) as fh:
        items = json.load(fh)
    out = open(outpath, "a")
    _progress_fh = os.open(outpath + ".progress", os.O_RDWR | os.O_CREAT, 0o600)
    import harness.tlabind.pool as _P  # the instance drivers import (this one is __main__)

    _P._progress_fh = _progress_fh
    item_timeout = float(os.environ.get("VERIF_ITEM_TIMEOUT", "30"))
    use_fork = os.environ.get("VERIF_POOL_FORK", "1") == "1"
    for i in range(start, len(items)):
        os.pwrite(_progress_fh, b" " * 4096, 0)
        out.write(json.dumps({"start": i}) + "\n")
        out.flush()
        if use_fork:
            r = _run_forked(f, items[i], item_timeout)
        else:
            r = _call(f, items[i])
        out.write(json.dumps({"done": i, "r": r}, default=_default) + "\n")
        out.flush()
    out.close()


def _default(o):
    try:
        import numpy as np

        if isinstance(o, np.integer):
            return int(o)
        if isinstance(o, np.floating):
            return float(o)
        if isinstance(o, np.bool_):
            return bool(o)
        if isinstance(o, np.ndarray):
            return o.tolist()
    except Exception:
        pass
    if isinstance(o, (set, frozenset)):
        return sorted(o, key=repr)
    if isinstance(o, bytes):
        return list(o)
    return repr(o)


def _run_chunk(target, items, env, item_timeout, results, offset):
    d = scratch_dir("pool")
    inpath = os.path.join(d, f"in{offset}.json")
    outpath = os.path.join(d, f"out{offset}.ndjson")
    with open(inpath, "w") as fh:
        json.dump(items, fh, default=_default)
    start = 0
    e = dict(os.environ)
    e["PYTHONHASHSEED"] = "0"
    e["PYTHONPATH"] = VERIF + os.pathsep + e.get("PYTHONPATH", "")
    e["VERIF_ITEM_TIMEOUT"] = str(item_timeout)
    if env:
        e.update(env)
    n = len(items)
    while start < n:
        open(outpath, "w").close()
        p = subprocess.Popen(
            [PY, "-m", "harness.tlabind.pool", target, inpath, outpath, str(start)],
            env=e, cwd=VERIF, stdout=subprocess.DEVNULL, stderr=subprocess.PIPE,
        )
        try:
            _, err = p.communicate(timeout=item_timeout * max(1, n - start) + 60)
            rc = p.returncode
        except subprocess.TimeoutExpired:
            p.kill()
            _, err = p.communicate()
            rc = "timeout"
        last_started = None
        with open(outpath) as fh:
            for line in fh:
                line = line.strip()
                if not line:
                    continue
                try:
                    rec = json.loads(line)
                except ValueError:
                    continue
                if "start" in rec:
                    last_started = rec["start"]
                else:
                    results[offset + rec["done"]] = rec["r"]
                    last_started = None
                    start = rec["done"] + 1
        if last_started is not None:
            prog = None
            try:
                with open(outpath + ".progress", "rb") as pf:
                    t = pf.read(4096).strip()
                    prog = json.loads(t) if t else None
            except (OSError, ValueError):
                pass
            results[offset + last_started] = {
                "progress": prog,
                "crash": rc if rc == "timeout" else (-rc if isinstance(rc, int) and rc < 0 else rc),
                "stderr": (err or b"")[-600:].decode(errors="replace"),
            }
            start = last_started + 1
        elif start < n and rc != 0:
            # child died outside an item (import failure etc.): machinery error
            raise RuntimeError(
                f"worker for {target} failed (rc={rc}): {(err or b'')[-2000:].decode(errors='replace')}"
            )


def run_isolated(target: str, items: list, *, procs: int = 16, env: dict | None = None,
                 item_timeout: float = 30.0, chunk: int | None = None) -> list:
    n = len(items)
    results: list = [None] * n
    if n == 0:
        return results
    if chunk is None:
        chunk = max(1, min(2000, (n + procs * 2 - 1) // (procs * 2)))
    chunks = [(o, items[o : o + chunk]) for o in range(0, n, chunk)]
    errors = []
    lock = threading.Lock()
    it = iter(chunks)

    def work():
        while True:
            with lock:
                try:
                    o, its = next(it)
                except StopIteration:
                    return
            try:
                _run_chunk(target, its, env, item_timeout, results, o)
            except BaseException as e:  # noqa
                errors.append(e)
                return

    ths = [threading.Thread(target=work, daemon=True) for _ in range(min(procs, len(chunks)))]
    for t in ths:
        t.start()
    for t in ths:
        t.join()
    if errors:
        raise errors[0]
    return results


if __name__ == "__main__":
    _child_main(sys.argv[1:])
