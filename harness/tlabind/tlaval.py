"""Parser for TLA+ values as TLC prints them (states in -dump files, dot labels,
-simulate trace files, PrintT output).

Python representation
  integer            -> int
  "string"           -> str
  TRUE / FALSE       -> bool
  model value  m1    -> MV("m1")
  <<a, b>>           -> tuple
  {a, b}             -> frozenset
  [f |-> v, ...]     -> Rec (hashable dict, string keys)
  (k :> v @@ ...)    -> Rec (hashable dict, arbitrary keys)
  a..b               -> frozenset(range(a, b+1))
"""

from __future__ import annotations


class Rec(dict):
    """Hashable dict (records and functions)."""

    def __hash__(self):  # type: ignore[override]
        return hash(frozenset(self.items()))

    def __getattr__(self, k):
        try:
            return self[k]
        except KeyError as e:  # pragma: no cover
            raise AttributeError(k) from e


class MV(str):
    """A TLC model value."""

    def __repr__(self):
        return f"MV({str.__repr__(self)})"


class ParseError(ValueError):
    pass


_IDCH = set("abcdefghijklmnopqrstuvwxyzABCDEFGHIJKLMNOPQRSTUVWXYZ0123456789_")


class _P:
    def __init__(self, s: str):
        self.s = s
        self.i = 0
        self.n = len(s)

    def ws(self):
        s, n = self.s, self.n
        i = self.i
        while i < n and s[i] in " \t\r\n":
            i += 1
        self.i = i

    def peek(self, k=1):
        return self.s[self.i : self.i + k]

    def expect(self, tok):
        self.ws()
        if not self.s.startswith(tok, self.i):
            raise ParseError(
                f"expected {tok!r} at {self.i}: {self.s[max(0,self.i-20):self.i+20]!r}"
            )
        self.i += len(tok)

    def value(self):
        self.ws()
        s = self.s
        if self.i >= self.n:
            raise ParseError("unexpected end")
        c = s[self.i]
        if c == "<" and s.startswith("<<", self.i):
            self.i += 2
            items = self.items(">>")
            v = tuple(items)
        elif c == "{":
            self.i += 1
            v = frozenset(self.items("}"))
        elif c == "[":
            self.i += 1
            v = self.record()
        elif c == "(":
            self.i += 1
            v = self.function()
        elif c == '"':
            v = self.string()
        elif c == "-" or c.isdigit():
            j = self.i + 1
            while j < self.n and s[j].isdigit():
                j += 1
            v = int(s[self.i : j])
            self.i = j
        elif c in _IDCH:
            j = self.i
            while j < self.n and s[j] in _IDCH:
                j += 1
            w = s[self.i : j]
            self.i = j
            if w == "TRUE":
                v = True
            elif w == "FALSE":
                v = False
            else:
                v = MV(w)
        else:
            raise ParseError(f"unexpected {c!r} at {self.i}: {s[max(0,self.i-20):self.i+20]!r}")
        # interval a..b
        self.ws()
        if isinstance(v, int) and not isinstance(v, bool) and s.startswith("..", self.i):
            self.i += 2
            hi = self.value()
            v = frozenset(range(v, hi + 1))
        return v

    def items(self, close):
        out = []
        self.ws()
        if self.s.startswith(close, self.i):
            self.i += len(close)
            return out
        while True:
            out.append(self.value())
            self.ws()
            if self.s.startswith(",", self.i):
                self.i += 1
                continue
            self.expect(close)
            return out

    def record(self):
        r = Rec()
        self.ws()
        if self.peek() == "]":  # never printed by TLC, but harmless
            self.i += 1
            return r
        while True:
            self.ws()
            j = self.i
            while j < self.n and self.s[j] in _IDCH:
                j += 1
            key = self.s[self.i : j]
            if not key:
                raise ParseError(f"record key expected at {self.i}")
            self.i = j
            self.expect("|->")
            r[key] = self.value()
            self.ws()
            if self.peek() == ",":
                self.i += 1
                continue
            self.expect("]")
            return r

    def function(self):
        r = Rec()
        while True:
            k = self.value()
            self.expect(":>")
            r[k] = self.value()
            self.ws()
            if self.s.startswith("@@", self.i):
                self.i += 2
                continue
            self.expect(")")
            return r

    def string(self):
        s = self.s
        assert s[self.i] == '"'
        j = self.i + 1
        out = []
        while True:
            if j >= self.n:
                raise ParseError("unterminated string")
            c = s[j]
            if c == "\\":
                d = s[j + 1]
                out.append({"n": "\n", "t": "\t", "r": "\r", "f": "\f"}.get(d, d))
                j += 2
            elif c == '"':
                self.i = j + 1
                return "".join(out)
            else:
                out.append(c)
                j += 1


def parse_value(text: str):
    p = _P(text)
    v = p.value()
    p.ws()
    if p.i != p.n:
        raise ParseError(f"trailing input at {p.i}: {text[p.i:p.i+40]!r}")
    return v


def parse_state(text: str) -> dict:
    """Parse '/\\ a = v\\n/\\ b = w' (or a single 'a = v') into {'a': v, 'b': w}."""
    p = _P(text)
    out = {}
    while True:
        p.ws()
        if p.i >= p.n:
            return out
        if p.s.startswith("/\\", p.i):
            p.i += 2
            p.ws()
        j = p.i
        while j < p.n and p.s[j] in _IDCH:
            j += 1
        name = p.s[p.i : j]
        if not name:
            raise ParseError(f"variable name expected at {p.i}: {p.s[p.i:p.i+40]!r}")
        p.i = j
        p.expect("=")
        out[name] = p.value()


def parse_dump(path: str):
    """Yield state dicts from a `-dump <file>` output (States separated by 'State n:')."""
    cur: list[str] = []
    with open(path) as f:
        for line in f:
            if line.startswith("State ") and line.rstrip().endswith(":"):
                if cur:
                    t = "".join(cur).strip()
                    if t:
                        yield parse_state(t)
                cur = []
            else:
                cur.append(line)
    t = "".join(cur).strip()
    if t:
        yield parse_state(t)


def to_py(v):
    """Convert a parsed value into plain JSON-able Python (tuples->lists, sets->sorted lists,
    Rec->dict with str keys)."""
    if isinstance(v, Rec):
        return {str(k) if not isinstance(k, str) else k: to_py(x) for k, x in v.items()}
    if isinstance(v, tuple):
        return [to_py(x) for x in v]
    if isinstance(v, frozenset):
        items = [to_py(x) for x in v]
        try:
            return sorted(items)  # natural order (numbers numerically, lists lexicographically)
        except TypeError:
            return sorted(items, key=repr)
    if isinstance(v, MV):
        return str(v)
    return v
