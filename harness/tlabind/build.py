"""S0: make the imported extension modules correspond to /repo's working tree.

Cython is not installed in this sandbox, so `.pyx` files cannot be translated; the generated
`.c`/`.cpp` files next to them can be compiled. A `.so` is rebuilt in place whenever the
SHA-256 of its `.c`/`.cpp` differs from the hash recorded when the present `.so` was built
(local stamp file /verif/.build/stamps.json; falls back to the committed baseline
fixtures/c_stamps.json = hashes of the sources the shipped `.so` files were built from).
"""

from __future__ import annotations

import glob
import hashlib
import json
import os
import subprocess
import sys

from .tlc import VERIF

REPO = "/repo"
SRC = os.path.join(REPO, "src", "biotite")
BASE = os.path.join(VERIF, "fixtures", "c_stamps.json")
LOCAL = os.path.join(VERIF, ".build", "stamps.json")
PYINC = "/root/.pyenv/versions/3.12.1/include/python3.12"
NPINC = "/venv/lib/python3.12/site-packages/numpy/_core/include"
SUFFIX = ".cpython-312-x86_64-linux-gnu.so"


def _sha(path):
    h = hashlib.sha256()
    with open(path, "rb") as f:
        for b in iter(lambda: f.read(1 << 20), b""):
            h.update(b)
    return h.hexdigest()


def sources():
    out = []
    for pyx in sorted(glob.glob(os.path.join(SRC, "**", "*.pyx"), recursive=True)):
        stem = pyx[:-4]
        for ext in (".c", ".cpp"):
            if os.path.exists(stem + ext):
                out.append((pyx, stem + ext, stem + SUFFIX))
                break
    return out


def current_hashes():
    d = {os.path.relpath(c, REPO): _sha(c) for _p, c, _s in sources()}
    d.update({"pyx:" + os.path.relpath(p, REPO): _sha(p) for p, _c, _s in sources()})
    return d


def write_baseline():
    os.makedirs(os.path.dirname(BASE), exist_ok=True)
    with open(BASE, "w") as f:
        json.dump(current_hashes(), f, indent=1, sort_keys=True)


def _load(path):
    try:
        with open(path) as f:
            return json.load(f)
    except (OSError, ValueError):
        return {}


def compile_one(csrc, so):
    cxx = csrc.endswith(".cpp")
    cmd = ["g++" if cxx else "gcc", "-shared", "-fPIC", "-O2", "-w",
           "-DNPY_NO_DEPRECATED_API=NPY_1_7_API_VERSION", f"-I{PYINC}", f"-I{NPINC}",
           f"-I{os.path.dirname(csrc)}"]
    if cxx:
        cmd.append("-std=c++11")
    tmp = so + ".verif-tmp"
    cmd += [csrc, "-o", tmp]
    p = subprocess.run(cmd, stdout=subprocess.PIPE, stderr=subprocess.STDOUT, text=True)
    if p.returncode != 0:
        try:
            os.unlink(tmp)
        except OSError:
            pass
        raise RuntimeError(f"compilation of {csrc} failed:\n{p.stdout[-3000:]}")
    os.replace(tmp, so)


def ensure_built(verbose=True):
    """Rebuild stale extension modules. Returns list of rebuilt sources."""
    base = _load(BASE)
    local = _load(LOCAL)
    rebuilt = []
    notes = []
    changed = False
    for pyx, csrc, so in sources():
        rel = os.path.relpath(csrc, REPO)
        h = _sha(csrc)
        known = local.get(rel, base.get(rel))
        if known is None:
            local[rel] = h
            changed = True
            known = h
        if h != known or not os.path.exists(so):
            if verbose:
                print(f"S0: rebuilding {rel}", flush=True)
            compile_one(csrc, so)
            local[rel] = h
            changed = True
            rebuilt.append(rel)
        prel = "pyx:" + os.path.relpath(pyx, REPO)
        if prel in base and _sha(pyx) != base[prel] and h == base.get(rel):
            notes.append(os.path.relpath(pyx, REPO))
    if changed:
        os.makedirs(os.path.dirname(LOCAL), exist_ok=True)
        with open(LOCAL, "w") as f:
            json.dump(local, f, indent=1, sort_keys=True)
    if notes and verbose:
        print("S0 NOTE: .pyx edited but generated C unchanged (Cython unavailable, the edit is not compiled): "
              + ", ".join(notes), flush=True)
    return rebuilt


if __name__ == "__main__":
    if len(sys.argv) > 1 and sys.argv[1] == "baseline":
        write_baseline()
        print("baseline stamps written")
    else:
        print(ensure_built())
