--------------------------- MODULE AtomContainerOps ---------------------------
(* C01: biotite.structure.AtomArray / AtomArrayStack as a reference model.

   An object is a record
     kind  : "array" | "stack"
     a     : sequence of atoms <<uid, tag>>  (uid identifies the atom: it is its atom_name;
             tag is an editable integer annotation, res_id; every other annotation, incl. the
             optional ones in ex, is a fixed function of uid, so "annotations follow the atom"
             is observable through them)
     z     : per model (exactly one for an array), per atom, one integer "cell" standing
             for the coordinate triple
             (the driver realises cell c as the float32 triple (c, c/2, -c), exact)
     box   : <<>> (no box) or <<b>> with b a sequence of integers, one per model
     bonds : <<>> (no bond list) or <<B>> with B a BondOps bond set over positions
     ex    : set of optional annotation categories present
   This *is* the list-of-atoms reference model of the property: every operation below is
   defined by what it does to the list of atoms, the list of models, and the bond mapping.

   Apply(S, op, arg) = [st |-> S', oc |-> "ok" | "Rejected", out |-> value]
   "Rejected" = any exception, object unchanged. *)
EXTENDS BondOps, TLC

(* Optional annotation categories.  An annotation holds ONE VALUE PER ATOM; that value is a scalar
   (ScalarExtras: b_factor int/float, flag bool, label str) or is itself an ARRAY (ShapedExtras:
   "vec" = 3 float32 numbers, "grid" = a 2 x 2 block of integers, "names" = 2 strings), i.e. the
   annotation array has the shape <<n>> \o PerAtomShape(name) - (n,3), (n,2,2), (n,2).  The list-of-
   atoms meaning of every operation is the same for both: the per-atom value (whatever its shape)
   moves, is dropped, is overwritten, is repeated and is copied together with its atom; the LENGTH
   of every annotation array (its first axis) stays the number of atoms and the per-atom shape
   never changes.  The value is a fixed function of the atom's uid (the driver realises it), so
   "it follows the atom" is observable, and AnnotShape is what the driver's projection requires of
   the real array. *)
ScalarExtras == {"b_factor", "flag", "label"}
ShapedExtras == {"vec", "grid", "names"}
Extras == ScalarExtras \cup ShapedExtras
PerAtomShape(name) == CASE name = "vec" -> <<3>> [] name = "grid" -> <<2, 2>> [] name = "names" -> <<2>>
                        [] OTHER -> <<>>

N(S) == Len(S.a)
D(S) == Len(S.z)
NoneV == <<>>
Has(o) == o # <<>>
Get(o) == o[1]

Sel(s, pos) == [k \in 1..Len(pos) |-> s[pos[k] + 1]]
Without(s, p) == [k \in 1..(Len(s) - 1) |-> IF k <= p THEN s[k] ELSE s[k + 1]]   \* drop 0-based p
Ok(S, out) == [st |-> S, oc |-> "ok", out |-> out]
Rej(S) == [st |-> S, oc |-> "Rejected", out |-> <<>>]

(* ---------------------------------------------------------------- coherence *)
Coherent(S) ==
  /\ S.kind \in {"array", "stack"}
  /\ (S.kind = "array" => D(S) = 1)
  /\ \A k \in 1..D(S) : Len(S.z[k]) = N(S)
  /\ (Has(S.box) => Len(Get(S.box)) = D(S))
  /\ (Has(S.bonds) => Canonical(Get(S.bonds), N(S)))
  /\ S.ex \subseteq Extras

Uids(S) == {S.a[k][1] : k \in 1..N(S)}
UniqueUids(S) == Cardinality(Uids(S)) = N(S)
\* shape of the annotation array of an optional category of S
AnnotShape(S, name) == <<N(S)>> \o PerAtomShape(name)
HasShaped(S) == S.ex \cap ShapedExtras # {}
\* bonds expressed between atom uids (position independent)
UidBonds(S) ==
  IF Has(S.bonds)
    THEN {<<{S.a[b[1] + 1][1], S.a[b[2] + 1][1]}, b[3]>> : b \in Get(S.bonds)}
    ELSE {}

(* ---------------------------------------------------------------- building blocks *)
SelectAtoms(S, pos) ==
  [S EXCEPT !.a = Sel(S.a, pos),
            !.z = [k \in 1..D(S) |-> Sel(S.z[k], pos)],
            !.bonds = IF Has(S.bonds) THEN <<IndexBonds(Get(S.bonds), pos)>> ELSE NoneV]

SelectModels(S, mpos) ==
  [S EXCEPT !.z = Sel(S.z, mpos),
            !.box = IF Has(S.box) THEN <<Sel(Get(S.box), mpos)>> ELSE NoneV]

\* atom-axis indexing with a non-integer index object; duplicates are refused when a bond
\* list is present (documented NotImplementedError)
IndexAtomsBy(S, idx) ==
  LET r == Resolve(idx, N(S)) IN
  IF ~r.ok THEN Rej(S)
  ELSE IF Has(S.bonds) /\ HasDup(r.pos) THEN Rej(S)
  ELSE Ok(SelectAtoms(S, r.pos), <<>>)

\* uid, tag, cell, and the optional annotations the Atom object carries (each with the value of its
\* uid - scalar or array-valued; an Atom taken out of a container is a value of its own)
AtomOut(S, mi, p) == <<S.a[p + 1][1], S.a[p + 1][2], S.z[mi][p + 1], S.ex>>

ModelAsArray(S, p) ==
  [S EXCEPT !.kind = "array", !.z = <<S.z[p + 1]>>,
            !.box = IF Has(S.box) THEN <<<<Get(S.box)[p + 1]>>>> ELSE NoneV]

IsInt(idx) == idx[1] = "int"

(* ---------------------------------------------------------------- index forms *)
(* An index object is <<kind, payload, form>> (PyIndex.Resolve and every operator below read the
   first two components only): the FORM says in which of the shapes numpy accepts the index is
   handed over -
     int   : a Python int ("py"), a numpy integer scalar of some width and signedness
             ("i8" .. "u64"), or a zero-dimensional integer ndarray ("a0")
     arr   : a Python list of ints ("list") or an integer ndarray of some dtype ("i8" .. "u64")
     mask  : a bool ndarray ("np") or a Python list of bools ("list")
     slice : bounds and step given as Python ints ("py") or as numpy integers ("np")
     all / ell : ':' and Ellipsis have one form ("py")
   The integer positions of deletion and assignment (del x[i], x[i] = v, get_array(i)) carry a
   form as well (a trailing component of the call's argument); those are documented as "int", so
   only the scalar forms are in their domain.
   The meaning of a call NEVER depends on the form: `x[np.int64(1), mask]` is `x[1, mask]`.  That is
   exactly the statement checked - the call universes (AtomContainer.tla) and the recorded
   histories enumerate the forms, every expected value is computed from kind and payload.     *)
IntForms       == {"py", "i8", "i16", "i32", "i64", "u8", "u16", "u32", "u64", "a0"}
ScalarIntForms == IntForms \ {"a0"}
ArrForms       == {"list", "i8", "i16", "i32", "i64", "u8", "u16", "u32", "u64"}
MaskForms      == {"np", "list"}
SliceForms     == {"py", "np"}
FormsOf(kind) == CASE kind = "int" -> IntForms [] kind = "arr" -> ArrForms
                   [] kind = "mask" -> MaskForms [] kind = "slice" -> SliceForms
                   [] OTHER -> {"py"}
DefaultForm(kind) == CASE kind = "arr" -> "i64" [] kind = "mask" -> "np" [] OTHER -> "py"
\* a value must be representable in the form's integer type
FitsForm(v, f) ==
  CASE f = "i8"  -> -128 <= v /\ v <= 127
    [] f = "u8"  -> 0 <= v /\ v <= 255
    [] f = "i16" -> -32768 <= v /\ v <= 32767
    [] f = "u16" -> 0 <= v /\ v <= 65535
    [] f \in {"u32", "u64"} -> v >= 0
    [] OTHER -> TRUE
Dom_Form(idx) ==
  /\ Len(idx) = 3 /\ idx[3] \in FormsOf(idx[1])
  /\ (idx[1] \in {"int", "arr"} => \A i \in DOMAIN idx[2] : FitsForm(idx[2][i], idx[3]))
Dom_IntForm(i, f) == f \in ScalarIntForms /\ FitsForm(i, f)
\* the forms of a call are admissible (the rest of the property's domain is stated where the
\* calls are generated)
Dom_Call(op, arg) ==
  CASE op = "index" -> \A k \in 2..Len(arg) : Dom_Form(arg[k])
    [] op \in {"del_atom", "del_model"} -> Dom_IntForm(arg[1], arg[2])
    [] op \in {"set_atom", "take_then_overwrite"} -> Dom_IntForm(arg[1], arg[5])
    [] op = "swap_atoms" -> Dom_IntForm(arg[1], arg[3]) /\ Dom_IntForm(arg[2], arg[4])
    [] op = "set_model" -> Dom_IntForm(arg[1], arg[4]) /\ Dom_IntForm(arg[2], arg[5])
    [] OTHER -> TRUE
\* The quantifier of the property is "all index values numpy accepts for one axis": an integer
\* outside -n..n-1 is not one.  The model still says "Rejected" for it wherever the classes refuse it
\* as numpy does (every position but one); in the atom position of a two-dimensional STACK index
\* whose model position is not an integer the classes turn the integer into a slice, so an
\* out-of-range value selects no atom instead of being refused - outside the quantifier, not generated
Dom_Index(S, arg) ==
  (S.kind = "stack" /\ arg[1] = "2d" /\ arg[3][1] = "int" /\ arg[2][1] # "int") => InRange(arg[3][2][1], N(S))
WithForm(x, f) == <<x[1], x[2], f>>
Dflt(X) == {WithForm(x, DefaultForm(x[1])) : x \in X}

(* ---------------------------------------------------------------- indexing *)
\* arg = <<"1d", idx>> or <<"2d", idx0, idx1>>, every idx = <<kind, payload, form>>
RECURSIVE IndexArray(_, _)
IndexArray(S, arg) ==
  IF arg[1] = "2d"
    THEN IF arg[2][1] = "ell" THEN IndexArray(S, <<"1d", arg[3]>>) ELSE Rej(S)
    ELSE LET idx == arg[2]  r == Resolve(idx, N(S)) IN
         IF IsInt(idx)
           THEN IF r.ok THEN Ok(S, AtomOut(S, 1, r.pos[1])) ELSE Rej(S)
           ELSE IndexAtomsBy(S, idx)

IndexStack(S, arg) ==
  IF arg[1] = "1d" THEN
    LET idx == arg[2]  r == Resolve(idx, D(S)) IN
    IF ~r.ok THEN Rej(S)
    ELSE IF IsInt(idx) THEN Ok(ModelAsArray(S, r.pos[1]), <<>>)
    ELSE Ok(SelectModels(S, r.pos), <<>>)
  ELSE
    LET i0 == arg[2]  i1 == arg[3]
        r0 == Resolve(i0, D(S))  r1 == Resolve(i1, N(S)) IN
    IF ~r0.ok \/ ~r1.ok THEN Rej(S)
    ELSE IF IsInt(i0) THEN
      \* one model first, then that array is indexed
      IF IsInt(i1) THEN Ok(S, AtomOut(S, r0.pos[1] + 1, r1.pos[1]))
      ELSE LET A == ModelAsArray(S, r0.pos[1]) IN
           IF Has(S.bonds) /\ HasDup(r1.pos) THEN Rej(S) ELSE Ok(SelectAtoms(A, r1.pos), <<>>)
    ELSE
      \* an integer in the atom axis keeps the dimension (a stack with one atom)
      IF Has(S.bonds) /\ HasDup(r1.pos) THEN Rej(S)
      ELSE LET T == SelectAtoms(S, r1.pos) IN Ok(SelectModels(T, r0.pos), <<>>)

(* ---------------------------------------------------------------- operands for concat *)
\* desc = <<k, hasBonds, hasBox, ex>>: an object of the same kind and depth as S with k fresh
\* atoms (uids 51.., tag 0), a path of single bonds, box value 9
Operand(S, desc) ==
  [kind |-> S.kind,
   a |-> [i \in 1..desc[1] |-> <<50 + i, 0>>],
   z |-> [k \in 1..D(S) |-> [i \in 1..desc[1] |-> 1000 * k + 10 * (50 + i)]],
   box |-> IF desc[3] THEN <<[k \in 1..D(S) |-> 9]>> ELSE NoneV,
   bonds |-> IF desc[2] THEN <<{<<i - 1, i, 1>> : i \in 1..(desc[1] - 1)}>> ELSE NoneV,
   ex |-> desc[4]]

ConcatObjs(A, B) ==
  [kind |-> A.kind,
   a |-> A.a \o B.a,
   z |-> [k \in 1..D(A) |-> A.z[k] \o B.z[k]],
   box |-> IF Has(A.box) THEN A.box ELSE B.box,
   bonds |-> IF ~Has(A.bonds) /\ ~Has(B.bonds) THEN NoneV
             ELSE <<Concat(IF Has(A.bonds) THEN Get(A.bonds) ELSE {}, N(A),
                           IF Has(B.bonds) THEN Get(B.bonds) ELSE {})>>,
   ex |-> A.ex \cap B.ex]

Rep(s, k) == [i \in 1..(Len(s) * k) |-> s[((i - 1) % Len(s)) + 1]]
RepBonds(B, n, k) == UNION {Shift(B, n * j) : j \in 0..(k - 1)}

(* ---------------------------------------------------------------- Apply *)
Apply(S, op, arg) ==
  CASE op = "new" -> Ok(arg, <<>>)                       \* a freshly built object (constant)
    [] op = "index" -> IF S.kind = "array" THEN IndexArray(S, arg) ELSE IndexStack(S, arg)
    [] op = "concat" -> Ok(ConcatObjs(S, Operand(S, arg)), <<>>)
    [] op = "rconcat" -> Ok(ConcatObjs(Operand(S, arg), S), <<>>)
    [] op = "to_stack" ->       \* stack([S, S', ...]) with arg[1] arrays; model j has cells + 100000*j
         IF S.kind # "array" THEN Rej(S)
         ELSE Ok([S EXCEPT !.kind = "stack",
                           !.z = [j \in 1..arg[1] |-> [i \in 1..N(S) |-> S.z[1][i] + 100000 * (j - 1)]],
                           !.box = IF Has(S.box) THEN <<[j \in 1..arg[1] |-> Get(S.box)[1]]>> ELSE NoneV],
                 <<>>)
    [] op = "repeat" ->         \* arg[1] >= 0 repetitions (0: no atoms are left); copy j has cells + 200000*j
         Ok([S EXCEPT !.a = Rep(S.a, arg[1]),
                      !.z = [k \in 1..D(S) |->
                               [i \in 1..(N(S) * arg[1]) |->
                                  S.z[k][((i - 1) % N(S)) + 1] + 200000 * ((i - 1) \div N(S))]],
                      !.bonds = IF Has(S.bonds) THEN <<RepBonds(Get(S.bonds), N(S), arg[1])>> ELSE NoneV],
            <<>>)
    [] op = "del_atom" ->       \* del array[i]; arg = <<i, form>>  (stacks have no public atom deletion)
         IF S.kind # "array" \/ ~InRange(arg[1], N(S)) THEN Rej(S)
         ELSE LET p == WrapOne(arg[1], N(S))
                  keep == [k \in 1..(N(S) - 1) |-> IF k <= p THEN k - 1 ELSE k]
              IN Ok(SelectAtoms(S, keep), <<>>)
    [] op = "del_model" ->      \* del stack[i]; arg = <<i, form>>
         IF S.kind # "stack" \/ ~InRange(arg[1], D(S)) THEN Rej(S)
         ELSE LET p == WrapOne(arg[1], D(S))
                  keep == [k \in 1..(D(S) - 1) |-> IF k <= p THEN k - 1 ELSE k]
              IN Ok(SelectModels(S, keep), <<>>)
    [] op = "set_atom" ->       \* array[i] = Atom;  arg = <<i, uid, tag, cell, form>>, the atom carries exactly S.ex
         IF S.kind # "array" \/ ~InRange(arg[1], N(S)) THEN Rej(S)
         ELSE LET p == WrapOne(arg[1], N(S)) + 1 IN
              Ok([S EXCEPT !.a[p] = <<arg[2], arg[3]>>,
                           !.z = [k \in 1..D(S) |-> [S.z[k] EXCEPT ![p] = arg[4]]]], <<>>)
    [] op = "swap_atoms" ->     \* arg = <<i, j, form of i, form of j>>
                                \* tmp = array[i]; array[i] = array[j]; array[j] = tmp   (list-of-atoms semantics:
                                \* an atom taken out of the array is a value of its own)
         IF S.kind # "array" \/ ~InRange(arg[1], N(S)) \/ ~InRange(arg[2], N(S)) THEN Rej(S)
         ELSE LET p == WrapOne(arg[1], N(S)) + 1  q == WrapOne(arg[2], N(S)) + 1 IN
              Ok([S EXCEPT !.a = [S.a EXCEPT ![p] = S.a[q], ![q] = S.a[p]],
                           !.z = <<[S.z[1] EXCEPT ![p] = S.z[1][q], ![q] = S.z[1][p]]>>], <<>>)
    [] op = "take_then_overwrite" ->   \* tmp = array[i]; array[i] = Atom(arg[2..4]); the value read from tmp afterwards; arg[5] = form of i
         IF S.kind # "array" \/ ~InRange(arg[1], N(S)) THEN Rej(S)
         ELSE LET p == WrapOne(arg[1], N(S)) + 1 IN
              Ok([S EXCEPT !.a[p] = <<arg[2], arg[3]>>,
                           !.z = <<[S.z[1] EXCEPT ![p] = arg[4]]>>], AtomOut(S, 1, p - 1))
    [] op = "set_model" ->      \* stack[i] = get_array(j) with every cell shifted by arg[3]; arg[4], arg[5] = forms of i, j
         IF S.kind # "stack" \/ ~InRange(arg[1], D(S)) \/ ~InRange(arg[2], D(S)) THEN Rej(S)
         ELSE LET i == WrapOne(arg[1], D(S)) + 1  j == WrapOne(arg[2], D(S)) + 1 IN
              Ok([S EXCEPT !.z[i] = [k \in 1..N(S) |-> S.z[j][k] + arg[3]],
                           !.box = IF Has(S.box) THEN <<[Get(S.box) EXCEPT ![i] = Get(S.box)[j]]>> ELSE NoneV],
                 <<>>)
    [] op = "set_annot" ->      \* res_id := arg[1]
         IF Len(arg[1]) # N(S) THEN Rej(S)
         ELSE Ok([S EXCEPT !.a = [k \in 1..N(S) |-> <<S.a[k][1], arg[1][k]>>]], <<>>)
    [] op = "add_extra" -> Ok([S EXCEPT !.ex = S.ex \cup {arg[1]}], <<>>)
    [] op = "del_extra" -> Ok([S EXCEPT !.ex = S.ex \ {arg[1]}], <<>>)
    [] op = "set_bonds" ->      \* arg = <<n, rows>> as for the BondList constructor
         IF arg[1] # N(S) \/ ~RowsInRange(arg[2], arg[1]) THEN Rej(S)
         ELSE Ok([S EXCEPT !.bonds = <<ConstructSet(arg[2], arg[1])>>], <<>>)
    [] op = "clear_bonds" -> Ok([S EXCEPT !.bonds = NoneV], <<>>)
    [] op = "set_box" -> Ok([S EXCEPT !.box = <<[k \in 1..D(S) |-> arg[1] + k]>>], <<>>)
    [] op = "clear_box" -> Ok([S EXCEPT !.box = NoneV], <<>>)
    [] op = "copy" -> Ok(S, <<>>)
    \* copy, then overwrite every mutable part of the copy in place: the original must not move
    [] op = "copy_poke" -> Ok(S, "original_unchanged")
    \* mutate the original in place after copying: the copy must not move
    [] op = "poke_after_copy" -> Ok(S, "copy_unchanged")
    \* derive an object that holds all atoms (arg[1] = "slice": [0:n]; "model": the first model of a stack /
    \* get_array(0); "repeat1": repeat() with one repetition; "stack1": stack() of the array alone), assign every
    \* annotation of the DERIVED object as a whole (set_annotation with values of the same dtype) and, for the
    \* slice, edit its bond list: the object at hand must not move (an annotation edit rebinds, it never writes through)
    [] op = "derived_edit" -> Ok(S, "source_unchanged")
    [] op = "from_template" ->  \* arg = <<depth, withBox>>: new stack, cells 300000 + 1000*k + i
         Ok([S EXCEPT !.kind = "stack",
                      !.z = [k \in 1..arg[1] |-> [i \in 1..N(S) |-> 300000 + 1000 * k + i]],
                      !.box = IF arg[2] THEN <<[k \in 1..arg[1] |-> 4]>> ELSE NoneV], <<>>)

(* a freshly built object: k atoms with uids u0+1.., tags = uid, d models *)
Fresh(kind, k, d, u0, withBonds, withBox, ex) ==
  [kind |-> kind,
   a |-> [i \in 1..k |-> <<u0 + i, u0 + i>>],
   z |-> [j \in 1..d |-> [i \in 1..k |-> 1000 * j + 10 * (u0 + i)]],
   box |-> IF withBox THEN <<[j \in 1..d |-> 2 + j]>> ELSE NoneV,
   bonds |-> IF withBonds THEN <<{<<i - 1, i, 1 + (i % 2) * 4>> : i \in 1..(k - 1)} \cup
                                  (IF k >= 3 THEN {<<0, k - 1, 2>>} ELSE {})>> ELSE NoneV,
   ex |-> ex]
=============================================================================
