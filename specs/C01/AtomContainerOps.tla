--------------------------- MODULE AtomContainerOps ---------------------------
(* C01: biotite.structure.AtomArray / AtomArrayStack as a reference model.

   An object is a record
     kind  : "array" | "stack"
     a     : sequence of atoms <<uid, tag>>  (uid identifies the atom: it is its atom_name;
             tag is an editable integer annotation, res_id; every other annotation, incl. the
             optional ones in ex, is a fixed function of uid, so "annotations follow the atom"
             is observable through them)
     z     : per model (exactly one for an array), per atom, one integer "cell" standing
             for the coordinate triple
             (the driver realises cell c as the float32 triple (c, c/2, -c), exact)
     box   : <<>> (no box) or <<b>> with b a sequence of integers, one per model
     bonds : <<>> (no bond list) or <<B>> with B a BondOps bond set over positions
     ex    : set of optional annotation categories present
   This *is* the list-of-atoms reference model of the property: every operation below is
   defined by what it does to the list of atoms, the list of models, and the bond mapping.

   Apply(S, op, arg) = [st |-> S', oc |-> "ok" | "Rejected", out |-> value]
   "Rejected" = any exception, object unchanged. *)
EXTENDS BondOps, TLC

Extras == {"b_factor", "flag", "label"}

N(S) == Len(S.a)
D(S) == Len(S.z)
NoneV == <<>>
Has(o) == o # <<>>
Get(o) == o[1]

Sel(s, pos) == [k \in 1..Len(pos) |-> s[pos[k] + 1]]
Without(s, p) == [k \in 1..(Len(s) - 1) |-> IF k <= p THEN s[k] ELSE s[k + 1]]   \* drop 0-based p
Ok(S, out) == [st |-> S, oc |-> "ok", out |-> out]
Rej(S) == [st |-> S, oc |-> "Rejected", out |-> <<>>]

(* ---------------------------------------------------------------- coherence *)
Coherent(S) ==
  /\ S.kind \in {"array", "stack"}
  /\ (S.kind = "array" => D(S) = 1)
  /\ \A k \in 1..D(S) : Len(S.z[k]) = N(S)
  /\ (Has(S.box) => Len(Get(S.box)) = D(S))
  /\ (Has(S.bonds) => Canonical(Get(S.bonds), N(S)))
  /\ S.ex \subseteq Extras

Uids(S) == {S.a[k][1] : k \in 1..N(S)}
UniqueUids(S) == Cardinality(Uids(S)) = N(S)
\* bonds expressed between atom uids (position independent)
UidBonds(S) ==
  IF Has(S.bonds)
    THEN {<<{S.a[b[1] + 1][1], S.a[b[2] + 1][1]}, b[3]>> : b \in Get(S.bonds)}
    ELSE {}

(* ---------------------------------------------------------------- building blocks *)
SelectAtoms(S, pos) ==
  [S EXCEPT !.a = Sel(S.a, pos),
            !.z = [k \in 1..D(S) |-> Sel(S.z[k], pos)],
            !.bonds = IF Has(S.bonds) THEN <<IndexBonds(Get(S.bonds), pos)>> ELSE NoneV]

SelectModels(S, mpos) ==
  [S EXCEPT !.z = Sel(S.z, mpos),
            !.box = IF Has(S.box) THEN <<Sel(Get(S.box), mpos)>> ELSE NoneV]

\* atom-axis indexing with a non-integer index object; duplicates are refused when a bond
\* list is present (documented NotImplementedError)
IndexAtomsBy(S, idx) ==
  LET r == Resolve(idx, N(S)) IN
  IF ~r.ok THEN Rej(S)
  ELSE IF Has(S.bonds) /\ HasDup(r.pos) THEN Rej(S)
  ELSE Ok(SelectAtoms(S, r.pos), <<>>)

AtomOut(S, mi, p) == <<S.a[p + 1][1], S.a[p + 1][2], S.z[mi][p + 1]>>   \* uid, tag, cell

ModelAsArray(S, p) ==
  [S EXCEPT !.kind = "array", !.z = <<S.z[p + 1]>>,
            !.box = IF Has(S.box) THEN <<<<Get(S.box)[p + 1]>>>> ELSE NoneV]

IsInt(idx) == idx[1] = "int"

(* ---------------------------------------------------------------- indexing *)
\* arg = <<"1d", idx>> or <<"2d", idx0, idx1>>
RECURSIVE IndexArray(_, _)
IndexArray(S, arg) ==
  IF arg[1] = "2d"
    THEN IF arg[2][1] = "ell" THEN IndexArray(S, <<"1d", arg[3]>>) ELSE Rej(S)
    ELSE LET idx == arg[2]  r == Resolve(idx, N(S)) IN
         IF IsInt(idx)
           THEN IF r.ok THEN Ok(S, AtomOut(S, 1, r.pos[1])) ELSE Rej(S)
           ELSE IndexAtomsBy(S, idx)

IndexStack(S, arg) ==
  IF arg[1] = "1d" THEN
    LET idx == arg[2]  r == Resolve(idx, D(S)) IN
    IF ~r.ok THEN Rej(S)
    ELSE IF IsInt(idx) THEN Ok(ModelAsArray(S, r.pos[1]), <<>>)
    ELSE Ok(SelectModels(S, r.pos), <<>>)
  ELSE
    LET i0 == arg[2]  i1 == arg[3]
        r0 == Resolve(i0, D(S))  r1 == Resolve(i1, N(S)) IN
    IF ~r0.ok \/ ~r1.ok THEN Rej(S)
    ELSE IF IsInt(i0) THEN
      \* one model first, then that array is indexed
      IF IsInt(i1) THEN Ok(S, AtomOut(S, r0.pos[1] + 1, r1.pos[1]))
      ELSE LET A == ModelAsArray(S, r0.pos[1]) IN
           IF Has(S.bonds) /\ HasDup(r1.pos) THEN Rej(S) ELSE Ok(SelectAtoms(A, r1.pos), <<>>)
    ELSE
      \* an integer in the atom axis keeps the dimension (a stack with one atom)
      IF Has(S.bonds) /\ HasDup(r1.pos) THEN Rej(S)
      ELSE LET T == SelectAtoms(S, r1.pos) IN Ok(SelectModels(T, r0.pos), <<>>)

(* ---------------------------------------------------------------- operands for concat *)
\* desc = <<k, hasBonds, hasBox, ex>>: an object of the same kind and depth as S with k fresh
\* atoms (uids 51.., tag 0), a path of single bonds, box value 9
Operand(S, desc) ==
  [kind |-> S.kind,
   a |-> [i \in 1..desc[1] |-> <<50 + i, 0>>],
   z |-> [k \in 1..D(S) |-> [i \in 1..desc[1] |-> 1000 * k + 10 * (50 + i)]],
   box |-> IF desc[3] THEN <<[k \in 1..D(S) |-> 9]>> ELSE NoneV,
   bonds |-> IF desc[2] THEN <<{<<i - 1, i, 1>> : i \in 1..(desc[1] - 1)}>> ELSE NoneV,
   ex |-> desc[4]]

ConcatObjs(A, B) ==
  [kind |-> A.kind,
   a |-> A.a \o B.a,
   z |-> [k \in 1..D(A) |-> A.z[k] \o B.z[k]],
   box |-> IF Has(A.box) THEN A.box ELSE B.box,
   bonds |-> IF ~Has(A.bonds) /\ ~Has(B.bonds) THEN NoneV
             ELSE <<Concat(IF Has(A.bonds) THEN Get(A.bonds) ELSE {}, N(A),
                           IF Has(B.bonds) THEN Get(B.bonds) ELSE {})>>,
   ex |-> A.ex \cap B.ex]

Rep(s, k) == [i \in 1..(Len(s) * k) |-> s[((i - 1) % Len(s)) + 1]]
RepBonds(B, n, k) == UNION {Shift(B, n * j) : j \in 0..(k - 1)}

(* ---------------------------------------------------------------- Apply *)
Apply(S, op, arg) ==
  CASE op = "new" -> Ok(arg, <<>>)                       \* a freshly built object (constant)
    [] op = "index" -> IF S.kind = "array" THEN IndexArray(S, arg) ELSE IndexStack(S, arg)
    [] op = "concat" -> Ok(ConcatObjs(S, Operand(S, arg)), <<>>)
    [] op = "rconcat" -> Ok(ConcatObjs(Operand(S, arg), S), <<>>)
    [] op = "to_stack" ->       \* stack([S, S', ...]) with arg[1] arrays; model j has cells + 100000*j
         IF S.kind # "array" THEN Rej(S)
         ELSE Ok([S EXCEPT !.kind = "stack",
                           !.z = [j \in 1..arg[1] |-> [i \in 1..N(S) |-> S.z[1][i] + 100000 * (j - 1)]],
                           !.box = IF Has(S.box) THEN <<[j \in 1..arg[1] |-> Get(S.box)[1]]>> ELSE NoneV],
                 <<>>)
    [] op = "repeat" ->         \* arg[1] >= 1 repetitions; copy j has cells + 200000*j
         Ok([S EXCEPT !.a = Rep(S.a, arg[1]),
                      !.z = [k \in 1..D(S) |->
                               [i \in 1..(N(S) * arg[1]) |->
                                  S.z[k][((i - 1) % N(S)) + 1] + 200000 * ((i - 1) \div N(S))]],
                      !.bonds = IF Has(S.bonds) THEN <<RepBonds(Get(S.bonds), N(S), arg[1])>> ELSE NoneV],
            <<>>)
    [] op = "del_atom" ->       \* del array[i]  (stacks have no public atom deletion)
         IF S.kind # "array" \/ ~InRange(arg[1], N(S)) THEN Rej(S)
         ELSE LET p == WrapOne(arg[1], N(S))
                  keep == [k \in 1..(N(S) - 1) |-> IF k <= p THEN k - 1 ELSE k]
              IN Ok(SelectAtoms(S, keep), <<>>)
    [] op = "del_model" ->
         IF S.kind # "stack" \/ ~InRange(arg[1], D(S)) THEN Rej(S)
         ELSE LET p == WrapOne(arg[1], D(S))
                  keep == [k \in 1..(D(S) - 1) |-> IF k <= p THEN k - 1 ELSE k]
              IN Ok(SelectModels(S, keep), <<>>)
    [] op = "set_atom" ->       \* array[i] = Atom;  arg = <<i, uid, tag, cell>>, the atom carries exactly S.ex
         IF S.kind # "array" \/ ~InRange(arg[1], N(S)) THEN Rej(S)
         ELSE LET p == WrapOne(arg[1], N(S)) + 1 IN
              Ok([S EXCEPT !.a[p] = <<arg[2], arg[3]>>,
                           !.z = [k \in 1..D(S) |-> [S.z[k] EXCEPT ![p] = arg[4]]]], <<>>)
    [] op = "swap_atoms" ->     \* tmp = array[i]; array[i] = array[j]; array[j] = tmp   (list-of-atoms semantics:
                                \* an atom taken out of the array is a value of its own)
         IF S.kind # "array" \/ ~InRange(arg[1], N(S)) \/ ~InRange(arg[2], N(S)) THEN Rej(S)
         ELSE LET p == WrapOne(arg[1], N(S)) + 1  q == WrapOne(arg[2], N(S)) + 1 IN
              Ok([S EXCEPT !.a = [S.a EXCEPT ![p] = S.a[q], ![q] = S.a[p]],
                           !.z = <<[S.z[1] EXCEPT ![p] = S.z[1][q], ![q] = S.z[1][p]]>>], <<>>)
    [] op = "take_then_overwrite" ->   \* tmp = array[i]; array[i] = Atom(arg[2..4]); the value read from tmp afterwards
         IF S.kind # "array" \/ ~InRange(arg[1], N(S)) THEN Rej(S)
         ELSE LET p == WrapOne(arg[1], N(S)) + 1 IN
              Ok([S EXCEPT !.a[p] = <<arg[2], arg[3]>>,
                           !.z = <<[S.z[1] EXCEPT ![p] = arg[4]]>>], AtomOut(S, 1, p - 1))
    [] op = "set_model" ->      \* stack[i] = get_array(j) with every cell shifted by arg[3]
         IF S.kind # "stack" \/ ~InRange(arg[1], D(S)) \/ ~InRange(arg[2], D(S)) THEN Rej(S)
         ELSE LET i == WrapOne(arg[1], D(S)) + 1  j == WrapOne(arg[2], D(S)) + 1 IN
              Ok([S EXCEPT !.z[i] = [k \in 1..N(S) |-> S.z[j][k] + arg[3]],
                           !.box = IF Has(S.box) THEN <<[Get(S.box) EXCEPT ![i] = Get(S.box)[j]]>> ELSE NoneV],
                 <<>>)
    [] op = "set_annot" ->      \* res_id := arg[1]
         IF Len(arg[1]) # N(S) THEN Rej(S)
         ELSE Ok([S EXCEPT !.a = [k \in 1..N(S) |-> <<S.a[k][1], arg[1][k]>>]], <<>>)
    [] op = "add_extra" -> Ok([S EXCEPT !.ex = S.ex \cup {arg[1]}], <<>>)
    [] op = "del_extra" -> Ok([S EXCEPT !.ex = S.ex \ {arg[1]}], <<>>)
    [] op = "set_bonds" ->      \* arg = <<n, rows>> as for the BondList constructor
         IF arg[1] # N(S) \/ ~RowsInRange(arg[2], arg[1]) THEN Rej(S)
         ELSE Ok([S EXCEPT !.bonds = <<ConstructSet(arg[2], arg[1])>>], <<>>)
    [] op = "clear_bonds" -> Ok([S EXCEPT !.bonds = NoneV], <<>>)
    [] op = "set_box" -> Ok([S EXCEPT !.box = <<[k \in 1..D(S) |-> arg[1] + k]>>], <<>>)
    [] op = "clear_box" -> Ok([S EXCEPT !.box = NoneV], <<>>)
    [] op = "copy" -> Ok(S, <<>>)
    \* copy, then overwrite every mutable part of the copy in place: the original must not move
    [] op = "copy_poke" -> Ok(S, "original_unchanged")
    \* mutate the original in place after copying: the copy must not move
    [] op = "poke_after_copy" -> Ok(S, "copy_unchanged")
    [] op = "from_template" ->  \* arg = <<depth, withBox>>: new stack, cells 300000 + 1000*k + i
         Ok([S EXCEPT !.kind = "stack",
                      !.z = [k \in 1..arg[1] |-> [i \in 1..N(S) |-> 300000 + 1000 * k + i]],
                      !.box = IF arg[2] THEN <<[k \in 1..arg[1] |-> 4]>> ELSE NoneV], <<>>)

(* a freshly built object: k atoms with uids u0+1.., tags = uid, d models *)
Fresh(kind, k, d, u0, withBonds, withBox, ex) ==
  [kind |-> kind,
   a |-> [i \in 1..k |-> <<u0 + i, u0 + i>>],
   z |-> [j \in 1..d |-> [i \in 1..k |-> 1000 * j + 10 * (u0 + i)]],
   box |-> IF withBox THEN <<[j \in 1..d |-> 2 + j]>> ELSE NoneV,
   bonds |-> IF withBonds THEN <<{<<i - 1, i, 1 + (i % 2) * 4>> : i \in 1..(k - 1)} \cup
                                  (IF k >= 3 THEN {<<0, k - 1, 2>>} ELSE {})>> ELSE NoneV,
   ex |-> ex]
=============================================================================
