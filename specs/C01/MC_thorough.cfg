SPECIFICATION Spec
CONSTANTS
  MaxN = 4
  MaxD = 2
  Depth = 3
  Rich = TRUE
  Shaped = FALSE
  FormLevel = 0
INVARIANT InvCoherent
PROPERTY RefusalIsNoOp
PROPERTY BondsFollowAtoms
CHECK_DEADLOCK FALSE
