SPECIFICATION Spec
CONSTANTS
  MaxN = 4
  MaxD = 2
  Depth = 3
  Rich = TRUE
  FormLevel = 0
INVARIANT InvCoherent
PROPERTY RefusalIsNoOp
PROPERTY BondsFollowAtoms
CHECK_DEADLOCK FALSE
