------------------------------- MODULE Trace -------------------------------
(* C01 direction B: operation histories recorded from real AtomArray / AtomArrayStack objects,
   validated event by event against AtomContainerOps.Apply.
   Event: {op, arg, oc, out, obs}; obs = projection of the object after the call
   {kind, a, z, box, bonds, ex} with sets written as sorted lists.
   Index objects and integer positions carry their form (AtomContainerOps, "index forms"): the
   expected value is computed from kind and payload alone, whatever the form. *)
EXTENDS AtomContainerOps, Json, IOUtils

Tr == JsonDeserialize(IOEnv.TRACE_FILE)

VARIABLES tid, l, S
tvars == <<tid, l, S>>

FromObs(o) ==
  [kind |-> o.kind, a |-> o.a, z |-> o.z, box |-> o.box,
   bonds |-> IF o.bonds = <<>> THEN <<>> ELSE <<ToSet(o.bonds[1])>>,
   ex |-> ToSet(o.ex)]

\* arguments whose JSON form differs from the spec's value
Arg(e) ==
  CASE e.op = "new" -> FromObs(e.arg)
    [] e.op \in {"concat", "rconcat"} -> <<e.arg[1], e.arg[2], e.arg[3], ToSet(e.arg[4])>>
    [] OTHER -> e.arg

\* a returned Atom is logged as [uid, tag, cell, sorted list of the optional annotations it carries]
OutOf(e) ==
  IF e.op \in {"index", "take_then_overwrite"} /\ e.oc = "ok" /\ e.out # <<>>
    THEN <<e.out[1], e.out[2], e.out[3], ToSet(e.out[4])>>
    ELSE e.out

\* an event whose index forms are outside the form domain is a defect of the driver, not of the
\* code: it is reported with the outcome "OutsideDomain" (the driver turns it into a machinery failure)
Judge(e, r) ==
  LET okOc  == r.oc = e.oc
      okObs == r.st = FromObs(e.obs)
      okOut == (r.oc # "ok" \/ e.oc # "ok") \/ r.out = OutOf(e)
  IN IF ~Dom_Call(e.op, Arg(e)) \/ (e.op = "index" /\ ~Dom_Index(S, Arg(e)))
       THEN PrintT(<<"MISMATCH", tid, l + 1, <<FALSE, FALSE, FALSE>>, "OutsideDomain", <<>>, <<>>>>)
     ELSE IF okOc /\ okObs /\ okOut THEN TRUE
     ELSE PrintT(<<"MISMATCH", tid, l + 1, <<okOc, okObs, okOut>>, r.oc, r.out,
                   [kind |-> r.st.kind, a |-> r.st.a, z |-> r.st.z, box |-> r.st.box,
                    bonds |-> r.st.bonds, ex |-> r.st.ex]>>)

EmptyObj == Fresh("array", 0, 1, 0, FALSE, FALSE, {})

Init == tid \in 1..Len(Tr) /\ l = 0 /\ S = EmptyObj

Next ==
  /\ l < Len(Tr[tid])
  /\ l' = l + 1
  /\ UNCHANGED tid
  /\ LET e == Tr[tid][l + 1]
         r == Apply(S, e.op, Arg(e))
     IN /\ Judge(e, r)
        /\ S' = FromObs(e.obs)          \* resynchronise on the logged observation

Spec == Init /\ [][Next]_tvars
=============================================================================
