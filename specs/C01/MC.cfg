SPECIFICATION Spec
CONSTANTS
  MaxN = 4
  MaxD = 2
  Depth = 2
  Rich = FALSE
  Shaped = TRUE
  FormLevel = 1
INVARIANT InvCoherent
PROPERTY RefusalIsNoOp
PROPERTY BondsFollowAtoms
CHECK_DEADLOCK FALSE
