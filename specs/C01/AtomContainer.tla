---------------------------- MODULE AtomContainer ----------------------------
(* C01: exhaustive exploration of operation sequences on one atom array / stack.
   The call universe is a constant set tagged with (kind, atom count, depth) so that TLC
   labels every edge of the state graph with the call (see harness/README.md). *)
EXTENDS AtomContainerOps

CONSTANTS MaxN, MaxD, Depth, Rich, FormLevel, Shaped

VARIABLES S, oc, out, op
vars == <<S, oc, out, op>>

Seeds ==
  {Fresh("array", k, 1, 0, wb, wx, ex) :
     k \in 0..3, wb \in BOOLEAN, wx \in BOOLEAN, ex \in {{}, ScalarExtras}}
  \cup {Fresh("stack", k, d, 0, wb, wx, {}) : k \in {0, 2, 3}, d \in {1, 2}, wb \in BOOLEAN, wx \in BOOLEAN}
  \* objects whose optional annotations include the array-valued ones (ShapedExtras), arrays and stacks
  \cup (IF Shaped THEN {Fresh("array", k, 1, 0, wb, wb, Extras) : k \in 0..3, wb \in BOOLEAN}
                        \cup {Fresh("array", k, 1, 0, FALSE, TRUE, ShapedExtras) : k \in {1, 3}}
                        \cup {Fresh("stack", k, d, 0, wb, ~wb, Extras) : k \in {0, 2, 3}, d \in {1, 2}, wb \in BOOLEAN}
                   ELSE {})

OneD(n) ==
  IntIdx((-n-1)..n) \cup MaskIdx(n)
  \cup (IF Rich THEN SliceIdx({-4, -1, 0, 1, 2}, {-4, -2, 0, 1, 3}, {-2, -1, 1, 2, 0})
                ELSE SliceIdx({-1, 1}, {-2, 0, 2}, {-1, 2}))
  \cup ArrIdx((-n)..(n-1), IF Rich THEN Min2(n, 3) ELSE Min2(n, 2))
  \cup {<<"arr", <<n>>>>, <<"arr", <<0, 0>>>>, <<"arr", <<n - 1, 0, -1>>>>}
  \cup AllIdx

\* model-axis indices for the two-dimensional form
ModelIdx(d) == IntIdx((-d-1)..d) \cup EllIdx \cup AllIdx \cup MaskIdx(d)
               \cup {<<"slice", <<<<1>>, <<>>, <<>>>>>>, <<"slice", <<<<>>, <<>>, <<-1>>>>>>,
                     <<"arr", <<d - 1, 0>>>>, <<"arr", <<-1>>>>}
\* atom-axis indices for the two-dimensional form (a smaller zoo than OneD)
\* (Ellipsis is documented as the *first* component of a 2-tuple only; `x[idx, ...]` is not generated)
AtomIdx2(n) == IntIdx((-n)..(n-1)) \cup MaskIdx(n) \cup AllIdx
               \cup {<<"slice", <<<<1>>, <<>>, <<>>>>>>, <<"slice", <<<<>>, <<>>, <<-1>>>>>>,
                     <<"slice", <<<<-2>>, <<>>, <<>>>>>>, <<"arr", <<n - 1, 0>>>>, <<"arr", <<-1, -1>>>>}

(* ---- index forms (see AtomContainerOps): which forms the call universe enumerates.
   FormLevel 0 = the default form of every kind only (the meaning of a call does not depend on the
   form, so the invariants of the deep S1 run need no more); 1 = the core forms; 2 = every form. *)
IntF   == CASE FormLevel = 0 -> {"py"} [] FormLevel = 1 -> {"py", "i64", "i32", "u8", "u64", "a0"}
            [] OTHER -> IntForms
ArrF   == CASE FormLevel = 0 -> {"i64"} [] FormLevel = 1 -> {"list", "i64", "i32", "u8", "u64"}
            [] OTHER -> ArrForms
MaskF  == IF FormLevel = 0 THEN {"np"} ELSE MaskForms
SliceF == IF FormLevel = 0 THEN {"py"} ELSE SliceForms
ScalarF == IntF \ {"a0"}
UsedForms(kind) == CASE kind = "int" -> IntF [] kind = "arr" -> ArrF [] kind = "mask" -> MaskF
                     [] kind = "slice" -> SliceF [] OTHER -> {"py"}
\* every index of X in every admissible NON-default form
Alt(X) == {y \in UNION {{WithForm(x, f) : f \in UsedForms(x[1]) \ {DefaultForm(x[1])}} : x \in X} :
             Dom_Form(y)}

Sl(a, b, c) == <<"slice", <<a, b, c>>>>
AltMask(n) == <<"mask", [i \in 1..n |-> i % 2 = 1]>>
\* the values taken in every form: every kind, both ends, negative, empty, duplicate, out of range
ZooInts(n) == {0, n - 1, -1, -n, n}
Zoo(n) == IntIdx(ZooInts(n))
          \cup {<<"arr", <<>>>>, <<"arr", <<n - 1, 0>>>>, <<"arr", <<-1>>>>, <<"arr", <<0, 0>>>>, <<"arr", <<n>>>>}
          \cup MaskIdx(n)
          \cup {Sl(<<1>>, <<>>, <<>>), Sl(<<>>, <<>>, <<-1>>), Sl(<<-2>>, <<>>, <<>>), Sl(<<-1>>, <<0>>, <<-1>>),
                Sl(<<>>, <<2>>, <<2>>)}
\* one index of every kind (default form) to stand in the other position of a 2-tuple
Reps(n) == {<<"int", <<n - 1>>>>, <<"int", <<-1>>>>, Sl(<<1>>, <<>>, <<>>), AltMask(n), <<"arr", <<n - 1, 0>>>>,
            <<"all", <<>>>>}
\* both positions in a non-default form
Diag(d, n) ==
  {a \in UNION {{<<"2d", x0, x1>> : x0 \in {<<"int", <<d - 1>>, f>>, <<"arr", <<0>>, f>>},
                                    x1 \in {<<"int", <<0>>, f>>, <<"arr", <<n - 1, 0>>, f>>}} :
                  f \in IntF \cap ArrF} : Dom_Form(a[2]) /\ Dom_Form(a[3])}
  \cup (IF FormLevel = 0 THEN {}
        ELSE {<<"2d", <<"int", <<d - 1>>, "a0">>, <<"int", <<0>>, "a0">>>>,
              <<"2d", <<"arr", <<0>>, "list">>, <<"arr", <<n - 1, 0>>, "list">>>>,
              <<"2d", <<"mask", [i \in 1..d |-> TRUE], "list">>, WithForm(AltMask(n), "list")>>,
              <<"2d", WithForm(Sl(<<>>, <<>>, <<-1>>), "np"), WithForm(Sl(<<1>>, <<>>, <<>>), "np")>>,
              <<"2d", <<"int", <<0>>, "i64">>, WithForm(AltMask(n), "list")>>,
              <<"2d", WithForm(Sl(<<>>, <<>>, <<-1>>), "np"), <<"int", <<-1>>, "i64">>>>})

IndexArgs(kind, n, d) ==
  IF kind = "array"
    THEN {<<"1d", x>> : x \in Dflt(OneD(n)) \cup Alt(Zoo(n))}
         \cup {<<"2d", <<"ell", <<>>, "py">>, x>> : x \in Dflt(AtomIdx2(n)) \cup Alt(Zoo(n))}
         \cup {<<"2d", <<"all", <<>>, "py">>, <<"all", <<>>, "py">>>>}
    ELSE {<<"1d", x>> : x \in Dflt(ModelIdx(d)) \cup Alt(Zoo(d))}
         \cup {a \in {<<"2d", x0, x1>> : x0 \in Dflt(ModelIdx(d)), x1 \in Dflt(AtomIdx2(n))}
                      \cup {<<"2d", x0, x1>> : x0 \in Alt(Zoo(d)), x1 \in Dflt(Reps(n))}
                      \cup {<<"2d", x0, x1>> : x0 \in Dflt(Reps(d) \cup EllIdx), x1 \in Alt(Zoo(n))}
                      \cup Diag(d, n) :
                 \* Dom_Index for a stack of n atoms
                 (a[3][1] = "int" /\ a[2][1] # "int") => InRange(a[3][2][1], n)}

\* integer positions of deletion / assignment: every value as a Python int, the ZooInts in every
\* other scalar form
IntArgs(vals, zoo) ==
  {<<i, "py">> : i \in vals}
  \cup {x \in {<<i, f>> : i \in zoo \cap vals, f \in ScalarF \ {"py"}} : FitsForm(x[1], x[2])}
FormPairs == {<<f, f>> : f \in ScalarF} \cup (IF FormLevel = 0 THEN {} ELSE {<<"i64", "py">>, <<"py", "i64">>})
\* pairs of integer positions: every pair as Python ints, a few pairs in every combination of forms
IntPairArgs(vi, vj, zi, zj) ==
  {<<i, j, "py", "py">> : i \in vi, j \in vj}
  \cup {x \in {<<i, j, fp[1], fp[2]>> : i \in zi \cap vi, j \in zj \cap vj, fp \in FormPairs} :
          FitsForm(x[1], x[3]) /\ FitsForm(x[2], x[4])}

\* operands lacking all / some / none of the optional annotations (scalar and array-valued)
OperandDescs == {<<0, FALSE, FALSE, {}>>, <<2, TRUE, FALSE, {}>>, <<2, FALSE, TRUE, {"flag", "grid"}>>,
                 <<1, TRUE, TRUE, Extras>>}

CallsFor(kind, n, d) ==
       {<<"index", x>> : x \in IndexArgs(kind, n, d)}
  \cup {<<"concat", x>> : x \in OperandDescs}
  \cup {<<"rconcat", x>> : x \in OperandDescs}
  \cup (IF kind = "array" THEN {<<"to_stack", <<k>>>> : k \in 1..2} ELSE {})
  \cup {<<"repeat", <<k>>>> : k \in 0..2}
  \cup (IF kind = "array" THEN {<<"del_atom", x>> : x \in IntArgs((-n-1)..n, ZooInts(n))} ELSE {})
  \cup (IF kind = "stack" THEN {<<"del_model", x>> : x \in IntArgs((-d-1)..d, ZooInts(d))} ELSE {})
  \cup (IF kind = "array"
         THEN {<<"set_atom", <<x[1], 90, 7, 123456, x[2]>>>> : x \in IntArgs((-n-1)..n, ZooInts(n))}
              \cup {<<"swap_atoms", x>> : x \in IntPairArgs((-n)..n, 0..(n-1), {-1, 0, n}, {0, n - 1})}
              \cup {<<"take_then_overwrite", <<x[1], 91, 3, 654321, x[2]>>>> : x \in IntArgs((-n-1)..n, ZooInts(n))}
         ELSE {})
  \cup (IF kind = "stack"
         THEN {<<"set_model", <<x[1], x[2], 5, x[3], x[4]>>>> :
                 x \in IntPairArgs((-d)..(d-1), 0..(d-1), {-1, 0, d - 1}, {0, d - 1})}
         ELSE {})
  \cup {<<"set_annot", <<[i \in 1..n |-> 40 - i]>>>>, <<"set_annot", <<[i \in 1..(n+1) |-> 5]>>>>}
  \cup {<<"add_extra", <<"flag">>>>, <<"add_extra", <<"label">>>>, <<"del_extra", <<"flag">>>>,
        <<"del_extra", <<"b_factor">>>>}
  \cup {<<"add_extra", <<x>>>> : x \in ShapedExtras} \cup {<<"del_extra", <<"vec">>>>, <<"del_extra", <<"names">>>>}
  \cup {<<"set_bonds", <<n, <<>>>>>>, <<"set_bonds", <<n, <<<<0, -1, 6>>>>>>>>,
        <<"set_bonds", <<n, <<<<1, 0, 2>>, <<0, 1, 1>>, <<-1, 0, 9>>>>>>>>, <<"set_bonds", <<n + 1, <<>>>>>>}
  \cup {<<"clear_bonds", <<>>>>, <<"set_box", <<5>>>>, <<"clear_box", <<>>>>, <<"copy", <<>>>>,
        <<"copy_poke", <<>>>>, <<"poke_after_copy", <<>>>>}
  \cup {<<"derived_edit", <<h>>>> : h \in {"slice", "model", "repeat1", "stack1"}}
  \cup {<<"from_template", <<k, b>>>> : k \in 1..2, b \in BOOLEAN}

\* every index / integer position of the call is in its default form
DefaultFormsOnly(o, arg) ==
  CASE o = "index" -> \A k \in 2..Len(arg) : arg[k][3] = DefaultForm(arg[k][1])
    [] o \in {"del_atom", "del_model"} -> arg[2] = "py"
    [] o \in {"set_atom", "take_then_overwrite"} -> arg[5] = "py"
    [] o = "swap_atoms" -> arg[3] = "py" /\ arg[4] = "py"
    [] o = "set_model" -> arg[4] = "py" /\ arg[5] = "py"
    [] OTHER -> TRUE

\* <<kind, n, d, op, arg, default forms only>>
AllCalls ==
  {<<"any", 0, 0, "new", s, TRUE>> : s \in Seeds}
  \cup UNION {{<<kind, n, d, c[1], c[2], DefaultFormsOnly(c[1], c[2])>> : c \in CallsFor(kind, n, d)} :
                kind \in {"array", "stack"}, n \in 0..MaxN, d \in 1..MaxD}

\* every generated call is in the form domain
ASSUME \A c \in AllCalls : Dom_Call(c[4], c[5])

\* the property's domain: self-bonds excluded (as in C02); set_bonds rows must join distinct atoms
InDomain(c) ==
  c[4] = "set_bonds" =>
     \A k \in DOMAIN c[5][2] :
        ~(InRange(c[5][2][k][1], c[5][1]) /\ InRange(c[5][2][k][2], c[5][1])
          /\ WrapOne(c[5][2][k][1], c[5][1]) = WrapOne(c[5][2][k][2], c[5][1]))

Empty == Fresh("array", 0, 1, 0, FALSE, FALSE, {})

Call(c) ==
  /\ TLCGet("level") <= Depth
  /\ \/ (c[1] = "any" /\ S = Empty)          \* objects are built at the start of a behaviour
     \/ (c[1] = S.kind /\ c[2] = N(S) /\ c[3] = D(S))
  /\ InDomain(c)
  \* the two value classes are not multiplied: objects with array-valued annotations take every call
  \* in the default forms (the recorded histories mix forms and shapes at random)
  /\ (HasShaped(S) => c[6])
  /\ (c[4] = "index" => Dom_Index(S, c[5]))
  /\ LET r == Apply(S, c[4], c[5]) IN
     /\ N(r.st) <= MaxN /\ D(r.st) <= MaxD
     /\ S' = r.st /\ oc' = r.oc /\ out' = r.out /\ op' = c[4]

Init == S = Empty /\ oc = "ok" /\ out = <<>> /\ op = "init"
\* behaviours are cut at Depth calls by the action itself (a CONSTRAINT would still expand
\* the last level and throw its successors away)
Next == \E c \in AllCalls : Call(c)
Spec == Init /\ [][Next]_vars

InvCoherent == Coherent(S)
RefusalIsNoOp == [][oc' = "Rejected" => S' = S]_vars
\* bonds keep connecting the same atoms through indexing / deletion (uids unique)
BondsFollowAtoms ==
  [][(op' \in {"index", "del_atom"} /\ oc' = "ok" /\ UniqueUids(S) /\ Has(S.bonds))
       => (Has(S'.bonds) /\ UidBonds(S') = {b \in UidBonds(S) : b[1] \subseteq Uids(S')})]_vars
=============================================================================
