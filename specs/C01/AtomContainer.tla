---------------------------- MODULE AtomContainer ----------------------------
(* C01: exhaustive exploration of operation sequences on one atom array / stack.
   The call universe is a constant set tagged with (kind, atom count, depth) so that TLC
   labels every edge of the state graph with the call (see harness/README.md). *)
EXTENDS AtomContainerOps

CONSTANTS MaxN, MaxD, Depth, Rich

VARIABLES S, oc, out, op
vars == <<S, oc, out, op>>

Seeds ==
  {Fresh("array", k, 1, 0, wb, wx, ex) :
     k \in 0..3, wb \in BOOLEAN, wx \in BOOLEAN, ex \in {{}, {"b_factor", "flag", "label"}}}
  \cup {Fresh("stack", k, d, 0, wb, wx, {}) : k \in {0, 2, 3}, d \in {1, 2}, wb \in BOOLEAN, wx \in BOOLEAN}

OneD(n) ==
  IntIdx((-n-1)..n) \cup MaskIdx(n)
  \cup (IF Rich THEN SliceIdx({-4, -1, 0, 1, 2}, {-4, -2, 0, 1, 3}, {-2, -1, 1, 2, 0})
                ELSE SliceIdx({-1, 1}, {-2, 0, 2}, {-1, 2}))
  \cup ArrIdx((-n)..(n-1), IF Rich THEN Min2(n, 3) ELSE Min2(n, 2))
  \cup {<<"arr", <<n>>>>, <<"arr", <<0, 0>>>>, <<"arr", <<n - 1, 0, -1>>>>}
  \cup AllIdx

\* model-axis indices for the two-dimensional form
ModelIdx(d) == IntIdx((-d-1)..d) \cup EllIdx \cup AllIdx \cup MaskIdx(d)
               \cup {<<"slice", <<<<1>>, <<>>, <<>>>>>>, <<"slice", <<<<>>, <<>>, <<-1>>>>>>,
                     <<"arr", <<d - 1, 0>>>>, <<"arr", <<-1>>>>}
\* atom-axis indices for the two-dimensional form (a smaller zoo than OneD)
\* (Ellipsis is documented as the *first* component of a 2-tuple only; `x[idx, ...]` is not generated)
AtomIdx2(n) == IntIdx((-n)..(n-1)) \cup MaskIdx(n) \cup AllIdx
               \cup {<<"slice", <<<<1>>, <<>>, <<>>>>>>, <<"slice", <<<<>>, <<>>, <<-1>>>>>>,
                     <<"slice", <<<<-2>>, <<>>, <<>>>>>>, <<"arr", <<n - 1, 0>>>>, <<"arr", <<-1, -1>>>>}

IndexArgs(kind, n, d) ==
  IF kind = "array"
    THEN {<<"1d", x>> : x \in OneD(n)} \cup {<<"2d", <<"ell", <<>>>>, x>> : x \in AtomIdx2(n)}
         \cup {<<"2d", <<"all", <<>>>>, <<"all", <<>>>>>>}
    ELSE {<<"1d", x>> : x \in ModelIdx(d)}
         \cup {<<"2d", x0, x1>> : x0 \in ModelIdx(d), x1 \in AtomIdx2(n)}

OperandDescs == {<<0, FALSE, FALSE, {}>>, <<2, TRUE, FALSE, {}>>, <<2, FALSE, TRUE, {"flag"}>>,
                 <<1, TRUE, TRUE, {"b_factor", "flag", "label"}>>}

CallsFor(kind, n, d) ==
       {<<"index", x>> : x \in IndexArgs(kind, n, d)}
  \cup {<<"concat", x>> : x \in OperandDescs}
  \cup {<<"rconcat", x>> : x \in OperandDescs}
  \cup (IF kind = "array" THEN {<<"to_stack", <<k>>>> : k \in 1..2} ELSE {})
  \cup {<<"repeat", <<k>>>> : k \in 1..2}
  \cup (IF kind = "array" THEN {<<"del_atom", <<i>>>> : i \in (-n-1)..n} ELSE {})
  \cup (IF kind = "stack" THEN {<<"del_model", <<i>>>> : i \in (-d-1)..d} ELSE {})
  \cup (IF kind = "array" THEN {<<"set_atom", <<i, 90, 7, 123456>>>> : i \in (-n-1)..n} ELSE {})
  \cup (IF kind = "array" THEN {<<"swap_atoms", <<i, j>>>> : i \in (-n)..n, j \in 0..(n-1)}
                                \cup {<<"take_then_overwrite", <<i, 91, 3, 654321>>>> : i \in (-n-1)..n} ELSE {})
  \cup (IF kind = "stack" THEN {<<"set_model", <<i, j, 5>>>> : i \in (-d)..(d-1), j \in 0..(d-1)} ELSE {})
  \cup {<<"set_annot", <<[i \in 1..n |-> 40 - i]>>>>, <<"set_annot", <<[i \in 1..(n+1) |-> 5]>>>>}
  \cup {<<"add_extra", <<"flag">>>>, <<"add_extra", <<"label">>>>, <<"del_extra", <<"flag">>>>,
        <<"del_extra", <<"b_factor">>>>}
  \cup {<<"set_bonds", <<n, <<>>>>>>, <<"set_bonds", <<n, <<<<0, -1, 6>>>>>>>>,
        <<"set_bonds", <<n, <<<<1, 0, 2>>, <<0, 1, 1>>, <<-1, 0, 9>>>>>>>>, <<"set_bonds", <<n + 1, <<>>>>>>}
  \cup {<<"clear_bonds", <<>>>>, <<"set_box", <<5>>>>, <<"clear_box", <<>>>>, <<"copy", <<>>>>,
        <<"copy_poke", <<>>>>, <<"poke_after_copy", <<>>>>}
  \cup {<<"from_template", <<k, b>>>> : k \in 1..2, b \in BOOLEAN}

AllCalls ==
  {<<"any", 0, 0, "new", s>> : s \in Seeds}
  \cup UNION {{<<kind, n, d, c[1], c[2]>> : c \in CallsFor(kind, n, d)} :
                kind \in {"array", "stack"}, n \in 0..MaxN, d \in 1..MaxD}

\* the property's domain: self-bonds excluded (as in C02); set_bonds rows must join distinct atoms
InDomain(c) ==
  c[4] = "set_bonds" =>
     \A k \in DOMAIN c[5][2] :
        ~(InRange(c[5][2][k][1], c[5][1]) /\ InRange(c[5][2][k][2], c[5][1])
          /\ WrapOne(c[5][2][k][1], c[5][1]) = WrapOne(c[5][2][k][2], c[5][1]))

Empty == Fresh("array", 0, 1, 0, FALSE, FALSE, {})

Call(c) ==
  /\ TLCGet("level") <= Depth
  /\ \/ (c[1] = "any" /\ S = Empty)          \* objects are built at the start of a behaviour
     \/ (c[1] = S.kind /\ c[2] = N(S) /\ c[3] = D(S))
  /\ InDomain(c)
  /\ LET r == Apply(S, c[4], c[5]) IN
     /\ N(r.st) <= MaxN /\ D(r.st) <= MaxD
     /\ S' = r.st /\ oc' = r.oc /\ out' = r.out /\ op' = c[4]

Init == S = Empty /\ oc = "ok" /\ out = <<>> /\ op = "init"
\* behaviours are cut at Depth calls by the action itself (a CONSTRAINT would still expand
\* the last level and throw its successors away)
Next == \E c \in AllCalls : Call(c)
Spec == Init /\ [][Next]_vars

InvCoherent == Coherent(S)
RefusalIsNoOp == [][oc' = "Rejected" => S' = S]_vars
\* bonds keep connecting the same atoms through indexing / deletion (uids unique)
BondsFollowAtoms ==
  [][(op' \in {"index", "del_atom"} /\ oc' = "ok" /\ UniqueUids(S) /\ Has(S.bonds))
       => (Has(S'.bonds) /\ UidBonds(S') = {b \in UidBonds(S) : b[1] \subseteq Uids(S')})]_vars
=============================================================================
