SPECIFICATION Spec
CONSTANTS
  MaxN = 4
  MaxD = 2
  Depth = 2
  Rich = TRUE
  Shaped = TRUE
  FormLevel = 2
INVARIANT InvCoherent
PROPERTY RefusalIsNoOp
PROPERTY BondsFollowAtoms
CHECK_DEADLOCK FALSE
