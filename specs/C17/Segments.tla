------------------------------- MODULE Segments -------------------------------
(* C17, part 1: residue / chain segmentation of an atom array and every view derived from it
   (biotite.structure.residues, .chains, .segments).

   An atom array is abstracted to its sequence of annotation rows
       rows[k] = <<chain_id, res_id, ins_code, res_name>>        (k = 1..n, atom index k-1)
   Atom indices, segment starts and segment positions are 0-based like the code's.
   A row may carry further components: rows[k][5] = hetero flag, rows[k][6] = atom name (which
   also fixes the element) stand for "every other annotation of the atom".  Only the first four
   components are keys of the segmentation (Key, Law_KeyOnly): boundaries lie EXACTLY where
   one of the four keys changes, whatever the other annotations are.

   The subject is a mutable object: its annotations are edited in place between two calls
   (Edits below).  Every view is a function of the CURRENT rows only - a call made after an
   edit answers for the edited rows, whatever was asked before (histories: SegMol "hist"
   family, Trace "edit" events).

   Two layers:
     * declarative ("direct per-atom recomputation"): Is*Start, StartSet, SameSegment,
       StartOf, MaskOf, PositionOf, Decl...  - the property statement, atom by atom;
     * implementation-shaped (Impl...): change mask -> where -> +1 -> [0] ++ ... (++ [n]),
       searchsorted(side="right") - 1, slicing data[starts[i]:starts[i+1]], np.repeat.
   The model checker decides Impl = Decl on every bounded input (SegMol.tla); the public
   calls Op_... are defined through the Impl layer and return [oc, out].

   Outcomes:  "ok"        the call returns `out`
              "Rejected"  any exception (negative / too large atom index: documented refusal)
              "any"       empty atom array and a view without a canonical answer
                          (index-taking views, apply): an exception or an empty / None
                          result are both accepted. *)
EXTENDS Integers, Sequences, FiniteSets, SequencesExt

(* ------------------------------------------------------------------ rows *)
ChainOf(r)   == r[1]
ResIdOf(r)   == r[2]
InsOf(r)     == r[3]
ResNameOf(r) == r[4]

Levels == {"residue", "chain"}

(* A new residue starts where chain id, residue id, insertion code or residue name change
   from one atom to the next. *)
ResidueChange(a, b) ==
  \/ ChainOf(a) # ChainOf(b)
  \/ ResIdOf(a) # ResIdOf(b)
  \/ InsOf(a) # InsOf(b)
  \/ ResNameOf(a) # ResNameOf(b)

(* A new chain starts where the chain id changes or the residue id decreases. *)
ChainChange(a, b) ==
  \/ ChainOf(a) # ChainOf(b)
  \/ ResIdOf(b) < ResIdOf(a)

Change(level, a, b) == IF level = "residue" THEN ResidueChange(a, b) ELSE ChainChange(a, b)

(* ------------------------------------------------------------------ declarative layer *)
\* atom i (0-based) is the first atom of a segment
IsStart(level, rows, i) == i = 0 \/ Change(level, rows[i], rows[i + 1])
StartSet(level, rows) == {i \in 0..(Len(rows) - 1) : IsStart(level, rows, i)}

Lo2(i, j) == IF i < j THEN i ELSE j
Hi2(i, j) == IF i < j THEN j ELSE i

\* atoms i and j lie in the same segment: no boundary strictly after the lower, up to the higher
SameSegment(level, rows, i, j) ==
  \A k \in (Lo2(i, j) + 1)..Hi2(i, j) : ~IsStart(level, rows, k)

StartOf(level, rows, i) ==
  CHOOSE s \in 0..i : SameSegment(level, rows, s, i)
                      /\ \A t \in 0..i : SameSegment(level, rows, t, i) => s <= t
MaskOf(level, rows, i) == [j \in 1..Len(rows) |-> SameSegment(level, rows, i, j - 1)]
PositionOf(level, rows, i) == Cardinality({s \in 1..i : IsStart(level, rows, s)})

DeclCount(level, rows) == Cardinality(StartSet(level, rows))
\* atoms of the segment with ordinal position p, as an ascending sequence of atom indices
DeclMembers(level, rows, p) ==
  SetToSortSeq({i \in 0..(Len(rows) - 1) : PositionOf(level, rows, i) = p}, <)

(* ------------------------------------------------------------------ small arithmetic *)
SumSeq(s) == FoldLeft(LAMBDA acc, x : acc + x, 0, s)
MinSeq(s) == FoldLeft(LAMBDA acc, x : IF x < acc THEN x ELSE acc, s[1], s)
MaxSeq(s) == FoldLeft(LAMBDA acc, x : IF x > acc THEN x ELSE acc, s[1], s)
Gather(data, ixs) == [k \in DOMAIN ixs |-> data[ixs[k] + 1]]      \* ixs 0-based
StrictlyIncreasing(s) == \A k \in 1..(Len(s) - 1) : s[k] < s[k + 1]

(* ------------------------------------------------------------------ implementation-shaped layer *)
\* numpy: mask = ann[1:] != ann[:-1] (| ...);   np.where(mask)[0]
ChangeMask(level, rows) == [k \in 1..(Len(rows) - 1) |-> Change(level, rows[k], rows[k + 1])]
WhereTrue(mask) == SelectSeq([k \in DOMAIN mask |-> k - 1], LAMBDA p : mask[p + 1])

\* get_residue_starts / get_chain_starts
ImplStarts(level, rows, stop) ==
  IF Len(rows) = 0 THEN <<>>
  ELSE LET w == WhereTrue(ChangeMask(level, rows)) IN
       <<0>> \o [k \in DOMAIN w |-> w[k] + 1] \o (IF stop THEN <<Len(rows)>> ELSE <<>>)

\* np.searchsorted(sorted, v, side="right"): number of entries <= v
SearchSortedRight(sorted, v) == Cardinality({k \in DOMAIN sorted : sorted[k] <= v})

\* segments.py works on `starts` that include the exclusive stop
NSeg(ss) == IF Len(ss) = 0 THEN 0 ELSE Len(ss) - 1
SegLo(ss, p) == ss[p + 1]                 \* p = 0-based ordinal position
SegHi(ss, p) == ss[p + 2]                 \* exclusive
SegSlice(ss, data, p) == SubSeq(data, SegLo(ss, p) + 1, SegHi(ss, p))

ImplPositionOf(ss, i) == SearchSortedRight(Front(ss), i) - 1
ImplStartOf(ss, i) == Front(ss)[ImplPositionOf(ss, i) + 1]
ImplMaskOf(ss, i) ==
  LET p == SearchSortedRight(ss, i) - 1       \* get_segment_masks searches the full array
  IN [j \in 1..Last(ss) |-> SegLo(ss, p) <= j - 1 /\ j - 1 < SegHi(ss, p)]

\* reducing functions offered to apply_*_wise: name -> value on a non-empty data slice
Funs == {"sum", "min", "max", "first", "last", "len", "minmax", "half", "anyneg"}
EvalFun(f, seg) ==
  CASE f = "sum"    -> SumSeq(seg)
    [] f = "min"    -> MinSeq(seg)
    [] f = "max"    -> MaxSeq(seg)
    [] f = "first"  -> seg[1]
    [] f = "last"   -> seg[Len(seg)]
    [] f = "len"    -> Len(seg)
    [] f = "minmax" -> <<MinSeq(seg), MaxSeq(seg)>>      \* array-valued result
    [] f = "half"   -> <<SumSeq(seg), 2>>                 \* float-valued result sum/2 as the exact rational num/den
    [] f = "anyneg" -> \E k \in DOMAIN seg : seg[k] < 0    \* boolean-valued result

ImplApply(ss, data, f) == [p \in 1..NSeg(ss) |-> EvalFun(f, SegSlice(ss, data, p - 1))]
\* np.repeat(values, seg_lens)
ImplSpread(ss, vals) ==
  FlattenSeq([p \in 1..NSeg(ss) |-> [m \in 1..(SegHi(ss, p - 1) - SegLo(ss, p - 1)) |-> vals[p]]])
\* segment_iter: array[..., starts[i]:starts[i+1]] as sequences of atom indices
ImplIter(ss) ==
  [p \in 1..NSeg(ss) |-> [m \in 1..(SegHi(ss, p - 1) - SegLo(ss, p - 1)) |-> SegLo(ss, p - 1) + m - 1]]

(* the same views by per-atom recomputation *)
DeclApply(level, rows, data, f) ==
  [p \in 1..DeclCount(level, rows) |-> EvalFun(f, Gather(data, DeclMembers(level, rows, p - 1)))]
DeclSpread(level, rows, vals) == [k \in 1..Len(rows) |-> vals[PositionOf(level, rows, k - 1) + 1]]
DeclIter(level, rows) == [p \in 1..DeclCount(level, rows) |-> DeclMembers(level, rows, p - 1)]

(* ------------------------------------------------------------------ input domains *)
\* atom indices handed to the index-taking views: "Negative indices are not allowed"
Dom_Indices(n, idx) == \A k \in DOMAIN idx : 0 <= idx[k] /\ idx[k] < n
\* data to be reduced has one entry per atom; values to be spread one entry per segment
Dom_Data(rows, data) == Len(data) = Len(rows)
Dom_SpreadVals(level, rows, vals) == Len(vals) = DeclCount(level, rows)

(* ------------------------------------------------------------------ public calls *)
R(oc, out) == [oc |-> oc, out |-> out]
StartsStop(level, rows) == ImplStarts(level, rows, TRUE)

\* get_residue_starts(array, add_exclusive_stop) / get_chain_starts(...)
\* (for an empty array the code returns [] with or without the stop; only stop = FALSE is
\*  compared there)
Op_Starts(level, rows, stop) == R("ok", ImplStarts(level, rows, stop))
\* get_residue_count / get_chain_count
Op_Count(level, rows) == R("ok", Len(ImplStarts(level, rows, FALSE)))
\* get_residues -> (ids, names);  get_chains -> ids
Op_Residues(rows) ==
  LET s == ImplStarts("residue", rows, FALSE) IN
  R("ok", [ids |-> [k \in DOMAIN s |-> ResIdOf(rows[s[k] + 1])],
           names |-> [k \in DOMAIN s |-> ResNameOf(rows[s[k] + 1])]])
Op_Chains(rows) ==
  LET s == ImplStarts("chain", rows, FALSE) IN
  R("ok", [k \in DOMAIN s |-> ChainOf(rows[s[k] + 1])])

IdxOutcome(rows, idx) ==
  IF Len(rows) = 0 THEN "any" ELSE IF Dom_Indices(Len(rows), idx) THEN "ok" ELSE "Rejected"

\* get_residue_starts_for / get_chain_starts_for
Op_StartsFor(level, rows, idx) ==
  LET oc == IdxOutcome(rows, idx)  ss == StartsStop(level, rows) IN
  R(oc, IF oc = "ok" THEN [k \in DOMAIN idx |-> ImplStartOf(ss, idx[k])] ELSE <<>>)
\* get_residue_positions / get_chain_positions
Op_Positions(level, rows, idx) ==
  LET oc == IdxOutcome(rows, idx)  ss == StartsStop(level, rows) IN
  R(oc, IF oc = "ok" THEN [k \in DOMAIN idx |-> ImplPositionOf(ss, idx[k])] ELSE <<>>)
\* get_residue_masks / get_chain_masks  (one mask per index)
Op_Masks(level, rows, idx) ==
  LET oc == IdxOutcome(rows, idx)  ss == StartsStop(level, rows) IN
  R(oc, IF oc = "ok" THEN [k \in DOMAIN idx |-> ImplMaskOf(ss, idx[k])] ELSE <<>>)

\* apply_residue_wise / apply_chain_wise(array, data, function)
Op_Apply(level, rows, data, f) ==
  IF Len(rows) = 0 THEN R("any", <<>>)
  ELSE R("ok", ImplApply(StartsStop(level, rows), data, f))
\* spread_residue_wise / spread_chain_wise(array, input_data)
Op_Spread(level, rows, vals) == R("ok", ImplSpread(StartsStop(level, rows), vals))
\* residue_iter / chain_iter: the atom indices of each yielded sub-array
Op_Iter(level, rows) == R("ok", ImplIter(StartsStop(level, rows)))

(* ------------------------------------------------------------------ non-key annotations *)
NFields == 6            \* 1 chain id, 2 residue id, 3 insertion code, 4 residue name | 5 hetero, 6 atom name
KeyFields == 1..4
Key(r) == <<r[1], r[2], r[3], r[4]>>
Keys(rows) == [k \in DOMAIN rows |-> Key(rows[k])]

(* ------------------------------------------------------------------ in-place edits of the live array
   An edit is a record [kind, f, lo, hi, v]:
     "set"     array.<f>[lo] = v                    (hi = lo + 1)   element assignment in place
     "fill"    array.<f>[lo:hi] = v                                  slice assignment in place
     "assign"  array.<f> = <new ndarray equal to the old one except [lo:hi] = v>
     "atom"    array[lo] = Atom(... v ...)           (hi = lo + 1, f = 0, v = a whole row)
   The first three have the same meaning (they differ in the mechanism the driver uses);
   afterwards the array is the same object with the rows below. *)
EditKinds == {"set", "fill", "assign", "atom"}
SetField(r, f, v) == [r EXCEPT ![f] = v]
EditFill(rows, f, lo, hi, v) ==
  [k \in DOMAIN rows |-> IF lo <= k - 1 /\ k - 1 < hi THEN SetField(rows[k], f, v) ELSE rows[k]]
EditAtom(rows, i, row) == [rows EXCEPT ![i + 1] = row]
ApplyEdit(rows, e) ==
  IF e.kind = "atom" THEN EditAtom(rows, e.lo, e.v) ELSE EditFill(rows, e.f, e.lo, e.hi, e.v)
ApplyEdits(rows, es) == FoldLeft(LAMBDA acc, e : ApplyEdit(acc, e), rows, es)
\* edits are made inside the array (numpy would clip a slice / refuse an element outside)
Dom_Edit(n, e) ==
  /\ e.kind \in EditKinds
  /\ 0 <= e.lo /\ e.lo < e.hi /\ e.hi <= n
  /\ (e.kind \in {"set", "atom"} => e.hi = e.lo + 1)
  /\ (e.kind = "atom" => e.f = 0)
  /\ (e.kind # "atom" => e.f \in 1..NFields)

(* ------------------------------------------------------------------ laws (checked by TLC in SegMol) *)
\* boundaries are exactly where the definition says
Law_Starts(level, rows) ==
  LET s == ImplStarts(level, rows, FALSE) IN
  /\ ToSet(s) = StartSet(level, rows)
  /\ StrictlyIncreasing(s)
  /\ (Len(rows) > 0 => ImplStarts(level, rows, TRUE) = s \o <<Len(rows)>>)
\* every chain boundary is a residue boundary
Law_ChainsCoarser(rows) == StartSet("chain", rows) \subseteq StartSet("residue", rows)
\* searchsorted views = per-atom recomputation, for every atom
Law_PerAtom(level, rows) ==
  LET ss == StartsStop(level, rows) IN
  \A i \in 0..(Len(rows) - 1) :
    /\ ImplStartOf(ss, i) = StartOf(level, rows, i)
    /\ ImplPositionOf(ss, i) = PositionOf(level, rows, i)
    /\ ImplMaskOf(ss, i) = MaskOf(level, rows, i)
\* the segments partition the array: concatenating the iterated segments reproduces it
Law_IterConcat(level, rows) ==
  LET it == ImplIter(StartsStop(level, rows)) IN
  /\ FlattenSeq(it) = [k \in 1..Len(rows) |-> k - 1]
  /\ \A p \in DOMAIN it : Len(it[p]) > 0
  /\ it = DeclIter(level, rows)
Law_Apply(level, rows, data) ==
  Len(rows) > 0 =>
    \A f \in Funs : ImplApply(StartsStop(level, rows), data, f) = DeclApply(level, rows, data, f)
Law_Spread(level, rows, vals) ==
  ImplSpread(StartsStop(level, rows), vals) = DeclSpread(level, rows, vals)
\* spreading the per-segment "first" value and re-reducing is the identity on segment values
Law_SpreadApply(level, rows, vals) ==
  Len(rows) > 0 =>
    ImplApply(StartsStop(level, rows), ImplSpread(StartsStop(level, rows), vals), "first") = vals

\* only the four keys matter: any other annotation may take any value
Law_KeyOnly(level, rows) ==
  /\ StartSet(level, rows) = StartSet(level, Keys(rows))
  /\ ImplStarts(level, rows, TRUE) = ImplStarts(level, Keys(rows), TRUE)
\* an edit moves boundaries only at the edited atoms and at the atom behind them; an edit of a
\* non-key annotation moves none
Law_EditLocal(level, rows, e) ==
  LET after == ApplyEdit(rows, e) IN
  /\ Len(after) = Len(rows)
  /\ \A k \in 0..(Len(rows) - 1) :
       (k < e.lo \/ k > e.hi) => (IsStart(level, after, k) <=> IsStart(level, rows, k))
  /\ (e.kind # "atom" /\ e.f \notin KeyFields) => StartSet(level, after) = StartSet(level, rows)

(* examples from the documentation / hand-checked, to pin the operators *)
ASSUME ImplStarts("residue", <<<<"A",1,"","X">>, <<"A",1,"","X">>, <<"A",1,"A","X">>, <<"B",1,"A","X">>, <<"B",0,"A","Y">>>>, TRUE)
         = <<0, 2, 3, 4, 5>>
ASSUME ImplStarts("chain", <<<<"A",1,"","X">>, <<"A",1,"","X">>, <<"A",1,"A","X">>, <<"B",1,"A","X">>, <<"B",0,"A","Y">>>>, TRUE)
         = <<0, 3, 4, 5>>
ASSUME SearchSortedRight(<<0, 2, 3>>, 2) = 2 /\ SearchSortedRight(<<0, 2, 3>>, 1) = 1
ASSUME ImplSpread(<<0, 2, 3>>, <<10, 20>>) = <<10, 10, 20>>
\* a hetero flag does not keep a decreasing residue id from opening a chain
ASSUME ImplStarts("chain", <<<<"A",2,"","X",FALSE,"CA">>, <<"A",1,"","X",TRUE,"CA">>>>, FALSE) = <<0, 1>>
\* array.res_id[1] = 2 splits the residue; the views answer for the edited rows
ASSUME ImplStarts("residue", ApplyEdit(<<<<"A",1,"","X">>, <<"A",1,"","X">>>>,
                                       [kind |-> "set", f |-> 2, lo |-> 1, hi |-> 2, v |-> 2]), FALSE) = <<0, 1>>
=============================================================================
