------------------------------- MODULE SegMol -------------------------------
(* C17: bounded exhaustive model.  Pure-function pattern: the model enumerates every input of four
   families (root state -> chunk states -> input states), `exp` holds the specification's answers (computed through the Op_* operators of
   Segments / BondGraph), the invariants state Impl = Decl for the input at hand.
   The dump of this model is the list of (input, expected) pairs executed against biotite.

     kind = "seg"    rows (+ data)        -> every index-free view, both levels
     kind = "idx"    rows + index array   -> starts_for / positions / masks, both levels
     kind = "graph"  bond graph (n, E)    -> molecules, find_connected for every root,
                                             symbolic components of its subdivisions
     kind = "lemma"  (n, E, L)            -> the concretely subdivided graph and its components
     kind = "extra"  rows of 6 components -> the views on arrays whose non-key annotations
                                             (hetero flag, atom name) vary independently
     kind = "hist"   rows + data + edits  -> a HISTORY on one live array: all views, then
                                             for each in-place edit the edit and all views again;
                                             exp[k] = rows and views after k - 1 edits
     kind = "ghist"  (n, E) + bond edits   -> a history on one live bond list: the molecule views,
                                             then for each add_bond / remove_bond the edit and
                                             the views again; exp[k] = bonds and views after k - 1 edits *)
EXTENDS Segments, BondGraph, TLC

CONSTANTS FullLen,     \* all row sequences up to this length over the full 16-row alphabet
          SmallLen,    \* ... up to this length over the 6-row alphabet
          IdxRows,     \* idx family: row sequences up to this length over the 3-row alphabet
          IdxLen,      \* idx family: index arrays up to this length over -1..n
          GraphN,      \* all graphs with up to this many atoms
          LemmaN,      \* lemma family: graphs with up to this many atoms ...
          LemmaL,      \* ... subdivided with 1..LemmaL new atoms per bond
          LoopN,       \* loop family: graphs with up to this many atoms plus one self-bond
          ExtraLen,    \* extra family: row sequences 1..ExtraLen over the 12-row alphabet RowsExtra
          HistRows,    \* hist family: every array of 1..HistRows atoms over RowsHist x every single edit
          Hist2Rows,   \* hist family: uniform arrays of 1..Hist2Rows atoms x every pair of edits
          GHistN,      \* ghist family: every graph on 2..GHistN atoms x every single bond edit
          GHist2N      \* ghist family: every graph on 2..GHist2N atoms x every pair of bond edits

VARIABLES kind, inp, exp
vars == <<kind, inp, exp>>

BSeq(S, k) == UNION {[1..m -> S] : m \in 0..k}

RowsFull == {"A", "B"} \X {1, 2} \X {"", "A"} \X {"X", "Y"}
\* one row per way of differing from <<"A",1,"","X">> (and a larger residue id)
RowsSmall == {<<"A", 1, "", "X">>, <<"A", 2, "", "X">>, <<"B", 1, "", "X">>,
              <<"A", 1, "A", "X">>, <<"A", 1, "", "Y">>, <<"B", 2, "", "X">>}
\* enough to make every boundary pattern (none / residue only / residue and chain)
RowsIdx == {<<"A", 1, "", "X">>, <<"A", 2, "", "X">>, <<"B", 1, "", "X">>}

RowSeqs == BSeq(RowsFull, FullLen) \cup BSeq(RowsSmall, SmallLen)

\* the non-key annotations <<hetero, atom name>> vary independently of the keys
Extras == {<<FALSE, "CA">>, <<TRUE, "CA">>, <<FALSE, "N">>, <<TRUE, "N">>}
RowsExtra == {r \o x : r \in RowsIdx, x \in Extras}
RowsHist == {r \o <<FALSE, "CA">> : r \in RowsIdx}
Row0 == <<"A", 1, "", "X", FALSE, "CA">>

\* the values an edit may write, per field; whole atoms for array[i] = Atom(...)
FieldVals == <<<<"A", "B">>, <<1, 2>>, <<"", "A">>, <<"X", "Y">>, <<FALSE, TRUE>>, <<"CA", "N">>>>
AtomRows == <<<<"A", 1, "", "X", FALSE, "CA">>, <<"A", 2, "", "X", FALSE, "CA">>,
              <<"B", 1, "", "X", FALSE, "CA">>, <<"A", 1, "", "Y", TRUE, "N">>>>
\* edits as tuples of a string and small integers <<kind, field, lo, hi, value number>>
EditCodes(n) ==
  {<<"set", f, i, i + 1, w>> : f \in 1..NFields, i \in 0..(n - 1), w \in 1..2}
  \cup {<<"assign", f, i, i + 1, w>> : f \in 1..NFields, i \in 0..(n - 1), w \in 1..2}
  \cup {c \in {<<"fill", f, lo, hi, w>> : f \in 1..NFields, lo \in 0..(n - 2), hi \in 2..n, w \in 1..2} :
            c[4] - c[3] >= 2}
  \cup {<<"atom", 0, i, i + 1, w>> : i \in 0..(n - 1), w \in 1..Len(AtomRows)}
Decode(c) ==
  [kind |-> c[1], f |-> c[2], lo |-> c[3], hi |-> c[4],
   v |-> IF c[1] = "atom" THEN AtomRows[c[5]] ELSE FieldVals[c[2]][c[5]]]

\* data to be reduced: distinct values of both signs / ties
D1 == <<3, -1, 4, -5, 9, 2, -6>>
D2 == <<-2, 7, -2, 0, 7, -8, 1>>
\* both vectors for short arrays, one for the many long ones
DataFor(rows) == IF Len(rows) <= 3 THEN {SubSeq(D1, 1, Len(rows)), SubSeq(D2, 1, Len(rows))}
                 ELSE {SubSeq(D1, 1, Len(rows))}
\* per-segment values to be spread
SpreadVals(c) == [p \in 1..c |-> 7 * p - 10]

SegView(level, rows, data) ==
  [starts     |-> Op_Starts(level, rows, FALSE).out,
   startsStop |-> Op_Starts(level, rows, TRUE).out,
   count      |-> Op_Count(level, rows).out,
   iter       |-> Op_Iter(level, rows).out,
   apply      |-> [f \in Funs |-> Op_Apply(level, rows, data, f)],
   spreadVals |-> SpreadVals(DeclCount(level, rows)),
   spread     |-> Op_Spread(level, rows, SpreadVals(DeclCount(level, rows))).out]

SegExp(rows, data) ==
  [residue  |-> SegView("residue", rows, data),
   chain    |-> SegView("chain", rows, data),
   residues |-> Op_Residues(rows).out,
   chains   |-> Op_Chains(rows).out]

IdxView(level, rows, idx) ==
  [ss    |-> StartsStop(level, rows),
   sf    |-> Op_StartsFor(level, rows, idx),
   pos   |-> Op_Positions(level, rows, idx),
   masks |-> Op_Masks(level, rows, idx)]
IdxExp(rows, idx) == [residue |-> IdxView("residue", rows, idx), chain |-> IdxView("chain", rows, idx)]

GraphExp(n, E) ==
  [comps |-> Op_MoleculeIndices(n, E).out,
   count |-> Op_MoleculeCount(n, E).out,
   fc    |-> [k \in 1..(n + 2) |-> <<k - 2, Op_FindConnected(n, E, k - 2)>>],
   eseq  |-> EdgeSeq(E),
   sym   |-> SymComponents(n, E)]

LemmaExp(n, E, L) ==
  LET g == Subdivide(n, E, L) IN
  [n |-> g.n, E |-> g.E, eseq |-> EdgeSeq(E), comps |-> Op_MoleculeIndices(g.n, g.E).out, count |-> Op_MoleculeCount(g.n, g.E).out]

\* the views asked at every step of a history (index-taking views for every atom)
HFuns == {"sum", "first"}
AllAtoms(n) == [k \in 1..n |-> k - 1]
HView(level, rows, data) ==
  LET all == AllAtoms(Len(rows))  c == DeclCount(level, rows) IN
  [starts     |-> Op_Starts(level, rows, FALSE).out,
   startsStop |-> Op_Starts(level, rows, TRUE).out,
   count      |-> Op_Count(level, rows).out,
   iter       |-> Op_Iter(level, rows).out,
   apply      |-> [f \in HFuns |-> Op_Apply(level, rows, data, f)],
   spreadVals |-> SpreadVals(c),
   spread     |-> Op_Spread(level, rows, SpreadVals(c)).out,
   sf         |-> Op_StartsFor(level, rows, all),
   pos        |-> Op_Positions(level, rows, all),
   masks      |-> Op_Masks(level, rows, all)]
HStep(rows, data) ==
  [rows |-> rows, residue |-> HView("residue", rows, data), chain |-> HView("chain", rows, data),
   residues |-> Op_Residues(rows).out, chains |-> Op_Chains(rows).out]
HistExp(rows, data, edits) ==
  [k \in 1..(Len(edits) + 1) |-> HStep(ApplyEdits(rows, SubSeq(edits, 1, k - 1)), data)]
\* one step of a history on a bond list
GStep(n, E) ==
  [E     |-> E,
   comps |-> Op_MoleculeIndices(n, E).out,
   count |-> Op_MoleculeCount(n, E).out,
   fc    |-> [k \in 1..(n + 2) |-> <<k - 2, Op_FindConnected(n, E, k - 2)>>]]
BondEdits(n) == {b \in [how : BondEditKinds, i : Atoms(n), j : Atoms(n)] : b.i < b.j}
GHistExp(n, E, bs) == [k \in 1..(Len(bs) + 1) |-> GStep(n, ApplyBondEdits(E, SubSeq(bs, 1, k - 1)))]

(* root -> one "chunk" state per group of inputs -> the inputs.  (TLC evaluates initial states
   and their invariants in one thread; successors of different chunk states are generated and
   checked by all workers.) *)
RestPairs(n) == {<<i, j>> \in AllPairs(n) : i > 0}
ZeroPairs(n) == {<<i, j>> \in AllPairs(n) : i = 0}

Chunks ==
  {<<"seg0">>}
  \cup {<<"segF", r>> : r \in RowsFull} \cup {<<"segS", r>> : r \in RowsSmall}
  \cup {<<"idx", rows>> : rows \in BSeq(RowsIdx, IdxRows)}
  \cup UNION {{<<"graph", n, E0>> : E0 \in SUBSET ZeroPairs(n)} : n \in 0..GraphN}
  \cup {<<"lemma", n, L>> : n \in 2..LemmaN, L \in 1..LemmaL}
  \cup {<<"loop", n, a>> : n \in 1..LoopN, a \in 0..(LoopN - 1)}
  \cup {<<"extra", r>> : r \in RowsExtra}
  \cup {<<"hist", rows>> : rows \in BSeq(RowsHist, HistRows) \ {<<>>}}
  \cup UNION {{<<"hist2", n, c>> : c \in EditCodes(n)} : n \in 1..Hist2Rows}
  \cup UNION {{<<"ghist", n, E>> : E \in SUBSET AllPairs(n)} : n \in 2..GHistN}

Set(k, i, e) == kind' = k /\ inp' = i /\ exp' = e
HistState(k, rows, edits) ==
  LET data == SubSeq(D1, 1, Len(rows)) IN
  Set(k, [rows |-> rows, data |-> data, edits |-> edits], HistExp(rows, data, edits))
SegState(rows) == \E data \in DataFor(rows) : Set("seg", [rows |-> rows, data |-> data], SegExp(rows, data))

Expand(c) ==
  CASE c[1] = "seg0" -> SegState(<<>>)
    [] c[1] = "segF" -> \E rest \in BSeq(RowsFull, FullLen - 1) : SegState(<<c[2]>> \o rest)
    [] c[1] = "segS" -> \E rest \in BSeq(RowsSmall, SmallLen - 1) : SegState(<<c[2]>> \o rest)
    [] c[1] = "idx" ->
         \E idx \in BSeq((-1)..Len(c[2]), IdxLen) :
           Set("idx", [rows |-> c[2], idx |-> idx], IdxExp(c[2], idx))
    [] c[1] = "graph" ->
         \E rest \in SUBSET RestPairs(c[2]) :
           LET E == c[3] \cup rest IN Set("graph", [n |-> c[2], E |-> E], GraphExp(c[2], E))
    [] c[1] = "lemma" ->
         \E g \in Graphs(c[2]) :
           Set("lemma", [n |-> g.n, E |-> g.E, L |-> c[3]], LemmaExp(g.n, g.E, c[3]))
    [] c[1] = "loop" ->
         \* a bond from an atom to itself joins nothing: the molecules are those of the
         \* graph without it (the expected values are computed from the loop-free graph)
         \E g \in Graphs(c[2]) :
           /\ c[3] < c[2]
           /\ Set("loop", [n |-> g.n, E |-> g.E \cup {<<c[3], c[3]>>}, plain |-> g.E], GraphExp(g.n, g.E))
    [] c[1] = "extra" ->
         \E rest \in BSeq(RowsExtra, ExtraLen - 1) : HistState("extra", <<c[2]>> \o rest, <<>>)
    [] c[1] = "hist" ->
         \E e \in EditCodes(Len(c[2])) : HistState("hist", c[2], <<Decode(e)>>)
    [] c[1] = "ghist" ->
         \/ \E b1 \in BondEdits(c[2]) :
              Set("ghist", [n |-> c[2], E |-> c[3], edits |-> <<b1>>], GHistExp(c[2], c[3], <<b1>>))
         \/ /\ c[2] <= GHist2N
            /\ \E b1 \in BondEdits(c[2]) : \E b2 \in BondEdits(c[2]) :
                 Set("ghist", [n |-> c[2], E |-> c[3], edits |-> <<b1, b2>>], GHistExp(c[2], c[3], <<b1, b2>>))
    [] c[1] = "hist2" ->
         \E e \in EditCodes(c[2]) :
           HistState("hist", [k \in 1..c[2] |-> Row0], <<Decode(c[3]), Decode(e)>>)

Init == kind = "root" /\ inp = <<>> /\ exp = <<>>
Next ==
  \/ kind = "root" /\ \E c \in Chunks : Set("chunk", c, <<>>)
  \/ kind = "chunk" /\ Expand(inp)
Spec == Init /\ [][Next]_vars

(* ------------------------------------------------------------------ invariants *)
InvSeg ==
  kind = "seg" =>
    /\ Dom_Data(inp.rows, inp.data)
    /\ Law_ChainsCoarser(inp.rows)
    /\ \A level \in Levels :
         /\ Law_Starts(level, inp.rows)
         /\ Law_PerAtom(level, inp.rows)
         /\ Law_IterConcat(level, inp.rows)
         /\ Law_Apply(level, inp.rows, inp.data)
         /\ Dom_SpreadVals(level, inp.rows, exp[level].spreadVals)
         /\ Law_Spread(level, inp.rows, exp[level].spreadVals)
         /\ Law_SpreadApply(level, inp.rows, exp[level].spreadVals)
         /\ exp[level].count = DeclCount(level, inp.rows)

\* the index-array views are the per-atom views applied to each entry, and are refused
\* exactly outside Dom_Indices
InvIdx ==
  kind = "idx" =>
    \A level \in Levels :
      LET v == exp[level]  rows == inp.rows  idx == inp.idx IN
      /\ v.sf.oc = v.pos.oc /\ v.pos.oc = v.masks.oc
      /\ (v.sf.oc = "ok") = (Len(rows) > 0 /\ Dom_Indices(Len(rows), idx))
      /\ v.sf.oc = "ok" =>
           /\ v.sf.out = [k \in DOMAIN idx |-> StartOf(level, rows, idx[k])]
           /\ v.pos.out = [k \in DOMAIN idx |-> PositionOf(level, rows, idx[k])]
           /\ v.masks.out = [k \in DOMAIN idx |-> MaskOf(level, rows, idx[k])]

InvGraph ==
  kind = "graph" =>
    /\ Law_Components(inp.n, inp.E)
    /\ Law_ImplConnected(inp.n, inp.E)
    /\ Law_ImplMolecules(inp.n, inp.E)
    /\ exp.comps = Components(inp.n, inp.E)
    \* a subdivision with L = 0 is the graph itself
    /\ SubComponents(inp.n, inp.E, 0) = Components(inp.n, inp.E)

InvLoop ==
  kind = "loop" =>
    /\ Components(inp.n, inp.E) = Components(inp.n, inp.plain)
    /\ \A r \in Atoms(inp.n) : ImplConnected(inp.E, r) = Reach(inp.n, inp.plain, r)
    /\ exp.comps = Components(inp.n, inp.plain)

InvLemma ==
  kind = "lemma" =>
    /\ Law_Subdivide(inp.n, inp.E, inp.L)
    /\ exp.comps = SubComponents(inp.n, inp.E, inp.L)

\* every step of a history answers for the rows as they are after the edits made so far:
\* the views of step k are the per-atom recomputation on exp[k].rows = edits 1..k-1 applied
HStepOk(st, data) ==
  LET rows == st.rows  all == AllAtoms(Len(rows)) IN
  /\ Law_ChainsCoarser(rows)
  /\ \A level \in Levels :
       LET v == st[level] IN
       /\ Law_KeyOnly(level, rows)
       /\ Law_Starts(level, rows)
       /\ Law_PerAtom(level, rows)
       /\ Law_IterConcat(level, rows)
       /\ ToSet(v.starts) = StartSet(level, rows)
       /\ v.count = DeclCount(level, rows)
       /\ v.iter = DeclIter(level, rows)
       /\ \A f \in HFuns : v.apply[f].out = DeclApply(level, rows, data, f)
       /\ v.spread = DeclSpread(level, rows, v.spreadVals)
       /\ v.sf.oc = "ok" /\ v.pos.oc = "ok" /\ v.masks.oc = "ok"
       /\ v.sf.out = [k \in DOMAIN all |-> StartOf(level, rows, all[k])]
       /\ v.pos.out = [k \in DOMAIN all |-> PositionOf(level, rows, all[k])]
       /\ v.masks.out = [k \in DOMAIN all |-> MaskOf(level, rows, all[k])]

InvHist ==
  kind \in {"hist", "extra"} =>
    /\ Len(inp.rows) > 0 /\ Dom_Data(inp.rows, inp.data)
    /\ Len(exp) = Len(inp.edits) + 1
    /\ (kind = "extra" => inp.edits = <<>>)
    /\ \A k \in DOMAIN inp.edits : Dom_Edit(Len(inp.rows), inp.edits[k])
    /\ \A k \in DOMAIN exp :
         /\ exp[k].rows = ApplyEdits(inp.rows, SubSeq(inp.edits, 1, k - 1))
         /\ HStepOk(exp[k], inp.data)
         /\ k > 1 => \A level \in Levels : Law_EditLocal(level, exp[k - 1].rows, inp.edits[k - 1])

\* every step of a bond history answers for the bonds as they are after the edits so far
InvGHist ==
  kind = "ghist" =>
    /\ Len(exp) = Len(inp.edits) + 1
    /\ \A k \in DOMAIN inp.edits : Dom_BondEdit(inp.n, inp.edits[k])
    /\ \A k \in DOMAIN exp :
         LET E == exp[k].E IN
         /\ E = ApplyBondEdits(inp.E, SubSeq(inp.edits, 1, k - 1))
         /\ E \subseteq AllPairs(inp.n)
         /\ Law_Components(inp.n, E)
         /\ exp[k].comps = Components(inp.n, E)
         /\ exp[k].count = Cardinality(Components(inp.n, E))
         /\ \A r \in Atoms(inp.n) : exp[k].fc[r + 2][2].out = Reach(inp.n, E, r)
         /\ k > 1 => Law_BondEdit(inp.n, exp[k - 1].E, inp.edits[k - 1])
=============================================================================
