------------------------------- MODULE SegMol -------------------------------
(* C17: bounded exhaustive model.  Pure-function pattern: the model enumerates every input of four
   families (root state -> chunk states -> input states), `exp` holds the specification's answers (computed through the Op_* operators of
   Segments / BondGraph), the invariants state Impl = Decl for the input at hand.
   The dump of this model is the list of (input, expected) pairs executed against biotite.

     kind = "seg"    rows (+ data)        -> every index-free view, both levels
     kind = "idx"    rows + index array   -> starts_for / positions / masks, both levels
     kind = "graph"  bond graph (n, E)    -> molecules, find_connected for every root,
                                             symbolic components of its subdivisions
     kind = "lemma"  (n, E, L)            -> the concretely subdivided graph and its components *)
EXTENDS Segments, BondGraph, TLC

CONSTANTS FullLen,     \* all row sequences up to this length over the full 16-row alphabet
          SmallLen,    \* ... up to this length over the 6-row alphabet
          IdxRows,     \* idx family: row sequences up to this length over the 3-row alphabet
          IdxLen,      \* idx family: index arrays up to this length over -1..n
          GraphN,      \* all graphs with up to this many atoms
          LemmaN,      \* lemma family: graphs with up to this many atoms ...
          LemmaL,      \* ... subdivided with 1..LemmaL new atoms per bond
          LoopN        \* loop family: graphs with up to this many atoms plus one self-bond

VARIABLES kind, inp, exp
vars == <<kind, inp, exp>>

BSeq(S, k) == UNION {[1..m -> S] : m \in 0..k}

RowsFull == {"A", "B"} \X {1, 2} \X {"", "A"} \X {"X", "Y"}
\* one row per way of differing from <<"A",1,"","X">> (and a larger residue id)
RowsSmall == {<<"A", 1, "", "X">>, <<"A", 2, "", "X">>, <<"B", 1, "", "X">>,
              <<"A", 1, "A", "X">>, <<"A", 1, "", "Y">>, <<"B", 2, "", "X">>}
\* enough to make every boundary pattern (none / residue only / residue and chain)
RowsIdx == {<<"A", 1, "", "X">>, <<"A", 2, "", "X">>, <<"B", 1, "", "X">>}

RowSeqs == BSeq(RowsFull, FullLen) \cup BSeq(RowsSmall, SmallLen)

\* data to be reduced: distinct values of both signs / ties
D1 == <<3, -1, 4, -5, 9, 2, -6>>
D2 == <<-2, 7, -2, 0, 7, -8, 1>>
\* both vectors for short arrays, one for the many long ones
DataFor(rows) == IF Len(rows) <= 3 THEN {SubSeq(D1, 1, Len(rows)), SubSeq(D2, 1, Len(rows))}
                 ELSE {SubSeq(D1, 1, Len(rows))}
\* per-segment values to be spread
SpreadVals(c) == [p \in 1..c |-> 7 * p - 10]

SegView(level, rows, data) ==
  [starts     |-> Op_Starts(level, rows, FALSE).out,
   startsStop |-> Op_Starts(level, rows, TRUE).out,
   count      |-> Op_Count(level, rows).out,
   iter       |-> Op_Iter(level, rows).out,
   apply      |-> [f \in Funs |-> Op_Apply(level, rows, data, f)],
   spreadVals |-> SpreadVals(DeclCount(level, rows)),
   spread     |-> Op_Spread(level, rows, SpreadVals(DeclCount(level, rows))).out]

SegExp(rows, data) ==
  [residue  |-> SegView("residue", rows, data),
   chain    |-> SegView("chain", rows, data),
   residues |-> Op_Residues(rows).out,
   chains   |-> Op_Chains(rows).out]

IdxView(level, rows, idx) ==
  [ss    |-> StartsStop(level, rows),
   sf    |-> Op_StartsFor(level, rows, idx),
   pos   |-> Op_Positions(level, rows, idx),
   masks |-> Op_Masks(level, rows, idx)]
IdxExp(rows, idx) == [residue |-> IdxView("residue", rows, idx), chain |-> IdxView("chain", rows, idx)]

GraphExp(n, E) ==
  [comps |-> Op_MoleculeIndices(n, E).out,
   count |-> Op_MoleculeCount(n, E).out,
   fc    |-> [k \in 1..(n + 2) |-> <<k - 2, Op_FindConnected(n, E, k - 2)>>],
   eseq  |-> EdgeSeq(E),
   sym   |-> SymComponents(n, E)]

LemmaExp(n, E, L) ==
  LET g == Subdivide(n, E, L) IN
  [n |-> g.n, E |-> g.E, eseq |-> EdgeSeq(E), comps |-> Op_MoleculeIndices(g.n, g.E).out, count |-> Op_MoleculeCount(g.n, g.E).out]

(* root -> one "chunk" state per group of inputs -> the inputs.  (TLC evaluates initial states
   and their invariants in one thread; successors of different chunk states are generated and
   checked by all workers.) *)
RestPairs(n) == {<<i, j>> \in AllPairs(n) : i > 0}
ZeroPairs(n) == {<<i, j>> \in AllPairs(n) : i = 0}

Chunks ==
  {<<"seg0">>}
  \cup {<<"segF", r>> : r \in RowsFull} \cup {<<"segS", r>> : r \in RowsSmall}
  \cup {<<"idx", rows>> : rows \in BSeq(RowsIdx, IdxRows)}
  \cup UNION {{<<"graph", n, E0>> : E0 \in SUBSET ZeroPairs(n)} : n \in 0..GraphN}
  \cup {<<"lemma", n, L>> : n \in 2..LemmaN, L \in 1..LemmaL}
  \cup {<<"loop", n, a>> : n \in 1..LoopN, a \in 0..(LoopN - 1)}

Set(k, i, e) == kind' = k /\ inp' = i /\ exp' = e
SegState(rows) == \E data \in DataFor(rows) : Set("seg", [rows |-> rows, data |-> data], SegExp(rows, data))

Expand(c) ==
  CASE c[1] = "seg0" -> SegState(<<>>)
    [] c[1] = "segF" -> \E rest \in BSeq(RowsFull, FullLen - 1) : SegState(<<c[2]>> \o rest)
    [] c[1] = "segS" -> \E rest \in BSeq(RowsSmall, SmallLen - 1) : SegState(<<c[2]>> \o rest)
    [] c[1] = "idx" ->
         \E idx \in BSeq((-1)..Len(c[2]), IdxLen) :
           Set("idx", [rows |-> c[2], idx |-> idx], IdxExp(c[2], idx))
    [] c[1] = "graph" ->
         \E rest \in SUBSET RestPairs(c[2]) :
           LET E == c[3] \cup rest IN Set("graph", [n |-> c[2], E |-> E], GraphExp(c[2], E))
    [] c[1] = "lemma" ->
         \E g \in Graphs(c[2]) :
           Set("lemma", [n |-> g.n, E |-> g.E, L |-> c[3]], LemmaExp(g.n, g.E, c[3]))
    [] c[1] = "loop" ->
         \* a bond from an atom to itself joins nothing: the molecules are those of the
         \* graph without it (the expected values are computed from the loop-free graph)
         \E g \in Graphs(c[2]) :
           /\ c[3] < c[2]
           /\ Set("loop", [n |-> g.n, E |-> g.E \cup {<<c[3], c[3]>>}, plain |-> g.E], GraphExp(g.n, g.E))

Init == kind = "root" /\ inp = <<>> /\ exp = <<>>
Next ==
  \/ kind = "root" /\ \E c \in Chunks : Set("chunk", c, <<>>)
  \/ kind = "chunk" /\ Expand(inp)
Spec == Init /\ [][Next]_vars

(* ------------------------------------------------------------------ invariants *)
InvSeg ==
  kind = "seg" =>
    /\ Dom_Data(inp.rows, inp.data)
    /\ Law_ChainsCoarser(inp.rows)
    /\ \A level \in Levels :
         /\ Law_Starts(level, inp.rows)
         /\ Law_PerAtom(level, inp.rows)
         /\ Law_IterConcat(level, inp.rows)
         /\ Law_Apply(level, inp.rows, inp.data)
         /\ Dom_SpreadVals(level, inp.rows, exp[level].spreadVals)
         /\ Law_Spread(level, inp.rows, exp[level].spreadVals)
         /\ Law_SpreadApply(level, inp.rows, exp[level].spreadVals)
         /\ exp[level].count = DeclCount(level, inp.rows)

\* the index-array views are the per-atom views applied to each entry, and are refused
\* exactly outside Dom_Indices
InvIdx ==
  kind = "idx" =>
    \A level \in Levels :
      LET v == exp[level]  rows == inp.rows  idx == inp.idx IN
      /\ v.sf.oc = v.pos.oc /\ v.pos.oc = v.masks.oc
      /\ (v.sf.oc = "ok") = (Len(rows) > 0 /\ Dom_Indices(Len(rows), idx))
      /\ v.sf.oc = "ok" =>
           /\ v.sf.out = [k \in DOMAIN idx |-> StartOf(level, rows, idx[k])]
           /\ v.pos.out = [k \in DOMAIN idx |-> PositionOf(level, rows, idx[k])]
           /\ v.masks.out = [k \in DOMAIN idx |-> MaskOf(level, rows, idx[k])]

InvGraph ==
  kind = "graph" =>
    /\ Law_Components(inp.n, inp.E)
    /\ Law_ImplConnected(inp.n, inp.E)
    /\ Law_ImplMolecules(inp.n, inp.E)
    /\ exp.comps = Components(inp.n, inp.E)
    \* a subdivision with L = 0 is the graph itself
    /\ SubComponents(inp.n, inp.E, 0) = Components(inp.n, inp.E)

InvLoop ==
  kind = "loop" =>
    /\ Components(inp.n, inp.E) = Components(inp.n, inp.plain)
    /\ \A r \in Atoms(inp.n) : ImplConnected(inp.E, r) = Reach(inp.n, inp.plain, r)
    /\ exp.comps = Components(inp.n, inp.plain)

InvLemma ==
  kind = "lemma" =>
    /\ Law_Subdivide(inp.n, inp.E, inp.L)
    /\ exp.comps = SubComponents(inp.n, inp.E, inp.L)
=============================================================================
