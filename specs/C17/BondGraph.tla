------------------------------- MODULE BondGraph -------------------------------
(* C17, part 2: molecules = connected components of the bond graph
   (biotite.structure.molecules, bonds.pyx find_connected / _find_connected).

   A bond graph is (n, E): atoms 0..n-1, E a set of pairs <<i, j>> with i < j (bond types
   do not matter for connectivity).

   Layers:
     * declarative: IsComponentPartition - the unique partition of the atoms whose blocks
       are closed under bonds and cannot be split into two parts without a bond between;
     * closure: Reach by iterating the neighbourhood operator, Components;
     * implementation-shaped: DFS with an explicit stack (the code recurses over the rows of
       get_all_bonds), MolLoop (take the first unvisited atom as root until all are visited).
   Subdivide(n, E, L) replaces every bond by a path through L new atoms; the lemma
   Components(Subdivide) = SubComponents (checked by TLC for small L) gives the expected
   answer for graphs with 10^4..10^5 atoms without enumerating them. *)
EXTENDS Integers, Sequences, FiniteSets, SequencesExt

Atoms(n) == 0..(n - 1)
AllPairs(n) == {<<i, j>> \in Atoms(n) \X Atoms(n) : i < j}
Graphs(n) == [n : {n}, E : SUBSET AllPairs(n)]

Nbrs(E, a) == {e[2] : e \in {x \in E : x[1] = a}} \cup {e[1] : e \in {x \in E : x[2] = a}}
Grow(E, S) == S \cup UNION {Nbrs(E, a) : a \in S}

(* ------------------------------------------------------------------ closure layer *)
\* n rounds of Grow reach everything reachable in a graph of n atoms
Reach(n, E, r) == FoldLeft(LAMBDA S, k : Grow(E, S), {r}, [k \in 1..n |-> k])
Components(n, E) == {Reach(n, E, r) : r \in Atoms(n)}

(* ------------------------------------------------------------------ declarative layer *)
ClosedUnderBonds(E, S) == \A e \in E : (e[1] \in S) = (e[2] \in S)
\* S cannot be split: every proper non-empty part has a bond leaving it inside S
Unsplittable(E, S) ==
  \A P \in SUBSET S : (P # {} /\ P # S) => \E e \in E : e[1] \in S /\ e[2] \in S /\ (e[1] \in P) # (e[2] \in P)
IsComponentPartition(n, E, P) ==
  /\ UNION P = Atoms(n)
  /\ \A S \in P : S # {} /\ ClosedUnderBonds(E, S) /\ Unsplittable(E, S)
  /\ \A S, T \in P : S # T => S \cap T = {}

(* ------------------------------------------------------------------ implementation-shaped layer *)
SortedSeq(S) == SetToSortSeq(S, <)
\* _find_connected(index): if visited return; mark; for each neighbour: recurse.
\* The recursion is unrolled into an explicit stack of pending calls.
RECURSIVE DFS(_, _, _)
DFS(E, pending, visited) ==
  IF pending = <<>> THEN visited
  ELSE LET a == Head(pending) IN
       IF a \in visited THEN DFS(E, Tail(pending), visited)
       ELSE DFS(E, SortedSeq(Nbrs(E, a)) \o Tail(pending), visited \cup {a})
ImplConnected(E, root) == DFS(E, <<root>>, {})

\* get_molecule_indices: while not all visited: root = first unvisited atom; ...
RECURSIVE MolLoop(_, _, _, _)
MolLoop(n, E, visited, acc) ==
  IF visited = Atoms(n) THEN acc
  ELSE LET root == CHOOSE a \in Atoms(n) \ visited : \A b \in Atoms(n) \ visited : a <= b
           c == ImplConnected(E, root)
       IN MolLoop(n, E, visited \cup c, Append(acc, SortedSeq(c)))
ImplMolecules(n, E) == MolLoop(n, E, {}, <<>>)

(* ------------------------------------------------------------------ public calls *)
GR(oc, out) == [oc |-> oc, out |-> out]
Dom_Root(n, root) == 0 <= root /\ root < n

\* find_connected(bond_list, root)  (as_mask=True gives the same set as a mask)
Op_FindConnected(n, E, root) ==
  IF Dom_Root(n, root) THEN GR("ok", ImplConnected(E, root)) ELSE GR("Rejected", {})
\* get_molecule_indices: list of index arrays; observed as a set of atom sets
Op_MoleculeIndices(n, E) == GR("ok", {ToSet(s) : s \in ToSet(ImplMolecules(n, E))})
\* number of molecules reported (length of the list / number of masks / iterations)
Op_MoleculeCount(n, E) == GR("ok", Len(ImplMolecules(n, E)))

(* ------------------------------------------------------------------ edits of the live bond list
   The bond list is a mutable object: bond_list.add_bond(i, j, type) / remove_bond(i, j)
   (also through array.bonds).  An edit is a record [how, i, j] with i < j; adding an existing
   bond and removing a missing one change nothing (documented).  Every molecule view answers
   for the CURRENT bonds (histories: SegMol "ghist" family, Trace "bond" events). *)
BondEditKinds == {"add", "remove"}
ApplyBondEdit(E, b) == IF b.how = "add" THEN E \cup {<<b.i, b.j>>} ELSE E \ {<<b.i, b.j>>}
ApplyBondEdits(E, bs) == FoldLeft(LAMBDA acc, b : ApplyBondEdit(acc, b), E, bs)
Dom_BondEdit(n, b) == b.how \in BondEditKinds /\ 0 <= b.i /\ b.i < b.j /\ b.j < n

(* ------------------------------------------------------------------ subdivision (scaling) *)
PairLess(a, b) == a[1] < b[1] \/ (a[1] = b[1] /\ a[2] < b[2])
EdgeSeq(E) == SetToSortSeq(E, PairLess)
\* the L new atoms on bond number k (1-based position in EdgeSeq): a contiguous index range
InteriorLo(n, L, k) == n + (k - 1) * L
Interior(n, L, k) == {InteriorLo(n, L, k) + m : m \in 0..(L - 1)}
SubdivideEdge(n, L, k, e) ==
  IF L = 0 THEN {e}
  ELSE LET lo == InteriorLo(n, L, k) IN
       {<<e[1], lo>>, <<e[2], lo + L - 1>>} \cup {<<lo + m, lo + m + 1>> : m \in 0..(L - 2)}
Subdivide(n, E, L) ==
  LET es == EdgeSeq(E) IN
  [n |-> n + Len(es) * L, E |-> UNION {SubdivideEdge(n, L, k, es[k]) : k \in DOMAIN es}]
\* symbolic components of the subdivided graph: old atoms + numbers of the bonds inside
SymComponents(n, E) ==
  LET es == EdgeSeq(E) IN
  {[nodes |-> C, edges |-> {k \in DOMAIN es : es[k][1] \in C}] : C \in Components(n, E)}
Concretise(n, L, sc) == sc.nodes \cup UNION {Interior(n, L, k) : k \in sc.edges}
SubComponents(n, E, L) == {Concretise(n, L, sc) : sc \in SymComponents(n, E)}

(* ------------------------------------------------------------------ laws (checked by TLC in SegMol) *)
Law_Components(n, E) == IsComponentPartition(n, E, Components(n, E))
Law_ImplConnected(n, E) == \A r \in Atoms(n) : ImplConnected(E, r) = Reach(n, E, r)
Law_ImplMolecules(n, E) ==
  LET ms == ImplMolecules(n, E) IN
  /\ {ToSet(ms[k]) : k \in DOMAIN ms} = Components(n, E)
  /\ Len(ms) = Cardinality(Components(n, E))
  \* molecules come ordered by their smallest atom
  /\ \A k \in 1..(Len(ms) - 1) : ms[k][1] < ms[k + 1][1]
Law_Subdivide(n, E, L) ==
  LET g == Subdivide(n, E, L) IN
  /\ g.E \subseteq AllPairs(g.n)
  /\ Components(g.n, g.E) = SubComponents(n, E, L)

\* a new bond merges exactly the molecules of its two ends; removing a bond never merges
\* molecules (every molecule afterwards lies inside one molecule before)
Law_BondEdit(n, E, b) ==
  LET before == Components(n, E)  after == Components(n, ApplyBondEdit(E, b)) IN
  IF b.how = "add"
  THEN after = {C \in before : b.i \notin C /\ b.j \notin C}
               \cup {UNION {C \in before : b.i \in C \/ b.j \in C}}
  ELSE \A C \in after : \E D \in before : C \subseteq D

\* the documentation's example: 0-1-2 3
ASSUME ImplConnected({<<0, 1>>, <<1, 2>>}, 2) = {0, 1, 2} /\ ImplConnected({<<0, 1>>, <<1, 2>>}, 3) = {3}
ASSUME Components(4, {<<0, 2>>}) = {{0, 2}, {1}, {3}}
ASSUME Components(3, ApplyBondEdit({<<0, 1>>, <<1, 2>>}, [how |-> "remove", i |-> 1, j |-> 2])) = {{0, 1}, {2}}
ASSUME Subdivide(2, {<<0, 1>>}, 2) = [n |-> 4, E |-> {<<0, 2>>, <<2, 3>>, <<1, 3>>}]
=============================================================================
