SPECIFICATION Spec
CONSTANTS
  FullLen = 4
  SmallLen = 5
  IdxRows = 4
  IdxLen = 3
  GraphN = 6
  LemmaN = 4
  LemmaL = 2
  LoopN = 5
  ExtraLen = 4
  HistRows = 3
  Hist2Rows = 3
  GHistN = 4
  GHist2N = 4
INVARIANT InvSeg
INVARIANT InvIdx
INVARIANT InvGraph
INVARIANT InvLemma
INVARIANT InvLoop
INVARIANT InvHist
INVARIANT InvGHist
CHECK_DEADLOCK FALSE
