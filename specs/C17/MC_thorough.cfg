SPECIFICATION Spec
CONSTANTS
  FullLen = 4
  SmallLen = 5
  IdxRows = 4
  IdxLen = 3
  GraphN = 6
  LemmaN = 4
  LemmaL = 2
INVARIANT InvSeg
INVARIANT InvIdx
INVARIANT InvGraph
INVARIANT InvLemma
CHECK_DEADLOCK FALSE
