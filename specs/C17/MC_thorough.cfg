SPECIFICATION Spec
CONSTANTS
  FullLen = 4
  SmallLen = 5
  IdxRows = 4
  IdxLen = 3
  GraphN = 6
  LemmaN = 4
  LemmaL = 2
  LoopN = 5
INVARIANT InvSeg
INVARIANT InvIdx
INVARIANT InvGraph
INVARIANT InvLemma
INVARIANT InvLoop
CHECK_DEADLOCK FALSE
