------------------------------- MODULE Trace -------------------------------
(* C17 direction B: sessions recorded from the real API are re-computed with the operators of
   Segments / BondGraph.  TRACE_FILE is a JSON array of traces.  The first event of a trace
   loads the subject:
       {op: "load",  rows: [[chain, res_id, ins, name], ...], data: [int, ...]}
       {op: "graph", n: int, E: [[i, j], ...]}
   every later event is one public call with its logged outcome and observation:
       {op, level, f?, vals?, idx?, root?, oc, out, carried?}
   Every event is judged on its own; disagreements are printed as
       <<"MISMATCH", tid, eventIndex, expected outcome, expected value>>. *)
EXTENDS Segments, BondGraph, Json, IOUtils, TLC

Tr == JsonDeserialize(IOEnv.TRACE_FILE)

VARIABLES tid, l, S
tvars == <<tid, l, S>>

NoDupSeq(s) == Cardinality(ToSet(s)) = Len(s)
SetsOf(lists) == {ToSet(x) : x \in ToSet(lists)}
Flat(lists) == FlattenSeq(lists)

\* the specification's answer for one logged call
Expected(e) ==
  LET rows == S.rows IN
  CASE e.op = "starts"      -> Op_Starts(e.level, rows, FALSE)
    [] e.op = "startsStop"  -> Op_Starts(e.level, rows, TRUE)
    [] e.op = "count"       -> Op_Count(e.level, rows)
    [] e.op = "iter"        -> Op_Iter(e.level, rows)
    [] e.op = "residues"    -> Op_Residues(rows)
    [] e.op = "chains"      -> Op_Chains(rows)
    [] e.op = "apply"       -> Op_Apply(e.level, rows, S.data, e.f)
    \* the driver takes the number of values from the implementation's own segment count:
    \* outside Dom_SpreadVals that count is wrong, which is reported as such
    [] e.op = "spread"      -> IF Dom_SpreadVals(e.level, rows, e.vals) THEN Op_Spread(e.level, rows, e.vals)
                               ELSE [oc |-> "WrongSegmentCount", out |-> <<DeclCount(e.level, rows)>>]
    [] e.op = "sf"          -> Op_StartsFor(e.level, rows, e.idx)
    [] e.op = "pos"         -> Op_Positions(e.level, rows, e.idx)
    [] e.op = "masks"       -> Op_Masks(e.level, rows, e.idx)
    [] e.op \in {"mol_indices", "mol_masks", "mol_iter"} -> Op_MoleculeIndices(S.n, S.E)
    [] e.op \in {"fc", "fcmask"} -> Op_FindConnected(S.n, S.E, e.root)

OutMatches(e, r) ==
  CASE e.op \in {"mol_indices", "mol_masks", "mol_iter"} ->
         /\ SetsOf(e.out) = r.out
         /\ Len(e.out) = Cardinality(r.out)
         /\ NoDupSeq(Flat(e.out))
    [] e.op \in {"fc", "fcmask"} -> ToSet(e.out) = r.out /\ NoDupSeq(e.out)
    [] e.op = "iter" -> e.out = r.out /\ e.carried
    [] OTHER -> e.out = r.out

Judge(e, r) ==
  LET good == CASE r.oc = "any"      -> e.oc = "Rejected" \/ e.out = <<>>
                [] r.oc = "Rejected" -> e.oc = "Rejected"
                [] r.oc = "WrongSegmentCount" -> FALSE
                [] OTHER             -> e.oc = "ok" /\ OutMatches(e, r)
  IN IF good THEN TRUE ELSE PrintT(<<"MISMATCH", tid, l + 1, r.oc, r.out>>)

Empty == [rows |-> <<>>, data |-> <<>>, n |-> 0, E |-> {}]

Init == tid \in 1..Len(Tr) /\ l = 0 /\ S = Empty

Next ==
  /\ l < Len(Tr[tid])
  /\ l' = l + 1
  /\ UNCHANGED tid
  /\ LET e == Tr[tid][l + 1] IN
     CASE e.op = "load"  -> S' = [S EXCEPT !.rows = e.rows, !.data = e.data]
       [] e.op = "graph" -> S' = [S EXCEPT !.n = e.n, !.E = ToSet(e.E)]
       [] OTHER          -> Judge(e, Expected(e)) /\ UNCHANGED S

Spec == Init /\ [][Next]_tvars
=============================================================================
