------------------------------- MODULE Trace -------------------------------
(* C17 direction B: sessions recorded from the real API are re-computed with the operators of
   Segments / BondGraph.  TRACE_FILE is a JSON array of traces.  The first event of a trace
   loads the subject; an annotation session keeps up to two live arrays (slot 1 / 2):
       {op: "load",  slot, rows: [[chain, res_id, ins, name, hetero, atom_name], ...], data: [int, ...]}
       {op: "graph", n: int, E: [[i, j], ...]}
   an in-place edit of the annotations of the live array of a slot (Segments!ApplyEdit), logged
   with the annotation rows read back from the object afterwards:
       {op: "edit",  slot, ed: {kind, f, lo, hi, v}, out: rows}
   an edit of the live bond list of a graph session (BondGraph!ApplyBondEdit), executed on
   every live object (bond list, atom array, stack), logged with the bonds read back from each:
       {op: "bond",  b: {how, i, j}, out: [[[i, j], ...], ...]}
   every other event is one public call with its logged outcome and observation; a call on a
   slot is answered for the rows of that slot as they are after all edits so far:
       {op, slot, level, f?, vals?, idx?, root?, oc, out, carried?}
   Every event is judged on its own; disagreements are printed as
       <<"MISMATCH", tid, eventIndex, expected outcome, expected value>>. *)
EXTENDS Segments, BondGraph, Json, IOUtils, TLC

Tr == JsonDeserialize(IOEnv.TRACE_FILE)

VARIABLES tid, l, S
tvars == <<tid, l, S>>

NoDupSeq(s) == Cardinality(ToSet(s)) = Len(s)
SetsOf(lists) == {ToSet(x) : x \in ToSet(lists)}
Flat(lists) == FlattenSeq(lists)

\* the specification's answer for one logged call
Expected(e) ==
  LET rows == S.arr[e.slot].rows IN
  CASE e.op = "starts"      -> Op_Starts(e.level, rows, FALSE)
    [] e.op = "startsStop"  -> Op_Starts(e.level, rows, TRUE)
    [] e.op = "count"       -> Op_Count(e.level, rows)
    [] e.op = "iter"        -> Op_Iter(e.level, rows)
    [] e.op = "residues"    -> Op_Residues(rows)
    [] e.op = "chains"      -> Op_Chains(rows)
    [] e.op = "apply"       -> Op_Apply(e.level, rows, S.arr[e.slot].data, e.f)
    \* the driver takes the number of values from the implementation's own segment count:
    \* outside Dom_SpreadVals that count is wrong, which is reported as such
    [] e.op = "spread"      -> IF Dom_SpreadVals(e.level, rows, e.vals) THEN Op_Spread(e.level, rows, e.vals)
                               ELSE [oc |-> "WrongSegmentCount", out |-> <<DeclCount(e.level, rows)>>]
    [] e.op = "sf"          -> Op_StartsFor(e.level, rows, e.idx)
    [] e.op = "pos"         -> Op_Positions(e.level, rows, e.idx)
    [] e.op = "masks"       -> Op_Masks(e.level, rows, e.idx)
    [] e.op \in {"mol_indices", "mol_masks", "mol_iter"} -> Op_MoleculeIndices(S.n, S.E)
    [] e.op \in {"fc", "fcmask"} -> Op_FindConnected(S.n, S.E, e.root)

OutMatches(e, r) ==
  CASE e.op \in {"mol_indices", "mol_masks", "mol_iter"} ->
         /\ SetsOf(e.out) = r.out
         /\ Len(e.out) = Cardinality(r.out)
         /\ NoDupSeq(Flat(e.out))
    [] e.op \in {"fc", "fcmask"} -> ToSet(e.out) = r.out /\ NoDupSeq(e.out)
    [] e.op = "iter" -> e.out = r.out /\ e.carried
    [] OTHER -> e.out = r.out

Judge(e, r) ==
  LET good == CASE r.oc = "any"      -> e.oc = "Rejected" \/ e.out = <<>>
                [] r.oc = "Rejected" -> e.oc = "Rejected"
                [] r.oc = "WrongSegmentCount" -> FALSE
                [] OTHER             -> e.oc = "ok" /\ OutMatches(e, r)
  IN IF good THEN TRUE ELSE PrintT(<<"MISMATCH", tid, l + 1, r.oc, r.out>>)

\* an edit: inside the array (Dom_Edit), and the object then carries exactly the edited rows
JudgeEdit(e, before, after) ==
  IF Dom_Edit(Len(before), e.ed) /\ e.out = after THEN TRUE
  ELSE PrintT(<<"MISMATCH", tid, l + 1, "ok", after>>)

JudgeBond(e, after) ==
  IF Dom_BondEdit(S.n, e.b) /\ \A k \in DOMAIN e.out : ToSet(e.out[k]) = after /\ NoDupSeq(e.out[k]) THEN TRUE
  ELSE PrintT(<<"MISMATCH", tid, l + 1, "ok", after>>)

NoArr == [rows |-> <<>>, data |-> <<>>]
Empty == [arr |-> <<NoArr, NoArr>>, n |-> 0, E |-> {}]

Init == tid \in 1..Len(Tr) /\ l = 0 /\ S = Empty

Next ==
  /\ l < Len(Tr[tid])
  /\ l' = l + 1
  /\ UNCHANGED tid
  /\ LET e == Tr[tid][l + 1] IN
     CASE e.op = "load"  -> S' = [S EXCEPT !.arr[e.slot] = [rows |-> e.rows, data |-> e.data]]
       [] e.op = "bond"  -> LET after == ApplyBondEdit(S.E, e.b) IN
                            JudgeBond(e, after) /\ S' = [S EXCEPT !.E = after]
       [] e.op = "edit"  -> LET before == S.arr[e.slot].rows  after == ApplyEdit(before, e.ed) IN
                            /\ JudgeEdit(e, before, after)
                            /\ S' = [S EXCEPT !.arr[e.slot].rows = after]
       [] e.op = "graph" -> S' = [S EXCEPT !.n = e.n, !.E = ToSet(e.E)]
       [] OTHER          -> Judge(e, Expected(e)) /\ UNCHANGED S

Spec == Init /\ [][Next]_tvars
=============================================================================
