SPECIFICATION Spec
CONSTANTS
  FullLen = 3
  SmallLen = 4
  IdxRows = 4
  IdxLen = 2
  GraphN = 5
  LemmaN = 4
  LemmaL = 2
INVARIANT InvSeg
INVARIANT InvIdx
INVARIANT InvGraph
INVARIANT InvLemma
CHECK_DEADLOCK FALSE
