SPECIFICATION Spec
CONSTANTS
  FullLen = 3
  SmallLen = 4
  IdxRows = 4
  IdxLen = 2
  GraphN = 5
  LemmaN = 4
  LemmaL = 2
  LoopN = 4
INVARIANT InvSeg
INVARIANT InvIdx
INVARIANT InvGraph
INVARIANT InvLemma
INVARIANT InvLoop
CHECK_DEADLOCK FALSE
