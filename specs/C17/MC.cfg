SPECIFICATION Spec
CONSTANTS
  FullLen = 3
  SmallLen = 4
  IdxRows = 4
  IdxLen = 2
  GraphN = 5
  LemmaN = 4
  LemmaL = 2
  LoopN = 4
  ExtraLen = 3
  HistRows = 3
  Hist2Rows = 2
  GHistN = 4
  GHist2N = 3
INVARIANT InvSeg
INVARIANT InvIdx
INVARIANT InvGraph
INVARIANT InvLemma
INVARIANT InvLoop
INVARIANT InvHist
INVARIANT InvGHist
CHECK_DEADLOCK FALSE
