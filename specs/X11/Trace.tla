------------------------------- MODULE Trace -------------------------------
(* X11 direction code -> spec.  TRACE_FILE is a JSON array of traces, a trace an array of events
   (64-bit values are lists of 8 little-endian byte limbs):
     {op:"permute",  x:[word..], out:[word..], after:[word..]}   RandomPermutation().permute(array);
                                                                  `after` = the caller's array after the call
     {op:"minmax",   lo:word, hi:word}                            RandomPermutation().min / .max
     {op:"minim",    k:[word..], w:int, pos:[int..]}              MinimizerSelector(.., w, RandomPermutation()).select_from_kmers
     {op:"sync",     sm:[word..], k:int, s:int, off:[int..], pos:[int..]}   SyncmerSelector(.., RandomPermutation(), off).select
     {op:"primes",   list:[int..], bound:int}                     the prefix of primes.txt below 2^31 (first event)
     {op:"bucket",   n:int, num:int, den:int, out:[] | [p]}       bucket_number(n, num/den) ([] = ValueError)
   Every event is judged on its own; disagreements are printed as <<"MISMATCH", tid, event, op, expected>>. *)
EXTENDS Lcg64, Json, IOUtils

Tr == JsonDeserialize(IOEnv.TRACE_FILE)

VARIABLES tid, l, primes
tvars == <<tid, l, primes>>

Expected(e) ==
  CASE e.op = "permute" -> <<LcgKeys(e.x), e.x>>
    [] e.op = "minmax"  -> <<MinI64, MaxI64>>
    [] e.op = "minim"   -> Op_RandomMinimizers(e.k, e.w)
    [] e.op = "sync"    -> Op_RandomSyncmers(e.sm, e.k, e.s, e.off)
    [] e.op = "primes"  -> Law_PrimeTable(e.list, e.bound)
    [] e.op = "bucket"  -> BucketNumber(e.n, e.num, e.den, primes)
Observed(e) ==
  CASE e.op = "permute" -> <<e.out, e.after>>
    [] e.op = "minmax"  -> <<e.lo, e.hi>>
    [] e.op = "minim"   -> e.pos
    [] e.op = "sync"    -> e.pos
    [] e.op = "primes"  -> TRUE
    [] e.op = "bucket"  -> e.out

\* the domain the check restricts itself to (a violation is a machinery failure of the driver)
DomOK(e) ==
  CASE e.op = "minim"  -> e.w >= 2 /\ Len(e.k) >= e.w
    [] e.op = "sync"   -> e.s < e.k /\ Len(e.sm) >= e.k - e.s + 1
    [] e.op = "bucket" -> e.n >= 0 /\ e.num >= 1 /\ e.den >= 1 /\ e.n * e.den < 2000000000 /\ primes # <<>>
    [] OTHER -> TRUE

Judge(e) ==
  IF ~DomOK(e) THEN PrintT(<<"MISMATCH", tid, l + 1, "DOMAIN", <<>>>>)
  ELSE LET x == Expected(e) IN
       IF x = Observed(e) THEN TRUE ELSE PrintT(<<"MISMATCH", tid, l + 1, e.op, x>>)

Init == tid \in 1..Len(Tr) /\ l = 0 /\ primes = <<>>
Next == /\ l < Len(Tr[tid])
        /\ l' = l + 1
        /\ UNCHANGED tid
        /\ LET e == Tr[tid][l + 1] IN
             /\ Judge(e)
             /\ primes' = IF e.op = "primes" THEN e.list ELSE primes
Spec == Init /\ [][Next]_tvars
=============================================================================
