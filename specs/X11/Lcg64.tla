------------------------------- MODULE Lcg64 -------------------------------
(* X11: the k-mer order permutations and the bucket-number rule
   (biotite.sequence.align.permutation: RandomPermutation, FrequencyPermutation is in C10;
    biotite.sequence.align.buckets: bucket_number; the selectors of selector.pyx *driven by*
    a RandomPermutation, which C10 decides only relative to the order the permutation returns).

   TLC integers are 32-bit Java ints, so a 64-bit word is a tuple of 8 limbs, little endian,
   each in 0..255 (the bytes of the int64 / uint64 in memory on this machine).

     MulMod / AddMod      schoolbook arithmetic modulo 2^64 (implementation-shaped: what
                          numpy's wrapping uint64 multiplication and addition compute)
     HornerMul            the same product by double-and-add over the 64 bits of the
                          multiplier (an independent route: only additions)
     Lcg(x)               RandomPermutation.permute on one value: (A * x + C) mod 2^64,
                          A = 0xd1342543de82ef95, C = 1, read back as a signed int64
     SignedLess           order of the signed int64 interpretation
     Ranks(keys)          dense ranks of a row of keys under SignedLess (ties equal)
     Minimizers / SyncmerPositions   restated from specs/C10/KmerSelect.tla (declarative forms)
     BucketNumber         first listed prime >= floor(n / load_factor)                    *)
EXTENDS Integers, Sequences, FiniteSets, SequencesExt, TLC

Idx == 1..8
Word == [Idx -> 0..255]
Zero == <<0, 0, 0, 0, 0, 0, 0, 0>>
One  == <<1, 0, 0, 0, 0, 0, 0, 0>>
\* 0xd1342543de82ef95, little endian
LcgA == <<149, 239, 130, 222, 67, 37, 52, 209>>
LcgC == One
\* the multiplicative inverse of LcgA modulo 2^64 (0x572b5ee77a54e3bd), certified by the ASSUME below
LcgAInv == <<189, 227, 84, 122, 231, 94, 43, 87>>
MinI64 == <<0, 0, 0, 0, 0, 0, 0, 128>>
MaxI64 == <<255, 255, 255, 255, 255, 255, 255, 127>>

(* ------------------------------------------------------------------ arithmetic mod 2^64 *)
\* carry propagation over 8 column sums, the carry out of limb 8 is dropped (mod 2^64)
Carry(cols) ==
  FoldLeft(LAMBDA acc, k : LET t == cols[k] + acc[2] IN <<Append(acc[1], t % 256), t \div 256>>,
           <<<<>>, 0>>, <<1, 2, 3, 4, 5, 6, 7, 8>>)[1]
AddMod(a, b) == Carry([k \in Idx |-> a[k] + b[k]])
\* column k (1-based) of the schoolbook product: sum of a[i] * b[j] with i + j = k + 1
Col(a, b, k) == FoldLeft(LAMBDA s, i : s + a[i] * b[k + 1 - i], 0, [i \in 1..k |-> i])
MulMod(a, b) == Carry([k \in Idx |-> Col(a, b, k)])
Not(a) == [k \in Idx |-> 255 - a[k]]
Neg(a) == AddMod(Not(a), One)
SubMod(a, b) == AddMod(a, Neg(b))

\* bit i (0..63) of a word
Bit(a, i) == (a[(i \div 8) + 1] \div (2 ^ (i % 8))) % 2
\* product by double-and-add from the most significant bit of the multiplier m
HornerMul(m, x) ==
  FoldLeft(LAMBDA acc, j : LET d == AddMod(acc, acc) IN IF Bit(m, 64 - j) = 1 THEN AddMod(d, x) ELSE d,
           Zero, [j \in 1..64 |-> j])

Lcg(x) == AddMod(MulMod(LcgA, x), LcgC)
LcgInverse(y) == MulMod(LcgAInv, SubMod(y, LcgC))

(* ------------------------------------------------------------------ signed order *)
\* unsigned lexicographic comparison from the most significant limb
ULess(a, b) == \E k \in Idx : a[k] < b[k] /\ \A j \in (k + 1)..8 : a[j] = b[j]
FlipSign(a) == [a EXCEPT ![8] = (a[8] + 128) % 256]
SignedLess(a, b) == ULess(FlipSign(a), FlipSign(b))
Ranks(keys) == [i \in DOMAIN keys |-> Cardinality({j \in DOMAIN keys : SignedLess(keys[j], keys[i])})]
LcgKeys(xs) == [i \in DOMAIN xs |-> Lcg(xs[i])]

(* ------------------------------------------------------------------ selectors (declarative,
   restated from specs/C10/KmerSelect.tla: LeftmostArgMin, WindowMinPos, DropRepeats, Minimizers,
   SyncmerPositions) *)
LeftmostArgMin(ord, a, b) ==
  CHOOSE p \in a..b : /\ \A x \in a..b : ord[p + 1] <= ord[x + 1]
                      /\ \A x \in a..(p - 1) : ord[x + 1] > ord[p + 1]
WindowMinPos(ord, w) == [x \in 1..(Len(ord) - w + 1) |-> LeftmostArgMin(ord, x - 1, x + w - 2)]
DropRepeats(s) == SelectSeq([i \in DOMAIN s |-> <<i, s[i]>>], LAMBDA e : e[1] = 1 \/ s[e[1] - 1] # e[2])
Minimizers(ord, w) == LET d == DropRepeats(WindowMinPos(ord, w)) IN [i \in DOMAIN d |-> d[i][2]]
WrapOffset(o, win) == IF o < 0 THEN win + o ELSE o
SyncmerPositions(sord, k, s, offsets) ==
  LET win == k - s + 1
      allowed == {WrapOffset(offsets[x], win) : x \in DOMAIN offsets}
      nk == Len(sord) - win + 1
  IN SelectSeq([i \in 1..nk |-> i - 1], LAMBDA i : (LeftmostArgMin(sord, i, i + win - 1) - i) \in allowed)

\* MinimizerSelector(alph, w, RandomPermutation()).select_from_kmers(kmers): positions
Op_RandomMinimizers(kmerWords, w) == Minimizers(Ranks(LcgKeys(kmerWords)), w)
\* SyncmerSelector(alph, k, s, RandomPermutation(), offset).select(seq): positions, from the s-mer codes
Op_RandomSyncmers(smerWords, k, s, offsets) == SyncmerPositions(Ranks(LcgKeys(smerWords)), k, s, offsets)

(* ------------------------------------------------------------------ bucket_number *)
\* trial division, valid for p < 2^20 (divisors up to 1024; keeps d * d inside TLC's 32-bit integers)
IsPrime(p) == p >= 2 /\ p < 1048576 /\ \A d \in 2..1024 : d * d > p \/ p % d # 0
\* number = floor(n * den / num) for the load factor num/den; answer = the first listed prime >= number
BucketNumber(n, num, den, primes) ==
  LET number == (n * den) \div num
      ok == {i \in DOMAIN primes : primes[i] >= number}
  IN IF ok = {} THEN <<>> ELSE <<primes[CHOOSE i \in ok : \A j \in ok : i <= j]>>
Law_PrimeTable(primes, bound) ==
  /\ \A i \in 1..(Len(primes) - 1) : primes[i] < primes[i + 1]
  /\ \A i \in DOMAIN primes : primes[i] < bound => IsPrime(primes[i])

(* ------------------------------------------------------------------ laws *)
Law_MulRoutes(x) == MulMod(LcgA, x) = HornerMul(LcgA, x) /\ MulMod(x, LcgA) = MulMod(LcgA, x)
Law_Bijective(x) == LcgInverse(Lcg(x)) = x /\ Lcg(LcgInverse(x)) = x
Law_Range(x) == ~SignedLess(Lcg(x), MinI64) /\ ~SignedLess(MaxI64, Lcg(x))

ASSUME MulMod(LcgA, LcgAInv) = One
ASSUME HornerMul(LcgA, LcgAInv) = One
ASSUME Lcg(Zero) = One
ASSUME Lcg(One) = <<150, 239, 130, 222, 67, 37, 52, 209>>
ASSUME SignedLess(MinI64, Zero) /\ SignedLess(Zero, MaxI64) /\ ~SignedLess(Zero, Zero)
ASSUME SignedLess(Not(Zero), Zero)         \* -1 < 0
ASSUME Neg(One) = Not(Zero)
ASSUME Minimizers(<<3, 1, 2, 1, 5>>, 2) = <<1, 3>>
ASSUME BucketNumber(10, 4, 5, <<3, 5, 11, 13, 17>>) = <<13>>      \* floor(10 / 0.8) = 12 -> 13
ASSUME BucketNumber(100, 1, 1, <<3, 5, 11>>) = <<>>
ASSUME IsPrime(2) /\ IsPrime(37) /\ ~IsPrime(1) /\ ~IsPrime(91)
=============================================================================
