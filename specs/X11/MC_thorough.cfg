SPECIFICATION Spec
CONSTANTS
  SmallMax = 5000
  Vals = {1, 2, 3, 15, 16, 63, 64, 127, 128, 129, 191, 192, 254, 255}
  PairVals = {1, 2, 127, 128, 129, 254, 255}
INVARIANT InvRoutes
INVARIANT InvBijective
INVARIANT InvRange
INVARIANT InvWord
CHECK_DEADLOCK FALSE
