SPECIFICATION Spec
CONSTANTS
  SmallMax = 600
  Vals = {1, 2, 127, 128, 129, 254, 255}
  PairVals = {1, 128, 255}
INVARIANT InvRoutes
INVARIANT InvBijective
INVARIANT InvRange
INVARIANT InvWord
CHECK_DEADLOCK FALSE
