------------------------------- MODULE MC -------------------------------
(* X11 exhaustive bounded model: every 64-bit word of the families below is pushed through the
   LCG by two arithmetic routes and through its inverse (stage S1); the dumped (x, out) states
   are executed against RandomPermutation.permute (stage S2).
   Families (each word = 8 little-endian limbs):
     small    0 .. SmallMax
     single   one limb p holds v in Vals, the others hold fill in {0, 255}
     pair     limbs p < q hold values from PairVals, the rest 0
     edge     MinI64, MaxI64, -1, LcgAInv, LcgA                                         *)
EXTENDS Lcg64
CONSTANTS SmallMax, Vals, PairVals

VARIABLES x, out, phase
vars == <<x, out, phase>>

Single(p, v, fill) == [k \in Idx |-> IF k = p THEN v ELSE fill]
Pair(p, q, v, u) == [k \in Idx |-> IF k = p THEN v ELSE IF k = q THEN u ELSE 0]

Init ==
  /\ out = Zero /\ phase = 0
  /\ \/ \E n \in 0..SmallMax : x = [k \in Idx |-> IF k = 1 THEN n % 256 ELSE IF k = 2 THEN n \div 256 ELSE 0]
     \/ \E p \in Idx, v \in Vals, fill \in {0, 255} : x = Single(p, v, fill)
     \/ \E p \in Idx, q \in Idx, v \in PairVals, u \in PairVals : p < q /\ x = Pair(p, q, v, u)
     \/ x \in {MinI64, MaxI64, Not(Zero), LcgAInv, LcgA}

Compute == phase = 0 /\ phase' = 1 /\ out' = Lcg(x) /\ UNCHANGED x
Next == Compute
Spec == Init /\ [][Next]_vars

InvRoutes    == phase = 1 => Law_MulRoutes(x)
InvBijective == phase = 1 => Law_Bijective(x)
InvRange     == phase = 1 => Law_Range(x)
InvWord      == phase = 1 => out \in Word
=============================================================================
