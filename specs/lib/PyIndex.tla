------------------------------- MODULE PyIndex -------------------------------
(* Single-axis index semantics of Python / numpy, as a total operator.

   An index object is a pair <<kind, payload>>:
     <<"int",   <<k>>>>                      integer (negative wraps once)
     <<"slice", <<a, b, c>>>>                each component <<>> (None) or <<v>>
     <<"mask",  <<b1, ..., bn>>>>            boolean mask, length must equal n
     <<"arr",   <<k1, ..., km>>>>            integer index array (negative wraps once)
     <<"all",   <<>>>>                       ':'
     <<"ell",   <<>>>>                       Ellipsis
   Resolve(idx, n) = [ok |-> BOOLEAN, pos |-> sequence of 0-based source positions,
                      scalar |-> BOOLEAN]
   Positions are 0-based like the code's. *)
EXTENDS Integers, Sequences, FiniteSets

None == <<>>
Some(v) == <<v>>
IsNone(o) == o = <<>>
Val(o) == o[1]

Min2(a, b) == IF a < b THEN a ELSE b
Max2(a, b) == IF a > b THEN a ELSE b

\* ceil(a / b) for a >= 0, b > 0
CeilDiv(a, b) == (a + b - 1) \div b

(* CPython's PySlice_AdjustIndices *)
SliceStep(c) == IF IsNone(c) THEN 1 ELSE Val(c)

SliceBounds(a, b, c, n) ==
  LET step  == SliceStep(c)
      lower == IF step < 0 THEN -1 ELSE 0
      upper == IF step < 0 THEN n - 1 ELSE n
      Adj(o, dflt) ==
        IF IsNone(o) THEN dflt
        ELSE LET v == Val(o) IN
             IF v < 0 THEN Max2(v + n, lower) ELSE Min2(v, upper)
      start == Adj(a, IF step < 0 THEN upper ELSE lower)
      stop  == Adj(b, IF step < 0 THEN lower ELSE upper)
  IN [start |-> start, stop |-> stop, step |-> step]

SliceLen(sb) ==
  IF sb.step > 0
    THEN IF sb.stop > sb.start THEN CeilDiv(sb.stop - sb.start, sb.step) ELSE 0
    ELSE IF sb.start > sb.stop THEN CeilDiv(sb.start - sb.stop, -sb.step) ELSE 0

SlicePos(a, b, c, n) ==
  LET sb == SliceBounds(a, b, c, n)
  IN [k \in 1..SliceLen(sb) |-> sb.start + (k - 1) * sb.step]

(* Declarative definition used to cross-check SlicePos in the model:
   the positions p in 0..n-1 of the arithmetic progression between the clamped bounds *)
SliceSetDecl(a, b, c, n) ==
  LET sb == SliceBounds(a, b, c, n) IN
  IF sb.step > 0
    THEN {p \in 0..(n-1) : p >= sb.start /\ p < sb.stop /\ (p - sb.start) % sb.step = 0}
    ELSE {p \in 0..(n-1) : p <= sb.start /\ p > sb.stop /\ (sb.start - p) % (-sb.step) = 0}

WrapOne(k, n) == IF k < 0 THEN k + n ELSE k
InRange(k, n) == -n <= k /\ k < n

MaskPos(m) == SelectSeq([i \in DOMAIN m |-> i - 1], LAMBDA p : m[p + 1])

SeqRange(s) == {s[i] : i \in DOMAIN s}
HasDup(s) == Cardinality(SeqRange(s)) # Len(s)

Bad == [ok |-> FALSE, pos |-> <<>>, scalar |-> FALSE]

Resolve(idx, n) ==
  LET kind == idx[1]  p == idx[2] IN
  CASE kind = "int" ->
         IF InRange(p[1], n)
           THEN [ok |-> TRUE, pos |-> <<WrapOne(p[1], n)>>, scalar |-> TRUE]
           ELSE Bad
    [] kind = "slice" ->
         IF SliceStep(p[3]) = 0 THEN Bad
         ELSE [ok |-> TRUE, pos |-> SlicePos(p[1], p[2], p[3], n), scalar |-> FALSE]
    [] kind = "mask" ->
         IF Len(p) = n THEN [ok |-> TRUE, pos |-> MaskPos(p), scalar |-> FALSE] ELSE Bad
    [] kind = "arr" ->
         IF \A i \in DOMAIN p : InRange(p[i], n)
           THEN [ok |-> TRUE, pos |-> [i \in DOMAIN p |-> WrapOne(p[i], n)], scalar |-> FALSE]
           ELSE Bad
    [] kind \in {"all", "ell"} ->      \* ':' and Ellipsis select the whole axis
         [ok |-> TRUE, pos |-> [i \in 1..n |-> i - 1], scalar |-> FALSE]

(* Generators of index objects for exhaustive configurations *)
OptInts(S) == {None} \cup {Some(v) : v \in S}
IntIdx(S) == {<<"int", <<k>>>> : k \in S}
SliceIdx(A, B, C) == {<<"slice", <<a, b, c>>>> : a \in OptInts(A), b \in OptInts(B), c \in OptInts(C)}
MaskIdx(n) == {<<"mask", m>> : m \in [1..n -> BOOLEAN]}
SeqsUpTo(S, k) == UNION {[1..m -> S] : m \in 0..k}
ArrIdx(S, k) == {<<"arr", s>> : s \in SeqsUpTo(S, k)}
AllIdx == {<<"all", <<>>>>}
EllIdx == {<<"ell", <<>>>>}
=============================================================================
