------------------------------- MODULE FixedCols -------------------------------
(* Fixed-column text records: the shared vocabulary of C07 (PDB ATOM/HETATM/CRYST1/CONECT
   records) and C18 (MOL V2000 counts / atom / bond / property lines).

   Text is a sequence of characters, a character is a string of length 1:
       T("ATOM  ") = <<"A", "T", "O", "M", " ", " ">>
   (TLC can take a string literal apart with SubSeq, so literals stay readable; it interns
   every string it ever creates and the intern table degrades badly beyond ~30,000 distinct
   strings (measured), therefore computed text is never a TLC string.)  The drivers map
   Python str <-> list of characters.  Columns are numbered as in the format documents:
   1-based, inclusive.

   Numbers are exact: integers, or rationals <<num, den>> with den > 0 (the drivers use
   powers of two, so that the float32/float64 handed to the real code is exactly this number).
   den = 0 encodes the IEEE specials: <<0,0>> NaN, <<1,0>> +inf, <<-1,0>> -inf.
   All arithmetic stays below 2^31 (TLC integers are Java ints): the integer part and the
   fraction are scaled separately. *)
EXTENDS Integers, Sequences, SequencesExt, FiniteSets

(* ------------------------------------------------------------------ characters, padding *)
T(lit) == [i \in 1..Len(lit) |-> SubSeq(lit, i, i)]          \* string literal -> text
Spaces(n) == [i \in 1..(IF n < 0 THEN 0 ELSE n) |-> " "]

Cols(line, from, to) == SubSeq(line, from, to)

(* Python's str.rjust / str.ljust / format(">w") / format("<w"): pad, never truncate *)
RJust(s, w) == Spaces(w - Len(s)) \o s
LJust(s, w) == s \o Spaces(w - Len(s))
Just(s, w, j) == IF j = "R" THEN RJust(s, w) ELSE LJust(s, w)
Fits(s, w) == Len(s) <= w

IsBlank(s) == \A i \in 1..Len(s) : s[i] = " "
HasBlank(s) == \E i \in 1..Len(s) : s[i] = " "
RECURSIVE FirstNBFrom(_, _), LastNBFrom(_, _)
FirstNBFrom(s, i) == IF s[i] # " " THEN i ELSE FirstNBFrom(s, i + 1)        \* s is not blank
LastNBFrom(s, i) == IF s[i] # " " THEN i ELSE LastNBFrom(s, i - 1)
FirstNB(s) == FirstNBFrom(s, 1)
LastNB(s) == LastNBFrom(s, Len(s))
Strip(s) == IF IsBlank(s) THEN <<>> ELSE SubSeq(s, FirstNB(s), LastNB(s))    \* Python str.strip()
RStrip(s) == IF IsBlank(s) THEN <<>> ELSE SubSeq(s, 1, LastNB(s))
LStrip(s) == IF IsBlank(s) THEN <<>> ELSE SubSeq(s, FirstNB(s), Len(s))
StartsWith(s, p) == Len(s) >= Len(p) /\ SubSeq(s, 1, Len(p)) = p

(* Evaluate v once and use it under a name: Bind(v, LAMBDA x : body).  TLC re-evaluates a LET
   definition at every reference in many contexts (measured: 207 record parses for 9 records);
   a bound variable of a set constructor holds a value. *)
Bind(v, Op(_)) == CHOOSE r \in {Op(x) : x \in {v}} : TRUE

(* concatenation of a sequence of texts *)
Flat(parts) == FoldLeft(LAMBDA acc, p : acc \o p, <<>>, parts)

(* ------------------------------------------------------------------ letter case *)
AlphaUpper == T("ABCDEFGHIJKLMNOPQRSTUVWXYZ")
AlphaLower == T("abcdefghijklmnopqrstuvwxyz")
UpperLetters == {AlphaUpper[k] : k \in 1..26}
LowerLetters == {AlphaLower[k] : k \in 1..26}
ToUpperF == [c \in LowerLetters |-> AlphaUpper[CHOOSE k \in 1..26 : AlphaLower[k] = c]]     \* evaluated once
ToLowerF == [c \in UpperLetters |-> AlphaLower[CHOOSE k \in 1..26 : AlphaUpper[k] = c]]
UpperChar(c) == IF c \in LowerLetters THEN ToUpperF[c] ELSE c
LowerChar(c) == IF c \in UpperLetters THEN ToLowerF[c] ELSE c
UpperText(s) == [i \in DOMAIN s |-> UpperChar(s[i])]                 \* str.upper() on ASCII
LowerText(s) == [i \in DOMAIN s |-> LowerChar(s[i])]
Capitalize(s) == [i \in DOMAIN s |-> IF i = 1 THEN UpperChar(s[i]) ELSE LowerChar(s[i])]   \* str.capitalize()

(* ------------------------------------------------------------------ blank-separated tokens *)
FirstBlankFrom(s, i) == IF \E k \in i..Len(s) : s[k] = " "
                          THEN CHOOSE k \in i..Len(s) : s[k] = " " /\ \A q \in i..(k - 1) : s[q] # " "
                          ELSE Len(s) + 1
RECURSIVE Tokens(_)
Tokens(s) ==                                                           \* str.split()
  LET t == LStrip(s) IN
  IF t = <<>> THEN <<>>
  ELSE LET e == FirstBlankFrom(t, 1) IN <<SubSeq(t, 1, e - 1)>> \o Tokens(SubSeq(t, e, Len(t)))
JoinWith(parts, sep) ==
  FoldLeft(LAMBDA acc, k : IF k = 1 THEN parts[1] ELSE acc \o sep \o parts[k], <<>>, [k \in 1..Len(parts) |-> k])

(* ------------------------------------------------------------------ integers as text *)
DigitSeq == T("0123456789")
DigitSet == {DigitSeq[k] : k \in 1..10}
DigitValF == [c \in DigitSet |-> (CHOOSE k \in 1..10 : DigitSeq[k] = c) - 1]      \* evaluated once
DigitChar(d) == DigitSeq[d + 1]
IsDigit(c) == c \in DigitSet
DigitVal(c) == DigitValF[c]
AllDigits(s) == Len(s) > 0 /\ \A i \in 1..Len(s) : s[i] \in DigitSet

Abs(n) == IF n < 0 THEN -n ELSE n
Pow10(d) == CASE d = 0 -> 1 [] d = 1 -> 10 [] d = 2 -> 100 [] d = 3 -> 1000 [] d = 4 -> 10000
              [] d = 5 -> 100000 [] d = 6 -> 1000000 [] d = 7 -> 10000000 [] d = 8 -> 100000000
              [] d = 9 -> 1000000000

RECURSIVE NatText(_)
NatText(n) == IF n < 10 THEN <<DigitChar(n)>> ELSE Append(NatText(n \div 10), DigitChar(n % 10))
IntText(n) == IF n < 0 THEN <<"-">> \o NatText(-n) ELSE NatText(n)          \* Python str(int)
ZeroPad(n, w) == LET t == NatText(n) IN [i \in 1..(w - Len(t)) |-> "0"] \o t

NatVal(s) == FoldLeft(LAMBDA acc, c : 10 * acc + DigitVal(c), 0, s)

(* Python int(text): surrounding blanks, one optional sign, decimal digits (at most 9 here) *)
BadInt == [ok |-> FALSE, val |-> 0]
ParseInt(s) ==
  LET t == Strip(s)
      signed == Len(t) > 0 /\ t[1] \in {"-", "+"}
      body == IF signed THEN SubSeq(t, 2, Len(t)) ELSE t
  IN IF AllDigits(body) /\ Len(body) <= 9
       THEN [ok |-> TRUE, val |-> IF signed /\ t[1] = "-" THEN -NatVal(body) ELSE NatVal(body)]
       ELSE BadInt

(* ------------------------------------------------------------------ exact rationals *)
IsSpecial(r) == r[2] = 0
IsNaN(r) == r[2] = 0 /\ r[1] = 0
(* truncation toward zero, as numpy's astype(int) *)
TruncToZero(r) == IF r[1] < 0 THEN -((-r[1]) \div r[2]) ELSE r[1] \div r[2]

(* |r| rounded to d decimals, half to even, as a natural number of 10^-d units
   (what a correctly rounding "%.<d>f" prints, sign apart) *)
RoundUnits(r, d) ==
  LET a   == Abs(r[1])
      ip  == a \div r[2]
      sc  == (a % r[2]) * Pow10(d)
      q   == sc \div r[2]
      rem == sc % r[2]
      up  == (2 * rem > r[2]) \/ (2 * rem = r[2] /\ q % 2 = 1)
  IN ip * Pow10(d) + q + (IF up THEN 1 ELSE 0)
SignedUnits(r, d) == IF r[1] < 0 THEN -RoundUnits(r, d) ELSE RoundUnits(r, d)

(* Python format(x, ".<d>f") of the float that equals r exactly; the sign of a negative
   number is kept even when it rounds to zero ("-0.000") *)
TNaN == T("nan")
FixedText(r, d) ==
  IF r[2] = 0 THEN (IF r[1] = 0 THEN TNaN ELSE IF r[1] > 0 THEN T("inf") ELSE T("-inf"))
  ELSE LET u == RoundUnits(r, d)  P == Pow10(d) IN
       (IF r[1] < 0 THEN <<"-">> ELSE <<>>) \o NatText(u \div P)
         \o (IF d = 0 THEN <<>> ELSE <<".">> \o ZeroPad(u % P, d))

(* Python float(text) of a plain decimal (what FixedText writes), returned in 10^-d units.
   More than d fraction digits, exponents etc. are not in the written language: not ok. *)
BadFixed == [ok |-> FALSE, nan |-> FALSE, units |-> 0]
DotPos(t) == IF \E i \in 1..Len(t) : t[i] = "."
               THEN CHOOSE i \in 1..Len(t) : t[i] = "." /\ \A k \in 1..(i-1) : t[k] # "."
               ELSE 0
ParseFixed(s, d) ==
  LET t == Strip(s)
      signed == Len(t) > 0 /\ t[1] \in {"-", "+"}
      neg == signed /\ t[1] = "-"
      body == IF signed THEN SubSeq(t, 2, Len(t)) ELSE t
      p == DotPos(body)
      ipart == IF p = 0 THEN body ELSE SubSeq(body, 1, p - 1)
      fpart == IF p = 0 THEN <<>> ELSE SubSeq(body, p + 1, Len(body))
  IN IF body = TNaN THEN [ok |-> TRUE, nan |-> TRUE, units |-> 0]
     ELSE IF AllDigits(ipart) /\ Len(ipart) <= 6 /\ Len(fpart) <= d
             /\ (fpart = <<>> \/ AllDigits(fpart))
       THEN LET u == NatVal(ipart) * Pow10(d) + NatVal(fpart) * Pow10(d - Len(fpart))
            IN [ok |-> TRUE, nan |-> FALSE, units |-> IF neg THEN -u ELSE u]
       ELSE BadFixed

(* ------------------------------------------------------------------ record layouts *)
Fld(name, from, to, just) == [name |-> name, from |-> from, to |-> to, just |-> just]
Width(f) == f.to - f.from + 1

(* a layout is a sequence of fields in increasing, non-overlapping column order *)
LayoutOK(layout, total) ==
  /\ \A k \in DOMAIN layout : 1 <= layout[k].from /\ layout[k].from <= layout[k].to /\ layout[k].to <= total
  /\ \A k \in 1..(Len(layout) - 1) : layout[k].to < layout[k + 1].from

FitsAll(layout, vals) == \A k \in DOMAIN layout : Fits(vals[layout[k].name], Width(layout[k]))

(* The way the writers build a line: justified fields joined by constant runs of blanks.
   Nothing is ever truncated, so one over-long value shifts everything behind it. *)
Render(layout, vals, total) ==
  LET body == FoldLeft(LAMBDA acc, k :
                         acc \o Spaces(layout[k].from - (IF k = 1 THEN 0 ELSE layout[k - 1].to) - 1)
                             \o Just(vals[layout[k].name], Width(layout[k]), layout[k].just),
                       <<>>, [k \in 1..Len(layout) |-> k])
  IN LJust(body, total)

(* Declarative: every field sits justified in its own columns, everything else is blank *)
GapCols(layout, total) == {c \in 1..total : \A k \in DOMAIN layout : c < layout[k].from \/ c > layout[k].to}
InColumns(line, layout, vals, total) ==
  /\ Len(line) = total
  /\ \A k \in DOMAIN layout :
       Cols(line, layout[k].from, layout[k].to) = Just(vals[layout[k].name], Width(layout[k]), layout[k].just)
  /\ \A c \in GapCols(layout, total) : line[c] = " "

Field(line, layout, name) ==
  LET f == layout[CHOOSE k \in DOMAIN layout : layout[k].name = name] IN Cols(line, f.from, f.to)

(* ------------------------------------------------------------------ pinned examples *)
ASSUME FixedText(<<1, 16>>, 3) = T("0.062")         \* 0.0625: a tie, to even
ASSUME FixedText(<<3, 16>>, 3) = T("0.188")         \* 0.1875: a tie, to even
ASSUME FixedText(<<-1, 4096>>, 3) = T("-0.000")
ASSUME FixedText(<<-16383993, 16384>>, 3) = T("-1000.000")    \* the float32 -999.99957
ASSUME FixedText(<<10239999, 1024>>, 3) = T("9999.999")
ASSUME FixedText(<<5, 2>>, 0) = T("2")
ASSUME RJust(T("abc"), 2) = T("abc") /\ RJust(T("7"), 3) = T("  7") /\ LJust(T("ab"), 4) = T("ab  ")
ASSUME Strip(T("  a b ")) = T("a b") /\ Strip(T("   ")) = <<>> /\ Strip(<<>>) = <<>>
ASSUME ParseInt(T(" -12 ")) = [ok |-> TRUE, val |-> -12] /\ ~ParseInt(T("1 2")).ok /\ ~ParseInt(<<>>).ok
ASSUME ParseFixed(T(" -12.50"), 3) = [ok |-> TRUE, nan |-> FALSE, units |-> -12500]
ASSUME Tokens(T("  ab  c d ")) = <<T("ab"), T("c"), T("d")>> /\ Tokens(T("   ")) = <<>>
ASSUME Capitalize(T("CL")) = T("Cl") /\ UpperText(T("Cl1")) = T("CL1") /\ JoinWith(<<T("a"), T("b")>>, T(" ")) = T("a b")
ASSUME IntText(-1000) = T("-1000") /\ ZeroPad(7, 3) = T("007") /\ NatVal(T("0420")) = 420
=============================================================================
