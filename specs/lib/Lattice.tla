------------------------------- MODULE Lattice -------------------------------
(* Exact geometry on the integer lattice, shared by C14 (cell lists), C15 (geometry and
   periodic helpers) and C16 (superimposition).

   Everything is integer or exact-rational arithmetic.  A vector is <<x, y, z>>, a matrix is
   <<row1, row2, row3>>.  A *box* is a matrix whose rows are the box vectors (biotite's
   convention: coordinate = fraction . box, row vector times matrix).

   The restriction of the three properties to this module's domain is explicit:
     - coordinates, translations and box vectors are integers ("ticks"; a driver may scale
       ticks by a power of two, which keeps float32 arithmetic exact),
     - rotations are the 24 proper signed permutation matrices (the rotation group of the
       cube), reflections the 24 improper ones,
     - squared radii are rationals <<num, den>>.
   TLC integers are 32 bit: operators that multiply large numbers say so. *)
EXTENDS Integers, Sequences, FiniteSets, FiniteSetsExt, TLC

(* TLC evaluation note (measured): [x \in S |-> e] is a LAZY function in TLC - every
   application re-evaluates e, also when the function is the value of a constant
   definition.  EagerSeq / EagerFcn are the identity on sequences / functions but force TLC
   to tabulate them once; use them for every table that is read more than once.  LET
   definitions are cached only while TLC evaluates the next-state relation, not in ASSUME,
   invariants or constant definitions. *)
EagerSeq(s) == s \o <<>>
EagerFcn(f) == f @@ <<>>

(* ---------------------------------------------------------------- scalars *)
Abs(a)      == IF a < 0 THEN -a ELSE a
Sgn(a)      == IF a < 0 THEN -1 ELSE IF a > 0 THEN 1 ELSE 0
MinI(a, b)  == IF a < b THEN a ELSE b
MaxI(a, b)  == IF a > b THEN a ELSE b
\* floor(a / b) for any a and b # 0 (TLC's \div floors for a positive divisor)
FloorDiv(a, b) == IF b > 0 THEN a \div b ELSE (-a) \div (-b)
\* truncation toward zero, the C cast <int>(a / b), b > 0
TruncDiv(a, b) == IF a >= 0 THEN a \div b ELSE -((-a) \div b)
\* ceil(a / b), b > 0
CeilDivI(a, b) == -((-a) \div b)
\* a mod b in 0..|b|-1
ModI(a, b)  == a % Abs(b)

\* minimum / maximum of a non-empty finite set of integers (linear: FoldSet is a Java override)
SetMin(S) == LET a == CHOOSE x \in S : TRUE IN FoldSet(LAMBDA x, acc : IF x < acc THEN x ELSE acc, a, S)
SetMax(S) == LET a == CHOOSE x \in S : TRUE IN FoldSet(LAMBDA x, acc : IF x > acc THEN x ELSE acc, a, S)

RECURSIVE SumSeq(_)
SumSeq(s) == IF s = <<>> THEN 0 ELSE s[1] + SumSeq(Tail(s))

(* Exact comparison  a/b <= c/d  for a, c >= 0 and b, d > 0 WITHOUT forming a*d and c*b
   (which overflow 32 bits): compare the continued-fraction expansions (Euclid). *)
RECURSIVE FracLeq(_, _, _, _)
FracLeq(a, b, c, d) ==
  LET qa == a \div b   qc == c \div d
      ra == a % b      rc == c % d
  IN IF qa # qc THEN qa < qc
     ELSE IF ra = 0 THEN TRUE                 \* a/b = qa <= c/d
     ELSE IF rc = 0 THEN FALSE                \* a/b > qa = c/d
     ELSE FracLeq(d, rc, b, ra)               \* ra/b <= rc/d  <=>  d/rc <= b/ra
FracLess(a, b, c, d) == ~FracLeq(c, d, a, b)

\* floor(sqrt(n)), n >= 0
ISqrt(n) == CHOOSE k \in 0..(n + 1) : k * k <= n /\ (k + 1) * (k + 1) > n
IsSquare(n) == n >= 0 /\ ISqrt(n) * ISqrt(n) = n

(* ---------------------------------------------------------------- vectors *)
Zero3 == <<0, 0, 0>>
VAdd(a, b)   == <<a[1] + b[1], a[2] + b[2], a[3] + b[3]>>
VSub(a, b)   == <<a[1] - b[1], a[2] - b[2], a[3] - b[3]>>
VNeg(a)      == <<-a[1], -a[2], -a[3]>>
VScale(k, a) == <<k * a[1], k * a[2], k * a[3]>>
Dot(a, b)    == a[1] * b[1] + a[2] * b[2] + a[3] * b[3]
Cross(a, b)  == <<a[2] * b[3] - a[3] * b[2], a[3] * b[1] - a[1] * b[3], a[1] * b[2] - a[2] * b[1]>>
Norm2(a)     == Dot(a, a)
Dist2(a, b)  == Norm2(VSub(a, b))
Triple(a, b, c) == Dot(a, Cross(b, c))

Cube(lo, hi) == (lo..hi) \X (lo..hi) \X (lo..hi)

RECURSIVE VSum(_)
VSum(s) == IF s = <<>> THEN Zero3 ELSE VAdd(s[1], VSum(Tail(s)))

(* ---------------------------------------------------------------- matrices *)
Id3 == <<<<1, 0, 0>>, <<0, 1, 0>>, <<0, 0, 1>>>>
Col(M, j)     == <<M[1][j], M[2][j], M[3][j]>>
Transpose(M)  == <<Col(M, 1), Col(M, 2), Col(M, 3)>>
MatVec(M, v)  == <<Dot(M[1], v), Dot(M[2], v), Dot(M[3], v)>>          \* M . v
VecMat(v, M)  == <<Dot(v, Col(M, 1)), Dot(v, Col(M, 2)), Dot(v, Col(M, 3))>>   \* v . M
MatMul(A, B)  == <<VecMat(A[1], B), VecMat(A[2], B), VecMat(A[3], B)>>
MatScale(k, M) == <<VScale(k, M[1]), VScale(k, M[2]), VScale(k, M[3])>>
MatAdd(A, B)  == <<VAdd(A[1], B[1]), VAdd(A[2], B[2]), VAdd(A[3], B[3])>>
Det(M)        == Triple(M[1], M[2], M[3])
\* adjugate: M . Adj(M) = Adj(M) . M = Det(M) . Id3
Adj(M)        == Transpose(<<Cross(M[2], M[3]), Cross(M[3], M[1]), Cross(M[1], M[2])>>)
Outer(a, b)   == <<VScale(a[1], b), VScale(a[2], b), VScale(a[3], b)>>
CrossMat(a)   == <<<<0, -a[3], a[2]>>, <<a[3], 0, -a[1]>>, <<-a[2], a[1], 0>>>>
Diag(a, b, c) == <<<<a, 0, 0>>, <<0, b, 0>>, <<0, 0, c>>>>

(* ---------------------------------------------------------------- the cube group *)
Perms3 == {<<1, 2, 3>>, <<1, 3, 2>>, <<2, 1, 3>>, <<2, 3, 1>>, <<3, 1, 2>>, <<3, 2, 1>>}
Signs3 == {-1, 1} \X {-1, 1} \X {-1, 1}
UnitRow(j, s) == <<IF j = 1 THEN s ELSE 0, IF j = 2 THEN s ELSE 0, IF j = 3 THEN s ELSE 0>>
SignedPerm(p, s) == <<UnitRow(p[1], s[1]), UnitRow(p[2], s[2]), UnitRow(p[3], s[3])>>
SignedPerms == {SignedPerm(p, s) : p \in Perms3, s \in Signs3}
Proper   == {M \in SignedPerms : Det(M) = 1}      \* the 24 rotations of the cube
Improper == {M \in SignedPerms : Det(M) = -1}     \* the 24 rotoreflections
IsOrthonormal(M) == MatMul(M, Transpose(M)) = Id3
InvRot(g) == Transpose(g)                          \* inverse of an orthonormal g

Rot(g, v)        == MatVec(g, v)
Rigid(g, t, v)   == VAdd(MatVec(g, v), t)          \* x |-> g.x + t
RigidSeq(g, t, P) == [k \in DOMAIN P |-> Rigid(g, t, P[k])]

(* quarter turns about the coordinate axes, the convention of biotite.structure.rotate:
   angles (a, b, c) about x, y, z applied in that order, matrix rot_z . rot_y . rot_x. *)
CosQ(k) == CASE k % 4 = 0 -> 1 [] k % 4 = 1 -> 0 [] k % 4 = 2 -> -1 [] OTHER -> 0
SinQ(k) == CASE k % 4 = 0 -> 0 [] k % 4 = 1 -> 1 [] k % 4 = 2 -> 0 [] OTHER -> -1
RotX(k) == <<<<1, 0, 0>>, <<0, CosQ(k), -SinQ(k)>>, <<0, SinQ(k), CosQ(k)>>>>
RotY(k) == <<<<CosQ(k), 0, SinQ(k)>>, <<0, 1, 0>>, <<-SinQ(k), 0, CosQ(k)>>>>
RotZ(k) == <<<<CosQ(k), -SinQ(k), 0>>, <<SinQ(k), CosQ(k), 0>>, <<0, 0, 1>>>>
EulerMat(e) == MatMul(RotZ(e[3]), MatMul(RotY(e[2]), RotX(e[1])))
EulerTriples == (0..3) \X (0..3) \X (0..3)
EulerOf(g) == CHOOSE e \in EulerTriples : EulerMat(e) = g

(* Rotation about an integer axis a by an angle whose cosine is cn/cd and whose
   sine / |a| is sn/sd (Rodrigues).  Returns the matrix times the common denominator
   cd * sd * |a|^2; AxisRot is defined when that division is exact. *)
AxisRotScaled(a, cn, cd, sn, sd) ==
  LET n2 == Norm2(a) IN
  MatAdd(MatAdd(MatScale(cn * sd * n2, Id3), MatScale((cd - cn) * sd, Outer(a, a))),
         MatScale(sn * cd * n2, CrossMat(a)))
AxisRotDen(a, cd, sd) == cd * sd * Norm2(a)
AxisRotExact(a, cn, cd, sn, sd) ==
  \A i, j \in 1..3 : AxisRotScaled(a, cn, cd, sn, sd)[i][j] % AxisRotDen(a, cd, sd) = 0
AxisRot(a, cn, cd, sn, sd) ==
  LET S == AxisRotScaled(a, cn, cd, sn, sd)  d == AxisRotDen(a, cd, sd)
      Row(i) == <<S[i][1] \div d, S[i][2] \div d, S[i][3] \div d>>
  IN <<Row(1), Row(2), Row(3)>>
(* Axis/angle presentations of cube rotations used by the drivers (rotate_about_axis):
     [axis, turn = <<p, q>> meaning the angle p*pi/q, cos = cn/cd, sin/|axis| = sn/sd].
   Quarter turns about the coordinate axes (also with a negative and a non-unit axis: "the
   length of the vector is irrelevant"), half turns about face diagonals, third turns about
   body diagonals. *)
AxisTurns ==
  {[axis |-> ax, turn |-> <<k, 2>>, cn |-> CosQ(k), cd |-> 1, sn |-> SinQ(k), sd |-> 1] :
      ax \in {<<1, 0, 0>>, <<0, 1, 0>>, <<0, 0, 1>>, <<0, -1, 0>>}, k \in 0..3}
  \cup {[axis |-> <<0, 0, -2>>, turn |-> <<k, 2>>, cn |-> CosQ(k), cd |-> 1, sn |-> SinQ(k), sd |-> 2] :
      k \in 0..3}
  \cup {[axis |-> ax, turn |-> <<1, 1>>, cn |-> -1, cd |-> 1, sn |-> 0, sd |-> 1] :
      ax \in {<<1, 1, 0>>, <<1, -1, 0>>, <<1, 0, 1>>, <<-1, 0, 1>>, <<0, 1, 1>>, <<0, 3, -3>>}}
  \cup {[axis |-> ax, turn |-> <<2 * k, 3>>, cn |-> -1, cd |-> 2, sn |-> (IF k = 1 THEN 1 ELSE -1), sd |-> 2] :
      ax \in {<<1, 1, 1>>, <<-1, 1, 1>>, <<1, -1, 1>>, <<1, 1, -1>>}, k \in {1, 2}}
AxisTurnMat(t) == AxisRot(t.axis, t.cn, t.cd, t.sn, t.sd)

(* ---------------------------------------------------------------- point sets *)
\* affine rank of a sequence of points: 0 (one location), 1 (collinear), 2 (planar), 3
Rank(P) ==
  LET D == {VSub(P[k], P[1]) : k \in DOMAIN P} IN
  IF \A d \in D : d = Zero3 THEN 0
  ELSE IF \A d, e \in D : Cross(d, e) = Zero3 THEN 1
  ELSE IF \A d, e, f \in D : Triple(d, e, f) = 0 THEN 2
  ELSE 3

\* sum of squared deviations between two equally long point sequences
SumSq(P, Q) == SumSeq([k \in DOMAIN P |-> Dist2(P[k], Q[k])])
\* restricted to the positions in the set A
SumSqOn(P, Q, A) == SumSeq([k \in DOMAIN P |-> IF k \in A THEN Dist2(P[k], Q[k]) ELSE 0])

(* ---------------------------------------------------------------- boxes *)
IsBox(B)        == Det(B) # 0
IsOrthogonalBox(B) == Dot(B[1], B[2]) = 0 /\ Dot(B[1], B[3]) = 0 /\ Dot(B[2], B[3]) = 0
IsAxisAligned(B) == \A i, j \in 1..3 : i # j => B[i][j] = 0

\* lattice vector with integer coefficients k
LatVec(k, B) == VecMat(k, B)
LatVecs(B, m) == {LatVec(k, B) : k \in Cube(-m, m)}

(* fractional coordinates of v are FracNum(v, B)[i] / Det(B).
   BoxCtx(B) carries the adjugate and determinant so that callers evaluating many points
   against one box compute them once; the ...P operators take such a context. *)
BoxCtx(B) == [B |-> B, A |-> Adj(B), d |-> Det(B),
              ortho |-> (Dot(B[1], B[2]) = 0 /\ Dot(B[1], B[3]) = 0 /\ Dot(B[2], B[3]) = 0)]
FracNumP(v, bx) == VecMat(v, bx.A)
FracFloorP(v, bx) ==
  LET f == FracNumP(v, bx)
  IN <<FloorDiv(f[1], bx.d), FloorDiv(f[2], bx.d), FloorDiv(f[3], bx.d)>>
MoveInsideP(v, bx) == VSub(v, LatVec(FracFloorP(v, bx), bx.B))

FracNum(v, B) == FracNumP(v, BoxCtx(B))
IsLatticeVec(d, B) == \A i \in 1..3 : FracNum(d, B)[i] % Abs(Det(B)) = 0
\* integer part (floor) of the fractional coordinates
FracFloor(v, B) == FracFloorP(v, BoxCtx(B))
\* the representative of v with fractional coordinates in [0, 1)   (move_inside_box)
MoveInside(v, B) == MoveInsideP(v, BoxCtx(B))
InsideBox(v, B) == FracFloor(v, B) = Zero3
\* all integer points inside the box (fractions in [0,1)): one representative per class
BoxPoints(B) ==
  LET lo(j) == MinI(0, B[1][j]) + MinI(0, B[2][j]) + MinI(0, B[3][j])
      hi(j) == MaxI(0, B[1][j]) + MaxI(0, B[2][j]) + MaxI(0, B[3][j])
      bx == BoxCtx(B)
  IN {p \in (lo(1)..hi(1)) \X (lo(2)..hi(2)) \X (lo(3)..hi(3)) : FracFloorP(p, bx) = Zero3}
\* numerators of the wrapped fractions, each in 0 .. |Det|-1, denominator |Det|
WrappedFracNum(v, B) ==
  LET f == FracNum(v, B)  d == Det(B)  s == Sgn(d)
  IN <<ModI(s * f[1], d), ModI(s * f[2], d), ModI(s * f[3], d)>>

(* minimum image, declaratively: all images of d under lattice translations with
   coefficients in -m..m around the wrapped representative *)
Images(d, B, m) == LET w == MoveInside(d, B) IN {VAdd(w, l) : l \in LatVecs(B, m)}
MinImageN2(d, B, m) == SetMin({Norm2(x) : x \in Images(d, B, m)})
MinImages(d, B, m) == LET I == Images(d, B, m)  n == SetMin({Norm2(x) : x \in I}) IN {x \in I : Norm2(x) = n}
\* table of the minimum-image squared norm for every class of displacements modulo the box
MinImageTable(B, m) == EagerFcn([w \in BoxPoints(B) |-> MinImageN2(w, B, m)])

(* implementation-shaped: geometry._displacement_orthogonal_box
   (fractions wrapped to [0,1), every component > 1/2 reduced by 1) *)
ImplDispOrtho(d, B) ==
  LET w == WrappedFracNum(d, B)  a == Abs(Det(B))
      sh == <<IF 2 * w[1] > a THEN 1 ELSE 0, IF 2 * w[2] > a THEN 1 ELSE 0, IF 2 * w[3] > a THEN 1 ELSE 0>>
  IN VSub(MoveInside(d, B), LatVec(sh, B))
(* geometry._displacement_triclinic_box: the 8 images with shifts in {-1, 0}^3 of the
   wrapped representative; numpy.argmin takes the first minimum in loop order i, j, k *)
Shifts8 == <<<<-1, -1, -1>>, <<-1, -1, 0>>, <<-1, 0, -1>>, <<-1, 0, 0>>,
             <<0, -1, -1>>, <<0, -1, 0>>, <<0, 0, -1>>, <<0, 0, 0>>>>
ImplDispTriclinic(d, B) ==
  LET w == MoveInside(d, B)
      c == [k \in 1..8 |-> VAdd(w, LatVec(Shifts8[k], B))]
      m == SetMin({Norm2(c[k]) : k \in 1..8})
      first == SetMin({k \in 1..8 : Norm2(c[k]) = m})
  IN c[first]
ImplDisp(d, B) == IF IsOrthogonalBox(B) THEN ImplDispOrtho(d, B) ELSE ImplDispTriclinic(d, B)
\* the same with a precomputed box context (BoxCtx), for callers evaluating many displacements
ImplDispOrthoP(d, bx) ==
  LET f == FracNumP(d, bx)  a == Abs(bx.d)  s == Sgn(bx.d)
      K(i) == FloorDiv(f[i], bx.d) + (IF 2 * ModI(s * f[i], a) > a THEN 1 ELSE 0)
  IN VSub(d, LatVec(<<K(1), K(2), K(3)>>, bx.B))
ImplDispTriclinicP(d, bx) ==
  LET w == MoveInsideP(d, bx)
      c == EagerSeq([k \in 1..8 |-> VAdd(w, LatVec(Shifts8[k], bx.B))])
      n == EagerSeq([k \in 1..8 |-> Norm2(c[k])])
      m == SetMin({n[k] : k \in 1..8})
      first == SetMin({k \in 1..8 : n[k] = m})
  IN c[first]
ImplDispP(d, bx) == IF bx.ortho THEN ImplDispOrthoP(d, bx) ELSE ImplDispTriclinicP(d, bx)

(* "the shortest image is shorter than half the smallest box height": with n2 the squared
   length of the shortest image, 4 * n2 < h_i^2 = Det^2 / |b_j x b_k|^2 for the three faces *)
Dom_HalfHeight(n2, B) ==
  LET d2 == Det(B) * Det(B) IN
  /\ 4 * n2 * Norm2(Cross(B[2], B[3])) < d2
  /\ 4 * n2 * Norm2(Cross(B[3], B[1])) < d2
  /\ 4 * n2 * Norm2(Cross(B[1], B[2])) < d2

(* squared radii as rationals <<num, den>>: a point at squared distance n2 is within the
   radius iff n2 * den <= num.  Dom_Radius: either an integer radius (pairs may sit exactly
   on the sphere; float32 is exact there) or sqrt(k + 1/2) (irrational: no lattice pair is
   ever on the sphere). *)
Within(n2, rho) == n2 * rho[2] <= rho[1]
Dom_Radius(rho) == \/ rho[2] = 1 /\ IsSquare(rho[1])
                   \/ rho[2] = 2 /\ rho[1] % 2 = 1 /\ rho[1] > 0
=============================================================================
