------------------------------- MODULE BondOps -------------------------------
(* Reference semantics of a bond list: a set B of triples <<i, j, t>> with 0 <= i < j < n,
   at most one triple per pair (i.e. a mapping from unordered pairs to one bond type).
   Shared by C02 (BondList) and C01 (AtomContainer). *)
EXTENDS Integers, Sequences, FiniteSets, SequencesExt, PyIndex

Lo(i, j) == IF i < j THEN i ELSE j
Hi(i, j) == IF i < j THEN j ELSE i

HasPair(B, i, j) == \E b \in B : b[1] = i /\ b[2] = j
PairType(B, i, j) == (CHOOSE b \in B : b[1] = i /\ b[2] = j)[3]
DropPair(B, i, j) == {b \in B : ~(b[1] = i /\ b[2] = j)}
Pairs(B) == {<<b[1], b[2]>> : b \in B}

Canonical(B, n) ==
  /\ \A b \in B : 0 <= b[1] /\ b[1] < b[2] /\ b[2] < n
  /\ \A b, c \in B : (b[1] = c[1] /\ b[2] = c[2]) => b = c

Degree(B, a) == Cardinality({b \in B : b[1] = a \/ b[2] = a})
MaxDegree(B, n) ==
  IF n = 0 \/ B = {} THEN 0
  ELSE CHOOSE d \in 0..Cardinality(B) :
         /\ \E a \in 0..(n-1) : Degree(B, a) = d
         /\ \A a \in 0..(n-1) : Degree(B, a) <= d

(* --- construction: rows may hold negative indices, reversed pairs and duplicates;
       the first row of a pair decides the type ------------------------------------- *)
RowsInRange(rows, n) == \A k \in DOMAIN rows : InRange(rows[k][1], n) /\ InRange(rows[k][2], n)

ConstructSet(rows, n) ==
  FoldLeft(LAMBDA acc, row :
             LET i == Lo(WrapOne(row[1], n), WrapOne(row[2], n))
                 j == Hi(WrapOne(row[1], n), WrapOne(row[2], n))
             IN IF HasPair(acc, i, j) THEN acc ELSE acc \cup {<<i, j, row[3]>>},
           {}, rows)

(* --- single-bond edits (indices already validated and wrapped by the caller) -------- *)
AddBond(B, i, j, t) == DropPair(B, Lo(i,j), Hi(i,j)) \cup {<<Lo(i,j), Hi(i,j), t>>}
RemoveBond(B, i, j) == DropPair(B, Lo(i,j), Hi(i,j))
RemoveBondsTo(B, a) == {b \in B : b[1] # a /\ b[2] # a}
RemoveBonds(B, C) == {b \in B : ~HasPair(C, b[1], b[2])}

(* merge: the argument C wins on common pairs *)
Merge(B, C) == C \cup {b \in B : ~HasPair(C, b[1], b[2])}

Shift(B, k) == {<<b[1] + k, b[2] + k, b[3]>> : b \in B}
Concat(B, nB, C) == B \cup Shift(C, nB)

NoArom(t) == CASE t = 5 -> 1 [] t = 6 -> 2 [] t = 7 -> 3 [] t = 9 -> 0 [] OTHER -> t
StripAromatic(B) == {<<b[1], b[2], NoArom(b[3])>> : b \in B}
StripOrder(B) == {<<b[1], b[2], 0>> : b \in B}

(* --- indexing with a resolved position sequence pos (0-based source positions, no
       duplicates): new atom k (0-based) is old atom pos[k+1] ------------------------- *)
NewIndex(pos, a) == (CHOOSE k \in DOMAIN pos : pos[k] = a) - 1
IndexBonds(B, pos) ==
  LET keep == {b \in B : b[1] \in SeqRange(pos) /\ b[2] \in SeqRange(pos)} IN
  {<<Lo(NewIndex(pos, b[1]), NewIndex(pos, b[2])),
     Hi(NewIndex(pos, b[1]), NewIndex(pos, b[2])), b[3]>> : b \in keep}

(* --- views --------------------------------------------------------------------------- *)
Neighbours(B, a) == {<<b[2], b[3]>> : b \in {c \in B : c[1] = a}} \cup
                    {<<b[1], b[3]>> : b \in {c \in B : c[2] = a}}
AllNeighbours(B, n) == [k \in 1..n |-> Neighbours(B, k - 1)]
Adjacent(B, i, j) == HasPair(B, Lo(i,j), Hi(i,j))
TypeAt(B, i, j) == IF i # j /\ Adjacent(B, i, j) THEN PairType(B, Lo(i,j), Hi(i,j)) ELSE -1
=============================================================================
