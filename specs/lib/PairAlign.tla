------------------------------ MODULE PairAlign ------------------------------
(* Pairwise sequence alignment: the documented scoring model, the set of candidate
   alignments, the optimum by definition, and the dynamic programmes of
   biotite.sequence.align (pairwise.pyx / tracetable.pyx) written in the shape of the code.
   Shared by C08 (optimal aligner) and C09 (banded / seeded heuristics, see HeurAlign.tla).

   Conventions
     sequence     s1, s2 : TLA+ sequences of symbol codes 0..k-1; positions are 0-based
                  like the code's (symbol at position p is s[p+1]).
     matrix       M[a+1][b+1] = substitution score of code a (first alphabet) and b (second).
     gap          <<g>>        linear penalty g <= 0
                  <<o, e>>     affine: first gap column of a run costs o, every further e
     mode         "global"  every gap column is penalised  (terminal_penalty=True)
                  "semi"    gap columns before both sequences have started / after one has
                            ended are free                 (terminal_penalty=False)
                  "local"   best contiguous part of both sequences
     trace        what Alignment.trace holds: a sequence of rows <<i, j>>, i / j the position
                  in the first / second sequence or -1 for a gap.
     column kind  "m" pair, "d" gap in the SECOND sequence (row <<i,-1>>, the code's GAP_TOP),
                  "i" gap in the FIRST sequence (row <<-1,j>>, the code's GAP_LEFT).          *)
EXTENDS Integers, Sequences, FiniteSets, SequencesExt, FiniteSetsExt

AMax2(a, b) == IF a >= b THEN a ELSE b
AMin2(a, b) == IF a <= b THEN a ELSE b
AMax3(a, b, c) == AMax2(a, AMax2(b, c))
SetMax(S) == Max(S)                               \* S non-empty set of integers
SumSeq(q) == FoldLeft(LAMBDA acc, x : acc + x, 0, q)

Sub(M, a, b) == M[a + 1][b + 1]
IsAffine(gap) == Len(gap) = 2
GapOpen(gap) == gap[1]
GapExt(gap) == IF Len(gap) = 2 THEN gap[2] ELSE gap[1]

(* ------------------------------------------------------------------ domain predicates *)
Dom_Gap(gap) == Len(gap) \in {1, 2} /\ \A k \in DOMAIN gap : gap[k] <= 0
Dom_Seq(s, k) == \A p \in DOMAIN s : s[p] \in 0..(k - 1)
Dom_Matrix(M, k1, k2) == Len(M) = k1 /\ \A a \in DOMAIN M : Len(M[a]) = k2
Dom_Mode(mode) == mode \in {"global", "semi", "local"}

(* ------------------------------------------------------------------ traces *)
Kind(row) == IF row[1] = -1 THEN "i" ELSE IF row[2] = -1 THEN "d" ELSE "m"
Kinds(tr) == [k \in 1..Len(tr) |-> Kind(tr[k])]
ColIdx(tr, c) == {k \in 1..Len(tr) : tr[k][c] # -1}          \* columns where sequence c is present
ColSeq(tr, c) == SelectSeq([k \in 1..Len(tr) |-> tr[k][c]], LAMBDA x : x # -1)
Consecutive(q) == \A k \in 1..(Len(q) - 1) : q[k + 1] = q[k] + 1
Iota(n) == [k \in 1..n |-> k - 1]

(* "a valid alignment of the two inputs - contiguous, order preserving" *)
ValidTrace(tr, n, m) ==
  /\ \A k \in 1..Len(tr) :
       /\ Len(tr[k]) = 2
       /\ tr[k][1] \in -1..(n - 1) /\ tr[k][2] \in -1..(m - 1)
       /\ ~(tr[k][1] = -1 /\ tr[k][2] = -1)
  /\ Consecutive(ColSeq(tr, 1))
  /\ Consecutive(ColSeq(tr, 2))
(* "end-to-end unless local" *)
EndToEnd(tr, n, m) == ColSeq(tr, 1) = Iota(n) /\ ColSeq(tr, 2) = Iota(m)
(* "with affine penalties a gap in one sequence may not directly abut a gap in the other" *)
NoAbutKinds(ks) == \A k \in 1..(Len(ks) - 1) : ~({ks[k], ks[k + 1]} = {"d", "i"})
NoAbut(tr) == NoAbutKinds(Kinds(tr))
PairsOf(tr) == {<<tr[k][1], tr[k][2]>> : k \in {x \in 1..Len(tr) : Kind(tr[x]) = "m"}}

(* The scoring model of biotite.sequence.align.score(): pair columns score the matrix entry;
   a gap column costs the opening penalty when the previous column is not a gap in the same
   sequence and the extension penalty otherwise; with free terminal gaps (termfree) only the
   columns from the one where the later sequence starts up to the one where the earlier
   sequence ends are penalised (find_terminal_gaps). A sequence that is absent from the
   alignment makes every gap terminal. *)
ActiveLo(tr) == IF ColIdx(tr, 1) = {} \/ ColIdx(tr, 2) = {} THEN Len(tr) + 1
                ELSE AMax2(Min(ColIdx(tr, 1)), Min(ColIdx(tr, 2)))
ActiveHi(tr) == IF ColIdx(tr, 1) = {} \/ ColIdx(tr, 2) = {} THEN 0
                ELSE AMin2(Max(ColIdx(tr, 1)), Max(ColIdx(tr, 2)))
ColScores(tr, s1, s2, M, gap, termfree) ==
  LET lo == IF termfree THEN ActiveLo(tr) ELSE 1
      hi == IF termfree THEN ActiveHi(tr) ELSE Len(tr)
      ks == Kinds(tr)
  IN [k \in 1..Len(tr) |->
        IF ks[k] = "m" THEN Sub(M, s1[tr[k][1] + 1], s2[tr[k][2] + 1])
        ELSE IF k < lo \/ k > hi THEN 0
        ELSE IF k > 1 /\ ks[k - 1] = ks[k] THEN GapExt(gap) ELSE GapOpen(gap)]
ScoreTrace(tr, s1, s2, M, gap, termfree) == SumSeq(ColScores(tr, s1, s2, M, gap, termfree))

(* ------------------------------------------------------------------ candidate alignments *)
(* All column-kind sequences that consume a symbols of the first and b of the second
   sequence (Delannoy paths), built cell by cell so that every cell is computed once.
   The table is a tuple of tuples (row a at index a+1, column b at index b+1): tuples are
   evaluated eagerly by TLC, so a constant `ST == ShapeTable(L)` costs nothing per state. *)
EagerSeq(n, F(_)) == FoldLeft(LAMBDA acc, k : Append(acc, F(k)), <<>>, [k \in 1..n |-> k])
ShapeRow(prevRow, a, L) ==
  FoldLeft(LAMBDA acc, b :
             LET fromM == IF a > 0 /\ b > 0 THEN {Append(p, "m") : p \in prevRow[b]} ELSE {}
                 fromD == IF a > 0 THEN {Append(p, "d") : p \in prevRow[b + 1]} ELSE {}
                 fromI == IF b > 0 THEN {Append(p, "i") : p \in acc[b]} ELSE {}
             IN Append(acc, IF a = 0 /\ b = 0 THEN {<<>>} ELSE fromM \cup fromD \cup fromI),
           <<>>, [k \in 1..(L + 1) |-> k - 1])
ShapeTable(L) ==
  FoldLeft(LAMBDA T, a : Append(T, ShapeRow(IF a = 0 THEN <<>> ELSE T[a], a, L)),
           <<>>, [k \in 1..(L + 1) |-> k - 1])
ShapesOf(ST, a, b) == ST[a + 1][b + 1]

(* rows of a shape whose first consumed positions are i0 / j0 *)
TraceOfShape(shape, i0, j0) ==
  LET step(acc, kd) ==
        [rows |-> Append(acc.rows, IF kd = "m" THEN <<acc.i, acc.j>>
                                   ELSE IF kd = "d" THEN <<acc.i, -1>> ELSE <<-1, acc.j>>),
         i |-> IF kd = "i" THEN acc.i ELSE acc.i + 1,
         j |-> IF kd = "d" THEN acc.j ELSE acc.j + 1]
  IN FoldLeft(step, [rows |-> <<>>, i |-> i0, j |-> j0], shape).rows

(* every end-to-end alignment of sequences of length n, m (as traces) *)
GlobalTraces(ST, n, m) == {TraceOfShape(sh, 0, 0) : sh \in ShapesOf(ST, n, m)}
(* every alignment of a contiguous part of both (the empty alignment included once) *)
LocalTraces(ST, n, m) ==
  {<<>>} \cup UNION {UNION {UNION {{TraceOfShape(sh, i0, j0) : sh \in ShapesOf(ST, a, b) \ {<<>>}}
                                    : j0 \in 0..(m - b)} : i0 \in 0..(n - a)}
                      : a \in 0..n, b \in 0..m}
Candidates(ST, n, m, mode, gap) ==
  LET all == IF mode = "local" THEN LocalTraces(ST, n, m) ELSE GlobalTraces(ST, n, m)
  IN IF IsAffine(gap) THEN {t \in all : NoAbut(t)} ELSE all

(* candidate sets for all lengths <= L, eager: CandTable(ST, L)[n+1][m+1][mode] *)
CandTable(ST, L) ==
  EagerSeq(L + 1, LAMBDA nn : EagerSeq(L + 1, LAMBDA mm :
     LET g == GlobalTraces(ST, nn - 1, mm - 1)
         l == LocalTraces(ST, nn - 1, mm - 1)
     IN <<g, {t \in g : NoAbut(t)}, l, {t \in l : NoAbut(t)}>>))
CandOf(CT, n, m, mode, gap) ==
  CT[n + 1][m + 1][(IF mode = "local" THEN 3 ELSE 1) + (IF IsAffine(gap) THEN 1 ELSE 0)]

(* The optimum by definition, and the optimal alignments by definition, over a candidate set *)
IdealOver(C, s1, s2, M, gap, mode) ==
  LET scored == {<<t, ScoreTrace(t, s1, s2, M, gap, mode = "semi")>> : t \in C}   \* each candidate scored once
      best == SetMax({p[2] : p \in scored})
  IN [opt |-> best, set |-> {p[1] : p \in {q \in scored : q[2] = best}}]
IdealOpt(ST, s1, s2, M, gap, mode) ==
  IdealOver(Candidates(ST, Len(s1), Len(s2), mode, gap), s1, s2, M, gap, mode).opt
IdealOptSet(ST, s1, s2, M, gap, mode) ==
  IdealOver(Candidates(ST, Len(s1), Len(s2), mode, gap), s1, s2, M, gap, mode).set

(* ------------------------------------------------------------------ tracetable.pyx *)
(* get_trace_linear in the shape of the code (nested comparisons) ... *)
GetTraceLinear(diag, left, top) ==
  IF diag > left THEN
       IF diag > top THEN [sc |-> diag, tr |-> {"m"}]
       ELSE IF diag = top THEN [sc |-> diag, tr |-> {"m", "t"}]
       ELSE [sc |-> top, tr |-> {"t"}]
  ELSE IF diag = left THEN
       IF diag > top THEN [sc |-> diag, tr |-> {"m", "l"}]
       ELSE IF diag = top THEN [sc |-> diag, tr |-> {"m", "l", "t"}]
       ELSE [sc |-> top, tr |-> {"t"}]
  ELSE IF left > top THEN [sc |-> left, tr |-> {"l"}]
       ELSE IF left = top THEN [sc |-> left, tr |-> {"l", "t"}]
       ELSE [sc |-> top, tr |-> {"t"}]
(* ... and what it has to be: the maximum and the set of directions attaining it *)
ArgMaxLinear(diag, left, top) ==
  LET mx == AMax3(diag, left, top)
  IN [sc |-> mx, tr |-> (IF diag = mx THEN {"m"} ELSE {}) \cup (IF left = mx THEN {"l"} ELSE {})
                        \cup (IF top = mx THEN {"t"} ELSE {})]

(* get_trace_affine: predecessors of the match state among M/G1/G2, of the gap-left state
   (G1, gap in the first sequence) among M/G1, of the gap-top state (G2) among M/G2 *)
GetTraceAffine(mm, g1m, g2m, mg1, g1g1, mg2, g2g2) ==
  LET mpart == IF mm > g1m THEN
                    IF mm > g2m THEN [sc |-> mm, tr |-> {"M"}]
                    ELSE IF mm = g2m THEN [sc |-> mm, tr |-> {"M", "G2"}]
                    ELSE [sc |-> g2m, tr |-> {"G2"}]
               ELSE IF mm = g1m THEN
                    IF mm > g2m THEN [sc |-> mm, tr |-> {"M", "G1"}]
                    ELSE IF mm = g2m THEN [sc |-> mm, tr |-> {"M", "G1", "G2"}]
                    ELSE [sc |-> g2m, tr |-> {"G2"}]
               ELSE IF g1m > g2m THEN [sc |-> g1m, tr |-> {"G1"}]
                    ELSE IF g1m = g2m THEN [sc |-> g1m, tr |-> {"G1", "G2"}]
                    ELSE [sc |-> g2m, tr |-> {"G2"}]
      g1part == IF mg1 > g1g1 THEN [sc |-> mg1, tr |-> {"M"}]
                ELSE IF mg1 < g1g1 THEN [sc |-> g1g1, tr |-> {"G1"}]
                ELSE [sc |-> mg1, tr |-> {"M", "G1"}]
      g2part == IF mg2 > g2g2 THEN [sc |-> mg2, tr |-> {"M"}]
                ELSE IF mg2 < g2g2 THEN [sc |-> g2g2, tr |-> {"G2"}]
                ELSE [sc |-> mg2, tr |-> {"M", "G2"}]
  IN [m |-> mpart.sc, g1 |-> g1part.sc, g2 |-> g2part.sc,
      tm |-> mpart.tr, t1 |-> g1part.tr, t2 |-> g2part.tr]
ArgMaxAffine(mm, g1m, g2m, mg1, g1g1, mg2, g2g2) ==
  LET m == AMax3(mm, g1m, g2m)  g1 == AMax2(mg1, g1g1)  g2 == AMax2(mg2, g2g2)
  IN [m |-> m, g1 |-> g1, g2 |-> g2,
      tm |-> (IF mm = m THEN {"M"} ELSE {}) \cup (IF g1m = m THEN {"G1"} ELSE {}) \cup (IF g2m = m THEN {"G2"} ELSE {}),
      t1 |-> (IF mg1 = g1 THEN {"M"} ELSE {}) \cup (IF g1g1 = g1 THEN {"G1"} ELSE {}),
      t2 |-> (IF mg2 = g2 THEN {"M"} ELSE {}) \cup (IF g2g2 = g2 THEN {"G2"} ELSE {})]

(* ------------------------------------------------------------------ pairwise.pyx, linear *)
(* The table is a sequence of rows (row i at index i+1), a row a sequence of cells
   (column j at index j+1), a cell [sc |-> score, tr |-> trace directions]. *)
LinCell0(i, j, g, mode) ==          \* first row / first column as initialised by align_optimal
  [sc |-> IF mode = "global" THEN (i + j) * g ELSE 0,
   tr |-> IF mode = "local" \/ (i = 0 /\ j = 0) THEN {} ELSE IF i = 0 THEN {"l"} ELSE {"t"}]
LinFirstRow(m, g, mode) == [jj \in 1..(m + 1) |-> LinCell0(0, jj - 1, g, mode)]
LinNextRow(prev, i, s1, s2, M, g, mode) ==
  LET n == Len(s1)  m == Len(s2)
      cell(acc, j) ==
        LET diag == prev[j].sc + Sub(M, s1[i], s2[j])
            left == acc[j].sc + (IF mode = "semi" /\ i = n THEN 0 ELSE g)
            top  == prev[j + 1].sc + (IF mode = "semi" /\ j = m THEN 0 ELSE g)
            t == GetTraceLinear(diag, left, top)
        IN Append(acc, IF mode = "local" /\ t.sc <= 0 THEN [sc |-> 0, tr |-> {}] ELSE t)
  IN FoldLeft(cell, <<LinCell0(i, 0, g, mode)>>, [j \in 1..m |-> j])
LinTable(s1, s2, M, g, mode) ==
  FoldLeft(LAMBDA T, i : Append(T, LinNextRow(T[i], i, s1, s2, M, g, mode)),
           <<LinFirstRow(Len(s2), g, mode)>>, [i \in 1..Len(s1) |-> i])
LinAt(T, i, j) == T[i + 1][j + 1]

(* follow_trace for one table: every way back from cell (i,j) until a cell without direction;
   the result is the set of traces (rows in sequence order) that end in (i,j) *)
RECURSIVE LinBack(_, _, _)
LinBack(T, i, j) ==
  LET dirs == LinAt(T, i, j).tr IN
  IF dirs = {} THEN {<<>>}
  ELSE UNION {
         IF d = "m" THEN {Append(p, <<i - 1, j - 1>>) : p \in LinBack(T, i - 1, j - 1)}
         ELSE IF d = "l" THEN {Append(p, <<-1, j - 1>>) : p \in LinBack(T, i, j - 1)}
         ELSE {Append(p, <<i - 1, -1>>) : p \in LinBack(T, i - 1, j)}
         : d \in dirs}
LinMaxScore(T, n, m) == SetMax({LinAt(T, i, j).sc : i \in 0..n, j \in 0..m})
LinStarts(T, n, m, mode) ==
  IF mode = "local"
  THEN {<<i, j>> \in (0..n) \X (0..m) : LinAt(T, i, j).sc = LinMaxScore(T, n, m)}
  ELSE {<<n, m>>}
DPLinear(s1, s2, M, g, mode) ==
  LET n == Len(s1)  m == Len(s2)
      T == LinTable(s1, s2, M, g, mode)
  IN [score  |-> IF mode = "local" THEN LinMaxScore(T, n, m) ELSE LinAt(T, n, m).sc,
      traces |-> UNION {LinBack(T, c[1], c[2]) : c \in LinStarts(T, n, m, mode)}]
DPLinearScore(s1, s2, M, g, mode) ==
  LET n == Len(s1)  m == Len(s2)
      T == LinTable(s1, s2, M, g, mode)
  IN IF mode = "local" THEN LinMaxScore(T, n, m) ELSE LinAt(T, n, m).sc

(* ------------------------------------------------------------------ pairwise.pyx, affine *)
(* "negative infinity": like the code a large negative *number* (INT_MIN corrected by the
   penalties), used with ordinary addition *)
NegInf == -1000000
AffNoTrace == [tm |-> {}, t1 |-> {}, t2 |-> {}]
AffCell0(i, j, o, e, mode) ==
  [m  |-> IF i = 0 /\ j = 0 THEN 0 ELSE NegInf,
   g1 |-> IF i = 0 /\ j > 0 THEN (IF mode = "global" THEN o + (j - 1) * e ELSE 0) ELSE NegInf,
   g2 |-> IF j = 0 /\ i > 0 THEN (IF mode = "global" THEN o + (i - 1) * e ELSE 0) ELSE NegInf,
   tm |-> {},
   t1 |-> IF mode = "local" \/ i > 0 \/ j = 0 THEN {} ELSE IF j = 1 THEN {"M"} ELSE {"G1"},
   t2 |-> IF mode = "local" \/ j > 0 \/ i = 0 THEN {} ELSE IF i = 1 THEN {"M"} ELSE {"G2"}]
AffFirstRow(m, o, e, mode) == [jj \in 1..(m + 1) |-> AffCell0(0, jj - 1, o, e, mode)]
AffNextRow(prev, i, s1, s2, M, o, e, mode) ==
  LET n == Len(s1)  m == Len(s2)
      cell(acc, j) ==
        LET s == Sub(M, s1[i], s2[j])
            freeL == mode = "semi" /\ i = n
            freeT == mode = "semi" /\ j = m
            t == GetTraceAffine(prev[j].m + s, prev[j].g1 + s, prev[j].g2 + s,
                                acc[j].m + (IF freeL THEN 0 ELSE o), acc[j].g1 + (IF freeL THEN 0 ELSE e),
                                prev[j + 1].m + (IF freeT THEN 0 ELSE o), prev[j + 1].g2 + (IF freeT THEN 0 ELSE e))
        IN Append(acc,
             IF mode = "local"
             THEN [m  |-> IF t.m <= 0 THEN 0 ELSE t.m,            \* the table was zero-initialised
                   g1 |-> IF t.g1 <= 0 THEN NegInf ELSE t.g1,
                   g2 |-> IF t.g2 <= 0 THEN NegInf ELSE t.g2,
                   tm |-> IF t.m <= 0 THEN {} ELSE t.tm,
                   t1 |-> IF t.g1 <= 0 THEN {} ELSE t.t1,
                   t2 |-> IF t.g2 <= 0 THEN {} ELSE t.t2]
             ELSE t)
  IN FoldLeft(cell, <<AffCell0(i, 0, o, e, mode)>>, [j \in 1..m |-> j])
AffTable(s1, s2, M, o, e, mode) ==
  FoldLeft(LAMBDA T, i : Append(T, AffNextRow(T[i], i, s1, s2, M, o, e, mode)),
           <<AffFirstRow(Len(s2), o, e, mode)>>, [i \in 1..Len(s1) |-> i])
AffAt(T, i, j) == T[i + 1][j + 1]
AffScoreIn(c, st) == IF st = "M" THEN c.m ELSE IF st = "G1" THEN c.g1 ELSE c.g2
AffDirsIn(c, st) == IF st = "M" THEN c.tm ELSE IF st = "G1" THEN c.t1 ELSE c.t2

(* follow_trace with the state (table) the traceback is in *)
RECURSIVE AffBack(_, _, _, _)
AffBack(T, i, j, st) ==
  LET preds == AffDirsIn(AffAt(T, i, j), st) IN
  IF preds = {} THEN {<<>>}
  ELSE UNION {
         IF st = "M" THEN {Append(p, <<i - 1, j - 1>>) : p \in AffBack(T, i - 1, j - 1, ps)}
         ELSE IF st = "G1" THEN {Append(p, <<-1, j - 1>>) : p \in AffBack(T, i, j - 1, ps)}
         ELSE {Append(p, <<i - 1, -1>>) : p \in AffBack(T, i - 1, j, ps)}
         : ps \in preds}
AffMaxM(T, n, m) == SetMax({AffAt(T, i, j).m : i \in 0..n, j \in 0..m})
AffEndScore(T, n, m) == AMax3(AffAt(T, n, m).m, AffAt(T, n, m).g1, AffAt(T, n, m).g2)
AffStarts(T, n, m, mode) ==
  IF mode = "local"
  THEN {<<i, j, "M">> : <<i, j>> \in {c \in (0..n) \X (0..m) : AffAt(T, c[1], c[2]).m = AffMaxM(T, n, m)}}
  ELSE {<<n, m, st>> : st \in {x \in {"M", "G1", "G2"} : AffScoreIn(AffAt(T, n, m), x) = AffEndScore(T, n, m)}}
DPAffine(s1, s2, M, o, e, mode) ==
  LET n == Len(s1)  m == Len(s2)
      T == AffTable(s1, s2, M, o, e, mode)
  IN [score  |-> IF mode = "local" THEN AffMaxM(T, n, m) ELSE AffEndScore(T, n, m),
      traces |-> UNION {AffBack(T, c[1], c[2], c[3]) : c \in AffStarts(T, n, m, mode)}]
DPAffineScore(s1, s2, M, o, e, mode) ==
  LET n == Len(s1)  m == Len(s2)
      T == AffTable(s1, s2, M, o, e, mode)
  IN IF mode = "local" THEN AffMaxM(T, n, m) ELSE AffEndScore(T, n, m)

(* ------------------------------------------------------------------ align_optimal *)
(* the algorithm of align_optimal(seq1, seq2, matrix, gap_penalty, terminal_penalty, local) *)
DPOptimal(s1, s2, M, gap, mode) ==
  IF IsAffine(gap) THEN DPAffine(s1, s2, M, gap[1], gap[2], mode)
  ELSE DPLinear(s1, s2, M, gap[1], mode)
DPOptimalScore(s1, s2, M, gap, mode) ==
  IF IsAffine(gap) THEN DPAffineScore(s1, s2, M, gap[1], gap[2], mode)
  ELSE DPLinearScore(s1, s2, M, gap[1], mode)

(* what one returned alignment has to satisfy, given the optimum *)
GoodResultTrace(tr, s1, s2, M, gap, mode, opt) ==
  /\ ValidTrace(tr, Len(s1), Len(s2))
  /\ (mode # "local" => EndToEnd(tr, Len(s1), Len(s2)))
  /\ ScoreTrace(tr, s1, s2, M, gap, mode = "semi") = opt
NoDupNonEmpty(trs) ==
  LET ne == SelectSeq(trs, LAMBDA t : Len(t) > 0) IN Cardinality(ToSet(ne)) = Len(ne)

(* pinned examples (docstrings of align_optimal / Alignment) *)
ASSUME GetTraceLinear(1, 1, 0) = ArgMaxLinear(1, 1, 0)
ASSUME Kinds(<<<<0, 0>>, <<1, -1>>, <<-1, 1>>>>) = <<"m", "d", "i">>
ASSUME ValidTrace(<<<<0, 0>>, <<1, -1>>, <<2, 1>>>>, 3, 2) /\ ~ValidTrace(<<<<0, 0>>, <<2, 1>>>>, 3, 2)
=============================================================================
