------------------------------- MODULE MCStd -------------------------------
(* X10 S1/S2 for standardize_order(): every atom array of the bounded families
     one residue   name in OneNames, every sequence of 1..LenOne atom names over the first four
                   reference atoms of the residue and two foreign names (all permutations, omissions,
                   duplicates, foreign atoms in every position);
     two residues  each <<name, 1..2 atoms over two reference atoms and a foreign one>>;
     three residues each <<name in {ALA, UNK}, 1..2 atoms over two reference atoms>> (if Three);
   residue ids either increasing or all equal (then neighbours of the same name are ONE residue).
   Init: the inputs; one step: the specification's result (also the cases of S2). *)
EXTENDS ResInfo
CONSTANTS LenOne, Three
VARIABLES rows, dom, r, phase
vars == <<rows, dom, r, phase>>

OneNames == {"ALA", "LIG", "UNK"}
Alpha(name) == CASE name = "ALA" -> {"N", "CA", "C", "O", "H1", "H2"}
                 [] name = "LIG" -> {"C1", "C2", "O1", "N1", "H1", "H2"}
                 [] OTHER -> {"N", "CA", "C1", "H1"}
Small(name) == CASE name = "ALA" -> {"N", "CA", "H1"} [] name = "LIG" -> {"C1", "C2", "H1"} [] OTHER -> {"N", "H1", "C1"}
Tiny(name) == CASE name = "ALA" -> {"CA", "N"} [] OTHER -> {"N", "C1"}
SeqsUpTo(S, n) == UNION {[1..m -> S] : m \in 1..n}
\* rows of a list of residues <<name, atoms>>; ids = "inc" | "const"
RowsOf(res, ids) ==
  FoldLeft(LAMBDA acc, k : acc \o [q \in DOMAIN res[k][2] |-> <<"A", IF ids = "inc" THEN k ELSE 1, res[k][1], res[k][2][q]>>],
           <<>>, [k \in DOMAIN res |-> k])

Init == /\ phase = 0 /\ dom = TRUE /\ r = R("ok", <<>>)
        /\ \/ \E nm \in OneNames : \E at \in SeqsUpTo(Alpha(nm), LenOne) : rows = RowsOf(<< <<nm, at>> >>, "inc")
           \/ \E n1, n2 \in OneNames : \E a1 \in SeqsUpTo(Small(n1), 2) : \E a2 \in SeqsUpTo(Small(n2), 2) :
                \E ids \in {"inc", "const"} : rows = RowsOf(<< <<n1, a1>>, <<n2, a2>> >>, ids)
           \/ /\ Three
              /\ \E n1, n2, n3 \in {"ALA", "UNK"} :
                 \E a1 \in SeqsUpTo(Tiny(n1), 2) : \E a2 \in SeqsUpTo(Tiny(n2), 2) : \E a3 \in SeqsUpTo(Tiny(n3), 2) :
                 \E ids \in {"inc", "const"} : rows = RowsOf(<< <<n1, a1>>, <<n2, a2>>, <<n3, a3>> >>, ids)
Next == /\ phase = 0 /\ phase' = 1
        /\ dom' = Dom_Std(rows)
        /\ r' = Op_Standardize(rows)
        /\ UNCHANGED rows
Spec == Init /\ [][Next]_vars

Done == phase = 1 /\ dom
InvImplDecl == Done => r = DeclStandardize(rows)
InvLaw == Done => (r.oc = "ok" => Law_Standardize(rows, r.out))
\* what standardize_order returns puts the atoms into an order that it leaves alone
InvIdempotent == Done => (r.oc = "ok" =>
                   Op_Standardize(Apply(rows, r.out)) = R("ok", [k \in DOMAIN rows |-> k - 1]))
\* refusal = exactly a duplicate of a reference atom in a residue the dictionary knows
InvRefusal == Done => (r.oc = "Rejected" <=>
                 \E i, j \in 0..(Len(rows) - 1) : DupPair(rows, ResidueStarts(rows), i, j) /\ InRef(rows, i))
=============================================================================
