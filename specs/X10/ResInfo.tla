------------------------------- MODULE ResInfo -------------------------------
(* X10: residue information (Chemical Component Dictionary look-ups), the standard atom order
   of residues, and the conversion of a structure into sequences.

   Anchors: src/biotite/structure/info/{standardize,groups,atoms,masses,radii,misc,bonds}.py,
            src/biotite/structure/sequence.py

   The dictionary is a CONSTANT TABLE of this module (CCD): the driver asks TLC for the table,
   writes it as a BinaryCIF file with biotite's own writer and installs it with
   set_ccd_path(); every expected value is computed by TLC from the same table.

   Atoms of a structure are rows <<chain_id, res_id, res_name, atom_name>> (0-based atom indices
   in all results, as in the code).  Optional values are <<>> (None) / <<v>>.
   Results are records [oc, out]:  oc = "ok" | "Rejected" (any exception) | "unknown"
   (mass of an unknown name: the Returns section promises None, the code raises KeyError - both
   are accepted, see NOTES.md).

   Layers: declarative operators (Decl...) state the property atom by atom / residue by residue;
   implementation-shaped ones (Impl...) follow the array operations of the code
   (np.where over the comparison matrix, bincount, masks).  MCStd / MCSeq decide Impl = Decl on
   every bounded input; the public calls Op_... go through the Impl layer. *)
EXTENDS Integers, Sequences, FiniteSets, SequencesExt, TLC

None == <<>>
Some(v) == <<v>>
R(oc, out) == [oc |-> oc, out |-> out]

(* ------------------------------------------------------------------ the dictionary *)
\* atoms: <<atom_id, element, charge>>;  bonds: <<atom_id_1, atom_id_2, value_order, aromatic flag>>
\* olc: one-letter code, <<>> = masked ('?') in the file;  w: formula weight (an integer)
C(id, name, type, olc, w, atoms, bonds) ==
  [id |-> id, name |-> name, type |-> type, olc |-> olc, w |-> w, atoms |-> atoms, bonds |-> bonds]

CCD == <<
  C("ALA", "ALANINE", "L-PEPTIDE LINKING", <<"A">>, 89,
    << <<"N", "N", 0>>, <<"CA", "C", 0>>, <<"C", "C", 0>>, <<"O", "O", 0>>, <<"CB", "C", 0>> >>,
    << <<"N", "CA", "SING", "N">>, <<"CA", "C", "SING", "N">>, <<"C", "O", "DOUB", "N">>,
       <<"CA", "CB", "SING", "N">> >>),
  C("DA", "DEOXYADENOSINE", "DNA LINKING", <<"A">>, 331,
    << <<"P", "P", 0>>, <<"OP1", "O", 0>>, <<"O5", "O", 0>> >>,
    << <<"P", "OP1", "DOUB", "N">>, <<"P", "O5", "SING", "N">> >>),
  C("DG", "DEOXYGUANOSINE", "DNA LINKING", <<"G">>, 347,
    << <<"P", "P", 0>>, <<"OP1", "O", 0>>, <<"O5", "O", 0>> >>,
    << <<"P", "OP1", "DOUB", "N">>, <<"P", "O5", "SING", "N">> >>),
  C("GLY", "GLYCINE", "PEPTIDE LINKING", <<"G">>, 75,
    << <<"N", "N", 0>>, <<"CA", "C", 0>>, <<"C", "C", 0>>, <<"O", "O", 0>>, <<"OXT", "O", 0>>,
       <<"H", "H", 0>>, <<"H2", "H", 0>>, <<"HA2", "H", 0>>, <<"HA3", "H", 0>>, <<"HXT", "H", 0>> >>,
    << <<"N", "CA", "SING", "N">>, <<"N", "H", "SING", "N">>, <<"N", "H2", "SING", "N">>,
       <<"CA", "C", "SING", "N">>, <<"CA", "HA2", "SING", "N">>, <<"CA", "HA3", "SING", "N">>,
       <<"C", "O", "DOUB", "N">>, <<"C", "OXT", "SING", "N">>, <<"OXT", "HXT", "SING", "N">> >>),
  C("HOH", "WATER", "NON-POLYMER", <<>>, 18,
    << <<"O", "O", 0>> >>,
    << >>),
  C("LIG", "SYNTHETIC LIGAND", "NON-POLYMER", <<>>, 54,
    << <<"C1", "C", 0>>, <<"C2", "C", 0>>, <<"O1", "O", -1>>, <<"N1", "N", 1>> >>,
    << <<"C1", "C2", "TRIP", "N">>, <<"C2", "O1", "SING", "N">>, <<"C1", "N1", "DOUB", "N">> >>),
  C("MAN", "MANNOSE", "D-saccharide, alpha linking", <<>>, 180,
    << <<"C1", "C", 0>>, <<"O1", "O", 0>> >>,
    << <<"C1", "O1", "SING", "N">> >>),
  C("NPA", "NON-POLYMER WITH A CODE", "NON-POLYMER", <<"A">>, 24,
    << <<"C1", "C", 0>>, <<"C2", "C", 0>> >>,
    << <<"C1", "C2", "SING", "N">> >>),
  C("PYL", "PYRROLYSINE", "L-PEPTIDE LINKING", <<"O">>, 255,
    << <<"N", "N", 0>>, <<"CA", "C", 0>> >>,
    << <<"N", "CA", "SING", "N">> >>),
  C("RNG", "SYNTHETIC AROMATIC RING", "NON-POLYMER", <<>>, 36,
    << <<"C1", "C", 0>>, <<"C2", "C", 0>>, <<"C3", "C", 0>> >>,
    << <<"C1", "C2", "DOUB", "Y">>, <<"C2", "C3", "SING", "Y">>, <<"C3", "C1", "SING", "Y">> >>),
  C("SEC", "SELENOCYSTEINE", "L-PEPTIDE LINKING", <<"U">>, 168,
    << <<"N", "N", 0>>, <<"CA", "C", 0>>, <<"SE", "SE", 0>> >>,
    << <<"N", "CA", "SING", "N">>, <<"CA", "SE", "SING", "N">> >>),
  C("U", "URIDINE", "RNA LINKING", <<"U">>, 324,
    << <<"P", "P", 0>>, <<"O5", "O", 0>>, <<"C5", "C", 0>> >>,
    << <<"P", "O5", "SING", "N">>, <<"O5", "C5", "SING", "N">> >>),
  \* an amino acid by type (type written in lower case: the groups ignore case) without a code
  C("XAA", "PEPTIDE WITHOUT CODE", "l-peptide linking", <<>>, 100,
    << <<"N", "N", 0>>, <<"CA", "C", 0>> >>,
    << <<"N", "CA", "SING", "N">> >>)
>>

Ids == {CCD[k].id : k \in DOMAIN CCD}
Known(id) == id \in Ids
Comp(id) == CCD[CHOOSE k \in DOMAIN CCD : CCD[k].id = id]
RefAtoms(id) == [k \in DOMAIN Comp(id).atoms |-> Comp(id).atoms[k][1]]

\* str.upper() on the names the checks use (TLC has no string operations)
Upper(n) == CASE n = "ala" -> "ALA" [] n = "Ala" -> "ALA" [] n = "lig" -> "LIG" [] n = "u" -> "U"
              [] n = "c" -> "C" [] n = "se" -> "SE" [] n = "Se" -> "SE" [] n = "unk" -> "UNK" [] n = "xx" -> "XX"
              [] OTHER -> n

\* the type lists of info/groups.py, upper-cased (the comparison ignores case)
AminoTypesU == {"D-BETA-PEPTIDE, C-GAMMA LINKING", "D-GAMMA-PEPTIDE, C-DELTA LINKING",
                "D-PEPTIDE COOH CARBOXY TERMINUS", "D-PEPTIDE NH3 AMINO TERMINUS", "D-PEPTIDE LINKING",
                "L-BETA-PEPTIDE, C-GAMMA LINKING", "L-GAMMA-PEPTIDE, C-DELTA LINKING",
                "L-PEPTIDE COOH CARBOXY TERMINUS", "L-PEPTIDE NH3 AMINO TERMINUS", "L-PEPTIDE LINKING",
                "PEPTIDE LINKING"}
NucTypesU == {"DNA OH 3 PRIME TERMINUS", "DNA OH 5 PRIME TERMINUS", "DNA LINKING", "L-DNA LINKING",
              "L-RNA LINKING", "RNA OH 3 PRIME TERMINUS", "RNA OH 5 PRIME TERMINUS", "RNA LINKING"}
CarbTypesU == {"D-SACCHARIDE", "D-SACCHARIDE, ALPHA LINKING", "D-SACCHARIDE, BETA LINKING",
               "L-SACCHARIDE", "L-SACCHARIDE, ALPHA LINKING", "L-SACCHARIDE, BETA LINKING", "SACCHARIDE"}
TypeUpper(t) == CASE t = "l-peptide linking" -> "L-PEPTIDE LINKING"
                  [] t = "D-saccharide, alpha linking" -> "D-SACCHARIDE, ALPHA LINKING"
                  [] OTHER -> t

GroupMembers(typesU) == {id \in Ids : TypeUpper(Comp(id).type) \in typesU}
AminoAcidNames == GroupMembers(AminoTypesU)
NucleotideNames == GroupMembers(NucTypesU)
CarbohydrateNames == GroupMembers(CarbTypesU)

(* ------------------------------------------------------------------ look-ups (info/misc.py) *)
\* full_name / link_type / one_letter_code: str.upper() of the argument, None for unknown names
Op_FullName(n) == R("ok", IF Known(Upper(n)) THEN Some(Comp(Upper(n)).name) ELSE None)
Op_LinkType(n) == R("ok", IF Known(Upper(n)) THEN Some(Comp(Upper(n)).type) ELSE None)
OneLetter(n) == IF Known(Upper(n)) THEN Comp(Upper(n)).olc ELSE None
Op_OneLetter(n) == R("ok", OneLetter(n))
Op_Group(g) == R("ok", CASE g = "amino" -> AminoAcidNames [] g = "nuc" -> NucleotideNames
                         [] g = "carb" -> CarbohydrateNames [] g = "all" -> Ids)

(* ------------------------------------------------------------------ bonds (info/bonds.py) *)
BondTypeName(order, arom) ==
  CASE order = "SING" /\ arom = "N" -> "SINGLE"   [] order = "DOUB" /\ arom = "N" -> "DOUBLE"
    [] order = "TRIP" /\ arom = "N" -> "TRIPLE"   [] order = "QUAD" /\ arom = "N" -> "QUADRUPLE"
    [] order = "SING" /\ arom = "Y" -> "AROMATIC_SINGLE" [] order = "DOUB" /\ arom = "Y" -> "AROMATIC_DOUBLE"
    [] order = "TRIP" /\ arom = "Y" -> "AROMATIC_TRIPLE"
\* bonds_in_residue: the set of <<atom1, atom2, type>> as listed; an unknown residue has none
\* (names are NOT upper-cased here: the code does not)
BondsIn(n) == IF Known(n) THEN {<<b[1], b[2], BondTypeName(b[3], b[4])>> : b \in ToSet(Comp(n).bonds)} ELSE {}
Op_BondsInResidue(n) == R("ok", BondsIn(n))
\* bond_type: both atom orders, None when the two atoms are not bonded / unknown
Op_BondType(n, a1, a2) ==
  LET hits == {b \in BondsIn(n) : (b[1] = a1 /\ b[2] = a2) \/ (b[1] = a2 /\ b[2] = a1)}
  IN R("ok", IF hits = {} THEN None ELSE Some((CHOOSE b \in hits : TRUE)[3]))

(* ------------------------------------------------------------------ residue() (info/atoms.py) *)
NonHetero == {"ALA", "ARG", "ASN", "ASP", "CYS", "GLN", "GLU", "GLY", "HIS", "ILE", "LEU", "LYS", "MET",
              "PHE", "PRO", "PYL", "SER", "THR", "TRP", "TYR", "VAL", "SEC",
              "A", "DA", "G", "DG", "C", "DC", "U", "DT"}
IndexOf(seq, v) == CHOOSE k \in DOMAIN seq : seq[k] = v
\* the reference residue: annotation columns in dictionary order, bonds as 0-based index pairs
\* (smaller index first), hetero flag from the fixed list; unknown names are refused
Op_Residue(n) ==
  IF ~Known(n) THEN R("Rejected", <<>>)
  ELSE LET c == Comp(n) names == RefAtoms(n) IN
       R("ok", [names |-> names,
                elements |-> [k \in DOMAIN c.atoms |-> c.atoms[k][2]],
                charges |-> [k \in DOMAIN c.atoms |-> c.atoms[k][3]],
                resname |-> n,
                hetero |-> n \notin NonHetero,
                bonds |-> {LET i == IndexOf(names, b[1]) - 1 j == IndexOf(names, b[2]) - 1 IN
                           <<IF i < j THEN i ELSE j, IF i < j THEN j ELSE i, BondTypeName(b[3], b[4])>>
                           : b \in ToSet(c.bonds)}])

(* ------------------------------------------------------------------ masses and radii *)
\* excerpt of info/atom_masses.json (thousandths of u) and of _SINGLE_ATOM_VDW_RADII (hundredths
\* of an Angstrom); Dom_Element restricts the checks to the excerpt plus names that are no element
ElemMass == [e \in {"H", "C", "N", "O", "U", "SE", "P", "NA"} |->
               CASE e = "H" -> 1008 [] e = "C" -> 12011 [] e = "N" -> 14007 [] e = "O" -> 15999
                 [] e = "U" -> 238028 [] e = "SE" -> 78971 [] e = "P" -> 30973 [] e = "NA" -> 22989]
ElemRadius == [e \in {"H", "C", "N", "O", "SE", "P", "NA"} |->
               CASE e = "H" -> 110 [] e = "C" -> 170 [] e = "N" -> 155 [] e = "O" -> 152
                 [] e = "SE" -> 190 [] e = "P" -> 180 [] e = "NA" -> 227]
NoElement == {"ALA", "LIG", "UNK", "XX", "DA", "HOH"} \* names that are neither an element symbol
Dom_Element(n) == Upper(n) \in DOMAIN ElemMass \/ Upper(n) \in NoElement
IsElem(n) == Upper(n) \in DOMAIN ElemMass
\* mass(name, is_residue): isres = <<>> (None: element first, then residue), <<TRUE>>, <<FALSE>>
ResidueMass(n) == IF Known(Upper(n)) THEN R("ok", 1000 * Comp(Upper(n)).w) ELSE R("unknown", 0)
ElementMass(n) == IF IsElem(n) THEN R("ok", ElemMass[Upper(n)]) ELSE R("unknown", 0)
Op_Mass(n, isres) ==
  IF isres = None THEN (IF IsElem(n) THEN ElementMass(n) ELSE ResidueMass(n))
  ELSE IF isres[1] THEN ResidueMass(n) ELSE ElementMass(n)
\* mass of an atom array: the sum of the element masses
Op_MassOfElements(els) ==
  IF \A k \in DOMAIN els : IsElem(els[k]) THEN R("ok", FoldLeft(LAMBDA acc, e : acc + ElemMass[Upper(e)], 0, els))
  ELSE R("unknown", 0)
\* vdw_radius_single: None for unknown elements ("U" has a mass but no radius)
Op_RadiusSingle(n) == R("ok", IF Upper(n) \in DOMAIN ElemRadius THEN Some(ElemRadius[Upper(n)]) ELSE None)

\* vdw_radius_protor(res_name, atom_name): the ProtOr group of a heavy atom is <<element, number of
\* bonds the dictionary lists for it, number of those that go to a hydrogen>>; _PROTOR_RADII (hundredths)
\* for the elements C N O S; other heavy elements and groups outside the table give None.
\* The code takes the FIRST CHARACTER OF THE ATOM NAME as the element and recognises hydrogens by it:
\* Dom_Protor keeps to atoms whose one-letter element is that first character (not "SE", "NA", "CL").
HNames == {"H", "H2", "HA2", "HA3", "HXT", "HA", "H1"}          \* the queried names that start with "H"
ProtorKeys == {<<"C", 3, 0>>, <<"C", 3, 1>>, <<"C", 4, 1>>, <<"C", 4, 2>>, <<"C", 4, 3>>, <<"N", 3, 0>>, <<"N", 3, 1>>,
               <<"N", 3, 2>>, <<"N", 4, 3>>, <<"O", 1, 0>>, <<"O", 2, 1>>, <<"S", 1, 0>>, <<"S", 2, 0>>, <<"S", 2, 1>>}
ProtorRadius(key) == CASE key = <<"C", 3, 0>> -> 161 [] key = <<"C", 3, 1>> -> 176 [] (key[1] = "C" /\ key[2] = 4) -> 188
                       [] key[1] = "N" -> 164 [] key = <<"O", 1, 0>> -> 142 [] key = <<"O", 2, 1>> -> 146
                       [] key[1] = "S" -> 177
ElementOf(n, atom) == Comp(n).atoms[IndexOf(RefAtoms(n), atom)][2]
IsRefAtom(n, atom) == Known(n) /\ \E k \in DOMAIN RefAtoms(n) : RefAtoms(n)[k] = atom
Dom_Protor(res, atom) == IsRefAtom(Upper(res), atom) => ElementOf(Upper(res), atom) \in {"C", "N", "O", "S", "P", "H"}
BondsOfAtom(n, atom) == {k \in DOMAIN Comp(n).bonds : Comp(n).bonds[k][1] = atom \/ Comp(n).bonds[k][2] = atom}
Partner(b, atom) == IF b[1] = atom THEN b[2] ELSE b[1]
\* "Rejected": a hydrogen (ValueError); "unknown": the residue or the atom is not in the bond table
\* (documentation: None when the radius cannot be estimated; code: KeyError) - both are accepted
Op_RadiusProtor(res, atom) ==
  LET n == Upper(res) IN
  IF atom \in HNames THEN R("Rejected", <<>>)
  ELSE IF ~Known(n) THEN R("unknown", <<>>)
  ELSE IF BondsOfAtom(n, atom) = {} THEN R("unknown", <<>>)
  ELSE LET el == ElementOf(n, atom)
           key == <<el, Cardinality(BondsOfAtom(n, atom)),
                    Cardinality({k \in BondsOfAtom(n, atom) : Partner(Comp(n).bonds[k], atom) \in HNames})>>
       IN R("ok", IF key \in ProtorKeys THEN Some(ProtorRadius(key)) ELSE None)

(* ------------------------------------------------------------------ segments *)
(* re-stated from specs/C17/Segments.tla (ResidueChange / ChainChange / StartSet), without
   insertion codes *)
ChainOf(r) == r[1]
ResIdOf(r) == r[2]
ResNameOf(r) == r[3]
AtomNameOf(r) == r[4]
ResidueChange(a, b) == ChainOf(a) # ChainOf(b) \/ ResIdOf(a) # ResIdOf(b) \/ ResNameOf(a) # ResNameOf(b)
ChainChange(a, b) == ChainOf(a) # ChainOf(b) \/ ResIdOf(b) < ResIdOf(a)
\* 0-based indices of the first atoms of residues / chains, ascending
ResidueStarts(rows) == SelectSeq([k \in 1..Len(rows) |-> k - 1],
                                 LAMBDA i : i = 0 \/ ResidueChange(rows[i], rows[i + 1]))
ChainStarts(rows) == SelectSeq([k \in 1..Len(rows) |-> k - 1],
                               LAMBDA i : i = 0 \/ ChainChange(rows[i], rows[i + 1]))
\* exclusive stop of the k-th segment
StopOf(starts, k, n) == IF k < Len(starts) THEN starts[k + 1] ELSE n
\* position (1-based) of the residue that holds atom i (0-based)
ResIdx(starts, i) == Cardinality({k \in DOMAIN starts : starts[k] <= i})

(* ------------------------------------------------------------------ standardize_order *)
Dom_Rows(rows) == Len(rows) >= 1
InRef(rows, i) == Known(ResNameOf(rows[i + 1])) /\ \E k \in DOMAIN RefAtoms(ResNameOf(rows[i + 1])) :
                     RefAtoms(ResNameOf(rows[i + 1]))[k] = AtomNameOf(rows[i + 1])
Rank(rows, i) == IndexOf(RefAtoms(ResNameOf(rows[i + 1])), AtomNameOf(rows[i + 1]))
SameRes(starts, i, j) == ResIdx(starts, i) = ResIdx(starts, j)
\* two atoms of one residue carry the same name
DupPair(rows, starts, i, j) == i # j /\ SameRes(starts, i, j) /\ AtomNameOf(rows[i + 1]) = AtomNameOf(rows[j + 1])
\* Dom_Std: duplicate names that the reference residue does not list (or in residues unknown to the
\* dictionary) are outside the decided domain: the documentation promises BadStructureError for
\* every duplicate, the code only notices duplicates of reference atoms (NOTES.md, observation O1)
Dom_Std(rows) ==
  /\ Dom_Rows(rows)
  /\ LET st == ResidueStarts(rows) n == Len(rows) IN
     \A i, j \in 0..(n - 1) : DupPair(rows, st, i, j) => InRef(rows, i)

\* declarative: atom j must come before atom i in the result
Precedes(rows, st, j, i) ==
  \/ ResIdx(st, j) < ResIdx(st, i)
  \/ /\ SameRes(st, j, i)
     /\ IF Known(ResNameOf(rows[i + 1]))
        THEN \/ InRef(rows, j) /\ InRef(rows, i) /\ Rank(rows, j) < Rank(rows, i)
             \/ InRef(rows, j) /\ ~InRef(rows, i)
             \/ ~InRef(rows, j) /\ ~InRef(rows, i) /\ j < i
        ELSE j < i
DeclStandardize(rows) ==
  LET n == Len(rows) st == ResidueStarts(rows) IN
  IF \E i, j \in 0..(n - 1) : DupPair(rows, st, i, j) /\ InRef(rows, i) THEN R("Rejected", <<>>)
  ELSE R("ok", [k \in 1..n |-> CHOOSE i \in 0..(n - 1) :
                                 Cardinality({j \in 0..(n - 1) : Precedes(rows, st, j, i)}) = k - 1])

\* implementation-shaped: _reorder(origin, target) -> indices into origin (0-based) or "dup"
\* np.where(target[:, None] == origin[None, :]) lists the hits row by row (target index major)
Hits(origin, target) ==
  FoldLeft(LAMBDA acc, t : acc \o SelectSeq([o \in DOMAIN origin |-> <<t, o>>], LAMBDA h : target[h[1]] = origin[h[2]]),
           <<>>, [t \in DOMAIN target |-> t])
ImplReorder(origin, target) ==
  LET hits == Hits(origin, target)
      originHits == [k \in DOMAIN hits |-> hits[k][2] - 1]
      count(t) == Cardinality({k \in DOMAIN hits : hits[k][1] = t})
  IN IF \E t \in DOMAIN target : count(t) > 1 THEN R("Rejected", <<>>)
     ELSE IF Len(hits) < Len(origin)
          THEN R("ok", originHits \o SelectSeq([o \in DOMAIN origin |-> o - 1],
                                               LAMBDA o : \A k \in DOMAIN hits : hits[k][2] - 1 # o))
          ELSE R("ok", originHits)
ImplStandardize(rows) ==
  LET n == Len(rows) st == ResidueStarts(rows)
      piece(k) == LET start == st[k] stop == StopOf(st, k, n) name == ResNameOf(rows[start + 1])
                      origin == [q \in 1..(stop - start) |-> AtomNameOf(rows[start + q])]
                  IN IF ~Known(name) THEN R("ok", [q \in 1..(stop - start) |-> start + q - 1])
                     ELSE LET r == ImplReorder(origin, RefAtoms(name)) IN
                          IF r.oc = "ok" THEN R("ok", [q \in DOMAIN r.out |-> r.out[q] + start]) ELSE r
  IN FoldLeft(LAMBDA acc, k : IF acc.oc # "ok" THEN acc
                              ELSE LET p == piece(k) IN IF p.oc # "ok" THEN p ELSE R("ok", acc.out \o p.out),
              R("ok", <<>>), [k \in DOMAIN st |-> k])
Op_Standardize(rows) == ImplStandardize(rows)

\* laws of the property statement on a result p (sequence of 0-based indices)
IsPerm(p, n) == Len(p) = n /\ {p[k] : k \in DOMAIN p} = 0..(n - 1)
Law_Standardize(rows, p) ==
  LET n == Len(rows) st == ResidueStarts(rows) IN
  /\ IsPerm(p, n)
  \* every residue stays in place
  /\ \A k \in 1..n : SameRes(st, p[k], k - 1)
  \* inside a known residue: the reference atoms come first, in reference order; the others keep their order
  /\ \A k, m \in 1..n : (k < m /\ SameRes(st, k - 1, m - 1) /\ Known(ResNameOf(rows[k]))) =>
        /\ (InRef(rows, p[m])) => InRef(rows, p[k]) /\ Rank(rows, p[k]) < Rank(rows, p[m])
        /\ (~InRef(rows, p[k]) /\ ~InRef(rows, p[m])) => p[k] < p[m]
  \* an unknown residue is left as it is
  /\ \A k \in 1..n : ~Known(ResNameOf(rows[k])) => p[k] = k - 1
\* idempotence: the reordered rows are already in standard order
Apply(rows, p) == [k \in DOMAIN p |-> rows[p[k] + 1]]

(* ------------------------------------------------------------------ to_sequence *)
\* residue names of the chain [start, stop)
ResiduesOf(rows, start, stop) ==
  LET sub == SubSeq(rows, start + 1, stop) st == ResidueStarts(sub) IN [k \in DOMAIN st |-> ResNameOf(sub[st[k] + 1])]
CountIn(names, set) == Cardinality({k \in DOMAIN names : names[k] \in set})

\* declarative, residue by residue
ChainKind(names) ==
  LET aa == CountIn(names, AminoAcidNames) nuc == CountIn(names, NucleotideNames) IN
  IF aa = 0 /\ nuc = 0 THEN "neither" ELSE IF aa > nuc THEN "protein" ELSE "nucleotide"
GroupOf(kind) == IF kind = "protein" THEN AminoAcidNames ELSE NucleotideNames
IsHetero(name, kind) == OneLetter(name) = None \/ name \notin GroupOf(kind)
SymbolOf(name, kind) ==
  IF IsHetero(name, kind) THEN (IF kind = "protein" THEN "X" ELSE "N")
  ELSE LET c == OneLetter(name)[1] IN
       IF kind = "protein" THEN (IF c = "U" THEN "C" ELSE IF c = "O" THEN "K" ELSE c)
       ELSE (IF c = "U" THEN "T" ELSE c)
DeclChain(names, allowHetero) ==
  LET kind == ChainKind(names) IN
  IF kind = "neither" THEN R("Rejected", <<>>)
  ELSE IF ~allowHetero /\ \E k \in DOMAIN names : IsHetero(names[k], kind) THEN R("Rejected", <<>>)
  ELSE R("ok", <<kind, [k \in DOMAIN names |-> SymbolOf(names[k], kind)]>>)
DeclToSequence(rows, allowHetero) ==
  LET cs == ChainStarts(rows) n == Len(rows)
      chains == [k \in DOMAIN cs |-> DeclChain(ResiduesOf(rows, cs[k], StopOf(cs, k, n)), allowHetero)]
  IN IF \E k \in DOMAIN chains : chains[k].oc # "ok" THEN R("Rejected", <<>>)
     ELSE R("ok", [seqs |-> [k \in DOMAIN chains |-> chains[k].out], starts |-> cs])

\* implementation-shaped: the array operations of to_sequence, chain after chain
Replace(syms, from, to) == [k \in DOMAIN syms |-> IF syms[k] = from THEN to ELSE syms[k]]
ImplChain(names, allowHetero) ==
  LET syms0 == [k \in DOMAIN names |-> IF OneLetter(names[k]) = None THEN "." ELSE OneLetter(names[k])[1]]
      mask0 == [k \in DOMAIN names |-> syms0[k] = "."]
      aa == CountIn(names, AminoAcidNames) nuc == CountIn(names, NucleotideNames)
      finish(group, any, kind, repl(_)) ==
        LET mask == [k \in DOMAIN names |-> mask0[k] \/ names[k] \notin group] IN
        IF ~allowHetero /\ \E k \in DOMAIN names : mask[k] THEN R("Rejected", <<>>)
        ELSE R("ok", <<kind, repl([k \in DOMAIN names |-> IF mask[k] THEN any ELSE syms0[k]])>>)
  IN IF aa = 0 /\ nuc = 0 THEN R("Rejected", <<>>)
     ELSE IF aa > nuc THEN finish(AminoAcidNames, "X", "protein", LAMBDA s : Replace(Replace(s, "U", "C"), "O", "K"))
     ELSE finish(NucleotideNames, "N", "nucleotide", LAMBDA s : Replace(s, "U", "T"))
ImplToSequence(rows, allowHetero) ==
  LET cs == ChainStarts(rows) n == Len(rows) IN
  FoldLeft(LAMBDA acc, k :
             IF acc.oc # "ok" THEN acc
             ELSE LET c == ImplChain(ResiduesOf(rows, cs[k], StopOf(cs, k, n)), allowHetero) IN
                  IF c.oc # "ok" THEN R("Rejected", <<>>)
                  ELSE R("ok", [seqs |-> Append(acc.out.seqs, c.out), starts |-> cs]),
           R("ok", [seqs |-> <<>>, starts |-> cs]), [k \in DOMAIN cs |-> k])
Op_ToSequence(rows, allowHetero) == ImplToSequence(rows, allowHetero)

\* the symbols a ProteinSequence / NucleotideSequence accepts (excerpt that covers the dictionary)
Dom_Seq(rows) == Dom_Rows(rows)
Law_ToSequence(rows, allowHetero, r) ==
  r.oc = "ok" =>
    /\ Len(r.out.seqs) = Len(r.out.starts)
    /\ r.out.starts[1] = 0
    /\ \A k \in DOMAIN r.out.seqs :
         /\ Len(r.out.seqs[k][2]) = Len(ResiduesOf(rows, r.out.starts[k], StopOf(r.out.starts, k, Len(rows))))
         /\ r.out.seqs[k][1] = "protein" => \A q \in DOMAIN r.out.seqs[k][2] : r.out.seqs[k][2][q] \in {"A", "G", "C", "K", "X"}
         /\ r.out.seqs[k][1] = "nucleotide" => \A q \in DOMAIN r.out.seqs[k][2] : r.out.seqs[k][2][q] \in {"A", "G", "T", "N"}
         /\ ~allowHetero => \A q \in DOMAIN r.out.seqs[k][2] : r.out.seqs[k][2][q] \notin {"X", "N"}

(* ------------------------------------------------------------------ documented examples *)
ASSUME Op_OneLetter("ALA").out = <<"A">> /\ Op_OneLetter("MAN").out = None
ASSUME Op_LinkType("HOH").out = <<"NON-POLYMER">> /\ Op_LinkType("UNK").out = None
ASSUME Op_BondType("RNG", "C1", "C2").out = <<"AROMATIC_DOUBLE">> /\ Op_BondType("ALA", "CA", "N").out = <<"SINGLE">>
ASSUME Op_BondType("ALA", "CA", "O").out = None /\ Op_BondType("ALA", "FOO", "BAR").out = None
ASSUME AminoAcidNames = {"ALA", "GLY", "PYL", "SEC", "XAA"} /\ NucleotideNames = {"DA", "DG", "U"}
ASSUME CarbohydrateNames = {"MAN"}
ASSUME Op_RadiusProtor("GLY", "CA") = R("ok", <<188>>)          \* the docstring example
\* the docstring example of standardize_order in small: reversed residue, extra atoms at the end
ASSUME Op_Standardize(<< <<"A", 1, "ALA", "H2">>, <<"A", 1, "ALA", "O">>, <<"A", 1, "ALA", "H1">>,
                         <<"A", 1, "ALA", "CA">>, <<"A", 1, "ALA", "N">> >>) = R("ok", <<4, 3, 1, 0, 2>>)
ASSUME Op_Mass("N", None) = R("ok", 14007) /\ Op_Mass("ALA", None) = R("ok", 89000) /\ Op_Mass("U", <<TRUE>>) = R("ok", 324000)
=============================================================================
