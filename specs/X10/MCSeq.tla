------------------------------- MODULE MCSeq -------------------------------
(* X10 S1/S2 for to_sequence(): every list of 1..LenWide residue names over Wide (amino acids
   with and without a code, selenocysteine / pyrrolysine, DNA / RNA nucleotides, a non-polymer with
   a code, ligands, a name unknown to the dictionary), of LenWide + 1 names over Mid (a subset of
   Wide given by the configuration) and of LenNarrow names over Narrow (joins "none" / "chain"), every
   way of joining neighbouring residues
     "none"   same chain, next residue id        "chain"  new chain id
     "resid"  same chain id, residue id decreases (a new chain by the documented rule)
     "same"   same chain and residue id (a new residue only if the name differs),
   with and without allow_hetero.  Residue k has 1 + (k mod 2) atoms, so chain starts are atom
   indices, not residue positions. *)
EXTENDS ResInfo
CONSTANTS LenWide, Mid, LenNarrow
VARIABLES rows, allow, r, phase
vars == <<rows, allow, r, phase>>

Wide == {"ALA", "SEC", "PYL", "XAA", "DA", "U", "NPA", "LIG", "UNK"}
Narrow == {"ALA", "U", "XAA", "LIG"}
CutsWide == {"none", "chain", "resid", "same"}
CutsNarrow == {"none", "chain"}
ChainIds == <<"A", "B", "C", "D", "E">>

\* <<chain number, residue id>> of residue k
Place(cuts, k) ==
  FoldLeft(LAMBDA acc, c : CASE c = "none" -> <<acc[1], acc[2] + 1>>
                             [] c = "chain" -> <<acc[1] + 1, acc[2] + 1>>
                             [] c = "resid" -> <<acc[1], acc[2] - 2>>
                             [] c = "same" -> acc,
           <<1, 10>>, SubSeq(cuts, 1, k - 1))
RowsOf(names, cuts) ==
  FoldLeft(LAMBDA acc, k : LET p == Place(cuts, k) IN
                           acc \o [q \in 1..(1 + (k % 2)) |-> <<ChainIds[p[1]], p[2], names[k], IF q = 1 THEN "N" ELSE "CA">>],
           <<>>, [k \in DOMAIN names |-> k])

Init == /\ phase = 0 /\ r = R("ok", <<>>) /\ allow \in BOOLEAN
        /\ \/ \E n \in 1..LenWide : \E names \in [1..n -> Wide] : \E cuts \in [1..(n - 1) -> CutsWide] :
                rows = RowsOf(names, cuts)
           \/ \E names \in [1..(LenWide + 1) -> Mid] : \E cuts \in [1..LenWide -> CutsWide] :
                rows = RowsOf(names, cuts)
           \/ \E names \in [1..LenNarrow -> Narrow] : \E cuts \in [1..(LenNarrow - 1) -> CutsNarrow] :
                rows = RowsOf(names, cuts)
Next == /\ phase = 0 /\ phase' = 1
        /\ r' = Op_ToSequence(rows, allow)
        /\ UNCHANGED <<rows, allow>>
Spec == Init /\ [][Next]_vars

Done == phase = 1
InvImplDecl == Done => r = DeclToSequence(rows, allow)
InvLaw == Done => Law_ToSequence(rows, allow, r)
\* allow_hetero only turns refusals because of hetero residues into answers
InvAllow == Done => (r.oc = "ok" => Op_ToSequence(rows, TRUE).oc = "ok")
=============================================================================
