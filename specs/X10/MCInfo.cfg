SPECIFICATION Spec
INVARIANT InvDom
INVARIANT InvGroups
INVARIANT InvBonds
INVARIANT InvResidue
INVARIANT InvMass
CHECK_DEADLOCK FALSE
