SPECIFICATION Spec
CHECK_DEADLOCK FALSE
