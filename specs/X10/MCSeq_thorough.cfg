SPECIFICATION Spec
CONSTANTS
  LenWide = 3
  Mid = {"ALA", "U", "XAA", "LIG"}
  LenNarrow = 5
INVARIANT InvImplDecl
INVARIANT InvLaw
INVARIANT InvAllow
CHECK_DEADLOCK FALSE
