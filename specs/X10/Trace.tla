------------------------------- MODULE Trace -------------------------------
(* X10 code -> spec: calls recorded from the real API, re-computed by the operators of ResInfo.
   Every event carries its arguments and is judged on its own; the events of one trace were
   executed one after the other in one process (a history: the caches of the info functions,
   repeated calls).  Field op:
     "std"   standardize_order(atoms): rows, obs = <<outcome, indices>>, same = the caller's array
             is unchanged after the call, app = atom names after applying the returned indices
     "seq"   to_sequence(atoms, allow): rows, allow, obs = <<outcome, <<<<kind, letters>>...>>, starts>>, same
     "info"  one look-up c = <<op, a1, a2, a3>> (as in MCInfo), obs = <<outcome, value>> with
             sets as sorted lists
   PrintT(<<"MISMATCH", tid, l, flags, expected>>) for disagreements. *)
EXTENDS ResInfo, Json, IOUtils

Tr == JsonDeserialize(IOEnv.TRACE_FILE)

VARIABLES tid, l
tvars == <<tid, l>>

AllTrue(flags) == \A q \in DOMAIN flags : flags[q]
Report(f, exp) == IF AllTrue(f) THEN TRUE ELSE PrintT(<<"MISMATCH", tid, l + 1, f, exp>>)

JudgeStd(e) ==
  \E dom \in {Dom_Std(e.rows)} :
  \E exp \in {IF dom THEN Op_Standardize(e.rows) ELSE R("any", <<>>)} :
  \E f \in {<<dom => e.obs[1] = exp.oc,
              (dom /\ exp.oc = "ok" /\ e.obs[1] = "ok") => e.obs[2] = exp.out,
              (dom /\ e.obs[1] = "ok") => Law_Standardize(e.rows, e.obs[2]),
              (dom /\ e.obs[1] = "ok" /\ IsPerm(e.obs[2], Len(e.rows))) =>
                  e.app = [k \in DOMAIN e.obs[2] |-> AtomNameOf(e.rows[e.obs[2][k] + 1])],
              dom => exp = DeclStandardize(e.rows),
              e.same>>} : Report(f, exp)

JudgeSeq(e) ==
  \E exp \in {Op_ToSequence(e.rows, e.allow)} :
  \E f \in {<<Dom_Seq(e.rows), e.obs[1] = exp.oc,
              (exp.oc = "ok" /\ e.obs[1] = "ok") => e.obs[2] = exp.out.seqs,
              (exp.oc = "ok" /\ e.obs[1] = "ok") => e.obs[3] = exp.out.starts,
              exp = DeclToSequence(e.rows, e.allow),
              e.same>>} : Report(f, exp)

\* optional text: [] / [v];  sets: sorted lists
JudgeInfo(e) ==
  \E op \in {e.c[1]} : \E a \in {e.c[2]} :
  \E dom \in {((op \in {"mass", "rad"}) => Dom_Element(a)) /\ (op = "protor" => Dom_Protor(a, e.c[3]))} :
  \E exp \in {CASE op = "fn" -> Op_FullName(a) [] op = "lt" -> Op_LinkType(a) [] op = "olc" -> Op_OneLetter(a)
                [] op = "group" -> Op_Group(a) [] op = "res" -> Op_Residue(a) [] op = "bir" -> Op_BondsInResidue(a)
                [] op = "bt" -> Op_BondType(a, e.c[3], e.c[4])
                [] op = "mass" -> Op_Mass(a, CASE e.c[3] = "none" -> None [] e.c[3] = "true" -> <<TRUE>> [] e.c[3] = "false" -> <<FALSE>>)
                [] op = "rad" -> Op_RadiusSingle(a)
                [] op = "protor" -> Op_RadiusProtor(a, e.c[3])
                [] op = "massarr" -> Op_MassOfElements(e.els)} :
  \E f \in {<<dom, IF op = "protor" /\ exp.oc = "unknown" THEN e.obs \in {<<"ok", <<>>>>, <<"Rejected", <<>>>>} ELSE e.obs[1] = exp.oc,
              (e.obs[1] = "ok" /\ exp.oc = "ok") =>
                 CASE op \in {"group", "bir"} -> ToSet(e.obs[2]) = exp.out /\ Len(e.obs[2]) = Cardinality(exp.out)
                   [] op = "res" -> /\ e.obs[2].names = exp.out.names /\ e.obs[2].elements = exp.out.elements
                                    /\ e.obs[2].charges = exp.out.charges /\ e.obs[2].resname = exp.out.resname
                                    /\ e.obs[2].hetero = exp.out.hetero
                                    /\ ToSet(e.obs[2].bonds) = exp.out.bonds /\ Len(e.obs[2].bonds) = Cardinality(exp.out.bonds)
                   [] OTHER -> e.obs[2] = exp.out>>} : Report(f, exp)

Judge(e) ==
  CASE e.op = "std" -> JudgeStd(e)
    [] e.op = "seq" -> JudgeSeq(e)
    [] e.op = "info" -> JudgeInfo(e)

Init == tid \in 1..Len(Tr) /\ l = 0
Next == /\ l < Len(Tr[tid])
        /\ Judge(Tr[tid][l + 1])
        /\ l' = l + 1
        /\ UNCHANGED tid
Spec == Init /\ [][Next]_tvars
=============================================================================
