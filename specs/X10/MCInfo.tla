------------------------------- MODULE MCInfo -------------------------------
(* X10 S1/S2 for the look-ups: every call <<op, a1, a2, a3>> of the bounded sets below
   (text arguments; "" = unused).  One extra "call" hands the dictionary table to the driver,
   which writes it as the BinaryCIF file the real functions read.
     fn / lt / olc   full_name / link_type / one_letter_code(a1)
     group           amino_acid_names / nucleotide_names / carbohydrate_names / all_residues
     res             residue(a1)            bir   bonds_in_residue(a1)
     bt              bond_type(a1, a2, a3)  mass  mass(a1, is_residue = a2: "none" | "true" | "false")
     protor          vdw_radius_protor(a1, a2)
     rad             vdw_radius_single(a1)  massarr  mass(AtomArray with the elements of residue a1) *)
EXTENDS ResInfo
VARIABLES c, r, phase
vars == <<c, r, phase>>

QNames == Ids \cup {"UNK", "ala", "Ala", "lig", "u", "unk"}
ENames == {"H", "C", "N", "O", "U", "SE", "P", "NA", "c", "se", "Se", "u", "ALA", "ala", "LIG", "UNK", "XX", "xx", "DA", "HOH"}
BtRes == {"ALA", "RNG", "LIG", "HOH", "UNK"}
BtAtoms == {"N", "CA", "C", "O", "CB", "C1", "C2", "C3", "N1", "O1", "FOO"}

PrRes == {"GLY", "ALA", "ala", "DA", "LIG", "HOH", "UNK", "SEC"}
PrAtoms == {"N", "CA", "C", "O", "OXT", "CB", "P", "OP1", "C1", "O1", "N1", "SE", "H", "HA2", "H2", "FOO"}

Calls(op) ==
  CASE op = "fn" -> {<<op, n, "", "">> : n \in QNames}
    [] op = "lt" -> {<<op, n, "", "">> : n \in QNames}
    [] op = "olc" -> {<<op, n, "", "">> : n \in QNames}
    [] op = "group" -> {<<op, g, "", "">> : g \in {"amino", "nuc", "carb", "all"}}
    [] op = "res" -> {<<op, n, "", "">> : n \in Ids \cup {"UNK"}}
    [] op = "bir" -> {<<op, n, "", "">> : n \in Ids \cup {"UNK"}}
    [] op = "bt" -> {<<op, n, a, b>> : n \in BtRes, a \in BtAtoms, b \in BtAtoms}
    [] op = "mass" -> {<<op, n, i, "">> : n \in ENames, i \in {"none", "true", "false"}}
    [] op = "rad" -> {<<op, n, "", "">> : n \in ENames}
    [] op = "massarr" -> {<<op, n, "", "">> : n \in Ids}
    [] op = "protor" -> {<<op, p[1], p[2], "">> : p \in {q \in PrRes \X PrAtoms : Dom_Protor(q[1], q[2])}}
    [] op = "table" -> {<<op, "", "", "">>}
Ops == {"protor", "fn", "lt", "olc", "group", "res", "bir", "bt", "mass", "rad", "massarr", "table"}

IsRes(i) == CASE i = "none" -> None [] i = "true" -> <<TRUE>> [] i = "false" -> <<FALSE>>
Eval(call) ==
  LET op == call[1] a == call[2] IN
  CASE op = "fn" -> Op_FullName(a) [] op = "lt" -> Op_LinkType(a) [] op = "olc" -> Op_OneLetter(a)
    [] op = "group" -> Op_Group(a) [] op = "res" -> Op_Residue(a) [] op = "bir" -> Op_BondsInResidue(a)
    [] op = "bt" -> Op_BondType(a, call[3], call[4])
    [] op = "mass" -> Op_Mass(a, IsRes(call[3]))
    [] op = "rad" -> Op_RadiusSingle(a)
    [] op = "massarr" -> Op_MassOfElements([k \in DOMAIN Comp(a).atoms |-> Comp(a).atoms[k][2]])
    [] op = "protor" -> Op_RadiusProtor(a, call[3])
    [] op = "table" -> R("ok", CCD)
Dom_Call(call) == /\ call[1] \in {"mass", "rad"} => Dom_Element(call[2])
                  /\ call[1] = "protor" => Dom_Protor(call[2], call[3])

Init == /\ phase = 0 /\ r = R("ok", <<>>)
        /\ \E op \in Ops : c \in Calls(op)
Next == /\ phase = 0 /\ phase' = 1
        /\ r' = Eval(c)
        /\ UNCHANGED c
Spec == Init /\ [][Next]_vars

Done == phase = 1
InvDom == Dom_Call(c)
\* the look-ups agree with each other
InvGroups == /\ AminoAcidNames \cap NucleotideNames = {} /\ AminoAcidNames \cap CarbohydrateNames = {}
             /\ AminoAcidNames \cup NucleotideNames \cup CarbohydrateNames \subseteq Ids
\* bond_type is symmetric and agrees with bonds_in_residue and with the bonds of residue()
InvBonds == (Done /\ c[1] = "bt") =>
              /\ r = Op_BondType(c[2], c[4], c[3])
              /\ (r.out # None <=> \E b \in BondsIn(c[2]) : {b[1], b[2]} = {c[3], c[4]})
InvResidue == (Done /\ c[1] = "res" /\ r.oc = "ok") =>
              /\ Cardinality(r.out.bonds) = Cardinality(BondsIn(c[2]))
              /\ \A b \in r.out.bonds : b[1] < b[2] /\ Op_BondType(c[2], r.out.names[b[1] + 1], r.out.names[b[2] + 1]).out = <<b[3]>>
              /\ Op_Standardize([k \in DOMAIN r.out.names |-> <<"A", 1, c[2], r.out.names[k]>>]).out = [k \in DOMAIN r.out.names |-> k - 1]
\* mass with is_residue = None is one of the two strict answers
InvMass == (Done /\ c[1] = "mass" /\ c[3] = "none") =>
              \/ r = Op_Mass(c[2], <<FALSE>>)
              \/ (Op_Mass(c[2], <<FALSE>>).oc = "unknown" /\ r = Op_Mass(c[2], <<TRUE>>))
=============================================================================
