SPECIFICATION Spec
CONSTANTS
  LenWide = 2
  Mid = {"ALA", "SEC", "XAA", "U", "NPA", "UNK"}
  LenNarrow = 4
INVARIANT InvImplDecl
INVARIANT InvLaw
INVARIANT InvAllow
CHECK_DEADLOCK FALSE
