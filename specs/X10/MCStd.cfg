SPECIFICATION Spec
CONSTANTS
  LenOne = 4
  Three = TRUE
INVARIANT InvImplDecl
INVARIANT InvLaw
INVARIANT InvIdempotent
INVARIANT InvRefusal
CHECK_DEADLOCK FALSE
