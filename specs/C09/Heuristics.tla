----------------------------- MODULE Heuristics -----------------------------
(* C09, exhaustive single-step model: Init enumerates the calls of the bounded domain,
   Compute evaluates the code-shaped operators of HeurAlign and the relations the property
   states; the "done" states are dumped and executed against the real functions (S2). *)
EXTENDS HeurAlign, TLC

CONSTANTS MaxLen,      \* sequences of length 1..MaxLen over {0, 1}
          MatIds,      \* matrices for align_banded
          SeedMatIds,  \* matrices for the seeded calls
          BandPairs,   \* set of <<b1, b2>> passed as `band`
          BandGaps, SeedGaps, Thresholds,
          Ops

Mat2 == [ident |-> <<<<1, -1>>, <<-1, 1>>>>,
         zero  |-> <<<<0, 0>>, <<0, 0>>>>,
         neg   |-> <<<<-1, -2>>, <<-2, -1>>>>,
         asym  |-> <<<<2, -1>>, <<0, 1>>>>,
         cross |-> <<<<-1, 1>>, <<2, -3>>>>,
         steep |-> <<<<3, -4>>, <<-4, 2>>>>]
BandGapsQuick == {<<0>>, <<-1>>, <<-2, -1>>, <<0, 0>>}
BandGapsFull == {<<0>>, <<-1>>, <<-1, -2>>, <<-2, -1>>}
SeedGapsQuick == {<<-1>>, <<-2, -1>>}
SeedGapsFull == {<<-1>>, <<-3>>, <<-2, -1>>, <<-1, -2>>}
ThresholdsQuick == {0, 1, 100}
ThresholdsFull == {0, 1, 2, 3, 100}
NoGap == <<-1>>
(* full, wider than the table, reversed full, main diagonal, reversed narrow, upper part,
   lower part without the main diagonal, completely outside *)
BandPairsQuick == {<<-2, 2>>, <<-5, 4>>, <<2, -2>>, <<0, 0>>, <<1, -1>>, <<0, 2>>, <<-2, -1>>, <<3, 4>>}
BandDiags == {-4, -2, -1, 0, 1, 2, 3}
BandPairsFull == BandDiags \X BandDiags
Seqs == UNION {[1..len -> 0..1] : len \in 1..MaxLen}
Dirs == {"both", "upstream", "downstream"}
Mats == {Mat2[id] : id \in MatIds}
SeedMats == {Mat2[id] : id \in SeedMatIds}
ST == ShapeTable(MaxLen)
CT == CandTable(ST, MaxLen)

VARIABLES inp, phase, out
vars == <<inp, phase, out>>

Input(op, s1, s2, mat, gap, band, local, seed, X, dir) ==
  [op |-> op, s1 |-> s1, s2 |-> s2, mat |-> mat, gap |-> gap, band |-> band, local |-> local,
   seed |-> seed, X |-> X, dir |-> dir]
BandedInputs ==
  {Input("banded", s1, s2, mat, gap, bd, local, <<0, 0>>, 0, "both") :
     s1 \in Seqs, s2 \in Seqs, mat \in Mats, gap \in BandGaps, bd \in BandPairs, local \in BOOLEAN}
(* every (s1, s2, seed) with the seed inside both sequences; written as a filter and as plain
   set comprehensions: TLC's UNION of many sets is quadratic in the number of elements *)
SeededTriples ==
  {t \in Seqs \X Seqs \X ((0..(MaxLen - 1)) \X (0..(MaxLen - 1))) :
     t[3][1] < Len(t[1]) /\ t[3][2] < Len(t[2])}
UngappedInputs ==
  {Input("ungapped", t[1], t[2], mat, NoGap, <<0, 0>>, TRUE, t[3], X, dir) :
     t \in SeededTriples, mat \in SeedMats, X \in Thresholds, dir \in Dirs}
GappedInputs ==
  {Input("gapped", t[1], t[2], mat, gap, <<0, 0>>, TRUE, t[3], 0, dir) :
     t \in SeededTriples, mat \in SeedMats, gap \in SeedGaps, dir \in Dirs}

NoOut == [oc |-> "ok", score |-> 0, opt |-> 0, must |-> FALSE, kb |-> FALSE, ntr |-> 0,
          le |-> TRUE, eq |-> TRUE, valid |-> TRUE, honest |-> TRUE]

Init == /\ \/ "banded" \in Ops /\ inp \in BandedInputs
           \/ "ungapped" \in Ops /\ inp \in UngappedInputs
           \/ "gapped" \in Ops /\ inp \in GappedInputs
        /\ phase = "in"
        /\ out = NoOut

SomeOptimumPairs(s1, s2, M, gap, local, opt) ==
  IF local \/ opt > 0 THEN TRUE
  ELSE \E t \in IdealOver(CandOf(CT, Len(s1), Len(s2), "semi", gap), s1, s2, M, gap, "semi").set : PairsOf(t) # {}

OutBanded ==
  LET s1 == inp.s1  s2 == inp.s2  M == inp.mat  gap == inp.gap  n == Len(s1)  m == Len(s2) IN
  IF ~BandOverlaps(inp.band, n, m) THEN [NoOut EXCEPT !.oc = "Rejected"]
  ELSE LET r == BandedDP(s1, s2, M, gap, inp.band, inp.local)
           opt == UnrestrictedOpt(s1, s2, M, gap, inp.local)
           must == BandFull(inp.band, n, m) /\ SomeOptimumPairs(s1, s2, M, gap, inp.local, opt)
       IN [oc |-> "ok", score |-> r.score, opt |-> opt, must |-> must,
           kb |-> ~inp.local /\ KB_C09_BoundaryGap(M, gap, AMax2(n, m)),
           ntr |-> Cardinality(r.traces),
           le |-> r.score <= opt,
           eq |-> (must => r.score = opt),
           valid |-> r.traces # {} /\ \A t \in r.traces : BandedTraceValid(t, n, m, inp.band, inp.local),
           honest |-> \A t \in r.traces : BandedTraceHonest(t, r.score, s1, s2, M, gap, inp.local)]

OutUngapped ==
  LET s1 == inp.s1  s2 == inp.s2  M == inp.mat  n == Len(s1)  m == Len(s2)
      r == Ungapped(s1, s2, M, inp.seed, inp.X, inp.dir)
      decl == UngappedScoreDecl(s1, s2, M, inp.seed, inp.X, inp.dir)
      free == SeedOptUngappedDecl(CandOf(CT, n, m, "local", <<-1>>), s1, s2, M, inp.seed, inp.dir)
  IN [oc |-> "ok", score |-> r.score, opt |-> free,
      must |-> Dom_NonBinding(inp.X, s1, s2, M, NoGap), kb |-> FALSE, ntr |-> 1,
      le |-> r.score <= free /\ free <= DPOptimalScore(s1, s2, M, NoGap, "local"),
      eq |-> r.score = decl /\ (Dom_NonBinding(inp.X, s1, s2, M, NoGap) => r.score = free),
      valid |-> SeededTraceValid(r.trace, n, m, inp.seed, inp.dir) /\ IsDiagonal(r.trace),
      honest |-> ScoreTrace(r.trace, s1, s2, M, NoGap, FALSE) = r.score]

OutGapped ==
  LET s1 == inp.s1  s2 == inp.s2  M == inp.mat  gap == inp.gap  n == Len(s1)  m == Len(s2)
      dp == SeedOpt(s1, s2, M, gap, inp.seed, inp.dir)
      decl == SeedOptDecl(CandOf(CT, n, m, "local", gap), s1, s2, M, gap, inp.seed, inp.dir)
  IN [NoOut EXCEPT !.score = dp, !.opt = decl, !.eq = (dp = decl),
                   !.le = dp <= DPOptimalScore(s1, s2, M, gap, "local")]

Compute ==
  /\ phase = "in" /\ phase' = "done" /\ UNCHANGED inp
  /\ out' = IF inp.op = "banded" THEN OutBanded
            ELSE IF inp.op = "ungapped" THEN OutUngapped ELSE OutGapped
Next == Compute
Spec == Init /\ [][Next]_vars

Done == phase = "done"
(* never above the optimum of the unrestricted problem *)
InvUpperBound == Done => (out.le \/ out.kb)
(* reaches it when the restriction cannot bind (banded: full band and some optimum pairs a
   position; ungapped: also the loop equals its declarative meaning; gapped: the composed
   seeded optimum equals the one by definition) *)
InvReachesOptimum == Done => (out.eq \/ out.kb)
(* valid, in-band / seeded, ends terminal *)
InvValid == Done => out.valid
(* reported score = recomputed score *)
InvHonest == Done => (out.honest \/ out.kb)
=============================================================================
