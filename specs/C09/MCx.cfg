SPECIFICATION Spec
CONSTANTS
  MaxLen = 3
  MatIds = {"ident", "asym", "neg"}
  SeedMatIds = {"ident", "cross"}
  BandPairs <- BandPairsQuick
  BandGaps <- BandGapsQuick
  SeedGaps <- SeedGapsQuick
  Thresholds <- ThresholdsQuick
  Ops = {"banded"}
INVARIANT InvUpperBound
INVARIANT InvReachesOptimum
INVARIANT InvValid
INVARIANT InvHonest
CHECK_DEADLOCK FALSE
