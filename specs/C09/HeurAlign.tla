------------------------------ MODULE HeurAlign ------------------------------
(* C09: the three alignment heuristics of biotite.sequence.align

     align_banded(seq1, seq2, matrix, band, gap_penalty, local, max_number)
     align_local_ungapped(seq1, seq2, matrix, seed, threshold, direction, score_only)
     align_local_gapped(seq1, seq2, matrix, seed, threshold, gap_penalty, max_number,
                        direction, score_only, max_table_size)

   specified (a) by the relations the property states - valid alignment, honest score, never
   above the optimum of the unrestricted problem and equal to it when the restriction cannot
   bind, pairs inside the band, seed contained, direction respected - on top of PairAlign's
   scoring model and optimum, and (b) in the shape of the code where the shape is the
   argument: the banded dynamic programme (band cropping, sequence swap + transposed
   matrix, zero top row, missing left column, trace starts on the last row / column, trace
   representation by visited cells) and the ungapped X-drop loop. *)
EXTENDS PairAlign

Rev(s) == [k \in 1..Len(s) |-> s[Len(s) + 1 - k]]
Transpose(M) == [b \in 1..Len(M[1]) |-> [a \in 1..Len(M) |-> M[a][b]]]
FlipTrace(tr) == [k \in 1..Len(tr) |-> <<tr[k][2], tr[k][1]>>]
SubSeqFrom(s, p) == SubSeq(s, p + 1, Len(s))          \* symbols at positions >= p
PrefixTo(s, p) == SubSeq(s, 1, p)                      \* symbols at positions < p
MaxAbs(M, gap) ==
  SetMax({IF x < 0 THEN -x ELSE x : x \in {M[a][b] : a \in DOMAIN M, b \in DOMAIN M[1]} \cup {gap[k] : k \in DOMAIN gap} \cup {1}})

(* ------------------------------------------------------------------ traces of the heuristics *)
(* The code builds a trace from the table cells it visits: every visited cell contributes its
   (seq_i, seq_j); afterwards every repeated index of a column is turned into a gap (-1). *)
CellsToTrace(cells) ==
  [k \in 1..Len(cells) |->
     <<IF \E q \in 1..(k - 1) : cells[q][1] = cells[k][1] THEN -1 ELSE cells[k][1],
       IF \E q \in 1..(k - 1) : cells[q][2] = cells[k][2] THEN -1 ELSE cells[k][2]>>]

(* "completed by the unaligned sequence ends": what precedes the first and follows the last
   aligned position of either sequence is put in front / behind as gap columns *)
FirstOr(q, dflt) == IF Len(q) = 0 THEN dflt ELSE q[1]
LastOr(q, dflt) == IF Len(q) = 0 THEN dflt ELSE q[Len(q)]
Completed(tr, n, m) ==
  LET c1 == ColSeq(tr, 1)  c2 == ColSeq(tr, 2)
      a0 == FirstOr(c1, n)       b0 == FirstOr(c2, m)
      a1 == LastOr(c1, n - 1)    b1 == LastOr(c2, m - 1)
  IN   [k \in 1..a0 |-> <<k - 1, -1>>] \o [k \in 1..b0 |-> <<-1, k - 1>>]
    \o tr
    \o [k \in 1..(n - 1 - a1) |-> <<a1 + k, -1>>] \o [k \in 1..(m - 1 - b1) |-> <<-1, b1 + k>>]
(* the unaligned parts are *ends*: at most one sequence has an unaligned start / end *)
EndsTerminal(tr, n, m) ==
  LET c1 == ColSeq(tr, 1)  c2 == ColSeq(tr, 2)
  IN /\ (FirstOr(c1, n) = 0 \/ FirstOr(c2, m) = 0)
     /\ (LastOr(c1, n - 1) = n - 1 \/ LastOr(c2, m - 1) = m - 1)
(* the recomputed score of a heuristic result *)
HonestScore(tr, s1, s2, M, gap, local) ==
  IF local THEN ScoreTrace(tr, s1, s2, M, gap, FALSE)
  ELSE ScoreTrace(Completed(tr, Len(s1), Len(s2)), s1, s2, M, gap, TRUE)
InBand(tr, lo, hi) == \A p \in PairsOf(tr) : lo <= p[2] - p[1] /\ p[2] - p[1] <= hi

(* ================================================================== align_banded *)
Dom_Banded(s1, s2) == Len(s1) >= 1 /\ Len(s2) >= 1
BandLo(band) == AMin2(band[1], band[2])
BandHi(band) == AMax2(band[1], band[2])
(* documented refusal: "the band allows no overlap between both sequences" *)
BandOverlaps(band, n, m) == BandHi(band) > -n /\ BandLo(band) < m
(* "the band covers the whole table" *)
BandFull(band, n, m) == BandLo(band) <= -(n - 1) /\ BandHi(band) >= m - 1

(* --- the banded dynamic programme in natural coordinates: row si, column sj are sequence
   positions; the top row (si = -1) and the never written cells left of the table
   (sj = -1) read as score 0 without direction, everything outside the band as NegInf --- *)
BLinOut == [sc |-> NegInf, tr |-> {}]
BLinZero == [sc |-> 0, tr |-> {}]
BLinRead(T, cur, si, sj, lo, hi) ==      \* T: finished rows, cur: cells of row si so far
  LET d == sj - si IN
  IF d < lo \/ d > hi THEN BLinOut
  ELSE IF si = -1 \/ sj = -1 THEN BLinZero
  ELSE IF si + 1 <= Len(T) THEN T[si + 1][sj + 1] ELSE cur[sj + 1]
BLinRow(T, si, s1, s2, M, g, lo, hi, local) ==
  FoldLeft(LAMBDA cur, sj :
     IF sj - si < lo \/ sj - si > hi THEN Append(cur, BLinOut)
     ELSE LET diag == BLinRead(T, cur, si - 1, sj - 1, lo, hi).sc + Sub(M, s1[si + 1], s2[sj + 1])
              left == BLinRead(T, cur, si, sj - 1, lo, hi).sc + g
              top  == BLinRead(T, cur, si - 1, sj, lo, hi).sc + g
              t == GetTraceLinear(diag, left, top)
          IN Append(cur, IF local /\ t.sc <= 0 THEN BLinZero ELSE t),
     <<>>, [k \in 1..Len(s2) |-> k - 1])
BLinTable(s1, s2, M, g, lo, hi, local) ==
  FoldLeft(LAMBDA T, si : Append(T, BLinRow(T, si, s1, s2, M, g, lo, hi, local)),
           <<>>, [k \in 1..Len(s1) |-> k - 1])
RECURSIVE BLinBack(_, _, _, _, _)
BLinBack(T, si, sj, lo, hi) ==            \* set of visited-cell sequences ending in (si, sj)
  LET c == BLinRead(T, <<>>, si, sj, lo, hi) IN
  IF c.tr = {} THEN {<<>>}
  ELSE UNION {
         IF d = "m" THEN {Append(p, <<si, sj>>) : p \in BLinBack(T, si - 1, sj - 1, lo, hi)}
         ELSE IF d = "l" THEN {Append(p, <<si, sj>>) : p \in BLinBack(T, si, sj - 1, lo, hi)}
         ELSE {Append(p, <<si, sj>>) : p \in BLinBack(T, si - 1, sj, lo, hi)}
         : d \in c.tr}
(* get_global_trace_starts: the last cell of every diagonal of the band inside the table *)
BandEnds(n, m, lo, hi) ==
  {IF n - 1 + d < m THEN <<n - 1, n - 1 + d>> ELSE <<m - 1 - d, m - 1>> : d \in lo..hi}
BandCells(n, m, lo, hi) == {c \in (0..(n - 1)) \X (0..(m - 1)) : lo <= c[2] - c[1] /\ c[2] - c[1] <= hi}

BandedLinear(s1, s2, M, g, lo, hi, local) ==
  LET n == Len(s1)  m == Len(s2)
      T == BLinTable(s1, s2, M, g, lo, hi, local)
      sc(c) == T[c[1] + 1][c[2] + 1].sc
      cand == IF local THEN BandCells(n, m, lo, hi) ELSE BandEnds(n, m, lo, hi)
      best == IF local THEN SetMax({0} \cup {sc(c) : c \in cand}) ELSE SetMax({sc(c) : c \in cand})
      starts == {c \in cand : sc(c) = best}
  IN [score |-> best,
      traces |-> (IF local /\ best = 0 THEN {<<>>} ELSE {}) \cup
                 UNION {{CellsToTrace(p) : p \in BLinBack(T, c[1], c[2], lo, hi)} : c \in starts}]

(* --- affine --- *)
BAffOut == [m |-> NegInf, g1 |-> NegInf, g2 |-> NegInf, tm |-> {}, t1 |-> {}, t2 |-> {}]
BAffZero == [m |-> 0, g1 |-> NegInf, g2 |-> NegInf, tm |-> {}, t1 |-> {}, t2 |-> {}]
BAffRead(T, cur, si, sj, lo, hi) ==
  LET d == sj - si IN
  IF d < lo \/ d > hi THEN BAffOut
  ELSE IF si = -1 \/ sj = -1 THEN BAffZero
  ELSE IF si + 1 <= Len(T) THEN T[si + 1][sj + 1] ELSE cur[sj + 1]
BAffRow(T, si, s1, s2, M, o, e, lo, hi, local) ==
  FoldLeft(LAMBDA cur, sj :
     IF sj - si < lo \/ sj - si > hi THEN Append(cur, BAffOut)
     ELSE LET s == Sub(M, s1[si + 1], s2[sj + 1])
              dg == BAffRead(T, cur, si - 1, sj - 1, lo, hi)
              lf == BAffRead(T, cur, si, sj - 1, lo, hi)
              tp == BAffRead(T, cur, si - 1, sj, lo, hi)
              t == GetTraceAffine(dg.m + s, dg.g1 + s, dg.g2 + s, lf.m + o, lf.g1 + e, tp.m + o, tp.g2 + e)
          IN Append(cur,
               IF local
               THEN [m  |-> IF t.m <= 0 THEN 0 ELSE t.m,
                     g1 |-> IF t.g1 <= 0 THEN NegInf ELSE t.g1,
                     g2 |-> IF t.g2 <= 0 THEN NegInf ELSE t.g2,
                     tm |-> IF t.m <= 0 THEN {} ELSE t.tm,
                     t1 |-> IF t.g1 <= 0 THEN {} ELSE t.t1,
                     t2 |-> IF t.g2 <= 0 THEN {} ELSE t.t2]
               ELSE t),
     <<>>, [k \in 1..Len(s2) |-> k - 1])
BAffTable(s1, s2, M, o, e, lo, hi, local) ==
  FoldLeft(LAMBDA T, si : Append(T, BAffRow(T, si, s1, s2, M, o, e, lo, hi, local)),
           <<>>, [k \in 1..Len(s1) |-> k - 1])
RECURSIVE BAffBack(_, _, _, _, _, _)
BAffBack(T, si, sj, st, lo, hi) ==
  LET preds == AffDirsIn(BAffRead(T, <<>>, si, sj, lo, hi), st) IN
  IF preds = {} THEN {<<>>}
  ELSE UNION {
         IF st = "M" THEN {Append(p, <<si, sj>>) : p \in BAffBack(T, si - 1, sj - 1, ps, lo, hi)}
         ELSE IF st = "G1" THEN {Append(p, <<si, sj>>) : p \in BAffBack(T, si, sj - 1, ps, lo, hi)}
         ELSE {Append(p, <<si, sj>>) : p \in BAffBack(T, si - 1, sj, ps, lo, hi)}
         : ps \in preds}
BandedAffine(s1, s2, M, o, e, lo, hi, local) ==
  LET n == Len(s1)  m == Len(s2)
      T == BAffTable(s1, s2, M, o, e, lo, hi, local)
      at(c) == T[c[1] + 1][c[2] + 1]
      cand == IF local THEN BandCells(n, m, lo, hi) ELSE BandEnds(n, m, lo, hi)
      best == IF local THEN SetMax({0} \cup {at(c).m : c \in cand})
              ELSE SetMax(UNION {{at(c).m, at(c).g1, at(c).g2} : c \in cand})
      starts == IF local THEN {<<c[1], c[2], "M">> : c \in {x \in cand : at(x).m = best}}
                ELSE {<<c[1], c[2], st>> : c \in cand, st \in {"M", "G1", "G2"}}
      live == {x \in starts : AffScoreIn(at(<<x[1], x[2]>>), x[3]) = best}
  IN [score |-> best,
      traces |-> (IF local /\ best = 0 THEN {<<>>} ELSE {}) \cup
                 UNION {{CellsToTrace(p) : p \in BAffBack(T, x[1], x[2], x[3], lo, hi)} : x \in live}]

(* align_banded as the code composes it: the shorter sequence becomes the first one (band
   negated, matrix transposed, result flipped back), the band is ordered and cropped *)
BandedDP(s1, s2, M, gap, band, local) ==
  LET swap == Len(s2) < Len(s1)
      a == IF swap THEN s2 ELSE s1
      b == IF swap THEN s1 ELSE s2
      MM == IF swap THEN Transpose(M) ELSE M
      bd == IF swap THEN <<-band[1], -band[2]>> ELSE band
      lo == AMax2(BandLo(bd), -Len(a) + 1)
      hi == AMin2(BandHi(bd), Len(b) - 1)
      r == IF IsAffine(gap) THEN BandedAffine(a, b, MM, gap[1], gap[2], lo, hi, local)
           ELSE BandedLinear(a, b, MM, gap[1], lo, hi, local)
  IN [score |-> r.score, traces |-> IF swap THEN {FlipTrace(t) : t \in r.traces} ELSE r.traces]

(* what the property demands of one banded result *)
BandedTraceValid(tr, n, m, band, local) ==
  /\ ValidTrace(tr, n, m)
  /\ InBand(tr, BandLo(band), BandHi(band))
  /\ (~local => EndsTerminal(tr, n, m))
BandedTraceHonest(tr, score, s1, s2, M, gap, local) == HonestScore(tr, s1, s2, M, gap, local) = score
UnrestrictedOpt(s1, s2, M, gap, local) == DPOptimalScore(s1, s2, M, gap, IF local THEN "local" ELSE "semi")

(* Known defect (finding C09-banded-boundary-gap): when a gap run scores at least as well as
   pairing the same number of symbols, the semi-global recurrence enters the table through a
   gap step from the zero top row / the missing left column; the trace stops there, the
   visited cell is reported as a *pair*, and the reported score is not the score of the
   returned alignment (affine: it is the score of an alignment with abutting gaps and may exceed
   the optimum). Necessary for this: a run of k gaps is not worse than k times the smallest
   matrix entry for some k up to the sequence length L - otherwise pairing the last symbols of
   the run on the same diagonal (the rest becomes a free terminal gap) is strictly better. *)
MatMin(M) == Min({M[a][b] : a \in DOMAIN M, b \in DOMAIN M[1]})
KB_C09_BoundaryGap(M, gap, L) ==
  \E k \in 1..L : GapOpen(gap) + (k - 1) * GapExt(gap) >= k * MatMin(M)

(* Known defect (finding C09-banded-affine-sentinel-underflow): banded.pyx corrects its
   "negative infinity" only by the smaller of the two affine penalties (and the smallest matrix
   entry). A cell next to the band border gets neg_inf + max(open, ext) in a gap table, its
   neighbour adds the extension penalty once more, the int32 wraps around and the huge positive
   value wins: the reported score is about 2^31. (Local mode never stores such a value.) *)
KB_C09_SentinelUnderflow(M, gap, local) ==
  /\ ~local /\ IsAffine(gap)
  /\ AMax2(gap[1], gap[2]) + gap[2] - AMin2(gap[1], gap[2]) - AMin2(0, MatMin(M)) < 0

(* ================================================================== align_local_ungapped *)
Dom_Seed(seed, n, m) == seed[1] \in 0..(n - 1) /\ seed[2] \in 0..(m - 1)
Dom_Direction(dir) == dir \in {"both", "upstream", "downstream"}
PairScores(a, b, M) == [k \in 1..AMin2(Len(a), Len(b)) |-> Sub(M, a[k], b[k])]

(* _seed_extend_*: the loop as a fold over the pair scores *)
SeedExtendLoop(q, X) ==
  LET step(st, k) ==
        IF st.stop THEN st
        ELSE LET tot == st.tot + q[k] IN
             IF tot >= st.best THEN [tot |-> tot, best |-> tot, len |-> k, stop |-> FALSE]
             ELSE IF st.best - tot > X THEN [st EXCEPT !.tot = tot, !.stop = TRUE]
             ELSE [st EXCEPT !.tot = tot]
      fin == FoldLeft(step, [tot |-> 0, best |-> 0, len |-> 0, stop |-> FALSE], [k \in 1..Len(q) |-> k])
  IN [score |-> fin.best, len |-> fin.len]
(* declaratively: prefix sums; the extension is abandoned at the first prefix that lies more
   than X below the best earlier one; the best prefix before that point wins *)
PrefixSum(q, k) == SumSeq(SubSeq(q, 1, k))
SeedExtendDecl(q, X) ==
  LET P == [k \in 0..Len(q) |-> PrefixSum(q, k)]
      runmax(k) == SetMax({P[x] : x \in 0..k})
      drops == {k \in 1..Len(q) : runmax(k - 1) - P[k] > X}
      lim == IF drops = {} THEN Len(q) ELSE Min(drops) - 1
      best == SetMax({P[k] : k \in 0..lim})
      lens == {k \in 1..lim : P[k] = best}
  IN [score |-> best, lens |-> IF lens = {} THEN {0} ELSE lens]

UpActive(seed, dir) == dir \in {"both", "upstream"} /\ seed[1] > 0 /\ seed[2] > 0
DownActive(dir) == dir \in {"both", "downstream"}
Ungapped(s1, s2, M, seed, X, dir) ==
  LET up == IF UpActive(seed, dir)
            THEN SeedExtendLoop(PairScores(Rev(PrefixTo(s1, seed[1])), Rev(PrefixTo(s2, seed[2])), M), X)
            ELSE [score |-> 0, len |-> 0]
      dn == IF DownActive(dir)
            THEN SeedExtendLoop(PairScores(SubSeqFrom(s1, seed[1] + 1), SubSeqFrom(s2, seed[2] + 1), M), X)
            ELSE [score |-> 0, len |-> 0]
  IN [score |-> up.score + dn.score + Sub(M, s1[seed[1] + 1], s2[seed[2] + 1]),
      trace |-> [k \in 1..(up.len + 1 + dn.len) |-> <<seed[1] - up.len + k - 1, seed[2] - up.len + k - 1>>]]
(* the documented value: maximum, before the first excessive drop, in both parts *)
UngappedScoreDecl(s1, s2, M, seed, X, dir) ==
    (IF UpActive(seed, dir)
     THEN SeedExtendDecl(PairScores(Rev(PrefixTo(s1, seed[1])), Rev(PrefixTo(s2, seed[2])), M), X).score ELSE 0)
  + (IF DownActive(dir)
     THEN SeedExtendDecl(PairScores(SubSeqFrom(s1, seed[1] + 1), SubSeqFrom(s2, seed[2] + 1), M), X).score ELSE 0)
  + Sub(M, s1[seed[1] + 1], s2[seed[2] + 1])

(* ================================================================== seeded results *)
IsDiagonal(tr) == \A k \in 1..Len(tr) : Kind(tr[k]) = "m"
SeedRespected(tr, seed, dir) ==
  /\ \E k \in 1..Len(tr) : tr[k] = seed                         \* "always contain the seed"
  /\ (dir = "upstream" => tr[Len(tr)] = seed)                   \* "extend only in the requested direction"
  /\ (dir = "downstream" => tr[1] = seed)
SeededTraceValid(tr, n, m, seed, dir) ==
  Len(tr) >= 1 /\ ValidTrace(tr, n, m) /\ SeedRespected(tr, seed, dir)

(* the unrestricted problem of a seeded call: the best local alignment that contains the seed
   pair and extends only in the requested direction. By composition: best extension of the
   reversed prefixes + seed + best extension of the suffixes, an extension being anchored at its
   start and free at its end. *)
ExtOpt(a, b, M, gap) ==
  IF IsAffine(gap)
  THEN LET T == AffTable(a, b, M, gap[1], gap[2], "global") IN AffMaxM(T, Len(a), Len(b))
  ELSE LET T == LinTable(a, b, M, gap[1], "global") IN LinMaxScore(T, Len(a), Len(b))
SeedOpt(s1, s2, M, gap, seed, dir) ==
    (IF UpActive(seed, dir) THEN ExtOpt(Rev(PrefixTo(s1, seed[1])), Rev(PrefixTo(s2, seed[2])), M, gap) ELSE 0)
  + (IF DownActive(dir) THEN ExtOpt(SubSeqFrom(s1, seed[1] + 1), SubSeqFrom(s2, seed[2] + 1), M, gap) ELSE 0)
  + Sub(M, s1[seed[1] + 1], s2[seed[2] + 1])
(* ... and by definition, over the candidate local alignments *)
SeedOptDecl(C, s1, s2, M, gap, seed, dir) ==
  SetMax({ScoreTrace(t, s1, s2, M, gap, FALSE) :
            t \in {x \in C : Len(x) >= 1 /\ SeedRespected(x, seed, dir)
                              /\ (dir = "upstream" /\ ~UpActive(seed, dir) => Len(x) = 1)}})
(* ungapped: only diagonal candidates *)
SeedOptUngappedDecl(C, s1, s2, M, seed, dir) ==
  SetMax({ScoreTrace(t, s1, s2, M, <<-1>>, FALSE) :
            t \in {x \in C : Len(x) >= 1 /\ IsDiagonal(x) /\ SeedRespected(x, seed, dir)}})
(* "the drop-off threshold cannot bind" *)
Dom_NonBinding(X, s1, s2, M, gap) == X >= (Len(s1) + Len(s2) + 1) * MaxAbs(M, gap)

(* pinned examples *)
ASSUME CellsToTrace(<<<<0, 0>>, <<1, 0>>, <<1, 1>>>>) = <<<<0, 0>>, <<1, -1>>, <<-1, 1>>>>
ASSUME Completed(<<<<1, 0>>>>, 3, 2) = <<<<0, -1>>, <<1, 0>>, <<2, -1>>, <<-1, 1>>>>
ASSUME SeedExtendLoop(<<1, -2, 2, -5, 9>>, 2) = [score |-> 1, len |-> 3]
ASSUME SeedExtendDecl(<<1, -2, 2, -5, 9>>, 2) = [score |-> 1, lens |-> {1, 3}]
=============================================================================
