SPECIFICATION Spec
CONSTANTS
  MaxLen = 3
  MatIds = {"ident", "neg", "cross"}
  SeedMatIds = {"ident", "neg", "cross"}
  BandPairs <- BandPairsFull
  BandGaps <- BandGapsFull
  SeedGaps <- SeedGapsFull
  Thresholds <- ThresholdsFull
  Ops = {"banded", "ungapped", "gapped"}
INVARIANT InvUpperBound
INVARIANT InvReachesOptimum
INVARIANT InvValid
INVARIANT InvHonest
CHECK_DEADLOCK FALSE
