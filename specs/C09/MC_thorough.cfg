SPECIFICATION Spec
CONSTANTS
  MaxLen = 3
  MatIds = {"ident", "zero", "neg", "asym", "cross", "steep"}
  SeedMatIds = {"ident", "neg", "asym", "cross", "steep"}
  BandPairs <- BandPairsFull
  BandGaps <- BandGapsFull
  SeedGaps <- SeedGapsFull
  Thresholds <- ThresholdsFull
  Ops = {"banded", "ungapped", "gapped"}
INVARIANT InvUpperBound
INVARIANT InvReachesOptimum
INVARIANT InvValid
INVARIANT InvHonest
CHECK_DEADLOCK FALSE
