SPECIFICATION Spec
CONSTANTS
  MaxLen = 3
  MatIds = {"ident", "asym", "neg"}
  SeedMatIds = {"cross", "ident"}
  BandPairs <- BandPairsQuick
  BandGaps <- BandGapsQuick
  SeedGaps <- SeedGapsQuick
  Thresholds <- ThresholdsQuick
  Ops = {"banded", "ungapped", "gapped"}
INVARIANT InvUpperBound
INVARIANT InvReachesOptimum
INVARIANT InvValid
INVARIANT InvHonest
CHECK_DEADLOCK FALSE
