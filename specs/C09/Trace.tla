------------------------------- MODULE Trace -------------------------------
(* C09: validate recorded calls of align_banded / align_local_ungapped / align_local_gapped
   against HeurAlign.  TRACE_FILE is a JSON array of traces, a trace an array of independent
   events with the fields

     op       "banded" | "ungapped" | "gapped"
     s1, s2, M, gap                       as in C08 (gap unused for "ungapped")
     band [b1, b2], local                 banded
     seed [i, j], X, dir                  seeded calls (X = threshold)
     maxn                                 max_number (1 for "ungapped")
     mts                                  [] or [max_table_size]
     oc, exc                              "ok" | "Rejected", exception class name
     scores                               distinct Alignment.score values of the result
     count                                number of alignments returned
     traces                               the distinct Alignment.trace arrays returned
     sonly                                [] or [result of the same call with score_only=True]
     big                                  1: input too large for the optimum to be recomputed

   Disagreements are printed as <<"MISMATCH", tid, l, flags, allowed outcomes, model info>>. *)
EXTENDS HeurAlign, Json, IOUtils, TLC

Tr == JsonDeserialize(IOEnv.TRACE_FILE)

VARIABLES tid, l
tvars == <<tid, l>>

IdealMax == 3
ST == ShapeTable(IdealMax)
CT == CandTable(ST, IdealMax)
Small(e) == Len(e.s1) <= IdealMax /\ Len(e.s2) <= IdealMax

StrictGap(gap) == Len(gap) \in {1, 2} /\ \A k \in DOMAIN gap : gap[k] < 0

(* ---------------------------------------------------------------- outcomes *)
AllowedOc(e) ==
  LET n == Len(e.s1)  m == Len(e.s2) IN
  IF e.op = "banded" THEN
       IF ~Dom_Gap(e.gap) \/ e.maxn < 1 \/ ~BandOverlaps(e.band, n, m) THEN {"Rejected"} ELSE {"ok"}
  ELSE IF e.op = "ungapped" THEN
       IF e.X < 0 \/ ~Dom_Seed(e.seed, n, m) \/ ~Dom_Direction(e.dir) THEN {"Rejected"} ELSE {"ok"}
  ELSE IF ~StrictGap(e.gap) \/ e.maxn < 1 \/ e.X < 0 \/ ~Dom_Seed(e.seed, n, m) \/ ~Dom_Direction(e.dir)
          \/ (e.mts # <<>> /\ e.mts[1] <= 0) THEN {"Rejected"}
       \* "a MemoryError is raised if the table would exceed the given value": allowed, never required
       ELSE IF e.mts # <<>> /\ 4 * (n + 1) * (m + 1) > e.mts[1] /\ e.exc = "MemoryError" THEN {"ok", "Rejected"}
       ELSE {"ok"}

OneScore(e) == Len(e.scores) = 1
Sc(e) == e.scores[1]
CountOk(e) == e.count >= 1 /\ e.count <= e.maxn /\ Len(e.traces) >= 1 /\ Len(e.traces) <= e.count

(* ---------------------------------------------------------------- banded *)
SomeOptimumPairs(e, opt) ==
  IF e.local \/ opt > 0 THEN TRUE
  ELSE IF ~Small(e) THEN FALSE        \* undecided for large inputs: equality is then not demanded
  ELSE \E t \in IdealOver(CandOf(CT, Len(e.s1), Len(e.s2), "semi", e.gap), e.s1, e.s2, e.M, e.gap, "semi").set :
         PairsOf(t) # {}
JudgeBanded(e) ==
  LET n == Len(e.s1)  m == Len(e.s2)
      opt == UnrestrictedOpt(e.s1, e.s2, e.M, e.gap, e.local)
      okValid == \A k \in DOMAIN e.traces : BandedTraceValid(e.traces[k], n, m, e.band, e.local)
      okHonest == OneScore(e) /\ \A k \in DOMAIN e.traces :
                     ValidTrace(e.traces[k], n, m) => BandedTraceHonest(e.traces[k], Sc(e), e.s1, e.s2, e.M, e.gap, e.local)
      okUpper == (OneScore(e) /\ e.big = 0) => Sc(e) <= opt
      okReach == (OneScore(e) /\ e.big = 0 /\ BandFull(e.band, n, m) /\ SomeOptimumPairs(e, opt)) => Sc(e) = opt
  IN <<okValid, okHonest, okUpper, okReach, CountOk(e), TRUE>>
(* what the specification's own banded programme does on this input (it reproduces the
   known defect), for the classification of a disagreement *)
ModelBanded(e) ==
  IF e.big = 1 \/ ~Dom_Gap(e.gap) \/ ~BandOverlaps(e.band, Len(e.s1), Len(e.s2)) THEN <<FALSE, 0, TRUE, TRUE, FALSE>>
  ELSE LET r == BandedDP(e.s1, e.s2, e.M, e.gap, e.band, e.local)
           opt == UnrestrictedOpt(e.s1, e.s2, e.M, e.gap, e.local)
       IN <<~e.local /\ KB_C09_BoundaryGap(e.M, e.gap, AMax2(Len(e.s1), Len(e.s2))), r.score, r.score <= opt,
            \A t \in r.traces : BandedTraceHonest(t, r.score, e.s1, e.s2, e.M, e.gap, e.local),
            KB_C09_SentinelUnderflow(e.M, e.gap, e.local)>>

(* ---------------------------------------------------------------- ungapped *)
JudgeUngapped(e) ==
  LET n == Len(e.s1)  m == Len(e.s2)
      tr == e.traces[1]
      okValid == Len(e.traces) = 1 /\ SeededTraceValid(tr, n, m, e.seed, e.dir) /\ IsDiagonal(tr)
      okHonest == OneScore(e) /\ (Len(e.traces) = 1 /\ ValidTrace(tr, n, m) => ScoreTrace(tr, e.s1, e.s2, e.M, <<-1>>, FALSE) = Sc(e))
      okUpper == (OneScore(e) /\ e.big = 0) => Sc(e) <= DPOptimalScore(e.s1, e.s2, e.M, <<-1>>, "local")
      \* the documented value of the X-drop extension; with a threshold that cannot bind this is
      \* the optimum of the unrestricted seeded problem
      okReach == OneScore(e) => Sc(e) = UngappedScoreDecl(e.s1, e.s2, e.M, e.seed, e.X, e.dir)
      okSonly == e.sonly # <<>> /\ (OneScore(e) => e.sonly[1] = Sc(e))
  IN <<okValid, okHonest, okUpper, okReach, e.count = 1, okSonly>>
ModelUngapped(e) ==          \* diagnostic: the loop's exact trace (ties keep the last maximum)
  IF Dom_Seed(e.seed, Len(e.s1), Len(e.s2)) /\ Dom_Direction(e.dir) /\ e.X >= 0
  THEN Ungapped(e.s1, e.s2, e.M, e.seed, e.X, e.dir).trace ELSE <<>>

(* ---------------------------------------------------------------- gapped *)
JudgeGapped(e) ==
  LET n == Len(e.s1)  m == Len(e.s2)
      okValid == \A k \in DOMAIN e.traces : SeededTraceValid(e.traces[k], n, m, e.seed, e.dir)
      okHonest == OneScore(e) /\ \A k \in DOMAIN e.traces :
                     ValidTrace(e.traces[k], n, m) => ScoreTrace(e.traces[k], e.s1, e.s2, e.M, e.gap, FALSE) = Sc(e)
      seedopt == SeedOpt(e.s1, e.s2, e.M, e.gap, e.seed, e.dir)
      okUpper == (OneScore(e) /\ e.big = 0) => Sc(e) <= seedopt /\ seedopt <= DPOptimalScore(e.s1, e.s2, e.M, e.gap, "local")
      okReach == (OneScore(e) /\ e.big = 0 /\ Dom_NonBinding(e.X, e.s1, e.s2, e.M, e.gap)) => Sc(e) = seedopt
      okSonly == e.sonly # <<>> /\ (OneScore(e) => e.sonly[1] = Sc(e))
  IN <<okValid, okHonest, okUpper, okReach, CountOk(e), okSonly>>

Judge(e) ==
  LET allowed == AllowedOc(e)
      okOc == e.oc \in allowed
      f == IF e.oc # "ok" \/ ~okOc THEN <<TRUE, TRUE, TRUE, TRUE, TRUE, TRUE>>
           ELSE IF e.op = "banded" THEN JudgeBanded(e)
           ELSE IF e.op = "ungapped" THEN JudgeUngapped(e) ELSE JudgeGapped(e)
  IN IF okOc /\ \A k \in 1..6 : f[k] THEN TRUE
     ELSE PrintT(<<"MISMATCH", tid, l + 1, <<okOc>> \o f, allowed,
                   IF e.op = "banded" THEN ModelBanded(e) ELSE <<>>>>)
(* diagnostics, never a verdict: the ungapped trace equals the loop's exact trace *)
Diag(e) ==
  IF e.op = "ungapped" /\ e.oc = "ok" /\ Len(e.traces) = 1 /\ e.traces[1] # ModelUngapped(e)
  THEN PrintT(<<"DIAG", tid, l + 1, ModelUngapped(e)>>) ELSE TRUE

Init == tid \in 1..Len(Tr) /\ l = 0
Next == /\ l < Len(Tr[tid])
        /\ l' = l + 1
        /\ UNCHANGED tid
        /\ LET e == Tr[tid][l + 1] IN Judge(e) /\ Diag(e)
Spec == Init /\ [][Next]_tvars
=============================================================================
