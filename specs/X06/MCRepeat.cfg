SPECIFICATION Spec
CONSTANTS
  MaxN = 3
  MaxK = 3
INVARIANT L_Copies
INVARIANT L_Bonds
CHECK_DEADLOCK FALSE
