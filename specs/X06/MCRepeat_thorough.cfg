SPECIFICATION Spec
CONSTANTS
  MaxN = 4
  MaxK = 4
INVARIANT L_Copies
INVARIANT L_Bonds
CHECK_DEADLOCK FALSE
