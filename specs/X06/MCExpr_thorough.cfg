SPECIFICATION Spec
CONSTANTS
  Ids = {"1", "2", "X0", "12"}
  RangeLo = {0, 1, 2, 3}
  RangeHi = {1, 2, 3}
  MaxItems = 2
  MaxGroups = 2
  MaxProduct = 100
INVARIANT L_Dom
INVARIANT L_ParseIsDecl
INVARIANT L_ProductFold
INVARIANT L_Grammar
INVARIANT L_Count
INVARIANT L_Order
CHECK_DEADLOCK FALSE
