------------------------------ MODULE MCSession ------------------------------
(* X06: one file object over a history of calls.  The edits of the three categories are the
   mutating calls (Assembly!Edit); get_assembly / list_assemblies answer for the file as it is at
   that moment and leave it as it is; overwriting a returned object ("spoil") changes nothing.
   The state graph (dot dump) is replayed edge by edge against real CIFFile / BinaryCIFFile
   objects. *)
EXTENDS Assembly
CONSTANTS Depth,        \* calls per history
          Rich          \* TRUE: the larger universe of calls
VARIABLES gens, opers, missing, res, strict, n
vars == <<gens, opers, missing, res, strict, n>>

\* the parts of the file no call of this model edits
Atoms3 == <<[asym |-> "A", auth |-> "X"], [asym |-> "B", auth |-> "Y"], [asym |-> "A", auth |-> "X"]>>
Coord3 == [m \in 1..2 |-> [i \in 1..3 |-> <<i + 10 * (m - 1), 2 * i + 1, 2 - 3 * i + (m - 1)>>]]
Bonds3 == {<<1, 3>>, <<1, 2>>}
Asms3  == <<[id |-> "1", details |-> "first"], [id |-> "2", details |-> "second"]>>
File == [atoms |-> Atoms3, coord |-> Coord3, bonds |-> Bonds3, opers |-> opers, gens |-> gens,
         asms |-> Asms3, missing |-> missing]

RotZ    == <<<<0, -1, 0>>, <<1, 0, 0>>, <<0, 0, 1>>>>
MirrorX == <<<<-1, 0, 0>>, <<0, 1, 0>>, <<0, 0, 1>>>>
Opers0  == <<Op("1", IdMat, <<0, 0, 0>>), Op("2", RotZ, <<0, 0, 0>>), Op("3", IdMat, <<5, 0, -2>>)>>
E1 == <<"1">>
E12 == <<"(", "1", ",", "2", ")">>
E2x3 == <<"(", "2", ")", "(", "3", ",", "1", ")">>
E7 == <<"(", "1", ",", "7", ")">>
EBad == <<"(", "1", "-">>
Gens0 == <<[aid |-> "1", expr |-> E12, asyms |-> <<"B", "A">>], [aid |-> "2", expr |-> E1, asyms |-> <<"A">>]>>

Flags == {<<FALSE, TRUE, FALSE>>, <<TRUE, FALSE, TRUE>>}
AllCalls ==
       {<<"get", aid, m, f[1], f[2], f[3]>> : aid \in {<<>>, <<"1">>, <<"2">>}, m \in {<<>>, <<1>>}, f \in Flags}
  \cup {<<"list">>, <<"spoil">>}
  \cup {<<"set_expr", r, e>> : r \in 1..2, e \in {E2x3, E7} \cup (IF Rich THEN {E1, EBad} ELSE {})}
  \cup {<<"set_asyms", r, a>> : r \in 1..2, a \in {<<"A">>} \cup (IF Rich THEN {<<"B", "Q">>} ELSE {})}
  \cup {<<"set_aid", r, a>> : r \in 1..2, a \in {"1", "2"}}
  \cup {<<"add_row", "1", E2x3, <<"B">>>>}
  \cup {<<"del_row", r>> : r \in 1..2}
  \cup {<<"set_oper", 2, Op("2", MirrorX, <<1, 1, 1>>)>>, <<"set_oper", 1, Op("3", IdMat, <<0, 0, 9>>)>>}
  \cup {<<"drop", c>> : c \in Cats} \cup {<<"restore", c>> : c \in Cats}

\* the constant part of the file, for the driver that builds the real object
ASSUME PrintT(<<"CONSTFILE", [atoms |-> Atoms3, coord |-> Coord3, bonds |-> Bonds3, asms |-> Asms3]>>)

Init == /\ gens = Gens0 /\ opers = Opers0 /\ missing = {}
        /\ res = NoResult /\ strict = TRUE /\ n = 0
Call(c) ==
  /\ n < Depth
  /\ Enabled(File, c)
  /\ (c[1] = "add_row" => Len(gens) < 3)
  /\ (c[1] = "spoil" => res.oc = "ok")
  /\ (n = Depth - 1 => (IsQuery(c) \/ c[1] = "spoil"))      \* an edit is seen by the queries after it
  /\ n' = n + 1
  /\ LET f == Edit(File, c) IN gens' = f.gens /\ opers' = f.opers /\ missing' = f.missing
  /\ IF IsQuery(c) THEN res' = Expected(File, c) /\ strict' = StrictQuery(File, c)
     ELSE UNCHANGED <<res, strict>>
Next == \E c \in AllCalls : Call(c)
Spec == Init /\ [][Next]_vars

\* the edits keep the file inside the domain of the specification
L_Dom == Dom_Block(File) /\ Dom_ChainLength(File)
\* the stored answer is an answer: refusals carry nothing, accepted assemblies carry no dictionary and vice versa
L_Answer == /\ (res.oc = "Rejected" => res = NoResult)
            /\ (res.map # {} => res.atoms = <<>> /\ res.bonds = {})
\* queries and "spoil" leave the file as it is (Edit is the identity on them)
ASSUME \A c \in AllCalls : (IsQuery(c) \/ c[1] = "spoil") =>
          Edit([gens |-> Gens0, opers |-> Opers0, missing |-> {}], c) = [gens |-> Gens0, opers |-> Opers0, missing |-> {}]
=============================================================================
