------------------------------- MODULE MCExpr -------------------------------
(* X06 S1/S2 for oper_expression: Init enumerates every expression tree in the bounds; one step
   computes the token string, what the parser (as coded) returns for it and the declarative
   chains; the invariants are the laws that relate the two. *)
EXTENDS Assembly
CONSTANTS Ids,          \* identifier tokens used as single ids
          RangeLo, RangeHi,   \* ranges lo-hi with lo \in RangeLo, hi \in RangeHi (descending ones included)
          MaxItems,     \* items per group
          MaxGroups,    \* groups per parenthesised expression
          MaxProduct    \* bound on the number of chains (keeps the state small)
VARIABLES ast, res, phase
vars == <<ast, res, phase>>

Items  == {IdItem(s) : s \in Ids} \cup {RangeItem(a, b) : a \in RangeLo, b \in RangeHi}
Groups == UNION {[1..n -> Items] : n \in 1..MaxItems}
Init == /\ \E paren \in BOOLEAN : \E n \in 1..MaxGroups : \E gs \in [1..n -> Groups] :
             /\ (~paren => n = 1)
             /\ ast = Expr(paren, gs)
        /\ res = <<>> /\ phase = 0
Results(e) ==
  LET toks == RenderExpr(e) IN
  [toks |-> toks, parse |-> CodeParse(toks), strict |-> Strict(toks)]
Next == phase = 0 /\ phase' = 1 /\ res' = Results(ast) /\ UNCHANGED ast
Spec == Init /\ [][Next]_vars
Small == ProdLen(Pools(ast)) <= MaxProduct

L_Dom == phase = 1 => Dom_Expr(ast) /\ Dom_Tokens(res.toks)
\* the parser as coded yields the declarative chains of the tree
L_ParseIsDecl == phase = 1 => res.parse = [oc |-> "ok", chains |-> Chains(ast)]
\* itertools.product = the positional definition
L_ProductFold == phase = 1 => ProductFold(Pools(ast)) = ProductDecl(Pools(ast))
\* the recogniser accepts every rendered tree and reads it back
L_Grammar == phase = 1 => /\ WellFormed(res.toks)
                          /\ AstOf(res.toks) = ast
                          /\ (res.strict <=> Dom_Ascending(ast))
\* one chain per combination, one step per group
L_Count == phase = 1 =>
  LET ps == Pools(ast)  cs == res.parse.chains IN
  /\ Len(cs) = ProdLen(ps)
  /\ \A c \in DOMAIN cs : Len(cs[c]) = Len(ast.groups)
  /\ ToSet(cs) = {f \in [DOMAIN ps -> UNION {ToSet(ps[p]) : p \in DOMAIN ps}] : \A p \in DOMAIN ps : f[p] \in ToSet(ps[p])}
\* order: the group written last is applied first and varies slowest; the group written first varies fastest
L_Order == phase = 1 =>
  LET ps == Pools(ast)  cs == res.parse.chains  n == Len(ps) IN
  (Len(cs) >= 1) =>
     /\ cs[1] = [p \in 1..n |-> ps[p][1]]
     /\ (Len(ps[n]) >= 2 => cs[2] = [cs[1] EXCEPT ![n] = ps[n][2]])
     /\ \A c \in DOMAIN cs : cs[c][1] = ps[1][((c - 1) \div Stride(ps, 1)) + 1]
     /\ (Dom_Ascending(ast) => \A p \in 1..n : ToSet(ps[p]) = ToSet(GroupIds(ast.groups[n + 1 - p])))

\* examples: the mmCIF dictionary ("(1,2)(3,4)": 3 and 4 first, then 1 and 2) and the code comment (1a34)
ASSUME CodeParse(<<"(", "1", ",", "2", ")", "(", "3", ",", "4", ")">>).chains
         = <<<<"3", "1">>, <<"3", "2">>, <<"4", "1">>, <<"4", "2">>>>
ASSUME CodeParse(<<"(", "1", "-", "4", ")">>).chains = <<<<"1">>, <<"2">>, <<"3">>, <<"4">>>>
ASSUME CodeParse(<<"1", ",", "2", ",", "5">>).chains = <<<<"1">>, <<"2">>, <<"5">>>>
ASSUME LET r == CodeParse(<<"(", "X0", ")", "(", "1", "-", "10", ",", "21", "-", "25", ")">>) IN
       /\ Len(r.chains) = 15 /\ r.chains[1] = <<"1", "X0">> /\ r.chains[11] = <<"21", "X0">> /\ r.chains[15] = <<"25", "X0">>
ASSUME Strict(<<"(", "1", "-", "4", ")">>) /\ ~Strict(<<"(", "4", "-", "1", ")">>) /\ ~WellFormed(<<"(", "1">>)
=============================================================================
