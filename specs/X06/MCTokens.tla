------------------------------ MODULE MCTokens ------------------------------
(* X06 S1/S2 for oper_expression beyond the grammar: Init enumerates every token sequence up to a
   length (well-formed or not); one step computes what the parser (as coded) does with it and
   whether the documented grammar contains it. *)
EXTENDS Assembly
CONSTANTS Alphabet,     \* tokens
          MaxLen
VARIABLES toks, res, phase
vars == <<toks, res, phase>>

Init == /\ \E n \in 0..MaxLen : toks \in [1..n -> Alphabet]
        /\ res = <<>> /\ phase = 0
Results(t) ==
  [dom |-> Dom_Tokens(t), parse |-> CodeParse(t), wf |-> WellFormed(t), strict |-> Strict(t)]
Next == phase = 0 /\ phase' = 1 /\ res' = Results(toks) /\ UNCHANGED toks
Spec == Init /\ [][Next]_vars

InDom == phase = 1 /\ res.dom
\* every expression of the documented grammar is accepted with the declarative chains of its tree
L_GrammarAccepted ==
  (InDom /\ res.wf) => /\ Dom_Expr(AstOf(toks))
                       /\ RenderExpr(AstOf(toks)) = toks
                       /\ res.parse = [oc |-> "ok", chains |-> Chains(AstOf(toks))]
\* ... and, when its ranges ascend, with at least one chain, one step per group, no empty id
L_StrictNonEmpty ==
  (InDom /\ res.strict) => /\ Len(res.parse.chains) >= 1
                           /\ \A c \in DOMAIN res.parse.chains :
                                /\ Len(res.parse.chains[c]) = Len(AstOf(toks).groups)
                                /\ \A s \in DOMAIN res.parse.chains[c] : res.parse.chains[c][s] \in MentionedIds(AstOf(toks))
\* what the parser refuses is outside the grammar
L_RejectedIsMalformed == (InDom /\ res.parse.oc = "Rejected") => ~res.wf
\* the code reads more than the grammar (no law: a census for the notes) --------------------
Lenient == InDom /\ ~res.wf /\ res.parse.oc = "ok"
=============================================================================
