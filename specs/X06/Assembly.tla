------------------------------ MODULE Assembly ------------------------------
(* X06 -- biological assemblies of a PDBx file (biotite.structure.io.pdbx.convert:
   _parse_operation_expression, _get_transformations, _apply_transformations, get_assembly,
   list_assemblies; biotite.structure.repeat as used by them).

   Text is modelled as sequences of tokens: the four punctuation tokens "(" ")" "," "-" and
   identifier tokens (operation ids such as "1", "12", "X0", "P").  The driver concatenates the
   tokens to obtain the string given to biotite.  Coordinates, matrices and vectors are integers
   (exact in float32 / float64).

   Sections
     1  tokens and numerals
     2  expression trees (the documented grammar), rendering, declarative meaning
     3  the parser as the code performs it (replace / split / reverse / product)
     4  recogniser of the documented grammar on token sequences
     5  operations: affine maps, chains, composite of a chain
     6  repeat(): k copies of n atoms
     7  the file (block) and get_assembly / list_assemblies
     8  the file as a mutable object: one operator per mutating call                        *)
EXTENDS Integers, Sequences, FiniteSets, SequencesExt, TLC

(* ------------------------------------------------------------------ 1 tokens, numerals *)
Punct == {"(", ")", ",", "-"}
IsId(t) == t \notin Punct

MaxNum == 199                                  \* numerals 0..MaxNum (decimal, no leading zeros)
NumTab == [n \in 0..MaxNum |-> ToString(n)]
NumeralSet == {NumTab[n] : n \in 0..MaxNum}
IsNumeral(s) == s \in NumeralSet
NumOf(s) == CHOOSE n \in 0..MaxNum : NumTab[n] = s
Str(n) == NumTab[n]

\* a token sequence stands for one string: two identifier tokens next to each other would
\* read as one longer identifier, and no token is the empty string.  Identifiers separated only by
\* ")" are joined by the parser (it deletes every ")"): at most two of them, numerals among them
\* single digits, so that a joined numeral is again a numeral of this model (10..99)
Dom_Tokens(toks) ==
  /\ \A k \in DOMAIN toks : toks[k] # ""
  /\ \A k \in 1..(Len(toks) - 1) : ~(IsId(toks[k]) /\ IsId(toks[k + 1]))
  /\ LET nc == SelectSeq(toks, LAMBDA t : t # ")") IN
     \A k \in 1..(Len(nc) - 1) :
        (IsId(nc[k]) /\ IsId(nc[k + 1])) =>
           /\ (k + 2 <= Len(nc) => ~IsId(nc[k + 2]))
           /\ (IsNumeral(nc[k]) => NumOf(nc[k]) \in 1..9)
           /\ (IsNumeral(nc[k + 1]) => NumOf(nc[k + 1]) \in 0..9)

\* str.split(sep): k separators give k + 1 parts
SplitOn(s, sep) ==
  FoldLeft(LAMBDA acc, t : IF t = sep THEN Append(acc, <<>>)
                                      ELSE [acc EXCEPT ![Len(acc)] = Append(@, t)],
           << <<>> >>, s)
JoinWith(seqs, sep) ==
  IF seqs = <<>> THEN <<>> ELSE FoldLeft(LAMBDA acc, s : acc \o <<sep>> \o s, seqs[1], Tail(seqs))
MaxOf(S) == CHOOSE x \in S : \A y \in S : y <= x
SumSeq(s) == FoldLeft(LAMBDA a, x : a + x, 0, s)

(* ------------------------------------------------------------------ 2 expression trees *)
(* item  ::= id | lo "-" hi          group ::= item ("," item)*
   expr  ::= group                   (bare form: one group without parentheses)
           | ("(" group ")")+        (product of groups, applied from right to left)          *)
IdItem(s)       == [k |-> "id", id |-> s, lo |-> 0, hi |-> 0]
RangeItem(a, b) == [k |-> "range", id |-> "", lo |-> a, hi |-> b]
Expr(paren, groups) == [paren |-> paren, groups |-> groups]

Dom_Item(it) == IF it.k = "id" THEN IsId(it.id) /\ it.id # ""
                ELSE it.k = "range" /\ it.lo \in 0..MaxNum /\ it.hi \in 0..MaxNum
Dom_Expr(e) ==
  /\ Len(e.groups) >= 1
  /\ (~e.paren => Len(e.groups) = 1)
  /\ \A g \in DOMAIN e.groups : Len(e.groups[g]) >= 1 /\ \A i \in DOMAIN e.groups[g] : Dom_Item(e.groups[g][i])
\* ranges are written lo-hi with lo <= hi (the dictionary shows only this form)
Dom_Ascending(e) ==
  \A g \in DOMAIN e.groups : \A i \in DOMAIN e.groups[g] :
     e.groups[g][i].k = "range" => e.groups[g][i].lo <= e.groups[g][i].hi

RenderItem(it)  == IF it.k = "id" THEN <<it.id>> ELSE <<Str(it.lo), "-", Str(it.hi)>>
RenderGroup(g)  == JoinWith([i \in DOMAIN g |-> RenderItem(g[i])], ",")
RenderExpr(e)   == IF e.paren
                   THEN FlattenSeq([g \in DOMAIN e.groups |-> <<"(">> \o RenderGroup(e.groups[g]) \o <<")">>])
                   ELSE RenderGroup(e.groups[1])

\* declarative meaning ----------------------------------------------------------------
RangeIds(a, b)  == IF b < a THEN <<>> ELSE [k \in 1..(b - a + 1) |-> Str(a + k - 1)]   \* range(a, b + 1)
ItemIds(it)     == IF it.k = "id" THEN <<it.id>> ELSE RangeIds(it.lo, it.hi)
GroupIds(g)     == FlattenSeq([i \in DOMAIN g |-> ItemIds(g[i])])
\* "(1,2)(3,4)": 3 and 4 are applied first, then 1 and 2 -> the pools in order of application
Pools(e)        == Reverse([g \in DOMAIN e.groups |-> GroupIds(e.groups[g])])

ProdLen(pools)   == FoldLeft(LAMBDA a, p : a * Len(p), 1, pools)
Stride(pools, p) == ProdLen(SubSeq(pools, p + 1, Len(pools)))
\* Cartesian product, first pool slowest (position k <-> mixed-radix digits of k - 1)
ProductDecl(pools) ==
  [k \in 1..ProdLen(pools) |->
     [p \in DOMAIN pools |-> pools[p][(((k - 1) \div Stride(pools, p)) % Len(pools[p])) + 1]]]
\* the chains of an expression: one tuple of ids (in order of application) per copy
Chains(e) == ProductDecl(Pools(e))

(* ------------------------------------------------------------------ 3 the parser as coded *)
\* itertools.product(*pools): result = [[]]; for pool: result = [x + [y] for x in result for y in pool]
ProductFold(pools) ==
  FoldLeft(LAMBDA acc, pool :
             FlattenSeq([i \in DOMAIN acc |-> [j \in DOMAIN pool |-> Append(acc[i], pool[j])]]),
           << <<>> >>, pools)

\* the characters of a piece: its identifier tokens one after the other ("" for none)
Glue(part) == FoldLeft(LAMBDA acc, t : acc \o t, "", part)
IntLit(part) == IsNumeral(Glue(part))                               \* int(part) succeeds
\* one comma-separated piece of a group (tokens without "(" ")" ",")
PieceIds(piece) ==
  IF \E k \in DOMAIN piece : piece[k] = "-"
  THEN LET parts == SplitOn(piece, "-") IN                          \* first, last = expr.split("-")
       IF Len(parts) = 2 /\ IntLit(parts[1]) /\ IntLit(parts[2])
       THEN [ok |-> TRUE, ids |-> RangeIds(NumOf(Glue(parts[1])), NumOf(Glue(parts[2])))]
       ELSE [ok |-> FALSE, ids |-> <<>>]
  ELSE [ok |-> TRUE, ids |-> <<Glue(piece)>>]                       \* also the empty string is taken as an id
SegmentIds(seg) ==
  LET ps == SplitOn(seg, ",")
      rs == [k \in DOMAIN ps |-> PieceIds(ps[k])]
  IN [ok |-> \A k \in DOMAIN rs : rs[k].ok, ids |-> FlattenSeq([k \in DOMAIN rs |-> rs[k].ids])]
\* _parse_operation_expression(expression)
CodeParse(toks) ==
  LET noClose == SelectSeq(toks, LAMBDA t : t # ")")                \* expression.replace(")", "")
      segs    == SelectSeq(SplitOn(noClose, "("), LAMBDA s : s # <<>>)   \* .split("("), empty ones dropped
      rev     == Reverse(segs)                                      \* applied from right to left
      rs      == [k \in DOMAIN rev |-> SegmentIds(rev[k])]
  IN IF \A k \in DOMAIN rs : rs[k].ok
     THEN [oc |-> "ok", chains |-> ProductFold([k \in DOMAIN rs |-> rs[k].ids])]
     ELSE [oc |-> "Rejected", chains |-> <<>>]

(* ------------------------------------------------------------------ 4 grammar on tokens *)
WFItem(piece) ==
  \/ Len(piece) = 1 /\ IsId(piece[1])
  \/ Len(piece) = 3 /\ IsNumeral(piece[1]) /\ piece[2] = "-" /\ IsNumeral(piece[3])
WFBody(seg) == seg # <<>> /\ LET ps == SplitOn(seg, ",") IN \A k \in DOMAIN ps : WFItem(ps[k])
WellFormed(toks) ==
  \/ WFBody(toks)
  \/ LET segs == SplitOn(toks, ")") IN
       /\ Len(segs) >= 2 /\ segs[Len(segs)] = <<>>
       /\ \A k \in 1..(Len(segs) - 1) : segs[k] # <<>> /\ segs[k][1] = "(" /\ WFBody(Tail(segs[k]))
AscendingToks(toks) ==
  \A k \in 2..(Len(toks) - 1) :
     (toks[k] = "-" /\ IsNumeral(toks[k - 1]) /\ IsNumeral(toks[k + 1])) => NumOf(toks[k - 1]) <= NumOf(toks[k + 1])
\* the expressions whose meaning the documentation fixes
Strict(toks) == WellFormed(toks) /\ AscendingToks(toks)

\* the tree of a well-formed token sequence (inverse of RenderExpr)
ItemOf(piece) == IF Len(piece) = 1 THEN IdItem(piece[1]) ELSE RangeItem(NumOf(piece[1]), NumOf(piece[3]))
GroupOf(seg)  == LET ps == SplitOn(seg, ",") IN [k \in DOMAIN ps |-> ItemOf(ps[k])]
AstOf(toks)   == IF toks[1] = "("
                 THEN LET segs == SplitOn(toks, ")") IN
                      Expr(TRUE, [k \in 1..(Len(segs) - 1) |-> GroupOf(Tail(segs[k]))])
                 ELSE Expr(FALSE, <<GroupOf(toks)>>)
\* ids written in an expression
MentionedIds(e) == UNION {ToSet(GroupIds(e.groups[g])) : g \in DOMAIN e.groups}

(* ------------------------------------------------------------------ 5 operations *)
Vec3(x, y, z) == <<x, y, z>>
MatVec(M, x) == [i \in 1..3 |-> M[i][1] * x[1] + M[i][2] * x[2] + M[i][3] * x[3]]
VecAdd(a, b) == [i \in 1..3 |-> a[i] + b[i]]
MatMul(A, B) == [i \in 1..3 |-> [j \in 1..3 |-> A[i][1] * B[1][j] + A[i][2] * B[2][j] + A[i][3] * B[3][j]]]
IdMat == <<<<1, 0, 0>>, <<0, 1, 0>>, <<0, 0, 1>>>>
Op(id, R, t) == [id |-> id, R |-> R, t |-> t]
\* x' = matrix x + vector
ApplyOp(op, x) == VecAdd(MatVec(op.R, x), op.t)
\* second after first
ComposeOp(second, first) ==
  [id |-> "", R |-> MatMul(second.R, first.R), t |-> VecAdd(MatVec(second.R, first.t), second.t)]
IdentityOp == [id |-> "", R |-> IdMat, t |-> <<0, 0, 0>>]

\* _get_transformations: a dict id -> (matrix, vector) filled row by row: the last row of an id stays
KnownId(opers, id) == \E k \in DOMAIN opers : opers[k].id = id
Lookup(opers, id)  == opers[MaxOf({k \in DOMAIN opers : opers[k].id = id})]
\* _apply_transformations, inner loop: the steps of a chain one after the other
ApplyChain(opers, chain, x) ==
  FoldLeft(LAMBDA acc, id : ApplyOp(Lookup(opers, id), acc), x, chain)
\* the same as one affine map
ChainOp(opers, chain) ==
  FoldLeft(LAMBDA acc, id : ComposeOp(Lookup(opers, id), acc), IdentityOp, chain)
\* documented reading of a choice <<a1, ..., an>> written left to right: Op(a1) o ... o Op(an)
WrittenOp(opers, choice) ==
  FoldLeft(LAMBDA acc, id : ComposeOp(acc, Lookup(opers, id)), IdentityOp, choice)

(* ------------------------------------------------------------------ 6 repeat() *)
\* k copies of atoms 1..n: copy c holds the atoms in their order
RepeatAtoms(n, k) == [j \in 1..(n * k) |-> [src |-> ((j - 1) % n) + 1, copy |-> ((j - 1) \div n) + 1]]
\* bonds are pairs <<i, j>> of positions, i < j
RepeatBonds(bonds, n, k) == {<<(c - 1) * n + bd[1], (c - 1) * n + bd[2]>> : c \in 1..k, bd \in bonds}
\* repeat(atoms, coord) with coord[c][m][i]: -> positions per output atom, per model
Repeat(n, k, depth, coord, hasBonds, bonds) ==
  [oc |-> "ok",
   atoms |-> [j \in 1..(n * k) |->
                LET a == RepeatAtoms(n, k)[j] IN
                [src |-> a.src, pos |-> [m \in 1..depth |-> coord[a.copy][m][a.src]]]],
   hasBonds |-> hasBonds,
   bonds |-> IF hasBonds THEN RepeatBonds(bonds, n, k) ELSE {}]

(* ------------------------------------------------------------------ 7 the file *)
(* block = [atoms  : sequence of [asym, auth]            (label_asym_id, auth_asym_id; one row of
                                                          atom_site per atom and model)
            coord  : coord[m][i] = <<x, y, z>>            (model m, atom i)
            bonds  : set of <<i, j>>, i < j               (struct_conn, covalent)
            opers  : sequence of [id, R, t]               (pdbx_struct_oper_list)
            gens   : sequence of [aid, expr, asyms]       (pdbx_struct_assembly_gen; expr = tokens,
                                                          asyms = the comma-separated asym_id_list)
            asms   : sequence of [id, details]            (pdbx_struct_assembly)
            missing: set of category names that are absent]                                    *)
CatAsm  == "pdbx_struct_assembly"
CatGen  == "pdbx_struct_assembly_gen"
CatOper == "pdbx_struct_oper_list"
Cats    == {CatAsm, CatGen, CatOper}

NModels(b) == Len(b.coord)
NAtoms(b)  == Len(b.atoms)

Dom_Block(b) ==
  /\ NModels(b) >= 1 /\ \A m \in DOMAIN b.coord : Len(b.coord[m]) = NAtoms(b)
  /\ \A m \in DOMAIN b.coord : \A i \in DOMAIN b.coord[m] : \A d \in 1..3 : b.coord[m][i][d] \in -1000..1000
  /\ \A i \in DOMAIN b.atoms : b.atoms[i].asym # "" /\ b.atoms[i].auth # ""
  /\ \A bd \in b.bonds : bd[1] \in 1..NAtoms(b) /\ bd[2] \in 1..NAtoms(b) /\ bd[1] < bd[2]
  /\ Len(b.opers) >= 1 /\ Len(b.gens) >= 1 /\ Len(b.asms) >= 1
  /\ \A k \in DOMAIN b.opers : /\ IsId(b.opers[k].id) /\ b.opers[k].id # ""
                               /\ \A i, j \in 1..3 : b.opers[k].R[i][j] \in -1..1
                               /\ \A i \in 1..3 : b.opers[k].t[i] \in -50..50
  /\ \A g \in DOMAIN b.gens : Dom_Tokens(b.gens[g].expr) /\ b.gens[g].expr # <<>> /\ Len(b.gens[g].asyms) >= 1
  /\ b.missing \subseteq Cats
\* |coordinate| <= 1000, |matrix entry| <= 1, |vector entry| <= 50 and at most 4 groups per expression keep
\* every computed coordinate below 3^4 * 1000 + ... < 2^24: exact in float32
Dom_ChainLength(b) == \A g \in DOMAIN b.gens : Cardinality({k \in DOMAIN b.gens[g].expr : b.gens[g].expr[k] = "("}) <= 4

\* model = None -> all models (a stack); model = k > 0 -> model k; k < 0 -> counted from the last
ResolveModels(nm, modelOpt) ==
  IF modelOpt = <<>> THEN [ok |-> TRUE, models |-> [m \in 1..nm |-> m], stack |-> TRUE]
  ELSE LET m == modelOpt[1]
           r == IF m > 0 THEN m ELSE IF m < 0 THEN nm + m + 1 ELSE 0
       IN IF r >= 1 /\ r <= nm THEN [ok |-> TRUE, models |-> <<r>>, stack |-> FALSE]
          ELSE [ok |-> FALSE, models |-> <<>>, stack |-> FALSE]

\* atoms whose label_asym_id is listed, in the order of the file
Selected(b, asyms) == SelectSeq([i \in 1..NAtoms(b) |-> i], LAMBDA i : b.atoms[i].asym \in ToSet(asyms))
RankIn(sel, i) == CHOOSE r \in DOMAIN sel : sel[r] = i

\* one row of pdbx_struct_assembly_gen: the selected atoms once per chain
RowAtoms(b, sel, chains, models, useAuthor, keepAsym) ==
  LET n == Len(sel) IN
  [j \in 1..(Len(chains) * n) |->
     LET a == RepeatAtoms(n, Len(chains))[j]
         i == sel[a.src] IN
     [src |-> i, sym |-> a.copy - 1,
      chain |-> IF useAuthor THEN b.atoms[i].auth ELSE b.atoms[i].asym,
      asym |-> IF keepAsym THEN b.atoms[i].asym ELSE "",       \* the label_asym_id annotation, if kept
      pos |-> [q \in DOMAIN models |-> ApplyChain(b.opers, chains[a.copy], b.coord[models[q]][i])]]]
RowBonds(b, sel, nchains) ==
  LET inside == {bd \in b.bonds : bd[1] \in ToSet(sel) /\ bd[2] \in ToSet(sel)} IN
  RepeatBonds({<<RankIn(sel, bd[1]), RankIn(sel, bd[2])>> : bd \in inside}, Len(sel), nchains)

NoResult == [oc |-> "Rejected", stack |-> FALSE, depth |-> 0, atoms |-> <<>>, hasAsym |-> FALSE,
             hasBonds |-> FALSE, bonds |-> {}, map |-> {}]

\* call = [aid, model : <<>> or <<v>>; keepAsym, useAuthor, bonds : BOOLEAN]
\*   keepAsym = "label_asym_id" is among extra_fields
GetAssembly(b, call) ==
  IF CatGen \in b.missing \/ CatOper \in b.missing THEN NoResult
  ELSE
  LET aid   == IF call.aid = <<>> THEN b.gens[1].aid ELSE call.aid[1]
      rows  == SelectSeq(b.gens, LAMBDA g : g.aid = aid)
      mods  == ResolveModels(NModels(b), call.model)
      prs   == [r \in DOMAIN rows |-> CodeParse(rows[r].expr)]
      known == \A r \in DOMAIN rows : \A c \in DOMAIN prs[r].chains : \A s \in DOMAIN prs[r].chains[c] :
                   KnownId(b.opers, prs[r].chains[c][s])
  IN IF rows = <<>> \/ ~mods.ok \/ (\E r \in DOMAIN rows : prs[r].oc # "ok") \/ ~known THEN NoResult
     ELSE LET sels  == [r \in DOMAIN rows |-> Selected(b, rows[r].asyms)]
              parts == [r \in DOMAIN rows |-> RowAtoms(b, sels[r], prs[r].chains, mods.models, call.useAuthor, call.keepAsym)]
              offs  == [r \in DOMAIN rows |-> SumSeq([q \in 1..(r - 1) |-> Len(parts[q])])]
          IN [oc |-> "ok", stack |-> mods.stack, depth |-> Len(mods.models),
              atoms |-> FlattenSeq(parts), hasAsym |-> call.keepAsym, hasBonds |-> call.bonds,
              bonds |-> IF call.bonds
                        THEN UNION {{<<offs[r] + bd[1], offs[r] + bd[2]>> : bd \in RowBonds(b, sels[r], Len(prs[r].chains))}
                                    : r \in DOMAIN rows}
                        ELSE {},
              map |-> {}]
\* the rows the call reads are all in the documented form; otherwise a refusal is acceptable too
StrictCall(b, call) ==
  (CatGen \in b.missing \/ b.gens = <<>>) \/
  LET aid == IF call.aid = <<>> THEN b.gens[1].aid ELSE call.aid[1] IN
  \A g \in DOMAIN b.gens : b.gens[g].aid = aid => Strict(b.gens[g].expr)

\* declarative statement of an accepted assembly (used by the laws of S1): per row and per choice of
\* one id from every group, every selected atom appears once, moved by the composite map
DeclRowPositions(b, row, e, model) ==
  LET sel == Selected(b, row.asyms)  cs == Chains(e) IN
  [c \in DOMAIN cs |-> [r \in DOMAIN sel |->
      ApplyOp(WrittenOp(b.opers, Reverse(cs[c])), b.coord[model][sel[r]])]]

\* list_assemblies: dict id -> details (a later row of the same id replaces the details)
ListAssemblies(b) ==
  IF CatAsm \in b.missing THEN NoResult
  ELSE [NoResult EXCEPT !.oc = "ok",
          !.map = {<<b.asms[k].id, b.asms[k].details>> : k \in {k \in DOMAIN b.asms :
                       \A k2 \in DOMAIN b.asms : b.asms[k2].id = b.asms[k].id => k2 <= k}}]

(* ------------------------------------------------------------------ 8 the file as an object *)
(* calls, as tuples with the name first:
     <<"get", aid, model, keepAsym, useAuthor, bonds>>   get_assembly(file, ...)
     <<"list">>                                           list_assemblies(file)
     <<"set_expr", row, toks>>    oper_expression of one row replaced
     <<"set_asyms", row, asyms>>  asym_id_list of one row replaced
     <<"set_aid", row, aid>>      assembly_id of one row replaced
     <<"add_row", aid, toks, asyms>> / <<"del_row", row>>
     <<"set_oper", k, op>>        row k of pdbx_struct_oper_list replaced (id, matrix, vector)
     <<"drop", cat>> / <<"restore", cat>>   category deleted from / put back into the block
     <<"spoil">>                  the object returned by the last call is overwritten in place
   Only "get" and "list" return something; no call but the edits changes the file.            *)
IsQuery(c) == c[1] \in {"get", "list"}
CallOf(c) == [aid |-> c[2], model |-> c[3], keepAsym |-> c[4], useAuthor |-> c[5], bonds |-> c[6]]
Expected(b, c) == IF c[1] = "get" THEN GetAssembly(b, CallOf(c)) ELSE ListAssemblies(b)
StrictQuery(b, c) == c[1] = "list" \/ StrictCall(b, CallOf(c))
Enabled(b, c) ==
  \* the rows of a category can be edited while the category is in the file
  CASE c[1] \in {"set_expr", "set_asyms", "set_aid"} -> CatGen \notin b.missing /\ c[2] \in DOMAIN b.gens
    [] c[1] = "add_row"  -> CatGen \notin b.missing
    [] c[1] = "del_row"  -> CatGen \notin b.missing /\ c[2] \in DOMAIN b.gens /\ Len(b.gens) >= 2
    [] c[1] = "set_oper" -> CatOper \notin b.missing /\ c[2] \in DOMAIN b.opers
    [] c[1] = "drop"     -> c[2] \in Cats \ b.missing
    [] c[1] = "restore"  -> c[2] \in b.missing
    [] OTHER -> TRUE
Edit(b, c) ==
  CASE c[1] = "set_expr"  -> [b EXCEPT !.gens[c[2]].expr = c[3]]
    [] c[1] = "set_asyms" -> [b EXCEPT !.gens[c[2]].asyms = c[3]]
    [] c[1] = "set_aid"   -> [b EXCEPT !.gens[c[2]].aid = c[3]]
    [] c[1] = "add_row"   -> [b EXCEPT !.gens = Append(@, [aid |-> c[2], expr |-> c[3], asyms |-> c[4]])]
    [] c[1] = "del_row"   -> [b EXCEPT !.gens = SubSeq(@, 1, c[2] - 1) \o SubSeq(@, c[2] + 1, Len(@))]
    [] c[1] = "set_oper"  -> [b EXCEPT !.opers[c[2]] = c[3]]
    [] c[1] = "drop"      -> [b EXCEPT !.missing = @ \cup {c[2]}]
    [] c[1] = "restore"   -> [b EXCEPT !.missing = @ \ {c[2]}]
    [] OTHER -> b                                   \* get, list, spoil: the file stays as it is
=============================================================================
