SPECIFICATION Spec
CONSTANTS
  Alphabet = {"(", ")", ",", "-", "1", "3", "X0"}
  MaxLen = 6
INVARIANT L_GrammarAccepted
INVARIANT L_StrictNonEmpty
INVARIANT L_RejectedIsMalformed
CHECK_DEADLOCK FALSE
