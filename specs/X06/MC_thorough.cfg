SPECIFICATION Spec
CONSTANTS
  NModelsSet = {3}
  Tables = {1, 2}
  FirstExprs = {1, 2, 3, 4, 5, 6, 7, 8, 9, 10}
  SecondExprs = {2, 3, 6}
  ModelArgs = {0, 1, 3, 4, 99, 98, 97}
  FlagSets = {1, 2, 3}
INVARIANT L_Dom
INVARIANT L_Refusals
INVARIANT L_Copies
INVARIANT L_Listed
INVARIANT L_Positions
INVARIANT L_Annotations
INVARIANT L_Bonds
INVARIANT L_List
CHECK_DEADLOCK FALSE
