------------------------------- MODULE Trace -------------------------------
(* X06 code -> spec: calls recorded from the real API, re-computed with the operators of Assembly.
   A trace is the history of one file object; the variable blk is the file as the specification
   knows it.  Events (field op):

   "open"      block = the file as built by the driver (atoms, coord, bonds, opers, gens, asms, missing)
   "get"       aid, model ([] or [v]), keepAsym, useAuthor, bonds; obs = projection of what
               get_assembly returned (oc, stack, depth, atoms = [src, sym, chain, asym, pos], hasAsym,
               hasBonds, bonds); after = gens / opers / asms / missing read back from the file after the call
   "list"      obs = [oc, map = [[id, details], ...]]; after
   "set_expr", "set_asyms", "set_aid", "add_row", "del_row", "set_oper", "drop", "restore"
               edits of the file (fields as in Assembly!Edit)
   "spoil"     the object returned last was overwritten in place
   "parse"     toks, ast ([] or [tree]); obs = [oc, chains]     _parse_operation_expression(string)
   "repeat"    n, k, depth, stack, hasBonds, bonds, coord[c][m][i]; obs = [oc, atoms = [src, pos], hasBonds, bonds]
               biotite.structure.repeat(atoms, coord) as get_assembly uses it

   PrintT(<<"MISMATCH", tid, l, flags, expected>>) for disagreements,
   PrintT(<<"DIAG", tid, l, what>>) for observations without verdict. *)
EXTENDS Assembly, Json, IOUtils

Tr == JsonDeserialize(IOEnv.TRACE_FILE)

VARIABLES tid, l, blk
tvars == <<tid, l, blk>>

NoFile == [atoms |-> <<>>, coord |-> <<>>, bonds |-> {}, opers |-> <<>>, gens |-> <<>>, asms |-> <<>>, missing |-> {}]
PairSet(list) == {<<list[k][1], list[k][2]>> : k \in DOMAIN list}
BlockOf(j) == [atoms |-> j.atoms, coord |-> j.coord, bonds |-> PairSet(j.bonds), opers |-> j.opers,
               gens |-> j.gens, asms |-> j.asms, missing |-> ToSet(j.missing)]
AllTrue(flags) == \A q \in DOMAIN flags : flags[q]
Bind(v, F(_)) == CHOOSE r \in {F(x) : x \in {v}} : TRUE

\* the file read back after a query is the file before it
SameFile(after, b) ==
  /\ ToSet(after.missing) = b.missing
  /\ (CatGen \notin b.missing => after.gens = b.gens)
  /\ (CatOper \notin b.missing => after.opers = b.opers)
  /\ (CatAsm \notin b.missing => after.asms = b.asms)

GetFlags(o, exp, strict, inDom, after) ==
  LET both == o.oc = "ok" /\ exp.oc = "ok"
      same == both /\ Len(o.atoms) = Len(exp.atoms) IN
  << inDom,
     o.oc = exp.oc \/ (~strict /\ o.oc = "Rejected"),                       \* outcome
     both => (o.stack = exp.stack /\ o.depth = exp.depth /\ Len(o.atoms) = Len(exp.atoms)),
     same => \A j \in DOMAIN exp.atoms : o.atoms[j].src = exp.atoms[j].src /\ o.atoms[j].sym = exp.atoms[j].sym,
     same => (o.hasAsym = exp.hasAsym /\
              \A j \in DOMAIN exp.atoms : o.atoms[j].chain = exp.atoms[j].chain /\ o.atoms[j].asym = exp.atoms[j].asym),
     same => \A j \in DOMAIN exp.atoms : \A q \in 1..exp.depth : o.atoms[j].pos[q] = exp.atoms[j].pos[q],
     both => (o.hasBonds = exp.hasBonds /\ PairSet(o.bonds) = exp.bonds),
     SameFile(after, blk) >>
JudgeGet(e) ==
  \E call \in {[aid |-> e.aid, model |-> e.model, keepAsym |-> e.keepAsym, useAuthor |-> e.useAuthor, bonds |-> e.bonds]} :
  \E inDom \in {Dom_Block(blk) /\ Dom_ChainLength(blk)} :
  \E exp \in {IF inDom THEN GetAssembly(blk, call) ELSE NoResult} :
  \E strict \in {inDom /\ StrictCall(blk, call)} :
  \E f \in {GetFlags(e.obs, exp, strict, inDom, e.after)} :
    /\ IF ~strict /\ e.obs.oc = "ok" THEN PrintT(<<"DIAG", tid, l + 1, "lenient-get">>) ELSE TRUE
    /\ IF AllTrue(f) THEN TRUE
       ELSE PrintT(<<"MISMATCH", tid, l + 1, f, [oc |-> exp.oc, strict |-> strict, natoms |-> Len(exp.atoms),
                     atoms |-> [j \in DOMAIN exp.atoms |-> <<exp.atoms[j].src, exp.atoms[j].sym, exp.atoms[j].pos>>],
                     bonds |-> exp.bonds]>>)

JudgeList(e) ==
  \E exp \in {ListAssemblies(blk)} :
  \E f \in {<< e.obs.oc = exp.oc, exp.oc = "ok" => PairSet(e.obs.map) = exp.map, SameFile(e.after, blk) >>} :
    IF AllTrue(f) THEN TRUE ELSE PrintT(<<"MISMATCH", tid, l + 1, f, [oc |-> exp.oc, map |-> exp.map]>>)

\* an expression string on its own
JudgeParse(e) ==
  \E dom \in {Dom_Tokens(e.toks)} : \E wf \in {WellFormed(e.toks)} :
  \E strict \in {wf /\ AscendingToks(e.toks)} :
  \E exp \in {IF wf THEN [oc |-> "ok", chains |-> Chains(AstOf(e.toks))] ELSE CodeParse(e.toks)} :
  \E f \in {<< dom,
               e.ast = <<>> \/ (wf /\ Dom_Expr(e.ast[1]) /\ RenderExpr(e.ast[1]) = e.toks /\ AstOf(e.toks) = e.ast[1]),
               e.obs.oc = exp.oc \/ (~strict /\ e.obs.oc = "Rejected"),
               (e.obs.oc = "ok" /\ exp.oc = "ok") => e.obs.chains = exp.chains >>} :
    /\ IF ~wf /\ e.obs.oc = "ok" THEN PrintT(<<"DIAG", tid, l + 1, "lenient-parse">>) ELSE TRUE
    /\ IF AllTrue(f) THEN TRUE ELSE PrintT(<<"MISMATCH", tid, l + 1, f, [wf |-> wf, strict |-> strict, exp |-> exp]>>)

JudgeRepeat(e) ==
  \E dom \in {/\ e.n >= 0 /\ e.k >= 0 /\ e.depth >= 1 /\ Len(e.coord) = e.k
              /\ \A c \in DOMAIN e.coord : Len(e.coord[c]) = e.depth /\ \A m \in 1..e.depth : Len(e.coord[c][m]) = e.n
              /\ \A bd \in PairSet(e.bonds) : bd[1] \in 1..e.n /\ bd[2] \in 1..e.n /\ bd[1] < bd[2]} :
  \E exp \in {IF dom THEN Repeat(e.n, e.k, e.depth, e.coord, e.hasBonds, PairSet(e.bonds)) ELSE [oc |-> "ok", atoms |-> <<>>, hasBonds |-> FALSE, bonds |-> {}]} :
  \E same \in {e.obs.oc = "ok" /\ Len(e.obs.atoms) = Len(exp.atoms)} :
  \E f \in {<< dom,
               e.obs.oc = "ok",
               e.obs.oc = "ok" => Len(e.obs.atoms) = e.n * e.k,
               same => \A j \in DOMAIN exp.atoms : e.obs.atoms[j].src = exp.atoms[j].src,
               same => \A j \in DOMAIN exp.atoms : \A m \in 1..e.depth : e.obs.atoms[j].pos[m] = exp.atoms[j].pos[m],
               e.obs.oc = "ok" => (e.obs.hasBonds = exp.hasBonds /\ PairSet(e.obs.bonds) = exp.bonds) >>} :
    IF AllTrue(f) THEN TRUE ELSE PrintT(<<"MISMATCH", tid, l + 1, f, [natoms |-> e.n * e.k, bonds |-> exp.bonds]>>)

EditCall(e) ==
  CASE e.op = "set_expr"  -> <<"set_expr", e.row, e.expr>>
    [] e.op = "set_asyms" -> <<"set_asyms", e.row, e.asyms>>
    [] e.op = "set_aid"   -> <<"set_aid", e.row, e.aid>>
    [] e.op = "add_row"   -> <<"add_row", e.aid, e.expr, e.asyms>>
    [] e.op = "del_row"   -> <<"del_row", e.row>>
    [] e.op = "set_oper"  -> <<"set_oper", e.k, e.oper>>
    [] e.op = "drop"      -> <<"drop", e.cat>>
    [] e.op = "restore"   -> <<"restore", e.cat>>
IsEdit(e) == e.op \in {"set_expr", "set_asyms", "set_aid", "add_row", "del_row", "set_oper", "drop", "restore"}

Step(e) ==
  CASE e.op = "open"   -> blk' = BlockOf(e.block)
    [] e.op = "get"    -> JudgeGet(e) /\ UNCHANGED blk
    [] e.op = "list"   -> JudgeList(e) /\ UNCHANGED blk
    [] e.op = "parse"  -> JudgeParse(e) /\ UNCHANGED blk
    [] e.op = "repeat" -> JudgeRepeat(e) /\ UNCHANGED blk
    [] e.op = "spoil"  -> UNCHANGED blk
    [] IsEdit(e)       -> /\ IF Enabled(blk, EditCall(e)) THEN TRUE
                             ELSE PrintT(<<"MISMATCH", tid, l + 1, <<FALSE>>, [edit |-> "not enabled"]>>)
                          /\ blk' = IF Enabled(blk, EditCall(e)) THEN Edit(blk, EditCall(e)) ELSE blk

Init == tid \in 1..Len(Tr) /\ l = 0 /\ blk = NoFile
Next == /\ l < Len(Tr[tid])
        /\ Step(Tr[tid][l + 1])
        /\ l' = l + 1
        /\ UNCHANGED tid
Spec == Init /\ [][Next]_tvars
=============================================================================
