SPECIFICATION Spec
CONSTANTS
  Depth = 4
  Rich = TRUE
INVARIANT L_Dom
INVARIANT L_Answer
CHECK_DEADLOCK FALSE
