SPECIFICATION Spec
CONSTANTS
  NModelsSet = {2}
  Tables = {2}
  FirstExprs = {1, 2, 3, 4, 5, 6, 7, 8, 9, 10}
  SecondExprs = {3, 6}
  ModelArgs = {0, 1, 99, 3}
  FlagSets = {1, 2}
INVARIANT L_Dom
INVARIANT L_Refusals
INVARIANT L_Copies
INVARIANT L_Listed
INVARIANT L_Positions
INVARIANT L_Annotations
INVARIANT L_Bonds
INVARIANT L_List
CHECK_DEADLOCK FALSE
