--------------------------------- MODULE MC ---------------------------------
(* X06 S1/S2 for get_assembly / list_assemblies: Init enumerates files (block) of a small family
   and calls; one step computes what the call must return; the invariants relate the procedure
   (rows in file order, chains step by step) to the declarative statement (one copy of exactly
   the listed atoms per combination of ids, moved by the composite of the written operations). *)
EXTENDS Assembly
CONSTANTS NModelsSet,    \* numbers of models
          Tables,        \* which operation tables (1 = distinct ids, 2 = an id given twice)
          FirstExprs, SecondExprs,   \* indices into ExprChoices for the first / second row
          ModelArgs,     \* values of the model parameter (0 stands for None)
          FlagSets       \* indices into FlagChoices
VARIABLES par, call, res, phase      \* par = the parameters of the file: [nm, tab, gens, missing]
vars == <<par, call, res, phase>>

\* ------------------------------------------------------------------ the family of files
Atoms4 == <<[asym |-> "A", auth |-> "X"], [asym |-> "B", auth |-> "Y"],
            [asym |-> "A", auth |-> "X"], [asym |-> "C", auth |-> "Z"]>>
Pos(i, m) == <<i + 10 * (m - 1), 2 * i + 1, 2 - 3 * i + (m - 1)>>
CoordOf(nm) == [m \in 1..nm |-> [i \in 1..4 |-> Pos(i, m)]]
Bonds4 == {<<1, 3>>, <<1, 2>>, <<3, 4>>}

RotZ    == <<<<0, -1, 0>>, <<1, 0, 0>>, <<0, 0, 1>>>>          \* (x, y, z) -> (-y, x, z)
Cyc     == <<<<0, 0, 1>>, <<1, 0, 0>>, <<0, -1, 0>>>>          \* (x, y, z) -> (z, x, -y)
MirrorX == <<<<-1, 0, 0>>, <<0, 1, 0>>, <<0, 0, 1>>>>
Table(k) ==
  IF k = 1
  THEN <<Op("1", IdMat, <<0, 0, 0>>), Op("2", RotZ, <<0, 0, 0>>), Op("3", IdMat, <<5, 0, -2>>), Op("X0", Cyc, <<0, 1, 0>>)>>
  ELSE <<Op("1", IdMat, <<0, 0, 0>>), Op("2", MirrorX, <<1, 1, 1>>), Op("3", IdMat, <<5, 0, -2>>),
         Op("X0", Cyc, <<0, 1, 0>>), Op("2", RotZ, <<0, 0, 3>>)>>

ExprChoices ==
  << <<"1">>,                                                     \* 1
     <<"(", "1", ",", "2", ")">>,                                 \* 2
     <<"(", "2", ")", "(", "3", ",", "X0", ")">>,                 \* 3  product, order of application matters
     <<"(", "1", "-", "3", ")">>,                                 \* 4
     <<"(", "1", ",", "7", ")">>,                                 \* 5  id 7 is not in the table
     <<"(", "3", "-", "2", ")">>,                                 \* 6  descending range (outside the documented form)
     <<"(", "1", "-">>,                                           \* 7  malformed
     <<"(", "X0", ")", "(", "2", ")", "(", "3", ")">>,            \* 8  three steps
     <<"2", ")", "(", "3">>,                                      \* 9  malformed, read by the code as (2)(3)
     <<"X0", ",", "2", "-", "3">> >>                              \* 10 bare list with a range
AsymChoices == << <<"A">>, <<"B", "A">>, <<"C", "Q">>, <<"Q">> >>
FlagChoices == << [keepAsym |-> FALSE, useAuthor |-> TRUE,  bonds |-> FALSE],     \* the defaults
                  [keepAsym |-> TRUE,  useAuthor |-> FALSE, bonds |-> TRUE],
                  [keepAsym |-> FALSE, useAuthor |-> TRUE,  bonds |-> TRUE] >>
Asms == <<[id |-> "1", details |-> "first"], [id |-> "2", details |-> "second"], [id |-> "1", details |-> "again"]>>

Row(aid, e, a) == [aid |-> aid, expr |-> ExprChoices[e], asyms |-> AsymChoices[a]]
Block(nm, tab, gens, missing) ==
  [atoms |-> Atoms4, coord |-> CoordOf(nm), bonds |-> Bonds4, opers |-> Table(tab), gens |-> gens,
   asms |-> Asms, missing |-> missing]
CallRec(aid, m, f) ==
  [aid |-> aid, model |-> IF m = 0 THEN <<>> ELSE <<m>>, keepAsym |-> FlagChoices[f].keepAsym,
   useAuthor |-> FlagChoices[f].useAuthor, bonds |-> FlagChoices[f].bonds]
AidArgs == {<<>>, <<"1">>, <<"2">>, <<"9">>}
\* cfg files hold no negative numbers: 99, 98, 97 stand for -1, -3, -4
ModelVals == {IF m >= 97 THEN (IF m = 99 THEN -1 ELSE IF m = 98 THEN -3 ELSE -4) ELSE m : m \in ModelArgs}

Par(nm, tab, gens, missing) == [nm |-> nm, tab |-> tab, gens |-> gens, missing |-> missing]
blk == Block(par.nm, par.tab, par.gens, par.missing)
\* the parts of the file that the parameters select, for the driver that builds the real object
ASSUME PrintT(<<"CONSTFILE", [atoms |-> Atoms4, bonds |-> Bonds4, asms |-> Asms,
                              coord |-> [nm \in 1..3 |-> CoordOf(nm)], tables |-> [k \in 1..2 |-> Table(k)]]>>)

Init ==
  /\ phase = 0 /\ res = <<>>
  /\ \E aid \in AidArgs, m \in ModelVals, f \in FlagSets : call = CallRec(aid, m, f)
  /\ \/ \E nm \in NModelsSet, tab \in Tables, e1 \in FirstExprs, a1 \in DOMAIN AsymChoices :
          \/ par = Par(nm, tab, <<Row("1", e1, a1)>>, {})
          \/ \E id2 \in {"1", "2"}, e2 \in SecondExprs, a2 \in {2, 3} :
                par = Par(nm, tab, <<Row("1", e1, a1), Row(id2, e2, a2)>>, {})
     \* absent categories
     \/ \E miss \in (SUBSET Cats) \ {{}} : par = Par(2, 1, <<Row("1", 2, 2), Row("2", 1, 1)>>, miss)
\* "get" is res.get, "list" is res.list: both calls on every file
Results(b, c) == [get |-> GetAssembly(b, c), strict |-> StrictCall(b, c), list |-> ListAssemblies(b)]
Next == phase = 0 /\ phase' = 1 /\ res' = Results(blk, call) /\ UNCHANGED <<par, call>>
Spec == Init /\ [][Next]_vars

\* ------------------------------------------------------------------ laws
G == res.get
Aid == IF call.aid = <<>> THEN blk.gens[1].aid ELSE call.aid[1]
Rows == SelectSeq(blk.gens, LAMBDA g : g.aid = Aid)
Done == phase = 1
Accepted == Done /\ G.oc = "ok"
Mods == ResolveModels(NModels(blk), call.model)

L_Dom == Done => Dom_Block(blk) /\ Dom_ChainLength(blk)
\* refusals of a call in the documented form: exactly the documented reasons
L_Refusals ==
  (Done /\ res.strict) =>
     (G.oc = "Rejected" <=>
        \/ CatGen \in blk.missing \/ CatOper \in blk.missing
        \/ Rows = <<>>                                              \* no such assembly id
        \/ ~Mods.ok                                                 \* no such model
        \/ \E r \in DOMAIN Rows : \E id \in MentionedIds(AstOf(Rows[r].expr)) : ~KnownId(blk.opers, id))
\* the atoms: rows in file order; per row the chains in order; per chain the listed atoms in file order
L_Copies ==
  (Accepted /\ res.strict) =>
     LET per == [r \in DOMAIN Rows |->
                   LET e == AstOf(Rows[r].expr)  sel == Selected(blk, Rows[r].asyms) IN
                   FlattenSeq([c \in DOMAIN Chains(e) |-> [s \in DOMAIN sel |-> <<sel[s], c - 1>>]])]
     IN [j \in DOMAIN G.atoms |-> <<G.atoms[j].src, G.atoms[j].sym>>] = FlattenSeq(per)
\* ... where "the listed atoms" are exactly the atoms whose label_asym_id is one of the listed ids, in file order
L_Listed ==
  Done => \A g \in DOMAIN blk.gens :
     LET sel == Selected(blk, blk.gens[g].asyms) IN
     /\ ToSet(sel) = {i \in 1..NAtoms(blk) : \E k \in DOMAIN blk.gens[g].asyms : blk.gens[g].asyms[k] = blk.atoms[i].asym}
     /\ \A p, q \in DOMAIN sel : p < q => sel[p] < sel[q]
\* positions: the composite of the written operations (right to left) moves every model alike
L_Positions ==
  (Accepted /\ res.strict) =>
     LET per == [r \in DOMAIN Rows |->
                   [q \in DOMAIN Mods.models |->
                      FlattenSeq(DeclRowPositions(blk, Rows[r], AstOf(Rows[r].expr), Mods.models[q]))]]
     IN \A q \in DOMAIN Mods.models :
          [j \in DOMAIN G.atoms |-> G.atoms[j].pos[q]] = FlattenSeq([r \in DOMAIN Rows |-> per[r][q]])
\* every atom is an atom of a listed asym id, annotated like its source
L_Annotations ==
  Accepted =>
     /\ G.stack = (call.model = <<>>) /\ G.depth = (IF G.stack THEN NModels(blk) ELSE 1)
     /\ G.hasAsym = call.keepAsym /\ G.hasBonds = call.bonds
     /\ \A j \in DOMAIN G.atoms :
          LET a == G.atoms[j]  s == blk.atoms[a.src] IN
          /\ \E r \in DOMAIN Rows : s.asym \in ToSet(Rows[r].asyms)
          /\ a.chain = (IF call.useAuthor THEN s.auth ELSE s.asym)
          /\ a.asym = (IF call.keepAsym THEN s.asym ELSE "")
\* bonds: a bond joins two atoms of one copy and is a bond of the file between their sources
L_Bonds ==
  (Accepted /\ call.bonds) =>
     /\ \A bd \in G.bonds :
          LET a == G.atoms[bd[1]]  c == G.atoms[bd[2]] IN
          /\ bd[1] < bd[2] /\ a.sym = c.sym
          /\ <<a.src, c.src>> \in blk.bonds
     \* ... and every bond of the file between two listed atoms appears once per copy
     /\ Cardinality(G.bonds) =
          SumSeq([r \in DOMAIN Rows |->
                    LET sel == ToSet(Selected(blk, Rows[r].asyms)) IN
                    Len(CodeParse(Rows[r].expr).chains) * Cardinality({bd \in blk.bonds : bd[1] \in sel /\ bd[2] \in sel})])
\* list_assemblies
L_List ==
  Done => IF CatAsm \in blk.missing THEN res.list.oc = "Rejected"
          ELSE /\ res.list.oc = "ok"
               /\ {p[1] : p \in res.list.map} = {blk.asms[k].id : k \in DOMAIN blk.asms}
               /\ \A p, q \in res.list.map : p[1] = q[1] => p = q
\* the chain applied step by step is one affine map (for every chain of the table up to three steps)
ASSUME \A tab \in {1, 2} : \A ch \in UNION {[1..n -> {"1", "2", "3", "X0"}] : n \in 0..3} :
         \A x \in {<<1, 3, -1>>, <<-2, 0, 7>>} :
            /\ ApplyChain(Table(tab), ch, x) = ApplyOp(ChainOp(Table(tab), ch), x)
            /\ ChainOp(Table(tab), ch).R = WrittenOp(Table(tab), Reverse(ch)).R
            /\ ChainOp(Table(tab), ch).t = WrittenOp(Table(tab), Reverse(ch)).t
\* the order of application matters in this family (otherwise the laws could not tell the orders apart)
ASSUME ApplyChain(Table(1), <<"2", "3">>, <<1, 3, -1>>) # ApplyChain(Table(1), <<"3", "2">>, <<1, 3, -1>>)
\* the model parameter (docstring): numbers start at 1, negative values count from the last model, None = all
ASSUME /\ ResolveModels(3, <<1>>).models = <<1>> /\ ResolveModels(3, <<-1>>).models = <<3>>
       /\ ResolveModels(3, <<-3>>).models = <<1>> /\ ~ResolveModels(3, <<-4>>).ok /\ ~ResolveModels(3, <<0>>).ok
       /\ ~ResolveModels(2, <<3>>).ok /\ ResolveModels(2, <<>>).models = <<1, 2>> /\ ResolveModels(2, <<>>).stack
       /\ ~ResolveModels(2, <<2>>).stack
\* an id given twice: the later row counts
ASSUME Lookup(Table(2), "2").R = RotZ /\ Lookup(Table(2), "2").t = <<0, 0, 3>>
=============================================================================
