SPECIFICATION Spec
CONSTANTS
  Depth = 3
  Rich = FALSE
INVARIANT L_Dom
INVARIANT L_Answer
CHECK_DEADLOCK FALSE
