------------------------------ MODULE MCRepeat ------------------------------
(* X06 S1/S2 for biotite.structure.repeat(atoms, coord) as _apply_transformations uses it: k sets
   of coordinates give k copies of the n atoms (k = 0: none), bonds repeated inside every copy. *)
EXTENDS Assembly
CONSTANTS MaxN, MaxK
VARIABLES inp, res, phase
vars == <<inp, res, phase>>

\* coordinates that tell copy, model and atom apart
CoordOf(n, k, depth) == [c \in 1..k |-> [m \in 1..depth |-> [i \in 1..n |-> <<100 * c + 10 * m + i, -i, c - m>>]]]
BondSets(n) == {{}} \cup (IF n >= 2 THEN {{<<1, 2>>}} ELSE {}) \cup (IF n >= 3 THEN {{<<1, 3>>, <<2, 3>>}} ELSE {})
Init == /\ phase = 0 /\ res = <<>>
        /\ \E n \in 0..MaxN, k \in 0..MaxK, depth \in 1..2, stack \in BOOLEAN, hasBonds \in BOOLEAN :
           \E bonds \in BondSets(n) :
             /\ (~stack => depth = 1)
             /\ (~hasBonds => bonds = {})
             /\ inp = [n |-> n, k |-> k, depth |-> depth, stack |-> stack, hasBonds |-> hasBonds, bonds |-> bonds,
                       coord |-> CoordOf(n, k, depth)]
Next == /\ phase = 0 /\ phase' = 1 /\ UNCHANGED inp
        /\ res' = Repeat(inp.n, inp.k, inp.depth, inp.coord, inp.hasBonds, inp.bonds)
Spec == Init /\ [][Next]_vars

\* every atom once per copy, copies one after the other, each at the coordinates given for it
L_Copies == phase = 1 =>
  /\ Len(res.atoms) = inp.n * inp.k
  /\ \A c \in 1..inp.k : \A i \in 1..inp.n :
        LET a == res.atoms[(c - 1) * inp.n + i] IN
        a.src = i /\ \A m \in 1..inp.depth : a.pos[m] = inp.coord[c][m][i]
\* bonds stay inside a copy and are the bonds of the source
L_Bonds == phase = 1 =>
  /\ Cardinality(res.bonds) = inp.k * Cardinality(inp.bonds)
  /\ \A bd \in res.bonds : /\ (bd[1] - 1) \div inp.n = (bd[2] - 1) \div inp.n
                           /\ <<res.atoms[bd[1]].src, res.atoms[bd[2]].src>> \in inp.bonds
=============================================================================
