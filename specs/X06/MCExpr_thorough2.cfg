SPECIFICATION Spec
CONSTANTS
  Ids = {"1", "X0"}
  RangeLo = {1, 3}
  RangeHi = {2}
  MaxItems = 2
  MaxGroups = 3
  MaxProduct = 100
INVARIANT L_Dom
INVARIANT L_ParseIsDecl
INVARIANT L_ProductFold
INVARIANT L_Grammar
INVARIANT L_Count
INVARIANT L_Order
CHECK_DEADLOCK FALSE
