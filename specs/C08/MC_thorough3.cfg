SPECIFICATION Spec
CONSTANTS
  MaxLen = 3
  K = 3
  MatIds = {"ident", "asym"}
  GapSet <- GapsFull
INVARIANT InvScoreIsOptimum
INVARIANT InvTracesOptimal
INVARIANT InvGlobalComplete
INVARIANT InvLocalMinimal
INVARIANT InvModeOrder
CHECK_DEADLOCK FALSE
