SPECIFICATION Spec
CONSTANTS
  MaxLen = 3
  K = 3
  MatIds = {"ident", "asym"}
  GapSet <- GapsMid
INVARIANT InvScoreIsOptimum
INVARIANT InvTracesOptimal
INVARIANT InvGlobalComplete
INVARIANT InvLocalMinimal
INVARIANT InvModeOrder
INVARIANT InvFormsDenote
CHECK_DEADLOCK FALSE
