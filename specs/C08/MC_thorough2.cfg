SPECIFICATION Spec
CONSTANTS
  MaxLen = 3
  K = 2
  MatIds = {"ident", "zero", "neg", "asym", "cross", "steep"}
  GapSet <- GapsFull
INVARIANT InvScoreIsOptimum
INVARIANT InvTracesOptimal
INVARIANT InvGlobalComplete
INVARIANT InvLocalMinimal
INVARIANT InvModeOrder
CHECK_DEADLOCK FALSE
