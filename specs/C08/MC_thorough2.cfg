SPECIFICATION Spec
CONSTANTS
  MaxLen = 3
  K = 2
  MatIds = {"ident", "zero", "neg", "asym", "cross", "steep"}
  GapSet <- GapsFull
INVARIANT InvScoreIsOptimum
INVARIANT InvTracesOptimal
INVARIANT InvGlobalComplete
INVARIANT InvLocalMinimal
INVARIANT InvModeOrder
INVARIANT InvFormsDenote
CHECK_DEADLOCK FALSE
