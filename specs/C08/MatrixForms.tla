---------------------------- MODULE MatrixForms ----------------------------
(* C08: "for any ... substitution matrix" - the matrix AS THE CALLER SPECIFIES IT.

   align_optimal receives a SubstitutionMatrix object; the caller states the scores in one of
   the documented construction forms (class docstring of SubstitutionMatrix: "There are 3 ways
   to create instances": ndarray, dictionary of symbol pairings, name of a database file; the
   text format of the database is public through dict_from_str).  The scoring model of the
   property is the function  (symbol of alphabet 1, symbol of alphabet 2) -> score  that this
   specification denotes - not whatever table the constructed object happens to hold.
   SrcTable turns a construction source into the code-indexed table used by PairAlign
   (Sub(M, a, b) = M[a + 1][b + 1]); the optimum, the validity of the returned traces and the
   recomputed scores are all stated over SrcTable(src).

   Values
     symbol     an integer id (the driver maps ids <-> real symbols: ints, strings, letters,
                tuples); a symbol has no meaning beyond its identity
     alphabet   sequence of distinct symbols; the code of a symbol is its index - 1
     table      sequence of rows of integers; row = code of the first sequence's symbol
     src        [form, a1, a2, tab, dict, hdr, rows]      (unused fields are <<>>)
       form = "array"       SubstitutionMatrix(a1, a2, tab)         tab is Len(a1) x Len(a2); the
                            dtype / memory order / strides / writability of the ndarray are
                            realisations of the same table of integers
       form = "transposed"  SubstitutionMatrix(a2, a1, tab).transpose()      tab is Len(a2) x Len(a1)
       form = "dict"        SubstitutionMatrix(a1, a2, {(x, y): v})  dict = sequence of <<x, y, v>>
                            in the dictionary's order; keys are unique; pairings of symbols
                            outside the alphabets are not looked at
       form = "text"        SubstitutionMatrix(a1, a2, dict_from_str(text)) and
                            SubstitutionMatrix(a1, a2, "NAME") (text = the database file):
                            hdr = symbols of the top row, rows = [l |-> symbol of the left
                            column, v |-> the scores of that line]; "Symbols of the first
                            alphabet are taken from the left column, symbols of the second
                            alphabet are taken from the top row"                          *)
EXTENDS Integers, Sequences, FiniteSets, SequencesExt, TLC

Forms == {"array", "transposed", "dict", "text"}

Distinct(q)  == \A i, j \in DOMAIN q : i # j => q[i] # q[j]
Dom_Alph(a)  == Len(a) >= 1 /\ Distinct(a)
RectT(t, nr, nc) == Len(t) = nr /\ \A i \in DOMAIN t : Len(t[i]) = nc
TransposeT(t, nr, nc) == [j \in 1..nc |-> [i \in 1..nr |-> t[i][j]]]        \* t is nr x nc
IndexIn(q, x) == CHOOSE k \in DOMAIN q : q[k] = x
Has(q, x)     == \E k \in DOMAIN q : q[k] = x

(* ------------------------------------------------------------------ dictionary *)
DictHas(D, x, y) == \E k \in DOMAIN D : D[k][1] = x /\ D[k][2] = y
DictGet(D, x, y) == D[CHOOSE k \in DOMAIN D : D[k][1] = x /\ D[k][2] = y][3]
Dom_Dict(D) == \A p, q \in DOMAIN D : (D[p][1] = D[q][1] /\ D[p][2] = D[q][2]) => p = q
\* "Parings have to be provided for each possible combination"
DictComplete(a1, a2, D) == \A i \in DOMAIN a1, j \in DOMAIN a2 : DictHas(D, a1[i], a2[j])
TableOfDict(a1, a2, D) == [i \in DOMAIN a1 |-> [j \in DOMAIN a2 |-> DictGet(D, a1[i], a2[j])]]

(* ------------------------------------------------------------------ text (NCBI format) *)
Labels(rows) == [r \in DOMAIN rows |-> rows[r].l]
Dom_Grid(hdr, rows) == /\ Distinct(hdr) /\ Distinct(Labels(rows))
                       /\ \A r \in DOMAIN rows : Len(rows[r].v) = Len(hdr)
GridComplete(a1, a2, hdr, rows) == /\ \A i \in DOMAIN a1 : Has(Labels(rows), a1[i])
                                   /\ \A j \in DOMAIN a2 : Has(hdr, a2[j])
\* the score of (x, y) stands in the line labelled x, in the column headed y
TableOfGrid(a1, a2, hdr, rows) ==
  [i \in DOMAIN a1 |-> [j \in DOMAIN a2 |->
      rows[IndexIn(Labels(rows), a1[i])].v[IndexIn(hdr, a2[j])]]]

(* ------------------------------------------------------------------ the denoted table *)
Dom_Src(s) ==
  /\ s.form \in Forms /\ Dom_Alph(s.a1) /\ Dom_Alph(s.a2)
  /\ CASE s.form = "array"      -> RectT(s.tab, Len(s.a1), Len(s.a2))
       [] s.form = "transposed" -> RectT(s.tab, Len(s.a2), Len(s.a1))
       [] s.form = "dict"       -> Dom_Dict(s.dict) /\ DictComplete(s.a1, s.a2, s.dict)
       [] s.form = "text"       -> Dom_Grid(s.hdr, s.rows) /\ GridComplete(s.a1, s.a2, s.hdr, s.rows)

SrcTable(s) ==
  TLCEval(CASE s.form = "array"      -> s.tab
            [] s.form = "transposed" -> TransposeT(s.tab, Len(s.a2), Len(s.a1))
            [] s.form = "dict"       -> TableOfDict(s.a1, s.a2, s.dict)
            [] s.form = "text"       -> TableOfGrid(s.a1, s.a2, s.hdr, s.rows))

(* ------------------------------------------------------------------ canonical sources
   (specification-side generators: every form of the same table; used by the laws in
   OptimalAlign.tla and mirrored by the driver's generators) *)
NoSrc == [form |-> "array", a1 |-> <<>>, a2 |-> <<>>, tab |-> <<>>, dict |-> <<>>, hdr |-> <<>>, rows |-> <<>>]
ArraySrc(a1, a2, M)      == [NoSrc EXCEPT !.a1 = a1, !.a2 = a2, !.tab = M]
TransposedSrc(a1, a2, M) == [NoSrc EXCEPT !.form = "transposed", !.a1 = a1, !.a2 = a2,
                                          !.tab = TransposeT(M, Len(a1), Len(a2))]
DictSeqOf(a1, a2, M) ==       \* row by row (the dictionary's own order is immaterial)
  [k \in 1..(Len(a1) * Len(a2)) |->
     LET i == ((k - 1) \div Len(a2)) + 1
         j == ((k - 1) % Len(a2)) + 1 IN <<a1[i], a2[j], M[i][j]>>]
DictSrc(a1, a2, M) == [NoSrc EXCEPT !.form = "dict", !.a1 = a1, !.a2 = a2, !.dict = DictSeqOf(a1, a2, M)]
\* text whose lines / columns appear in the orders given by the permutations p1 / p2
TextSrc(a1, a2, M, p1, p2) ==
  [NoSrc EXCEPT !.form = "text", !.a1 = a1, !.a2 = a2,
                !.hdr = [c \in DOMAIN a2 |-> a2[p2[c]]],
                !.rows = [r \in DOMAIN a1 |-> [l |-> a1[p1[r]], v |-> [c \in DOMAIN a2 |-> M[p1[r]][p2[c]]]]]]

(* ------------------------------------------------------------------ known defect shape
   (used by no expected value; only to recognise finding C08-text-matrix-transposed):
   dict_from_str transposes the block of scores before indexing it by (line, column), so the
   pairing (label of line r, header of column c) receives the score written in line c,
   column r.  Defined for square blocks; a non-square block makes dict_from_str raise. *)
KB_SquareGrid(s) == s.form = "text" /\ Len(s.rows) = Len(s.hdr)
KB_TextAsRead(s) ==
  TLCEval([i \in DOMAIN s.a1 |-> [j \in DOMAIN s.a2 |->
      s.rows[IndexIn(s.hdr, s.a2[j])].v[IndexIn(Labels(s.rows), s.a1[i])]]])
=============================================================================
