SPECIFICATION Spec
CONSTANTS
  MaxLen = 4
  K = 2
  MatIds = {"ident", "cross"}
  GapSet <- GapsLen4
INVARIANT InvScoreIsOptimum
INVARIANT InvTracesOptimal
INVARIANT InvGlobalComplete
INVARIANT InvLocalMinimal
INVARIANT InvModeOrder
INVARIANT InvFormsDenote
CHECK_DEADLOCK FALSE
