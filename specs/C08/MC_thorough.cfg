SPECIFICATION Spec
CONSTANTS
  MaxLen = 4
  K = 2
  MatIds = {"ident", "zero", "neg", "asym", "cross"}
  GapSet <- GapsQuick
INVARIANT InvScoreIsOptimum
INVARIANT InvTracesOptimal
INVARIANT InvGlobalComplete
INVARIANT InvLocalMinimal
INVARIANT InvModeOrder
CHECK_DEADLOCK FALSE
