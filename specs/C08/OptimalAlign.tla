---------------------------- MODULE OptimalAlign ----------------------------
(* C08: align_optimal returns the true optimum.

   Exhaustive single-step model: Init enumerates every input of the bounded domain, the one
   action Compute evaluates (a) the optimum *by definition* - the maximum of the documented
   score over all candidate alignments (PairAlign!IdealOpt) - and (b) the dynamic programme
   of pairwise.pyx / tracetable.pyx in the shape of the code (PairAlign!DPOptimal), and the
   invariants state that (b) has the property with respect to (a).
   The states of phase "done" are dumped and replayed against the real align_optimal (S2). *)
EXTENDS PairAlign, MatrixForms, TLC

CONSTANTS MaxLen,       \* longest sequence
          K,            \* alphabet size (codes 0..K-1)
          MatIds,       \* which of the matrices below are used
          GapSet        \* set of gap penalties (<<g>> linear, <<o,e>> affine)

(* 2x2 matrices: identity-like, all-zero (every alignment ties), negative only, asymmetric,
   asymmetric with rewarded mismatch, large mismatch penalty *)
Mat2 == [ident |-> <<<<1, -1>>, <<-1, 1>>>>,
         zero  |-> <<<<0, 0>>, <<0, 0>>>>,
         neg   |-> <<<<-1, -2>>, <<-2, -1>>>>,
         asym  |-> <<<<2, -1>>, <<0, 1>>>>,
         cross |-> <<<<-1, 1>>, <<2, -3>>>>,
         steep |-> <<<<3, -4>>, <<-4, 2>>>>]
Mat3 == [ident |-> <<<<1, -1, -1>>, <<-1, 1, -1>>, <<-1, -1, 1>>>>,
         asym  |-> <<<<2, -1, 0>>, <<0, 1, -2>>, <<-3, 1, 1>>>>]
MatOf(id) == IF K = 2 THEN Mat2[id] ELSE Mat3[id]

GapsQuick == {<<0>>, <<-1>>, <<-3>>, <<0, 0>>, <<-2, -1>>, <<-1, -2>>, <<-3, 0>>}
GapsFull  == {<<0>>, <<-1>>, <<-2>>, <<-3>>, <<0, 0>>, <<-2, -1>>, <<-1, -2>>, <<-3, 0>>, <<0, -1>>, <<-1, -1>>}
GapsLen4  == {<<0>>, <<-1>>, <<-2, -1>>, <<-1, -2>>}
GapsMid   == {<<0>>, <<-2>>, <<-2, -1>>, <<-1, -2>>}

Seqs == UNION {[1..len -> 0..(K - 1)] : len \in 0..MaxLen}
Modes == {"global", "semi", "local"}
ST == ShapeTable(MaxLen)          \* constants: evaluated once
CT == CandTable(ST, MaxLen)

VARIABLES inp, phase, out
vars == <<inp, phase, out>>

NoOut == [opt |-> 0, dp |-> 0, ndp |-> 0, nopt |-> 0, sound |-> TRUE, complete |-> TRUE, minimal |-> TRUE]

Init == /\ inp \in [s1 : Seqs, s2 : Seqs, mat : {MatOf(id) : id \in MatIds}, gap : GapSet, mode : Modes]
        /\ phase = "in"
        /\ out = NoOut

Compute ==
  /\ phase = "in"
  /\ phase' = "done"
  /\ UNCHANGED inp
  /\ LET M == inp.mat
         ideal == IdealOver(CandOf(CT, Len(inp.s1), Len(inp.s2), inp.mode, inp.gap),
                            inp.s1, inp.s2, M, inp.gap, inp.mode)
         optset == ideal.set
         opt == ideal.opt
         dp == DPOptimal(inp.s1, inp.s2, M, inp.gap, inp.mode)
     IN out' = [opt  |-> opt,
                dp   |-> dp.score,
                ndp  |-> Cardinality(dp.traces),
                nopt |-> Cardinality(optset),
                \* every alignment the traceback can return is an optimal candidate
                sound |-> /\ dp.traces # {}
                          /\ dp.traces \subseteq optset
                          /\ \A t \in dp.traces : GoodResultTrace(t, inp.s1, inp.s2, M, inp.gap, inp.mode, opt),
                \* end-to-end modes: the traceback reaches every optimal alignment
                complete |-> (inp.mode # "local" => dp.traces = optset),
                \* local: exactly the optimal alignments none of whose proper prefixes or
                \* suffixes could be dropped (minimal ones), or only the empty one
                minimal |-> (inp.mode = "local" =>
                               IF opt = 0 THEN dp.traces = {<<>>}
                               ELSE \A t \in dp.traces : Len(t) > 0 /\ Kind(t[1]) = "m")]

Next == Compute
Spec == Init /\ [][Next]_vars

Done == phase = "done"
InvScoreIsOptimum  == Done => out.dp = out.opt
InvTracesOptimal   == Done => out.sound
InvGlobalComplete  == Done => out.complete
InvLocalMinimal    == Done => out.minimal
\* the local optimum is never negative and never below the global one; free end gaps never hurt
InvModeOrder ==
  Done => LET M == inp.mat IN
          /\ (inp.mode = "local" => out.opt >= 0)
          /\ (inp.mode = "global" => out.opt <= DPOptimalScore(inp.s1, inp.s2, M, inp.gap, "semi"))
          /\ (inp.mode = "semi" /\ ~IsAffine(inp.gap) => out.opt <= DPOptimalScore(inp.s1, inp.s2, M, inp.gap, "local"))

(* ---- the substitution matrix as the caller specifies it (MatrixForms) ------------------
   Every construction form of the same scores denotes the same table, so the optimum stated
   above for inp.mat is the optimum for the matrix handed over as ndarray (any dtype / memory
   order), as transposed ndarray, as dictionary of symbol pairings and as text / database
   file.  The driver executes every enumerated input under rotating forms (S2) and TLC
   re-derives the table from the recorded source (Trace.tla). *)
AlphOf(n, base) == [k \in 1..n |-> base + k - 1]
RevAlph(a) == [k \in DOMAIN a |-> a[Len(a) + 1 - k]]
IdPerm(n) == [k \in 1..n |-> k]
RevPerm(n) == [k \in 1..n |-> n + 1 - k]
\* alphabet pairs: identical, same symbols in another order, disjoint
AlphPairs(n1, n2) == {<<AlphOf(n1, 65), AlphOf(n2, 65)>>, <<AlphOf(n1, 65), RevAlph(AlphOf(n2, 65))>>,
                      <<AlphOf(n1, 65), AlphOf(n2, 97)>>}
FormSrcs(a1, a2, M) ==
  {ArraySrc(a1, a2, M), TransposedSrc(a1, a2, M), DictSrc(a1, a2, M)}
  \cup {TextSrc(a1, a2, M, p1, p2) : p1 \in {IdPerm(Len(a1)), RevPerm(Len(a1))},
                                     p2 \in {IdPerm(Len(a2)), RevPerm(Len(a2))}}
FormsDenote(M, n1, n2) ==
  \A p \in AlphPairs(n1, n2) : \A s \in FormSrcs(p[1], p[2], M) : Dom_Src(s) /\ SrcTable(s) = M
InvFormsDenote == FormsDenote(inp.mat, Len(inp.mat), Len(inp.mat[1]))

TablesOver(nr, nc, V) == [1..nr -> [1..nc -> V]]
ASSUME \A t \in TablesOver(2, 2, {-1, 0, 2}) : FormsDenote(t, 2, 2)
ASSUME \A t \in TablesOver(2, 3, {-1, 2}) \cup TablesOver(3, 1, {-1, 2}) : FormsDenote(t, Len(t), Len(t[1]))
ASSUME \A t \in TablesOver(3, 3, {0, 1}) : FormsDenote(t, 3, 3)
\* a dictionary is looked up by symbol pair in the order (alphabet 1, alphabet 2): additional
\* pairings - also the mirrored ones - do not matter
ASSUME LET a == <<65, 66>>
           b == <<97, 98>>
           s == DictSrc(a, b, <<<<2, -1>>, <<0, 1>>>>)
           t == [s EXCEPT !.dict = <<<<97, 65, 9>>, <<66, 66, 9>>>> \o s.dict \o <<<<98, 65, 9>>>>]
       IN Dom_Src(t) /\ SrcTable(t) = <<<<2, -1>>, <<0, 1>>>>
\* class docstring example: alph1 = (foo, bar), alph2 = (1, 2, 3)
ASSUME SrcTable([NoSrc EXCEPT !.form = "dict", !.a1 = <<10, 11>>, !.a2 = <<1, 2, 3>>,
                              !.dict = <<<<10, 1, 5>>, <<10, 2, 10>>, <<10, 3, 15>>,
                                         <<11, 1, 42>>, <<11, 2, 42>>, <<11, 3, 42>>>>])
         = <<<<5, 10, 15>>, <<42, 42, 42>>>>
\* the known defect shape (finding C08-text-matrix-transposed) is the block-transposed reading:
\* it differs from the denoted table exactly for non-symmetric blocks
ASSUME \A t \in TablesOver(2, 2, {-1, 0, 2}) :
          LET s == TextSrc(<<65, 66>>, <<65, 66>>, t, <<1, 2>>, <<1, 2>>)
          IN /\ KB_SquareGrid(s) /\ KB_TextAsRead(s) = TransposeT(t, 2, 2)
             /\ (KB_TextAsRead(s) = SrcTable(s)) <=> (t[1][2] = t[2][1])

(* the code-shaped comparison cascades are the arg-max *)
ASSUME \A a, b, c \in -2..2 : GetTraceLinear(a, b, c) = ArgMaxLinear(a, b, c)
ASSUME \A a, b, c \in -1..1 : \A d, e \in -1..1 : \A f, g \in {-1, 0} :
          GetTraceAffine(a, b, c, d, e, f, g) = ArgMaxAffine(a, b, c, d, e, f, g)
(* docstring example of align_optimal (nucleotide codes A=0 C=1 G=2 T=3, match 5 mismatch -4, gap -6) *)
NucM == [a \in 1..4 |-> [b \in 1..4 |-> IF a = b THEN 5 ELSE -4]]
ASSUME LET s1 == <<0, 3, 0, 1, 2, 1, 3, 3, 2, 1, 3>>      \* ATACGCTTGCT
           s2 == <<0, 2, 2, 1, 2, 1, 0, 2, 1, 3>>         \* AGGCGCAGCT
           r == DPLinear(s1, s2, NucM, -6, "global")
       IN Cardinality(r.traces) = 2 /\
          <<<<0,0>>,<<1,1>>,<<2,2>>,<<3,3>>,<<4,4>>,<<5,5>>,<<6,6>>,<<7,-1>>,<<8,7>>,<<9,8>>,<<10,9>>>> \in r.traces
=============================================================================
