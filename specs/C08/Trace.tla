------------------------------- MODULE Trace -------------------------------
(* C08 direction B (and the trace part of direction A): validate recorded calls of the real
   align_optimal against PairAlign.  TRACE_FILE is a JSON array of traces, a trace an array
   of independent events

     {s1, s2        symbol codes (indices into src.a1 / src.a2)
      src           the substitution matrix as the caller specified it (MatrixForms.tla:
                    form, alphabets, ndarray / dictionary / text grid handed to the constructor);
                    the scoring table is SrcTable(src) - never what the constructed object reports
      gap           [g] or [open, ext]
      mode          "global" | "semi" | "local"
      oc            "ok" | "Rejected"
      scores        the distinct values of Alignment.score over everything returned
      traces        the distinct Alignment.trace arrays returned by any of the calls
      rescore       per trace: [align.score(alignment, matrix, gap, terminal_penalty)] or []
      calls         [{maxn, idx}]  one entry per call with max_number = maxn; idx = positions
                    (1-based) in `traces` of the alignments returned, in order
      ideal         1: also compare with the optimum by definition (small inputs only)}

   Every event is judged on its own; disagreements are printed as <<"MISMATCH", tid, l, ...>>
   and never stop the run. *)
EXTENDS PairAlign, MatrixForms, Json, IOUtils, TLC

Tr == JsonDeserialize(IOEnv.TRACE_FILE)

VARIABLES tid, l
tvars == <<tid, l>>

IdealMax == 3                                  \* brute force only up to this length
ST == ShapeTable(IdealMax)
CT == CandTable(ST, IdealMax)

Dom_Args(e) ==
  /\ Dom_Gap(e.gap) /\ Dom_Mode(e.mode)
  /\ \A c \in DOMAIN e.calls : e.calls[c].maxn >= 1
\* the generators only hand over well-formed sources and sequences over the alphabets
Dom_Event(e) == Dom_Src(e.src) /\ Dom_Seq(e.s1, Len(e.src.a1)) /\ Dom_Seq(e.s2, Len(e.src.a2))

(* the model of one call under the scoring table M: outcome and optimal score *)
Op_AlignOptimal(e, M) ==
  IF ~Dom_Args(e) THEN [oc |-> "Rejected", score |-> 0]
  ELSE [oc |-> "ok", score |-> DPOptimalScore(e.s1, e.s2, M, e.gap, e.mode)]

IndexHonest(e) == Cardinality(ToSet(e.traces)) = Len(e.traces)
CallOk(e, c) ==
  /\ Len(c.idx) >= 1                                             \* the optimum is reported by an alignment
  /\ Len(c.idx) <= c.maxn                                        \* "at most max_number are returned"
  /\ \A k \in DOMAIN c.idx : c.idx[k] \in 1..Len(e.traces)
CallDistinct(e, c) ==                                            \* "non-empty results are pairwise distinct"
  LET ne == SelectSeq(c.idx, LAMBDA x : x \in 1..Len(e.traces) /\ Len(e.traces[x]) > 0)
  IN Cardinality(ToSet(ne)) = Len(ne)

(* everything the property says about one recorded event, under the scoring table M *)
Flags(e, M, r) ==
  LET okOc == r.oc = e.oc
      both == r.oc = "ok" /\ e.oc = "ok"
      okScore == both => ToSet(e.scores) = {r.score}
      okIdeal == (both /\ e.ideal = 1) =>
                   r.score = IdealOver(CandOf(CT, Len(e.s1), Len(e.s2), e.mode, e.gap),
                                       e.s1, e.s2, M, e.gap, e.mode).opt
      okTraces == both => \A k \in DOMAIN e.traces :
                            GoodResultTrace(e.traces[k], e.s1, e.s2, M, e.gap, e.mode, r.score)
      okCount == both => \A c \in DOMAIN e.calls : CallOk(e, e.calls[c])
      okDistinct == both => IndexHonest(e) /\ \A c \in DOMAIN e.calls : CallDistinct(e, e.calls[c])
      okRescore == both => \A k \in DOMAIN e.traces :
                            (e.rescore[k] # <<>> /\ ValidTrace(e.traces[k], Len(e.s1), Len(e.s2))) =>
                               e.rescore[k][1] = ScoreTrace(e.traces[k], e.s1, e.s2, M, e.gap, e.mode = "semi")
  IN <<okOc, okScore, okIdeal, okTraces, okCount, okDistinct, okRescore>>
AllTrue(f) == \A k \in DOMAIN f : f[k]

(* known defect shape (finding C08-text-matrix-transposed; decides no expected value): the
   event is exactly what the property demands under the block-transposed reading of a square
   text *)
KB_AsTransposedText(e) ==
  KB_SquareGrid(e.src) /\
  LET N == KB_TextAsRead(e.src) IN AllTrue(Flags(e, N, Op_AlignOptimal(e, N)))

Judge(e) ==
  IF ~Dom_Event(e) THEN PrintT(<<"BADEVENT", tid, l + 1>>)
  ELSE LET M == SrcTable(e.src)
           r == Op_AlignOptimal(e, M)
           f == Flags(e, M, r)
       IN IF AllTrue(f) THEN TRUE
          ELSE PrintT(<<"MISMATCH", tid, l + 1, f, r.oc, r.score, KB_AsTransposedText(e)>>)

Init == tid \in 1..Len(Tr) /\ l = 0
Next == /\ l < Len(Tr[tid])
        /\ l' = l + 1
        /\ UNCHANGED tid
        /\ Judge(Tr[tid][l + 1])
Spec == Init /\ [][Next]_tvars
=============================================================================
