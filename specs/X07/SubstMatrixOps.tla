--------------------------- MODULE SubstMatrixOps ---------------------------
(* X07: biotite.sequence.align.SubstitutionMatrix (matrix.py) and
   biotite.sequence.AlphabetMapper / common_alphabet (alphabet.py) as faithful tables.

   Values
     character   a one-character string ("a", "#", "-", "7"); white space is named:
                 "sp" "tab" "cr" "ff" "vt", the line separator is "nl"
     word        sequence of non-white characters (what str.split() yields)
     symbol      a word (the driver maps words <-> real symbols: letters, strings, ints,
                 tuples, PositionalSequence.Symbol objects)
     alphabet    sequence of symbols; the code of a symbol is its index - 1
     table       sequence of rows of integers (m x n)
     matrix      [a1 |-> alphabet, a2 |-> alphabet, m |-> table]     (a SubstitutionMatrix)
     dict        set of triples <<symbol1, symbol2, score>>          (a matrix dictionary)
   Every public call has one operator; Apply(op, a) at the end dispatches on the call
   name and is the single source of expected values for the exhaustive configuration
   (SubstMatrix.tla), the session machine (MatrixSession.tla) and trace validation
   (Trace.tla).  Outcomes are strings: "ok", "KeyError" (the one documented exception
   class), "Rejected" (any exception).                                                  *)
EXTENDS Integers, Sequences, FiniteSets, SequencesExt, FiniteSetsExt, Functions, TLC

Int32Max == 2147483647
Int32Min == (-2147483647) - 1

\* Bind(v, F): F(v) with v evaluated once (C19/Phylo.tla has the same helper)
Bind(v, F(_)) == CHOOSE r \in {F(x) : x \in {v}} : TRUE

(* ------------------------------------------------------------------ alphabets *)
Dom_Alphabet(a) == Len(a) >= 1 /\ \A i, j \in DOMAIN a : i # j => a[i] # a[j]
InAlph(a, s)    == \E i \in DOMAIN a : a[i] = s
CodeOf(a, s)    == (CHOOSE i \in DOMAIN a : a[i] = s) - 1          \* Alphabet.encode
SymOf(a, c)     == a[c + 1]                                        \* Alphabet.decode
Dom_Code(a, c)  == c >= 0 /\ c < Len(a)
\* Alphabet.extends (restated from C03/SeqCodecOps.tla): b is a prefix of a
Extends(a, b)   == Len(b) <= Len(a) /\ \A i \in DOMAIN b : a[i] = b[i]

(* ------------------------------------------------------------------ tables *)
NRows(t) == Len(t)
NCols(t) == IF Len(t) = 0 THEN 0 ELSE Len(t[1])
Dom_Rect(t) == \A i \in DOMAIN t : Len(t[i]) = NCols(t)            \* a 2-D array
TransposeT(t) == [j \in 1..NCols(t) |-> [i \in 1..NRows(t) |-> t[i][j]]]
Entries(t) == UNION {Range(t[i]) : i \in DOMAIN t}
Dom_Score(v) == v > Int32Min /\ v < Int32Max

Matrix(a1, a2, m) == [a1 |-> a1, a2 |-> a2, m |-> m]
NoObj == Matrix(<<>>, <<>>, <<>>)
Dom_Matrix(M) == /\ Dom_Alphabet(M.a1) /\ Dom_Alphabet(M.a2)
                 /\ NRows(M.m) = Len(M.a1) /\ Dom_Rect(M.m) /\ NCols(M.m) = Len(M.a2)
                 /\ \A v \in Entries(M.m) : Dom_Score(v)
Res(oc, out) == [oc |-> oc, out |-> out]
Ok(out)      == Res("ok", out)
Rejected     == Res("Rejected", <<>>)

(* ------------------------------------------------------------------ queries *)
Shape(M) == <<Len(M.a1), Len(M.a2)>>                                \* .shape
\* get_score_by_code: Dom: codes are symbol codes (non-negative ints).  Codes beyond the
\* alphabets are refused (the code raises IndexError; the documentation is silent).
ScoreByCode(M, i, j) ==
  IF Dom_Code(M.a1, i) /\ Dom_Code(M.a2, j) THEN Ok(M.m[i + 1][j + 1]) ELSE Rejected
\* get_score: encode both symbols (AlphabetError when unknown), then look up
Score(M, s, t) ==
  IF InAlph(M.a1, s) /\ InAlph(M.a2, t) THEN Ok(M.m[CodeOf(M.a1, s) + 1][CodeOf(M.a2, t) + 1])
  ELSE Rejected
\* score_matrix() + shape + get_alphabet1/2 in one observation; score_matrix() is documented
\* as "dtype=np.int32 ... The array is read-only"
TableOf(M) == [shape |-> Shape(M), m |-> M.m, a1 |-> M.a1, a2 |-> M.a2, int32 |-> TRUE, readonly |-> TRUE]
Transposed(M) == Matrix(M.a2, M.a1, TransposeT(M.m))               \* transpose()
\* is_symmetric(): as the code does it (alphabets equal, array equal to its transpose) ...
IsSymmetricImpl(M) == M.a1 = M.a2 /\ M.m = TransposeT(M.m)
\* ... and as the documentation says it (every pair scores the same in both orders)
IsSymmetricDecl(M) ==
  /\ M.a1 = M.a2
  /\ \A i, j \in DOMAIN M.a1 : Score(M, M.a1[i], M.a1[j]) = Score(M, M.a1[j], M.a1[i])
EqMatrix(M, N) == M.a1 = N.a1 /\ M.a2 = N.a2 /\ M.m = N.m          \* __eq__
\* aggregated lookups (one enumerated case = all pairs)
ScoresOver(M, syms) == [p \in 1..Len(syms) |-> [q \in 1..Len(syms) |->
                           LET r == Score(M, syms[p], syms[q]) IN
                           IF r.oc = "ok" THEN <<"ok", r.out>> ELSE <<r.oc, 0>>]]
CodesOver(M, k) == [p \in 1..k |-> [q \in 1..k |->
                           LET r == ScoreByCode(M, p - 1, q - 1) IN
                           IF r.oc = "ok" THEN <<"ok", r.out>> ELSE <<r.oc, 0>>]]

(* ------------------------------------------------------------------ construction *)
\* SubstitutionMatrix(a1, a2, ndarray): dkind "int" = integer dtype, anything else refused;
\* the array is a rectangular 2-D array (Dom_Rect).  Scores equal to the int32 extremes are
\* refused (matrix.py: "Score values are too large").
NewFromArray(a1, a2, arr, dkind) ==
  IF NRows(arr) # Len(a1) \/ NCols(arr) # Len(a2) THEN Rejected
  ELSE IF dkind # "int" THEN Rejected
  ELSE IF \E v \in Entries(arr) : v \in {Int32Max, Int32Min} THEN Rejected
  ELSE Ok(Matrix(a1, a2, arr))

Dom_Dict(D)       == \A x, y \in D : (x[1] = y[1] /\ x[2] = y[2]) => x = y
DictHas(D, s, t)  == \E x \in D : x[1] = s /\ x[2] = t
DictGet(D, s, t)  == (CHOOSE x \in D : x[1] = s /\ x[2] = t)[3]
DictOf(M) == {<<M.a1[i], M.a2[j], M.m[i][j]>> : i \in DOMAIN M.a1, j \in DOMAIN M.a2}
\* SubstitutionMatrix(a1, a2, dict): "Parings have to be provided for each possible
\* combination", "KeyError: If the matrix dictionary misses a symbol given in the alphabet";
\* additional keys are not looked at.
NewFromDict(a1, a2, D) ==
  IF \A i \in DOMAIN a1, j \in DOMAIN a2 : DictHas(D, a1[i], a2[j])
  THEN Ok(Matrix(a1, a2, TLCEval([i \in DOMAIN a1 |-> [j \in DOMAIN a2 |-> DictGet(D, a1[i], a2[j])]])))
  ELSE Res("KeyError", <<>>)

(* ------------------------------------------------------------------ text format *)
WsTokens == {"sp", "tab", "cr", "ff", "vt"}
Digits   == {"0", "1", "2", "3", "4", "5", "6", "7", "8", "9"}
DigitVal(ch) == CASE ch = "0" -> 0 [] ch = "1" -> 1 [] ch = "2" -> 2 [] ch = "3" -> 3
                  [] ch = "4" -> 4 [] ch = "5" -> 5 [] ch = "6" -> 6 [] ch = "7" -> 7
                  [] ch = "8" -> 8 [] ch = "9" -> 9
DigitCh(d) == <<"0", "1", "2", "3", "4", "5", "6", "7", "8", "9">>[d + 1]

\* str.split("\n"): pieces between separators, empty ones kept
SplitKeep(chars, sep) ==
  LET st == FoldLeft(LAMBDA acc, ch : IF ch = sep THEN <<Append(acc[1], acc[2]), <<>>>>
                                      ELSE <<acc[1], Append(acc[2], ch)>>,
                     <<<<>>, <<>>>>, chars)
  IN Append(st[1], st[2])
\* str.split(): maximal runs of non-white characters (so also strip())
SplitWs(line) ==
  LET st == FoldLeft(LAMBDA acc, ch :
                       IF ch \in WsTokens
                       THEN (IF acc[2] = <<>> THEN acc ELSE <<Append(acc[1], acc[2]), <<>>>>)
                       ELSE <<acc[1], Append(acc[2], ch)>>,
                     <<<<>>, <<>>>>, line)
  IN IF st[2] = <<>> THEN st[1] ELSE Append(st[1], st[2])

\* decimal numerals with optional sign (the NCBI files use "-4", " 4"; "+4" is what
\* int() accepts too).  Dom_Numeral: at most 9 digits (TLC integers are 32 bit).
NumBody(w)     == IF w # <<>> /\ Head(w) \in {"-", "+"} THEN Tail(w) ELSE w
IsNumeral(w)   == NumBody(w) # <<>> /\ \A k \in DOMAIN NumBody(w) : NumBody(w)[k] \in Digits
Dom_Numeral(w) == Len(NumBody(w)) <= 9
NumeralValue(w) ==
  LET v == FoldLeft(LAMBDA acc, ch : 10 * acc + DigitVal(ch), 0, NumBody(w))
  IN IF Head(w) = "-" THEN -v ELSE v

\* the lines that count: stripped, non-empty, not starting with "#"; each as its words
ContentLines(chars) ==
  Bind(SplitKeep(chars, "nl"), LAMBDA ls :
    SelectSeq(TLCEval([k \in DOMAIN ls |-> SplitWs(ls[k])]),
              LAMBDA w : w # <<>> /\ Head(Head(w)) # "#"))

\* The grid a text denotes: [cols |-> header words, rows |-> <<label, <<numeral words>>>>]
GridOfText(chars) ==
  Bind(ContentLines(chars), LAMBDA cl :
    [cols |-> IF cl = <<>> THEN <<>> ELSE cl[1],
     rows |-> [k \in 1..(Len(cl) - 1) |-> <<Head(cl[k + 1]), Tail(cl[k + 1])>>],
     header |-> cl # <<>>])
\* Dom_Text: a header line exists, every row has one numeral per header symbol, labels
\* are distinct (a text outside is not "NCBI matrix format"; the model refuses texts
\* without header or with a word that is no numeral, as the code does)
Dom_TextGrid(g) ==
  /\ g.header
  /\ \A k \in DOMAIN g.rows : Len(g.rows[k][2]) = Len(g.cols)
                              /\ \A q \in DOMAIN g.rows[k][2] : Dom_Numeral(g.rows[k][2][q])
  /\ \A i, j \in DOMAIN g.cols : i # j => g.cols[i] # g.cols[j]
  /\ \A i, j \in DOMAIN g.rows : i # j => g.rows[i][1] # g.rows[j][1]
Dom_Text(chars) == Dom_TextGrid(GridOfText(chars))

\* SubstitutionMatrix.dict_from_str: "Symbols of the first alphabet are taken from the left
\* column, symbols of the second alphabet are taken from the top row"; key = (symbol1,
\* symbol2), value = the score in that row and that column.
DictFromStr(chars) ==
  Bind(GridOfText(chars), LAMBDA g :
    IF ~g.header THEN Rejected
    ELSE IF \E k \in DOMAIN g.rows : \E q \in DOMAIN g.rows[k][2] : ~IsNumeral(g.rows[k][2][q])
    THEN Rejected
    ELSE Ok({<<g.rows[k][1], g.cols[q], NumeralValue(g.rows[k][2][q])>> :
               k \in DOMAIN g.rows, q \in DOMAIN g.cols}))
\* The recorded defect X07-dict-from-str-transposed (the code transposes the score block
\* before indexing it by (row label, column label)) - used by NO expected value, only stated
\* here so that the shape of the finding is part of the specification.
KB_DictFromStrTransposed(chars) ==
  Bind(GridOfText(chars), LAMBDA g :
    IF Len(g.rows) # Len(g.cols) THEN Rejected
    ELSE Ok({<<g.rows[k][1], g.cols[q], NumeralValue(g.rows[q][2][k])>> :
               k \in DOMAIN g.rows, q \in DOMAIN g.cols}))

\* SubstitutionMatrix(a1, a2, dict_from_str(text)); also the constructor by name, whose
\* text is the database file (dict_from_db = dict_from_str of the file content)
NewFromText(a1, a2, chars) ==
  Bind(DictFromStr(chars), LAMBDA d :
    IF d.oc # "ok" THEN Rejected ELSE NewFromDict(a1, a2, d.out))

\* std_protein_blocks_matrix(undefined_match, undefined_mismatch): the PB table plus the
\* scores of the undefined symbol
PBDict(chars, alph, undef, um, umm) ==
  Bind(DictFromStr(chars), LAMBDA d :
    LET others == {alph[i] : i \in DOMAIN alph} \ {undef}
        keep   == {x \in d.out : x[1] # undef /\ x[2] # undef}
    IN keep \cup {<<s, undef, umm>> : s \in others} \cup {<<undef, s, umm>> : s \in others}
            \cup {<<undef, undef, um>>})
PBMatrix(chars, alph, undef, um, umm) ==
  IF DictFromStr(chars).oc # "ok" THEN Rejected
  ELSE NewFromDict(alph, alph, PBDict(chars, alph, undef, um, umm))

\* list_db(): the stems of the *.mat files of the database directory
MatSuffix == <<".", "m", "a", "t">>
EndsWithMat(w) == Len(w) > 4 /\ SubSeq(w, Len(w) - 3, Len(w)) = MatSuffix
ListDb(files) == {SubSeq(f, 1, Len(f) - 4) : f \in {x \in files : EndsWithMat(x)}}
\* the documented defaults
StdName(kind) == CASE kind = "protein"    -> <<"B", "L", "O", "S", "U", "M", "6", "2">>
                   [] kind = "nucleotide" -> <<"N", "U", "C">>
                   [] kind = "3di"        -> <<"3", "D", "i">>
                   [] kind = "pb"         -> <<"P", "B">>

(* ------------------------------------------------------------------ rendering *)
RECURSIVE DecDigits(_)
DecDigits(n) == IF n < 10 THEN <<DigitCh(n)>> ELSE Append(DecDigits(n \div 10), DigitCh(n % 10))
Numeral(v) == IF v < 0 THEN <<"-">> \o DecDigits(-v) ELSE DecDigits(v)
\* str(matrix) as words: the header (alphabet 2), then one row per symbol of alphabet 1
RenderGrid(M) ==
  <<M.a2>> \o [i \in DOMAIN M.a1 |-> <<M.a1[i]>> \o [j \in DOMAIN M.a2 |-> Numeral(M.m[i][j])]]
\* ... and character by character in the layout of the class docstring / test_matrix_str
\* (" " then " %3s" per column; row label then " %3d" per score; no final line break)
Spaces(k)      == [i \in 1..k |-> "sp"]
PadLeft(w, k)  == Spaces(IF Len(w) >= k THEN 0 ELSE k - Len(w)) \o w
Concat(ss)     == FoldLeft(LAMBDA acc, s : acc \o s, <<>>, ss)
JoinNl(ls)     == FoldLeft(LAMBDA acc, k : IF k = 1 THEN ls[1] ELSE acc \o <<"nl">> \o ls[k],
                           <<>>, [k \in DOMAIN ls |-> k])
RenderLines(M) ==
  <<<<"sp">> \o Concat([j \in DOMAIN M.a2 |-> <<"sp">> \o PadLeft(M.a2[j], 3)])>>
  \o [i \in DOMAIN M.a1 |->
        PadLeft(M.a1[i], 1) \o Concat([j \in DOMAIN M.a2 |-> <<"sp">> \o PadLeft(Numeral(M.m[i][j]), 3)])]
RenderChars(M) == JoinNl(RenderLines(M))
\* Dom_Renderable: the rendering can be read back (symbols are words that do not start with
\* the comment character; words never contain white space by construction)
Dom_SymbolWord(s) == s # <<>> /\ Head(s) # "#" /\ \A k \in DOMAIN s : s[k] \notin (WsTokens \cup {"nl"})
Dom_Renderable(M) == \A i \in DOMAIN M.a1 : Dom_SymbolWord(M.a1[i])
                     /\ \A j \in DOMAIN M.a2 : Dom_SymbolWord(M.a2[j])
\* parse(str(M)) gives M back
RoundTrip(M) == Bind(NewFromText(M.a1, M.a2, RenderChars(M)), LAMBDA r :
                  r.oc = "ok" /\ EqMatrix(r.out, M))

(* ------------------------------------------------------------------ positional *)
PosSymbol(s, pos) == s \o <<"@">> \o DecDigits(pos)      \* PositionalSequence.Symbol(symbol, position)
PosAlphabet(a, codes) == [k \in DOMAIN codes |-> PosSymbol(SymOf(a, codes[k]), k - 1)]
\* as_positional(seq1, seq2), the sequences given by their codes; Dom_PosSeq: the sequences
\* are over the matrix's alphabets and not empty (an empty PositionalSequence cannot exist)
Dom_PosSeq(M, c1, c2) == /\ Len(c1) >= 1 /\ Len(c2) >= 1
                         /\ \A k \in DOMAIN c1 : Dom_Code(M.a1, c1[k])
                         /\ \A k \in DOMAIN c2 : Dom_Code(M.a2, c2[k])
AsPositional(M, c1, c2) ==
  Matrix(PosAlphabet(M.a1, c1), PosAlphabet(M.a2, c2),
         [i \in DOMAIN c1 |-> [j \in DOMAIN c2 |-> M.m[c1[i] + 1][c2[j] + 1]]])
\* what the Notes section promises
PositionalAgrees(M, c1, c2) ==
  LET P == AsPositional(M, c1, c2) IN
  \A i \in DOMAIN c1, j \in DOMAIN c2 :
     Score(P, P.a1[i], P.a2[j]) = Score(M, SymOf(M.a1, c1[i]), SymOf(M.a2, c2[j]))

(* ------------------------------------------------------------------ AlphabetMapper *)
\* "The target alphabet must contain at least all symbols of the source alphabet"
Dom_Mapper(src, tgt) == \A i \in DOMAIN src : InAlph(tgt, src[i])
\* declarative: the code of the same symbol in the target alphabet
MapTableDecl(src, tgt) == [c \in DOMAIN src |-> CodeOf(tgt, src[c])]
\* as the class does it: no table when the target extends the source
MapTableImpl(src, tgt) == IF Extends(tgt, src) THEN [c \in DOMAIN src |-> c - 1]
                          ELSE [c \in DOMAIN src |-> CodeOf(tgt, SymOf(src, c - 1))]
MapperNew(src, tgt) == IF Dom_Mapper(src, tgt) THEN Ok(MapTableDecl(src, tgt)) ELSE Rejected
\* mapper[code] / mapper[codes]; Dom: valid source codes
MapCodes(src, tgt, codes) ==
  IF ~Dom_Mapper(src, tgt) THEN Rejected
  ELSE Bind(TLCEval(MapTableDecl(src, tgt)), LAMBDA tab : Ok([k \in DOMAIN codes |-> tab[codes[k] + 1]]))

(* ------------------------------------------------------------------ common_alphabet *)
\* declarative: an alphabet of the list that extends all of them (<<>> = None)
CommonAlphabetDecl(as) ==
  IF \E k \in DOMAIN as : \A q \in DOMAIN as : Extends(as[k], as[q])
  THEN <<as[CHOOSE k \in DOMAIN as : \A q \in DOMAIN as : Extends(as[k], as[q])]>>
  ELSE <<>>
\* as the function does it: keep the longer of two comparable alphabets, give up otherwise
CommonAlphabetImpl(as) ==
  LET st == FoldLeft(LAMBDA acc, a :
                       IF acc[1] = "none" THEN acc
                       ELSE IF acc[1] = "start" THEN <<"cur", a>>
                       ELSE IF Extends(acc[2], a) THEN acc
                       ELSE IF Extends(a, acc[2]) THEN <<"cur", a>>
                       ELSE <<"none", <<>>>>,
                     <<"start", <<>>>>, as)
  IN IF st[1] = "cur" THEN <<st[2]>> ELSE <<>>

(* ------------------------------------------------------------------ independence *)
\* what a caller may do after SubstitutionMatrix(a1, a2, array): change its own array (the
\* matrix does not follow); try to write through score_matrix() (refused, read-only)
SetCell(t, i, j, v) == [t EXCEPT ![i + 1] = [t[i + 1] EXCEPT ![j + 1] = v]]
PokeSrc(src, M, i, j, v) == Ok([src |-> SetCell(src, i, j, v), obj |-> M])
PokeObj(src, M, i, j, v) == Res("Rejected", [src |-> src, obj |-> M])

(* ------------------------------------------------------------------ dispatch *)
Apply(op, a) ==
  CASE op = "from_array"        -> NewFromArray(a[1], a[2], a[3], a[4])
    [] op = "from_dict"         -> NewFromDict(a[1], a[2], a[3])
    [] op = "dict_from_str"     -> DictFromStr(a[1])
    [] op \in {"from_text", "from_db", "std"} -> NewFromText(a[1], a[2], a[3])
    [] op = "pb_matrix"         -> PBMatrix(a[1], a[2], a[3], a[4], a[5])
    [] op = "list_db"           -> Ok(ListDb(a[1]))
    [] op = "get_score"         -> Score(a[1], a[2], a[3])
    [] op = "get_score_by_code" -> ScoreByCode(a[1], a[2], a[3])
    [] op = "scores"            -> Ok(ScoresOver(a[1], a[2]))
    [] op = "codes"             -> Ok(CodesOver(a[1], a[2]))
    [] op = "table"             -> Ok(TableOf(a[1]))
    [] op = "is_symmetric"      -> Ok(IsSymmetricImpl(a[1]))
    [] op = "transpose"         -> Ok(Transposed(a[1]))
    [] op = "eq"                -> Ok(<<EqMatrix(a[1], a[2]), ~EqMatrix(a[1], a[2])>>)
    [] op = "eq_foreign"        -> Ok(<<FALSE, TRUE>>)           \* compared with a non-matrix
    [] op = "str"               -> Ok(RenderGrid(a[1]))
    [] op = "roundtrip"         -> Ok(RoundTrip(a[1]))
    [] op = "as_positional"     -> IF Dom_PosSeq(a[1], a[2], a[3])
                                   THEN Ok([obj |-> AsPositional(a[1], a[2], a[3]), agree |-> TRUE])
                                   ELSE Rejected
    [] op = "mapper_new"        -> MapperNew(a[1], a[2])
    [] op = "map_codes"         -> MapCodes(a[1], a[2], a[3])
    [] op = "common_alphabet"   -> Ok(CommonAlphabetImpl(a[1]))
    [] op = "poke_src"          -> PokeSrc(a[1], a[2], a[3], a[4], a[5])
    [] op = "poke_obj"          -> PokeObj(a[1], a[2], a[3], a[4], a[5])

(* ------------------------------------------------------------------ laws (S1) *)
Law_Faithful(a1, a2, t) ==                     \* array in = scores out, by code and by symbol
  LET r == NewFromArray(a1, a2, t, "int") IN
  r.oc = "ok" =>
    /\ \A i \in DOMAIN a1, j \in DOMAIN a2 :
         /\ ScoreByCode(r.out, i - 1, j - 1) = Ok(t[i][j])
         /\ Score(r.out, a1[i], a2[j]) = Ok(t[i][j])
    /\ TableOf(r.out).m = t /\ Shape(r.out) = <<NRows(t), NCols(t)>>
Law_DictArray(M) ==                            \* the dictionary of a matrix rebuilds it
  /\ NewFromDict(M.a1, M.a2, DictOf(M)) = Ok(M)
  /\ Dom_Dict(DictOf(M))
Law_Symmetric(M) == IsSymmetricImpl(M) = IsSymmetricDecl(M)
Law_Transpose(M) ==
  LET T == Transposed(M) IN
  /\ Transposed(T) = M
  /\ \A i \in DOMAIN M.a1, j \in DOMAIN M.a2 : Score(T, M.a2[j], M.a1[i]) = Score(M, M.a1[i], M.a2[j])
  /\ IsSymmetricImpl(M) = (T = M)
Law_Render(M) ==                               \* str() parses back to the same matrix
  Dom_Renderable(M) =>
    /\ DictFromStr(RenderChars(M)) = Ok(DictOf(M))
    /\ RoundTrip(M)
    /\ LET g == GridOfText(RenderChars(M)) IN
       <<g.cols>> \o [k \in DOMAIN g.rows |-> <<g.rows[k][1]>> \o g.rows[k][2]] = RenderGrid(M)
Law_Positional(M, c1, c2) ==
  Dom_PosSeq(M, c1, c2) => /\ PositionalAgrees(M, c1, c2)
                           /\ Shape(AsPositional(M, c1, c2)) = <<Len(c1), Len(c2)>>
                           /\ Dom_Alphabet(AsPositional(M, c1, c2).a1)
Law_Mapper(src, tgt) ==
  Dom_Mapper(src, tgt) =>
    /\ MapTableImpl(src, tgt) = MapTableDecl(src, tgt)
    /\ \A c \in DOMAIN src : SymOf(tgt, MapTableDecl(src, tgt)[c]) = src[c]
Law_Common(as) ==
  /\ CommonAlphabetImpl(as) = CommonAlphabetDecl(as)
  /\ (CommonAlphabetImpl(as) # <<>> =>
        /\ \E k \in DOMAIN as : as[k] = CommonAlphabetImpl(as)[1]
        /\ \A k \in DOMAIN as : Dom_Mapper(as[k], CommonAlphabetImpl(as)[1]))

(* ------------------------------------------------------------------ docstring examples *)
W(s) == <<s>>                                  \* a one-character symbol
ExFooBar == Matrix(<<<<"f", "o", "o">>, <<"b", "a", "r">>>>, <<W("1"), W("2"), W("3")>>,
                   <<<<5, 10, 15>>, <<42, 42, 42>>>>)
ASSUME NewFromDict(ExFooBar.a1, ExFooBar.a2, DictOf(ExFooBar)) = Ok(ExFooBar)
ASSUME Score(ExFooBar, <<"f", "o", "o">>, W("2")) = Ok(10) /\ ScoreByCode(ExFooBar, 0, 1) = Ok(10)
\* test_matrix_str: alphabets abc / def, scores 0..8
ExStr == Matrix(<<W("a"), W("b"), W("c")>>, <<W("d"), W("e"), W("f")>>,
                <<<<0, 1, 2>>, <<3, 4, 5>>, <<6, 7, 8>>>>)
ASSUME RenderLines(ExStr)[1] = <<"sp", "sp", "sp", "sp", "d", "sp", "sp", "sp", "e", "sp", "sp", "sp", "f">>
ASSUME RenderLines(ExStr)[3] = <<"b", "sp", "sp", "sp", "3", "sp", "sp", "sp", "4", "sp", "sp", "sp", "5">>
ASSUME Law_Render(ExStr) /\ ~IsSymmetricImpl(ExStr) /\ Law_Transpose(ExStr)
ASSUME Numeral(-120) = <<"-", "1", "2", "0">> /\ NumeralValue(<<"+", "0", "7">>) = 7
\* AlphabetMapper docstring: ACGT -> TUAGC: mapper[0] = 2, mapper[1] = 4, mapper[[1,1,3]] = [4 4 0]
ExSrc == <<W("A"), W("C"), W("G"), W("T")>>
ExTgt == <<W("T"), W("U"), W("A"), W("G"), W("C")>>
ASSUME MapCodes(ExSrc, ExTgt, <<0, 1>>) = Ok(<<2, 4>>) /\ MapCodes(ExSrc, ExTgt, <<1, 1, 3>>) = Ok(<<4, 4, 0>>)
ASSUME MapperNew(ExTgt, ExSrc) = Rejected /\ Law_Mapper(ExSrc, ExTgt)
\* test_common_alphabet: unambiguous / ambiguous nucleotides, either order; no common one
ASSUME CommonAlphabetImpl(<<ExSrc, ExSrc \o <<W("N")>>>>) = <<ExSrc \o <<W("N")>>>>
ASSUME CommonAlphabetImpl(<<ExSrc \o <<W("N")>>, ExSrc>>) = <<ExSrc \o <<W("N")>>>>
ASSUME CommonAlphabetImpl(<<ExSrc, ExTgt>>) = <<>> /\ CommonAlphabetImpl(<<>>) = <<>>
\* as_positional docstring shape: BIQTITE x IQLITE -> 7 x 6
ASSUME Shape(AsPositional(Matrix(<<W("x"), W("y")>>, <<W("x"), W("y")>>, <<<<1, 2>>, <<3, 4>>>>),
                          <<0, 1, 1, 0, 1, 0, 0>>, <<1, 0, 0, 1, 1, 0>>)) = <<7, 6>>
=============================================================================
