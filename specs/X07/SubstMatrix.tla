----------------------------- MODULE SubstMatrix -----------------------------
(* X07, exhaustive single-call configuration.

   Initial states are the base objects of six families (matrices, arrays handed to the
   constructor, dictionaries, texts, alphabet pairs, alphabet lists); one step applies one
   call:  c = [fam, op, a, aux],  r = Apply(op, a).  TLC
     * checks the laws of SubstMatrixOps on every case (S1), and
     * dumps all (c, r) pairs; the driver executes each c against the real classes (S2).
   aux carries what a law needs beyond the call arguments (the matrix and the decoration
   style a text was generated from).                                                     *)
EXTENDS SubstMatrixOps

CONSTANTS Rich          \* TRUE: larger score sets / more alphabet pairs (thorough tier)

VARIABLES c, r
vars == <<c, r>>

(* ---------------------------------------------------------------- universes *)
InjSeqs(S, k) == {s \in [1..k -> S] : \A i, j \in 1..k : i # j => s[i] # s[j]}
A1 == <<W("a")>>
AB == <<W("a"), W("b")>>
BA == <<W("b"), W("a")>>
CB == <<W("c"), W("b")>>
ABC == <<W("a"), W("b"), W("c")>>
BCA == <<W("b"), W("c"), W("a")>>
ZZ == W("z")                                     \* a symbol of no alphabet
FOO == <<"f", "o", "o">>
Vals3 == {-1, 0, 2}
Vals2 == {-1, 2}
Tables(nr, nc, V) == [1..nr -> [1..nc -> V]]
Mats(a1, a2, V) == {Matrix(a1, a2, t) : t \in Tables(Len(a1), Len(a2), V)}

MatObjs ==
  Mats(AB, AB, Vals3) \cup Mats(AB, BA, Vals2) \cup Mats(AB, CB, Vals2)
  \cup Mats(AB, ABC, IF Rich THEN Vals3 ELSE Vals2) \cup Mats(ABC, AB, IF Rich THEN Vals3 ELSE Vals2)
  \cup Mats(A1, AB, Vals3) \cup Mats(AB, A1, Vals3) \cup Mats(A1, A1, Vals3) \cup Mats(A1, <<W("b")>>, Vals3)
  \cup Mats(ABC, ABC, IF Rich THEN Vals3 ELSE Vals2)
  \cup (IF Rich THEN Mats(ABC, BCA, Vals2) \cup Mats(<<FOO, W("b")>>, <<W("b"), FOO>>, Vals3) ELSE {})

PosSeqs(n) == {<<0>>, <<n - 1, 0, n - 1>>} \cup (IF Rich THEN {<<0, 0>>, [k \in 1..n |-> n - k]} ELSE {})
PosSeqs2(n) == {<<n - 1>>, <<0, n - 1>>}
Bump(M) == Matrix(M.a1, M.a2, SetCell(M.m, Len(M.a1) - 1, Len(M.a2) - 1, M.m[Len(M.a1)][Len(M.a2)] + 1))
Relabel(M) == Matrix(M.a1, [j \in DOMAIN M.a2 |-> IF j = 1 THEN ZZ ELSE M.a2[j]], M.m)
CallsMat(M) ==
  {<<"table", <<M>>>>, <<"is_symmetric", <<M>>>>, <<"transpose", <<M>>>>, <<"str", <<M>>>>,
   <<"roundtrip", <<M>>>>, <<"scores", <<M, <<W("a"), W("b"), W("c"), ZZ>>>>>>, <<"codes", <<M, 4>>>>,
   <<"eq", <<M, M>>>>, <<"eq", <<M, Bump(M)>>>>, <<"eq", <<M, Transposed(M)>>>>, <<"eq", <<M, Relabel(M)>>>>,
   <<"eq_foreign", <<M>>>>}
  \cup {<<"as_positional", <<M, c1, c2>>>> : c1 \in PosSeqs(Len(M.a1)), c2 \in PosSeqs2(Len(M.a2))}
  \cup {<<"as_positional", <<M, <<0>>, <<>>>>>>}

\* arrays handed to the constructor: every shape 1..3 x 1..3 against a few alphabet pairs
ArrPairs == {<<AB, AB>>, <<AB, ABC>>, <<ABC, AB>>, <<A1, AB>>}
ArrShapes == {<<1, 1>>, <<1, 2>>, <<2, 1>>, <<2, 2>>, <<2, 3>>, <<3, 2>>, <<1, 3>>, <<3, 1>>}
              \cup (IF Rich THEN {<<3, 3>>} ELSE {})
Arrays == UNION {Tables(s[1], s[2], Vals2) : s \in ArrShapes}
          \cup Tables(2, 2, {0, Int32Max}) \cup Tables(2, 2, {Int32Min, 5}) \cup Tables(2, 2, {Int32Max - 1, Int32Min + 1})
CallsArr(t) == {<<"from_array", <<p[1], p[2], t, k>>>> : p \in ArrPairs, k \in {"int", "float"}}

\* dictionaries: complete, one pairing missing, additional pairings
DictMats == Mats(AB, AB, Vals2) \cup Mats(AB, ABC, Vals2) \cup Mats(A1, AB, Vals2) \cup Mats(AB, CB, Vals2)
DictsOf(M) == {DictOf(M)} \cup {DictOf(M) \ {x} : x \in DictOf(M)}
              \cup {DictOf(M) \cup {<<ZZ, ZZ, 7>>, <<M.a1[1], ZZ, 7>>}}
              \cup {DictOf(Transposed(M))}

\* texts: a matrix written in one of the decoration styles
TVals3 == {-1, 0, 10}
TVals2 == {-12, 3}
TextMats ==
  Mats(AB, AB, TVals3) \cup Mats(AB, CB, TVals2) \cup Mats(AB, ABC, TVals2) \cup Mats(ABC, AB, TVals2)
  \cup Mats(A1, AB, TVals3) \cup Mats(AB, A1, TVals3) \cup Mats(A1, A1, TVals3)
  \cup Mats(<<FOO, W("b")>>, <<W("b"), FOO>>, TVals2)
  \cup Mats(ABC, ABC, TVals2)
  \cup (IF Rich THEN Mats(ABC, BCA, TVals2) \cup Mats(AB, ABC, TVals3) \cup Mats(ABC, AB, TVals3) ELSE {})
Cmt1 == <<"#", "sp", "M", "a", "t", "r", "i", "x", "sp", "-", "1", "sp", "2">>
Cmt2 == <<"sp", "sp", "#", "a", "sp", "b">>
Style(lead, hlead, seps, trail, pre, mid, post, plus, zero, fin) ==
  [lead |-> lead, hlead |-> hlead, seps |-> seps, trail |-> trail, pre |-> pre, mid |-> mid,
   post |-> post, plus |-> plus, zero |-> zero, fin |-> fin]
Styles == <<
  Style(<<>>, <<>>, <<<<"sp">>>>, <<>>, <<>>, <<>>, <<>>, FALSE, FALSE, 0),
  \* like the database files: comments first, header indented, two blanks, trailing blank
  Style(<<>>, <<"sp", "sp", "sp">>, <<<<"sp", "sp">>>>, <<"sp">>, <<Cmt1, <<"#">>>>, <<>>, <<>>, FALSE, FALSE, 1),
  \* tabs, CRLF, blank lines between the rows
  Style(<<>>, <<"tab">>, <<<<"tab">>>>, <<"cr">>, <<<<"cr">>>>, <<<<>>>>, <<<<>>, <<"cr">>>>, FALSE, FALSE, 1),
  \* misaligned columns, indented lines, comment lines between rows
  Style(<<"sp", "tab">>, <<>>, <<<<"sp">>, <<"sp", "sp", "sp">>, <<"tab", "sp">>>>, <<"sp", "sp">>,
        <<<<>>, Cmt2>>, <<Cmt2>>, <<Cmt1>>, FALSE, FALSE, 0),
  \* explicit plus signs and leading zeros
  Style(<<>>, <<"sp">>, <<<<"sp">>>>, <<>>, <<>>, <<>>, <<>>, TRUE, TRUE, 2),
  \* white-space-only lines, form feed / vertical tab as blanks
  Style(<<"vt">>, <<"ff", "sp">>, <<<<"sp", "ff">>>>, <<"vt">>, <<<<"sp", "sp">>>>, <<<<"tab">>>>, <<<<"sp">>>>, FALSE, TRUE, 1)
>>
NumeralIn(v, st) ==
  LET body == (IF st.zero THEN <<"0">> ELSE <<>>) \o DecDigits(IF v < 0 THEN -v ELSE v)
  IN IF v < 0 THEN <<"-">> \o body ELSE IF st.plus THEN <<"+">> \o body ELSE body
JoinCells(cells, st, lead) ==
  lead \o FoldLeft(LAMBDA acc, k : IF k = 1 THEN cells[1]
                                  ELSE acc \o st.seps[((k - 2) % Len(st.seps)) + 1] \o cells[k],
                   <<>>, [k \in DOMAIN cells |-> k]) \o st.trail
TextLines(M, st) ==
  st.pre \o <<JoinCells(M.a2, st, st.lead \o st.hlead)>>
  \o Concat([i \in DOMAIN M.a1 |->
               <<JoinCells(<<M.a1[i]>> \o [j \in DOMAIN M.a2 |-> NumeralIn(M.m[i][j], st)], st, st.lead)>> \o st.mid])
  \o st.post
TextOf(M, st) == JoinNl(TextLines(M, st)) \o [k \in 1..st.fin |-> "nl"]
\* texts with a word that is no numeral
BadWords == {<<"x">>, <<"1", ".", "5">>, <<"-">>, <<"-", "-", "1">>, <<"1", "e", "2">>}
BadTexts == {JoinNl(<<<<"a", "sp", "b">>, <<"a", "sp", "1", "sp">> \o w, <<"b", "sp">> \o w2 \o <<"sp", "2">>>>) :
               w \in BadWords, w2 \in BadWords \cup {<<"3">>}}

\* alphabet pairs for AlphabetMapper, alphabet lists for common_alphabet
Sy4 == {W("a"), W("b"), W("c"), W("d")}
Sy3 == {W("a"), W("b"), W("c")}
MapAlphs == UNION {InjSeqs(Sy4, k) : k \in 1..(IF Rich THEN 4 ELSE 3)}
ComAlphs == UNION {InjSeqs(Sy3, k) : k \in 1..3}
AllCodes(a) == [k \in 1..(Len(a) + 1) |-> IF k = Len(a) + 1 THEN 0 ELSE Len(a) - k]

(* ---------------------------------------------------------------- state machine *)
Case(fam, op, a, aux) == [fam |-> fam, op |-> op, a |-> a, aux |-> aux]
Init ==
  /\ \/ \E M \in MatObjs  : c = Case("mat", "init", <<M>>, <<>>)
     \/ \E t \in Arrays   : c = Case("arr", "init", <<t>>, <<>>)
     \/ \E M \in DictMats : c = Case("dict", "init", <<M>>, <<>>)
     \/ \E M \in TextMats : c = Case("text", "init", <<M>>, <<>>)
     \/ c = Case("badtext", "init", <<>>, <<>>)
     \/ \E s \in MapAlphs : c = Case("mapper", "init", <<s>>, <<>>)
     \/ \E s \in ComAlphs \cup {<<>>} : c = Case("common", "init", <<s>>, <<>>)
  /\ r = Ok(<<>>)
Emit(fam, op, a, aux) == c' = Case(fam, op, a, aux) /\ r' = Apply(op, a)
Next ==
  /\ c.op = "init"
  /\ \/ /\ c.fam = "mat"
        /\ \E call \in CallsMat(c.a[1]) : Emit("mat", call[1], call[2], <<>>)
     \/ /\ c.fam = "arr"
        /\ \E call \in CallsArr(c.a[1]) : Emit("arr", call[1], call[2], <<>>)
     \/ /\ c.fam = "dict"
        /\ \E D \in DictsOf(c.a[1]) : Emit("dict", "from_dict", <<c.a[1].a1, c.a[1].a2, D>>, <<c.a[1]>>)
     \/ /\ c.fam = "text"
        /\ \E k \in DOMAIN Styles :
             \/ Emit("text", "dict_from_str", <<TextOf(c.a[1], Styles[k])>>, <<c.a[1], k>>)
             \/ /\ k <= 2
                /\ Emit("text", "from_text", <<c.a[1].a1, c.a[1].a2, TextOf(c.a[1], Styles[k])>>, <<c.a[1], k>>)
             \/ /\ k = 1        \* the text lacks a symbol of the alphabet / has more than needed
                /\ \/ Emit("text", "from_text", <<Append(c.a[1].a1, ZZ), c.a[1].a2, TextOf(c.a[1], Styles[k])>>, <<>>)
                   \/ Emit("text", "from_text", <<<<c.a[1].a1[1]>>, c.a[1].a2, TextOf(c.a[1], Styles[k])>>,
                           <<Matrix(<<c.a[1].a1[1]>>, c.a[1].a2, <<c.a[1].m[1]>>), k>>)
     \/ /\ c.fam = "badtext"
        /\ \E t \in BadTexts : \/ Emit("badtext", "dict_from_str", <<t>>, <<>>)
                               \/ Emit("badtext", "from_text", <<AB, AB, t>>, <<>>)
     \/ /\ c.fam = "mapper"
        /\ \E t \in MapAlphs : \/ Emit("mapper", "mapper_new", <<c.a[1], t>>, <<>>)
                               \/ Emit("mapper", "map_codes", <<c.a[1], t, AllCodes(c.a[1])>>, <<>>)
     \/ /\ c.fam = "common"
        /\ \E s2 \in ComAlphs \cup {<<>>}, s3 \in ComAlphs \cup {<<>>} :
             /\ (c.a[1] = <<>> => s2 = <<>>) /\ (s2 = <<>> => s3 = <<>>)      \* <<>> = list ends here
             /\ Emit("common", "common_alphabet", <<SelectSeq(<<c.a[1], s2, s3>>, LAMBDA x : x # <<>>)>>, <<>>)
Spec == Init /\ [][Next]_vars

(* ---------------------------------------------------------------- laws per case *)
IsCase == c.op # "init"
InvMatLaws ==
  c.op = "table" =>
     LET M == c.a[1] IN
     /\ Dom_Matrix(M)
     /\ Law_Faithful(M.a1, M.a2, M.m)
     /\ Law_DictArray(M)
     /\ Law_Symmetric(M)
     /\ Law_Transpose(M)
     /\ Law_Render(M)
InvPositional == c.op = "as_positional" => Law_Positional(c.a[1], c.a[2], c.a[3])
InvArray ==
  c.op = "from_array" =>
     /\ Law_Faithful(c.a[1], c.a[2], c.a[3])
     /\ (r.oc = "ok" <=> (c.a[4] = "int" /\ Dom_Matrix(Matrix(c.a[1], c.a[2], c.a[3]))))
InvDict ==
  c.op = "from_dict" =>
     /\ Dom_Dict(c.a[3])
     /\ (DictOf(c.aux[1]) \subseteq c.a[3] => r = Ok(c.aux[1]))
     /\ (r.oc = "ok" => DictOf(r.out) \subseteq c.a[3] /\ r.out.a1 = c.a[1] /\ r.out.a2 = c.a[2])
     /\ (r.oc # "ok" => r.oc = "KeyError" /\ ~(DictOf(c.aux[1]) \subseteq c.a[3]))
\* the parser does not see the decoration: every style of writing M denotes DictOf(M)
InvTextStyle ==
  (c.fam = "text" /\ IsCase /\ c.aux # <<>>) =>
     LET M == c.aux[1]  txt == TextOf(M, Styles[c.aux[2]]) IN
     /\ Dom_Text(txt)
     /\ (c.op = "dict_from_str" => r = Ok(DictOf(M)) /\ Dom_Dict(r.out))
     /\ (c.op = "from_text" => r = Ok(M))
InvTextMissing == (c.fam = "text" /\ IsCase /\ c.aux = <<>>) => r.oc = "KeyError"
InvBadText == c.fam = "badtext" /\ IsCase => r.oc = "Rejected"
InvMapper ==
  c.fam = "mapper" /\ IsCase =>
     /\ Law_Mapper(c.a[1], c.a[2])
     /\ (r.oc = "ok") = Dom_Mapper(c.a[1], c.a[2])
     /\ (c.op = "map_codes" /\ r.oc = "ok" =>
           \A k \in DOMAIN c.a[3] : SymOf(c.a[2], r.out[k]) = SymOf(c.a[1], c.a[3][k]))
InvCommon == c.op = "common_alphabet" => Law_Common(c.a[1])
InvOutcome == r.oc \in {"ok", "KeyError", "Rejected"}
=============================================================================
