------------------------------- MODULE Trace -------------------------------
(* X07 direction code -> spec: calls recorded from the real SubstitutionMatrix /
   AlphabetMapper / common_alphabet are re-computed by SubstMatrixOps.Apply.
   TRACE_FILE is a JSON array of traces; a trace is an array of events {op, a, oc, out}.
   Every event is self-contained (objects are passed in `a` as {a1, a2, m} with symbols as
   lists of characters), so one run reports every disagreement:
       <<"MISMATCH", tid, event, <<okOc, okOut>> or <<"DOMAIN">>, expected oc, expected out>>
   Sets travel as lists (dictionaries: lists of [symbol1, symbol2, score]).               *)
EXTENDS SubstMatrixOps, Json, IOUtils

Tr == JsonDeserialize(IOEnv.TRACE_FILE)

VARIABLES tid, l
tvars == <<tid, l>>

Args(e) ==
  CASE e.op = "from_dict" -> <<e.a[1], e.a[2], ToSet(e.a[3])>>
    [] e.op = "list_db"   -> <<ToSet(e.a[1])>>
    [] e.op = "std"       -> <<e.a[1], e.a[2], e.a[3]>>
    [] OTHER -> e.a

IsSetOut(op) == op \in {"dict_from_str", "list_db"}
AlwaysOut(op) == op \in {"poke_src", "poke_obj"}       \* the post-state is compared whatever the outcome

\* the layout of the docstring is asserted where the docstring shows it: one-letter symbols,
\* scores of at most 3 characters
Dom_RenderDoc(M) ==
  /\ \A i \in DOMAIN M.a1 : Len(M.a1[i]) = 1
  /\ \A j \in DOMAIN M.a2 : Len(M.a2[j]) = 1
  /\ \A v \in Entries(M.m) : v > -100 /\ v < 1000

OutOK(e, r) ==
  CASE IsSetOut(e.op) -> r.out = ToSet(e.out) /\ Cardinality(r.out) = Len(e.out)
    [] e.op = "str"   -> /\ r.out = e.out.grid
                         /\ (Dom_Renderable(e.a[1]) => DictFromStr(e.out.chars) = Ok(DictOf(e.a[1])))
                         /\ (Dom_Renderable(e.a[1]) /\ Dom_RenderDoc(e.a[1]) => e.out.chars = RenderChars(e.a[1]))
    [] OTHER -> r.out = e.out

Judge(e, r) ==
  LET okOc  == r.oc = e.oc
      okOut == IF AlwaysOut(e.op) \/ (r.oc = "ok" /\ e.oc = "ok") THEN OutOK(e, r) ELSE TRUE
  IN IF okOc /\ okOut THEN TRUE
     ELSE PrintT(<<"MISMATCH", tid, l + 1, <<okOc, okOut>>, r.oc, r.out>>)

\* the recorded call lies in the domain the specification speaks about (the generators are
\* supposed to stay inside; a violation is a failure of the machinery, not of biotite)
TextOK(chars) ==
  LET g == GridOfText(chars) IN
  \/ Dom_TextGrid(g)
  \/ g.header /\ \E k \in DOMAIN g.rows : \E q \in DOMAIN g.rows[k][2] : ~IsNumeral(g.rows[k][2][q])
AlphOK(x) == Dom_Alphabet(x)
DomOK(e) ==
  CASE e.op = "from_array" -> AlphOK(e.a[1]) /\ AlphOK(e.a[2]) /\ Dom_Rect(e.a[3])
    [] e.op = "from_dict"  -> AlphOK(e.a[1]) /\ AlphOK(e.a[2]) /\ Dom_Dict(ToSet(e.a[3]))
                              /\ Cardinality(ToSet(e.a[3])) = Len(e.a[3])
    [] e.op = "dict_from_str" -> TextOK(e.a[1])
    [] e.op \in {"from_text", "from_db"} -> AlphOK(e.a[1]) /\ AlphOK(e.a[2]) /\ TextOK(e.a[3])
    [] e.op = "std" -> AlphOK(e.a[1]) /\ TextOK(e.a[3]) /\ e.a[5] = StdName(e.a[4])
    [] e.op = "pb_matrix" -> AlphOK(e.a[2]) /\ TextOK(e.a[1]) /\ InAlph(e.a[2], e.a[3]) /\ e.a[6] = StdName("pb")
    [] e.op = "list_db" -> TRUE
    [] e.op = "get_score_by_code" -> Dom_Matrix(e.a[1]) /\ e.a[2] >= 0 /\ e.a[3] >= 0
    [] e.op \in {"get_score", "scores", "codes", "table", "is_symmetric", "transpose", "eq_foreign", "str"}
         -> Dom_Matrix(e.a[1])
    [] e.op = "roundtrip" -> Dom_Matrix(e.a[1]) /\ Dom_Renderable(e.a[1])
    [] e.op = "eq" -> Dom_Matrix(e.a[1]) /\ Dom_Matrix(e.a[2])
    [] e.op = "as_positional" -> Dom_Matrix(e.a[1])
    [] e.op = "mapper_new" -> AlphOK(e.a[1]) /\ AlphOK(e.a[2])
    [] e.op = "map_codes" -> /\ AlphOK(e.a[1]) /\ AlphOK(e.a[2])
                             /\ \A k \in DOMAIN e.a[3] : Dom_Code(e.a[1], e.a[3][k])
    [] e.op = "common_alphabet" -> \A k \in DOMAIN e.a[1] : AlphOK(e.a[1][k])
    [] e.op \in {"poke_src", "poke_obj"} -> Dom_Rect(e.a[1]) /\ Dom_Matrix(e.a[2])
    [] OTHER -> FALSE
CheckDom(e) ==
  IF DomOK(e) THEN TRUE ELSE PrintT(<<"MISMATCH", tid, l + 1, <<"DOMAIN">>, "", <<>>>>)

Init == tid \in 1..Len(Tr) /\ l = 0
Next == /\ l < Len(Tr[tid])
        /\ l' = l + 1
        /\ UNCHANGED tid
        /\ LET e == Tr[tid][l + 1] IN
           IF CheckDom(e) /\ DomOK(e) THEN Judge(e, Apply(e.op, Args(e))) ELSE TRUE
Spec == Init /\ [][Next]_tvars
=============================================================================
