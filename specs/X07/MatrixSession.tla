---------------------------- MODULE MatrixSession ----------------------------
(* X07, histories: "Objects of this class are immutable", "The array is read-only".

   A caller owns a score array `src` (2 x 2), builds a SubstitutionMatrix from it (as int32
   array, as int64 array, or through a dictionary filled from it), keeps changing its own
   array, tries to write through score_matrix(), derives transposed and positional matrices
   and builds again.  The matrix object `obj` must only ever change by the calls that return
   a new object.  One action per call; the state graph is replayed against the real class
   (S2), `hist` is a history variable for the invariant only.                            *)
EXTENDS SubstMatrixOps

CONSTANTS Depth

VARIABLES src,     \* the caller's array
          obj,     \* <<>> or <<matrix>>: the SubstitutionMatrix the caller holds
          oc,      \* outcome of the last call
          hist,    \* <<>> or <<array at build time, calls applied to the object since>>
          fl       \* <<the caller's array is writeable, the array of score_matrix() is writeable>>
vars == <<src, obj, oc, hist, fl>>

SAB == <<W("a"), W("b")>>
PosArgs == << <<<<1, 0, 1>>, <<0, 1>>>>, <<<<1>>, <<0, 0>>>> >>
AllCalls ==
  {<<"build", f>> : f \in {"i4", "i8", "dict"}}
  \cup {<<"poke_src", i, j>> : i \in 0..1, j \in 0..1}
  \cup {<<"poke_obj", i, j>> : i \in 0..1, j \in 0..1}
  \cup {<<"transpose">>} \cup {<<"positional", PosArgs[k][1], PosArgs[k][2]>> : k \in DOMAIN PosArgs}

Built == obj # <<>>
Call(c) ==
  /\ UNCHANGED fl
  /\ \/ /\ c[1] = "build"
        /\ obj' = <<NewFromArray(SAB, SAB, src, "int").out>>
        /\ hist' = <<src, <<>>>>
        /\ oc' = "ok" /\ UNCHANGED src
     \/ /\ c[1] = "poke_src"
        /\ src' = PokeSrc(src, obj, c[2], c[3], 1 - src[c[2] + 1][c[3] + 1]).out.src
        /\ oc' = "ok" /\ UNCHANGED <<obj, hist>>
     \/ /\ c[1] = "poke_obj" /\ Built
        /\ Dom_Code(obj[1].a1, c[2]) /\ Dom_Code(obj[1].a2, c[3])
        /\ oc' = PokeObj(src, obj[1], c[2], c[3], 7).oc
        /\ UNCHANGED <<src, obj, hist>>
     \/ /\ c[1] = "transpose" /\ Built
        /\ obj' = <<Transposed(obj[1])>>
        /\ hist' = <<hist[1], Append(hist[2], c)>>
        /\ oc' = "ok" /\ UNCHANGED src
     \/ /\ c[1] = "positional" /\ Built
        /\ Dom_PosSeq(obj[1], c[2], c[3])
        /\ obj' = <<AsPositional(obj[1], c[2], c[3])>>
        /\ hist' = <<hist[1], Append(hist[2], c)>>
        /\ oc' = "ok" /\ UNCHANGED src

Init == /\ src \in [1..2 -> [1..2 -> {0, 1}]]
        /\ obj = <<>> /\ oc = "ok" /\ hist = <<>> /\ fl = <<TRUE, FALSE>>
Next == \E c \in AllCalls : Call(c)
Spec == Init /\ [][Next]_vars
Bounded == TLCGet("level") <= Depth

(* ---------------------------------------------------------------- invariants *)
Derive(h) == FoldLeft(LAMBDA M, c : IF c[1] = "transpose" THEN Transposed(M)
                                    ELSE AsPositional(M, c[2], c[3]),
                      Matrix(SAB, SAB, h[1]), h[2])
\* the object is a function of the array at build time and of the calls on the object
InvIndependent == Built => obj[1] = Derive(hist)
InvWellFormed  == Built => Dom_Matrix(obj[1])
InvOutcome     == oc \in {"ok", "Rejected"}
\* only calls returning a new object change what the caller holds; a refusal changes nothing
ObjOnlyByNew == [][obj' # obj => \E c \in AllCalls : c[1] \in {"build", "transpose", "positional"} /\ Call(c)]_vars
RefusalIsNoOp == [][oc' = "Rejected" => UNCHANGED <<src, obj>>]_vars
=============================================================================
