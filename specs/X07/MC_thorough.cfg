SPECIFICATION Spec
CONSTANTS
  Rich = TRUE
INVARIANT InvMatLaws
INVARIANT InvPositional
INVARIANT InvArray
INVARIANT InvDict
INVARIANT InvTextStyle
INVARIANT InvTextMissing
INVARIANT InvBadText
INVARIANT InvMapper
INVARIANT InvCommon
INVARIANT InvOutcome
CHECK_DEADLOCK FALSE
