SPECIFICATION Spec
CONSTANTS
  Depth = 5
CONSTRAINT Bounded
INVARIANT InvIndependent
INVARIANT InvWellFormed
INVARIANT InvOutcome
PROPERTY ObjOnlyByNew
PROPERTY RefusalIsNoOp
CHECK_DEADLOCK FALSE
