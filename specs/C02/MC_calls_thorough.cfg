SPECIFICATION Spec
CONSTANTS
  T = {0, 1, 5}
  MaxFormN = 5
  MaxEqN = 3
  Rich = TRUE
INVARIANT InvRoot
INVARIANT InvCanonical
INVARIANT InvRefusal
INVARIANT InvFormFree
INVARIANT InvScalarIndex
INVARIANT InvEquality
INVARIANT InvForeign
CHECK_DEADLOCK FALSE
