------------------------------- MODULE BondList -------------------------------
(* C02: exhaustive state machine over BondListOps.Apply (see BondListOps.tla). *)
EXTENDS BondListOps

(* ---------------------------------------------------------------- state machine *)
CONSTANTS MaxN,        \* largest atom count explored
          T,           \* bond types used by the exhaustive configuration
          Depth,       \* maximum number of calls per behaviour
          Rich         \* TRUE: the large index / argument universe (thorough tier)

VARIABLES n, B, cmax, oc, out,
          fin          \* TRUE after a comparison: it is an observation that ends the explored history
                       \* (its result holds the compared list, so every comparison is a state of its own)
vars == <<n, B, cmax, oc, out, fin>>
Cur == [n |-> n, B |-> B, cmax |-> cmax]

IdxRange(k) == (-k-2)..(k+1)          \* includes two out-of-range values on each side

\* small operand lists for merge / concat / remove_bonds (as constructor input)
Operands == {<<0, <<>>>>, <<1, <<>>>>, <<2, <<<<0, 1, 1>>>>>>, <<2, <<<<1, 0, 5>>>>>>,
             <<3, <<<<0, 1, 5>>, <<-1, 1, 1>>>>>>, <<3, <<<<0, 2, 0>>>>>>}

ConstructArgs ==
  {<<k, rows>> : k \in 0..MaxN,
     rows \in {<<>>} \cup
       {<<r1>> : r1 \in {<<0,1,1>>, <<1,0,5>>, <<-1,0,0>>, <<0,2,1>>, <<-3,-1,5>>, <<-4,0,1>>, <<0,3,1>>}} \cup
       {<<r1, r2>> : r1 \in {<<0,1,1>>, <<1,0,5>>, <<1,2,0>>}, r2 \in {<<1,0,5>>, <<0,1,0>>, <<-1,-2,1>>, <<2,0,5>>, <<0,-3,1>>}} \cup
       {<<<<0,1,1>>, <<1,2,5>>, <<2,0,0>>>>, <<<<1,0,0>>, <<0,1,1>>, <<-2,-3,5>>>>}}

\* lists and objects the current list is compared with (see BondListOps "equality"): its own
\* one-aspect variants and the small operand lists
ObjCodes == 0..5
EqArgs(maxN, Ts) ==
       {<<"same", <<>>>>, <<"rev", <<>>>>}
  \cup {<<"natoms", <<d>>>> : d \in {-2, -1, 1, 2}}
  \cup {<<"retype", <<k, t>>>> : k \in 1..((maxN * (maxN - 1)) \div 2), t \in Ts}
  \cup {<<"drop", <<k>>>> : k \in 1..((maxN * (maxN - 1)) \div 2)}
  \cup {<<"dup", <<k, t>>>> : k \in 1..((maxN * (maxN - 1)) \div 2), t \in Ts}
  \cup {<<"extra", <<i, j, t>>>> : i \in 0..(maxN - 2), j \in 1..(maxN - 1), t \in Ts}
  \cup {<<"obj", <<o>>>> : o \in ObjCodes}
  \cup {<<"list", o>> : o \in Operands}

DistinctWrapped(i, j, k) == ~(InRange(i, k) /\ InRange(j, k) /\ WrapOne(i, k) = WrapOne(j, k))

Calls(S) ==
       {<<"construct", a>> : a \in ConstructArgs}
  \cup {<<"add", <<i, j, t>>>> : i \in IdxRange(S.n), j \in IdxRange(S.n), t \in T}
  \cup {<<"remove", <<i, j>>>> : i \in IdxRange(S.n), j \in IdxRange(S.n)}
  \cup {<<"remove_to", <<i>>>> : i \in IdxRange(S.n)}
  \cup {<<"remove_bonds", a>> : a \in Operands}
  \cup {<<"merge", a>> : a \in Operands}
  \cup {<<"concat", a>> : a \in Operands}
  \cup {<<"rconcat", a>> : a \in Operands}
  \cup {<<"offset", <<k>>>> : k \in {-1, 0, 1, 2}}
  \cup {<<"strip_arom", <<>>>>, <<"strip_order", <<>>>>, <<"views", <<>>>>, <<"copy", <<>>>>}
  \cup {<<"independent", <<"index", x>>>> : x \in MaskIdx(S.n) \cup AllIdx
                                                   \cup {<<"slice", <<<<>>, <<>>, <<-1>>>>>>, <<"slice", <<<<0>>, <<>>, <<>>>>>>,
                                                         <<"arr", [i \in 1..S.n |-> i - 1]>>, <<"arr", <<0, 0>>>>}}
  \cup {<<"independent", <<"merge", a>>>> : a \in Operands}
  \cup {<<"independent", <<"concat", a>>>> : a \in Operands}
  \cup {<<"independent", <<"copy", <<>>>>>>}
  \cup {<<"get_bonds", <<i>>>> : i \in IdxRange(S.n)}
  \cup {<<"contains", <<i, j>>>> : i \in 0..(S.n-1), j \in 0..(S.n-1)}
  \cup {<<"eq", a>> : a \in EqArgs(MaxN, T)}
  \cup {<<"index", <<x>>>> : x \in IntIdx(IdxRange(S.n))
                              \cup (IF Rich THEN SliceIdx({-4,-1,0,1,2,5}, {-4,-2,0,1,3,5}, {-2,-1,1,2,0})
                                           ELSE SliceIdx({-4,-1,1}, {-2,0,2,5}, {-2,-1,2,0}))
                              \cup MaskIdx(S.n)
                              \cup ArrIdx((-S.n-1)..S.n, IF Rich THEN Min2(S.n, 3) ELSE Min2(S.n, 2))
                              \cup (IF Rich THEN {} ELSE {<<"arr", <<2, 0, 1>>>>, <<"arr", <<-1, 1, -3>>>>, <<"arr", <<1, 2, -2>>>>})
                              \cup AllIdx}

\* calls in the property's domain: a bond joins two distinct atoms
InDomain(S, c) ==
  /\ (c[1] \in {"add", "remove"} => DistinctWrapped(c[2][1], c[2][2], S.n))
  /\ (c[1] = "construct" =>
        \A k \in DOMAIN c[2][2] : DistinctWrapped(c[2][2][k][1], c[2][2][k][2], c[2][1]))
  /\ (c[1] = "contains" => c[2][1] # c[2][2])
  /\ (c[1] = "eq" => Dom_EqArg(S, c[2]))

Do(op, a) ==
  LET r == Apply(Cur, op, a) IN
  /\ InDomain(Cur, <<op, a>>)
  /\ r.n <= MaxN
  /\ n' = r.n /\ B' = r.B /\ cmax' = r.cmax /\ oc' = r.oc /\ out' = r.out
  /\ fin' = (op = "eq")

Init == n = 0 /\ B = {} /\ cmax = 0 /\ oc = "ok" /\ out = <<>> /\ fin = FALSE
\* constant call universe, tagged with the atom count it applies to, so that TLC splits Next
\* into one labelled sub-action per call (labels are read back from the dot dump)
AllCalls == UNION {{<<k, c[1], c[2]>> : c \in Calls([n |-> k])} : k \in 0..MaxN}
Call(c) == ~fin /\ c[1] = n /\ Do(c[2], c[3])
Next == \E c \in AllCalls : Call(c)
Spec == Init /\ [][Next]_vars

DepthBound == TLCGet("level") <= Depth

(* ---------------------------------------------------------------- properties *)
InvCanonical == Canonical(B, n)
InvCacheSound == cmax >= MaxDegree(B, n)      \* protects the unchecked buffer writes of the views
InvTypes == \A b \in B : b[3] \in Types
\* a refused call changes nothing (action property)
RefusalIsNoOp == [][oc' # "ok" => (n' = n /\ B' = B /\ cmax' = cmax)]_vars
\* the two neighbour definitions agree: per-atom table is symmetric
InvViewsSymmetric == \A i, j \in 0..(n-1) : (<<j, TypeAt(B,i,j)>> \in Neighbours(B, i)) = (i # j /\ Adjacent(B, i, j))
\* merge precedence and construct-first-wins are checked as ASSUMEs on the operators
ASSUME Merge({<<0,1,1>>, <<1,2,1>>}, {<<1,2,2>>, <<2,3,2>>}) = {<<0,1,1>>, <<1,2,2>>, <<2,3,2>>}
ASSUME ConstructSet(<<<<1,0,5>>, <<0,1,1>>, <<-1,0,2>>>>, 3) = {<<0,1,5>>, <<0,2,2>>}
\* equality: atom count and mapping, whatever the rows look like
ASSUME LET S == [n |-> 3, B |-> {<<0,1,5>>, <<0,2,2>>}, cmax |-> 2] IN
       /\ Apply(S, "eq", <<"list", <<3, <<<<-1,0,2>>, <<1,0,5>>, <<0,1,1>>>>>>>>).out.eq
       /\ ~Apply(S, "eq", <<"list", <<4, <<<<0,1,5>>, <<0,2,2>>>>>>>>).out.eq
       /\ ~Apply(S, "eq", <<"list", <<3, <<<<0,1,5>>, <<0,2,1>>>>>>>>).out.eq
       /\ Apply(S, "eq", <<"rev", <<>>>>).out = [other |-> <<3, <<<<-1,0,2>>, <<-2,0,5>>>>>>, eq |-> TRUE]
       /\ ~Apply(S, "eq", <<"natoms", <<1>>>>).out.eq
=============================================================================
