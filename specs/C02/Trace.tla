------------------------------- MODULE Trace -------------------------------
(* C02 direction B: validate executions recorded from the real BondList against
   BondListOps.Apply.  TRACE_FILE is a JSON array of traces; a trace is an array of events
     {op, a, oc, n, bonds, out}
   (post-state projection n / bonds after the call; event 1 is always a "construct").
   Every event is judged on its own: the expected post-state is computed from the *logged*
   pre-state, so one run reports every disagreement (printed as <<"MISMATCH", ...>>). *)
EXTENDS BondListOps, Json, IOUtils

Tr == JsonDeserialize(IOEnv.TRACE_FILE)

VARIABLES tid, l, S
tvars == <<tid, l, S>>

NoDupSeq(s) == Cardinality(ToSet(s)) = Len(s)

OutMatches(op, a, exp, got) ==
  CASE op = "get_bonds" \/ (op = "index" /\ a[1][1] = "int") ->
         ToSet(got) = exp /\ NoDupSeq(got)
    [] op = "contains" -> got = exp
    [] op = "independent" -> got = exp
    [] op = "views" ->
         /\ Len(got.nb) = Len(exp.nb)
         /\ \A k \in DOMAIN exp.nb : ToSet(got.nb[k]) = exp.nb[k] /\ NoDupSeq(got.nb[k])
         /\ ToSet(got.adj) = exp.adj
         /\ ToSet(got.tm) = exp.tm
         /\ ToSet(got.set) = exp.set /\ NoDupSeq(got.set)
         /\ ToSet(got.graph) = exp.graph
         /\ got.eqcopy = exp.eqcopy
         /\ got.cnt = exp.cnt
    [] OTHER -> TRUE

Judge(e, r) ==
  LET okOc  == r.oc = e.oc
      okN   == r.n = e.n
      okB   == r.B = ToSet(e.bonds) /\ NoDupSeq(e.bonds)
      okOut == IF r.oc = "ok" /\ e.oc = "ok" THEN OutMatches(e.op, e.a, r.out, e.out) ELSE TRUE
      okCache == e.cmax_ok
  IN IF okOc /\ okN /\ okB /\ okOut /\ okCache THEN TRUE
     ELSE PrintT(<<"MISMATCH", tid, l + 1, <<okOc, okN, okB, okOut, okCache>>, r.oc, r.n, r.B, r.out>>)

Init == /\ tid \in 1..Len(Tr)
        /\ l = 0
        /\ S = [n |-> 0, B |-> {}, cmax |-> 0]

Next == /\ l < Len(Tr[tid])
        /\ l' = l + 1
        /\ UNCHANGED tid
        /\ LET e == Tr[tid][l + 1]
               r == Apply(S, e.op, e.a)
           IN /\ Judge(e, r)
              \* resynchronise on the logged observation; cmax is the model's own
              /\ S' = [n |-> e.n, B |-> ToSet(e.bonds), cmax |-> IF r.n = e.n /\ r.B = ToSet(e.bonds) THEN r.cmax ELSE MaxDegree(ToSet(e.bonds), e.n)]

Spec == Init /\ [][Next]_tvars
=============================================================================
