------------------------------- MODULE Trace -------------------------------
(* C02 direction B: validate executions recorded from the real BondList against
   BondListOps.Apply.  TRACE_FILE is a JSON array of traces; a trace is an array of events
     {op, a, oc, n, bonds, out}      (a may carry the forms of the arguments, see BondListOps)
   (post-state projection n / bonds after the call; event 1 is always a "construct").
   Every event is judged on its own: the expected post-state is computed from the *logged*
   pre-state, so one run reports every disagreement (printed as <<"MISMATCH", ...>>). *)
EXTENDS BondListOps, Json, IOUtils

Tr == JsonDeserialize(IOEnv.TRACE_FILE)

VARIABLES tid, l, S
tvars == <<tid, l, S>>

NoDupSeq(s) == Cardinality(ToSet(s)) = Len(s)

OutMatches(op, a, exp, got) ==
  CASE op = "get_bonds" \/ (op = "index" /\ a[1][1] = "int") ->
         ToSet(got) = exp /\ NoDupSeq(got)
    [] op = "contains" -> got = exp
    [] op = "independent" -> got = exp
    \* == and not-!= in both operand orders (foreign objects: as far as Python defines them)
    [] op = "eq" -> Len(got) >= 2 /\ \A k \in DOMAIN got : got[k] = exp.eq
    [] op = "views" ->
         /\ Len(got.nb) = Len(exp.nb)
         /\ \A k \in DOMAIN exp.nb : ToSet(got.nb[k]) = exp.nb[k] /\ NoDupSeq(got.nb[k])
         /\ ToSet(got.adj) = exp.adj
         /\ ToSet(got.tm) = exp.tm
         /\ ToSet(got.set) = exp.set /\ NoDupSeq(got.set)
         /\ ToSet(got.graph) = exp.graph
         /\ got.eqcopy = exp.eqcopy
         /\ got.cnt = exp.cnt
    [] OTHER -> TRUE

\* the forms in which the driver handed the arguments over are admissible (BondListOps "index
\* forms"); a logged call outside the domain is a defect of the driver, reported as DOMAIN
FormsOk(op, a) ==
  CASE op = "index"     -> Len(a[1]) = 2 \/ Dom_IdxForm(a[1])
    [] op = "independent" -> a[1] # "index" \/ Len(a[2]) = 2 \/ Dom_IdxForm(a[2])
    [] op = "add"       -> Len(a) = 3 \/ (Dom_ScalarForm(a[1], a[4][1]) /\ Dom_ScalarForm(a[2], a[4][2]))
    [] op \in {"remove", "contains"} -> Len(a) = 2 \/ (Dom_ScalarForm(a[1], a[3][1]) /\ Dom_ScalarForm(a[2], a[3][2]))
    [] op \in {"remove_to", "get_bonds", "offset"} -> Len(a) = 1 \/ Dom_ScalarForm(a[1], a[2])
    [] op = "construct" -> Len(a) = 2 \/ Dom_RowsForm(a[2], a[3])
    [] op = "eq"        -> a[1] \in {"list", "obj"}
    [] OTHER -> TRUE
DomainOk(e) == IF FormsOk(e.op, e.a) THEN TRUE ELSE PrintT(<<"DOMAIN", tid, l + 1>>)

Judge(e, r) ==
  LET okOc  == r.oc = e.oc
      okN   == r.n = e.n
      okB   == r.B = ToSet(e.bonds) /\ NoDupSeq(e.bonds)
      okOut == IF r.oc = "ok" /\ e.oc = "ok" THEN OutMatches(e.op, e.a, r.out, e.out) ELSE TRUE
      okCache == e.cmax_ok
  IN IF okOc /\ okN /\ okB /\ okOut /\ okCache THEN TRUE
     ELSE PrintT(<<"MISMATCH", tid, l + 1, <<okOc, okN, okB, okOut, okCache>>, r.oc, r.n, r.B, r.out>>)

Init == /\ tid \in 1..Len(Tr)
        /\ l = 0
        /\ S = [n |-> 0, B |-> {}, cmax |-> 0]

Next == /\ l < Len(Tr[tid])
        /\ l' = l + 1
        /\ UNCHANGED tid
        /\ LET e == Tr[tid][l + 1]
               r == Apply(S, e.op, e.a)
           IN /\ Judge(e, r)
              /\ DomainOk(e)
              \* resynchronise on the logged observation; cmax is the model's own
              /\ S' = [n |-> e.n, B |-> ToSet(e.bonds), cmax |-> IF r.n = e.n /\ r.B = ToSet(e.bonds) THEN r.cmax ELSE MaxDegree(ToSet(e.bonds), e.n)]

Spec == Init /\ [][Next]_tvars
=============================================================================
