------------------------------- MODULE BondCalls -------------------------------
(* C02, exhaustive single-call configuration (pattern of specs/C03/SeqCodec.tla).

   The state machine of BondList.tla explores histories with every argument handed over in
   one form (Python ints, int64 arrays, bool arrays) and compares lists through copies only.
   This module enumerates, for a set of root lists, ONE call in EVERY FORM the caller may use
   (BondListOps "index forms") and every comparison of the root with its one-aspect variants
   and with foreign objects (BondListOps "equality"):  c = the case, r = Apply(root, call).
   TLC checks the laws below on every case (S1) and dumps all (c, r) pairs; the driver executes
   every one of them against the real BondList (S2b) - nothing is sampled.

   families of roots
     "forms"  a few lists with 0..MaxFormN atoms; every index / scalar call in every form
     "ctor"   the empty list; the constructor with its rows in every dtype / layout
     "eq"     every list with at most MaxEqN atoms over the bond types T (and some larger ones);
              == / != against the variants and objects                                       *)
EXTENDS BondListOps

CONSTANTS T,           \* bond types of the roots and of the retyped / added bonds
          MaxFormN,    \* "forms" roots have 0..MaxFormN atoms
          MaxEqN,      \* "eq" roots: all lists with 0..MaxEqN atoms
          Rich         \* TRUE: larger universes (thorough tier)

VARIABLES c, r
vars == <<c, r>>

(* ---------------------------------------------------------------- roots *)
PairsOf(n) == {p \in (0..(n - 1)) \X (0..(n - 1)) : p[1] < p[2]}
\* every canonical list with n atoms: each pair absent (-1) or of one type of Ts
AllLists(n, Ts) == {{<<p[1], p[2], f[p]>> : p \in {q \in PairsOf(n) : f[q] # -1}} : f \in [PairsOf(n) -> Ts \cup {-1}]}

\* a chain 0-1-2-... with alternating types, a branch at atom 1 and the last atom unbonded
ChainRoot(n) ==
  IF n < 2 THEN {}
  ELSE {<<i, i + 1, IF i % 2 = 0 THEN 1 ELSE 5>> : i \in 0..(n - 3)} \cup (IF n >= 5 THEN {<<1, n - 2, 2>>} ELSE {})
       \cup (IF n = 2 THEN {<<0, 1, 5>>} ELSE {})
FormRoots == {<<n, ChainRoot(n)>> : n \in 0..MaxFormN}
             \cup (IF Rich THEN {<<3, B>> : B \in AllLists(3, {1})} \cup {<<4, {<<0, 3, 6>>, <<1, 2, 0>>}>>} ELSE {})
EqRoots == UNION {{<<n, B>> : B \in AllLists(n, T)} : n \in 0..MaxEqN}
           \cup {<<4, {<<0, 1, 1>>, <<1, 2, 5>>}>>, <<4, {<<0, 3, 1>>, <<1, 2, 5>>, <<0, 2, 0>>}>>, <<5, {<<1, 3, 2>>}>>,
                 <<6, {<<0, 1, 1>>, <<1, 2, 2>>, <<2, 3, 5>>}>>}

(* ---------------------------------------------------------------- calls per root *)
FI == ScalarForms
FA == ArrayForms
FM == BoolMaskForms
FS == SliceBoundForms
FP == IF Rich THEN FI \X FI ELSE FormPairs(FI)

Perm(n, k) == [i \in 1..n |-> ((i - 1 + k) % n)]            \* rotation by k of 0..n-1
FormCalls(n) ==
  LET R  == (-n)..(n + 1)       \* scalar indices: the whole range and two values above it
                                 \* (values below -n: known finding, exercised by the machine)
      RA == (-n - 1)..n          \* entries of index arrays: one value outside on each side
      idx == IntIdx(R)
             \cup SliceIdx({-1, 1}, {-2, 2, 5}, {-1, 2, 0})
             \cup MaskIdx(n)
             \cup ArrIdx(RA, Min2(n, 2))
             \cup {<<"arr", Perm(n, 1)>>, <<"arr", [i \in 1..n |-> -i]>>,
                   <<"arr", [i \in 1..n |-> IF i % 2 = 0 THEN i - 1 ELSE i - 1 - n]>>}
             \cup AllIdx
      ta == CHOOSE t \in T : \A u \in T : t >= u
  IN   {<<"index", <<x>>>> : x \in InForms(idx, FI, FA, FM, FS)}
  \cup {<<"get_bonds", <<i, f>>>> : i \in R, f \in FI}
  \cup {<<"remove_to", <<i, f>>>> : i \in R, f \in FI}
  \cup {<<"add", <<i, j, t, ff>>>> : i \in R, j \in R, t \in (IF Rich THEN T ELSE {ta}), ff \in FP}
  \cup {<<"remove", <<i, j, ff>>>> : i \in R, j \in R, ff \in FP}
  \cup {<<"contains", <<i, j, ff>>>> : i \in 0..(n - 1), j \in 0..(n - 1), ff \in FP}
  \cup {<<"offset", <<k, f>>>> : k \in {-1, 0, 2}, f \in FI}

CtorRows ==
  {<<>>, <<<<0, 1, 1>>>>, <<<<1, 0, 5>>>>, <<<<-1, 0, 0>>>>, <<<<0, 3, 1>>>>, <<<<-4, 0, 1>>>>,
   <<<<0, 1, 1>>, <<1, 0, 5>>>>, <<<<1, 2, 0>>, <<-1, -2, 1>>>>, <<<<0, 1, 1>>, <<1, 2, 5>>, <<2, 0, 0>>>>,
   <<<<1, 0, 0>>, <<0, 1, 1>>, <<-2, -3, 5>>>>, <<<<2, 3, 9>>, <<3, 2, 1>>, <<0, 3, 6>>, <<1, 3, 7>>>>}
CtorCalls == {<<"construct", <<k, rows, f>>>> : k \in 0..4, rows \in CtorRows, f \in RowsForms}

EqCalls(n) ==
  LET np == (n * (n - 1)) \div 2 IN
       {<<"same", <<>>>>, <<"rev", <<>>>>}
  \cup {<<"natoms", <<d>>>> : d \in {-2, -1, 1, 2}}
  \cup {<<"retype", <<k, t>>>> : k \in 1..np, t \in T}
  \cup {<<"drop", <<k>>>> : k \in 1..np}
  \cup {<<"dup", <<k, t>>>> : k \in 1..np, t \in T}
  \cup {<<"extra", <<i, j, t>>>> : i \in 0..(n - 2), j \in 1..(n - 1), t \in T}
  \cup {<<"obj", <<o>>>> : o \in 0..5}
  \cup {<<"list", <<m, <<>>>>>> : m \in {0, n}}

DistinctW(i, j, k) == ~(InRange(i, k) /\ InRange(j, k) /\ WrapOne(i, k) = WrapOne(j, k))
\* the property's domain (a bond joins two distinct atoms) and the admissible forms
Dom_Call(S, op, a) ==
  CASE op = "add"       -> DistinctW(a[1], a[2], S.n) /\ Dom_ScalarForm(a[1], a[4][1]) /\ Dom_ScalarForm(a[2], a[4][2])
    [] op = "remove"    -> DistinctW(a[1], a[2], S.n) /\ Dom_ScalarForm(a[1], a[3][1]) /\ Dom_ScalarForm(a[2], a[3][2])
    [] op = "contains"  -> a[1] # a[2] /\ Dom_ScalarForm(a[1], a[3][1]) /\ Dom_ScalarForm(a[2], a[3][2])
    [] op \in {"get_bonds", "remove_to", "offset"} -> Dom_ScalarForm(a[1], a[2])
    [] op = "index"     -> Dom_IdxForm(a[1])
    [] op = "construct" -> /\ Dom_RowsForm(a[2], a[3])
                           /\ \A k \in DOMAIN a[2] : DistinctW(a[2][k][1], a[2][k][2], a[1])
    [] op = "eq"        -> Dom_EqArg(S, a)

CallsOf(cc) ==
  CASE cc.fam = "forms" -> FormCalls(cc.n)
    [] cc.fam = "ctor"  -> CtorCalls
    [] cc.fam = "eq"    -> {<<"eq", a>> : a \in EqCalls(cc.n)}

(* ---------------------------------------------------------------- two-level generation *)
Root(fam, n, B) == [fam |-> fam, n |-> n, B |-> B, op |-> "init", a |-> <<>>]
S0 == [n |-> c.n, B |-> c.B, cmax |-> MaxDegree(c.B, c.n)]

Init ==
  /\ \/ \E x \in FormRoots : c = Root("forms", x[1], x[2])
     \/ c = Root("ctor", 0, {})
     \/ \E x \in EqRoots : c = Root("eq", x[1], x[2])
  /\ r = St(c.n, c.B, MaxDegree(c.B, c.n), "ok", <<>>)

Next == /\ c.op = "init"
        /\ \E call \in CallsOf(c) :
              /\ Dom_Call(S0, call[1], call[2])
              /\ c' = [c EXCEPT !.op = call[1], !.a = call[2]]
              /\ r' = Apply(S0, call[1], call[2])
Spec == Init /\ [][Next]_vars

(* ---------------------------------------------------------------- laws per case *)
InvRoot == c.op = "init" => Canonical(c.B, c.n)
InvCanonical == Canonical(r.B, r.n) /\ r.cmax >= MaxDegree(r.B, r.n)
InvRefusal == r.oc # "ok" => (r.n = c.n /\ r.B = c.B)
\* the form is no part of the meaning: the same call without its forms has the same result
Bare(op, a) ==
  CASE op = "index" -> <<<<a[1][1], a[1][2]>>>>
    [] op = "add" -> <<a[1], a[2], a[3]>>
    [] op \in {"remove", "contains"} -> <<a[1], a[2]>>
    [] op \in {"get_bonds", "remove_to", "offset"} -> <<a[1]>>
    [] op = "construct" -> <<a[1], a[2]>>
    [] OTHER -> a
InvFormFree == c.op # "init" => r = Apply(S0, c.op, Bare(c.op, c.a))
\* bl[i] is get_bonds(i) for every integer i, in range or not
InvScalarIndex ==
  (c.op = "index" /\ c.a[1][1] = "int") =>
     LET g == Apply(S0, "get_bonds", <<c.a[1][2][1]>>) IN r.oc = g.oc /\ r.out = g.out
\* equality is the agreement of all views, it is symmetric, and a list equals itself
InvEquality ==
  (c.op = "eq" /\ r.oc = "ok" /\ c.a[1] # "obj") =>
     LET m == r.out.other[1]  B2 == ConstructSet(r.out.other[2], m)
         O == [n |-> m, B |-> B2, cmax |-> MaxDegree(B2, m)]
     IN /\ r.out.eq = (Views(O) = Views(S0))
        /\ r.out.eq = Apply(O, "eq", <<"list", <<c.n, SortedRows(c.B)>>>>).out.eq
        /\ Apply(O, "eq", <<"same", <<>>>>).out.eq
        /\ (c.a[1] = "natoms" => ~r.out.eq)
InvForeign == (c.op = "eq" /\ c.a[1] = "obj") => (r.oc = "ok" /\ ~r.out.eq)
=============================================================================
