SPECIFICATION Spec
CONSTANTS
  MaxN = 3
  T = {0, 1, 5}
  Depth = 6
  Rich = FALSE
CONSTRAINT DepthBound
INVARIANT InvCanonical
INVARIANT InvCacheSound
INVARIANT InvTypes
INVARIANT InvViewsSymmetric
PROPERTY RefusalIsNoOp
CHECK_DEADLOCK FALSE
