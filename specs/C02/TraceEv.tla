------------------------------- MODULE TraceEv -------------------------------
(* C02 direction B, stand-alone events: every BondList call made by the repository's own
   test-suite (recorded by harness/recorders/c02_recorder.py) carries its own pre-state
   {pre.n, pre.bonds} and is judged with BondListOps.Apply.  TRACE_FILE is a JSON array with
   one trace holding all events. *)
EXTENDS BondListOps, Json, IOUtils

Tr == JsonDeserialize(IOEnv.TRACE_FILE)

VARIABLES tid, l
tvars == <<tid, l>>

NoDupSeq(s) == Cardinality(ToSet(s)) = Len(s)

OutMatches(op, a, exp, got) ==
  IF op = "get_bonds" \/ (op = "index" /\ a[1][1] = "int")
    THEN ToSet(got) = exp /\ NoDupSeq(got)
    ELSE TRUE

Judge(e) ==
  LET B0 == ToSet(e.pre.bonds)
      S == [n |-> e.pre.n, B |-> B0, cmax |-> MaxDegree(B0, e.pre.n)]
      r == Apply(S, e.op, e.a)
      okOc == r.oc = e.oc
      okN == r.n = e.n
      okB == r.B = ToSet(e.bonds) /\ NoDupSeq(e.bonds)
      okOut == IF r.oc = "ok" /\ e.oc = "ok" THEN OutMatches(e.op, e.a, r.out, e.out) ELSE TRUE
  IN IF okOc /\ okN /\ okB /\ okOut /\ e.cmax_ok THEN TRUE
     ELSE PrintT(<<"MISMATCH", tid, l + 1, <<okOc, okN, okB, okOut, e.cmax_ok>>, r.oc, r.n, r.B, r.out>>)

Init == tid \in 1..Len(Tr) /\ l = 0
Next == /\ l < Len(Tr[tid]) /\ l' = l + 1 /\ UNCHANGED tid
        /\ Judge(Tr[tid][l + 1])
Spec == Init /\ [][Next]_tvars
=============================================================================
