------------------------------- MODULE BondListOps -------------------------------
(* C02: biotite.structure.BondList as a state machine.  One operator per public call.
   State S = [n, B, cmax]:  n atoms, B the reference mapping as a set of <<i,j,t>> (i<j),
   cmax the implementation's cached "maximum bonds per atom" following exactly the code's
   update rule (recomputed by construct / add of a new bond / index / merge; kept by the
   removals, offset and the strip operations; max of the operands for concatenation).
   Apply(S, op, a) = [n, B, cmax, oc, out] is total; oc in {"ok","IndexError","Rejected"}. *)
EXTENDS BondOps, TLC

Types == {0, 1, 2, 3, 4, 5, 6, 7, 8, 9}

St(n, B, c, oc, out) == [n |-> n, B |-> B, cmax |-> c, oc |-> oc, out |-> out]
Fail(S, oc) == St(S.n, S.B, S.cmax, oc, <<>>)

Views(S) ==
  [nb  |-> AllNeighbours(S.B, S.n),
   adj |-> {<<i, j>> \in (0..(S.n-1)) \X (0..(S.n-1)) : Adjacent(S.B, i, j)},
   tm  |-> {<<i, j, TypeAt(S.B, i, j)>> : <<i, j>> \in {p \in (0..(S.n-1)) \X (0..(S.n-1)) : Adjacent(S.B, p[1], p[2])}},
   set |-> S.B,
   graph |-> S.B,
   eqcopy |-> TRUE,
   cnt |-> Cardinality(S.B)]

Other(a) == [n |-> a[1], B |-> ConstructSet(a[2], a[1])]

RECURSIVE Apply(_, _, _)
Apply(S, op, a) ==
  CASE op = "construct" ->
         IF ~RowsInRange(a[2], a[1]) THEN Fail(S, "IndexError")
         ELSE LET B2 == ConstructSet(a[2], a[1]) IN St(a[1], B2, MaxDegree(B2, a[1]), "ok", <<>>)
    [] op = "add" ->
         IF ~(InRange(a[1], S.n) /\ InRange(a[2], S.n)) THEN Fail(S, "IndexError")
         ELSE LET i == WrapOne(a[1], S.n)  j == WrapOne(a[2], S.n)
                  B2 == AddBond(S.B, i, j, a[3])
              IN St(S.n, B2, IF HasPair(S.B, Lo(i,j), Hi(i,j)) THEN S.cmax ELSE MaxDegree(B2, S.n), "ok", <<>>)
    [] op = "remove" ->
         IF ~(InRange(a[1], S.n) /\ InRange(a[2], S.n)) THEN Fail(S, "IndexError")
         ELSE St(S.n, RemoveBond(S.B, WrapOne(a[1], S.n), WrapOne(a[2], S.n)), S.cmax, "ok", <<>>)
    [] op = "remove_to" ->
         IF ~InRange(a[1], S.n) THEN Fail(S, "IndexError")
         ELSE St(S.n, RemoveBondsTo(S.B, WrapOne(a[1], S.n)), S.cmax, "ok", <<>>)
    [] op = "remove_bonds" ->
         St(S.n, RemoveBonds(S.B, Other(a).B), S.cmax, "ok", <<>>)
    [] op = "merge" ->
         LET O == Other(a)  n2 == Max2(S.n, O.n)  B2 == Merge(S.B, O.B)
         IN St(n2, B2, MaxDegree(B2, n2), "ok", <<>>)
    [] op = "concat" ->      \* self + other
         LET O == Other(a) IN
         St(S.n + O.n, Concat(S.B, S.n, O.B), Max2(S.cmax, MaxDegree(O.B, O.n)), "ok", <<>>)
    [] op = "rconcat" ->     \* other + self
         LET O == Other(a) IN
         St(S.n + O.n, Concat(O.B, O.n, S.B), Max2(S.cmax, MaxDegree(O.B, O.n)), "ok", <<>>)
    [] op = "offset" ->
         IF a[1] < 0 THEN Fail(S, "Rejected")
         ELSE St(S.n + a[1], Shift(S.B, a[1]), S.cmax, "ok", <<>>)
    [] op = "strip_arom" -> St(S.n, StripAromatic(S.B), S.cmax, "ok", <<>>)
    [] op = "strip_order" -> St(S.n, StripOrder(S.B), S.cmax, "ok", <<>>)
    [] op = "index" ->
         LET r == Resolve(a[1], S.n) IN
         IF a[1][1] = "int" THEN
           IF r.ok THEN St(S.n, S.B, S.cmax, "ok", Neighbours(S.B, r.pos[1])) ELSE Fail(S, "IndexError")
         ELSE IF ~r.ok THEN Fail(S, IF a[1][1] = "arr" THEN "IndexError" ELSE "Rejected")
         ELSE IF HasDup(r.pos) THEN Fail(S, "Rejected")
         ELSE LET B2 == IndexBonds(S.B, r.pos) IN
              St(Len(r.pos), B2, MaxDegree(B2, Len(r.pos)), "ok", <<>>)
    [] op = "get_bonds" ->
         IF ~InRange(a[1], S.n) THEN Fail(S, "IndexError")
         ELSE St(S.n, S.B, S.cmax, "ok", Neighbours(S.B, WrapOne(a[1], S.n)))
    [] op = "contains" ->
         St(S.n, S.B, S.cmax, "ok", Adjacent(S.B, a[1], a[2]))
    \* a derived list (index / merge / concatenate / copy) is a new object: writing into it in
    \* place leaves the source unchanged and vice versa.  a = <<how, x>>; refused exactly when
    \* the derivation itself is refused
    [] op = "independent" ->
         LET d == CASE a[1] = "index" -> Apply(S, "index", <<a[2]>>)
                    [] a[1] = "merge" -> Apply(S, "merge", a[2])
                    [] a[1] = "concat" -> Apply(S, "concat", a[2])
                    [] a[1] = "copy" -> Apply(S, "copy", <<>>)
         IN IF d.oc = "ok" THEN St(S.n, S.B, S.cmax, "ok", "independent") ELSE Fail(S, d.oc)
    [] op = "views" -> St(S.n, S.B, S.cmax, "ok", Views(S))
    [] op = "copy" -> St(S.n, S.B, S.cmax, "ok", <<>>)
=============================================================================
