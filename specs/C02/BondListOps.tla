------------------------------- MODULE BondListOps -------------------------------
(* C02: biotite.structure.BondList as a state machine.  One operator per public call.
   State S = [n, B, cmax]:  n atoms, B the reference mapping as a set of <<i,j,t>> (i<j),
   cmax the implementation's cached "maximum bonds per atom" following exactly the code's
   update rule (recomputed by construct / add of a new bond / index / merge; kept by the
   removals, offset and the strip operations; max of the operands for concatenation).
   Apply(S, op, a) = [n, B, cmax, oc, out] is total; oc in {"ok","IndexError","Rejected"}.
   Arguments may carry the FORM in which they are handed over (see "index forms"); Apply reads
   the values only, so the meaning of a call is independent of the form by construction. *)
EXTENDS BondOps, TLC

Types == {0, 1, 2, 3, 4, 5, 6, 7, 8, 9}

St(n, B, c, oc, out) == [n |-> n, B |-> B, cmax |-> c, oc |-> oc, out |-> out]
Fail(S, oc) == St(S.n, S.B, S.cmax, oc, <<>>)

Views(S) ==
  [nb  |-> AllNeighbours(S.B, S.n),
   adj |-> {<<i, j>> \in (0..(S.n-1)) \X (0..(S.n-1)) : Adjacent(S.B, i, j)},
   tm  |-> {<<i, j, TypeAt(S.B, i, j)>> : <<i, j>> \in {p \in (0..(S.n-1)) \X (0..(S.n-1)) : Adjacent(S.B, p[1], p[2])}},
   set |-> S.B,
   graph |-> S.B,
   eqcopy |-> TRUE,
   cnt |-> Cardinality(S.B)]

Other(a) == [n |-> a[1], B |-> ConstructSet(a[2], a[1])]

(* ---------------------------------------------------------------- index forms
   The FORM of an argument is the shape in which the caller hands it over; it is part of the
   call, never of its meaning (Apply reads the value only):
     integer           a Python int or a numpy integer scalar of some width and sign
     index array       a Python list, an integer ndarray of some dtype, byte order ("b.." =
                       big-endian) or layout ("..s" = strided, non-contiguous view)
     boolean mask      a bool ndarray, a list of bools, a strided bool view
     slice             bounds that are Python ints or numpy integers
     constructor rows  the dtype / byte order / memory layout of the (k, 3) bond array
                       ("..f" = Fortran order, "..s" = strided view)
   An index object is <<kind, payload>> or <<kind, payload, form>> (PyIndex.Resolve reads the
   first two components).  Scalar calls carry their forms as a trailing component:
     add <<i, j, t, <<fi, fj>>>>   remove <<i, j, <<fi, fj>>>>   contains <<i, j, <<fi, fj>>>>
     remove_to <<i, f>>   get_bonds <<i, f>>   offset <<k, f>>   construct <<n, rows, f>>
   Dom_*Form say which forms can hold which values (an unsigned form holds no negative value). *)
ScalarForms     == {"py", "i8", "i16", "i32", "i64", "u8", "u16", "u32", "u64"}
ArrayForms      == {"list", "i8", "i16", "i32", "i64", "u8", "u16", "u32", "u64",
                    "bi16", "bi32", "bi64", "bu16", "bu64", "i64s", "u8s"}
BoolMaskForms   == {"np", "list", "strided"}
SliceBoundForms == {"py", "np"}
RowsForms       == {"i8", "i16", "i32", "i64", "u8", "u16", "u32", "u64", "bi32", "bi64", "i64f", "i32s"}
FormUnsigned(f) == f \in {"u8", "u16", "u32", "u64", "bu16", "bu64", "u8s"}
FormBigEndian(f) == f \in {"bi16", "bi32", "bi64", "bu16", "bu64"}

Dom_ScalarForm(k, f) == f \in ScalarForms /\ (FormUnsigned(f) => k >= 0)
Dom_RowsForm(rows, f) ==
  f \in RowsForms /\ (FormUnsigned(f) => \A k \in DOMAIN rows : rows[k][1] >= 0 /\ rows[k][2] >= 0)
Dom_IdxForm(idx) ==
  /\ Len(idx) = 3
  /\ idx[3] \in (CASE idx[1] = "int" -> ScalarForms [] idx[1] = "arr" -> ArrayForms
                   [] idx[1] = "mask" -> BoolMaskForms [] idx[1] = "slice" -> SliceBoundForms
                   [] OTHER -> {"py"})
  /\ (idx[1] \in {"int", "arr"} /\ FormUnsigned(idx[3]) => \A i \in DOMAIN idx[2] : idx[2][i] >= 0)
\* every index object of X in every admissible form of the given sets
InForms(X, FI, FA, FM, FS) ==
  {y \in UNION {{<<x[1], x[2], f>> : f \in (CASE x[1] = "int" -> FI [] x[1] = "arr" -> FA
                                                [] x[1] = "mask" -> FM [] x[1] = "slice" -> FS
                                                [] OTHER -> {"py"})} : x \in X} : Dom_IdxForm(y)}
\* pairs of forms for calls with two atom indices: both alike, or one of them a Python int
FormPairs(F) == {<<f, f>> : f \in F} \cup {<<"py", f>> : f \in F} \cup {<<f, "py">> : f \in F}

(* ---------------------------------------------------------------- equality
   Equality is a view of the reference (atom count, mapping): two lists are equal exactly when
   they have the same atom count and the same mapping; anything that is not a bond list is
   unequal.  op "eq", a = <<kind, payload>>:
     <<"list", <<m, rows>>>>    the list constructed from (m, rows)
     <<"obj", <<code>>>>        an object that is not a bond list (the driver's table of codes)
   and lists described RELATIVE to the current one, differing from it in one aspect at most:
     <<"same", <<>>>>           its own bonds, in canonical order
     <<"rev", <<>>>>            rows in reverse order, pairs reversed, first index negative
     <<"natoms", <<d>>>>        the same bonds over n + d atoms
     <<"retype", <<k, t>>>>     the k-th bond (canonical order) has type t
     <<"drop", <<k>>>>          the k-th bond is missing
     <<"dup", <<k, t>>>>        the k-th bond is given once more, with type t, at the end
     <<"extra", <<i, j, t>>>>   one more bond i-j of type t
   out = [other |-> <<m, rows>> (the constructor input of the compared list), eq |-> BOOLEAN]. *)
BondBefore(b, c) == b[1] < c[1] \/ (b[1] = c[1] /\ b[2] < c[2])
SortedRows(B) == SetToSortSeq(B, BondBefore)
WithoutAt(s, k) == [i \in 1..(Len(s) - 1) |-> IF i < k THEN s[i] ELSE s[i + 1]]

EqRelKinds == {"same", "rev", "natoms", "retype", "drop", "dup", "extra"}
Dom_EqArg(S, a) ==
  LET p == a[2]  nb == Cardinality(S.B) IN
  CASE a[1] = "list"   -> RowsInRange(p[2], p[1])
    [] a[1] = "obj"    -> TRUE
    [] a[1] \in {"same", "rev"} -> TRUE
    [] a[1] = "natoms" -> S.n + p[1] >= 0 /\ \A b \in S.B : b[2] < S.n + p[1]
    [] a[1] \in {"retype", "dup"} -> p[1] \in 1..nb
    [] a[1] = "drop"   -> p[1] \in 1..nb
    [] a[1] = "extra"  -> 0 <= p[1] /\ p[1] < p[2] /\ p[2] < S.n /\ ~HasPair(S.B, p[1], p[2])
EqOther(S, a) ==          \* constructor input <<m, rows>> of the list the current one is compared with
  LET p == a[2]  rows == SortedRows(S.B) IN
  CASE a[1] = "list"   -> <<p[1], p[2]>>
    [] a[1] = "same"   -> <<S.n, rows>>
    [] a[1] = "rev"    -> <<S.n, [k \in DOMAIN rows |->
                                    LET b == rows[Len(rows) + 1 - k] IN <<b[2] - S.n, b[1], b[3]>>]>>
    [] a[1] = "natoms" -> <<S.n + p[1], rows>>
    [] a[1] = "retype" -> <<S.n, [rows EXCEPT ![p[1]] = <<rows[p[1]][1], rows[p[1]][2], p[2]>>]>>
    [] a[1] = "drop"   -> <<S.n, WithoutAt(rows, p[1])>>
    [] a[1] = "dup"    -> <<S.n, Append(rows, <<rows[p[1]][2], rows[p[1]][1], p[2]>>)>>
    [] a[1] = "extra"  -> <<S.n, Append(rows, <<p[1], p[2], p[3]>>)>>
SameList(S, m, rows) == m = S.n /\ ConstructSet(rows, m) = S.B

RECURSIVE Apply(_, _, _)
Apply(S, op, a) ==
  CASE op = "construct" ->
         IF ~RowsInRange(a[2], a[1]) THEN Fail(S, "IndexError")
         ELSE LET B2 == ConstructSet(a[2], a[1]) IN St(a[1], B2, MaxDegree(B2, a[1]), "ok", <<>>)
    [] op = "add" ->
         IF ~(InRange(a[1], S.n) /\ InRange(a[2], S.n)) THEN Fail(S, "IndexError")
         ELSE LET i == WrapOne(a[1], S.n)  j == WrapOne(a[2], S.n)
                  B2 == AddBond(S.B, i, j, a[3])
              IN St(S.n, B2, IF HasPair(S.B, Lo(i,j), Hi(i,j)) THEN S.cmax ELSE MaxDegree(B2, S.n), "ok", <<>>)
    [] op = "remove" ->
         IF ~(InRange(a[1], S.n) /\ InRange(a[2], S.n)) THEN Fail(S, "IndexError")
         ELSE St(S.n, RemoveBond(S.B, WrapOne(a[1], S.n), WrapOne(a[2], S.n)), S.cmax, "ok", <<>>)
    [] op = "remove_to" ->
         IF ~InRange(a[1], S.n) THEN Fail(S, "IndexError")
         ELSE St(S.n, RemoveBondsTo(S.B, WrapOne(a[1], S.n)), S.cmax, "ok", <<>>)
    [] op = "remove_bonds" ->
         St(S.n, RemoveBonds(S.B, Other(a).B), S.cmax, "ok", <<>>)
    [] op = "merge" ->
         LET O == Other(a)  n2 == Max2(S.n, O.n)  B2 == Merge(S.B, O.B)
         IN St(n2, B2, MaxDegree(B2, n2), "ok", <<>>)
    [] op = "concat" ->      \* self + other
         LET O == Other(a) IN
         St(S.n + O.n, Concat(S.B, S.n, O.B), Max2(S.cmax, MaxDegree(O.B, O.n)), "ok", <<>>)
    [] op = "rconcat" ->     \* other + self
         LET O == Other(a) IN
         St(S.n + O.n, Concat(O.B, O.n, S.B), Max2(S.cmax, MaxDegree(O.B, O.n)), "ok", <<>>)
    [] op = "offset" ->
         IF a[1] < 0 THEN Fail(S, "Rejected")
         ELSE St(S.n + a[1], Shift(S.B, a[1]), S.cmax, "ok", <<>>)
    [] op = "strip_arom" -> St(S.n, StripAromatic(S.B), S.cmax, "ok", <<>>)
    [] op = "strip_order" -> St(S.n, StripOrder(S.B), S.cmax, "ok", <<>>)
    [] op = "index" ->
         LET r == Resolve(a[1], S.n) IN
         IF a[1][1] = "int" THEN
           IF r.ok THEN St(S.n, S.B, S.cmax, "ok", Neighbours(S.B, r.pos[1])) ELSE Fail(S, "IndexError")
         ELSE IF ~r.ok THEN Fail(S, IF a[1][1] = "arr" THEN "IndexError" ELSE "Rejected")
         ELSE IF HasDup(r.pos) THEN Fail(S, "Rejected")
         ELSE LET B2 == IndexBonds(S.B, r.pos) IN
              St(Len(r.pos), B2, MaxDegree(B2, Len(r.pos)), "ok", <<>>)
    [] op = "get_bonds" ->
         IF ~InRange(a[1], S.n) THEN Fail(S, "IndexError")
         ELSE St(S.n, S.B, S.cmax, "ok", Neighbours(S.B, WrapOne(a[1], S.n)))
    [] op = "contains" ->
         St(S.n, S.B, S.cmax, "ok", Adjacent(S.B, a[1], a[2]))
    \* a derived list (index / merge / concatenate / copy) is a new object: writing into it in
    \* place leaves the source unchanged and vice versa.  a = <<how, x>>; refused exactly when
    \* the derivation itself is refused
    [] op = "independent" ->
         LET d == CASE a[1] = "index" -> Apply(S, "index", <<a[2]>>)
                    [] a[1] = "merge" -> Apply(S, "merge", a[2])
                    [] a[1] = "concat" -> Apply(S, "concat", a[2])
                    [] a[1] = "copy" -> Apply(S, "copy", <<>>)
         IN IF d.oc = "ok" THEN St(S.n, S.B, S.cmax, "ok", "independent") ELSE Fail(S, d.oc)
    \* ==, != (both operand orders) against another list or a foreign object: a refused
    \* construction of the other list is refused like the constructor
    [] op = "eq" ->
         IF a[1] = "obj" THEN St(S.n, S.B, S.cmax, "ok", [other |-> <<>>, eq |-> FALSE])
         ELSE IF ~Dom_EqArg(S, a) THEN Fail(S, IF a[1] = "list" THEN "IndexError" ELSE "Rejected")
         ELSE LET o == EqOther(S, a) IN
              St(S.n, S.B, S.cmax, "ok", [other |-> o, eq |-> SameList(S, o[1], o[2])])
    [] op = "views" -> St(S.n, S.B, S.cmax, "ok", Views(S))
    [] op = "copy" -> St(S.n, S.B, S.cmax, "ok", <<>>)
=============================================================================
