------------------------------- MODULE MCProfile -------------------------------
(* X04, exhaustive single-call configuration for profile.py.

   Initial states are objects (op = "init"): an alignment, or a profile given by its count
   tables.  One step applies one public call  c = [op, a, p]  (p: the profile the call is made
   on) and records the specification's answer  r = Apply(p, op, a).  TLC checks the laws of
   SeqProfileOps on every case (S1) and dumps all (c, r) pairs for the replay against the real
   class (S2).  Histories of calls are ProfileMachine.tla.

   Universe
     alignments  2 rows x 0..Cols2 columns over {A, C, T, gap} (and Cols2+1..Cols2b columns over
                 {A, C, gap}); 3 rows x 0..Cols3 columns over {A, C, gap} (all-gap columns and
                 rows included); a few contents with every
                 assignment of the DNA / ambiguous DNA / protein alphabets to the rows;
                 from_alignment with alphabet = None / ambiguous DNA / DNA / protein / RNA
     tables      1 position: every count vector 0..2 on four symbols of the DNA, RNA, protein,
                 ambiguous-DNA (general branch), 3-letter and 3-object alphabets; 2 positions:
                 0/1 vectors x four fixed vectors; 0 positions; every observer call on them
     indexing    tables of 0..IdxLen distinguishable positions x integers, slices (bounds
                 -4..4 or open, steps 1, 2, -1, -2, 0), masks (right and wrong length), index
                 arrays (wrapping, duplicates, out of range)                                 *)
EXTENDS SeqProfileOps

CONSTANTS Cols2, Cols2b, Cols3, IdxLen, Rich

VARIABLES c, r
vars == <<c, r>>

Gen3 == <<"x", "y", "z">>                \* a LetterAlphabet that is none of the well-known ones
Obj3 == <<"o1", "o2", "o3">>             \* symbols that are not letters (plain Alphabet)
Tuples(S, n) == [1..n -> S]

(* ---------------------------------------------------------------- alignments *)
RowSets2 == UNION {Tuples(Tuples({"A", "C", "T", GapSym}, m), 2) : m \in 0..Cols2}
            \cup UNION {Tuples(Tuples({"A", "C", GapSym}, m), 2) : m \in (Cols2 + 1)..Cols2b}
RowSets3 == UNION {Tuples(Tuples({"A", "C", GapSym}, m), 3) : m \in 0..Cols3}
DnaAlns  == {AlnFromRows([q \in DOMAIN rows |-> DnaAlph], rows) : rows \in RowSets2 \cup RowSets3}
MixRows  == { << <<"A", "C">>, <<"C", GapSym>> >>, << <<"A">>, <<"A">>, <<GapSym>> >>,
              << <<"C", "A", "A">>, <<GapSym, "A", "C">>, <<"A", "A", GapSym>> >> }
MixAlns  == {AlnFromRows(al, rows) : rows \in MixRows, al \in Tuples({DnaAlph, AmbAlph, ProtAlph}, 3)}
            \cup {AlnFromRows(al, rows) : rows \in {x \in MixRows : Len(x) = 2},
                                          al \in Tuples({DnaAlph, AmbAlph, ProtAlph, Gen3}, 2)}
WellTyped(aln) == \A q \in DOMAIN aln.seqs : WellFormedSeq(aln.seqs[q])
OptAlphs == {<<>>, <<AmbAlph>>, <<DnaAlph>>, <<ProtAlph>>, <<RnaAlph>>}

\* the given-alphabet variants that are refused do not depend on the columns: all five variants
\* for the narrow and the mixed alignments, None / ambiguous DNA for the rest
CallsAln(aln) ==
  {<<"from_alignment", <<aln, oa>>>> :
     oa \in IF NumCols(aln) <= (IF Rich THEN 2 ELSE 1) \/ \E q \in DOMAIN aln.seqs : aln.seqs[q].alph # DnaAlph
              THEN OptAlphs ELSE {<<>>, <<AmbAlph>>}}

(* ---------------------------------------------------------------- count tables *)
\* the four symbol positions that carry counts (all other counts are zero)
Carrier(A) == IF Len(A) = 3 THEN <<1, 2, 3>>
              ELSE IF A = ProtAlph THEN <<1, 2, 23, 24>>
              ELSE IF A = AmbAlph THEN <<1, 3, 4, 15>>
              ELSE <<1, 2, 3, 4>>
Dense(A, v) == [j \in DOMAIN A |-> IF \E m \in DOMAIN v : Carrier(A)[m] = j
                                     THEN v[CHOOSE m \in DOMAIN v : Carrier(A)[m] = j] ELSE 0]
TableAlphs == {DnaAlph, RnaAlph, ProtAlph, AmbAlph, Gen3, Obj3}
Vec(A, S)  == Tuples(S, Len(Carrier(A)))
Second(A)  == IF Len(A) = 3 THEN { <<0, 0, 0>>, <<1, 1, 0>>, <<0, 2, 1>>, <<3, 0, 3>> }
              ELSE { <<0, 0, 0, 0>>, <<1, 1, 0, 0>>, <<0, 2, 1, 2>>, <<3, 0, 0, 3>> }
TwoPosAlphs == IF Rich THEN TableAlphs ELSE {DnaAlph, ProtAlph, Obj3}
Tables(A) ==
       {Prof(<<>>, <<>>, A)}
  \cup {Prof(<<Dense(A, v)>>, <<g>>, A) : v \in Vec(A, 0..2), g \in {1}}
  \cup (IF A \in TwoPosAlphs
          THEN {Prof(<<Dense(A, v), Dense(A, w)>>, <<0, 2>>, A) : v \in Vec(A, 0..1), w \in Second(A)}
          ELSE {})
AllTables == UNION {Tables(A) : A \in TableAlphs}

BgFor(k) == [j \in 1..k |-> IF j = 1 THEN <<1, 2>> ELSE <<1, 2 * (k - 1)>>]
\* sequences to score: every choice among the first two symbols and the last carrier symbol
ProbeSyms(p) == {p.alph[1], p.alph[2], p.alph[Carrier(p.alph)[Len(Carrier(p.alph))]]}
ProbeSeqs(p) ==
       {Sq(p.alph, s) : s \in Tuples(ProbeSyms(p), Len(p.rows))}
  \cup {Sq(p.alph, s) : s \in Tuples({p.alph[1]}, Len(p.rows) + 1)}                  \* too long
  \cup (IF Len(p.rows) = 0 THEN {} ELSE {Sq(p.alph, s) : s \in Tuples({p.alph[2]}, Len(p.rows) - 1)})   \* too short
  \cup (IF p.alph = AmbAlph THEN {Sq(DnaAlph, s) : s \in Tuples({"A", "T"}, Len(p.rows))} ELSE {})
Others(p) ==
       {<<"profile", p>>, <<"other">>,
        <<"profile", [p EXCEPT !.gaps = [i \in DOMAIN p.gaps |-> p.gaps[i] + 1]]>>,
        <<"profile", [p EXCEPT !.rows = [i \in DOMAIN p.rows |-> [p.rows[i] EXCEPT ![p.k] = @ + 1]]]>>,
        <<"profile", [p EXCEPT !.rows = <<>>, !.gaps = <<>>]>>}
  \cup (IF p.alph = DnaAlph THEN {<<"profile", [p EXCEPT !.alph = RnaAlph]>>} ELSE {})
  \cup (IF p.alph = Gen3 THEN {<<"profile", [p EXCEPT !.alph = <<"x", "z", "y">>]>>} ELSE {})
Bump(rows) == [i \in DOMAIN rows |-> [j \in DOMAIN rows[i] |-> rows[i][j] + 1]]
Wider(rows) == [i \in DOMAIN rows |-> rows[i] \o <<7>>]
CallsTable(p) ==
       {<<"consensus", <<b>>>> : b \in BOOLEAN}
  \cup {<<"prob", <<pc>>>> : pc \in {-1, 0, 1, 2}}
  \cup {<<"odds", <<bg, pc>>>> : bg \in {<<>>, <<BgFor(p.k)>>}, pc \in {-1, 0, 1}}
  \cup {<<"seqprob", <<S, pc>>>> : S \in ProbeSeqs(p), pc \in {0, 1}}
  \cup {<<"seqprob", <<Sq(p.alph, [i \in DOMAIN p.rows |-> p.alph[1]]), -1>>>>}
  \cup {<<"seqscore", <<S, <<>>, 0>>>> : S \in ProbeSeqs(p)}
  \cup {<<"seqscore", <<S, <<BgFor(p.k)>>, 2>>>> : S \in ProbeSeqs(p)}
  \cup {<<"seqscore", <<Sq(p.alph, [i \in DOMAIN p.rows |-> p.alph[1]]), <<>>, -1>>>>}
  \cup {<<"len", <<>>>>}
  \cup (IF Dom_StrLetters(p) THEN {<<"str", <<>>>>} ELSE {})
  \cup {<<"eq", <<o>>>> : o \in Others(p)}
  \cup {<<"set_symbols", <<p.k, Bump(p.rows)>>>>, <<"set_symbols", <<p.k + 1, Wider(p.rows)>>>>,
        <<"set_symbols", <<p.k, p.rows \o <<[j \in 1..p.k |-> 1]>>>>>>,
        <<"set_gaps", <<[i \in DOMAIN p.gaps |-> p.gaps[i] + 3]>>>>, <<"set_gaps", <<p.gaps \o <<1>>>>>>}
  \cup {<<"poke_symbols", <<i, j, 9>>>> : i \in 0..(Len(p.rows) - 1), j \in {0, p.k - 1}}
  \cup {<<"poke_gaps", <<i, 9>>>> : i \in 0..(Len(p.rows) - 1)}
  \* the constructor on these very tables: consistent, wrong alphabet length, wrong gaps length
  \cup {<<"construct", <<p.k, p.rows, p.gaps, p.alph>>>>,
        <<"construct", <<p.k, p.rows, p.gaps, p.alph \o <<"q">>>>>>,
        <<"construct", <<p.k, p.rows, p.gaps \o <<0>>, p.alph>>>>}
  \cup (IF Len(p.alph) > 1 THEN {<<"construct", <<p.k, p.rows, p.gaps, SubSeq(p.alph, 1, p.k - 1)>>>>} ELSE {})

(* ---------------------------------------------------------------- indexing *)
IdxRow(i)    == <<i, 0, 1, i + 1>>
IdxTable(n)  == Prof([i \in 1..n |-> IdxRow(i)], [i \in 1..n |-> i], DnaAlph)
IdxTables    == {IdxTable(n) : n \in 0..IdxLen}
IsIdxTable(p) == p.alph = DnaAlph /\ p = IdxTable(Len(p.rows)) /\ Len(p.rows) <= IdxLen
Bounds       == -4..4
Steps        == {1, 2, -1, -2, 0}
IndexForms(n) ==
       IntIdx((-n)..(n - 1))
  \cup SliceIdx(Bounds, Bounds, Steps)
  \cup UNION {MaskIdx(m) : m \in (IF n <= 1 THEN n..(n + 1) ELSE (n - 1)..(n + 1))}    \* Dom_Index
  \cup ArrIdx((-n - 1)..n, 2)
  \cup {<<"arr", s>> : s \in {<<0, 0, 0>>, <<-1, 0, -1, 0>>}}
CallsIdx(p) == {<<"getitem", <<ix>>>> : ix \in {x \in IndexForms(Len(p.rows)) : Dom_Index(p, x)}}

(* ---------------------------------------------------------------- the two-level enumeration *)
Case(op, a, p) == [op |-> op, a |-> a, p |-> p]
Init == /\ \/ \E aln \in DnaAlns : c = Case("init", <<"aln", aln>>, NoProfile)
           \/ \E aln \in {x \in MixAlns : WellTyped(x)} : c = Case("init", <<"aln", aln>>, NoProfile)
           \/ \E p \in AllTables : c = Case("init", <<"table">>, p)
           \/ \E p \in IdxTables : c = Case("init", <<"index">>, p)
        /\ r = Res("ok", c.p, <<>>)
Calls == IF c.a[1] = "aln" THEN CallsAln(c.a[2])
         ELSE IF c.a[1] = "table" THEN CallsTable(c.p)
         ELSE CallsIdx(c.p)
Next == /\ c.op = "init"
        /\ \E call \in Calls :
              /\ c' = Case(call[1], call[2], c.p)
              /\ r' = Apply(c.p, call[1], call[2])
Spec == Init /\ [][Next]_vars

(* ---------------------------------------------------------------- laws per case *)
IsFrom == c.op = "from_alignment"
SmallIdx(n) == IntIdx((-n)..(n - 1)) \cup MaskIdx(n)
               \cup SliceIdx({1}, {-1}, {-1, 2}) \cup ArrIdx(0..(n - 1), 2)
InvCounts         == IsFrom => /\ Law_CountsImplDecl(c.a[1], c.a[2]) /\ Law_CountsBySymbol(c.a[1], c.a[2])
                               /\ Law_RowOrder(c.a[1], c.a[2])
InvCommonAlphabet == IsFrom => Law_CommonAlphabet(AlnAlphabets(c.a[1]))
InvGivenAlphabet  == (IsFrom /\ c.a[2] # <<>>) =>
                        (r.oc = "ok") = (\A q \in DOMAIN c.a[1].seqs : Extends(c.a[2][1], c.a[1].seqs[q].alph))
InvIndexIsColumns == (IsFrom /\ c.a[2] = <<>>) =>
                        \A ix \in SmallIdx(NumCols(c.a[1])) : Law_IndexIsColumnSelection(c.a[1], ix)
InvConsensus      == c.op = "consensus" => /\ Law_Consensus(c.p, c.a[1])
                                           /\ \A i \in DOMAIN c.p.rows : Law_Iupac(c.p.rows[i])
InvProbabilities  == c.op = "prob" => Law_Probabilities(c.p, c.a[1])
InvHelpers        == c.op = "seqprob" => Law_Helpers(c.p, c.a[1], c.a[2])
InvOddsUniform    ==      \* uniform background: odds = k * probability
  (c.op = "odds" /\ r.oc = "ok" /\ c.a[1] = <<>>) =>
     \A i \in DOMAIN r.out : \A j \in DOMAIN r.out[i] :
        LET pr == ProbRows(c.p, c.a[2])[i][j]
        IN IF IsNaN(pr) THEN IsNaN(r.out[i][j]) ELSE RatEq(r.out[i][j], <<pr[1] * c.p.k, pr[2]>>)
InvIndexCompose   == (c.op = "getitem" /\ r.oc = "ok") =>
                        \A ix2 \in SmallIdx(Len(r.p.rows)) : Law_IndexCompose(c.p, c.a[1], ix2)
InvIndexShape     == c.op = "getitem" =>
                        /\ WellFormedProfile(r.p)
                        /\ (c.a[1][1] = "int" => (r.oc = "ok" /\ Len(r.p.rows) = 1))
                        /\ (r.oc = "ok" => \A i \in DOMAIN r.p.rows :
                                              \E m \in DOMAIN c.p.rows : r.p.rows[i] = c.p.rows[m] /\ r.p.gaps[i] = c.p.gaps[m])
InvEq             == c.op = "eq" => /\ r.out = (c.a[1] = <<"profile", c.p>>)
                                    /\ (c.a[1][1] = "profile" => ProfileEq(c.a[1][2], <<"profile", c.p>>) = r.out)
InvResult         == /\ r.oc \in {"ok", "Rejected"}
                     /\ (r.oc = "Rejected" => r.p = (IF c.op \in MakerOps THEN NoProfile ELSE c.p))
                     /\ ((r.oc = "ok" /\ c.op \notin MakerOps /\ WellFormedProfile(c.p)) => WellFormedProfile(r.p))
                     /\ ((c.op \in MakerOps /\ r.oc = "ok" /\ c.op = "from_alignment") => WellFormedProfile(r.p))
=============================================================================
