SPECIFICATION Spec
CONSTANTS
  Depth = 4
  Rich = TRUE
INVARIANT InvWellFormed
INVARIANT InvConsensusHere
INVARIANT InvProbHere
INVARIANT InvHelpersHere
INVARIANT InvIndexHere
PROPERTY RefusalIsNoOp
CHECK_DEADLOCK FALSE
