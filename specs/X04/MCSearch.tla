------------------------------- MODULE MCSearch -------------------------------
(* X04, exhaustive single-call configuration for search.py.

   Initial states: the sequences of the bounded universe (op = "init"); one step applies one
   call  c = [op, a]  and records the specification's answer  r = Apply(...).  TLC
     * checks the laws of SeqProfileOps on every case (S1), and
     * dumps all (c, r) pairs; the driver executes every c against the real functions (S2).
   Universe:
     main   every string over <<a, b, c>> of length <= MaxLen  x  every query over the same
            alphabet of length <= MaxQ (the empty one, longer-than-sequence ones included),
            and find_symbol / _first / _last for a, b, c and the foreign symbol z
     alph   every string over {a, b} of length <= 3 written in each alphabet of AlphU  x  every
            query of length <= 2 written in each alphabet of AlphU (equal, extending in either
            direction, reordered, diverging third symbol) - the documented alphabet rule     *)
EXTENDS SeqProfileOps

CONSTANTS MaxLen, MaxQ, Rich

VARIABLES c, r
vars == <<c, r>>

A3  == <<"a", "b", "c">>
AB  == <<"a", "b">>
BA  == <<"b", "a">>
ABD == <<"a", "b", "d">>
ABCD == <<"a", "b", "c", "d">>
AlphU == IF Rich THEN {AB, A3, BA, ABD, ABCD} ELSE {AB, A3, BA, ABD}
Strings(S, n) == UNION {[1..m -> S] : m \in 0..n}

MainSeqs == {Sq(A3, s) : s \in Strings({"a", "b", "c"}, MaxLen)}
AlphSeqs == {Sq(A, s) : A \in AlphU, s \in Strings({"a", "b"}, 3)}
IsAlphCase(S) == Len(S.sym) <= 3 /\ \A i \in DOMAIN S.sym : S.sym[i] \in {"a", "b"}

FindOps == {"find_symbol", "find_symbol_first", "find_symbol_last"}
Calls(S) ==
     (IF S.alph = A3
        THEN {<<"find_subsequence", <<S, Sq(A3, q)>>>> : q \in Strings({"a", "b", "c"}, MaxQ)}
             \cup {<<op, <<S, x>>>> : op \in FindOps, x \in {"a", "b", "c", "z"}}
        ELSE {})
  \cup
     (IF IsAlphCase(S)
        THEN {<<"find_subsequence", <<S, Sq(A, q)>>>> : A \in AlphU, q \in Strings({"a", "b"}, 2)}
             \cup {<<"find_subsequence", <<S, Sq(A, <<A[Len(A)]>>)>>>> : A \in AlphU}   \* last symbol of the query alphabet
             \cup {<<op, <<S, x>>>> : op \in FindOps, x \in {"a", "c", "d"}}
        ELSE {})

Init == /\ \/ \E S \in MainSeqs : c = [op |-> "init", a |-> <<S>>]
           \/ \E S \in AlphSeqs : c = [op |-> "init", a |-> <<S>>]
        /\ r = Res("ok", NoProfile, <<>>)
Next == /\ c.op = "init"
        /\ \E call \in Calls(c.a[1]) :
              /\ c' = [op |-> call[1], a |-> call[2]]
              /\ r' = Apply(NoProfile, call[1], call[2])
Spec == Init /\ [][Next]_vars

(* ---------------------------------------------------------------- laws per case *)
IsSub == c.op = "find_subsequence"
IsSym == c.op \in FindOps
InvSubseqImplDecl == IsSub => Law_SubseqImplDecl(c.a[1], c.a[2])
InvSubseqSound    == IsSub => Law_SubseqSound(c.a[1], c.a[2]) /\ Law_SubseqEdges(c.a[1], c.a[2])
InvSubseqConcat   ==
  IsSub => \A k \in 0..Len(c.a[1].sym) :
              Law_SubseqConcat(Sq(c.a[1].alph, SubSeq(c.a[1].sym, 1, k)),
                               Sq(c.a[1].alph, SubSeq(c.a[1].sym, k + 1, Len(c.a[1].sym))), c.a[2])
InvSymbol         == IsSym => /\ Law_SymbolImplDecl(c.a[1], c.a[2]) /\ Law_FirstLast(c.a[1], c.a[2])
                              /\ Law_SubseqOfOne(c.a[1], c.a[2])
\* the documented alphabet rule, spelled out on this universe
InvAlphabetRule   == IsSub => (r.oc = "ok") = Extends(c.a[2].alph, c.a[1].alph)
InvResult         == /\ r.oc \in {"ok", "Rejected"}
                     /\ (c.op # "init" => WellFormedSeq(c.a[1]))
                     /\ (IsSub => WellFormedSeq(c.a[2]))
=============================================================================
