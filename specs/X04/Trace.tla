------------------------------- MODULE Trace -------------------------------
(* X04 direction code -> spec: calls recorded from the real functions / class are re-computed
   by SeqProfileOps.Apply.
   TRACE_FILE is a JSON array of traces; a trace is an array of events
       {op, a, oc, p, out}
   op / a   the call (encodings below), oc  "ok" | "Rejected" (any exception),
   p        the projection of the SequenceProfile object AFTER the call
            {k, rows, gaps, alph}  (search events and refused constructors: the empty profile),
   out      the returned value, projected:  positions (list) / position (int) for the search
            functions, {kind, alph, sym} for to_consensus, a boolean for ==, an int for len,
            {w, header, body} for str; [] for calls whose result is the object itself and for the
            numeric calls (floats never enter TLC).
   Sequences are {alph, sym}, alignments {seqs, trace}, optional values [] / [v], rationals
   [num, den], index objects as in PyIndex.

   A trace is the history of ONE profile object (the first event makes it); the search events are
   independent.  Every event is judged on its own from the logged pre-state (the state is
   re-synchronised on the logged observation), so one run reports every disagreement:
       <<"MISMATCH", tid, event, <<okOc, okP, okOut>>, expected oc, p, out, alt>>
   For the numeric calls (prob, odds, seqprob, seqscore) TLC publishes the exact rational value
       <<"EXPECT", tid, event, value>>
   and the driver compares the recorded floats with it (tolerance; 2^x for the logarithms).    *)
EXTENDS SeqProfileOps, Json, IOUtils

Tr == JsonDeserialize(IOEnv.TRACE_FILE)

VARIABLES tid, l, P
tvars == <<tid, l, P>>

JSeq(j)  == Sq(j.alph, j.sym)
JProf(j) == [k |-> j.k, rows |-> j.rows, gaps |-> j.gaps, alph |-> j.alph]
JAln(j)  == [seqs |-> [i \in DOMAIN j.seqs |-> JSeq(j.seqs[i])], trace |-> j.trace]
JIdx(j)  == <<j[1], j[2]>>

Args(e) ==
  CASE e.op = "find_subsequence" -> <<JSeq(e.a[1]), JSeq(e.a[2])>>
    [] e.op \in {"find_symbol", "find_symbol_first", "find_symbol_last"} -> <<JSeq(e.a[1]), e.a[2]>>
    [] e.op = "from_alignment" -> <<JAln(e.a[1]), e.a[2]>>
    [] e.op = "getitem"  -> <<JIdx(e.a[1])>>
    [] e.op = "eq"       -> << IF e.a[1][1] = "profile" THEN <<"profile", JProf(e.a[1][2])>> ELSE <<"other">> >>
    [] e.op = "seqprob"  -> <<JSeq(e.a[1]), e.a[2]>>
    [] e.op = "seqscore" -> <<JSeq(e.a[1]), e.a[2], e.a[3]>>
    [] OTHER -> e.a

ComparedOut(op) == op \in SearchOps \cup {"consensus", "eq", "len", "str"}

Judge(e, r) ==
  LET okOc  == r.oc = e.oc
      okP   == r.p = JProf(e.p)
      okOut == IF r.oc = "ok" /\ e.oc = "ok" /\ ComparedOut(e.op) THEN r.out = e.out ELSE TRUE
  IN /\ IF okOc /\ okP /\ okOut THEN TRUE
        ELSE PrintT(<<"MISMATCH", tid, l + 1, <<okOc, okP, okOut>>, r.oc, r.p, r.out, r.alt>>)
     /\ IF r.oc = "ok" /\ e.oc = "ok" /\ e.op \in NumericOps
          THEN PrintT(<<"EXPECT", tid, l + 1, r.out>>) ELSE TRUE

\* the recorded call lies in the domain the specification quantifies over (the generators are
\* supposed to stay inside; a violation is a failure of the machinery, not of biotite)
TableOK(k, rows, gaps) ==
  /\ \A i \in DOMAIN rows : Len(rows[i]) = k /\ \A j \in DOMAIN rows[i] : rows[i][j] >= 0
  /\ \A i \in DOMAIN gaps : gaps[i] >= 0
DomOK(e, a) ==
  CASE e.op = "find_subsequence" -> WellFormedSeq(a[1]) /\ WellFormedSeq(a[2])
    [] e.op \in {"find_symbol", "find_symbol_first", "find_symbol_last"} -> WellFormedSeq(a[1])
    [] e.op = "from_alignment" -> Dom_Alignment(a[1]) /\ (a[2] = <<>> \/ IsAlphabet(a[2][1]))
    [] e.op = "construct"   -> TableOK(a[1], a[2], a[3]) /\ IsAlphabet(a[4])
    [] e.op = "set_symbols" -> TableOK(a[1], a[2], <<>>)
    [] e.op = "set_gaps"    -> TableOK(0, <<>>, a[1])
    [] e.op = "poke_symbols" -> Dom_Poke(P, a[1], a[2]) /\ a[3] >= 0
    [] e.op = "poke_gaps"   -> Dom_Poke(P, a[1], 0) /\ a[2] >= 0
    [] e.op = "getitem"     -> Dom_Index(P, a[1])
    [] e.op = "odds"        -> Dom_Background(P, a[1])
    [] e.op = "seqprob"     -> /\ WellFormedSeq(a[1]) /\ Dom_ProfileSequence(P, a[1])
                               /\ Dom_ProbProductFits(P, IF a[2] < 0 THEN 0 ELSE a[2])
    [] e.op = "seqscore"    -> /\ WellFormedSeq(a[1]) /\ Dom_ProfileSequence(P, a[1]) /\ Dom_Background(P, a[2])
                               /\ Dom_ProductFits(P, a[2], IF a[3] < 0 THEN 0 ELSE a[3])
    [] e.op = "str"         -> Dom_StrLetters(P)
    [] OTHER -> TRUE
CheckDom(e) ==
  IF DomOK(e, Args(e)) THEN TRUE
  ELSE PrintT(<<"MISMATCH", tid, l + 1, <<"DOMAIN">>, "", NoProfile, <<>>, <<>>>>)

Init == /\ tid \in 1..Len(Tr)
        /\ l = 0
        /\ P = NoProfile

Next == /\ l < Len(Tr[tid])
        /\ l' = l + 1
        /\ UNCHANGED tid
        /\ LET e == Tr[tid][l + 1]
           IN /\ CheckDom(e)
              /\ Judge(e, Apply(P, e.op, Args(e)))
              /\ P' = JProf(e.p)              \* re-synchronise on the logged observation

Spec == Init /\ [][Next]_tvars
=============================================================================
