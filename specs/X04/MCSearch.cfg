SPECIFICATION Spec
CONSTANTS
  MaxLen = 5
  MaxQ = 3
  Rich = FALSE
INVARIANT InvSubseqImplDecl
INVARIANT InvSubseqSound
INVARIANT InvSubseqConcat
INVARIANT InvSymbol
INVARIANT InvAlphabetRule
INVARIANT InvResult
CHECK_DEADLOCK FALSE
