---------------------------- MODULE SeqProfileOps ----------------------------
(* X04: sequence search (biotite/sequence/search.py) and sequence profiles
   (biotite/sequence/profile.py) as per-position definitions.

   Abstract values
     alphabet   non-empty sequence of pairwise different symbols (strings); the symbol code of
                a symbol is its position - 1 (Alphabet.encode)
     sequence   [alph |-> alphabet, sym |-> sequence of symbols of alph]
     alignment  [seqs |-> <<sequence, ...>>, trace |-> <<column, ...>>]; a column is a tuple with
                one entry per row: the 0-based index into that row's sequence, or -1 for a gap
     profile    [k |-> number of symbol columns, rows |-> <<count row, ...>> (one per position,
                each of length k), gaps |-> <<gap count, ...>>, alph |-> alphabet]
     rational   <<num, den>>; den = 0 (then num = 0) stands for "not a number" (0/0)
     result     [oc |-> "ok" | "Rejected", p |-> profile after the call, out |-> returned value,
                 alt |-> see FindSubsequence]
   Positions are 0-based like the code's.

   For every public call there is one operator; where the code computes a value in a way that
   can differ from the per-position definition there is an *Impl (code-shaped) and a *Decl
   (per-position) operator and a Law_* relating the two (checked by TLC in stage S1).         *)
EXTENDS PyIndex, SequencesExt, FiniteSetsExt, TLC

(* ================================================================ alphabets / sequences *)
IsAlphabet(A)    == Len(A) > 0 /\ \A i, j \in DOMAIN A : (A[i] = A[j]) => (i = j)
SymSet(A)        == {A[i] : i \in DOMAIN A}
Sq(A, s)         == [alph |-> A, sym |-> s]
WellFormedSeq(S) == IsAlphabet(S.alph) /\ \A i \in DOMAIN S.sym : S.sym[i] \in SymSet(S.alph)
CodeOf(A, x)     == (CHOOSE i \in DOMAIN A : A[i] = x) - 1            \* Alphabet.encode
Codes(S)         == TLCEval([i \in DOMAIN S.sym |-> CodeOf(S.alph, S.sym[i])])  \* Sequence.code
\* A.extends(B): B is a prefix of A (same symbol <-> code mapping on B)
Extends(A, B)    == Len(B) <= Len(A) /\ SubSeq(A, 1, Len(B)) = B

DnaAlph  == <<"A", "C", "G", "T">>                                     \* NucleotideSequence.alphabet_unamb
RnaAlph  == <<"A", "C", "G", "U">>
AmbAlph  == <<"A", "C", "G", "T", "R", "Y", "W", "S", "M", "K", "H", "B", "V", "D", "N">>
ProtAlph == <<"A", "C", "D", "E", "F", "G", "H", "I", "K", "L", "M", "N", "P", "Q", "R", "S", "T",
              "V", "W", "Y", "B", "Z", "X", "*">>                       \* ProteinSequence.alphabet

SeqSum(s)  == FoldLeft(LAMBDA a, b : a + b, 0, s)
SeqMax(s)  == FoldLeft(LAMBDA a, b : IF b > a THEN b ELSE a, s[1], s)   \* s non-empty
SeqMin(s)  == FoldLeft(LAMBDA a, b : IF b < a THEN b ELSE a, s[1], s)
Upto0(n)   == TLCEval([i \in 1..n |-> i - 1])                                  \* np.arange(n)
Ascending(s) == \A i \in 1..(Len(s) - 1) : s[i] < s[i + 1]

NoProfile == [k |-> 0, rows |-> <<>>, gaps |-> <<>>, alph |-> <<>>]
Res(oc, p, out)       == [oc |-> oc, p |-> p, out |-> out, alt |-> <<>>]
ResAlt(oc, p, out, alt) == [oc |-> oc, p |-> p, out |-> out, alt |-> alt]
Rejected(p)           == Res("Rejected", p, <<>>)

(* ================================================================ search.py *)
(* --- find_subsequence: the string model *)
MatchAt(s, q, i)     == \A j \in DOMAIN q : s[i + j] = q[j]                    \* occurrence at 0-based i
SubseqPosDecl(s, q)  == {i \in 0..(Len(s) - Len(q)) : MatchAt(s, q, i)}         \* all, overlapping ones too
\* the code: a window of len(query) codes slides over sequence.code, np.array_equal per frame
SubseqPosImpl(sc, qc) ==
  LET m == Len(qc)
      n == Len(sc)
  IN IF n - m + 1 <= 0 THEN <<>>
     ELSE FoldLeft(LAMBDA acc, i : IF SubSeq(sc, i + 1, i + m) = qc THEN Append(acc, i) ELSE acc,
                   <<>>, Upto0(n - m + 1))

(* Documented (Parameters + Raises of the docstring): the QUERY alphabet must extend the SEQUENCE
   alphabet, ValueError otherwise.  (The code tests the opposite direction: finding
   X04-subsequence-alphabet-direction; `alt` carries what comparing the codes gives so that
   exactly that deviation can be recognised.)                                               *)
Dom_SubseqAlphabets(S, Q) == Extends(Q.alph, S.alph)
FindSubsequence(S, Q) ==
  LET pos == SubseqPosImpl(Codes(S), Codes(Q))
  IN IF Dom_SubseqAlphabets(S, Q) THEN ResAlt("ok", NoProfile, pos, pos)
     ELSE ResAlt("Rejected", NoProfile, <<>>, pos)

\* codes compare like symbols whenever one alphabet extends the other
Law_SubseqImplDecl(S, Q) ==
  (Extends(Q.alph, S.alph) \/ Extends(S.alph, Q.alph)) =>
     LET pos == SubseqPosImpl(Codes(S), Codes(Q))
     IN /\ ToSet(pos) = SubseqPosDecl(S.sym, Q.sym)
        /\ Ascending(pos)
\* every reported position is an occurrence, every occurrence is reported (read off the slices)
Law_SubseqSound(S, Q) ==
  LET r == FindSubsequence(S, Q)
  IN r.oc = "ok" =>
       \A i \in 0..Len(S.sym) :
          (\E k \in DOMAIN r.out : r.out[k] = i)
            <=> (i + Len(Q.sym) <= Len(S.sym) /\ SubSeq(S.sym, i + 1, i + Len(Q.sym)) = Q.sym)
\* the empty query occurs at every position 0..n (documentation silent; the code and the usual
\* string model agree), a query longer than the sequence nowhere
Law_SubseqEdges(S, Q) ==
  LET r == FindSubsequence(S, Q)
  IN r.oc = "ok" =>
       /\ (Len(Q.sym) = 0 => r.out = Upto0(Len(S.sym) + 1))
       /\ (Len(Q.sym) > Len(S.sym) => r.out = <<>>)

(* --- find_symbol / find_symbol_first / find_symbol_last *)
SymbolPosDecl(s, x)  == {i \in 0..(Len(s) - 1) : s[i + 1] = x}
SymbolPosImpl(sc, c) == SelectSeq(Upto0(Len(sc)), LAMBDA p : sc[p + 1] = c)     \* np.where(code == c)[0]
\* a symbol outside the sequence's alphabet cannot be encoded (Alphabet.encode: AlphabetError)
FindSymbol(S, x) ==
  IF x \notin SymSet(S.alph) THEN Rejected(NoProfile)
  ELSE Res("ok", NoProfile, SymbolPosImpl(Codes(S), CodeOf(S.alph, x)))
FirstDecl(s, x) == IF SymbolPosDecl(s, x) = {} THEN -1
                   ELSE CHOOSE i \in SymbolPosDecl(s, x) : \A j \in 0..(i - 1) : s[j + 1] # x
LastDecl(s, x)  == IF SymbolPosDecl(s, x) = {} THEN -1
                   ELSE CHOOSE i \in SymbolPosDecl(s, x) : \A j \in (i + 1)..(Len(s) - 1) : s[j + 1] # x
FindSymbolFirst(S, x) ==
  LET r == FindSymbol(S, x)
  IN IF r.oc # "ok" THEN r
     ELSE Res("ok", NoProfile, IF r.out = <<>> THEN -1 ELSE SeqMin(r.out))       \* np.min(match_i)
FindSymbolLast(S, x) ==
  LET r == FindSymbol(S, x)
  IN IF r.oc # "ok" THEN r
     ELSE Res("ok", NoProfile, IF r.out = <<>> THEN -1 ELSE SeqMax(r.out))       \* np.max(match_i)

Law_SymbolImplDecl(S, x) ==
  LET r == FindSymbol(S, x)
  IN IF x \in SymSet(S.alph)
       THEN /\ r.oc = "ok" /\ ToSet(r.out) = SymbolPosDecl(S.sym, x) /\ Ascending(r.out)
            /\ FindSymbolFirst(S, x).out = FirstDecl(S.sym, x)
            /\ FindSymbolLast(S, x).out = LastDecl(S.sym, x)
       ELSE r.oc = "Rejected" /\ FindSymbolFirst(S, x).oc = "Rejected" /\ FindSymbolLast(S, x).oc = "Rejected"
\* first <= last, both -1 exactly when the symbol does not occur; mirrored under reversal
Law_FirstLast(S, x) ==
  x \in SymSet(S.alph) =>
    LET f == FindSymbolFirst(S, x).out
        l == FindSymbolLast(S, x).out
        R == Sq(S.alph, Reverse(S.sym))
        n == Len(S.sym)
    IN /\ f <= l
       /\ (f = -1) = (l = -1)
       /\ (f = -1) = (\A i \in DOMAIN S.sym : S.sym[i] # x)
       /\ (f # -1 => FindSymbolLast(R, x).out = n - 1 - f /\ FindSymbolFirst(R, x).out = n - 1 - l)
\* a query of one symbol is find_symbol
Law_SubseqOfOne(S, x) ==
  x \in SymSet(S.alph) => FindSubsequence(S, Sq(S.alph, <<x>>)).out = FindSymbol(S, x).out
\* occurrences in a concatenation: those of the parts (shifted) are kept
Law_SubseqConcat(S, T, Q) ==
  (S.alph = T.alph /\ Extends(Q.alph, S.alph)) =>
    LET ST == Sq(S.alph, S.sym \o T.sym)
        all == ToSet(FindSubsequence(ST, Q).out)
    IN /\ ToSet(FindSubsequence(S, Q).out) \subseteq all
       /\ {i + Len(S.sym) : i \in ToSet(FindSubsequence(T, Q).out)} \subseteq all
       /\ \A i \in all : \/ i + Len(Q.sym) <= Len(S.sym)          \* inside S
                         \/ i >= Len(S.sym)                        \* inside T
                         \/ (i < Len(S.sym) /\ i + Len(Q.sym) > Len(S.sym))   \* across the joint
       /\ {i \in all : i + Len(Q.sym) <= Len(S.sym)} = ToSet(FindSubsequence(S, Q).out)

(* ================================================================ profile.py: construction *)
WellFormedProfile(p) ==
  /\ p.k = Len(p.alph) /\ Len(p.gaps) = Len(p.rows)
  /\ \A i \in DOMAIN p.rows : Len(p.rows[i]) = p.k
\* the counts the property speaks about are natural numbers
Dom_Counts(p) == /\ \A i \in DOMAIN p.rows : \A j \in DOMAIN p.rows[i] : p.rows[i][j] >= 0
                 /\ \A i \in DOMAIN p.gaps : p.gaps[i] >= 0
Prof(rows, gaps, A) == [k |-> Len(A), rows |-> rows, gaps |-> gaps, alph |-> A]

\* SequenceProfile(symbols, gaps, alphabet); symbols has shape (Len(rows), k)
NewProfile(k, rows, gaps, A) ==
  IF Len(A) # k \/ Len(gaps) # Len(rows) THEN Rejected(NoProfile)
  ELSE Res("ok", [k |-> k, rows |-> rows, gaps |-> gaps, alph |-> A], <<>>)

(* --- alignments *)
NumRows(aln) == Len(aln.seqs)
NumCols(aln) == Len(aln.trace)
\* (a row whose sequence is empty is outside the domain: get_codes evaluates code[-1] for a gap
\*  before masking it and numpy cannot index an empty array; see NOTES.md)
Dom_Alignment(aln) ==
  /\ NumRows(aln) >= 1
  /\ \A r \in DOMAIN aln.seqs : WellFormedSeq(aln.seqs[r]) /\ Len(aln.seqs[r].sym) >= 1
  /\ \A c \in DOMAIN aln.trace :
        /\ Len(aln.trace[c]) = NumRows(aln)
        /\ \A r \in DOMAIN aln.seqs : aln.trace[c][r] \in -1..(Len(aln.seqs[r].sym) - 1)
\* get_codes: one tuple per row, symbol code or -1 per column
GetCodes(aln) ==
  [r \in DOMAIN aln.seqs |->
     LET cs == Codes(aln.seqs[r])
     IN [c \in DOMAIN aln.trace |-> IF aln.trace[c][r] = -1 THEN -1 ELSE cs[aln.trace[c][r] + 1]]]
  \* (TLCEval is applied where the codes are used: FromAlignment)
\* gapped rows ("-" = gap) -> alignment (Alignment.trace_from_strings); a row of gaps only
\* belongs to a sequence of one unaligned symbol (Dom_Alignment)
GapSym == "-"
Ungapped(A, row) == LET s == SelectSeq(row, LAMBDA x : x # GapSym) IN IF s = <<>> THEN <<A[1]>> ELSE s
AlnFromRows(alphs, rows) ==
  [seqs  |-> [r \in DOMAIN rows |-> Sq(alphs[r], Ungapped(alphs[r], rows[r]))],
   trace |-> IF Len(rows) = 0 THEN <<>>
             ELSE [c \in DOMAIN rows[1] |->
                     [r \in DOMAIN rows |->
                        IF rows[r][c] = GapSym THEN -1
                        ELSE Len(SelectSeq(SubSeq(rows[r], 1, c), LAMBDA x : x # GapSym)) - 1]]]

(* --- the alphabet of the profile *)
\* _determine_common_alphabet: a running candidate, replaced when a later alphabet extends it
CommonAlphabetImpl(alphs) ==
  FoldLeft(LAMBDA acc, A : IF acc = <<>> THEN acc
                           ELSE IF Extends(acc[1], A) THEN acc
                           ELSE IF Extends(A, acc[1]) THEN <<A>>
                           ELSE <<>>,
           <<alphs[1]>>, Tail(alphs))
\* one of the alphabets extends all of them (<<>>: there is none -> ValueError)
CommonAlphabetDecl(alphs) ==
  LET c == {i \in DOMAIN alphs : \A j \in DOMAIN alphs : Extends(alphs[i], alphs[j])}
  IN IF c = {} THEN <<>> ELSE <<alphs[CHOOSE i \in c : TRUE]>>
Law_CommonAlphabet(alphs) == CommonAlphabetImpl(alphs) = CommonAlphabetDecl(alphs)

AlnAlphabets(aln) == [r \in DOMAIN aln.seqs |-> aln.seqs[r].alph]
ProfileAlphabet(aln, optAlph) ==
  IF optAlph = <<>> THEN CommonAlphabetImpl(AlnAlphabets(aln))
  ELSE IF \A r \in DOMAIN aln.seqs : Extends(optAlph[1], aln.seqs[r].alph) THEN optAlph
  ELSE <<>>

(* --- counting *)
\* np.bincount(row, minlength): counts of 0..max(len-1, max(row))
Bincount(row, minlength) ==
  LET len == IF row = <<>> THEN minlength
             ELSE IF SeqMax(row) + 1 > minlength THEN SeqMax(row) + 1 ELSE minlength
  IN FoldLeft(LAMBDA cnt, v : [cnt EXCEPT ![v + 1] = @ + 1], [i \in 1..len |-> 0], row)
\* the code, per alignment column: gaps renamed to code k, one bincount, split
ColumnCountsImpl(col, k) ==
  LET row   == [r \in DOMAIN col |-> IF col[r] = -1 THEN k ELSE col[r]]
      count == Bincount(row, k + 1)
  IN [sym |-> SubSeq(count, 1, k), gap |-> count[Len(count)]]
\* per-position definition
ColumnCountsDecl(col, k) ==
  [sym |-> [j \in 1..k |-> Cardinality({r \in DOMAIN col : col[r] = j - 1})],
   gap |-> Cardinality({r \in DOMAIN col : col[r] = -1})]
Column(codes, c) == [r \in DOMAIN codes |-> codes[r][c]]

\* SequenceProfile.from_alignment(alignment, alphabet=None); optAlph = <<>> or <<alphabet>>
FromAlignment(aln, optAlph) ==
  LET oa == ProfileAlphabet(aln, optAlph)
  IN IF oa = <<>> THEN Rejected(NoProfile)
     ELSE LET A     == oa[1]
              k     == Len(A)
              codes == TLCEval(GetCodes(aln))
              cc    == TLCEval([c \in DOMAIN aln.trace |-> ColumnCountsImpl(Column(codes, c), k)])
          IN Res("ok", [k |-> k, rows |-> [c \in DOMAIN cc |-> cc[c].sym],
                        gaps |-> [c \in DOMAIN cc |-> cc[c].gap], alph |-> A], <<>>)

Law_CountsImplDecl(aln, optAlph) ==
  LET r == FromAlignment(aln, optAlph)
  IN r.oc = "ok" =>
       LET codes == GetCodes(aln)
       IN /\ WellFormedProfile(r.p) /\ Dom_Counts(r.p)
          /\ Len(r.p.rows) = NumCols(aln)
          /\ \A c \in DOMAIN aln.trace :
               LET d == ColumnCountsDecl(Column(codes, c), r.p.k)
               IN /\ r.p.rows[c] = d.sym /\ r.p.gaps[c] = d.gap
                  \* every row of the alignment is counted exactly once per column
                  /\ SeqSum(r.p.rows[c]) + r.p.gaps[c] = NumRows(aln)
\* symbol-wise reading: the count of symbol x in column c is the number of rows showing x there
Law_CountsBySymbol(aln, optAlph) ==
  LET r == FromAlignment(aln, optAlph)
  IN r.oc = "ok" =>
       \A c \in DOMAIN aln.trace : \A j \in DOMAIN r.p.alph :
          r.p.rows[c][j] = Cardinality({q \in DOMAIN aln.seqs :
                                          /\ aln.trace[c][q] # -1
                                          /\ aln.seqs[q].sym[aln.trace[c][q] + 1] = r.p.alph[j]})
\* the order of the rows does not matter when the common alphabet does not depend on it
Law_RowOrder(aln, optAlph) ==
  LET n   == NumRows(aln)
      rev == [seqs |-> Reverse(aln.seqs), trace |-> [c \in DOMAIN aln.trace |-> Reverse(aln.trace[c])]]
      a   == FromAlignment(aln, optAlph)
      b   == FromAlignment(rev, optAlph)
  IN a.oc = b.oc /\ (a.oc = "ok" => a.p = b.p)

(* ================================================================ profile.py: object calls *)
\* property setters: only the shape is checked
SetSymbols(p, k, rows) ==
  IF k = p.k /\ Len(rows) = Len(p.rows) THEN Res("ok", [p EXCEPT !.rows = rows], <<>>) ELSE Rejected(p)
SetGaps(p, g) ==
  IF Len(g) = Len(p.gaps) THEN Res("ok", [p EXCEPT !.gaps = g], <<>>) ELSE Rejected(p)
\* in-place write through the public attribute: profile.symbols[i, j] = v / profile.gaps[i] = v
Dom_Poke(p, i, j) == i \in 0..(Len(p.rows) - 1) /\ j \in 0..(p.k - 1)
PokeSymbols(p, i, j, v) == Res("ok", [p EXCEPT !.rows[i + 1][j + 1] = v], <<>>)
PokeGaps(p, i, v)       == Res("ok", [p EXCEPT !.gaps[i + 1] = v], <<>>)

(* --- indexing: the count tables indexed along the position axis (PyIndex.Resolve); an integer
       does not collapse the axis                                                           *)
Take(s, pos) == TLCEval([i \in DOMAIN pos |-> s[pos[i] + 1]])
ResolvePos(ix, n) == LET r == Resolve(ix, n) IN [ok |-> r.ok, pos |-> IF r.ok THEN TLCEval(r.pos) ELSE <<>>]
GetItem(p, ix) ==
  \* (the quantifier over a singleton binds the value once; a LET would be re-evaluated per use)
  CHOOSE res \in { IF ~r.ok THEN Rejected(p)
                   ELSE Res("ok", [p EXCEPT !.rows = Take(p.rows, r.pos), !.gaps = Take(p.gaps, r.pos)], <<>>) :
                   r \in {ResolvePos(ix, Len(p.rows))} } : TRUE
\* integer index as a window of width one; IntWindowCode is the code's slice(i, i + 1)
\* (finding X04-getitem-minus-one), IntWindowFix the proposed slice(i, i + 1 or None)
IntWindowCode(i) == <<"slice", <<Some(i), Some(i + 1), None>>>>
IntWindowFix(i)  == <<"slice", <<Some(i), IF i = -1 THEN None ELSE Some(i + 1), None>>>>
Dom_IntIndex(p, i) == InRange(i, Len(p.rows))
\* numpy accepts a boolean mask of length 0 on an axis of any length (selects nothing); that quirk
\* of numpy is outside the domain: a mask is non-empty unless the profile is empty
Dom_Index(p, ix) ==
  CASE ix[1] = "int"  -> Dom_IntIndex(p, ix[2][1])
    [] ix[1] = "mask" -> Len(ix[2]) > 0 \/ Len(p.rows) = 0
    [] OTHER -> TRUE
Law_IntIndexWindow(n) ==
  \A i \in (-n)..(n - 1) :
     /\ Resolve(IntWindowFix(i), n).pos = Resolve(<<"int", <<i>>>>, n).pos
     /\ (Resolve(IntWindowCode(i), n).pos = Resolve(<<"int", <<i>>>>, n).pos) = (i # -1)
\* indexing the profile of an alignment = profile of the alignment restricted to those columns
Law_IndexIsColumnSelection(aln, ix) ==
  LET a == FromAlignment(aln, <<>>)
      r == Resolve(ix, NumCols(aln))
  IN (a.oc = "ok" /\ r.ok) =>
       GetItem(a.p, ix).p = FromAlignment([aln EXCEPT !.trace = Take(aln.trace, r.pos)], <<>>).p
\* slices compose like on any sequence
Law_IndexCompose(p, ix1, ix2) ==
  LET a == GetItem(p, ix1)
  IN a.oc = "ok" =>
       LET b == GetItem(a.p, ix2)
           r1 == Resolve(ix1, Len(p.rows))
           r2 == Resolve(ix2, Len(r1.pos))
       IN b.oc = "ok" => (r2.ok /\ b.p.rows = Take(p.rows, Take(TLCEval(r1.pos), TLCEval(r2.pos)))
                                /\ b.p.gaps = Take(p.gaps, Take(TLCEval(r1.pos), TLCEval(r2.pos))))

(* --- equality: the three attributes; anything that is not a profile is different *)
ProfileEq(p, other) ==
  IF other[1] # "profile" THEN FALSE
  ELSE LET q == other[2] IN p.rows = q.rows /\ p.k = q.k /\ p.gaps = q.gaps /\ p.alph = q.alph

(* --- consensus *)
ConsensusKind(A, asGeneral) ==
  IF asGeneral THEN "general"
  ELSE IF A = DnaAlph THEN "dna" ELSE IF A = RnaAlph THEN "rna" ELSE IF A = ProtAlph THEN "prot"
  ELSE "general"
MaxSet(row)         == {j \in DOMAIN row : row[j] = SeqMax(row)}          \* 1-based symbol indices
ArgmaxFirstDecl(row) == CHOOSE j \in MaxSet(row) : \A i \in 1..(j - 1) : row[i] < row[j]
ArgmaxFirstImpl(row) ==       \* np.argmax: scan, keep the first strictly greater
  FoldLeft(LAMBDA best, j : IF row[j] > row[best] THEN j ELSE best, 1, [i \in DOMAIN row |-> i])

\* IUPAC nucleotide codes as sets of bases (1 = A, 2 = C, 3 = G, 4 = T/U)
IupacLetters == {"A", "C", "G", "T", "R", "Y", "S", "W", "K", "M", "B", "D", "H", "V", "N"}
IupacBases(x) ==
  CASE x = "A" -> {1} [] x = "C" -> {2} [] x = "G" -> {3} [] x = "T" -> {4}
    [] x = "R" -> {1, 3} [] x = "Y" -> {2, 4} [] x = "S" -> {2, 3} [] x = "W" -> {1, 4}
    [] x = "K" -> {3, 4} [] x = "M" -> {1, 2}
    [] x = "B" -> {2, 3, 4} [] x = "D" -> {1, 3, 4} [] x = "H" -> {1, 2, 4} [] x = "V" -> {1, 2, 3}
    [] x = "N" -> {1, 2, 3, 4}
IupacDecl(set) == CHOOSE x \in IupacLetters : IupacBases(x) = set
\* the code's dictionary: key = ascending 0-based indices of the maxima
IupacTable ==
  { <<<<0>>, "A">>, <<<<1>>, "C">>, <<<<2>>, "G">>, <<<<3>>, "T">>,
    <<<<0, 2>>, "R">>, <<<<1, 3>>, "Y">>, <<<<1, 2>>, "S">>, <<<<0, 3>>, "W">>, <<<<2, 3>>, "K">>,
    <<<<0, 1>>, "M">>, <<<<1, 2, 3>>, "B">>, <<<<0, 2, 3>>, "D">>, <<<<0, 1, 3>>, "H">>,
    <<<<0, 1, 2>>, "V">>, <<<<0, 1, 2, 3>>, "N">> }
IupacImpl(row) ==
  LET key == SelectSeq(Upto0(Len(row)), LAMBDA j : row[j + 1] = SeqMax(row))   \* np.where(freq == max)[0]
  IN (CHOOSE e \in IupacTable : e[1] = key)[2]
Law_Iupac(row) == Len(row) = 4 => IupacImpl(row) = IupacDecl(MaxSet(row))

NucAlphabetFor(syms) == IF \A i \in DOMAIN syms : syms[i] \in SymSet(DnaAlph) THEN DnaAlph ELSE AmbAlph
ConsOut(kind, A, syms) == [kind |-> kind, alph |-> A, sym |-> syms]
\* to_consensus(as_general): gaps never influence the consensus.
\*   DNA / RNA alphabet: IUPAC ambiguity letter of the set of most frequent symbols; a position
\*     without any symbol is refused (ValueError).  The result is a NucleotideSequence, which has
\*     no U: an RNA consensus is spelled with T (the code passes "U" on and fails:
\*     finding X04-rna-consensus-u).
\*   protein alphabet: first most frequent symbol, X for a position without any symbol
\*   any other alphabet / as_general: first most frequent symbol (first symbol of the alphabet
\*     for a position without any symbol)
Consensus(p, asGeneral) ==
  LET kind == ConsensusKind(p.alph, asGeneral)
      n    == Len(p.rows)
  IN CASE kind \in {"dna", "rna"} ->
            IF \E i \in DOMAIN p.rows : SeqSum(p.rows[i]) = 0 THEN Rejected(p)
            ELSE LET syms == [i \in 1..n |-> IupacImpl(p.rows[i])]
                 IN Res("ok", p, ConsOut("nuc", NucAlphabetFor(syms), syms))
       [] kind = "prot" ->
            Res("ok", p, ConsOut("prot", ProtAlph,
                                 [i \in 1..n |-> IF SeqSum(p.rows[i]) = 0 THEN "X"
                                                 ELSE ProtAlph[ArgmaxFirstImpl(p.rows[i])]]))
       [] kind = "general" ->
            Res("ok", p, ConsOut("general", p.alph, [i \in 1..n |-> p.alph[ArgmaxFirstImpl(p.rows[i])]]))
\* per-position reading of the consensus
Law_Consensus(p, asGeneral) ==
  LET r    == Consensus(p, asGeneral)
      kind == ConsensusKind(p.alph, asGeneral)
  IN (WellFormedProfile(p) /\ Dom_Counts(p)) =>
     /\ \A i \in DOMAIN p.rows : ArgmaxFirstImpl(p.rows[i]) = ArgmaxFirstDecl(p.rows[i])
     /\ r.oc = "ok" =>
          /\ Len(r.out.sym) = Len(p.rows)
          /\ \A i \in DOMAIN p.rows :
               LET x == r.out.sym[i] IN
               IF kind \in {"dna", "rna"}
                 THEN /\ IupacBases(x) = MaxSet(p.rows[i])          \* exactly the most frequent bases
                      /\ SeqSum(p.rows[i]) > 0
                 ELSE IF SeqSum(p.rows[i]) = 0
                        THEN x = (IF kind = "prot" THEN "X" ELSE p.alph[1])
                        ELSE \E j \in MaxSet(p.rows[i]) :            \* a most frequent symbol, the first one
                               /\ x = p.alph[j] /\ \A m \in MaxSet(p.rows[i]) : j <= m
     \* the gap counts never matter
     /\ Consensus([p EXCEPT !.gaps = [i \in DOMAIN p.gaps |-> 0]], asGeneral).out = r.out

(* --- probabilities: exact rationals *)
RECURSIVE Gcd(_, _)
Gcd(a, b) == IF b = 0 THEN a ELSE Gcd(b, a % b)
Reduce(q) == IF q[2] = 0 THEN <<0, 0>>
             ELSE IF q[1] = 0 THEN <<0, 1>>
             ELSE LET g == Gcd(q[1], q[2]) IN <<q[1] \div g, q[2] \div g>>
RatMul(x, y) == LET a == Reduce(x)  b == Reduce(y) IN Reduce(<<a[1] * b[1], a[2] * b[2]>>)
RatDiv(x, y) == LET a == Reduce(x)  b == Reduce(y) IN Reduce(<<a[1] * b[2], a[2] * b[1]>>)   \* y > 0
RatEq(x, y)  == x[1] * y[2] = y[1] * x[2] /\ (x[2] = 0) = (y[2] = 0)
IsNaN(x)     == x[2] = 0

\* P(S) = (C_S + c_p / k) / (sum_i C_i + c_p)    (docstring of probability_matrix)
\*      = (k C_S + c_p) / (k (sum + c_p));  0/0 (no symbol, no pseudocount) is "not a number"
ProbEntry(c, total, k, pc) == Reduce(<<k * c + pc, k * (total + pc)>>)
ProbRows(p, pc) ==
  TLCEval([i \in DOMAIN p.rows |-> LET t == SeqSum(p.rows[i])
                                   IN [j \in 1..p.k |-> ProbEntry(p.rows[i][j], t, p.k, pc)]])
Dom_Pseudocount(pc) == pc >= 0                       \* documented refusal below zero
ProbabilityMatrix(p, pc) ==
  IF pc < 0 THEN Rejected(p) ELSE Res("ok", p, ProbRows(p, pc))

\* background frequencies: <<>> (uniform, 1/k) or <<b_1 .. b_k>> as rationals, all positive
Background(p, optBg) == IF optBg = <<>> THEN [j \in 1..p.k |-> <<1, p.k>>] ELSE optBg[1]
Dom_Background(p, optBg) ==
  optBg = <<>> \/ (Len(optBg[1]) = p.k /\ \A j \in DOMAIN optBg[1] : optBg[1][j][1] > 0 /\ optBg[1][j][2] > 0)
\* log_odds_matrix = log2 of these odds P(S) / B_S (the logarithm itself is not modelled:
\* odds 0 <-> -infinity, not-a-number stays)
OddsRows(p, optBg, pc) ==
  LET bg == Background(p, optBg)
      pr == ProbRows(p, pc)
  IN TLCEval([i \in DOMAIN pr |-> [j \in 1..p.k |-> IF IsNaN(pr[i][j]) THEN <<0, 0>> ELSE RatDiv(pr[i][j], bg[j])]])
OddsMatrix(p, optBg, pc) ==
  IF pc < 0 THEN Rejected(p) ELSE Res("ok", p, OddsRows(p, optBg, pc))

\* the helpers read matrix[position, code of the symbol]: the sequence must be written in an
\* alphabet that the profile's alphabet extends (not checked by the code: domain)
Dom_ProfileSequence(p, S) == Extends(p.alph, S.alph)
PickEntries(m, S) == [i \in DOMAIN S.sym |-> m[i][CodeOf(S.alph, S.sym[i]) + 1]]
RatProduct(s) == FoldLeft(LAMBDA acc, x : IF IsNaN(acc) \/ IsNaN(x) THEN <<0, 0>> ELSE RatMul(acc, x), <<1, 1>>, s)
SequenceProbability(p, S, pc) ==
  IF pc < 0 \/ Len(S.sym) # Len(p.rows) THEN Rejected(p)
  ELSE Res("ok", p, RatProduct(PickEntries(ProbRows(p, pc), S)))
\* sequence_score = sum of log2 odds = log2 of the product of the odds
SequenceScore(p, S, optBg, pc) ==
  IF pc < 0 \/ Len(S.sym) # Len(p.rows) THEN Rejected(p)
  ELSE Res("ok", p, RatProduct(PickEntries(OddsRows(p, optBg, pc), S)))

\* TLC's integers are 32 bit: the products of the helpers must stay below 2^30
Limit == 1073741824
ProductFits(p, bm, pc) ==
  LET f == [i \in DOMAIN p.rows |-> p.k * (SeqSum(p.rows[i]) + pc) * bm + 1]
  IN FoldLeft(LAMBDA acc, x : IF acc = -1 \/ acc > Limit \div x THEN -1 ELSE acc * x, 1, f) # -1
\* sequence_score: numerators and denominators of the odds are bounded by k (sum + pc) max(b_num, b_den)
Dom_ProductFits(p, optBg, pc) ==
  LET bg == Background(p, optBg)
  IN ProductFits(p, SeqMax([j \in DOMAIN bg |-> IF bg[j][1] > bg[j][2] THEN bg[j][1] ELSE bg[j][2]]), pc)
\* sequence_probability: no background involved
Dom_ProbProductFits(p, pc) == ProductFits(p, 1, pc)

Law_Probabilities(p, pc) ==
  (WellFormedProfile(p) /\ Dom_Counts(p) /\ pc >= 0) =>
    \A m \in {ProbRows(p, pc)} :
    \A i \in DOMAIN p.rows :
       LET t == SeqSum(p.rows[i]) IN
       IF t + pc = 0 THEN \A j \in 1..p.k : IsNaN(m[i][j])
       ELSE /\ \A j \in 1..p.k : ~IsNaN(m[i][j]) /\ m[i][j][1] >= 0 /\ m[i][j][1] <= m[i][j][2]
            \* a probability distribution: common denominator k (t + pc), numerators sum to it
            /\ SeqSum([j \in 1..p.k |-> p.k * p.rows[i][j] + pc]) = p.k * (t + pc)
            \* without pseudocount: the relative frequency
            /\ (pc = 0 => \A j \in 1..p.k : RatEq(m[i][j], <<p.rows[i][j], t>>))
            \* more counts, more probability
            /\ \A j1, j2 \in 1..p.k : (p.rows[i][j1] <= p.rows[i][j2])
                                        = (m[i][j1][1] * m[i][j2][2] <= m[i][j2][1] * m[i][j1][2])
\* the helpers are consistent with the matrices: product of the picked entries; uniform background:
\* odds product = k^n * probability
RECURSIVE Pow(_, _)
Pow(b, e) == IF e = 0 THEN 1 ELSE b * Pow(b, e - 1)
Law_Helpers(p, S, pc) ==
  (WellFormedProfile(p) /\ Dom_Counts(p) /\ pc >= 0 /\ Dom_ProfileSequence(p, S)
     /\ Len(S.sym) = Len(p.rows) /\ Dom_ProductFits(p, <<>>, pc)) =>
    LET pr == SequenceProbability(p, S, pc).out
        sc == SequenceScore(p, S, <<>>, pc).out
    IN /\ (IsNaN(pr) = \E i \in DOMAIN p.rows : SeqSum(p.rows[i]) + pc = 0)
       /\ IsNaN(sc) = IsNaN(pr)
       /\ (~IsNaN(pr) => sc = RatMul(pr, <<Pow(p.k, Len(p.rows)), 1>>))       \* both in lowest terms
       \* impossible exactly when some symbol was never seen at its position (and no pseudocount)
       /\ (~IsNaN(pr) => ((pr[1] = 0) = (pc = 0 /\ \E i \in DOMAIN S.sym :
                                             p.rows[i][CodeOf(S.alph, S.sym[i]) + 1] = 0)))

(* --- len / str *)
RECURSIVE Digits(_)
Digits(n) == IF n < 10 THEN 1 ELSE 1 + Digits(n \div 10)
\* str(profile): header line with the symbols, one line per position "index counts...", all cells
\* right-justified to the widest cell (docstring example).  Modelled for symbols that print as
\* one character (the tokens o1, o2, ... stand for non-letter symbols).
WideSymbols == {"o1", "o2", "o3", "o4"}
Dom_StrLetters(p) == Dom_Counts(p) /\ \A i \in DOMAIN p.alph : p.alph[i] \notin WideSymbols
StrGrid(p) ==
  LET n == Len(p.rows)
      w == SeqMax(<<1>> \o [i \in 1..n |-> Digits(i - 1)]
                       \o [i \in 1..(n * p.k) |-> Digits(p.rows[((i - 1) \div p.k) + 1][((i - 1) % p.k) + 1])])
  IN [w |-> w, header |-> p.alph, body |-> [i \in 1..n |-> <<i - 1>> \o p.rows[i]]]

(* ================================================================ dispatcher
   One entry per public call.  `p` is the profile the call is made on (ignored by the search
   functions and the constructors).                                                          *)
Apply(p, op, a) ==
  CASE op = "find_subsequence"  -> FindSubsequence(a[1], a[2])
    [] op = "find_symbol"       -> FindSymbol(a[1], a[2])
    [] op = "find_symbol_first" -> FindSymbolFirst(a[1], a[2])
    [] op = "find_symbol_last"  -> FindSymbolLast(a[1], a[2])
    [] op = "construct"         -> NewProfile(a[1], a[2], a[3], a[4])
    [] op = "from_alignment"    -> FromAlignment(a[1], a[2])
    [] op = "set_symbols"       -> SetSymbols(p, a[1], a[2])
    [] op = "set_gaps"          -> SetGaps(p, a[1])
    [] op = "poke_symbols"      -> PokeSymbols(p, a[1], a[2], a[3])
    [] op = "poke_gaps"         -> PokeGaps(p, a[1], a[2])
    [] op = "getitem"           -> GetItem(p, a[1])
    [] op = "eq"                -> Res("ok", p, ProfileEq(p, a[1]))
    [] op = "consensus"         -> Consensus(p, a[1])
    [] op = "prob"              -> ProbabilityMatrix(p, a[1])
    [] op = "odds"              -> OddsMatrix(p, a[1], a[2])
    [] op = "seqprob"           -> SequenceProbability(p, a[1], a[2])
    [] op = "seqscore"          -> SequenceScore(p, a[1], a[2], a[3])
    [] op = "len"               -> Res("ok", p, Len(p.rows))
    [] op = "str"               -> Res("ok", p, StrGrid(p))

SearchOps  == {"find_subsequence", "find_symbol", "find_symbol_first", "find_symbol_last"}
MakerOps   == {"construct", "from_alignment"}
NumericOps == {"prob", "odds", "seqprob", "seqscore"}

(* ================================================================ pinned examples (docstrings, tests) *)
Nuc(s) == Sq(DnaAlph, s)
ASSUME FindSubsequence(Nuc(<<"A","C","T","G","A","A","T","G","A">>), Nuc(<<"T","G","A">>)).out = <<2, 6>>
ASSUME FindSymbol(Nuc(<<"A","T","A","C","G","C","T","T","G","C","T">>), "T").out = <<1, 6, 7, 10>>
ASSUME FindSymbolFirst(Nuc(<<"A","T","A","C","G","C","T","T","G","C","T">>), "T").out = 1
ASSUME FindSymbolLast(Nuc(<<"A","T","A","C","G","C","T","T","G","C","T">>), "T").out = 10
ASSUME FindSubsequence(Nuc(<<"A","A","A">>), Nuc(<<"A","A">>)).out = <<0, 1>>          \* overlapping
ExampleAln == AlnFromRows(<<DnaAlph, DnaAlph>>,
                          << <<"C","G","T","C","A","T","-","-">>, <<"-","-","T","C","A","T","G","C">> >>)
ExampleProfile == FromAlignment(ExampleAln, <<>>).p
ASSUME ExampleProfile.rows = << <<0,1,0,0>>, <<0,0,1,0>>, <<0,0,0,2>>, <<0,2,0,0>>, <<2,0,0,0>>,
                               <<0,0,0,2>>, <<0,0,1,0>>, <<0,1,0,0>> >>
ASSUME ExampleProfile.gaps = <<1, 1, 0, 0, 0, 0, 1, 1>>
ASSUME Consensus(ExampleProfile, FALSE).out.sym = <<"C","G","T","C","A","T","G","C">>
ASSUME Consensus([ExampleProfile EXCEPT !.rows[1] = <<1,1,0,0>>], FALSE).out.sym[1] = "M"
ASSUME ProbRows(Prof(<< <<0,1,2,0>> >>, <<0>>, DnaAlph), 0)[1] = << <<0,1>>, <<1,3>>, <<2,3>>, <<0,1>> >>
ASSUME ProbRows(Prof(<< <<6,0,0,0>> >>, <<0>>, DnaAlph), 1)[1][1] = <<25, 28>>       \* 0.89285714
ASSUME \A n \in 1..4 : Law_IntIndexWindow(n)
ASSUME \A x \in IupacLetters : IupacDecl(IupacBases(x)) = x
=============================================================================
