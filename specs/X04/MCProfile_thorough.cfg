SPECIFICATION Spec
CONSTANTS
  Cols2 = 3
  Cols2b = 4
  Cols3 = 3
  IdxLen = 4
  Rich = TRUE
INVARIANT InvCounts
INVARIANT InvCommonAlphabet
INVARIANT InvGivenAlphabet
INVARIANT InvIndexIsColumns
INVARIANT InvConsensus
INVARIANT InvProbabilities
INVARIANT InvHelpers
INVARIANT InvOddsUniform
INVARIANT InvIndexCompose
INVARIANT InvIndexShape
INVARIANT InvEq
INVARIANT InvResult
CHECK_DEADLOCK FALSE
