SPECIFICATION Spec
CONSTANTS
  MaxLen = 7
  MaxQ = 3
  Rich = TRUE
INVARIANT InvSubseqImplDecl
INVARIANT InvSubseqSound
INVARIANT InvSubseqConcat
INVARIANT InvSymbol
INVARIANT InvAlphabetRule
INVARIANT InvResult
CHECK_DEADLOCK FALSE
