SPECIFICATION Spec
CONSTANTS
  Cols2 = 3
  Cols2b = 3
  Cols3 = 2
  IdxLen = 3
  Rich = FALSE
INVARIANT InvCounts
INVARIANT InvCommonAlphabet
INVARIANT InvGivenAlphabet
INVARIANT InvIndexIsColumns
INVARIANT InvConsensus
INVARIANT InvProbabilities
INVARIANT InvHelpers
INVARIANT InvOddsUniform
INVARIANT InvIndexCompose
INVARIANT InvIndexShape
INVARIANT InvEq
INVARIANT InvResult
CHECK_DEADLOCK FALSE
