SPECIFICATION Spec
CONSTANTS
  Depth = 3
  Rich = FALSE
INVARIANT InvWellFormed
INVARIANT InvConsensusHere
INVARIANT InvProbHere
INVARIANT InvHelpersHere
INVARIANT InvIndexHere
PROPERTY RefusalIsNoOp
CHECK_DEADLOCK FALSE
