----------------------------- MODULE ProfileMachine -----------------------------
(* X04, histories: a SequenceProfile object as a state machine over SeqProfileOps.Apply.

   A behaviour makes a profile (from_alignment or the constructor) and then applies up to
   Depth - 1 further public calls, plus one more observer call when the last call was an accepted
   write (`mut`): "observe, write, observe again" histories show an observer that answers from
   what it saw before the write.  The calls: indexing of an indexed profile, observers after the count
   tables were replaced (property setters) or written in place (public attributes), equality
   against an independently built profile, ...  TLC checks the invariants on every reachable
   state; every transition of the state graph is replayed against the real class (S2).

   State-relative calls (suffix "k") are resolved against the current state; the value the
   driver has to pass is published by the specification in `out` of the target state:
     set_symbols_k / set_gaps_k   variant "bump" (every count + 1), "rev" (positions reversed),
                                  "wide" / "long" (wrong shape: refused)
     eq_k        "same" (an independently built profile with the current tables), "gaps",
                 "counts" (one value changed), "alph" (same tables, alphabet with two symbols swapped)
     seqprob_k / seqscore_k       the sequence made of the first symbol at every position  *)
EXTENDS SeqProfileOps

CONSTANTS Depth, Rich

VARIABLES made, p, oc, out, steps, mut
vars == <<made, p, oc, out, steps, mut>>

Gen3 == <<"x", "y", "z">>
A1 == AlnFromRows(<<DnaAlph, DnaAlph, DnaAlph>>,
                  << <<"A", "C", "T", "G">>, <<"A", GapSym, "T", "A">>, <<"C", GapSym, "T", GapSym>> >>)
A2 == AlnFromRows(<<ProtAlph, ProtAlph>>, << <<"M", "K", GapSym>>, <<"M", "R", "X">> >>)
A3 == AlnFromRows(<<Gen3, Gen3>>, << <<"z", "x">>, <<"y", "x">> >>)
A4 == AlnFromRows(<<DnaAlph, AmbAlph>>, << <<"A", "C", "G">>, <<"N", "C", GapSym>> >>)
RnaTable == <<4, << <<1, 0, 0, 1>>, <<0, 2, 0, 0>>, <<0, 1, 1, 0>> >>, <<0, 0, 1>>, RnaAlph>>
Makers ==
       {<<"from_alignment", <<a, <<>>>>>> : a \in IF Rich THEN {A1, A2, A3, A4} ELSE {A1, A2, A3}}
  \cup {<<"construct", RnaTable>>}

Indices ==
       IntIdx({-1, 0, 1, -2})
  \cup {<<"slice", <<a[1], a[2], a[3]>>>> :
          a \in { <<Some(1), None, None>>, <<None, Some(-1), None>>, <<None, None, Some(-1)>>,
                  <<None, None, Some(2)>>, <<Some(5), None, None>>, <<Some(-2), Some(1), Some(-1)>> }}
  \cup {<<"mask", m>> : m \in { <<TRUE, FALSE, TRUE>>, <<FALSE, TRUE>>, <<TRUE, TRUE, FALSE, TRUE>> }}
  \cup {<<"arr", s>> : s \in { <<0, 0>>, <<2, 0>>, <<-1>>, <<3>>, <<>> }}
Users ==
       {<<"getitem", <<ix>>>> : ix \in Indices}
  \cup {<<"set_symbols_k", <<v>>>> : v \in {"bump", "rev", "wide"}}
  \cup {<<"set_gaps_k", <<v>>>> : v \in {"bump", "long"}}
  \cup {<<"poke_symbols", a>> : a \in { <<0, 0, 5>>, <<1, 2, 0>> }}
  \cup {<<"poke_gaps", <<0, 4>>>>}
  \cup {<<"consensus", <<b>>>> : b \in BOOLEAN}
  \cup {<<"prob", <<1>>>>, <<"odds", <<<<>>, 0>>>>, <<"len", <<>>>>, <<"str", <<>>>>}
  \cup {<<"seqprob_k", <<1>>>>, <<"seqscore_k", <<2>>>>}
  \cup {<<"eq_k", <<v>>>> : v \in {"same", "gaps", "counts", "alph"}}
AllCalls == Makers \cup Users
\* observers allowed as the extra call after a write
AfterWrite == {"consensus", "prob", "odds", "seqprob_k", "seqscore_k", "eq_k", "len", "str"}
Writes     == {"set_symbols", "set_gaps", "poke_symbols", "poke_gaps"}

Bump(rows)  == [i \in DOMAIN rows |-> [j \in DOMAIN rows[i] |-> rows[i][j] + 1]]
FirstSeq(q) == Sq(q.alph, [i \in DOMAIN q.rows |-> q.alph[1]])
SwapAlph(A) == [i \in DOMAIN A |-> IF i = 1 THEN A[2] ELSE IF i = 2 THEN A[1] ELSE A[i]]

Enabled(op, a) ==
  CASE op = "getitem"      -> Dom_Index(p, a[1])
    [] op \in {"poke_symbols"} -> Dom_Poke(p, a[1], a[2])
    [] op = "poke_gaps"    -> Dom_Poke(p, a[1], 0)
    [] op = "eq_k"         -> a[1] \in {"same", "alph"} \/ Len(p.rows) > 0
    [] op = "str"          -> Dom_StrLetters(p)
    [] op = "seqprob_k"    -> Dom_ProbProductFits(p, a[1])
    [] op = "seqscore_k"   -> Dom_ProductFits(p, <<>>, a[1])
    [] OTHER -> TRUE

Concrete(op, a) ==
  CASE op = "set_symbols_k" ->
         <<"set_symbols", CASE a[1] = "bump" -> <<p.k, Bump(p.rows)>>
                            [] a[1] = "rev"  -> <<p.k, Reverse(p.rows)>>
                            [] a[1] = "wide" -> <<p.k + 1, [i \in DOMAIN p.rows |-> p.rows[i] \o <<0>>]>> >>
    [] op = "set_gaps_k" ->
         <<"set_gaps", IF a[1] = "bump" THEN <<[i \in DOMAIN p.gaps |-> p.gaps[i] + 1]>> ELSE <<p.gaps \o <<0>>>> >>
    [] op = "eq_k" ->
         <<"eq", << <<"profile",
                      CASE a[1] = "same"   -> p
                        [] a[1] = "gaps"   -> [p EXCEPT !.gaps[1] = @ + 1]
                        [] a[1] = "counts" -> [p EXCEPT !.rows[Len(p.rows)][p.k] = @ + 1]
                        [] a[1] = "alph"   -> [p EXCEPT !.alph = SwapAlph(p.alph)]>> >> >>
    [] op = "seqprob_k"  -> <<"seqprob", <<FirstSeq(p), a[1]>>>>
    [] op = "seqscore_k" -> <<"seqscore", <<FirstSeq(p), <<>>, a[1]>>>>
    [] OTHER -> <<op, a>>

\* what the driver passes for a state-relative call, together with the call's own result
Published(cc, res) ==
  CASE cc[1] \in {"set_symbols", "set_gaps"} -> [arg |-> cc[2], res |-> <<>>]
    [] cc[1] = "eq"                          -> [arg |-> cc[2][1][2], res |-> res.out]
    [] cc[1] \in {"seqprob", "seqscore"}     -> [arg |-> cc[2][1], res |-> res.out]
    [] OTHER                                 -> [arg |-> <<>>, res |-> res.out]

Init == /\ made = FALSE /\ p = NoProfile /\ oc = "ok" /\ out = [arg |-> <<>>, res |-> <<>>] /\ steps = 0
        /\ mut = FALSE

Make(cl) == /\ ~made /\ cl \in Makers
            /\ LET res == Apply(NoProfile, cl[1], cl[2])
               IN p' = res.p /\ oc' = res.oc /\ out' = [arg |-> <<>>, res |-> <<>>]
            /\ made' = TRUE /\ steps' = 1 /\ mut' = FALSE
Use(cl)  == /\ made /\ cl \in Users
            /\ (steps < Depth \/ (steps = Depth /\ mut /\ cl[1] \in AfterWrite))
            /\ Enabled(cl[1], cl[2]) = TRUE
            /\ LET cc  == Concrete(cl[1], cl[2])
                   res == Apply(p, cc[1], cc[2])
               IN /\ p' = res.p /\ oc' = res.oc /\ out' = Published(cc, res)
                  /\ mut' = (cc[1] \in Writes /\ res.oc = "ok")
            /\ UNCHANGED made /\ steps' = steps + 1
Call(cl) == Make(cl) \/ Use(cl)
Next == \E cl \in AllCalls : Call(cl)
Spec == Init /\ [][Next]_vars

(* ---------------------------------------------------------------- properties *)
InvWellFormed  == made => WellFormedProfile(p) /\ Dom_Counts(p)
RefusalIsNoOp  == [][(made /\ oc' # "ok") => p' = p]_vars
\* the laws hold at every reachable profile, not only at freshly made ones (checked on the
\* profiles below the last level; the last level of one tier is an inner level of the next)
Inner == made /\ steps < Depth
InvConsensusHere == Inner => Law_Consensus(p, FALSE) /\ Law_Consensus(p, TRUE)
InvProbHere      == Inner => Law_Probabilities(p, 0) /\ Law_Probabilities(p, 1)
InvHelpersHere   == Inner => Law_Helpers(p, FirstSeq(p), 1)
SomeSlices       == {<<"slice", <<Some(1), None, None>>>>, <<"slice", <<None, None, Some(-1)>>>>,
                     <<"slice", <<None, Some(-1), Some(2)>>>>}
HereIdx          == IntIdx((-Len(p.rows))..(Len(p.rows) - 1)) \cup SomeSlices
InvIndexHere     == Inner => \A i1 \in HereIdx : \A i2 \in SomeSlices \cup IntIdx({0}) :
                               Law_IndexCompose(p, i1, i2)
=============================================================================
