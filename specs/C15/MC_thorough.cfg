SPECIFICATION Spec
CONSTANTS
  Tier = "thorough"
INVARIANT InvClaims
INVARIANT InvUnwrapDomain
INVARIANT InvShapesDomain
CHECK_DEADLOCK FALSE
