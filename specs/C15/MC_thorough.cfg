SPECIFICATION Spec
CONSTANTS
  Tier = "thorough"
INVARIANT InvClaims
INVARIANT InvUnwrapDomain
CHECK_DEADLOCK FALSE
