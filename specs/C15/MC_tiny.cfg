SPECIFICATION Spec
CONSTANTS
  Tier = "tiny"
INVARIANT InvClaims
INVARIANT InvUnwrapDomain
CHECK_DEADLOCK FALSE
