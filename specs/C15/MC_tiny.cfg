SPECIFICATION Spec
CONSTANTS
  Tier = "tiny"
INVARIANT InvClaims
INVARIANT InvUnwrapDomain
INVARIANT InvShapesDomain
CHECK_DEADLOCK FALSE
