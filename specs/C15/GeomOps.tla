------------------------------- MODULE GeomOps -------------------------------
(* C15: geometric measurements, periodic helpers and rigid transformations of
   biotite.structure (geometry.py, box.py, transform.py) on the integer lattice.

   One operator per public function.  Where the code has a shape the property depends on,
   an implementation-shaped operator (Impl...) stands next to the declarative one and S1
   (Geometry.tla) decides that they agree on the bounded domain.

   Conventions: points / vectors <<x,y,z>> of integers; an optional box is <<>> (no periodic
   boundary) or <<B>> with B a matrix whose rows are the box vectors; angles are never
   computed - an angle is represented by the exact data that determine it:
     angle     <<num, den2>>      cos = num / sqrt(den2)
     dihedral  <<t, x, n2>>       phi = atan2(t * sqrt(n2), x)
   so that drivers compare cosines / atan2 of exact integers with the real results. *)
EXTENDS Lattice

(* ------------------------------------------------------------------ displacement *)
HasBox(bo) == bo # <<>>

\* textbook: the difference vector; with a box, a shortest periodic image of it
Dom_Box(B) == IsBox(B)
(* the determinant is a power of two: the fractional coordinates of integer points (adjugate /
   determinant) are dyadic, so float32/float64 compute them exactly.  With any other
   determinant a point lying exactly ON a box face gets the fraction 0 or -3e-17 depending on
   rounding (reproduced: box ((4,0,0),(2,12,2),(0,0,4)), point (-2,-12,-2)), and which of the
   two lattice-equivalent placements move_inside_box / remove_pbc choose is unspecified. *)
Dom_DyadicBox(B) == Abs(Det(B)) \in {2^k : k \in 0..24}
IsShortestImage(v, d, B) == IsLatticeVec(VSub(v, d), B) /\ Norm2(v) = MinImageN2(d, B, 2)
\* the minimum image is unique (the range in which the property demands minimality for
\* triclinic boxes is contained in this)
UniqueMinImage(d, B) == Cardinality(MinImages(d, B, 2)) = 1

\* displacement(atoms1, atoms2, box): from a to b
Displacement(a, b, bo) == IF HasBox(bo) THEN ImplDisp(VSub(b, a), bo[1]) ELSE VSub(b, a)

\* with a precomputed box context: bc = <<>> or <<BoxCtx(B)>>
CtxOf(bo) == IF HasBox(bo) THEN <<BoxCtx(bo[1])>> ELSE <<>>
DisplacementP(a, b, bc) == IF bc # <<>> THEN ImplDispP(VSub(b, a), bc[1]) ELSE VSub(b, a)

(* the property's range for triclinic boxes *)
Dom_MinImage(d, B) == IsOrthogonalBox(B) \/ Dom_HalfHeight(MinImageN2(d, B, 2), B)

(* ------------------------------------------------------------------ distance, angle, dihedral *)
Distance2(a, b, bo) == Norm2(Displacement(a, b, bo))

\* angle(a1, a2, a3): the angle at a2.  Code: v1 = a2 - a1, v2 = a2 - a3, arccos(v1.v2 / |v1||v2|)
AngleOf(v1, v2) == <<Dot(v1, v2), Norm2(v1) * Norm2(v2)>>
Angle(a1, a2, a3, bo) == AngleOf(Displacement(a1, a2, bo), Displacement(a3, a2, bo))
Dom_Angle(a1, a2, a3, bo) == Displacement(a1, a2, bo) # Zero3 /\ Displacement(a3, a2, bo) # Zero3
\* textbook: the angle between the rays a2->a1 and a2->a3
AngleTextbook(a1, a2, a3) == AngleOf(VSub(a1, a2), VSub(a3, a2))

\* dihedral(a1..a4).  Textbook (IUPAC): with b1 = a2-a1, b2 = a3-a2, b3 = a4-a3,
\*   phi = atan2( |b2| b1.(b2 x b3), (b1 x b2).(b2 x b3) )
DihedralOf(b1, b2, b3) == <<Triple(b1, b2, b3), Dot(Cross(b1, b2), Cross(b2, b3)), Norm2(b2)>>
\* code: n1 = v1 x v2, n2 = v2 x v3 (unit vectors v), x = n1.n2, y = (n1 x n2).v2, atan2(y, x).
\* Without the normalisation y = (n1 x n2).b2 / |b2| up to the positive factor of x:
ImplDihedralY(b1, b2, b3) == Dot(Cross(Cross(b1, b2), Cross(b2, b3)), b2)   \* = |b2|^2 * triple
Dihedral(a1, a2, a3, a4, bo) ==
  DihedralOf(Displacement(a1, a2, bo), Displacement(a2, a3, bo), Displacement(a3, a4, bo))
Dom_Dihedral(a1, a2, a3, a4, bo) ==
  LET b1 == Displacement(a1, a2, bo)  b2 == Displacement(a2, a3, bo)  b3 == Displacement(a3, a4, bo)
  IN Cross(b1, b2) # Zero3 /\ Cross(b2, b3) # Zero3

\* centroid(P) = Sum / n  as <<numerator vector, n>>
Centroid(P) == <<VSum(P), Len(P)>>

(* ------------------------------------------------------------------ operand shapes, broadcasting *)
(* "The dimensions may vary ... usual NumPy broadcasting rules apply": every operand of
   displacement / distance / angle / dihedral is <<rank, X>> with
     rank 1   X a position                          ndarray (3,)     or Atom
     rank 2   X a sequence of n positions           ndarray (n,3)    or AtomArray
     rank 3   X a sequence of m models of n atoms   ndarray (m,n,3)  or AtomArrayStack
   in ANY order and ANY argument position.  The result has the highest rank among the
   operands; its entry (model mi, atom ai) is the textbook value on the positions the
   operands contribute to that entry (a rank-2 operand the same atoms to every model, a
   rank-1 operand the same position to every entry).
   The box argument ba is <<>> (none), <<"one", B>> (shape (3,3), the same box for every model)
   or <<"per", <<B1, .., Bm>>>> (shape (m,3,3), "only allowed when the input coordinates
   comprise multiple models"). *)
OperandAt(op, mi, ai) == CASE op[1] = 1 -> op[2] [] op[1] = 2 -> op[2][ai] [] op[1] = 3 -> op[2][mi][ai]
ResultRank(ops) == SetMax({ops[j][1] : j \in DOMAIN ops})
ModelCounts(ops) == {Len(ops[j][2]) : j \in {i \in DOMAIN ops : ops[i][1] = 3}}
AtomCounts(ops) == {Len(ops[j][2]) : j \in {i \in DOMAIN ops : ops[i][1] = 2}}
                     \cup {Len(ops[j][2][1]) : j \in {i \in DOMAIN ops : ops[i][1] = 3}}
ModelCount(ops) == IF ModelCounts(ops) = {} THEN 1 ELSE SetMax(ModelCounts(ops))
AtomCount(ops) == IF AtomCounts(ops) = {} THEN 1 ELSE SetMax(AtomCounts(ops))
\* the operands can be broadcast: equal atom counts, equal model counts
Dom_Operands(ops) == Cardinality(ModelCounts(ops)) <= 1 /\ Cardinality(AtomCounts(ops)) <= 1
Dom_BoxArg(ba, ops) ==
  \/ ba = <<>>
  \/ ba[1] = "one" /\ Dom_DyadicBox(ba[2])
  \/ ba[1] = "per" /\ ResultRank(ops) = 3 /\ Len(ba[2]) = ModelCount(ops)
                   /\ \A i \in DOMAIN ba[2] : Dom_DyadicBox(ba[2][i])
BoxAt(ba, mi) == IF ba = <<>> THEN <<>> ELSE IF ba[1] = "one" THEN <<ba[2]>> ELSE <<ba[2][mi]>>

FnNames == {"displacement", "distance", "angle", "dihedral"}
FnArity(fn) == CASE fn = "displacement" -> 2 [] fn = "distance" -> 2 [] fn = "angle" -> 3 [] fn = "dihedral" -> 4
\* the displacements a function forms, as <<from, to>> argument positions
BondPairs(fn) == CASE fn = "displacement" -> {<<1, 2>>} [] fn = "distance" -> {<<1, 2>>}
                   [] fn = "angle" -> {<<1, 2>>, <<3, 2>>} [] fn = "dihedral" -> {<<1, 2>>, <<2, 3>>, <<3, 4>>}
\* textbook value on the positions p (one per argument), bc = <<>> or <<BoxCtx(B)>>, and whether it
\* is defined (no zero-length vector, no collinear triple): <<value, defined>>
FnEvalP(fn, p, bc) ==
  CASE fn = "displacement" -> <<DisplacementP(p[1], p[2], bc), TRUE>>
    [] fn = "distance" -> <<Norm2(DisplacementP(p[1], p[2], bc)), TRUE>>
    [] fn = "angle" -> LET v1 == DisplacementP(p[1], p[2], bc)  v2 == DisplacementP(p[3], p[2], bc)
                       IN <<AngleOf(v1, v2), v1 # Zero3 /\ v2 # Zero3>>
    [] fn = "dihedral" -> LET b1 == DisplacementP(p[1], p[2], bc)  b2 == DisplacementP(p[2], p[3], bc)  b3 == DisplacementP(p[3], p[4], bc)
                          IN <<DihedralOf(b1, b2, b3), Cross(b1, b2) # Zero3 /\ Cross(b2, b3) # Zero3>>
FnValueP(fn, p, bc) == FnEvalP(fn, p, bc)[1]
ASSUME FnEvalP("angle", <<<<1, 0, 0>>, <<0, 0, 0>>, <<0, 2, 0>>>>, <<>>) = <<Angle(<<1, 0, 0>>, <<0, 0, 0>>, <<0, 2, 0>>, <<>>), TRUE>>
ASSUME FnEvalP("dihedral", <<<<1, 0, 0>>, <<0, 0, 0>>, <<0, 2, 0>>, <<0, 2, 3>>>>, <<>>)
         = <<Dihedral(<<1, 0, 0>>, <<0, 0, 0>>, <<0, 2, 0>>, <<0, 2, 3>>, <<>>), Dom_Dihedral(<<1, 0, 0>>, <<0, 0, 0>>, <<0, 2, 0>>, <<0, 2, 3>>, <<>>)>>
(* the periodic value is specified: every displacement the function forms has a unique minimum
   image inside the property's range (ties and the range beyond half the box height are
   unspecified).  Orthogonal box: the minimum image is unique iff no fractional component of the
   displacement is exactly 1/2.  Triclinic box: an image shorter than half the smallest box
   height exists (it is then the unique minimum image, and all its fractions are below 1/2 in
   absolute value, so it is one of the 8 images w + k.B, k in {-1,0}^3, of the wrapped
   representative w).  Geometry!EvalVecBox decides that this agrees with the declarative
   MinImages / Dom_MinImage. *)
PairSpecifiedP(d, bx) ==
  IF bx.ortho
  THEN LET f == FracNumP(d, bx)  a == Abs(bx.d) IN \A i \in 1..3 : 2 * ModI(f[i], a) # a
  ELSE LET w == MoveInsideP(d, bx)
       IN Dom_HalfHeight(SetMin({Norm2(VAdd(w, LatVec(Shifts8[k], bx.B))) : k \in 1..8}), bx.B)
FnSpecifiedP(fn, p, bc) ==
  bc = <<>> \/ \A pr \in BondPairs(fn) : PairSpecifiedP(VSub(p[pr[2]], p[pr[1]]), bc[1])
\* entry = <<value, specified, defined>>
EntryOf(fn, p, bc) == LET e == FnEvalP(fn, p, bc) IN <<e[1], FnSpecifiedP(fn, p, bc), e[2]>>
\* the result of fn(ops[1], .., ops[k], box = ba) as [model][atom] (a result of rank 2 has one
\* model, of rank 1 one model and one atom)
BroadcastWith(E(_, _), ops, ba) ==
  LET bcs == EagerSeq([mi \in 1..ModelCount(ops) |-> CtxOf(BoxAt(ba, mi))]) IN
  [mi \in 1..ModelCount(ops) |-> [ai \in 1..AtomCount(ops) |->
      E([j \in DOMAIN ops |-> OperandAt(ops[j], mi, ai)], bcs[mi])]]
Broadcast(fn, ops, ba) == BroadcastWith(LAMBDA p, bc : EntryOf(fn, p, bc), ops, ba)
\* the values and the "defined" flags only
BroadcastValues(fn, ops, ba) == BroadcastWith(LAMBDA p, bc : FnEvalP(fn, p, bc), ops, ba)

(* implementation-shaped: displacement() decides the order of the subtraction by the
   dimensionality of the operands ("an array can be only subtracted by an array with less
   dimensions"): v2 - v1 when rank1 <= rank2, else -(v1 - v2) *)
ImplDiffByRank(r1, r2, v1, v2) == IF r1 <= r2 THEN VSub(v2, v1) ELSE VNeg(VSub(v1, v2))
ImplDisplacementByRank(r1, r2, a, b, bc) ==
  LET d == ImplDiffByRank(r1, r2, a, b) IN IF bc # <<>> THEN ImplDispP(d, bc[1]) ELSE d
ImplFnValueP(fn, r, p, bc) ==
  LET D(i, j) == ImplDisplacementByRank(r[i], r[j], p[i], p[j], bc) IN
  CASE fn = "displacement" -> D(1, 2)
    [] fn = "distance" -> Norm2(D(1, 2))
    [] fn = "angle" -> AngleOf(D(1, 2), D(3, 2))
    [] fn = "dihedral" -> DihedralOf(D(1, 2), D(2, 3), D(3, 4))
\* the value after reversing the order of the arguments: the displacement is negated, distance,
\* angle and dihedral are unchanged
ReversedValue(fn, v) == IF fn = "displacement" THEN VNeg(v) ELSE v

(* index_xxx(atoms, indices, periodic, box) = xxx(atoms[.., indices[:,1], :], .., box): atoms is an
   operand of rank 2 or 3, rows a sequence of index tuples (1-based here) *)
Gather(atoms, rows, p) ==
  IF atoms[1] = 2 THEN <<2, [r \in DOMAIN rows |-> atoms[2][rows[r][p]]]>>
  ELSE <<3, [mi \in DOMAIN atoms[2] |-> [r \in DOMAIN rows |-> atoms[2][mi][rows[r][p]]]]>>
IndexFn(fn, atoms, rows, ba) == Broadcast(fn, [p \in 1..FnArity(fn) |-> Gather(atoms, rows, p)], ba)

\* centroid(atoms): rank 2 -> one centroid, rank 3 -> one per model; as [model] of <<numerators, n>>
CentroidOf(op) == IF op[1] = 2 THEN <<Centroid(op[2])>> ELSE [mi \in DOMAIN op[2] |-> Centroid(op[2][mi])]

(* ------------------------------------------------------------------ rigid motions *)
(* translate(P, t); rotate(P, angles) with Euler quarter turns e: matrix EulerMat(e);
   rotate_about_axis(P, axis, angle, support): x |-> R (x - s) + s;
   rotate_centered(P, angles): x |-> R (x - c) + c with c the centroid, returned as
   <<numerators, n>> since c has denominator n;
   align_vectors(P, u, v, op, tp): x |-> R(u -> v) (x - op) + tp. *)
Translate(P, t) == [k \in DOMAIN P |-> VAdd(P[k], t)]
Rotate(P, e) == [k \in DOMAIN P |-> MatVec(EulerMat(e), P[k])]
RotateAboutAxis(P, turn, s) == [k \in DOMAIN P |-> VAdd(MatVec(AxisTurnMat(turn), VSub(P[k], s)), s)]
RotateCentered(P, e) ==
  LET n == Len(P)  s == VSum(P)  R == EulerMat(e)
  IN <<[k \in DOMAIN P |-> VAdd(MatVec(R, VSub(VScale(n, P[k]), s)), s)], n>>

\* axis-parallel directions: sign and axis of an integer vector with one non-zero entry
Dom_AxisDir(u) == Cardinality({i \in 1..3 : u[i] # 0}) = 1
UnitOf(u) == <<Sgn(u[1]), Sgn(u[2]), Sgn(u[3])>>
\* align_vectors' formula R = I + [w]x + [w]x^2 / (1 + c), w = u^ x v^, c = u^.v^ ; for
\* perpendicular unit vectors c = 0; for equal directions w = 0, R = I; opposite directions
\* are refused (ValueError documented)
AlignOutcome(u, v) == IF Dot(UnitOf(u), UnitOf(v)) = -1 THEN "Rejected" ELSE "ok"
AlignRot(u, v) ==
  LET uu == UnitOf(u)  vv == UnitOf(v)  K == CrossMat(Cross(uu, vv))
  IN IF Dot(uu, vv) = 1 THEN Id3 ELSE MatAdd(MatAdd(Id3, K), MatMul(K, K))
AlignVectors(P, u, v, op, tp) == [k \in DOMAIN P |-> VAdd(MatVec(AlignRot(u, v), VSub(P[k], op)), tp)]

(* ------------------------------------------------------------------ box helpers *)
\* coord_to_fraction: <<numerators, Det>>;  fraction_to_coord is its inverse
CoordToFraction(v, B) == <<FracNum(v, B), Det(B)>>
FractionToCoord(f, B) ==      \* f = <<numerators, den>> with den | numerators . B
  LET w == VecMat(f[1], B) IN <<w[1] \div f[2], w[2] \div f[2], w[3] \div f[2]>>
\* move_inside_box = MoveInside (Lattice)

\* unitcell_from_vectors(B): lengths^2 and the cosines as <<num, den2>>
UnitCellOf(B) == <<Norm2(B[1]), Norm2(B[2]), Norm2(B[3]),
                   AngleOf(B[2], B[3]), AngleOf(B[1], B[3]), AngleOf(B[1], B[2])>>
\* vectors_from_unitcell(a, b, c, alpha, beta, gamma) with cos = ca/2, cb/2, cg/2:
\* the Gram matrix (b_i . b_j) of the result, times 2
CellGram2(a, b, c, ca, cb, cg) ==
  <<<<2 * a * a, a * b * cg, a * c * cb>>, <<a * b * cg, 2 * b * b, b * c * ca>>, <<a * c * cb, b * c * ca, 2 * c * c>>>>
\* positive volume:  1 + 2 cos cos cos - cos^2 - cos^2 - cos^2 > 0   (times 8... /4)
Dom_Cell(a, b, c, ca, cb, cg) ==
  /\ a > 0 /\ b > 0 /\ c > 0
  /\ 8 + 2 * ca * cb * cg - 2 * ca * ca - 2 * cb * cb - 2 * cg * cg > 0
Gram(B) == MatMul(B, Transpose(B))
\* the orientation vectors_from_unitcell produces: a along x, b in the xy plane
IsCanonicalOrientation(B) ==
  B[1][2] = 0 /\ B[1][3] = 0 /\ B[2][3] = 0 /\ B[1][1] > 0 /\ B[2][2] > 0 /\ B[3][3] > 0

(* ------------------------------------------------------------------ removal of PBC segmentation *)
(* remove_pbc_from_coord(C, B): the first coordinate moved into the box, every further one
   placed by the minimum-image displacement from its predecessor in array order *)
RECURSIVE UnwrapFrom(_, _, _, _)
UnwrapFrom(C, B, k, acc) ==
  IF k > Len(C) THEN acc
  ELSE UnwrapFrom(C, B, k + 1, Append(acc, VAdd(acc[k - 1], ImplDisp(VSub(C[k], C[k - 1]), B))))
RemovePbcFromCoord(C, B) == IF Len(C) = 0 THEN <<>> ELSE UnwrapFrom(C, B, 2, <<MoveInside(C[1], B)>>)

\* molecules: connected components of the bond graph on 1..n (bonds = set of 2-element sets)
RECURSIVE Reach(_, _)
Reach(S, bonds) ==
  LET T == S \cup UNION {b \in bonds : b \cap S # {}} IN IF T = S THEN S ELSE Reach(T, bonds)
Molecules(n, bonds) == {Reach({k}, bonds) : k \in 1..n}
RECURSIVE SortedOf(_)
SortedOf(S) == IF S = {} THEN <<>> ELSE LET m == SetMin(S) IN <<m>> \o SortedOf(S \ {m})
SubSeqOf(C, M) == LET idx == SortedOf(M) IN [j \in DOMAIN idx |-> C[idx[j]]]

(* remove_pbc(atoms): each molecule (atoms in index order) is unwrapped and then translated
   by the lattice vector that moves its centroid into the box.  The centroid has
   denominator m (molecule size): floor of its fractional coordinates =
   floor( (Sum . Adj) / (m * Det) ). *)
CentroidShift(U, B) ==
  LET s == VSum(U)  m == Len(U)  f == FracNum(s, B)  d == m * Det(B)
  IN VNeg(LatVec(<<FloorDiv(f[1], d), FloorDiv(f[2], d), FloorDiv(f[3], d)>>, B))
\* the centroid lies exactly on a face of the box (an integer fractional coordinate): which of
\* the two lattice-equivalent placements results is decided by float rounding - unspecified
CentroidOnFace(U, B) ==
  LET f == FracNum(VSum(U), B)  d == Len(U) * Abs(Det(B)) IN \E i \in 1..3 : f[i] % d = 0
RemovePbcMolecule(C, B) ==
  LET U == RemovePbcFromCoord(C, B)  sh == CentroidShift(U, B)
  IN [k \in DOMAIN U |-> VAdd(U[k], sh)]
RemovePbc(C, bonds, B) ==      \* (every molecule is reassembled once: the table is tabulated eagerly)
  LET mols == Molecules(Len(C), bonds)
      tab == EagerFcn([M \in mols |-> EagerSeq(RemovePbcMolecule(SubSeqOf(C, M), B))])
      MolOf(k) == CHOOSE M \in mols : k \in M
      Pos(k, M) == Cardinality({j \in M : j <= k})
  IN EagerSeq([k \in DOMAIN C |-> tab[MolOf(k)][Pos(k, MolOf(k))]])

\* "compact" molecule: every pair of its atoms is at its unique minimum-image separation:
\* the difference d is strictly shorter than each of its other images d + k.B, k in {-2..2}^3
\* (symmetric in d and -d; S1 decides that the code-shaped displacement then returns d)
NonZeroCoeffs2 == Cube(-2, 2) \ {Zero3}
IsStrictlyShortest(d, B) == \A k \in NonZeroCoeffs2 : Norm2(VAdd(d, LatVec(k, B))) > Norm2(d)
Dom_Compact(T, B) == \A i, j \in DOMAIN T : i < j => IsStrictlyShortest(VSub(T[j], T[i]), B)
=============================================================================
