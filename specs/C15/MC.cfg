SPECIFICATION Spec
CONSTANTS
  Tier = "quick"
INVARIANT InvClaims
INVARIANT InvUnwrapDomain
CHECK_DEADLOCK FALSE
