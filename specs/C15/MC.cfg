SPECIFICATION Spec
CONSTANTS
  Tier = "quick"
INVARIANT InvClaims
INVARIANT InvUnwrapDomain
INVARIANT InvShapesDomain
CHECK_DEADLOCK FALSE
