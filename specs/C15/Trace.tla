------------------------------- MODULE Trace -------------------------------
(* C15 direction B: calls recorded from biotite.structure on seeded lattice systems that are
   larger than the exhaustive families (up to 20 atoms, 1-3 models, random index arrays) are
   re-computed by TLC with the operators of GeomOps.

   TRACE_FILE: JSON array of traces; every event is self-contained:
   {op:"measure", P:[points], bo:[]|[B], pairs:[[i,j]..], triples:[[i,j,k]..], quads:[[i,j,k,m]..]
      disp:[int vectors]   observed displacement vectors, rounded (the driver checked |residual| < 1e-4)
      d2:[ints]            observed squared distances, rounded
      cosA:[[lo,hi]..]     observed cos(angle) * 10000 enclosed in integers lo <= . <= hi
      dih:[[lo,hi,sgn]..]  observed cos(dihedral) * 10000 enclosure and sign of sin(dihedral) (0 = |sin| < 1e-3)
   }  (indices are 1-based positions into P)
   {op:"rigid", P, e:[a,b,c] Euler quarter turns, t, got:[int points]}   translate(rotate(P, e*pi/2), t)
   {op:"unwrap", C:[points], bonds:[[i,j]..], B, gotU:[int points], gotR:[int points]}
      (systems wrapped atom by atom, or cut by one face / edge / corner of the box; cubic,
      anisotropic and elongated boxes)
   {op:"bcast", fn, ops:[[rank, coordinates]..], bo: [] | ["one", B] | ["per", [B1..Bm]], rank, got}
      fn(ops[1], .., box) with operands of mixed dimensionality (rank 1 (3,), 2 (n,3), 3 (m,n,3);
      ndarrays and Atom / AtomArray / AtomArrayStack objects) in random order; rank = number of
      leading axes of the result, got = the result brought to [model][atom] (one model / one atom
      for the lower ranks): int vectors (displacement), squared distances (distance), [lo,hi]
      (angle), [lo,hi,sgn] (dihedral) as above; exc = 1 when the call raised an exception
   A disagreement prints <<"MISMATCH", trace, event, what, position, expected>>. *)
EXTENDS GeomOps, SequencesExt, Json, IOUtils

Tr == JsonDeserialize(IOEnv.TRACE_FILE)
\* state variables: names that occur nowhere as bound variables (TLC caching, see C14/Trace.tla)
VARIABLES trcNo, evNo
tvars == <<trcNo, evNo>>

KK == 10000
\* lo/KK <= num/sqrt(den2) <= hi/KK, exactly, for den2 > 0 (Lattice!FracLeq avoids overflow)
\* c <= num/sqrt(den2) with c = cq/KK
LeqCos(cq, num, den2) ==
  IF cq <= 0 /\ num >= 0 THEN TRUE
  ELSE IF cq > 0 /\ num < 0 THEN FALSE
  ELSE IF cq > 0 THEN FracLeq(cq * cq, KK * KK, num * num, den2)         \* both >= 0: c^2 <= num^2/den2
  ELSE FracLeq(num * num, den2, cq * cq, KK * KK)                         \* both < 0 : num^2/den2 <= c^2
GeqCos(cq, num, den2) == LeqCos(-cq, -num, den2)
CosInside(lo, hi, ang) == LeqCos(lo, ang[1], ang[2]) /\ GeqCos(hi, ang[1], ang[2])

FirstBad(ok) == IF \A j \in DOMAIN ok : ok[j] THEN 0 ELSE CHOOSE j \in DOMAIN ok : ~ok[j] /\ \A i \in 1..(j - 1) : ok[i]
Report(t, k, what, ok, exp) ==
  LET b == FirstBad(ok) IN IF b = 0 THEN TRUE ELSE PrintT(<<"MISMATCH", t, k, what, b, exp[b]>>)

JudgeMeasure(t, k, e) ==
  LET P == e.P  bo == e.bo
      Dsp(i, j) == Displacement(P[i], P[j], bo)
      plain(i, j) == VSub(P[j], P[i])
      uniq(i, j) == bo = <<>> \/ UniqueMinImage(plain(i, j), bo[1])
      \* displacement: lattice vector away from the plain difference; shortest image in the
      \* property's range; equal to the plain difference without a box
      okDisp == [n \in DOMAIN e.pairs |->
                   LET i == e.pairs[n][1]  j == e.pairs[n][2]  o == e.disp[n] IN
                   IF bo = <<>> THEN o = plain(i, j)
                   ELSE /\ IsLatticeVec(VSub(o, plain(i, j)), bo[1])
                        /\ Dom_MinImage(plain(i, j), bo[1]) => Norm2(o) = MinImageN2(plain(i, j), bo[1], 2)]
      expDisp == [n \in DOMAIN e.pairs |-> Dsp(e.pairs[n][1], e.pairs[n][2])]
      okD2 == [n \in DOMAIN e.pairs |->
                   LET i == e.pairs[n][1]  j == e.pairs[n][2] IN
                   (bo = <<>> \/ Dom_MinImage(plain(i, j), bo[1])) => e.d2[n] = Norm2(Dsp(i, j))]
      expD2 == [n \in DOMAIN e.pairs |-> Norm2(Dsp(e.pairs[n][1], e.pairs[n][2]))]
      angOf(n) == Angle(P[e.triples[n][1]], P[e.triples[n][2]], P[e.triples[n][3]], bo)
      okAng == [n \in DOMAIN e.triples |->
                   LET i == e.triples[n][1]  j == e.triples[n][2]  m == e.triples[n][3] IN
                   (uniq(i, j) /\ uniq(m, j) /\ Dom_Angle(P[i], P[j], P[m], bo)) =>
                       CosInside(e.cosA[n][1], e.cosA[n][2], angOf(n))]
      expAng == [n \in DOMAIN e.triples |-> angOf(n)]
      dihOf(n) == Dihedral(P[e.quads[n][1]], P[e.quads[n][2]], P[e.quads[n][3]], P[e.quads[n][4]], bo)
      okDih == [n \in DOMAIN e.quads |->
                   LET q == e.quads[n]  dd == dihOf(n) IN
                   (uniq(q[1], q[2]) /\ uniq(q[2], q[3]) /\ uniq(q[3], q[4]) /\ Dom_Dihedral(P[q[1]], P[q[2]], P[q[3]], P[q[4]], bo)) =>
                      \* cos(phi) = x / (|n1||n2|) and |n1|^2 |n2|^2 = x^2 + t^2 n2
                      /\ CosInside(e.dih[n][1], e.dih[n][2], <<dd[2], dd[2] * dd[2] + dd[1] * dd[1] * dd[3]>>)
                      /\ (e.dih[n][3] # 0 => e.dih[n][3] = Sgn(dd[1]))]
      expDih == [n \in DOMAIN e.quads |-> dihOf(n)]
  IN /\ Report(t, k, "disp", okDisp, expDisp)
     /\ Report(t, k, "d2", okD2, expD2)
     /\ Report(t, k, "angle", okAng, expAng)
     /\ Report(t, k, "dihedral", okDih, expDih)

JudgeRigid(t, k, e) ==
  LET exp == Translate(Rotate(e.P, e.e), e.t)
      ok  == [n \in DOMAIN e.P |-> e.got[n] = exp[n]]
  IN IF Len(e.got) = Len(e.P) THEN Report(t, k, "rigid", ok, exp) ELSE PrintT(<<"MISMATCH", t, k, "rigid", 0, Len(e.P)>>)

JudgeUnwrap(t, k, e) ==
  LET C == e.C  B == e.B
      bonds == {{e.bonds[n][1], e.bonds[n][2]} : n \in DOMAIN e.bonds}
      U == RemovePbcFromCoord(C, B)
      R == RemovePbc(C, bonds, B)
      mols == Molecules(Len(C), bonds)
      \* U: lattice moves, first atom in the box; equal to the model where consecutive atoms
      \* have unique minimum images
      chainUnique == \A n \in 1..(Len(C) - 1) : UniqueMinImage(VSub(C[n + 1], C[n]), B)
      okU == [n \in DOMAIN C |->
                /\ IsLatticeVec(VSub(e.gotU[n], C[n]), B)
                /\ (n = 1 => InsideBox(e.gotU[1], B))
                /\ (chainUnique => e.gotU[n] = U[n])]
      molUnique(M) == LET S == SubSeqOf(C, M) IN \A n \in 1..(Len(S) - 1) : UniqueMinImage(VSub(S[n + 1], S[n]), B)
      \* R: lattice moves; for a molecule whose consecutive atoms have unique minimum images the
      \* internal geometry is the model's, and so is the placement unless the centroid lies
      \* exactly on a box face (then either lattice-equivalent placement is accepted)
      molOf(n) == CHOOSE M \in mols : n \in M
      first(M) == SetMin(M)
      onFace(M) == CentroidOnFace(RemovePbcFromCoord(SubSeqOf(C, M), B), B)
      okR == [n \in DOMAIN C |->
                /\ IsLatticeVec(VSub(e.gotR[n], C[n]), B)
                /\ molUnique(molOf(n)) =>
                      /\ VSub(e.gotR[n], e.gotR[first(molOf(n))]) = VSub(R[n], R[first(molOf(n))])
                      /\ (~onFace(molOf(n)) => e.gotR[n] = R[n])]
      \* the property's own clause, whatever the rest of the molecule looks like: two bonded atoms
      \* that follow each other in the array order of their molecule end at their minimum-image
      \* separation (where that image is unique and inside the property's range Dom_MinImage)
      lo(n) == MinI(e.bonds[n][1], e.bonds[n][2])
      hi(n) == MaxI(e.bonds[n][1], e.bonds[n][2])
      adjacent(i, j) == i < j /\ j \in molOf(i) /\ \A x \in molOf(i) : ~(i < x /\ x < j)
      okB == [n \in DOMAIN e.bonds |->
                LET d == VSub(C[hi(n)], C[lo(n)]) IN
                (adjacent(lo(n), hi(n)) /\ Dom_MinImage(d, B) /\ UniqueMinImage(d, B)) =>
                    VSub(e.gotR[hi(n)], e.gotR[lo(n)]) \in MinImages(d, B, 2)]
      expB == [n \in DOMAIN e.bonds |-> ImplDisp(VSub(C[hi(n)], C[lo(n)]), B)]
  IN Report(t, k, "unwrapU", okU, U) /\ Report(t, k, "unwrapR", okR, R) /\ Report(t, k, "unwrapBond", okB, expB)

(* operands of mixed dimensionality: the result has the rank and the extent of the broadcast
   operands; every entry whose value is specified and defined equals GeomOps!Broadcast; a
   periodic displacement is a lattice vector away from the plain difference in any case *)
JudgeBcast(t, k, e) ==
  LET ops == e.ops  ba == e.bo  fn == e.fn
      M == ModelCount(ops)  N == AtomCount(ops)
      res == Broadcast(fn, ops, ba)
      Mi(x) == ((x - 1) \div N) + 1
      Ai(x) == ((x - 1) % N) + 1
      shapeOK == /\ e.rank = ResultRank(ops) /\ Len(e.got) = M
                 /\ \A mi \in 1..M : Len(e.got[mi]) = N
      Match(g, v) ==
        CASE fn = "displacement" -> g = v
          [] fn = "distance" -> g = v
          [] fn = "angle" -> CosInside(g[1], g[2], v)
          [] fn = "dihedral" -> /\ CosInside(g[1], g[2], <<v[2], v[2] * v[2] + v[1] * v[1] * v[3]>>)
                                /\ (g[3] # 0 => g[3] = Sgn(v[1]))
      ok == [x \in 1..(M * N) |->
               LET ent == res[Mi(x)][Ai(x)]  g == e.got[Mi(x)][Ai(x)]  bo == BoxAt(ba, Mi(x)) IN
               /\ (ent[2] /\ ent[3]) => Match(g, ent[1])
               /\ (fn = "displacement" /\ bo # <<>>) =>
                     IsLatticeVec(VSub(g, VSub(OperandAt(ops[2], Mi(x), Ai(x)), OperandAt(ops[1], Mi(x), Ai(x)))), bo[1])]
      exp == [x \in 1..(M * N) |-> res[Mi(x)][Ai(x)]]
  IN IF ~(Dom_Operands(ops) /\ Dom_BoxArg(ba, ops)) THEN PrintT(<<"MISMATCH", t, k, "operands outside the domain", 0, 0>>)
     ELSE IF e.exc = 1 THEN PrintT(<<"MISMATCH", t, k, "exception", 0, ResultRank(ops)>>)
     ELSE IF ~shapeOK THEN PrintT(<<"MISMATCH", t, k, "bcast-shape", 0, <<ResultRank(ops), M, N>>>>)
     ELSE Report(t, k, "bcast", ok, exp)

\* the recorder must stay inside Dom_DyadicBox (a box outside is a defect of the generator)
BoxesOf(e) == IF e.op = "measure" THEN {e.bo[n] : n \in DOMAIN e.bo} ELSE IF e.op = "unwrap" THEN {e.B} ELSE {}   \* (bcast: Dom_BoxArg)
Judge(t, k) ==
  LET e == Tr[t][k] IN
  CASE \E B \in BoxesOf(e) : ~Dom_DyadicBox(B) -> PrintT(<<"MISMATCH", t, k, "box outside Dom_DyadicBox", 0, 0>>)
    [] e.op = "measure" -> JudgeMeasure(t, k, e)
    [] e.op = "rigid"   -> JudgeRigid(t, k, e)
    [] e.op = "unwrap"  -> JudgeUnwrap(t, k, e)
    [] e.op = "bcast"   -> JudgeBcast(t, k, e)
    [] OTHER -> PrintT(<<"MISMATCH", t, k, "unknown op", 0, 0>>)

Init == trcNo \in 1..Len(Tr) /\ evNo = 0
Next == /\ evNo < Len(Tr[trcNo])
        /\ evNo' = evNo + 1
        /\ UNCHANGED trcNo
        /\ Judge(trcNo, evNo + 1)
Spec == Init /\ [][Next]_tvars

ASSUME LeqCos(5000, 1, 4) /\ GeqCos(5000, 1, 4) /\ ~LeqCos(5001, 1, 4) /\ LeqCos(-5000, -1, 4) /\ ~GeqCos(-5001, -1, 4)
ASSUME CosInside(-1, 1, <<0, 5>>) /\ CosInside(9999, 10001, <<3, 9>>) /\ CosInside(-10001, -9999, <<-3, 9>>) /\ ~CosInside(7000, 7070, <<1, 2>>)
=============================================================================
