------------------------------- MODULE Geometry -------------------------------
(* C15, exhaustive model.  A case is <<kind, payload>>; every case of the bounded families
   is evaluated once with the operators of GeomOps.  The state holds the expected values of
   the public calls (S2 replays them against biotite) and the truth of the design claims
   (S1 invariants):

   "geom"   <<o, v1, v2, v3, bo, shifts, gi>>
            four atoms p1 = o, p2 = p1+v1, p3 = p2+v2, p4 = p3+v3; with a box the atoms are
            given to the code wrapped by the lattice coefficients shifts[i]; gi selects one
            of the 48 cube-group elements GroupSeq[gi] and a translation for the replay.
            claims: code-shaped values = textbook values; invariant under ALL 24 rotations
            and all translations of the family; mirrored by the 24 rotoreflections (the
            dihedral changes sign); wrapping by lattice vectors changes nothing.
   "vecbox" <<d, B>>   displacement d under box B, move_inside_box, fractions.
            claims: the periodic displacement differs from d by a lattice vector; it is a
            shortest image for orthogonal boxes and under Dom_HalfHeight; fractions of the
            moved point lie in [0,1); fraction/coordinate conversion are inverse.
   "cell"   <<a, b, c, ca, cb, cg>> unit cell with cosines ca/2, cb/2, cg/2.
   "boxcell" <<B>>     unit cell of an integer box.
   "unwrap" <<T, bonds, shifts, B>> molecule(s) with true coordinates T (each bonded
            component compact), given to the code with atom k shifted by shifts[k].B.
            claims: remove_pbc(_from_coord) moves every atom by a lattice vector, restores
            all intra-molecular displacements, puts the first atom / the centroid into the
            box, leaves bonded atoms at minimum-image distance.
            Two shift families: every atom independently shifted by one of a few lattice
            vectors (UnwrapCases), and a molecule CUT BY ONE FACE (edge, corner) of the box:
            the atoms of a subset lie beyond the face f, the others do not (CutCases) - for
            every face +-a, +-b, +-c of elongated boxes whose long axis is a, b or c.
   "xform"  <<P, kind, arg>> translate / rotate / rotate_centered / rotate_about_axis /
            align_vectors on a point set.
   "shapes" <<fn, forms, wi, ba>> fn = displacement / distance / angle / dihedral called with
            operands of EVERY combination of dimensionality and kind: forms[j] = <<rank, kind>>
            is the form of the j-th argument - rank 1 (3,), 2 (n,3), 3 (m,n,3); kind "nd"
            (ndarray) or "obj" (Atom / AtomArray / AtomArrayStack) - taken from the operand
            world ShapeWorlds[wi] (m models x n atoms per argument position); ba the box
            argument (none / one box / per-model boxes).  With a box every position is given
            to the code wrapped by a lattice vector.  fn = centroid: one operand of rank 2 / 3.
            claims: code-shaped (subtraction order chosen by dimensionality) = textbook for
            every entry of the broadcast result; wrapping changes nothing; reversing the
            argument order negates the displacement and keeps distance, angle, dihedral.
   "index"  <<fn, form, wi, bm, ba, perm>> index_fn(atoms, rows, periodic, box) on the world
            flattened to one coordinate array (rank 2 / 3, ndarray / AtomArray / stack), the
            argument positions drawn from the world's operands in the order perm; bm: how the
            box reaches the code ("param", "own" = box attribute of atoms, "over" = explicit
            box given although atoms has another one of its own).
            claims: index-based = coordinate-based on the gathered operands. *)
EXTENDS GeomOps

CONSTANT Tier

(* ------------------------------------------------------------------ the cube group as a sequence *)
PermSeq == <<<<1, 2, 3>>, <<1, 3, 2>>, <<2, 1, 3>>, <<2, 3, 1>>, <<3, 1, 2>>, <<3, 2, 1>>>>
SignSeq == <<<<1, 1, 1>>, <<1, 1, -1>>, <<1, -1, 1>>, <<1, -1, -1>>, <<-1, 1, 1>>, <<-1, 1, -1>>, <<-1, -1, 1>>, <<-1, -1, -1>>>>
GroupSeq == EagerSeq([i \in 1..48 |-> SignedPerm(PermSeq[((i - 1) \div 8) + 1], SignSeq[((i - 1) % 8) + 1])])
ASSUME {GroupSeq[i] : i \in 1..48} = SignedPerms
TransSeq == <<<<0, 0, 0>>, <<1, -2, 3>>, <<-4, 0, 1>>, <<2, 2, -5>>>>
RotBox(g, B) == <<MatVec(g, B[1]), MatVec(g, B[2]), MatVec(g, B[3])>>
RotBoxOpt(g, bo) == IF bo = <<>> THEN <<>> ELSE <<RotBox(g, bo[1])>>

(* ------------------------------------------------------------------ bounded families *)
\* (before the evaluation: EvalUnwrap reads the table CompactTab of the unwrap family)
Ortho444 == Diag(4, 4, 4)
Ortho248 == Diag(2, 4, 8)
Tric1    == <<<<4, 0, 0>>, <<2, 4, 0>>, <<0, 0, 4>>>>
Tric2    == <<<<4, 0, 0>>, <<0, 4, 0>>, <<2, -2, 4>>>>
RotOrtho == <<<<2, 2, 0>>, <<-2, 2, 0>>, <<0, 0, 4>>>>
Ortho844 == Diag(8, 4, 4)
Tric3    == <<<<8, 0, 0>>, <<-2, 4, 0>>, <<2, 2, 4>>>>
LeftHand == <<<<0, 4, 0>>, <<4, 0, 0>>, <<0, 0, 4>>>>
Skewed   == <<<<4, 0, 0>>, <<6, 4, 0>>, <<0, 2, 4>>>>          \* heavily skewed: outside Dom_HalfHeight often
\* the three tilts a.b, a.c, b.c: every zero / non-zero combination occurs among the triclinic
\* boxes (Tric1: a.b only, Tric2: a.c and b.c, Tric3: all three, Skewed: a.b and b.c)
TricAC   == <<<<4, 0, 0>>, <<0, 4, 0>>, <<2, 0, 4>>>>          \* a.c only
TricBC   == <<<<4, 0, 0>>, <<0, 4, 0>>, <<0, 2, 4>>>>          \* b.c only
TricABAC == <<<<4, 0, 0>>, <<2, 4, 0>>, <<2, -1, 4>>>>         \* a.b and a.c, b.c = 0
Boxes    == <<Ortho444, Ortho248, Tric1, Tric2, RotOrtho, Ortho844, Tric3, LeftHand, TricAC, TricBC, TricABAC, Skewed>>
Tilts(B) == <<Dot(B[1], B[2]) # 0, Dot(B[1], B[3]) # 0, Dot(B[2], B[3]) # 0>>
ASSUME {Tilts(Boxes[i]) : i \in DOMAIN Boxes} = BOOLEAN \X BOOLEAN \X BOOLEAN

V26 == Cube(-1, 1) \ {Zero3}
V2Quick == {<<1, 0, 0>>, <<0, 1, 1>>, <<1, -1, 1>>, <<0, 0, -1>>, <<-1, 1, 0>>, <<1, 1, 0>>}
Code(v) == (v[1] + 1) * 9 + (v[2] + 1) * 3 + (v[3] + 1)
Mix(v1, v2, v3) == Code(v1) + 5 * Code(v2) + 11 * Code(v3)
ShiftSeq == <<<<0, 0, 0>>, <<1, 0, -1>>, <<-2, 1, 0>>, <<0, -1, 2>>, <<1, 1, 1>>>>
GeomCase(o, v1, v2, v3) ==
  LET h == Mix(v1, v2, v3)
      bi == h % (Len(Boxes) + 2)         \* indices beyond the list: no box
      bo == IF bi >= 1 /\ bi <= Len(Boxes) - 1 THEN <<Boxes[bi]>> ELSE <<>>   \* (Skewed is not used here)
      sh == <<ShiftSeq[(h % 5) + 1], ShiftSeq[((h \div 5) % 5) + 1], ShiftSeq[((h \div 25) % 5) + 1], ShiftSeq[((h \div 3) % 5) + 1]>>
  IN <<"geom", <<o, v1, v2, v3, bo, sh, (h % 48) + 1>>>>
GeomCaseNoBox(o, v1, v2, v3) == <<"geom", <<o, v1, v2, v3, <<>>, <<Zero3, Zero3, Zero3, Zero3>>, (Abs(Mix(v1, v2, v3)) % 48) + 1>>>>
GeomCases(V1, V2, V3) == {GeomCase(IF Mix(v1, v2, v3) % 2 = 0 THEN <<0, 0, 0>> ELSE <<1, -2, 3>>, v1, v2, v3) : v1 \in V1, v2 \in V2, v3 \in V3}

\* straight and folded-back collinear triples in directions whose float32 normalisation
\* overshoots 1 (angle pi / angle 0)
LineDirs == {<<1, 0, 4>>, <<-4, -4, -2>>, <<1, 2, 3>>, <<3, 4, 0>>, <<2, -3, 1>>, <<4, 1, -4>>}
CollinearCases == {GeomCaseNoBox(<<0, 0, 0>>, v, VScale(s, v), <<0, 1, 0>>) : v \in LineDirs, s \in {1, 2, -1}}
VecBoxCases(R, BX) == {<<"vecbox", <<d, B>>>> : d \in Cube(-R, R), B \in BX}
BoxSet == {Boxes[i] : i \in DOMAIN Boxes}
\* long boxes probed along one direction: fractions close to 1/2 on both sides (9/16, 17/32, ...)
LongBoxes == {Diag(16, 4, 8), Diag(4, 32, 4), <<<<16, 0, 0>>, <<8, 16, 0>>, <<0, 0, 4>>>>}
LineCases == {<<"vecbox", <<<<a * u[1] + w[1], a * u[2] + w[2], a * u[3] + w[3]>>, B>>>> :
                 a \in -19..19, u \in {<<1, 0, 0>>, <<0, 1, 0>>, <<1, 1, 0>>}, w \in {<<0, 0, 0>>, <<0, 1, -2>>}, B \in LongBoxes}

Half == {-1, 0, 1}
CellCases(L) == {cc \in {<<"cell", <<a, b, c, ca, cb, cg>>>> : a \in L, b \in L, c \in L, ca \in Half, cb \in Half, cg \in Half} :
                   Dom_Cell(cc[2][1], cc[2][2], cc[2][3], cc[2][4], cc[2][5], cc[2][6])}
BoxCellCases == {<<"boxcell", <<B>>>> : B \in BoxSet}

\* molecules: true coordinates (offsets from a start atom), bonds, per-atom lattice shifts
Mol1 == <<<<1, 1, 1>>, <<2, 1, 1>>, <<2, 2, 1>>, <<1, 2, 2>>>>                 \* chain of 4
Mol2 == <<<<0, 0, 0>>, <<1, 0, 0>>, <<3, 3, 3>>, <<3, 3, 2>>>>                 \* two diatomics far apart
Mol3 == <<<<3, 0, 1>>, <<3, 1, 1>>, <<2, 0, 1>>>>                              \* star, centre first
Mol4 == <<<<0, 3, 3>>>>                                                        \* single atom
Mol5 == <<<<1, 1, 0>>, <<0, 3, 3>>, <<1, 2, 0>>, <<0, 3, 2>>>>                 \* interleaved molecules
MolList == << <<Mol1, {{1, 2}, {2, 3}, {3, 4}}>>, <<Mol1, {{1, 2}, {3, 4}}>>, <<Mol2, {{1, 2}, {3, 4}}>>,
              <<Mol3, {{1, 2}, {1, 3}}>>, <<Mol4, {}>>, <<Mol5, {{1, 3}, {2, 4}}>>, <<Mol2, {}>> >>
ShiftChoices == {<<0, 0, 0>>, <<1, 0, 0>>, <<0, -1, 1>>, <<-1, 2, 0>>}
UnwrapCases(ML, BX, SC) ==
  {<<"unwrap", <<ML[i][1], ML[i][2], sh, B>>>> :
      i \in DOMAIN ML, B \in BX,
      sh \in UNION {[1..n -> SC] : n \in {Len(ML[j][1]) : j \in DOMAIN ML}}}
UnwrapOK(c) == Len(c[2][3]) = Len(c[2][1])

(* a molecule cut by one face of the box.  Elongated boxes: the shortest edge is a half / a
   quarter (an eighth) of the longest one, the long axis is a, b or c; orthorhombic and triclinic (the
   long vector tilted, or the short ones).  Crossed face: the lattice coefficients f of the
   atoms beyond it - the six faces, and edges / corners in the thorough tier. *)
Ortho484 == Diag(4, 8, 4)
Ortho448 == Diag(4, 4, 8)
OrthoL44 == Diag(16, 4, 4)
Ortho4L4 == Diag(4, 16, 4)
Ortho44L == Diag(4, 4, 16)
TricLongA == <<<<16, 0, 0>>, <<-2, 4, 0>>, <<2, 2, 4>>>>       \* Tric3 with a doubled: short vectors tilted
TricLongC == <<<<4, 0, 0>>, <<2, 4, 0>>, <<-2, 2, 16>>>>       \* the long vector tilted as well
TricLongB == <<<<4, 0, 0>>, <<2, 16, 2>>, <<0, 0, 4>>>>
ElongatedQuick == {Ortho448, OrthoL44, Ortho4L4, Ortho44L, TricLongA, TricLongC}
ElongatedAll   == ElongatedQuick \cup {Ortho484, TricLongB, Diag(4, 32, 4)}
ASSUME \A B \in ElongatedAll :      \* elongated: 2 * shortest edge <= longest edge
   LET n == {Norm2(B[i]) : i \in 1..3} IN 4 * SetMin(n) <= SetMax(n)
ASSUME \A i \in 1..3 : \E B \in ElongatedQuick :      \* each axis is the (only) long one
   \A j \in 1..3 : j # i => 4 * Norm2(B[j]) <= Norm2(B[i])
\* every box of every family is inside Dom_DyadicBox (exact fractions in floating point)
ASSUME \A B \in BoxSet \cup LongBoxes \cup ElongatedAll \cup {Diag(8, 8, 8)} : Dom_DyadicBox(B)
FaceDirs == {<<1, 0, 0>>, <<-1, 0, 0>>, <<0, 1, 0>>, <<0, -1, 0>>, <<0, 0, 1>>, <<0, 0, -1>>}
EdgeDirs == {<<1, 1, 0>>, <<0, -1, 1>>, <<-1, 0, -1>>, <<1, -1, 1>>}
CutCases(ML, BX, DS) ==
  {<<"unwrap", <<ML[i][1], ML[i][2], [k \in 1..Len(ML[i][1]) |-> IF k \in S THEN f ELSE Zero3], B>>>> :
      i \in DOMAIN ML, B \in BX, f \in DS, S \in SUBSET (1..4)}
ASSUME \A i \in DOMAIN MolList : Len(MolList[i][1]) <= 4

\* Dom_Compact of the whole chain and of every molecule depends on (molecule, box) only:
\* tabulated once for the boxes of the tier
MolSet == {MolList[i] : i \in DOMAIN MolList}
UnwrapBoxes == CASE Tier = "tiny" -> {Ortho844, OrthoL44}
                 [] Tier = "quick" -> {Ortho844, Tric3} \cup ElongatedQuick
                 [] Tier = "thorough" -> {Ortho844, Tric3, Diag(8, 8, 8)} \cup ElongatedAll
CompactTab ==
  EagerFcn([mb \in MolSet \X UnwrapBoxes |->
     LET T == mb[1][1]  B == mb[2] IN
     <<Dom_Compact(T, B), EagerFcn([M \in Molecules(Len(T), mb[1][2]) |-> Dom_Compact(SubSeqOf(T, M), B)])>>])

Pts3 == <<<<0, 0, 0>>, <<1, 2, 0>>, <<-1, 0, 3>>>>
Pts4 == <<<<1, 1, 1>>, <<2, -1, 0>>, <<0, 0, 5>>, <<-3, 2, 2>>>>
Pts1 == <<<<2, -3, 1>>>>
AxisDirs == {<<2, 0, 0>>, <<0, -1, 0>>, <<0, 0, 3>>, <<-1, 0, 0>>, <<0, 4, 0>>}
XformCases(PS) ==
       {<<"xform", <<P, "translate", t>>>> : P \in PS, t \in {<<0, 0, 0>>, <<1, -2, 3>>, <<-7, 5, 0>>}}
  \cup {<<"xform", <<P, "rotate", e>>>> : P \in PS, e \in EulerTriples}
  \cup {<<"xform", <<P, "centered", e>>>> : P \in PS, e \in {<<1, 0, 0>>, <<0, 1, 0>>, <<0, 0, 1>>, <<1, 2, 3>>, <<3, 0, 2>>, <<2, 2, 1>>}}
  \cup {<<"xform", <<P, "axis", <<t, s>>>>>> : P \in PS, t \in AxisTurns, s \in {<<0, 0, 0>>, <<1, -1, 2>>}}
  \cup {<<"xform", <<P, "align", <<u, v, op, tp>>>>>> : P \in PS, u \in AxisDirs, v \in AxisDirs, op \in {<<0, 0, 0>>, <<1, 1, -2>>}, tp \in {<<0, 0, 0>>, <<3, 0, 1>>}}

(* ------------------------------------------------------------------ operand shapes *)
(* operand worlds: T[j][mi][ai] = the true position of atom ai in model mi of the operand
   that is given at argument position j.  Chosen such that (ASSUME below, decided by TLC)
   for every combination of ranks every value is defined, no angle is a right angle (a
   negated displacement would not show), and the entries of a result are pairwise different
   (a wrongly broadcast operand shows).  Two worlds with different (m, n). *)
WorldA == <<<<<<<<2, 0, 1>>, <<3, 0, 1>>, <<2, 2, 0>>>>, <<<<0, 3, 0>>, <<0, 3, 2>>, <<3, 3, 0>>>>>>,
            <<<<<<1, 0, 3>>, <<1, 3, 1>>, <<1, 1, 3>>>>, <<<<0, 0, 1>>, <<2, 0, 0>>, <<1, 2, 3>>>>>>,
            <<<<<<3, 2, 1>>, <<1, 2, 2>>, <<0, 2, 0>>>>, <<<<3, 0, 0>>, <<3, 0, 2>>, <<0, 1, 0>>>>>>,
            <<<<<<2, 3, 3>>, <<0, 3, 0>>, <<1, 2, 2>>>>, <<<<3, 3, 1>>, <<1, 3, 0>>, <<0, 0, 3>>>>>>>>   \* m = 2, n = 3
WorldB == <<<<<<<<0, 0, 0>>, <<2, 1, 2>>>>, <<<<2, 2, 3>>, <<0, 3, 2>>>>, <<<<0, 0, 3>>, <<2, 2, 0>>>>>>,
            <<<<<<3, 0, 1>>, <<3, 1, 1>>>>, <<<<0, 0, 1>>, <<1, 2, 1>>>>, <<<<2, 2, 0>>, <<1, 2, 0>>>>>>,
            <<<<<<2, 3, 3>>, <<0, 2, 3>>>>, <<<<2, 0, 0>>, <<2, 0, 1>>>>, <<<<1, 1, 3>>, <<0, 3, 0>>>>>>,
            <<<<<<3, 1, 3>>, <<1, 2, 2>>>>, <<<<0, 3, 0>>, <<0, 0, 0>>>>, <<<<1, 2, 1>>, <<3, 0, 2>>>>>>>>   \* m = 3, n = 2
ShapeWorlds == <<WorldA, WorldB>>
WorldM(T) == Len(T[1])
WorldN(T) == Len(T[1][1])

\* boxes of the family: large enough that the true displacements (components within -3..3) are
\* their own unique minimum images, shorter than half the smallest box height, in SB_O, SB_T, SB_C
SB_O == Diag(8, 8, 16)
SB_T == MatScale(4, Tric1)
SB_C == MatScale(8, Tric1)            \* its lattice is contained in those of SB_O and SB_T
ShapeBoxesQuick == {SB_O, SB_T}
ShapeBoxesAll == ShapeBoxesQuick \cup {MatScale(4, Tric2), MatScale(2, RotOrtho), MatScale(2, LeftHand), MatScale(4, TricABAC), Diag(16, 4, 8)}
\* per-model boxes: an orthorhombic and a triclinic model (and a third one); positions are wrapped
\* by lattice vectors of the LAST box, which are lattice vectors of every model's box
PerBoxes(m) == IF m = 2 THEN <<SB_O, SB_C>> ELSE <<SB_T, SB_O, SB_C>>
ASSUME \A m \in {2, 3} : \A i \in 1..m : \A r \in 1..3 : IsLatticeVec(PerBoxes(m)[m][r], PerBoxes(m)[i])
ASSUME \A B \in ShapeBoxesAll \cup {SB_C} : Dom_DyadicBox(B)

Kinds == {"nd", "obj"}
AllForms(ar) == [1..ar -> (1..3) \X Kinds]
KindPatterns4 == {<<"nd", "nd", "nd", "nd">>, <<"obj", "obj", "obj", "obj">>, <<"nd", "obj", "nd", "obj">>,
                  <<"obj", "nd", "obj", "nd">>, <<"nd", "nd", "obj", "obj">>, <<"obj", "obj", "nd", "nd">>}
\* every combination of ranks; for four operands the kinds follow six patterns in the quick tier
FormsOf(fn, full) ==
  IF FnArity(fn) < 4 \/ full THEN AllForms(FnArity(fn))
  ELSE {[j \in 1..4 |-> <<r[j], k[j]>>] : r \in [1..4 -> 1..3], k \in KindPatterns4}
RanksOf(f) == [j \in DOMAIN f |-> f[j][1]]
MaxRank(f) == SetMax({f[j][1] : j \in DOMAIN f})
BoxArgs(R, m, BX) == {<<>>} \cup {<<"one", B>> : B \in BX} \cup (IF R = 3 THEN {<<"per", PerBoxes(m)>>} ELSE {})
ShapeCases(WIs, BX, full) ==
  UNION {{<<"shapes", <<fn, f, wi, ba>>>> : f \in FormsOf(fn, full), wi \in WIs, ba \in BoxArgs(3, 3, BX) \cup BoxArgs(3, 2, BX)} : fn \in FnNames}
BoxArgOK(ba, R, m) == ba = <<>> \/ ba[1] = "one" \/ (ba[1] = "per" /\ R = 3 /\ ba[2] = PerBoxes(m))
ShapeOK(c) == BoxArgOK(c[2][4], MaxRank(c[2][2]), WorldM(ShapeWorlds[c[2][3]]))
CentroidCases(WIs) == {<<"shapes", <<"centroid", <<<<r, k>>>>, wi, <<>>>>>> : r \in {2, 3}, k \in Kinds, wi \in WIs}

\* index_*: which operands of the world stand at the argument positions, in which order
RECURSIVE InjSeqs(_, _)
InjSeqs(k, S) == IF k = 0 THEN {<<>>} ELSE UNION {{<<x>> \o q : q \in InjSeqs(k - 1, S \ {x})} : x \in S}
BoxModes == {"none", "param", "own", "over"}
IndexCases(WIs, BX, full) ==
  UNION {{<<"index", <<fn, <<r, k>>, wi, bm, ba, perm>>>> :
             r \in {2, 3}, k \in Kinds, wi \in WIs, bm \in BoxModes, ba \in BoxArgs(3, 3, BX) \cup BoxArgs(3, 2, BX),
             perm \in InjSeqs(FnArity(fn), IF full THEN 1..4 ELSE 1..FnArity(fn))} : fn \in FnNames}
IndexOK(c) ==
  LET r == c[2][2][1]  k == c[2][2][2]  bm == c[2][4]  ba == c[2][5] IN
  /\ BoxArgOK(ba, r, WorldM(ShapeWorlds[c[2][3]]))
  /\ (bm = "none") = (ba = <<>>)
  /\ bm \in {"own", "over"} => k = "obj"

(* The case set of a tier is the union of its families.  The union is never built: TLC would
   evaluate a zero-arity definition of it once per worker, single-threaded, merging the
   families with a linear search per element (measured: 60 s for 15,000 cases).  Init is a
   disjunction over the families instead; a case that two families have in common is one
   initial state. *)
InTiny(c) ==
  \/ c \in GeomCases({<<1, 0, 0>>, <<0, 1, -1>>}, {<<0, 1, 0>>}, {<<0, 0, 1>>, <<1, 1, 1>>})
  \/ c \in VecBoxCases(1, {Ortho444, Tric1})
  \/ c \in CellCases({2}) \/ c \in BoxCellCases
  \/ c \in {u \in UnwrapCases(<<MolList[3]>>, {Ortho844}, {<<0, 0, 0>>, <<1, 0, 0>>}) : UnwrapOK(u)}
  \/ c \in CutCases(<<MolList[1], MolList[6]>>, {OrthoL44}, {<<0, 1, 0>>, <<-1, 0, 0>>})
  \/ c \in XformCases({Pts3})
  \/ c \in {u \in ShapeCases({1}, {SB_T}, FALSE) : ShapeOK(u) /\ u[2][1] \in {"displacement", "angle"}} \/ c \in CentroidCases({1})
  \/ c \in {u \in IndexCases({2}, {SB_O}, FALSE) : IndexOK(u) /\ u[2][1] \in {"distance", "angle"}}
InQuick(c) ==
  \/ c \in GeomCases(V26, V2Quick, V26) \/ c \in CollinearCases
  \/ c \in VecBoxCases(3, BoxSet) \/ c \in LineCases
  \/ c \in CellCases({1, 2, 3}) \/ c \in BoxCellCases
  \/ c \in {u \in UnwrapCases(MolList, {Ortho844, Tric3}, {<<0, 0, 0>>, <<1, 0, 0>>, <<0, -1, 1>>}) : UnwrapOK(u)}
  \/ c \in CutCases(MolList, {Ortho844, Tric3} \cup ElongatedQuick, FaceDirs)
  \/ c \in XformCases({Pts3, Pts4, Pts1})
  \/ c \in {u \in ShapeCases({1, 2}, ShapeBoxesQuick, FALSE) : ShapeOK(u)} \/ c \in CentroidCases({1, 2})
  \/ c \in {u \in IndexCases({1, 2}, ShapeBoxesQuick, FALSE) : IndexOK(u)}
InThorough(c) ==
  \/ c \in GeomCases(V26, V26, V26) \/ c \in CollinearCases
  \/ c \in VecBoxCases(5, BoxSet) \/ c \in LineCases
  \/ c \in CellCases({1, 2, 3, 5}) \/ c \in BoxCellCases
  \/ c \in {u \in UnwrapCases(MolList, {Ortho844, Tric3, Diag(8, 8, 8)}, ShiftChoices) : UnwrapOK(u)}
  \/ c \in CutCases(MolList, {Ortho844, Tric3, Diag(8, 8, 8)} \cup ElongatedAll, FaceDirs \cup EdgeDirs)
  \/ c \in XformCases({Pts3, Pts4, Pts1})
  \/ c \in {u \in ShapeCases({1, 2}, ShapeBoxesAll, TRUE) : ShapeOK(u)} \/ c \in CentroidCases({1, 2})
  \/ c \in {u \in IndexCases({1, 2}, ShapeBoxesAll, TRUE) : IndexOK(u)}

(* ------------------------------------------------------------------ evaluation *)
GeomPoints(o, v1, v2, v3) == <<o, VAdd(o, v1), VAdd(VAdd(o, v1), v2), VAdd(VAdd(VAdd(o, v1), v2), v3)>>
Wrapped(P, bo, sh) == IF bo = <<>> THEN P ELSE [k \in DOMAIN P |-> VAdd(P[k], LatVec(sh[k], bo[1]))]
Measure(Q, bo) ==      \* = <<Displacement, Distance2, Angle, Dihedral, <<Dom_Angle, Dom_Dihedral>>>> of GeomOps,
  LET bc == CtxOf(bo)  \*   with the four displacements evaluated once
      b1 == DisplacementP(Q[1], Q[2], bc)
      b2 == DisplacementP(Q[2], Q[3], bc)
      b3 == DisplacementP(Q[3], Q[4], bc)
      r2 == DisplacementP(Q[3], Q[2], bc)
  IN << b1, Norm2(b1), AngleOf(b1, r2), DihedralOf(b1, b2, b3),
        <<b1 # Zero3 /\ r2 # Zero3, Cross(b1, b2) # Zero3 /\ Cross(b2, b3) # Zero3>> >>
MeasureSlow(Q, bo) ==
  << Displacement(Q[1], Q[2], bo), Distance2(Q[1], Q[2], bo),
     Angle(Q[1], Q[2], Q[3], bo), Dihedral(Q[1], Q[2], Q[3], Q[4], bo),
     <<Dom_Angle(Q[1], Q[2], Q[3], bo), Dom_Dihedral(Q[1], Q[2], Q[3], Q[4], bo)>> >>
MirrorOf(m, s) ==    \* expected measurement after a rigid motion of determinant s
  <<m[2], m[3], <<s * m[4][1], m[4][2], m[4][3]>>, m[5]>>

EvalGeom(c) ==
  LET o == c[1]  v1 == c[2]  v2 == c[3]  v3 == c[4]  bo == c[5]  sh == c[6]  gi == c[7]
      P  == GeomPoints(o, v1, v2, v3)
      Q  == Wrapped(P, bo, sh)
      m  == Measure(Q, bo)
      free == Measure(P, <<>>)
      g  == GroupSeq[gi]
      t  == TransSeq[(gi % Len(TransSeq)) + 1]
      gQ == RigidSeq(g, t, Q)
      gb == RotBoxOpt(g, bo)
      \* the bond vectors are their own unique minimum images (else the periodic measurement
      \* depends on how ties between equally short images are broken: nothing is claimed)
      uniq == bo = <<>> \/ \A v \in {v1, v2, v3} : MinImages(v, bo[1], 2) = {v}
  IN << <<Q, m, gQ, gb, MirrorOf(m, Det(g)), EulerOf(IF Det(g) = 1 THEN g ELSE MatScale(-1, g)), t, Det(g), uniq>>,
        << \* code-shaped = textbook (and the fast evaluation = the per-function operators)
           /\ m = MeasureSlow(Q, bo)
           /\ free[1] = v1 /\ free[2] = Norm2(v1)
           /\ free[3] = AngleTextbook(P[1], P[2], P[3])
           /\ ImplDihedralY(v1, v2, v3) = free[4][3] * free[4][1]
           /\ free[4] = DihedralOf(v1, v2, v3),
           \* wrapping by lattice vectors changes nothing when the minimum images are unique;
           \* the distance is the minimum-image distance in any case
           /\ uniq => m = free
           /\ bo # <<>> => m[2] = MinImageN2(v1, bo[1], 2),
           \* invariance under every rotation / rotoreflection and every translation
           \* (every group element with one of the translations, every translation with two
           \* group elements)
           \A i \in 1..48 :
              LET h == GroupSeq[i]
                  mm == Measure(RigidSeq(h, TransSeq[(i % Len(TransSeq)) + 1], Q), RotBoxOpt(h, bo))
              IN MirrorOf(mm, 1) = MirrorOf(m, Det(h)) /\ mm[1] = MatVec(h, m[1]) >> >>

EvalVecBox(c) ==
  LET d == c[1]  B == c[2]
      impl == ImplDisp(d, B)
      mins == MinImages(d, B, 2)
      ortho == IsOrthogonalBox(B)
      hh == Dom_HalfHeight(MinImageN2(d, B, 2), B)
      w == MoveInside(d, B)
  IN << <<impl, mins, ortho \/ hh, w, CoordToFraction(d, B), Adj(B)>>,
        << IsLatticeVec(VSub(impl, d), B),
           (ortho \/ hh) => impl \in mins,
           (~ortho /\ hh) => mins = {impl},
           MinImageN2(d, B, 3) = MinImageN2(d, B, 2),
           \* the cheap "specified" test of the operand-shape families = the declarative one
           /\ PairSpecifiedP(d, BoxCtx(B)) = (Cardinality(mins) = 1 /\ (ortho \/ hh))
           /\ PairSpecifiedP(VNeg(d), BoxCtx(B)) = PairSpecifiedP(d, BoxCtx(B)),
           /\ IsLatticeVec(VSub(w, d), B) /\ InsideBox(w, B)
           /\ FractionToCoord(CoordToFraction(d, B), B) = d
           /\ MoveInside(w, B) = w >> >>

EvalCell(c) ==
  LET G == CellGram2(c[1], c[2], c[3], c[4], c[5], c[6])
  IN << <<G>>, <<Dom_Cell(c[1], c[2], c[3], c[4], c[5], c[6]) /\ G = Transpose(G)>> >>

EvalBoxCell(c) ==
  LET B == c[1] IN << <<UnitCellOf(B), Gram(B), IsCanonicalOrientation(B)>>, <<Gram(B)[1][1] = UnitCellOf(B)[1]>> >>

EvalUnwrap(c) ==
  LET T == c[1]  bonds == c[2]  sh == c[3]  B == c[4]
      \* (sequences that are read many times are tabulated once: TLC's functions are lazy)
      C == EagerSeq([k \in DOMAIN T |-> VAdd(T[k], LatVec(sh[k], B))])
      U == EagerSeq(RemovePbcFromCoord(C, B))
      R == RemovePbc(C, bonds, B)
      mols == Molecules(Len(T), bonds)
      ct == CompactTab[<<<<T, bonds>>, B>>]       \* = <<Dom_Compact(T, B), [M \in mols |-> Dom_Compact(SubSeqOf(T, M), B)]>>
      chainCompact == ct[1]
      \* no molecule's centroid lies exactly on a box face (else its placement is rounding-dependent)
      faceFree == \A M \in mols : ~CentroidOnFace(RemovePbcFromCoord(SubSeqOf(C, M), B), B)
  IN << <<C, U, R, chainCompact, Adj(B), Det(B), faceFree>>,
        << \* every atom is moved by a lattice vector
           \A k \in DOMAIN C : IsLatticeVec(VSub(U[k], C[k]), B) /\ IsLatticeVec(VSub(R[k], C[k]), B),
           \* remove_pbc_from_coord restores the whole chain when it is compact; first atom in the box
           /\ InsideBox(U[1], B)
           /\ chainCompact => \A k \in DOMAIN C : VSub(U[k], U[1]) = VSub(T[k], T[1]),
           \* remove_pbc restores every (compact) molecule and leaves bonded atoms at
           \* minimum-image distance
           \A M \in mols : ct[2][M] =>
              /\ \A i, j \in M : VSub(R[j], R[i]) = VSub(T[j], T[i])
              /\ \A b \in bonds : b \subseteq M =>
                    \A i, j \in b : i < j => Norm2(VSub(R[j], R[i])) = MinImageN2(VSub(R[j], R[i]), B, 2),
           \* the centroid of every molecule lies in the box: 0 <= frac < 1
           \A M \in mols :
              LET s == VSum(SubSeqOf(R, M))  m == Cardinality(M)  f == FracNum(s, B)  d == m * Det(B)
              IN \A i \in 1..3 : FloorDiv(f[i], d) = 0 >> >>

EvalXform(c) ==
  LET P == c[1]  kind == c[2]  a == c[3] IN
  CASE kind = "translate" -> << <<"ok", Translate(P, a), 1>>, <<TRUE>> >>
    [] kind = "rotate"    -> << <<"ok", Rotate(P, a), 1>>, <<EulerMat(a) \in Proper>> >>
    [] kind = "centered"  -> LET r == RotateCentered(P, a) IN
                             << <<"ok", r[1], r[2]>>,
                                <<VSum(r[1]) = VScale(r[2], VSum(P))>> >>     \* the centroid is fixed
    [] kind = "axis"      -> << <<"ok", RotateAboutAxis(P, a[1], a[2]), 1>>,
                                <<AxisTurnMat(a[1]) \in Proper
                                  /\ MatVec(AxisTurnMat(a[1]), a[1].axis) = a[1].axis>> >>   \* the axis is fixed
    [] kind = "align"     -> IF AlignOutcome(a[1], a[2]) = "ok"
                             THEN << <<"ok", AlignVectors(P, a[1], a[2], a[3], a[4]), 1>>,
                                     <<AlignRot(a[1], a[2]) \in Proper
                                       /\ MatVec(AlignRot(a[1], a[2]), UnitOf(a[1])) = UnitOf(a[2])>> >>
                             ELSE << <<"Rejected", <<>>, 1>>, <<TRUE>> >>

(* operand shapes: the positions given to the code (wrapped by lattice vectors when there is a
   box), the operands in the forms of the case, the broadcast result *)
Eager2(s) == EagerSeq([i \in DOMAIN s |-> EagerSeq(s[i])])
Eager3(s) == EagerSeq([i \in DOMAIN s |-> Eager2(s[i])])
ShiftAt(h, j, mi, ai) == ShiftSeq[((3 * j + 2 * mi + 4 * ai + h) % 5) + 1]
FormHash(f) == SumSeq([j \in DOMAIN f |-> j * f[j][1] + (IF f[j][2] = "obj" THEN 2 ELSE 0)])
WrapBox(ba) == IF ba[1] = "one" THEN ba[2] ELSE ba[2][Len(ba[2])]
WorldGiven(T, ba, h) ==
  IF ba = <<>> THEN T
  ELSE Eager3([j \in DOMAIN T |-> [mi \in DOMAIN T[j] |-> [ai \in DOMAIN T[j][mi] |->
                  VAdd(T[j][mi][ai], LatVec(ShiftAt(h, j, mi, ai), WrapBox(ba)))]]])
\* the operand of rank r at argument position j: the whole stack, the atoms of the first model,
\* or the first atom of the first model
OperandOf(C, j, r) == CASE r = 3 -> <<3, C[j]>> [] r = 2 -> <<2, C[j][1]>> [] r = 1 -> <<1, C[j][1][1]>>
AllEntries(res, P(_, _)) == \A mi \in DOMAIN res : \A ai \in DOMAIN res[mi] : P(mi, ai)

EvalShapes(c) ==
  LET fn == c[1]  f == c[2]  T == ShapeWorlds[c[3]]  ba == c[4] IN
  IF fn = "centroid"
  THEN LET op == OperandOf(T, 1, f[1][1]) IN << <<<<op[2]>>, f[1][1], CentroidOf(op)>>, <<TRUE>> >>
  ELSE
  LET ar == FnArity(fn)
      C == WorldGiven(T, ba, FormHash(f))
      ops == [j \in 1..ar |-> OperandOf(C, j, f[j][1])]
      tops == [j \in 1..ar |-> OperandOf(T, j, f[j][1])]
      res == Eager2(Broadcast(fn, ops, ba))
      tres == Eager2(BroadcastValues(fn, tops, ba))
      rev == Eager2(BroadcastValues(fn, [j \in 1..ar |-> ops[ar + 1 - j]], ba))
      r == RanksOf(f)
  IN << <<[j \in 1..ar |-> ops[j][2]], ResultRank(ops), res>>,
        << Dom_Operands(ops) /\ Dom_BoxArg(ba, ops)
             /\ Len(res) = (IF ResultRank(ops) = 3 THEN WorldM(T) ELSE 1)
             /\ Len(res[1]) = (IF ResultRank(ops) >= 2 THEN WorldN(T) ELSE 1),
           \* code-shaped (subtraction order chosen by the dimensionality) = textbook
           AllEntries(res, LAMBDA mi, ai :
              ImplFnValueP(fn, r, [j \in 1..ar |-> OperandAt(ops[j], mi, ai)], CtxOf(BoxAt(ba, mi))) = res[mi][ai][1]),
           \* wrapping by lattice vectors changes nothing where the value is specified
           AllEntries(res, LAMBDA mi, ai :
              res[mi][ai][2] => res[mi][ai][1] = tres[mi][ai][1] /\ res[mi][ai][3] = tres[mi][ai][2]),
           \* reversed argument order
           AllEntries(res, LAMBDA mi, ai :
              res[mi][ai][2] => /\ rev[mi][ai][1] = ReversedValue(fn, res[mi][ai][1])
                                /\ rev[mi][ai][2] = res[mi][ai][3]) >> >>

EvalIndex(c) ==
  LET fn == c[1]  r == c[2][1]  T == ShapeWorlds[c[3]]  ba == c[5]  perm == c[6]
      ar == FnArity(fn)  n == WorldN(T)  m == WorldM(T)
      C == WorldGiven(T, ba, SumSeq(perm) + r)
      Flat(W, mi) == [x \in 1..(4 * n) |-> W[((x - 1) \div n) + 1][mi][((x - 1) % n) + 1]]
      atoms == IF r = 2 THEN <<2, EagerSeq(Flat(C, 1))>> ELSE <<3, Eager2([mi \in 1..m |-> Flat(C, mi)])>>
      tatoms == IF r = 2 THEN <<2, EagerSeq(Flat(T, 1))>> ELSE <<3, Eager2([mi \in 1..m |-> Flat(T, mi)])>>
      \* one row per atom of the operands, and a row that mixes the first and the last atom
      rows == Eager2([x \in 1..(n + 1) |-> [p \in 1..ar |->
                 (perm[p] - 1) * n + (IF x <= n THEN x ELSE IF p = 1 THEN 1 ELSE n)]])
      res == Eager2(IndexFn(fn, atoms, rows, ba))
      tres == Eager2(BroadcastValues(fn, [p \in 1..ar |-> Gather(tatoms, rows, p)], ba))
      direct == Eager2(Broadcast(fn, [p \in 1..ar |-> OperandOf(C, perm[p], r)], ba))
  IN << <<atoms[2], rows, res, Diag(32, 32, 32)>>,
        << \* index-based = coordinate-based on the operands of the world
           \A mi \in DOMAIN res : \A ai \in 1..n : res[mi][ai] = direct[mi][ai],
           AllEntries(res, LAMBDA mi, x :
              res[mi][x][2] => res[mi][x][1] = tres[mi][x][1] /\ res[mi][x][3] = tres[mi][x][2]) >> >>

Evaluate(c) ==
  CASE c[1] = "geom"    -> EvalGeom(c[2])
    [] c[1] = "vecbox"  -> EvalVecBox(c[2])
    [] c[1] = "cell"    -> EvalCell(c[2])
    [] c[1] = "boxcell" -> EvalBoxCell(c[2])
    [] c[1] = "unwrap"  -> EvalUnwrap(c[2])
    [] c[1] = "xform"   -> EvalXform(c[2])
    [] c[1] = "shapes"  -> EvalShapes(c[2])
    [] c[1] = "index"   -> EvalIndex(c[2])

(* ------------------------------------------------------------------ the model *)
\* (state variables named so that they cannot coincide with a bound variable or parameter
\* of a constant definition - TLC would stop caching such definitions)
VARIABLES vcase, vout
vars == <<vcase, vout>>
Init == /\ vout = <<>>
        /\ CASE Tier = "tiny" -> InTiny(vcase) [] Tier = "quick" -> InQuick(vcase) [] Tier = "thorough" -> InThorough(vcase)
Next == vout = <<>> /\ vout' = Evaluate(vcase) /\ UNCHANGED vcase
Spec == Init /\ [][Next]_vars
Done == vout # <<>>

\* S1: every design claim of every case holds
InvClaims == Done => \A i \in DOMAIN vout[2] : vout[2][i]
\* the molecules of the unwrap family are inside the property's domain (bonded components compact)
\* (evaluated on the evaluated states only: TLC checks initial states in a single thread)
InvUnwrapDomain ==
  (Done /\ vcase[1] = "unwrap") =>
     LET ct == CompactTab[<<<<vcase[2][1], vcase[2][2]>>, vcase[2][4]>>]
     IN \A M \in Molecules(Len(vcase[2][1]), vcase[2][2]) : ct[2][M]
(* the operand worlds are inside the domain and sensitive: with the family's own boxes (large
   enough that the true displacements are the minimum images) every entry is specified and
   defined; without a box no angle is a right angle
   (cos # 0: a negated displacement shows) and the entries of a result are pairwise different
   (a wrongly broadcast operand shows) *)
InvShapesDomain ==
  (Done /\ vcase[1] = "shapes" /\ vcase[2][1] # "centroid") =>
     LET res == vout[1][3]  ba == vcase[2][4]  fn == vcase[2][1]
         ents == {<<mi, ai>> : mi \in DOMAIN res, ai \in DOMAIN res[1]}
     IN /\ \A e \in ents :
              /\ (ba = <<>> \/ ba[1] = "per" \/ ba[2] \in ShapeBoxesQuick) => res[e[1]][e[2]][2] /\ res[e[1]][e[2]][3]
              /\ (ba = <<>> /\ fn = "angle") => res[e[1]][e[2]][1][1] # 0
        /\ ba = <<>> => \A e1, e2 \in ents : e1 # e2 => res[e1[1]][e1[2]][1] # res[e2[1]][e2[2]][1]
=============================================================================
