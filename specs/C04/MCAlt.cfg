SPECIFICATION Spec
CONSTANTS
  MaxRows = 3
  Occs = {1, 2}
INVARIANT InvSubset
INVARIANT InvAllKeepsAll
INVARIANT InvNoAltUntouched
CHECK_DEADLOCK FALSE
