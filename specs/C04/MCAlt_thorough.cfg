SPECIFICATION Spec
CONSTANTS
  MaxRows = 4
  Occs = {1, 2, 3}
INVARIANT InvSubset
INVARIANT InvAllKeepsAll
INVARIANT InvNoAltUntouched
CHECK_DEADLOCK FALSE
