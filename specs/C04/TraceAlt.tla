------------------------------- MODULE TraceAlt -------------------------------
(* C04 direction B for model / alternate-location selection: recorded calls
   {rows, m, policy, rej, sel} are re-computed with AltLoc.Select. *)
EXTENDS AltLocOps, Json, IOUtils

Tr == JsonDeserialize(IOEnv.TRACE_FILE)
VARIABLES tid, l
tvars == <<tid, l>>

Judge(e) ==
  LET r == Select(e.rows, e.m, e.policy) IN
  IF r.rej = e.rej /\ (r.rej \/ r.sel = e.sel) THEN TRUE
  ELSE PrintT(<<"MISMATCH", tid, l + 1, r.rej, r.sel>>)

Init == tid \in 1..Len(Tr) /\ l = 0
Next == /\ l < Len(Tr[tid]) /\ l' = l + 1 /\ UNCHANGED tid
        /\ Judge(Tr[tid][l + 1])
Spec == Init /\ [][Next]_tvars
=============================================================================
