------------------------------- MODULE Trace -------------------------------
(* C04 direction B: structures written by the real set_structure and read back by the real
   get_structure through CIF text / BinaryCIF / compressed BinaryCIF, validated against
   PdbxBonds.  Event:
     {fmt, A, B, oc, rA, rB, rest_equal}
   A / rA: atoms before / after as sequences of [chain, res_id, ins, res_name, hetero, atom_name];
   B / rB: bonds as sorted lists of [i, j, type]; rest_equal: the driver's exact comparison of
   everything the bond model does not carry (coordinates of every model, element, box,
   optional annotations).
   Verdicts: exact round trip -> accepted.  Otherwise, if the specification names a reason why
   the *format* cannot return the structure and the implementation returned exactly what the
   conventions give (ReadBack), the event is reported as <<"FORMAT", ...>>; anything else is a
   <<"MISMATCH", ...>>. *)
EXTENDS PdbxBondsOps, Json, IOUtils

Tr == JsonDeserialize(IOEnv.TRACE_FILE)

VARIABLES tid, l
tvars == <<tid, l>>

Judge(e) ==
  LET T == [A |-> e.A, B |-> ToSet(e.B)]
      refusedW == WriteRefused(T)
      exact == e.oc = "ok" /\ e.rA = e.A /\ ToSet(e.rB) = T.B /\ e.rest_equal
      predicted == IF refusedW THEN e.oc = "Rejected"
                   ELSE e.oc = "ok" /\ e.rA = e.A /\ ToSet(e.rB) = ReadBack(T) /\ e.rest_equal
      why == Reasons(T)
  IN IF ~Dom_WellFormed(e.A) THEN PrintT(<<"NOTINDOMAIN", tid, l + 1>>)
     ELSE IF exact THEN TRUE
     ELSE IF why # {} /\ predicted THEN PrintT(<<"FORMAT", tid, l + 1, why>>)
     ELSE PrintT(<<"MISMATCH", tid, l + 1, why, refusedW, IF refusedW THEN {} ELSE ReadBack(T)>>)

Init == tid \in 1..Len(Tr) /\ l = 0
Next == /\ l < Len(Tr[tid]) /\ l' = l + 1 /\ UNCHANGED tid
        /\ Judge(Tr[tid][l + 1])
Spec == Init /\ [][Next]_tvars
=============================================================================
