SPECIFICATION Spec
CONSTANTS
  MaxRes = 2
  MaxBonds = 2
  BondTypes = {1, 2, 8}
INVARIANT InvRoundTrip
INVARIANT InvReasonsComplete
CHECK_DEADLOCK FALSE
