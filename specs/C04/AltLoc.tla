------------------------------- MODULE AltLoc -------------------------------
(* C04: exhaustive generation of small atom_site tables over AltLocOps (see there). *)
EXTENDS AltLocOps

(* ---------------------------------------------------------------- exhaustive generation *)
CONSTANTS MaxRows, Occs
RowSet == {1} \X {1, 2} \X {".", "A", "B"} \X Occs
OneModel == UNION {[1..n -> RowSet] : n \in 1..MaxRows}
ResContig(rows) == \A i, j \in DOMAIN rows : (i < j /\ Re(rows[i]) = Re(rows[j])) => \A k \in i..j : Re(rows[k]) = Re(rows[i])
WithModel(rows, mnum) == [i \in DOMAIN rows |-> <<mnum, Re(rows[i]), Al(rows[i]), Oc(rows[i])>>]

VARIABLES rows, m, policy, sel, rej, phase
vars == <<rows, m, policy, sel, rej, phase>>
Init == /\ rows \in {r \in OneModel : ResContig(r)} /\ m = 1 /\ policy = "all" /\ sel = <<>> /\ rej = FALSE /\ phase = 0
\* a file with 1, 2 or 3 models (models 2.. repeat the annotations, as a writer would; model
\* numbers need not start at 1), then every model request and policy
Next == /\ phase = 0 /\ phase' = 1
        /\ \E nm \in 1..3, mm \in {-4, -2, -1, 0, 1, 2, 3, 4}, pol \in {"first", "occupancy", "all"} :
             LET nums == IF nm = 1 THEN <<1>> ELSE IF nm = 2 THEN <<1, 2>> ELSE <<2, 5, 7>>
                 file == FoldLeft(LAMBDA acc, k : acc \o WithModel(rows, nums[k]), <<>>, [k \in 1..nm |-> k])
             IN /\ rows' = file /\ m' = mm /\ policy' = pol
                /\ sel' = Select(file, mm, pol).sel /\ rej' = Select(file, mm, pol).rej
Spec == Init /\ [][Next]_vars

\* design facts
InvSubset == (phase = 1 /\ ~rej) =>
               \A k \in DOMAIN sel : \A x \in DOMAIN sel[k] : sel[k][x] + 1 \in DOMAIN rows
InvAllKeepsAll == (phase = 1 /\ policy = "all" /\ m = 1 /\ ~rej) => Len(sel[1]) = Cardinality(RowsOf(rows, ModelSeq(rows)[1]))
InvNoAltUntouched == (phase = 1 /\ ~rej /\ \A i \in DOMAIN rows : Al(rows[i]) = ".")
                       => \A k \in DOMAIN sel : Len(sel[k]) = Cardinality(RowsOf(rows, ModelSeq(rows)[1]))
=============================================================================
