------------------------------- MODULE PdbxBondsOps -------------------------------
(* C04 (bond part): what the mmCIF categories written by set_structure mean.

   A structure is  [A |-> sequence of atoms, B |-> bond set]  where an atom is
   <<chain, res_id, ins_code, res_name, hetero, atom_name>> and B is a BondOps bond set
   over 0-based positions.  The file carries bonds in three ways:
     chem_comp_bond : one template row <<comp_id, atom_id_1, atom_id_2, type>> per
                      intra-residue bond, applied on reading to *every* residue of that name
     struct_conn    : one row per inter-residue bond, partner atoms identified by
                      (chain, res_id, ins_code, res_name, atom_name); type = conn_type_id
                      ("covale"/"metalc") + pdbx_value_order
     implied        : the link between adjacent polymer residues (C-N / O3'-P) is not
                      written; the reader adds it from the residues' link types (CCD)
   RefWrite / RefRead below are these conventions; ReadBack(S) = RefRead(RefWrite(S)).
   S1 shows ReadBack(S) = S on Dom_Representable and computes, for every other structure,
   *why* the format cannot return it (Reasons) and what it returns instead. *)
EXTENDS Integers, Sequences, FiniteSets, SequencesExt, FiniteSetsExt, TLC

(* ---------------------------------------------------------------- constants: the CCD *)
PepNames == {"ALA", "GLY", "SER"}
NucNames == {"DA", "DG"}
Canonical(rn) == rn \in PepNames \cup NucNames          \* CANONICAL_RESIDUE_LIST (restricted)
LinkKind(rn) == IF rn \in PepNames THEN "pep" ELSE IF rn \in NucNames THEN "nuc" ELSE "none"
InCCD(rn) == rn \in PepNames \cup NucNames \cup {"LIG", "RNG", "HOH", "NA"}
\* templates of the synthetic dictionary (fixtures/ccd), restricted to the atoms that occur
CCDTemplate(rn) ==
  CASE rn = "ALA" -> {<<"N", "CA", 1>>, <<"CA", "C", 1>>, <<"C", "O", 2>>, <<"CA", "CB", 1>>}
    [] rn = "GLY" -> {<<"N", "CA", 1>>, <<"CA", "C", 1>>, <<"C", "O", 2>>}
    [] rn = "SER" -> {<<"N", "CA", 1>>, <<"CA", "C", 1>>, <<"C", "O", 2>>, <<"CA", "CB", 1>>, <<"CB", "OG", 1>>}
    [] rn \in {"DA", "DG"} -> {<<"P", "OP1", 2>>, <<"P", "O5'", 1>>, <<"O5'", "C5'", 1>>,
                               <<"C5'", "C3'", 1>>, <<"C3'", "O3'", 1>>}
    [] rn = "LIG" -> {<<"C1", "C2", 3>>, <<"C2", "O1", 1>>, <<"C1", "N1", 2>>}
    [] OTHER -> {}

(* ---------------------------------------------------------------- residues *)
Ch(a) == a[1]  Ri(a) == a[2]  Ic(a) == a[3]  Rn(a) == a[4]  Het(a) == a[5]  An(a) == a[6]
SameRes(a, b) == Ch(a) = Ch(b) /\ Ri(a) = Ri(b) /\ Ic(a) = Ic(b) /\ Rn(a) = Rn(b)
IsStart(A, i) == i = 1 \/ ~SameRes(A[i - 1], A[i])                 \* 1-based
ResIdx(A, i) == Cardinality({k \in 1..i : IsStart(A, k)})          \* residue ordinal of atom i
ResAtoms(A, r) == {i \in 1..Len(A) : ResIdx(A, i) = r}
NRes(A) == IF Len(A) = 0 THEN 0 ELSE ResIdx(A, Len(A))
FirstOf(S) == CHOOSE i \in S : \A j \in S : i <= j
ResName(A, r) == Rn(A[FirstOf(ResAtoms(A, r))])

\* the property's own domain: residues uniquely identifiable, atom names unique in a residue
Dom_WellFormed(A) ==
  /\ Len(A) >= 1
  /\ \A i, j \in 1..Len(A) : (SameRes(A[i], A[j])) => ResIdx(A, i) = ResIdx(A, j)
  /\ \A i, j \in 1..Len(A) : (i # j /\ ResIdx(A, i) = ResIdx(A, j)) => An(A[i]) # An(A[j])
  /\ \A i, j \in 1..Len(A) :      \* (chain, res_id, ins) identify a residue (res_name not needed)
        (Ch(A[i]) = Ch(A[j]) /\ Ri(A[i]) = Ri(A[j]) /\ Ic(A[i]) = Ic(A[j])) => Rn(A[i]) = Rn(A[j])

(* ---------------------------------------------------------------- bond classes *)
\* bonds use 0-based positions; atoms are 1-based in A
AtomOf(A, p) == A[p + 1]
Inter(A, B) == {b \in B : ResIdx(A, b[1] + 1) # ResIdx(A, b[2] + 1)}
Intra(A, B) == B \ Inter(A, B)

\* the polymer link convention: which pair of positions carries the implied link of
\* residues r, r+1 (as the reader reconstructs it)
Linkable(A, r) ==
  /\ r + 1 <= NRes(A)
  /\ LET c == AtomOf(A, FirstOf(ResAtoms(A, r)) - 1)  n == AtomOf(A, FirstOf(ResAtoms(A, r + 1)) - 1) IN
     /\ Ch(c) = Ch(n)
     /\ Ri(n) - Ri(c) <= 1
     /\ LinkKind(Rn(c)) # "none" /\ LinkKind(Rn(c)) = LinkKind(Rn(n))
LinkNames(A, r) == IF LinkKind(ResName(A, r)) = "pep" THEN <<"C", "N">> ELSE <<"O3'", "P">>
LinkPair(A, r) ==         \* {} or {<<i, j>>} (0-based, i < j)
  LET ln == LinkNames(A, r)
      cs == {i \in ResAtoms(A, r) : An(A[i]) = ln[1]}
      ns == {i \in ResAtoms(A, r + 1) : An(A[i]) = ln[2]}
  IN IF Linkable(A, r) /\ cs # {} /\ ns # {} THEN {<<FirstOf(cs) - 1, FirstOf(ns) - 1>>} ELSE {}
ImpliedPairs(A) == UNION {LinkPair(A, r) : r \in 1..(NRes(A) - 1)}

\* the writer's filter: which inter-residue bonds are left out of struct_conn
\* (documented intent: "peptide bonds between adjacent canonical amino acid residues")
WriterOmits(A, b) ==
  /\ Canonical(Rn(AtomOf(A, b[1]))) /\ Canonical(Rn(AtomOf(A, b[2])))
  /\ An(AtomOf(A, b[1])) \in {"C", "O3'"} /\ An(AtomOf(A, b[2])) \in {"N", "P"}
  /\ ResIdx(A, b[2] + 1) - ResIdx(A, b[1] + 1) = 1

(* ---------------------------------------------------------------- type vocabularies *)
\* struct_conn: conn_type_id + pdbx_value_order as written for a BondType
ConnWritable(t) == t \in {0, 1, 2, 3, 4, 5, 6, 7, 8}               \* 9 (AROMATIC) has no entry
ConnRead(t) ==    \* what a reader that honours pdbx_value_order gets back
  CASE t \in {1, 5} -> 1  [] t \in {2, 6} -> 2  [] t \in {3, 7} -> 3  [] t = 4 -> 4
    [] t = 8 -> 8  [] t = 0 -> 1                                    \* "covale" without order
\* chem_comp_bond: value_order + pdbx_aromatic_flag
CompWritable(t) == t # 8                                            \* COORDINATION has no entry
CompRead(t) == t

(* ---------------------------------------------------------------- RefWrite / RefRead *)
WriteRefused(S) ==
  \/ \E b \in Inter(S.A, S.B) : ~WriterOmits(S.A, b) /\ ~ConnWritable(b[3])
  \/ \E b \in Intra(S.A, S.B) : ~CompWritable(b[3])

Key(a) == <<Ch(a), Ri(a), Ic(a), Rn(a), An(a)>>
\* bonds in the order of the bond list (the drivers construct it sorted by position)
BondOrder(b, c) == b[1] < c[1] \/ (b[1] = c[1] /\ b[2] < c[2])
\* chem_comp_bond is a *sequence*: one row per distinct (comp_id, atom_id_1, atom_id_2), in the
\* order of the first bond that has it; that first bond also decides the row's type
CompRows(S) ==
  LET rowsInOrder == [k \in 1..Cardinality(Intra(S.A, S.B)) |->
                        LET b == SetToSortSeq(Intra(S.A, S.B), BondOrder)[k] IN
                        <<Rn(AtomOf(S.A, b[1])), An(AtomOf(S.A, b[1])), An(AtomOf(S.A, b[2])), b[3]>>]
  IN FoldLeft(LAMBDA acc, row :
                IF \E k \in DOMAIN acc : acc[k][1] = row[1] /\ acc[k][2] = row[2] /\ acc[k][3] = row[3]
                  THEN acc ELSE Append(acc, row),
              <<>>, rowsInOrder)

RefWrite(S) ==
  [conn |-> {<<Key(AtomOf(S.A, b[1])), Key(AtomOf(S.A, b[2])), b[3]>> :
               b \in {c \in Inter(S.A, S.B) : ~WriterOmits(S.A, c)}},
   comp |-> CompRows(S)]

Lo(i, j) == IF i < j THEN i ELSE j
Hi(i, j) == IF i < j THEN j ELSE i
PosOfKey(A, k) == {i \in 1..Len(A) : Key(A[i]) = k}

\* the template rows a residue name gets: from the file when it has a chem_comp_bond
\* category (then *only* from the file), else from the dictionary (any fixed order)
TemplateRows(F, rn) ==
  IF Len(F.comp) > 0
    THEN SelectSeq(F.comp, LAMBDA row : row[1] = rn)
    ELSE SetToSeq({<<rn, r[1], r[2], r[3]>> : r \in CCDTemplate(rn)})

RefRead(A, F) ==
  LET \* the first template row naming the two atoms (in either orientation) decides
      typeOf(rows, i, j) ==
        LET ks == {k \in DOMAIN rows : (rows[k][2] = An(A[i]) /\ rows[k][3] = An(A[j]))
                                       \/ (rows[k][2] = An(A[j]) /\ rows[k][3] = An(A[i]))}
        IN IF ks = {} THEN -1 ELSE CompRead(rows[CHOOSE k \in ks : \A q \in ks : k <= q][4])
      fromTemplates ==
        UNION {LET rows == TemplateRows(F, ResName(A, r)) IN
               {<<p[1] - 1, p[2] - 1, typeOf(rows, p[1], p[2])>> :
                  p \in {q \in ResAtoms(A, r) \X ResAtoms(A, r) : q[1] < q[2] /\ typeOf(rows, q[1], q[2]) # -1}}
               : r \in 1..NRes(A)}
      implied == {<<p[1], p[2], 1>> : p \in ImpliedPairs(A)}
      conn == UNION {{<<Lo(i, j) - 1, Hi(i, j) - 1, ConnRead(row[3])>> :
                        <<i, j>> \in PosOfKey(A, row[1]) \X PosOfKey(A, row[2])} : row \in F.conn}
      HasP(X, b) == \E c \in X : c[1] = b[1] /\ c[2] = b[2]
      base == implied \cup {b \in fromTemplates : ~HasP(implied, b)}      \* merge: links win
  IN conn \cup {b \in base : ~HasP(conn, b)}                                \* merge: struct_conn wins

ReadBack(S) == RefRead(S.A, RefWrite(S))

(* ---------------------------------------------------------------- why a structure cannot come back *)
Reasons(S) ==
  LET A == S.A  B == S.B IN
  (IF \E b \in Inter(A, B) : ~WriterOmits(A, b) /\ b[3] \in {0, 5, 6, 7}
     THEN {"inter_type_not_expressible"} ELSE {})
  \cup (IF WriteRefused(S) THEN {"type_without_vocabulary"} ELSE {})
  \cup (IF \E p \in ImpliedPairs(A) : ~\E b \in B : b[1] = p[1] /\ b[2] = p[2]
          THEN {"implied_link_not_bonded_in_input"} ELSE {})
  \cup (IF \E b \in Inter(A, B) : WriterOmits(A, b) /\ ~(<<b[1], b[2]>> \in ImpliedPairs(A) /\ b[3] = 1)
          THEN {"omitted_link_not_restored"} ELSE {})
  \cup (IF Intra(A, B) = {} /\ \E r \in 1..NRes(A) :
             \E row \in CCDTemplate(ResName(A, r)) :
                \E i, j \in ResAtoms(A, r) : An(A[i]) = row[1] /\ An(A[j]) = row[2]
          THEN {"no_chem_comp_bond_so_ccd_template_applies"} ELSE {})
  \cup (IF \E b \in Intra(A, B) : \E r \in 1..NRes(A) :
             /\ ResName(A, r) = Rn(AtomOf(A, b[1]))
             /\ \E i, j \in ResAtoms(A, r) :
                   /\ An(A[i]) = An(AtomOf(A, b[1])) /\ An(A[j]) = An(AtomOf(A, b[2]))
                   /\ ~\E c \in B : c[1] = Lo(i, j) - 1 /\ c[2] = Hi(i, j) - 1 /\ c[3] = b[3]
          THEN {"same_residue_name_different_bonds"} ELSE {})

Dom_Representable(S) == Dom_WellFormed(S.A) /\ Reasons(S) = {}
=============================================================================
