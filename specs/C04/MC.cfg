SPECIFICATION Spec
CONSTANTS
  MaxRes = 2
  MaxBonds = 1
  BondTypes = {0, 1, 2, 5, 8, 9}
INVARIANT InvRoundTrip
INVARIANT InvReasonsComplete
CHECK_DEADLOCK FALSE
