------------------------------- MODULE AltLocOps -------------------------------
(* C04 (selection part): which atom_site rows a requested model and alternate-location
   policy select.  A file is a sequence of rows <<model, res, alt, occ>>:
     model : the pdbx_PDB_model_num of the row (rows of one model are contiguous)
     res   : residue number (rows of one residue are contiguous inside a model)
     alt   : label_alt_id, "." (none), "A" or "B"
     occ   : occupancy (small integer)
   Select(rows, m, policy) = [rej, sel]: sel = per returned model the 0-based positions (within
   the whole file) of the selected rows; rej = the request is refused. *)
EXTENDS Integers, Sequences, FiniteSets, SequencesExt, TLC

Mo(r) == r[1]  Re(r) == r[2]  Al(r) == r[3]  Oc(r) == r[4]

Models(rows) == {Mo(rows[i]) : i \in DOMAIN rows}
\* models in file order (contiguous blocks): the k-th distinct model number
ModelSeq(rows) ==
  FoldLeft(LAMBDA acc, r : IF Len(acc) > 0 /\ acc[Len(acc)] = Mo(r) THEN acc ELSE Append(acc, Mo(r)), <<>>, rows)
Dom_Contiguous(rows) == Len(ModelSeq(rows)) = Cardinality(Models(rows))
RowsOf(rows, mnum) == {i \in DOMAIN rows : Mo(rows[i]) = mnum}
Dom_EqualLength(rows) ==
  \A a, b \in Models(rows) : Cardinality(RowsOf(rows, a)) = Cardinality(RowsOf(rows, b))

\* residues inside one model: maximal runs of equal res
ResRun(rows, S, i) ==       \* the positions of the residue containing i, within position set S
  {j \in S : Re(rows[j]) = Re(rows[i]) /\ \A k \in S : ((k > j /\ k <= i) \/ (k >= i /\ k < j) \/ k = j) => Re(rows[k]) = Re(rows[i])}

Letters(rows, R) == {Al(rows[j]) : j \in {k \in R : Al(rows[k]) # "."}}
FirstLetter(rows, R) ==
  LET L == {k \in R : Al(rows[k]) # "."} IN Al(rows[CHOOSE k \in L : \A q \in L : k <= q])
OccSum(rows, R, a) == FoldSet(LAMBDA j, acc : acc + Oc(rows[j]), 0, {k \in R : Al(rows[k]) = a})
\* highest occupancy sum; ties go to the alphabetically first id ("A" < "B")
BestLetter(rows, R) ==
  LET L == Letters(rows, R) IN
  IF L = {"A", "B"} THEN (IF OccSum(rows, R, "B") > OccSum(rows, R, "A") THEN "B" ELSE "A")
  ELSE CHOOSE a \in L : TRUE

Keep(rows, S, i, policy) ==
  LET R == ResRun(rows, S, i) IN
  \/ policy = "all"
  \/ Al(rows[i]) = "."
  \/ (Letters(rows, R) # {} /\
        Al(rows[i]) = (IF policy = "first" THEN FirstLetter(rows, R) ELSE BestLetter(rows, R)))

SortedSeq(S) == SetToSortSeq(S, <)
Rejected == [rej |-> TRUE, sel |-> <<>>]
Accepted(x) == [rej |-> FALSE, sel |-> x]

\* m: 0 = all models (a stack), k > 0 = k-th model, k < 0 = counted from the last
Select(rows, m, policy) ==
  LET ms == ModelSeq(rows)  n == Len(ms) IN
  IF m = 0 THEN
    IF ~Dom_EqualLength(rows) THEN Rejected
    ELSE \* annotations (and the alt-loc decision) come from the first model; the same
         \* within-model positions are kept in every model
         LET first == RowsOf(rows, ms[1])
             off(i) == i - (CHOOSE j \in first : \A q \in first : j <= q)
             keepOff == {off(i) : i \in {j \in first : Keep(rows, first, j, policy)}}
         IN Accepted([k \in 1..n |->
               LET Sk == RowsOf(rows, ms[k])  base == CHOOSE j \in Sk : \A q \in Sk : j <= q IN
               [x \in 1..Cardinality(keepOff) |-> SortedSeq(keepOff)[x] + base - 1]])
  ELSE
    LET k == IF m < 0 THEN n + m + 1 ELSE m IN
    IF k < 1 \/ k > n THEN Rejected
    ELSE LET Sk == RowsOf(rows, ms[k]) IN
         Accepted(<<[x \in 1..Cardinality({i \in Sk : Keep(rows, Sk, i, policy)}) |->
              SortedSeq({i \in Sk : Keep(rows, Sk, i, policy)})[x] - 1]>>)
=============================================================================
