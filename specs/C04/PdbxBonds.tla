------------------------------- MODULE PdbxBonds -------------------------------
(* C04: exhaustive generation of small structures over PdbxBondsOps (see there). *)
EXTENDS PdbxBondsOps

(* ---------------------------------------------------------------- exhaustive generation *)
CONSTANTS MaxRes, MaxBonds, BondTypes

\* residue kinds: <<res_name, hetero, atom names>>
Kinds == {<<"ALA", FALSE, <<"N", "CA", "C">>>>, <<"GLY", FALSE, <<"N", "C">>>>,
          <<"DA", FALSE, <<"P", "O3'">>>>, <<"LIG", TRUE, <<"C1", "C2">>>>,
          <<"XAA", TRUE, <<"X1", "X2">>>>, <<"HOH", TRUE, <<"O">>>>}
Placements == {<<"A", 1, "">>, <<"A", 2, "">>, <<"A", 2, "B">>, <<"A", 5, "">>, <<"B", 1, "">>, <<"A", -3, "">>}

ResidueAtoms(k, p) == [i \in 1..Len(k[3]) |-> <<p[1], p[2], p[3], k[1], k[2], k[3][i]>>]
Layouts == UNION {[1..n -> Kinds \X Placements] : n \in 1..MaxRes}
AtomsOf(lay) == FoldLeft(LAMBDA acc, x : acc \o ResidueAtoms(x[1], x[2]), <<>>, lay)

PairsOf(n) == {<<i, j>> \in (0..(n - 1)) \X (0..(n - 1)) : i < j}
BondSets(n) ==
  LET one == {<<p[1], p[2], t>> : p \in PairsOf(n), t \in BondTypes} IN
  {{}} \cup {{b} : b \in one}
  \cup (IF MaxBonds >= 2 THEN UNION {{{b, c} : c \in {x \in one : x[1] # b[1] \/ x[2] # b[2]}} : b \in one} ELSE {})

VARIABLES lay, S, rb, refused, reasons, phase
vars == <<lay, S, rb, refused, reasons, phase>>

Init == /\ lay \in {l \in Layouts : Dom_WellFormed(AtomsOf(l))}
        /\ S = [A |-> AtomsOf(lay), B |-> {}] /\ rb = {} /\ refused = FALSE /\ reasons = {}
        /\ phase = 0
Next == /\ phase = 0 /\ phase' = 1 /\ UNCHANGED lay
        /\ \E B \in BondSets(Len(S.A)) :
             LET T == [A |-> S.A, B |-> B] IN
             /\ S' = T
             /\ refused' = WriteRefused(T)
             /\ rb' = IF WriteRefused(T) THEN {} ELSE ReadBack(T)
             /\ reasons' = Reasons(T)
Spec == Init /\ [][Next]_vars

\* S1: the conventions return every representable structure; and whenever they do not, a
\* reason is named (Reasons is complete)
InvRoundTrip == (phase = 1 /\ reasons = {}) => (~refused /\ rb = S.B)
InvReasonsComplete == (phase = 1 /\ ~refused /\ rb # S.B) => reasons # {}
=============================================================================
