SPECIFICATION Spec
CONSTANTS
  Rich = FALSE
INVARIANT InvSuffix
INVARIANT InvRoundTrip
INVARIANT InvRefusals
CHECK_DEADLOCK FALSE
