------------------------------- MODULE X03Base -------------------------------
(* X03: small shared vocabulary of GroFile / PdbqtFile / TextFileOps / Dispatch on top of
   specs/lib/FixedCols (texts = sequences of one-character strings). *)
EXTENDS FixedCols, TLC

(* TLC evaluates function constructors lazily (the body is run again at every application) and may
   re-evaluate LET definitions at every use: Eval forces a value once, Bind (FixedCols) names it *)
Eval(v) == TLCEval(v)
Idx(n) == [k \in 1..n |-> k]
MaxOf(X) == CHOOSE x \in X : \A y \in X : y <= x
MinOf(X) == CHOOSE x \in X : \A y \in X : x <= y
SP == <<" ">>
(* the line break as a "character" of its own (never part of a line) *)
NL == "nl"
SeqToSet(s) == {s[k] : k \in DOMAIN s}
NoDup(s) == \A p \in DOMAIN s : \A q \in DOMAIN s : p # q => s[p] # s[q]
IndexIn(s, v) == CHOOSE k \in DOMAIN s : s[k] = v
=============================================================================
