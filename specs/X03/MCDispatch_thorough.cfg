SPECIFICATION Spec
CONSTANTS
  Rich = TRUE
INVARIANT InvSuffix
INVARIANT InvRoundTrip
INVARIANT InvRefusals
CHECK_DEADLOCK FALSE
