------------------------------- MODULE PdbqtFile -------------------------------
(* X03: an AutoDock PDBQT file as PDBQTFile.set_structure writes it and PDBQTFile.get_structure /
   get_remarks read it (src/biotite/structure/io/pdbqt/file.py).

   A structure with the options of one set_structure call is
     S = [atoms : Seq([het, serial, name, resn, chain, resi, icode, elem, q])
                    q = the partial charge handed over in `charges`, in thousandths
          xyz   : Seq(<<x, y, z>>)       coordinates in thousandths of an Angstrom
          bonds : Seq(<<i, j, t>>)       0-based atom indices i < j, bond type t, no pair twice
          o     : [ids     : BOOLEAN                 the array carries an atom_id annotation
                   rot     : "none" | "rigid" | "all" | "list"      rotatable_bonds
                   rotlist : Seq(<<i, j>>)           the bonds of rotatable_bonds = BondList(...)
                   root    : <<>> | <<r>>            root (index into the array handed over)
                   torsdof : BOOLEAN                 include_torsdof
                   types   : <<>> | << Seq(text) >>  atom_types (one per atom handed over) ]]

   PqConvert      convert_atoms(): AutoDock atom types, removal of nonpolar hydrogen atoms, their
                  charges added to the carbon atom
   PqRot...       the rotatable bonds: find_rotatable_bonds() for "all", the bonds of `root`
   PqLinesFor     _write_atoms(): the torsion tree ROOT / BRANCH / ENDBRANCH, depth first
   PqTreeOK       declarative: the lines are a torsion tree of exactly the atoms kept
   WritePq        the requirement; ImplWritePq the writer as implemented; KB_* where they differ
   ReadPq         get_structure(model), PqRemarks get_remarks(model) *)
EXTENDS X03Base

PqLayout ==
  << Fld("record", 1, 6, "L"),   Fld("serial", 7, 11, "R"),  Fld("name", 13, 16, "L"),
     Fld("resName", 18, 20, "L"), Fld("chainID", 22, 22, "L"), Fld("resSeq", 23, 26, "R"),
     Fld("iCode", 27, 27, "L"),
     Fld("x", 31, 38, "R"),      Fld("y", 39, 46, "R"),      Fld("z", 47, 54, "R"),
     Fld("occupancy", 55, 60, "R"), Fld("tempFactor", 61, 66, "R"),
     Fld("charge", 71, 76, "R"), Fld("type", 78, 79, "L") >>
PqLen == 79
ASSUME LayoutOK(PqLayout, PqLen)

TH == T("H")
TC == T("C")
TATOM == T("ATOM")
THETATM == T("HETATM")
TROOT == T("ROOT")
TENDROOT == T("ENDROOT")
TBRANCH == T("BRANCH")
TENDBRANCH == T("ENDBRANCH")
TTORSDOF == T("TORSDOF")
TMODEL == T("MODEL")
TENDMDL == T("ENDMDL")
TREMARK == T("REMARK")

PqN(S) == Len(S.atoms)
PqElem(S, i) == S.atoms[i + 1].elem                         \* i is 0-based, as in the bond list
PqBondSet(S) == SeqToSet(S.bonds)
PairNbrs(P, i) == {p[2] : p \in {x \in P : x[1] = i}} \cup {p[1] : p \in {x \in P : x[2] = i}}
PqNbrs(S, i) == PairNbrs(PqBondSet(S), i)
PqDeg(S, i) == Cardinality(PqNbrs(S, i))

(* ------------------------------------------------------------------ convert_atoms *)
IsHyd(S, i) == PqElem(S, i) = TH
(* a hydrogen atom bound to exactly one atom, a carbon: removed, its charge goes to the carbon *)
PqRemoved(S, i) == IsHyd(S, i) /\ PqDeg(S, i) = 1 /\ \A j \in PqNbrs(S, i) : PqElem(S, j) = TC
PqBadH(S) == \E i \in 0..(PqN(S) - 1) : IsHyd(S, i) /\ PqDeg(S, i) >= 2      \* "hydrogen with multiple bonds"

Parametrized == {T("H"), T("C"), T("N"), T("O"), T("P"), T("S"), T("F"), T("Cl"), T("Br"), T("I"),
                 T("Mg"), T("Ca"), T("Mn"), T("Fe"), T("Zn")}
AromaticTypes == {5, 6}                    \* BondType.AROMATIC_SINGLE, AROMATIC_DOUBLE (code; see NOTES)
IsAromaticC(S, i) == \E b \in PqBondSet(S) : (b[1] = i \/ b[2] = i) /\ b[3] \in AromaticTypes
AutoType(S, i) ==
  LET e == PqElem(S, i) IN
  IF e = TH THEN (IF PqDeg(S, i) = 0 THEN TH ELSE T("HD"))
  ELSE IF e = TC THEN (IF IsAromaticC(S, i) THEN T("A") ELSE TC)
  ELSE IF e = T("N") THEN T("NA")
  ELSE IF e = T("O") THEN T("OA")
  ELSE IF e = T("S") THEN T("SA")
  ELSE IF Capitalize(e) \in Parametrized THEN Capitalize(e)
  ELSE TH                                      \* "not parametrized, using parameters for hydrogen instead"

(* the atoms kept, as 0-based indices into the array handed over, in order (mask) *)
PqKept(S) == SelectSeq([k \in 1..PqN(S) |-> k - 1], LAMBDA i : ~PqRemoved(S, i))
PqMask(S) == [k \in 1..PqN(S) |-> ~PqRemoved(S, k - 1)]
NewIdx(kept, i) == IndexIn(kept, i) - 1
PqCharge(S, i) ==
  LET hs == {h \in PairNbrs(PqBondSet(S), i) : PqRemoved(S, h)} IN
  IF PqElem(S, i) = TC
    THEN S.atoms[i + 1].q + FoldLeft(LAMBDA acc, k : acc + (IF (k - 1) \in hs THEN S.atoms[k].q ELSE 0), 0, Idx(PqN(S)))
    ELSE S.atoms[i + 1].q
PqTypeOf(S, i) == IF S.o.types = <<>> THEN AutoType(S, i) ELSE S.o.types[1][i + 1]

(* bonds among the atoms kept, re-indexed, in the order of the bond list *)
PqKBonds(S, kept) ==
  LET ks == SeqToSet(kept)
      sel == SelectSeq(S.bonds, LAMBDA b : b[1] \in ks /\ b[2] \in ks)
  IN [k \in 1..Len(sel) |-> <<NewIdx(kept, sel[k][1]), NewIdx(kept, sel[k][2]), sel[k][3]>>]
PairsOf(E) == [k \in 1..Len(E) |-> <<E[k][1], E[k][2]>>]

(* ------------------------------------------------------------------ graph helpers *)
RECURSIVE Grow(_, _)
Grow(P, X) == LET Y == X \cup UNION {PairNbrs(P, x) : x \in X} IN IF Y = X THEN X ELSE Grow(P, Y)
ReachSet(P, r) == Grow(P, {r})
(* a bond lies on a cycle iff its ends stay connected without it *)
OnCycle(P, p) == p[2] \in ReachSet(P \ {p}, p[1])

(* find_rotatable_bonds(): single bond, both ends have further partners, the two atoms are not in
   one cycle of the cycle basis (for a bond: it does not lie on a cycle) *)
FindRotatable(E) ==
  LET P == SeqToSet(PairsOf(E)) IN
  PairsOf(SelectSeq(E, LAMBDA b : /\ b[3] = 1
                                  /\ Cardinality(PairNbrs(P, b[1])) > 1 /\ Cardinality(PairNbrs(P, b[2])) > 1
                                  /\ ~OnCycle(P, <<b[1], b[2]>>)))

(* append the pairs of `more` that are not yet in `rot` (BondList.add_bond) *)
AddPairs(rot, more) == FoldLeft(LAMBDA acc, p : IF p \in SeqToSet(acc) THEN acc ELSE Append(acc, p), rot, more)
NormPair(i, j) == IF i < j THEN <<i, j>> ELSE <<j, i>>

RootValid(S, kept) == S.o.root = <<>> \/ S.o.root[1] \in SeqToSet(kept)
RootIdx(S, kept) == IF S.o.root = <<>> THEN 0 ELSE NewIdx(kept, S.o.root[1])
(* the bonds of the root atom, in the order of the bond list *)
RootBonds(E, r) == PairsOf(SelectSeq(E, LAMBDA b : b[1] = r \/ b[2] = r))

ListRot(S, kept) ==
  LET ks == SeqToSet(kept)
      sel == SelectSeq(S.o.rotlist, LAMBDA p : p[1] \in ks /\ p[2] \in ks)
  IN AddPairs(<<>>, [k \in 1..Len(sel) |-> NormPair(NewIdx(kept, sel[k][1]), NewIdx(kept, sel[k][2]))])
BaseRot(S, kept, E) ==
  CASE S.o.rot = "all" -> FindRotatable(E)
    [] S.o.rot = "list" -> ListRot(S, kept)
    [] OTHER -> <<>>
(* as implemented: the bonds of `root` become rotatable whatever rotatable_bonds says *)
ImplRot(S, kept, E) ==
  IF S.o.root = <<>> THEN BaseRot(S, kept, E) ELSE AddPairs(BaseRot(S, kept, E), RootBonds(E, RootIdx(S, kept)))
(* as documented: "This parameter has no effect, if rotatable_bonds is None" *)
DeclRot(S, kept, E) == IF S.o.rot = "none" THEN <<>> ELSE ImplRot(S, kept, E)
UseRoot(S) == S.o.rot # "none"

(* ------------------------------------------------------------------ atom lines *)
PqSerial(S, kept, p) == IF S.o.ids THEN S.atoms[kept[p] + 1].serial ELSE p
Ang3(k) == FixedText(<<k, 1000>>, 3)
PqVals(S, kept, p) ==
  LET i == kept[p]  a == S.atoms[i + 1]  c == S.xyz[i + 1] IN
  [record |-> IF a.het THEN THETATM ELSE TATOM,
   serial |-> IntText(PqSerial(S, kept, p)),
   name |-> a.name, resName |-> a.resn, chainID |-> a.chain, resSeq |-> IntText(a.resi), iCode |-> a.icode,
   x |-> Ang3(c[1]), y |-> Ang3(c[2]), z |-> Ang3(c[3]),
   occupancy |-> T("1.00"), tempFactor |-> T("0.00"),
   charge |-> Ang3(PqCharge(S, i)), type |-> PqTypeOf(S, i)]
PqAtomLine(S, kept, p) == Render(PqLayout, PqVals(S, kept, p), PqLen)
BranchLine(tag, a, b) == tag \o SP \o RJust(IntText(a), 3) \o SP \o RJust(IntText(b), 3)

(* ------------------------------------------------------------------ _write_atoms: the torsion tree *)
(* C = [m: atoms kept, rot: Seq of pairs, rigid: set of pairs, line: Seq of atom lines, id: Seq of serials] *)
RECURSIVE WriteGroup(_, _, _, _)
WriteGroup(C, root, visited, isRoot) ==
  LET members == IF Len(C.rot) = 0 THEN [k \in 1..C.m |-> k - 1]
                 ELSE <<root>> \o SetToSortSeq(ReachSet(C.rigid, root) \ {root}, <)
      mset == SeqToSet(members)
      head == (IF isRoot THEN <<TROOT>> ELSE <<>>) \o [k \in 1..Len(members) |-> C.line[members[k] + 1]]
                \o (IF isRoot THEN <<TENDROOT>> ELSE <<>>)
  IN FoldLeft(LAMBDA acc, k :
                IF k \in acc.visited \/ ~(C.rot[k][1] \in mset \/ C.rot[k][2] \in mset) THEN acc
                ELSE LET this == IF C.rot[k][1] \in mset THEN C.rot[k][1] ELSE C.rot[k][2]
                         new == IF C.rot[k][1] \in mset THEN C.rot[k][2] ELSE C.rot[k][1]
                         sub == WriteGroup(C, new, acc.visited \cup {k}, FALSE)
                     IN [lines |-> acc.lines \o <<BranchLine(TBRANCH, C.id[this + 1], C.id[new + 1])>> \o sub.lines
                                     \o <<BranchLine(TENDBRANCH, C.id[this + 1], C.id[new + 1])>>,
                         visited |-> sub.visited],
              [lines |-> head, visited |-> visited], Idx(Len(C.rot)))

PqContext(S, kept, E, rot) ==
  [m |-> Len(kept), rot |-> rot, rigid |-> SeqToSet(PairsOf(E)) \ SeqToSet(rot),
   line |-> Eval([p \in 1..Len(kept) |-> PqAtomLine(S, kept, p)]),
   id |-> Eval([p \in 1..Len(kept) |-> PqSerial(S, kept, p)])]
PqLinesFor(S, kept, E, rot, rootIdx, useRoot) ==
  Bind(PqContext(S, kept, E, rot), LAMBDA C : WriteGroup(C, rootIdx, {}, useRoot).lines)
    \o (IF S.o.torsdof THEN <<TTORSDOF \o SP \o IntText(Len(rot))>> ELSE <<>>)

(* ------------------------------------------------------------------ the torsion tree, declaratively *)
PqItem(l) ==
  IF StartsWith(l, TATOM) \/ StartsWith(l, THETATM) THEN <<"atom", ParseInt(Cols(LJust(l, 11), 7, 11)).val, 0>>
  ELSE IF StartsWith(l, TENDBRANCH) THEN <<"endbranch", ParseInt(Tokens(l)[2]).val, ParseInt(Tokens(l)[3]).val>>
  ELSE IF StartsWith(l, TBRANCH) THEN <<"branch", ParseInt(Tokens(l)[2]).val, ParseInt(Tokens(l)[3]).val>>
  ELSE IF l = TROOT THEN <<"root", 0, 0>>
  ELSE IF l = TENDROOT THEN <<"endroot", 0, 0>>
  ELSE IF StartsWith(l, TTORSDOF) THEN <<"torsdof", ParseInt(Tokens(l)[2]).val, 0>>
  ELSE <<"other", 0, 0>>
PosOfKind(items, kind) == SelectSeq(Idx(Len(items)), LAMBDA k : items[k][1] = kind)
(* BRANCH / ENDBRANCH are properly nested and carry the same pair of serials *)
NestingOK(items) ==
  LET r == FoldLeft(LAMBDA acc, it :
                      IF ~acc.ok THEN acc
                      ELSE IF it[1] = "branch" THEN [ok |-> TRUE, st |-> Append(acc.st, <<it[2], it[3]>>)]
                      ELSE IF it[1] = "endbranch"
                        THEN (IF Len(acc.st) > 0 /\ acc.st[Len(acc.st)] = <<it[2], it[3]>>
                                THEN [ok |-> TRUE, st |-> SubSeq(acc.st, 1, Len(acc.st) - 1)]
                                ELSE [ok |-> FALSE, st |-> <<>>])
                      ELSE acc,
                    [ok |-> TRUE, st |-> <<>>], items)
  IN r.ok /\ r.st = <<>>
(* serials: the serial numbers of the atoms kept; rotS: the rotatable bonds as sets of two serials *)
PqTreeOK(lines, serials, rotS, useRoot, torsdof) ==
  Bind(Eval([k \in 1..Len(lines) |-> PqItem(lines[k])]), LAMBDA items :
  LET ap == PosOfKind(items, "atom")
      written == [k \in 1..Len(ap) |-> items[ap[k]][2]]
      bp == PosOfKind(items, "branch")
      rp == PosOfKind(items, "root")   ep == PosOfKind(items, "endroot")   tp == PosOfKind(items, "torsdof")
  IN /\ NoDup(written) /\ SeqToSet(written) = SeqToSet(serials)            \* every atom kept, exactly once
     /\ PosOfKind(items, "other") = <<>>
     /\ NestingOK(items)
     /\ Len(bp) = Cardinality(rotS)                                        \* one branch per rotatable bond
     /\ {{items[bp[k]][2], items[bp[k]][3]} : k \in 1..Len(bp)} = rotS
     /\ \A k \in 1..Len(bp) :                                              \* BRANCH a b: a is written, b comes next
          /\ bp[k] < Len(items) /\ items[bp[k] + 1] = <<"atom", items[bp[k]][3], 0>>
          /\ \E q \in 1..(bp[k] - 1) : items[q] = <<"atom", items[bp[k]][2], 0>>
     /\ (IF useRoot THEN /\ Len(rp) = 1 /\ Len(ep) = 1 /\ rp[1] = 1 /\ ep[1] > 2
                         /\ \A q \in 2..(ep[1] - 1) : items[q][1] = "atom"
                    ELSE rp = <<>> /\ ep = <<>>)
     /\ (IF torsdof THEN tp = <<Len(items)>> /\ items[Len(items)][2] = Cardinality(rotS) ELSE tp = <<>>))

(* ------------------------------------------------------------------ the writer *)
PqNamesOK(S) ==                                   \* the three documented refusals (all atoms handed over)
  \A k \in 1..PqN(S) : Len(S.atoms[k].chain) <= 1 /\ Len(S.atoms[k].resn) <= 3 /\ Len(S.atoms[k].name) <= 4
PqFieldsFit(S, kept) == \A p \in 1..Len(kept) : FitsAll(PqLayout, PqVals(S, kept, p))
RotAsSerials(S, kept, rot) == {{PqSerial(S, kept, rot[k][1] + 1), PqSerial(S, kept, rot[k][2] + 1)} : k \in 1..Len(rot)}
KeptSerials(S, kept) == [p \in 1..Len(kept) |-> PqSerial(S, kept, p)]

PqRejected == [oc |-> "Rejected", lines |-> <<>>, mask |-> <<>>]
(* the requirement *)
WritePq(S) ==
  Bind(PqKept(S), LAMBDA kept :
    IF ~PqNamesOK(S) \/ PqBadH(S) \/ (UseRoot(S) /\ ~RootValid(S, kept)) \/ ~PqFieldsFit(S, kept) THEN PqRejected
    ELSE Bind(PqKBonds(S, kept), LAMBDA E :
         Bind(DeclRot(S, kept, E), LAMBDA rot :
         Bind(PqLinesFor(S, kept, E, rot, IF UseRoot(S) THEN RootIdx(S, kept) ELSE 0, UseRoot(S)), LAMBDA ls :
           IF PqTreeOK(ls, KeptSerials(S, kept), RotAsSerials(S, kept, rot), UseRoot(S), S.o.torsdof)
             THEN [oc |-> "ok", lines |-> ls, mask |-> PqMask(S)]
             ELSE PqRejected))))
(* the writer as implemented: no width check of the numbers and the insertion code, `root` always
   evaluated, rotatable_bonds = BondList(...) fails (no attribute ndim / ambiguous truth value) *)
ImplWritePq(S) ==
  Bind(PqKept(S), LAMBDA kept :
    IF ~PqNamesOK(S) \/ PqBadH(S) \/ ~RootValid(S, kept) \/ S.o.rot = "list" THEN PqRejected
    ELSE Bind(PqKBonds(S, kept), LAMBDA E :
         Bind(ImplRot(S, kept, E), LAMBDA rot :
           [oc |-> "ok", lines |-> PqLinesFor(S, kept, E, rot, RootIdx(S, kept), UseRoot(S)), mask |-> PqMask(S)])))

(* ------------------------------------------------------------------ known-bad inputs *)
KB_PqNumber(S) ==                                  \* a number wider than its columns
  LET kept == PqKept(S) IN
  \E p \in 1..Len(kept) : \E f \in {"serial", "resSeq", "x", "y", "z", "charge"} :
     LET fld == PqLayout[CHOOSE k \in DOMAIN PqLayout : PqLayout[k].name = f] IN
     ~Fits(PqVals(S, kept, p)[f], Width(fld))
KB_PqIcode(S) == LET kept == PqKept(S) IN \E p \in 1..Len(kept) : Len(S.atoms[kept[p] + 1].icode) > 1
KB_PqRotList(S) == S.o.rot = "list"
KB_PqRootNoRot(S) == S.o.rot = "none" /\ S.o.root # <<>>
(* a rotatable bond on a cycle (only through `root` or an explicit list): atoms are written twice *)
KB_PqCutCycle(S) ==
  LET kept == PqKept(S)  E == PqKBonds(S, kept) IN
  RootValid(S, kept) /\ \E p \in SeqToSet(ImplRot(S, kept, E)) : OnCycle(SeqToSet(PairsOf(E)), p)
(* atoms that no bond connects to the root atom are not written when there are rotatable bonds *)
KB_PqDisconnected(S) ==
  LET kept == PqKept(S)  E == PqKBonds(S, kept) IN
  RootValid(S, kept) /\ Len(ImplRot(S, kept, E)) > 0
    /\ ReachSet(SeqToSet(PairsOf(E)), RootIdx(S, kept)) # 0..(Len(kept) - 1)
PqKB(S) ==
  (IF KB_PqNumber(S) THEN {"PqNumber"} ELSE {}) \cup (IF KB_PqIcode(S) THEN {"PqIcode"} ELSE {}) \cup
  (IF KB_PqRotList(S) THEN {"PqRotList"} ELSE {}) \cup (IF KB_PqRootNoRot(S) THEN {"PqRootNoRot"} ELSE {}) \cup
  (IF KB_PqCutCycle(S) THEN {"PqCutCycle"} ELSE {}) \cup (IF KB_PqDisconnected(S) THEN {"PqDisconnected"} ELSE {})

(* ------------------------------------------------------------------ domain predicates *)
Dom_PqTexts(S) == \A k \in 1..PqN(S) :
  LET a == S.atoms[k] IN ~HasBlank(a.name) /\ ~HasBlank(a.resn) /\ ~HasBlank(a.chain) /\ ~HasBlank(a.icode) /\ ~HasBlank(a.elem)
Dom_PqBonds(S) == /\ NoDup(PairsOf(S.bonds))
                  /\ \A k \in 1..Len(S.bonds) : 0 <= S.bonds[k][1] /\ S.bonds[k][1] < S.bonds[k][2] /\ S.bonds[k][2] < PqN(S)
(* serial numbers identify the atoms (BRANCH records, order of the atoms read back) *)
Dom_PqSerials(S) == ~S.o.ids \/ NoDup([k \in 1..PqN(S) |-> S.atoms[k].serial])
Dom_PqOptions(S) ==
  /\ (S.o.types = <<>> \/ (Len(S.o.types[1]) = PqN(S) /\ \A k \in 1..PqN(S) : Len(S.o.types[1][k]) \in 1..2 /\ ~HasBlank(S.o.types[1][k])))
  /\ (S.o.root = <<>> \/ S.o.root[1] \in 0..(PqN(S) - 1))
  /\ (S.o.rot = "list" \/ S.o.rotlist = <<>>)
  /\ \A k \in 1..Len(S.o.rotlist) : NormPair(S.o.rotlist[k][1], S.o.rotlist[k][2]) \in SeqToSet(PairsOf(S.bonds))
Dom_Pq(S) == PqN(S) >= 1 /\ Len(S.xyz) = PqN(S) /\ Dom_PqTexts(S) /\ Dom_PqBonds(S) /\ Dom_PqSerials(S) /\ Dom_PqOptions(S)

(* ------------------------------------------------------------------ the reader *)
PqKind(l) ==
  IF StartsWith(l, TMODEL) THEN "MODEL"
  ELSE IF StartsWith(l, TATOM) \/ StartsWith(l, THETATM) THEN "ATOM"
  ELSE IF StartsWith(l, TREMARK) THEN "REMARK"
  ELSE "OTHER"
PqKinds(lines) == [k \in 1..Len(lines) |-> PqKind(lines[k])]
KindPos(kinds, kind) == SelectSeq(Idx(Len(kinds)), LAMBDA k : kinds[k] = kind)

ReadPqAtom(l) ==
  LET x == LJust(l, 80)
      ser == ParseInt(Cols(x, 7, 11))   rsq == ParseInt(Cols(x, 23, 26))
      px == ParseFixed(Cols(x, 31, 38), 3)  py == ParseFixed(Cols(x, 39, 46), 3)  pz == ParseFixed(Cols(x, 47, 54), 3)
  IN [ok |-> Len(l) >= 54 /\ ser.ok /\ rsq.ok /\ px.ok /\ py.ok /\ pz.ok /\ ~(px.nan \/ py.nan \/ pz.nan),
      serial |-> ser.val,
      het |-> Cols(x, 1, 4) # TATOM,
      name |-> Strip(Cols(x, 13, 16)), resn |-> Strip(Cols(x, 18, 20)), chain |-> Strip(Cols(x, 22, 22)),
      resi |-> rsq.val, icode |-> Strip(Cols(x, 27, 27)),
      elem |-> Strip(Cols(x, 78, 79)),           \* the atom type, where the writer (and AutoDock) put it
      elemImpl |-> Strip(Cols(x, 77, 78)),       \* the columns get_structure() reads: line[76:78]
      xyz |-> <<px.units, py.units, pz.units>>]
PqAnnot(r) == [het |-> r.het, name |-> r.name, resn |-> r.resn, chain |-> r.chain, resi |-> r.resi,
               icode |-> r.icode, elem |-> r.elem, elemImpl |-> r.elemImpl]

(* model k holds the lines from its MODEL record up to the next one; without MODEL records the file is one model *)
PqStarts(kinds) == LET ms == KindPos(kinds, "MODEL") IN IF ms = <<>> THEN <<1>> ELSE ms
ModelStop(st, k, nlines) == IF k < Len(st) THEN st[k + 1] - 1 ELSE nlines
InModel(st, k, nlines, pos) == SelectSeq(pos, LAMBDA p : st[k] <= p /\ p <= ModelStop(st, k, nlines))
(* "sort into the original atom order": by serial number (equal numbers keep their order) *)
SerialOrder(rows) == SetToSortSeq(1..Len(rows), LAMBDA p, q : rows[p].serial < rows[q].serial
                                                               \/ (rows[p].serial = rows[q].serial /\ p < q))

PqReadRejected == [oc |-> "Rejected", nmodels |-> 0, atoms |-> <<>>, coords |-> <<>>]
ReadPq(lines, sel) ==
  Bind(Eval(PqKinds(lines)), LAMBDA kinds :
  Bind(Eval(PqStarts(kinds)), LAMBDA st :
  Bind(Eval(KindPos(kinds, "ATOM")), LAMBDA ap :
  LET NM == Len(st)   nl == Len(lines)
      Rows(pos) == Eval([i \in 1..Len(pos) |-> ReadPqAtom(lines[pos[i]])])
  IN IF sel = <<>> THEN
       Bind(Eval([k \in 1..NM |-> InModel(st, k, nl, ap)]), LAMBDA per :
       IF (\E k \in 1..NM : Len(per[k]) # Len(per[1])) \/ (\E p \in SeqToSet(ap) : p < st[1]) THEN PqReadRejected
       ELSE Bind(Eval([k \in 1..NM |-> Rows(per[k])]), LAMBDA rows :
            IF \E k \in 1..NM : \E i \in 1..Len(per[1]) : ~rows[k][i].ok THEN PqReadRejected
            ELSE Bind(Eval(SerialOrder(rows[1])), LAMBDA ord :
                 [oc |-> "ok", nmodels |-> NM,
                  atoms |-> [i \in 1..Len(ord) |-> PqAnnot(rows[1][ord[i]])],
                  coords |-> [k \in 1..NM |-> [i \in 1..Len(ord) |-> rows[k][ord[i]].xyz]]])))
     ELSE LET k == IF sel[1] < 0 THEN NM + sel[1] + 1 ELSE sel[1] IN
          IF k < 1 \/ k > NM THEN PqReadRejected
          ELSE Bind(Rows(InModel(st, k, nl, ap)), LAMBDA rows :
               IF \E i \in 1..Len(rows) : ~rows[i].ok THEN PqReadRejected
               ELSE Bind(Eval(SerialOrder(rows)), LAMBDA ord :
                    [oc |-> "ok", nmodels |-> 1,
                     atoms |-> [i \in 1..Len(ord) |-> PqAnnot(rows[ord[i]])],
                     coords |-> << [i \in 1..Len(ord) |-> rows[ord[i]].xyz] >>])))))

(* get_remarks(): the REMARK lines of a model without their first seven characters, joined by line breaks *)
RemarkText(lines, pos) == JoinWith([i \in 1..Len(pos) |-> SubSeq(lines[pos[i]], 8, Len(lines[pos[i]]))], <<NL>>)
PqRemarks(lines, sel) ==
  LET kinds == PqKinds(lines)
      st == PqStarts(kinds)   NM == Len(st)   rp == KindPos(kinds, "REMARK")   nl == Len(lines)
  IN IF sel = <<>> THEN [oc |-> "ok", val |-> [k \in 1..NM |-> RemarkText(lines, InModel(st, k, nl, rp))]]
     ELSE LET k == IF sel[1] < 0 THEN NM + sel[1] + 1 ELSE sel[1] IN
          IF k < 1 \/ k > NM THEN [oc |-> "Rejected", val |-> <<>>]
          ELSE [oc |-> "ok", val |-> <<RemarkText(lines, InModel(st, k, nl, rp))>>]

(* ------------------------------------------------------------------ the structure as the format holds it *)
(* atoms kept, ordered by serial number; the element column holds the AutoDock atom type *)
PqAbstract(S) ==
  LET kept == PqKept(S)
      ord == SetToSortSeq(1..Len(kept), LAMBDA p, q : PqSerial(S, kept, p) < PqSerial(S, kept, q))
      A(p) == S.atoms[kept[p] + 1]
  IN [oc |-> "ok", nmodels |-> 1,
      atoms |-> [i \in 1..Len(ord) |->
                   [het |-> A(ord[i]).het, name |-> A(ord[i]).name, resn |-> A(ord[i]).resn, chain |-> A(ord[i]).chain,
                    resi |-> A(ord[i]).resi, icode |-> A(ord[i]).icode, elem |-> PqTypeOf(S, kept[ord[i]])]],
      coords |-> << [i \in 1..Len(ord) |-> S.xyz[kept[ord[i]] + 1]] >>]
DropImpl(r) == [oc |-> r.oc, nmodels |-> r.nmodels, coords |-> r.coords,
                atoms |-> [i \in 1..Len(r.atoms) |-> [het |-> r.atoms[i].het, name |-> r.atoms[i].name, resn |-> r.atoms[i].resn,
                                                      chain |-> r.atoms[i].chain, resi |-> r.atoms[i].resi,
                                                      icode |-> r.atoms[i].icode, elem |-> r.atoms[i].elem]]]

(* ------------------------------------------------------------------ everything the checks compare *)
PqExpect(S) ==
  Bind(WritePq(S), LAMBDA w :
    [oc |-> w.oc, lines |-> w.lines, mask |-> w.mask, kb |-> PqKB(S), dom |-> Dom_Pq(S),
     back |-> IF w.oc = "ok" THEN ReadPq(w.lines, <<1>>) ELSE PqReadRejected,
     backAll |-> IF w.oc = "ok" THEN ReadPq(w.lines, <<>>) ELSE PqReadRejected])

(* files of several models, as docking programs write them: MODEL k / REMARK ... / records / ENDMDL *)
PqAssemble(parts) ==
  Flat([k \in 1..Len(parts) |->
          <<TMODEL \o SP \o IntText(k)>> \o [r \in 1..Len(parts[k].remarks) |-> TREMARK \o SP \o parts[k].remarks[r]]
            \o parts[k].lines \o <<TENDMDL>>])
PqReadExpect(lines, M) ==
  [lines |-> lines,
   all |-> ReadPq(lines, <<>>), rall |-> PqRemarks(lines, <<>>),
   sel |-> [q \in 1..(2 * M + 3) |-> ReadPq(lines, <<q - M - 2>>)],
   rsel |-> [q \in 1..(2 * M + 3) |-> PqRemarks(lines, <<q - M - 2>>)]]

(* ------------------------------------------------------------------ S1 statements *)
PqRoundTripOK(S, e) ==
  (e.oc = "ok" /\ Dom_PqTexts(S) /\ Dom_PqSerials(S)) =>
     /\ DropImpl(e.back) = PqAbstract(S)
     /\ DropImpl(e.backAll) = PqAbstract(S)
PqColumnsOK(S, e) ==
  e.oc = "ok" =>
     LET kept == PqKept(S)
         al == SelectSeq(e.lines, LAMBDA l : PqKind(l) = "ATOM")
     IN /\ Len(al) = Len(kept)
        /\ \A k \in 1..Len(al) :
             \E p \in 1..Len(kept) : InColumns(al[k], PqLayout, PqVals(S, kept, p), PqLen)
(* the implemented writer agrees with the requirement except on the known-bad inputs *)
PqAcceptanceOK(S, e) ==
  Bind(ImplWritePq(S), LAMBDA w :
    /\ ((w.oc # e.oc \/ w.lines # e.lines) => PqKB(S) # {})
    /\ ((e.oc = "Rejected" /\ w.oc = "ok") => (PqKB(S) \cap {"PqNumber", "PqIcode", "PqCutCycle", "PqDisconnected"}) # {})
    /\ ((e.oc = "ok" /\ w.oc = "Rejected") => (PqKB(S) \cap {"PqRotList", "PqRootNoRot"}) # {}))
PqMaskOK(S, e) == e.oc = "ok" => (Len(e.mask) = PqN(S) /\ Len(SelectSeq(e.mask, LAMBDA b : b)) = Len(e.back.atoms))

(* ------------------------------------------------------------------ pinned example (class docstring) *)
PBase == [het |-> TRUE, serial |-> 1, name |-> T("C11"), resn |-> T("BTN"), chain |-> <<>>, resi |-> 0,
          icode |-> <<>>, elem |-> TC, q |-> 258]
POpt == [ids |-> FALSE, rot |-> "none", rotlist |-> <<>>, root |-> <<>>, torsdof |-> TRUE, types |-> <<>>]
ASSUME WritePq([atoms |-> <<PBase>>, xyz |-> << <<5089, -280, 173>> >>, bonds |-> <<>>, o |-> POpt]).lines =
         << T("HETATM    1 C11  BTN     0       5.089  -0.280   0.173  1.00  0.00     0.258 C "), T("TORSDOF 0") >>
ASSUME BranchLine(TBRANCH, 1, 3) = T("BRANCH   1   3") /\ BranchLine(TENDBRANCH, 7, 1000) = T("ENDBRANCH   7 1000")
ASSUME FindRotatable(<< <<0, 1, 1>>, <<1, 2, 1>>, <<2, 3, 1>>, <<1, 4, 2>> >>) = << <<1, 2>> >>
ASSUME OnCycle({<<0, 1>>, <<1, 2>>, <<0, 2>>}, <<0, 1>>) /\ ~OnCycle({<<0, 1>>, <<1, 2>>}, <<0, 1>>)
=============================================================================
