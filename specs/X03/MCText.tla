------------------------------- MODULE MCText -------------------------------
(* X03: TextFile objects as a state machine -- one action per public call.
     obj[s]   the object in slot s: live, and its lines
     disk[d]  file d: exists, and its text
     want[d]  ghost: the lines a reader has to find in file d
     ret      what the last call returned
   Calls: new / set (a format's setter fills `lines`) / append (lines edited in place) /
   write (to a path or to an open handle) / read (from a path or a handle) / copy / str /
   write_iter / read_iter.  copy() must give an object that later edits of the original do not
   reach (the model's slots hold values, so any sharing in the implementation shows up when the
   transitions are replayed). *)
EXTENDS TextFileOps, TLC

CONSTANTS Slots, Files, Depth, MaxLines

VARIABLES obj, disk, want, ret
vars == <<obj, disk, want, ret>>

LineLists == { <<>>, <<T("a")>>, <<T("a"), <<>>>>, << <<>>, T(" b ")>> }
NewLines == { T("c"), <<>> }
Hows == {"path", "handle"}

AllCalls ==
       {<<"new", s>> : s \in Slots}
  \cup {<<"set", s, L>> : s \in Slots, L \in LineLists}
  \cup {<<"append", s, l>> : s \in Slots, l \in NewLines}
  \cup {<<"write", s, d, h>> : s \in Slots, d \in Files, h \in Hows}
  \cup {<<"read", s, d, h>> : s \in Slots, d \in Files, h \in Hows}
  \cup {<<"copy", s, t>> : s \in Slots, t \in Slots}
  \cup {<<"str", s>> : s \in Slots}
  \cup {<<"writeiter", d, L>> : d \in Files, L \in LineLists}
  \cup {<<"readiter", d>> : d \in Files}

Dead == [live |-> FALSE, lines |-> <<>>]
NoFile == [exists |-> FALSE, text |-> <<>>]

Init == /\ obj = [s \in Slots |-> Dead] /\ disk = [d \in Files |-> NoFile]
        /\ want = [d \in Files |-> <<>>] /\ ret = TFNone

Cur == [obj |-> obj, disk |-> disk, want |-> want]
Call(c) ==
  /\ (c[1] = "append" => Len(obj[c[2]].lines) < MaxLines)
  /\ LET r == TFApply(Cur, c) IN
     r.en /\ obj' = r.obj /\ disk' = r.disk /\ want' = r.want /\ ret' = r.ret

Next == \E c \in AllCalls : Call(c)
Spec == Init /\ [][Next]_vars

DepthBound == TLCGet("level") <= Depth

(* TextFile read / write keeps lines: whatever is on disk reads back as the lines written last *)
InvKept == \A d \in Files : disk[d].exists => SplitLines(disk[d].text) = want[d]
InvLinesClean == \A s \in Slots : \A k \in 1..Len(obj[s].lines) : Dom_Line(obj[s].lines[k])
(* the two laws over every line list of the model *)
ASSUME \A L \in LineLists : Kept(L) /\ KeptIter(L)
=============================================================================
