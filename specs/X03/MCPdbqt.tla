------------------------------- MODULE MCPdbqt -------------------------------
(* X03, S1 for PDBQT files.
   kind "w":   one set_structure call -- single atoms whose fields run through the boundary classes
               of their columns, every element class of convert_atoms, and small molecules (chain,
               ring, aromatic ring, hydrogen cases, disconnected ion) under all rotatable_bonds /
               root / include_torsdof / atom_id / atom_types options.
   kind "asm": files of several models (MODEL / REMARK / records / ENDMDL) assembled from written
               parts, read by get_structure(model) and get_remarks(model).
   Per input: inp, out = PqExpect(inp.S) / PqReadExpect(lines) once done. *)
EXTENDS PdbqtFile, TLC

CONSTANT Rich

VARIABLES inp, out, done
vars == <<inp, out, done>>

Atom(nm, el, q) == [het |-> TRUE, serial |-> 0, name |-> nm, resn |-> T("LIG"), chain |-> T("A"), resi |-> 1,
                    icode |-> <<>>, elem |-> el, q |-> q]
Opt(r, rl, rt, td) == [ids |-> FALSE, rot |-> r, rotlist |-> rl, root |-> rt, torsdof |-> td, types |-> <<>>]
Line3(n) == [k \in 1..n |-> <<1000 * (k - 1), 0, 0>>]
Mol(as, bs, o) == [atoms |-> as, xyz |-> Line3(Len(as)), bonds |-> bs, o |-> o]
WithSerials(as, ser) == [k \in 1..Len(as) |-> [as[k] EXCEPT !.serial = ser[k]]]

(* ---- single atoms *)
OneAtom(a, c) == [atoms |-> <<a>>, xyz |-> <<c>>, bonds |-> <<>>, o |-> POpt]
OneIds(a) == [atoms |-> <<a>>, xyz |-> << <<0, 0, 0>> >>, bonds |-> <<>>, o |-> [POpt EXCEPT !.ids = TRUE]]
At(ax, v) == [j \in 1..3 |-> IF j = ax THEN v ELSE 0]
ResiClasses == {0, 1, -1, -999, -1000, 9999, 10000}
SerialClasses == {1, 0, -1, -9999, -10000, 99999, 100000}
CoordClasses == {0, 1, -1, 5089, -280, 9999999, 10000000, -999999, -1000000}
ChargeClasses == {0, 258, -264, 5, -5, 9999, 10000, -9999, -10000, 99999, 100000}
ElemClasses == {T("C"), T("N"), T("O"), T("S"), T("H"), T("P"), T("F"), T("CL"), T("BR"), T("I"), T("MG"),
                T("CA"), T("MN"), T("FE"), T("ZN"), T("XX"), <<>>, T("Cl"), T("h"), T("SE")}
SingleAtoms ==
       {OneAtom([PBase EXCEPT !.resi = v], <<0, 0, 0>>) : v \in ResiClasses}
  \cup {OneIds([PBase EXCEPT !.serial = v]) : v \in SerialClasses}
  \cup {OneAtom(PBase, At(ax, v)) : ax \in 1..3, v \in CoordClasses}
  \cup {OneAtom([PBase EXCEPT !.q = v], <<0, 0, 0>>) : v \in ChargeClasses}
  \cup {OneAtom([PBase EXCEPT !.elem = v], <<0, 0, 0>>) : v \in ElemClasses}
  \cup {OneAtom([PBase EXCEPT !.name = n, !.het = h], <<0, 0, 0>>) : n \in {<<>>, T("C"), T("HD11"), T("ABCDE")}, h \in BOOLEAN}
  \cup {OneAtom([PBase EXCEPT !.resn = n], <<0, 0, 0>>) : n \in {<<>>, T("A"), T("ABCD")}}
  \cup {OneAtom([PBase EXCEPT !.chain = ch, !.icode = ic, !.resi = r], <<0, 0, 0>>) :
          ch \in {<<>>, T("A"), T("AB")}, ic \in {<<>>, T("B"), T("AB")}, r \in {1, 1234}}

(* ---- molecules *)
\* ethanol-like: C1-C2-O1-HO, one hydrogen on each carbon (removed, charge moved)
Eth == <<Atom(T("C1"), TC, 100), Atom(T("C2"), TC, 200), Atom(T("O1"), T("O"), -300), Atom(T("HO"), TH, 400),
         Atom(T("H1"), TH, 50), Atom(T("H2"), TH, 7)>>
EthB == << <<0, 1, 1>>, <<1, 2, 1>>, <<2, 3, 1>>, <<0, 4, 1>>, <<1, 5, 1>> >>
\* branched chain, bonds listed in an odd order
Chn == <<Atom(T("C1"), TC, 0), Atom(T("C2"), TC, 10), Atom(T("C3"), TC, 20), Atom(T("O1"), T("O"), -30),
         Atom(T("N1"), T("N"), -40), Atom(T("C4"), TC, 50)>>
ChnB == << <<2, 3, 1>>, <<1, 2, 1>>, <<0, 1, 1>>, <<1, 4, 1>>, <<4, 5, 1>> >>
\* three-ring with a two-atom tail; C3-O1 is the only rotatable bond
Rng == <<Atom(T("C1"), TC, 0), Atom(T("C2"), TC, 0), Atom(T("C3"), TC, 0), Atom(T("O1"), T("O"), 0), Atom(T("C5"), TC, 0)>>
RngB == << <<0, 1, 1>>, <<1, 2, 1>>, <<0, 2, 1>>, <<2, 3, 1>>, <<3, 4, 1>> >>
\* aromatic bond types 5, 6 (typed "A") and 7, 9 (not in the implemented list), double bond in the middle
Aro == <<Atom(T("C1"), TC, 0), Atom(T("C2"), TC, 0), Atom(T("C3"), TC, 0), Atom(T("C4"), TC, 0), Atom(T("C5"), TC, 0),
         Atom(T("C6"), TC, 0)>>
AroB == << <<0, 1, 5>>, <<1, 2, 6>>, <<2, 3, 2>>, <<3, 4, 9>>, <<4, 5, 7>> >>
\* chain plus an ion that no bond connects
Dis == <<Atom(T("C1"), TC, 0), Atom(T("C2"), TC, 0), Atom(T("O1"), T("O"), 0), Atom(T("C3"), TC, 0), Atom(T("NA"), T("NA"), 1000)>>
DisB == << <<0, 1, 1>>, <<1, 2, 1>>, <<2, 3, 1>> >>
\* hydrogen cases: free proton, polar hydrogen, hydrogen on carbon, hydrogen bound to hydrogen
Hyd == <<Atom(T("H0"), TH, 1000), Atom(T("O1"), T("O"), -500), Atom(T("HO"), TH, 250), Atom(T("C1"), TC, 10),
         Atom(T("HC"), TH, 20), Atom(T("HA"), TH, 1), Atom(T("HB"), TH, 2)>>
HydB == << <<1, 2, 1>>, <<1, 3, 1>>, <<3, 4, 1>>, <<5, 6, 1>> >>
\* amine: hydrogen on nitrogen stays (HD), hydrogen on the neighbouring carbon goes
Amn == <<Atom(T("C1"), TC, 10), Atom(T("N1"), T("N"), -20), Atom(T("HN"), TH, 30), Atom(T("C2"), TC, 40), Atom(T("HC"), TH, 5)>>
AmnB == << <<0, 1, 1>>, <<1, 2, 1>>, <<1, 3, 1>>, <<3, 4, 1>> >>
BadH == << <<1, 2, 1>>, <<2, 3, 1>> >>                  \* HO between O1 and C1: two bonds

Molecules == { <<Eth, EthB>>, <<Chn, ChnB>>, <<Rng, RngB>>, <<Aro, AroB>>, <<Dis, DisB>>, <<Hyd, HydB>>, <<Amn, AmnB>> }
RotModes == {"none", "rigid", "all"}
Roots(n) == {<<>>} \cup {<<r>> : r \in 0..(n - 1)}
MolInputs ==
       {Mol(m[1], m[2], Opt(r, <<>>, rt, TRUE)) : m \in Molecules, r \in RotModes,
                                                 rt \in {<<>>, <<0>>, <<1>>, <<2>>, <<4>>}}
  \cup {Mol(m[1], m[2], Opt("list", << <<m[2][2][1], m[2][2][2]>> >>, <<>>, TRUE)) : m \in Molecules}
  \cup {Mol(Chn, ChnB, Opt("list", << <<2, 1>>, <<1, 4>> >>, rt, TRUE)) : rt \in {<<>>, <<2>>}}
  \cup {Mol(Hyd, BadH, Opt(r, <<>>, <<>>, TRUE)) : r \in {"none", "all"}}
  \cup {Mol(m[1], m[2], Opt(r, <<>>, <<>>, FALSE)) : m \in {<<Eth, EthB>>, <<Chn, ChnB>>}, r \in RotModes}
  \cup {[Mol(WithSerials(Eth, <<10, 20, 5, 7, 1, 2>>), EthB, Opt(r, <<>>, rt, TRUE)) EXCEPT !.o.ids = TRUE] :
          r \in RotModes, rt \in {<<>>, <<2>>}}
  \cup {[Mol(WithSerials(Chn, <<995, 996, 997, 998, 999, 1000>>), ChnB, Opt("all", <<>>, rt, TRUE)) EXCEPT !.o.ids = TRUE] :
          rt \in {<<>>, <<4>>}}
  \cup {[Mol(Eth, EthB, Opt(r, <<>>, <<>>, TRUE)) EXCEPT !.o.types = << <<T("A1"), T("C"), T("X"), T("HD"), T("Q"), T("Z9")>> >>] :
          r \in {"none", "all"}}
  \cup (IF Rich
          THEN UNION {{Mol(m[1], m[2], Opt(r, <<>>, rt, td)) : r \in RotModes, rt \in Roots(Len(m[1])), td \in BOOLEAN} : m \in Molecules}
               \cup {Mol(m[1], m[2], Opt("list", << <<m[2][k][1], m[2][k][2]>> >>, rt, TRUE)) :
                       m \in {<<Chn, ChnB>>, <<Rng, RngB>>}, k \in 1..5, rt \in {<<>>, <<0>>}}
          ELSE {})

(* ---- assembled files *)
Two(ser, x) == [Mol(WithSerials(<<Atom(T("C1"), TC, 0), Atom(T("O1"), T("O"), 0)>>, ser), << <<0, 1, 1>> >>, Opt("none", <<>>, <<>>, FALSE))
                  EXCEPT !.o.ids = TRUE, !.xyz = << <<x, 0, 0>>, <<x + 1000, 5, -5>> >>]
Three == Mol(<<Atom(T("C1"), TC, 0), Atom(T("O1"), T("O"), 0), Atom(T("N1"), T("N"), 0)>>, << <<0, 1, 1>>, <<1, 2, 1>> >>,
             Opt("rigid", <<>>, <<>>, TRUE))
Part(S, rem) == [lines |-> WritePq(S).lines, remarks |-> rem]
RemarkSets == { <<>>, <<T("VINA RESULT: -5.0")>>, <<T("VINA RESULT: -5.0"), T(" second"), <<>>>> }
AsmInputs ==
       {<<Part(Two(<<2, 1>>, 0), r1)>> : r1 \in RemarkSets}
  \cup {<<Part(Two(<<2, 1>>, 0), r1), Part(Two(<<2, 1>>, 7000), r2)>> : r1 \in RemarkSets, r2 \in RemarkSets}
  \cup {<<Part(Two(<<1, 2>>, 0), <<>>), Part(Two(<<1, 2>>, 500), <<T("x")>>), Part(Two(<<1, 2>>, -500), <<>>)>>}
  \cup {<<Part(Two(<<1, 2>>, 0), <<>>), Part(Three, <<>>)>>, <<Part(Three, <<T("a")>>), Part(Two(<<1, 2>>, 0), <<>>)>>}
  \cup {<<Part(Three, <<T("a")>>), Part(Three, <<>>)>>}

Dummy == OneAtom(PBase, <<0, 0, 0>>)
Inputs ==
       {[kind |-> "w", S |-> s, parts |-> <<>>] : s \in SingleAtoms \cup MolInputs}
  \cup {[kind |-> "asm", S |-> Dummy, parts |-> p] : p \in AsmInputs}

Init == inp \in Inputs /\ out = <<>> /\ done = FALSE
Next == /\ ~done /\ done' = TRUE /\ UNCHANGED inp
        /\ out' = IF inp.kind = "w" THEN PqExpect(inp.S) ELSE PqReadExpect(PqAssemble(inp.parts), Len(inp.parts))
Spec == Init /\ [][Next]_vars

IsW == done /\ inp.kind = "w"
InvDomain == inp.kind = "w" => Dom_Pq(inp.S)
InvRoundTrip == IsW => PqRoundTripOK(inp.S, out)
InvColumns == IsW => PqColumnsOK(inp.S, out)
InvAcceptance == IsW => PqAcceptanceOK(inp.S, out)
InvMask == IsW => PqMaskOK(inp.S, out)
(* reading whole files: model k of the stack = get_structure(model=k); models of unequal length are refused *)
InvAsm == (done /\ inp.kind = "asm") =>
  LET M == Len(inp.parts) IN
  /\ (out.all.oc = "ok" <=> \A k \in 1..M : Len(out.sel[k + M + 2].atoms) = Len(out.sel[M + 3].atoms))
  /\ \A k \in 1..M : out.sel[k + M + 2].oc = "ok" /\ out.sel[k + M + 2] = out.sel[k + 1]          \* k and k - M - 1
  /\ out.sel[1].oc = "Rejected" /\ out.sel[M + 2].oc = "Rejected" /\ out.sel[2 * M + 3].oc = "Rejected"
  /\ (out.all.oc = "ok" => /\ out.all.nmodels = M /\ out.all.atoms = out.sel[M + 3].atoms
                           /\ \A k \in 1..M : out.all.coords[k] = out.sel[k + M + 2].coords[1])
  /\ out.rall.val = [k \in 1..M |-> out.rsel[k + M + 2].val[1]]
=============================================================================
