SPECIFICATION Spec
CONSTANTS
  Rich = FALSE
INVARIANT InvDomain
INVARIANT InvRoundTrip
INVARIANT InvColumns
INVARIANT InvAcceptance
INVARIANT InvMask
INVARIANT InvAsm
CHECK_DEADLOCK FALSE
