SPECIFICATION Spec
CONSTANTS
  Slots = {1, 2}
  Files = {1, 2}
  Depth = 6
  MaxLines = 3
CONSTRAINT DepthBound
INVARIANT InvKept
INVARIANT InvLinesClean
CHECK_DEADLOCK FALSE
