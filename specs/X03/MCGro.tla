------------------------------- MODULE MCGro -------------------------------
(* X03, S1 for GRO files: structures whose fields run through the boundary classes of their
   columns (one field at a time around a base atom), name x name and id x id products, and
   whole files (1-3 models, array / stack, no box / diagonal / triclinic / rotated orthogonal /
   zero box, extents).  Rich = TRUE adds the full products.
   Per input: inp = the structure, out = GroFile!GroExpect(inp) once done. *)
EXTENDS GroFile, TLC

CONSTANT Rich

VARIABLES inp, out, done
vars == <<inp, out, done>>

IdClasses == {1, 2, 0, -1, -9999, -10000, 99999, 100000, 100001, 199998, 199999}
ResnClasses == {<<>>, T("A"), T("ALA"), T("ABCDE"), T("ABCDEF")}
NameClasses == {<<>>, T("C"), T("CA"), T("HD11"), T("O5'"), T("ABCDE"), T("ABCDEF")}
(* thousandths of a nm; all inside Dom_GroCoordExact *)
CoordClasses == {0, 1, -1, 5, -5, 150, 12345, -12345, 999999, 1000000, -999999, -1000000,
                 9999000, 10000000, -1000000 - 999000, 123000}

Z3 == <<0, 0, 0>>
At(ax, v) == [j \in 1..3 |-> IF j = ax THEN v ELSE 0]
One(a, c, withIds) == [atoms |-> <<a>>, models |-> << <<c>> >>, negz |-> <<>>, ids |-> withIds, stack |-> FALSE, box |-> <<>>]

A2 == <<GBase, [resi |-> 2, resn |-> T("GLY"), name |-> T("N"), serial |-> 7]>>
C2a == << <<0, 0, 0>>, <<150, 225, 300>> >>
C2b == << <<-100, 50, 0>>, <<100, 50, 20>> >>
C2c == << <<7, 7, 7>>, <<7, 7, 7>> >>                   \* zero extent: "no box" for this model only
ModelSets == {<<C2a>>, <<C2c>>, <<C2a, C2b>>, <<C2c, C2a>>, <<C2c, C2c>>, <<C2a, C2b, C2c>>}
Q(B) == [r \in 1..3 |-> [c \in 1..3 |-> 6250 * B[r][c]]]            \* sixteenths of a nm -> units of the box line
Boxes == { <<>>,
           << Q(<< <<16, 0, 0>>, <<0, 32, 0>>, <<0, 0, 48>> >>) >>,          \* diagonal
           << Q(<< <<16, 0, 0>>, <<8, 32, 0>>, <<-1, 2, 48>> >>) >>,         \* triclinic
           << Q(<< <<16, 4, 2>>, <<8, 32, 6>>, <<-1, 3, 48>> >>) >>,         \* nine different components
           << Q(<< <<0, 32, 0>>, <<16, 0, 0>>, <<0, 0, 48>> >>) >>,          \* orthogonal rows, not diagonal
           << Q(<< <<16, 16, 0>>, <<-16, 16, 0>>, <<0, 0, 48>> >>) >>,       \* rotated by 45 degrees
           << Zero3x3 >>,
           << << <<10000, 0, 0>>, <<0, 123457, 0>>, <<0, 0, 999999>> >> >>,  \* decimal values: 0.1 nm, 1.23457 nm
           << Q(<< <<16000, 0, 0>>, <<0, 1, 0>>, <<0, 0, 161>> >>) >> }      \* 1000 nm: ten characters
File(ms, st, bx, withIds) == [atoms |-> A2, models |-> ms, negz |-> <<>>, ids |-> withIds, stack |-> st, box |-> bx]

Inputs ==
       {One([GBase EXCEPT !.resi = v], Z3, FALSE) : v \in IdClasses}
  \cup {One([GBase EXCEPT !.serial = v], Z3, TRUE) : v \in IdClasses}
  \cup {One([GBase EXCEPT !.resn = r, !.name = n], Z3, FALSE) : r \in ResnClasses, n \in NameClasses}
  \cup {One(GBase, At(ax, v), FALSE) : ax \in 1..3, v \in CoordClasses}
  \cup {File(ms, st, bx, i) : ms \in ModelSets, st \in {TRUE}, bx \in Boxes, i \in {FALSE}}
  \cup {File(ms, FALSE, bx, TRUE) : ms \in {<<C2a>>, <<C2c>>}, bx \in Boxes}
  \cup {[One(GBase, <<0, 0, -5>>, FALSE) EXCEPT !.negz = nz] : nz \in {<< <<1, 1, 1>> >>, << <<1, 1, 2>>, <<1, 1, 3>> >>}}
  \cup {[File(<<C2a, C2b>>, TRUE, <<>>, FALSE) EXCEPT !.negz = << <<1, 1, 1>>, <<2, 1, 3>>, <<2, 2, 3>> >>]}
  \cup (IF Rich
          THEN {One([GBase EXCEPT !.resi = r, !.serial = s], Z3, TRUE) : r \in IdClasses, s \in IdClasses}
               \cup {One(GBase, <<x, y, z>>, FALSE) : x \in CoordClasses, y \in CoordClasses, z \in {0, -999999, 9999000, 10000000}}
               \cup {File(ms, TRUE, bx, TRUE) : ms \in ModelSets, bx \in Boxes}
          ELSE {})

(* files made of several written files, one after the other (models of equal / unequal length) *)
F1(c) == One(GBase, c, FALSE)
F2(ms) == File(ms, FALSE, <<>>, FALSE)
CatInputs == { <<F2(<<C2a>>), F2(<<C2b>>)>>, <<F2(<<C2a>>), F1(<<5, 5, 5>>)>>, <<F1(<<5, 5, 5>>), F2(<<C2a>>)>>,
               <<F1(Z3), F1(<<1, 2, 3>>), F1(<<-1, -2, -3>>)>>, <<F2(<<C2a>>), F2(<<C2b>>), F1(Z3)>>,
               <<File(<<C2a, C2b>>, TRUE, <<>>, FALSE), F2(<<C2c>>)>> }
GroCat(parts) == Flat([k \in 1..Len(parts) |-> WriteGro(parts[k]).lines])
GroCatExpect(parts) ==
  Bind(GroCat(parts), LAMBDA ls :
    [lines |-> ls, all |-> ReadGro(ls, <<>>), kb |-> IF KB_GroUnequal(ls) THEN {"GroUnequal"} ELSE {}])

AllInputs ==
       {[kind |-> "w", S |-> x, parts |-> <<>>] : x \in Inputs}
  \cup {[kind |-> "cat", S |-> F1(Z3), parts |-> p] : p \in CatInputs}

Init == inp \in AllInputs /\ out = <<>> /\ done = FALSE
Next == /\ ~done /\ done' = TRUE /\ UNCHANGED inp
        /\ out' = IF inp.kind = "w" THEN GroExpect(inp.S) ELSE GroCatExpect(inp.parts)
Spec == Init /\ [][Next]_vars

IsW == done /\ inp.kind = "w"
InvDomain == inp.kind = "w" => Dom_Gro(inp.S)
InvRoundTrip == IsW => GroRoundTripOK(inp.S, out)
InvColumns == IsW => GroColumnsOK(inp.S, out)
InvFraming == IsW => GroFramingOK(inp.S, out)
InvAcceptance == IsW => GroAcceptanceOK(inp.S, out)
(* several files in a row are the models of one file iff they have the same number of atoms *)
InvCat == (done /\ inp.kind = "cat") =>
  LET n == [k \in 1..Len(inp.parts) |-> GNAtoms(inp.parts[k]) ]
      equal == \A k \in 1..Len(n) : n[k] = n[1]
  IN /\ (out.all.oc = "ok" <=> equal)
     /\ (out.all.oc = "ok" => out.all.nmodels = FoldLeft(LAMBDA a, k : a + GNModels(inp.parts[k]), 0, Idx(Len(inp.parts))))
     /\ (out.kb # {} => ~equal)
=============================================================================
