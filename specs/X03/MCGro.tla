------------------------------- MODULE MCGro -------------------------------
(* X03, S1 for GRO files: structures whose fields run through the boundary classes of their
   columns (one field at a time around a base atom), name x name and id x id products, and
   whole files (1-3 models, array / stack, no box / diagonal / triclinic / rotated orthogonal /
   zero box, extents).  Rich = TRUE adds the full products.
   Per input: inp = the structure, out = GroFile!GroExpect(inp) once done. *)
EXTENDS GroFile, TLC

CONSTANT Rich

VARIABLES inp, out, done
vars == <<inp, out, done>>

IdClasses == {1, 2, 0, -1, -9999, -10000, 99999, 100000, 100001, 199998, 199999}
ResnClasses == {<<>>, T("A"), T("ALA"), T("ABCDE"), T("ABCDEF")}
NameClasses == {<<>>, T("C"), T("CA"), T("HD11"), T("O5'"), T("ABCDE"), T("ABCDEF")}
(* thousandths of a nm; all inside Dom_GroCoordExact *)
CoordClasses == {0, 1, -1, 5, -5, 150, 12345, -12345, 999999, 1000000, -999999, -1000000,
                 9999000, 10000000, -1000000 - 999000, 123000}

Z3 == <<0, 0, 0>>
At(ax, v) == [j \in 1..3 |-> IF j = ax THEN v ELSE 0]
One(a, c, withIds) == [atoms |-> <<a>>, models |-> << <<c>> >>, ids |-> withIds, stack |-> FALSE, box |-> <<>>]

A2 == <<GBase, [resi |-> 2, resn |-> T("GLY"), name |-> T("N"), serial |-> 7]>>
C2a == << <<0, 0, 0>>, <<150, 225, 300>> >>
C2b == << <<-100, 50, 0>>, <<100, 50, 20>> >>
C2c == << <<7, 7, 7>>, <<7, 7, 7>> >>                   \* zero extent: "no box" for this model only
ModelSets == {<<C2a>>, <<C2c>>, <<C2a, C2b>>, <<C2c, C2a>>, <<C2c, C2c>>, <<C2a, C2b, C2c>>}
Boxes == { <<>>,
           << << <<16, 0, 0>>, <<0, 32, 0>>, <<0, 0, 48>> >> >>,          \* diagonal
           << << <<16, 0, 0>>, <<8, 32, 0>>, <<-1, 2, 48>> >> >>,         \* triclinic
           << << <<0, 32, 0>>, <<16, 0, 0>>, <<0, 0, 48>> >> >>,          \* orthogonal rows, not diagonal
           << << <<16, 16, 0>>, <<-16, 16, 0>>, <<0, 0, 48>> >> >>,       \* rotated by 45 degrees
           << Zero3x3 >>,
           << << <<16000, 0, 0>>, <<0, 1, 0>>, <<0, 0, 161>> >> >> }      \* 1000 nm: ten characters
File(ms, st, bx, withIds) == [atoms |-> A2, models |-> ms, ids |-> withIds, stack |-> st, box |-> bx]

Inputs ==
       {One([GBase EXCEPT !.resi = v], Z3, FALSE) : v \in IdClasses}
  \cup {One([GBase EXCEPT !.serial = v], Z3, TRUE) : v \in IdClasses}
  \cup {One([GBase EXCEPT !.resn = r, !.name = n], Z3, FALSE) : r \in ResnClasses, n \in NameClasses}
  \cup {One(GBase, At(ax, v), FALSE) : ax \in 1..3, v \in CoordClasses}
  \cup {File(ms, st, bx, i) : ms \in ModelSets, st \in {TRUE}, bx \in Boxes, i \in {FALSE}}
  \cup {File(ms, FALSE, bx, TRUE) : ms \in {<<C2a>>, <<C2c>>}, bx \in Boxes}
  \cup (IF Rich
          THEN {One([GBase EXCEPT !.resi = r, !.serial = s], Z3, TRUE) : r \in IdClasses, s \in IdClasses}
               \cup {One(GBase, <<x, y, z>>, FALSE) : x \in CoordClasses, y \in CoordClasses, z \in {0, -999999, 9999000, 10000000}}
               \cup {File(ms, TRUE, bx, TRUE) : ms \in ModelSets, bx \in Boxes}
          ELSE {})

Pending == [oc |-> "pending", lines |-> <<>>, kb |-> {}, dom |-> FALSE, count |-> 0, back |-> GroRejected, sel |-> <<>>]

Init == inp \in Inputs /\ out = Pending /\ done = FALSE
Next == ~done /\ done' = TRUE /\ out' = GroExpect(inp) /\ UNCHANGED inp
Spec == Init /\ [][Next]_vars

InvDomain == Dom_Gro(inp)
InvRoundTrip == done => GroRoundTripOK(inp, out)
InvColumns == done => GroColumnsOK(inp, out)
InvFraming == done => GroFramingOK(inp, out)
InvAcceptance == done => GroAcceptanceOK(inp, out)
=============================================================================
