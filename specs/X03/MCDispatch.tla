------------------------------- MODULE MCDispatch -------------------------------
(* X03, S1 for load_structure / save_structure: every known suffix, odd paths (dots in directory
   names, several dots, leading dots, upper case, no suffix), AtomArray / stacks of 1 and 2 models,
   one keyword at a time for set_structure and get_structure.
   Per input: inp = the case, out = Dispatch!DispExpect(inp) once done. *)
EXTENDS Dispatch, TLC

CONSTANT Rich
VARIABLES inp, out, done
vars == <<inp, out, done>>

Known == {T("x.pdb"), T("x.pdbqt"), T("x.cif"), T("x.pdbx"), T("x.bcif"), T("x.gro"), T("x.mol"), T("x.sdf"), T("x.sd"),
          T("a.tar.gro"), T("d.x/y.pdb"), T("a..gro")}
Unknown == {T(".gro"), T("x.GRO"), T("x.gro."), T("x"), T("d.gro/x"), T("x.npz"), T("..gro"), T("x.Pdb"), T("x.pdb.gz"), T("d.pdb/.cif")}
Traj == {T("x.trr"), T("x.xtc"), T("x.dcd"), T("x.netcdf")}
SaveKw == {{}, {"hybrid36"}, {"include_torsdof"}, {"include_bonds"}, {"version"}, {"answer"}}
LoadKw == {{}, {"model"}, {"extra_fields"}, {"record_name"}, {"start"}}
Case(p, d, s, l, lo) == [path |-> p, depth |-> d, skw |-> s, lkw |-> l, load |-> lo]

Inputs ==
       {Case(p, d, s, {}, FALSE) : p \in Known, d \in 0..2, s \in SaveKw}
  \cup {Case(p, d, {}, l, FALSE) : p \in Known, d \in 0..2, l \in LoadKw}
  \cup {Case(p, 0, {}, {}, FALSE) : p \in Unknown}
  \cup {Case(p, 0, {}, l, TRUE) : p \in Unknown \cup Traj, l \in {{}, {"model"}}}
  \cup (IF Rich THEN {Case(p, d, s, l, FALSE) : p \in Known, d \in 0..2, s \in SaveKw, l \in LoadKw} ELSE {})
Cases == {c \in Inputs : Dom_Disp(c)}

Init == inp \in Cases /\ out = <<>> /\ done = FALSE
Next == ~done /\ done' = TRUE /\ out' = DispExpect(inp) /\ UNCHANGED inp
Spec == Init /\ [][Next]_vars

(* os.path.splitext as implemented = the declarative suffix *)
InvSuffix == SplitExtImpl(inp.path) = SuffixDecl(inp.path)
(* a file that was saved can be loaded with the same function, and the number of models decides the type *)
InvRoundTrip == (done /\ ~inp.load /\ out.save.oc = "ok" /\ inp.lkw = {}) =>
                  /\ out.load.oc = "ok" /\ out.load.worker = out.save.worker
                  /\ (out.load.kind = "stack" <=> inp.depth >= 2)
InvRefusals == (done /\ inp.path \in Unknown) => IF inp.load THEN out.load.oc = "ValueError" ELSE out.save.oc = "ValueError"
=============================================================================
