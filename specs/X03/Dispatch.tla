------------------------------- MODULE Dispatch -------------------------------
(* X03: biotite.structure.io.load_structure / save_structure (src/biotite/structure/io/general.py):
   the file class is chosen by the suffix of the path, keyword arguments are handed to its
   set_structure / get_structure, a single model comes back as AtomArray.

   A path is a text ("/" separates directories).  SplitExtImpl is shaped like os.path.splitext
   (posixpath / genericpath._splitext), SuffixDecl says the same declaratively.
   Options are sets of keyword names; the drivers attach a value to each name. *)
EXTENDS X03Base

(* ------------------------------------------------------------------ the suffix *)
LastIndexOf(p, ch) == IF \E k \in 1..Len(p) : p[k] = ch THEN MaxOf({k \in 1..Len(p) : p[k] = ch}) ELSE 0
(* genericpath._splitext: the last dot after the last separator, unless only dots precede it in the name *)
SplitExtImpl(p) ==
  LET sep == LastIndexOf(p, "/")   dot == LastIndexOf(p, ".") IN
  IF dot > sep /\ \E k \in (sep + 1)..(dot - 1) : p[k] # "." THEN SubSeq(p, dot, Len(p)) ELSE <<>>
BaseName(p) == SubSeq(p, LastIndexOf(p, "/") + 1, Len(p))
SuffixDecl(p) ==
  LET b == BaseName(p) IN
  IF \E d \in 1..Len(b) : b[d] = "." /\ (\A k \in (d + 1)..Len(b) : b[k] # ".") /\ (\E k \in 1..(d - 1) : b[k] # ".")
    THEN LET d == LastIndexOf(b, ".") IN SubSeq(b, d, Len(b))
    ELSE <<>>

FormatOf(sfx) ==
  CASE sfx = T(".pdb") -> "pdb"
    [] sfx = T(".pdbqt") -> "pdbqt"
    [] sfx \in {T(".cif"), T(".pdbx")} -> "cif"
    [] sfx = T(".bcif") -> "bcif"
    [] sfx = T(".gro") -> "gro"
    [] sfx = T(".mol") -> "mol"
    [] sfx \in {T(".sdf"), T(".sd")} -> "sdf"
    [] sfx \in {T(".trr"), T(".xtc"), T(".dcd"), T(".netcdf")} -> "traj"
    [] OTHER -> "unknown"

(* the class (or module-level function) that does the work *)
Worker(fmt) ==
  CASE fmt = "pdb" -> "PDBFile" [] fmt = "pdbqt" -> "PDBQTFile" [] fmt = "cif" -> "CIFFile" [] fmt = "bcif" -> "BinaryCIFFile"
    [] fmt = "gro" -> "GROFile" [] fmt = "mol" -> "MOLFile" [] fmt = "sdf" -> "SDFile" [] OTHER -> "none"

SaveAccepts(fmt) ==
  CASE fmt = "pdb" -> {"hybrid36"}
    [] fmt = "pdbqt" -> {"charges", "atom_types", "rotatable_bonds", "root", "include_torsdof"}
    [] fmt \in {"cif", "bcif"} -> {"data_block", "include_bonds", "extra_fields"}
    [] fmt \in {"mol", "sdf"} -> {"default_bond_type", "version"}
    [] OTHER -> {}
LoadAccepts(fmt) ==
  CASE fmt = "pdb" -> {"model", "altloc", "extra_fields", "include_bonds"}
    [] fmt \in {"pdbqt", "gro"} -> {"model"}
    [] fmt \in {"cif", "bcif"} -> {"model", "data_block", "altloc", "extra_fields", "use_author_fields", "include_bonds"}
    [] fmt = "sdf" -> {"record_name"}
    [] OTHER -> {}
(* formats that hold several models; the others take an AtomArray only *)
MultiModel == {"pdb", "cif", "bcif", "gro"}

(* depth: 0 = AtomArray, d >= 1 = AtomArrayStack of d models *)
NoCall == [oc |-> "none", worker |-> "none", kw |-> {}, kind |-> "none", depth |-> 0]
Save(path, depth, kw) ==
  LET fmt == FormatOf(SplitExtImpl(path)) IN
  IF fmt = "unknown" THEN [NoCall EXCEPT !.oc = "ValueError"]                 \* documented
  ELSE IF ~(kw \subseteq SaveAccepts(fmt)) \/ (depth > 0 /\ fmt \notin MultiModel)
    THEN [NoCall EXCEPT !.oc = "Rejected", !.worker = Worker(fmt), !.kw = kw]
  ELSE [NoCall EXCEPT !.oc = "ok", !.worker = Worker(fmt), !.kw = kw]
ModelsIn(depth) == IF depth = 0 THEN 1 ELSE depth
Load(path, models, kw) ==
  LET fmt == FormatOf(SplitExtImpl(path)) IN
  IF fmt = "unknown" THEN [NoCall EXCEPT !.oc = "ValueError"]                 \* documented
  ELSE IF fmt = "traj" THEN [NoCall EXCEPT !.oc = "TypeError"]                \* documented: no template given
  ELSE IF ~(kw \subseteq LoadAccepts(fmt)) THEN [NoCall EXCEPT !.oc = "Rejected", !.worker = Worker(fmt), !.kw = kw]
  ELSE [oc |-> "ok", worker |-> Worker(fmt), kw |-> kw,
        \* "If the file contains multiple models, an AtomArrayStack is returned, otherwise an AtomArray"
        kind |-> IF "model" \in kw \/ models = 1 \/ fmt \notin MultiModel THEN "array" ELSE "stack",
        depth |-> IF "model" \in kw \/ models = 1 \/ fmt \notin MultiModel THEN 0 ELSE models]

(* a case of the checks: save a structure, then load the file again *)
Dom_Disp(c) ==
  LET fmt == FormatOf(SplitExtImpl(c.path)) IN
  /\ fmt # "traj" \/ c.load                       \* trajectory formats: only the refusal of load_structure
  /\ ~(fmt = "pdbqt" /\ c.depth > 0)               \* PDBQTFile.set_structure: "atoms : AtomArray"
DispExpect(c) ==
  LET sv == IF c.load THEN NoCall ELSE Save(c.path, c.depth, c.skw) IN
  [suffix |-> SplitExtImpl(c.path), save |-> sv,
   load |-> IF c.load \/ sv.oc = "ok" THEN Load(c.path, ModelsIn(c.depth), c.lkw) ELSE NoCall]

ASSUME SplitExtImpl(T("a.tar.gro")) = T(".gro") /\ SplitExtImpl(T(".gro")) = <<>> /\ SplitExtImpl(T("d.gro/x")) = <<>>
ASSUME SplitExtImpl(T("x.gro.")) = T(".") /\ SplitExtImpl(T("..gro")) = <<>> /\ SplitExtImpl(T("a..gro")) = T(".gro")
ASSUME FormatOf(T(".GRO")) = "unknown" /\ FormatOf(T(".pdbx")) = "cif" /\ FormatOf(<<>>) = "unknown"
=============================================================================
