------------------------------- MODULE Trace -------------------------------
(* X03 direction B: executions recorded from the real GROFile / PDBQTFile / TextFile /
   load_structure / save_structure are re-computed by TLC with the operators of GroFile,
   PdbqtFile, TextFileOps and Dispatch.
   TRACE_FILE is a JSON array of traces, a trace an array of events (texts = lists of characters,
   the line break inside a text = "nl", sets = sorted lists):
     {op: "gro",  S, oc, lines, count, back, sel}     set_structure -> write -> read -> get_structure
     {op: "gread", lines, all}                        get_structure() on given lines (concatenated models)
     {op: "gset", S, oc, lines} / {op: "gget", lines, sel, r}   single GROFile calls made by the repository's tests
     {op: "pq",   S, oc, lines, mask, back, backAll, pure}
     {op: "asm",  lines, M, all, rall, sel, rsel}     multi-model PDBQT files: get_structure / get_remarks
     {op: "tf",   c, pre, post, ret, oc}              one TextFile call with the state before and after
     {op: "disp", c, save, load}                      save_structure / load_structure
   Every event is judged on its own; a disagreement prints
     <<"MISMATCH", tid, eventIndex, op, flags, known-bad predicates, expected outcome, detail>>. *)
EXTENDS GroFile, PdbqtFile, TextFileOps, Dispatch, Json, IOUtils, TLC

Tr == JsonDeserialize(IOEnv.TRACE_FILE)

VARIABLES tid, l
tvars == <<tid, l>>

AllTrue(flags) == \A k \in DOMAIN flags : flags[k]
FirstDiff(a, b) ==
  IF a = b THEN 0
  ELSE CHOOSE i \in 1..(Len(a) + Len(b) + 1) :
         (i > Len(a) \/ i > Len(b) \/ a[i] # b[i]) /\ \A k \in 1..(i - 1) : (k <= Len(a) /\ k <= Len(b) /\ a[k] = b[k])
LineAt(ls, i) == IF i >= 1 /\ i <= Len(ls) THEN ls[i] ELSE <<>>
Report(op, flags, kb, eoc, detail) ==
  IF AllTrue(flags) THEN TRUE ELSE PrintT(<<"MISMATCH", tid, l + 1, op, flags, kb, eoc, detail>>)

(* ------------------------------------------------------------------ GRO *)
InRange(k, M) == k # 0 /\ -M <= k /\ k <= M
JudgeGro(ev) == Bind(GroExpect(ev.S), LAMBDA e :
  LET both == ev.oc = "ok" /\ e.oc = "ok"
      M == GNModels(ev.S)
      okOc == ev.oc = e.oc
      okLines == both => ev.lines = e.lines
      rd == both /\ okLines
      okCount == rd => ev.count = e.count
      okBack == rd => ev.back = e.back
      okSel == rd => \A q \in DOMAIN ev.sel : InRange(ev.sel[q].k, M) => ev.sel[q].r = e.sel[ev.sel[q].k + M + 2]
      okSelOut == rd => \A q \in DOMAIN ev.sel : ~InRange(ev.sel[q].k, M) => ev.sel[q].r.oc = "Rejected"     \* diagnostic
      fd == IF both THEN FirstDiff(ev.lines, e.lines) ELSE 0
  IN /\ Report("gro", <<okOc, okLines, okCount, okBack, okSel>>, e.kb, e.oc, <<fd, LineAt(e.lines, fd)>>)
     /\ (okSelOut \/ PrintT(<<"DIAG", tid, l + 1, "model-number-out-of-range-accepted">>)))

JudgeGread(ev) ==
  LET e == ReadGro(ev.lines, <<>>)
      kb == IF KB_GroUnequal(ev.lines) THEN {"GroUnequal"} ELSE {}
  IN Report("gread", <<ev.all.oc = e.oc, (e.oc = "ok" /\ ev.all.oc = "ok") => ev.all = e>>, kb, e.oc, <<>>)

(* single calls recorded while the repository's own tests run *)
JudgeGset(ev) == Bind(WriteGro(ev.S), LAMBDA e :
  LET fd == IF ev.oc = "ok" /\ e.oc = "ok" THEN FirstDiff(ev.lines, e.lines) ELSE 0 IN
  Report("gset", <<ev.oc = e.oc, (ev.oc = "ok" /\ e.oc = "ok") => ev.lines = e.lines>>, GroKB(ev.S), e.oc, <<fd, LineAt(e.lines, fd)>>))
JudgeGget(ev) == Bind(ReadGro(ev.lines, ev.sel), LAMBDA e :
  Report("gget", <<ev.r.oc = e.oc, (ev.r.oc = "ok" /\ e.oc = "ok") => ev.r = e>>, {}, e.oc, <<>>))

(* ------------------------------------------------------------------ PDBQT *)
ElemOK(got, exp) == Len(got.atoms) = Len(exp.atoms) /\ \A i \in DOMAIN exp.atoms : got.atoms[i].elem = exp.atoms[i].elem
ElemAsImpl(got, exp) == Len(got.atoms) = Len(exp.atoms) /\ \A i \in DOMAIN exp.atoms : got.atoms[i].elem = exp.atoms[i].elemImpl
NoElem(r) == [oc |-> r.oc, nmodels |-> r.nmodels, coords |-> r.coords,
              atoms |-> [i \in 1..Len(r.atoms) |-> [het |-> r.atoms[i].het, name |-> r.atoms[i].name, resn |-> r.atoms[i].resn,
                                                    chain |-> r.atoms[i].chain, resi |-> r.atoms[i].resi, icode |-> r.atoms[i].icode]]]
JudgePq(ev) == Bind(PqExpect(ev.S), LAMBDA e :
  LET both == ev.oc = "ok" /\ e.oc = "ok"
      okOc == ev.oc = e.oc
      okLines == both => ev.lines = e.lines
      rd == both /\ okLines
      okMask == both => ev.mask = e.mask
      okBack == rd => (NoElem(ev.back) = NoElem(e.back) /\ NoElem(ev.backAll) = NoElem(e.backAll))
      okElem == (rd /\ okBack) => (ElemOK(ev.back, e.back) /\ ElemOK(ev.backAll, e.backAll))
      elemImpl == (rd /\ okBack) => (ElemAsImpl(ev.back, e.back) /\ ElemAsImpl(ev.backAll, e.backAll))
      okPure == ev.pure
      \* the observed lines, judged by the declarative torsion-tree predicate
      okTree == (both /\ Dom_PqSerials(ev.S)) =>
                  LET kept == PqKept(ev.S)  E == PqKBonds(ev.S, kept)  rot == DeclRot(ev.S, kept, E) IN
                  PqTreeOK(ev.lines, KeptSerials(ev.S, kept), RotAsSerials(ev.S, kept, rot), UseRoot(ev.S), ev.S.o.torsdof)
      fd == IF both THEN FirstDiff(ev.lines, e.lines) ELSE 0
  IN Report("pq", <<okOc, okLines, okMask, okBack, okElem, okPure, okTree>>, e.kb, e.oc, <<fd, LineAt(e.lines, fd), elemImpl>>))

JudgeAsm(ev) ==
  LET e == PqReadExpect(ev.lines, ev.M)
      M == ev.M
      okAllOc == ev.all.oc = e.all.oc
      okAll == (ev.all.oc = "ok" /\ e.all.oc = "ok") => NoElem(ev.all) = NoElem(e.all)
      okRall == ev.rall = e.rall
      okSel == \A q \in 1..(2 * M + 3) : InRange(q - M - 2, M) =>
                  (ev.sel[q].oc = e.sel[q].oc /\ (e.sel[q].oc = "ok" => NoElem(ev.sel[q]) = NoElem(e.sel[q])))
      okRsel == \A q \in 1..(2 * M + 3) : InRange(q - M - 2, M) => ev.rsel[q] = e.rsel[q]
      okZero == ev.sel[M + 2].oc = "Rejected" /\ ev.rsel[M + 2].oc = "Rejected" /\ ev.sel[2 * M + 3].oc = "Rejected"
                  /\ ev.rsel[2 * M + 3].oc = "Rejected"
      okOut == ev.sel[1].oc = "Rejected" /\ ev.rsel[1].oc = "Rejected"                                          \* diagnostic
  IN /\ Report("asm", <<okAllOc, okAll, okRall, okSel, okRsel, okZero>>, {}, e.all.oc, <<>>)
     /\ (okOut \/ PrintT(<<"DIAG", tid, l + 1, "model-number-out-of-range-accepted">>))

(* ------------------------------------------------------------------ TextFile *)
TFState(p) == [obj |-> p.obj, disk |-> p.disk,
               want |-> [d \in DOMAIN p.disk |-> <<>>]]          \* the ghost is not observable
JudgeTf(ev) ==
  LET r == TFApply(TFState(ev.pre), ev.c)
      okEn == r.en = (ev.oc = "ok")
      okObj == (r.en /\ ev.oc = "ok") => ev.post.obj = r.obj
      okDisk == (r.en /\ ev.oc = "ok") => ev.post.disk = r.disk
      okRet == (r.en /\ ev.oc = "ok") => ev.ret = r.ret
      okStay == ev.oc # "ok" => (ev.post.obj = ev.pre.obj /\ ev.post.disk = ev.pre.disk)
  IN Report("tf", <<okEn, okObj, okDisk, okRet, okStay>>, {}, IF r.en THEN "ok" ELSE "Rejected", ev.c)

(* ------------------------------------------------------------------ load_structure / save_structure *)
CallOf(j) == [oc |-> j.oc, worker |-> j.worker, kw |-> ToSet(j.kw), kind |-> j.kind, depth |-> j.depth]
JudgeDisp(ev) ==
  LET c == [path |-> ev.c.path, depth |-> ev.c.depth, skw |-> ToSet(ev.c.skw), lkw |-> ToSet(ev.c.lkw), load |-> ev.c.load]
      e == DispExpect(c)
  IN Report("disp", <<CallOf(ev.save) = e.save, CallOf(ev.load) = e.load>>, {}, e.save.oc, <<e.save, e.load>>)

Init == tid \in 1..Len(Tr) /\ l = 0
Next == /\ l < Len(Tr[tid])
        /\ l' = l + 1
        /\ UNCHANGED tid
        /\ LET ev == Tr[tid][l + 1] IN
           CASE ev.op = "gro" -> JudgeGro(ev)
             [] ev.op = "gread" -> JudgeGread(ev)
             [] ev.op = "gset" -> JudgeGset(ev)
             [] ev.op = "gget" -> JudgeGget(ev)
             [] ev.op = "pq" -> JudgePq(ev)
             [] ev.op = "asm" -> JudgeAsm(ev)
             [] ev.op = "tf" -> JudgeTf(ev)
             [] ev.op = "disp" -> JudgeDisp(ev)
Spec == Init /\ [][Next]_tvars
=============================================================================
