------------------------------- MODULE TextFileOps -------------------------------
(* X03: biotite.file.TextFile -- a list of lines that read() takes from a text and write() puts
   back (src/biotite/file.py).

   A text on disk is a sequence of characters in which the line break is the token NL.
   WriteText / StrText / WriteIterText / ReadIterItems are shaped like the code
   ("\n".join(lines) + "\n", str.splitlines(), one `line + "\n"` per item); the law the property
   states is Kept: reading what was written gives the lines back. *)
EXTENDS X03Base

(* TextFile.write(): "\n".join(self.lines) + "\n" *)
WriteText(lines) == JoinWith(lines, <<NL>>) \o <<NL>>
(* TextFile.__str__(): "\n".join(self.lines) *)
StrText(lines) == JoinWith(lines, <<NL>>)
(* TextFile.write_iter(): line + "\n" for every line *)
WriteIterText(lines) == Flat([k \in 1..Len(lines) |-> Append(lines[k], NL)])

(* str.splitlines() on a text whose only line boundary is NL: a scan *)
SplitLines(text) ==
  LET r == FoldLeft(LAMBDA acc, c : IF c = NL THEN [done |-> Append(acc.done, acc.cur), cur |-> <<>>]
                                     ELSE [done |-> acc.done, cur |-> Append(acc.cur, c)],
                    [done |-> <<>>, cur |-> <<>>], text)
  IN IF r.cur = <<>> THEN r.done ELSE Append(r.done, r.cur)
(* TextFile.read_iter(): iterating a text file yields the lines with their line break *)
ReadIterItems(text) ==
  LET r == FoldLeft(LAMBDA acc, c : IF c = NL THEN [done |-> Append(acc.done, Append(acc.cur, NL)), cur |-> <<>>]
                                     ELSE [done |-> acc.done, cur |-> Append(acc.cur, c)],
                    [done |-> <<>>, cur |-> <<>>], text)
  IN IF r.cur = <<>> THEN r.done ELSE Append(r.done, r.cur)

(* lines "must not include line break characters"; an object without any line is written as one
   empty line (code: "" + "\n"), which reads back as [""] *)
Dom_Line(l) == \A k \in 1..Len(l) : l[k] # NL
Dom_Lines(lines) == lines # <<>> /\ \A k \in 1..Len(lines) : Dom_Line(lines[k])
(* what a reader has to get from a file written with write() / write_iter() *)
WantAfterWrite(lines) == IF lines = <<>> THEN << <<>> >> ELSE lines
Kept(lines) == SplitLines(WriteText(lines)) = WantAfterWrite(lines)
KeptIter(lines) == SplitLines(WriteIterText(lines)) = lines

ASSUME SplitLines(<<"a", NL, NL, "b">>) = <<T("a"), <<>>, T("b")>> /\ SplitLines(<<NL>>) = << <<>> >> /\ SplitLines(<<>>) = <<>>
ASSUME WriteText(<<T("a"), <<>>, T(" b ")>>) = <<"a", NL, NL, " ", "b", " ", NL>> /\ WriteText(<<>>) = <<NL>>
ASSUME ReadIterItems(<<"a", NL, NL, "b">>) = << <<"a", NL>>, <<NL>>, T("b") >>
ASSUME StrText(<<>>) = <<>> /\ WriteIterText(<<>>) = <<>>
=============================================================================
