------------------------------- MODULE TextFileOps -------------------------------
(* X03: biotite.file.TextFile -- a list of lines that read() takes from a text and write() puts
   back (src/biotite/file.py).

   A text on disk is a sequence of characters in which the line break is the token NL.
   WriteText / StrText / WriteIterText / ReadIterItems are shaped like the code
   ("\n".join(lines) + "\n", str.splitlines(), one `line + "\n"` per item); the law the property
   states is Kept: reading what was written gives the lines back. *)
EXTENDS X03Base

(* TextFile.write(): "\n".join(self.lines) + "\n" *)
WriteText(lines) == JoinWith(lines, <<NL>>) \o <<NL>>
(* TextFile.__str__(): "\n".join(self.lines) *)
StrText(lines) == JoinWith(lines, <<NL>>)
(* TextFile.write_iter(): line + "\n" for every line *)
WriteIterText(lines) == Flat([k \in 1..Len(lines) |-> Append(lines[k], NL)])

(* str.splitlines() on a text whose only line boundary is NL: a scan *)
SplitLines(text) ==
  LET r == FoldLeft(LAMBDA acc, c : IF c = NL THEN [done |-> Append(acc.done, acc.cur), cur |-> <<>>]
                                     ELSE [done |-> acc.done, cur |-> Append(acc.cur, c)],
                    [done |-> <<>>, cur |-> <<>>], text)
  IN IF r.cur = <<>> THEN r.done ELSE Append(r.done, r.cur)
(* TextFile.read_iter(): iterating a text file yields the lines with their line break *)
ReadIterItems(text) ==
  LET r == FoldLeft(LAMBDA acc, c : IF c = NL THEN [done |-> Append(acc.done, Append(acc.cur, NL)), cur |-> <<>>]
                                     ELSE [done |-> acc.done, cur |-> Append(acc.cur, c)],
                    [done |-> <<>>, cur |-> <<>>], text)
  IN IF r.cur = <<>> THEN r.done ELSE Append(r.done, r.cur)

(* lines "must not include line break characters"; an object without any line is written as one
   empty line (code: "" + "\n"), which reads back as [""] *)
Dom_Line(l) == \A k \in 1..Len(l) : l[k] # NL
Dom_Lines(lines) == lines # <<>> /\ \A k \in 1..Len(lines) : Dom_Line(lines[k])
(* what a reader has to get from a file written with write() / write_iter() *)
WantAfterWrite(lines) == IF lines = <<>> THEN << <<>> >> ELSE lines
Kept(lines) == SplitLines(WriteText(lines)) = WantAfterWrite(lines)
KeptIter(lines) == SplitLines(WriteIterText(lines)) = lines

(* ------------------------------------------------------------------ the objects as a state machine *)
(* st = [obj  : slot -> [live, lines]      the TextFile objects
         disk : file -> [exists, text]     the files
         want : file -> lines              ghost: what a reader has to find in the file]
   c  = <<name, arguments...>> one public call:
     <<"new", s>>            s = cls()
     <<"set", s, L>>         a format's setter fills s.lines with the list L
     <<"append", s, l>>      s.lines is edited in place
     <<"write", s, d, how>>  s.write(path of d | open handle on d); how = "binary": a handle opened in
                             binary mode is refused ("A file opened in 'text' mode is required")
     <<"read", s, d, how>>   s = cls.read(path of d | open handle on d); "binary" is refused
     <<"copy", s, t>>        t = s.copy()
     <<"str", s>>            str(s)
     <<"writeiter", d, L>>   TextFile.write_iter(d, L)
     <<"readiter", d>>       list(TextFile.read_iter(d))
   TFApply gives en (the call is in the model's domain: its object / file exists), the state after
   the call and the value returned. *)
TFRet(k, v) == [k |-> k, v |-> v]
TFNone == TFRet("none", <<>>)
TFObj(lines) == [live |-> TRUE, lines |-> lines]
TFStay(st, en, ret) == [en |-> en, obj |-> st.obj, disk |-> st.disk, want |-> st.want, ret |-> ret]
TFSetObj(st, en, s, lines) == [en |-> en, obj |-> [st.obj EXCEPT ![s] = TFObj(lines)], disk |-> st.disk, want |-> st.want, ret |-> TFNone]
TFSetDisk(st, en, d, text, w) ==
  [en |-> en, obj |-> st.obj, disk |-> [st.disk EXCEPT ![d] = [exists |-> TRUE, text |-> text]],
   want |-> [st.want EXCEPT ![d] = w], ret |-> TFNone]
TFApply(st, c) ==
  CASE c[1] = "new" -> TFSetObj(st, TRUE, c[2], <<>>)
    [] c[1] = "set" -> TFSetObj(st, st.obj[c[2]].live, c[2], c[3])
    [] c[1] = "append" -> TFSetObj(st, st.obj[c[2]].live, c[2], Append(st.obj[c[2]].lines, c[3]))
    [] c[1] = "write" -> TFSetDisk(st, st.obj[c[2]].live /\ c[4] # "binary", c[3], WriteText(st.obj[c[2]].lines), WantAfterWrite(st.obj[c[2]].lines))
    [] c[1] = "read" -> TFSetObj(st, st.disk[c[3]].exists /\ c[4] # "binary", c[2], SplitLines(st.disk[c[3]].text))
    [] c[1] = "copy" -> TFSetObj(st, st.obj[c[2]].live /\ c[2] # c[3], c[3], st.obj[c[2]].lines)
    [] c[1] = "str" -> TFStay(st, st.obj[c[2]].live, TFRet("text", StrText(st.obj[c[2]].lines)))
    [] c[1] = "writeiter" -> TFSetDisk(st, TRUE, c[2], WriteIterText(c[3]), c[3])
    [] c[1] = "readiter" -> TFStay(st, st.disk[c[2]].exists, TFRet("items", ReadIterItems(st.disk[c[2]].text)))

ASSUME SplitLines(<<"a", NL, NL, "b">>) = <<T("a"), <<>>, T("b")>> /\ SplitLines(<<NL>>) = << <<>> >> /\ SplitLines(<<>>) = <<>>
ASSUME WriteText(<<T("a"), <<>>, T(" b ")>>) = <<"a", NL, NL, " ", "b", " ", NL>> /\ WriteText(<<>>) = <<NL>>
ASSUME ReadIterItems(<<"a", NL, NL, "b">>) = << <<"a", NL>>, <<NL>>, T("b") >>
ASSUME StrText(<<>>) = <<>> /\ WriteIterText(<<>>) = <<>>
=============================================================================
