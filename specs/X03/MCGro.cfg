SPECIFICATION Spec
CONSTANTS
  Rich = FALSE
INVARIANT InvDomain
INVARIANT InvRoundTrip
INVARIANT InvColumns
INVARIANT InvFraming
INVARIANT InvAcceptance
CHECK_DEADLOCK FALSE
