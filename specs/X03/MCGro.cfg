SPECIFICATION Spec
CONSTANTS
  Rich = FALSE
INVARIANT InvDomain
INVARIANT InvRoundTrip
INVARIANT InvColumns
INVARIANT InvFraming
INVARIANT InvAcceptance
INVARIANT InvCat
CHECK_DEADLOCK FALSE
