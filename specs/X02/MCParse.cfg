SPECIFICATION Spec
CONSTANTS
  LenWide = 4
  LenNarrow = 6
INVARIANT InvImplDecl
INVARIANT InvWellFormed
INVARIANT InvReadBack
CHECK_DEADLOCK FALSE
