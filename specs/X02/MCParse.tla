------------------------------- MODULE MCParse -------------------------------
(* X02 S1/S2 for base_pairs_from_dot_bracket(): every notation of up to LenWide characters over
   the alphabet Wide (dots, two bracket types, one letter pair, one character that is no bracket)
   and every notation of up to LenNarrow characters over Narrow -- well-formed ones, closing
   brackets without an opening one, opening brackets that are never closed, brackets closed by
   the wrong type, crossing bracket types, characters outside the alphabet.
   Init: the notations; one step: what the specification says (also the cases of S2). *)
EXTENDS Pseudoknot
CONSTANTS LenWide, LenNarrow
VARIABLES s, r, phase
vars == <<s, r, phase>>

Wide == {".", "(", ")", "[", "]", "A", "a", "x"}
Narrow == {".", "(", ")", "[", "]"}

Init == /\ phase = 0
        /\ r = Result("ok", <<>>)
        /\ \/ \E n \in 0..LenWide : s \in [1..n -> Wide]
           \/ \E n \in (LenWide + 1)..LenNarrow : s \in [1..n -> Narrow]
Next == /\ phase = 0
        /\ phase' = 1
        /\ r' = BasePairsFromDotBracket(s)
        /\ UNCHANGED s
Spec == Init /\ [][Next]_vars

Done == phase = 1
InvImplDecl == Done => Law_ParseImplDecl(s)
InvWellFormed == Done => Law_ParseWellFormed(s)
\* an accepted notation is a fixed point: rendering the pairs with any orders that keep the
\* bracket types apart and reading them again gives the same pairs
InvReadBack == Done => (r.oc = "ok" =>
                 LET o == [i \in DOMAIN r.val |-> OpenType(s[r.val[i][1] + 1]) - 1] IN
                 ParseImpl(RenderImpl(r.val, Len(s), o)) = r)
=============================================================================
