SPECIFICATION Spec
CONSTANTS
  NPos = 8
  NPosOne = 8
  NPosPerfect = 10
  NPosScored = 6
  ScoreVals = {1, 2}
  MaxOrderVals = {0, 1}
  Variants = {0, 1, 2}
INVARIANT InvDomain
INVARIANT InvImplDecl
INVARIANT InvLevels
INVARIANT InvTruncation
INVARIANT InvPresentation
INVARIANT InvRegions
INVARIANT InvRender
INVARIANT InvRoundTrip
CHECK_DEADLOCK FALSE
