SPECIFICATION Spec
CONSTANTS
  NPos = 6
  NPosScored = 4
  ScoreVals = {1, 2}
  MaxOrderVals = {0, 1}
  Variants = {0, 1, 2}
INVARIANT InvDomain
INVARIANT InvImplDecl
INVARIANT InvLevels
INVARIANT InvTruncation
INVARIANT InvPresentation
INVARIANT InvRegions
INVARIANT InvRender
INVARIANT InvRoundTrip
CHECK_DEADLOCK FALSE
