------------------------------ MODULE Pseudoknot ------------------------------
(* X02 -- pseudoknot orders and dot-bracket-letter notation of a set of base pairs
   (biotite.structure.pseudoknots / dot_bracket / base_pairs_from_dot_bracket /
   dot_bracket_from_structure).

   Values
     base pairs   sequence of <<a, b>> (row k of the caller's array is element k; positions are
                  naturals; a row may be given in either orientation)
     scores       optional: <<>> (None: every pair scores 1) or <<seq>> with one positive integer per row
     max order    optional: <<>> (None) or <<m>>
     order row    sequence of integers, one per base pair, -1 = no order assigned
     notation     sequence of one-character strings
     outcomes     "ok" / "Rejected" (= any exception)

   One operator per public call (Pseudoknots, DotBracket, BasePairsFromDotBracket,
   DotBracketFromStructure); for each algorithm a declarative definition (what the documentation
   promises) next to a definition shaped like the code (regions, conflict graph, dynamic
   programme, recursion over orders; byte-wise rendering; bracket stacks).  The Law_* operators
   relate the two and state the documented properties; MCKnot / MCParse check them with TLC. *)
EXTENDS Integers, Sequences, FiniteSets, SequencesExt, FiniteSetsExt, Functions, TLC

\* evaluate v once, then F on it (TLC re-evaluates LET definitions at every use)
Bind(v, F(_)) == CHOOSE r \in {F(x) : x \in {v}} : TRUE

IsNone(o) == o = <<>>
Val(o) == o[1]

(* ------------------------------------------------------------------ base pairs *)
Lo(p) == IF p[1] <= p[2] THEN p[1] ELSE p[2]
Hi(p) == IF p[1] <= p[2] THEN p[2] ELSE p[1]
Norm(p) == <<Lo(p), Hi(p)>>
\* two base pairs form a pseudoknot: exactly one end of q lies between the ends of p
Crosses(p, q) == \/ (Lo(p) < Lo(q) /\ Lo(q) < Hi(p) /\ Hi(p) < Hi(q))
                 \/ (Lo(q) < Lo(p) /\ Lo(p) < Hi(q) /\ Hi(q) < Hi(p))
Positions(bp) == {bp[i][1] : i \in DOMAIN bp} \cup {bp[i][2] : i \in DOMAIN bp}
MaxPos(bp) == IF Len(bp) = 0 THEN -1 ELSE Max(Positions(bp))
Scores(scOpt, n) == IF IsNone(scOpt) THEN [i \in 1..n |-> 1] ELSE Val(scOpt)
Weight(sc, S) == FoldSet(LAMBDA i, a : a + sc[i], 0, S)

(* ------------------------------------------------------------------ domains *)
\* every base takes part in at most one pair, no base pairs with itself, positions >= 0
Dom_Pairs(bp) == /\ \A i \in DOMAIN bp : bp[i][1] \in Nat /\ bp[i][2] \in Nat
                 /\ Cardinality(Positions(bp)) = 2 * Len(bp)
\* one positive integer per pair (with a score <= 0 "maximum" no longer forces a pair into a level)
Dom_Scores(scOpt, n) == IsNone(scOpt) \/ (Len(Val(scOpt)) = n /\ \A i \in 1..n : Val(scOpt)[i] \in Nat \ {0})
Dom_MaxOrder(maxo) == IsNone(maxo) \/ Val(maxo) \in Nat
\* the strand is long enough for every paired base
Dom_Length(bp, len) == len \in Nat /\ MaxPos(bp) < len

(* ================================================================== pseudoknots(): declarative
   "Base pairs are removed in a way that maximizes the number [the score] of remaining base
   pairs ... the pseudoknot order of the removed base pairs is incremented and the procedure is
   repeated with these base pairs ... all m individual solutions are returned." *)
KnotFree(bp, S) == \A i, j \in S : ~Crosses(bp[i], bp[j])
\* every knot-free subset of the rows I (built row by row: only subsets that stay knot-free grow)
KnotFreeSubsets(bp, I) ==
  FoldSet(LAMBDA i, acc : acc \cup {s \cup {i} : s \in {t \in acc : \A j \in t : ~Crosses(bp[i], bp[j])}}, {{}}, I)
MaxWeightOf(sc, C) == Bind(C, LAMBDA c : Bind(Max({Weight(sc, s) : s \in c}), LAMBDA m : {s \in c : Weight(sc, s) = m}))
BestSubsets(bp, sc, I) == MaxWeightOf(sc, KnotFreeSubsets(bp, I))

Assign(asg, rows, order) == [i \in DOMAIN asg |-> IF i \in rows THEN order ELSE asg[i]]
Unassigned(n) == [i \in 1..n |-> -1]

RECURSIVE DeclFrom(_, _, _, _, _, _)
DeclFrom(bp, sc, maxo, asg, rest, order) ==
  IF rest = {} THEN {asg}
  ELSE UNION {Bind(Assign(asg, S, order), LAMBDA a2 :
                IF ~IsNone(maxo) /\ Val(maxo) = order THEN {a2}
                ELSE DeclFrom(bp, sc, maxo, a2, rest \ S, order + 1))
              : S \in BestSubsets(bp, sc, rest)}
DeclOrders(bp, sc, maxo) == DeclFrom(bp, sc, maxo, Unassigned(Len(bp)), DOMAIN bp, 0)

(* ================================================================== pseudoknots(): as the code does it
   _find_regions: rows sorted by their lower base; ranks of the bases; a region = a run of
   consecutively nested pairs. *)
SortedRows(bp) == SetToSortSeq(DOMAIN bp, LAMBDA i, j : Lo(bp[i]) < Lo(bp[j]))          \* original_indices
Rank(bp, x) == Cardinality({y \in Positions(bp) : y < x})
RegionSplit(bp) ==
  LET s == SortedRows(bp)
      NewRegion(k) == \/ Rank(bp, Hi(bp[s[k - 1]])) - Rank(bp, Hi(bp[s[k]])) # 1
                      \/ Rank(bp, Lo(bp[s[k]])) - Rank(bp, Lo(bp[s[k - 1]])) # 1
      Step(acc, k) == IF k = 1 THEN <<<<s[1]>>>>
                      ELSE IF NewRegion(k) THEN Append(acc, <<s[k]>>)
                      ELSE [acc EXCEPT ![Len(acc)] = Append(@, s[k])]
  IN FoldLeft(Step, <<>>, [k \in 1..Len(s) |-> k])
\* _Region: rows, lowest / highest base, summed score
Regions(bp, sc) ==
  Bind(RegionSplit(bp), LAMBDA split :
    TLCEval([r \in 1..Len(split) |->
      LET rows == ToSet(split[r]) IN
      [rows |-> rows, start |-> Min({Lo(bp[i]) : i \in rows}), stop |-> Max({Hi(bp[i]) : i \in rows}),
       score |-> Weight(sc, rows)]]))

\* _get_region_array_for: the regions C, each twice (start and stop), ordered by base position
EndPoints(regs, C) ==
  SetToSortSeq({<<regs[r].start, r>> : r \in C} \cup {<<regs[r].stop, r>> : r \in C}, LAMBDA a, b : a[1] < b[1])
\* _generate_graphical_representation: r conflicts with the regions that occur exactly once
\* between the start and the stop of r
ConflictEdges(regs) ==
  Bind(EndPoints(regs, DOMAIN regs), LAMBDA E :
    UNION {LET first == CHOOSE k \in DOMAIN E : E[k][2] = r /\ E[k][1] = regs[r].start
               stop  == CHOOSE k \in DOMAIN E : E[k][2] = r /\ E[k][1] = regs[r].stop
           IN {{r, o} : o \in {o \in DOMAIN regs : Cardinality({k \in (first + 1)..(stop - 1) : E[k][2] = o}) = 1}}
           : r \in DOMAIN regs})
\* the same relation said directly
RegionsCross(regs, r, o) == \/ (regs[r].start < regs[o].start /\ regs[o].start < regs[r].stop /\ regs[r].stop < regs[o].stop)
                            \/ (regs[o].start < regs[r].start /\ regs[r].start < regs[o].stop /\ regs[o].stop < regs[r].stop)

RECURSIVE Grow(_, _, _)
Grow(S, nodes, edges) ==
  LET T == S \cup {o \in nodes : \E r \in S : {r, o} \in edges} IN IF T = S THEN S ELSE Grow(T, nodes, edges)
Components(nodes, edges) == {Grow({n}, nodes, edges) : n \in nodes}        \* nx.connected_components
Isolates(nodes, edges) == {r \in nodes : \A o \in nodes : {r, o} \notin edges}

(* _remove_pseudoknots: dynamic programme over the 2|C| end points of the regions C; a cell holds
   every best solution (set of regions) for the end points i..j.  Candidates of a cell, as in the
   code: the cells to the left and below; the cell below-left plus the region that starts at i and
   stops at j; and, when neither the left nor the lower cell is the empty solution, for every
   pair of their solutions either the union (when the left one ends before the lower one starts)
   or the unions of the cells split at k for every k from the end point before the start of the
   lower solution up to the stop of the left one. *)
RemovePseudoknots(regs, C) ==
  LET E == EndPoints(regs, C)
      m == Len(E)
      IdxOf(pos) == CHOOSE k \in 1..m : E[k][1] = pos
      StartOf(s) == IF s = {} THEN -1 ELSE Min({regs[r].start : r \in s})
      StopOf(s) == IF s = {} THEN -1 ELSE Max({regs[r].stop : r \in s})
      ScoreOf(s) == FoldSet(LAMBDA r, a : a + regs[r].score, 0, s)
      Best(cands) == Bind(Max({ScoreOf(s) : s \in cands}), LAMBDA mx : {s \in cands : ScoreOf(s) = mx})
      Cands(M, i, j) ==
        LET left == M[<<i, j - 1>>]
            bottom == M[<<i + 1, j>>]
        IN left \cup bottom
           \cup (IF E[i][2] = E[j][2]
                 THEN \* (the code reads the never-written cell [i+1, i] when j = i + 1: cannot happen for
                      \*  a region that conflicts with another one, see Law_Graph)
                      IF Assert(j > i + 1, "start and stop of a region adjacent in the dynamic programme")
                      THEN {s \cup {E[i][2]} : s \in M[<<i + 1, j - 1>>]} ELSE {}
                 ELSE {})
           \cup (IF left # {{}} /\ bottom # {{}}
                 THEN UNION {IF StopOf(p[1]) < StartOf(p[2]) THEN {p[1] \cup p[2]}
                             ELSE UNION {{a \cup b : a \in M[<<i, k>>], b \in M[<<k + 1, j>>]}
                                         : k \in (IdxOf(StartOf(p[2])) - 1)..IdxOf(StopOf(p[1]))}
                             : p \in left \X bottom}
                 ELSE {})
      Column(M, j) == FoldLeft(LAMBDA acc, i : TLCEval(acc @@ (<<i, j>> :> Best(Cands(acc, i, j)))), M,
                               [t \in 1..(j - 1) |-> j - t])
      diag == [c \in {<<i, i>> : i \in 1..m} |-> {{}}]
      Final == FoldLeft(Column, diag, [t \in 1..(m - 1) |-> t + 1])
  IN Final[<<1, m>>]

\* itertools.product over the components, each element flattened to one set of regions
SolutionProduct(regs, comps) == FoldSet(LAMBDA c, acc : {a \cup b : a \in acc, b \in RemovePseudoknots(regs, c)}, {{}}, comps)
RowsOf(regs, S) == UNION {regs[r].rows : r \in S}

\* _get_results for one partial result (the code carries a list of them; they evolve independently)
RECURSIVE ImplFrom(_, _, _, _, _, _)
ImplFrom(regs, edges, maxo, asg, nodes, order) ==
  LET iso == Isolates(nodes, edges)
      a1 == Assign(asg, RowsOf(regs, iso), order)
      rem == nodes \ iso
  IN IF rem = {} THEN {a1}
     ELSE UNION {Bind(Assign(a1, RowsOf(regs, sol), order), LAMBDA a2 :
                   IF ~IsNone(maxo) /\ Val(maxo) = order THEN {a2}
                   ELSE ImplFrom(regs, edges, maxo, a2, rem \ sol, order + 1))
                 : sol \in SolutionProduct(regs, Components(rem, edges))}
ImplOrders(bp, sc, maxo) ==
  IF Len(bp) = 0 THEN {<<>>}
  ELSE Bind(Regions(bp, sc), LAMBDA regs : Bind(ConflictEdges(regs), LAMBDA edges :
         ImplFrom(regs, edges, maxo, Unassigned(Len(bp)), DOMAIN regs, 0)))

(* ------------------------------------------------------------------ the public call *)
Result(oc, val) == [oc |-> oc, val |-> val]
\* scores of another length than the base pairs are a documented refusal (ValueError); an empty
\* array of base pairs gives one empty row whatever the other arguments are (as the code does)
Pseudoknots(bp, scOpt, maxo) ==
  IF Len(bp) = 0 THEN Result("ok", {<<>>})
  ELSE IF ~IsNone(scOpt) /\ Len(Val(scOpt)) # Len(bp) THEN Result("Rejected", {})
  ELSE Result("ok", DeclOrders(bp, Scores(scOpt, Len(bp)), maxo))
PseudoknotsImpl(bp, scOpt, maxo) ==
  IF Len(bp) = 0 THEN Result("ok", {<<>>})
  ELSE IF ~IsNone(scOpt) /\ Len(Val(scOpt)) # Len(bp) THEN Result("Rejected", {})
  ELSE Result("ok", ImplOrders(bp, Scores(scOpt, Len(bp)), maxo))

(* ------------------------------------------------------------------ laws of pseudoknots() *)
Levels(o) == {o[i] : i \in DOMAIN o} \ {-1}
LevelRows(o, k) == {i \in DOMAIN o : o[i] = k}
TruncateRow(o, m) == [i \in DOMAIN o |-> IF o[i] > m THEN -1 ELSE o[i]]

Law_ImplDecl(bp, sc, maxo) == ImplOrders(bp, sc, maxo) = DeclOrders(bp, sc, maxo)
\* "there are no pseudoknots between base pairs with the same pseudoknot order"; levels are used
\* from 0 upwards without a gap, a higher level never outweighs a lower one; -1 only beyond the
\* requested maximum (which pairs: Law_Truncation)
Law_Levels(bp, sc, maxo, rows) ==
  \A o \in rows :
    /\ Len(o) = Len(bp)
    /\ \A k \in Levels(o) : KnotFree(bp, LevelRows(o, k))
    /\ Levels(o) = 0..(Cardinality(Levels(o)) - 1)
    /\ \A k \in Levels(o) : k > 0 => Weight(sc, LevelRows(o, k)) <= Weight(sc, LevelRows(o, k - 1))
    /\ (IsNone(maxo) => LevelRows(o, -1) = {})
    /\ (~IsNone(maxo) => \A k \in Levels(o) : k <= Val(maxo))
\* level k is a heaviest knot-free subset of what levels 0..k-1 left over
Law_LevelOptimal(bp, sc, rows) ==
  \A o \in rows : \A k \in Levels(o) :
    LevelRows(o, k) \in BestSubsets(bp, sc, {i \in DOMAIN o : o[i] = -1 \/ o[i] >= k})
\* a maximum order cuts the unrestricted solutions off, nothing else
Law_Truncation(bp, sc, m) == DeclOrders(bp, sc, <<m>>) = {TruncateRow(o, m) : o \in DeclOrders(bp, sc, <<>>)}
\* neither the orientation of a row nor the order of the rows matters
Law_Presentation(bp, sc, maxo) ==
  LET n == Len(bp)
      flipped == [i \in 1..n |-> <<bp[i][2], bp[i][1]>>]
      rev(s) == [i \in 1..n |-> s[n + 1 - i]]
  IN /\ ImplOrders(flipped, sc, maxo) = DeclOrders(bp, sc, maxo)
     /\ ImplOrders(rev(bp), rev(sc), maxo) = {rev(o) : o \in DeclOrders(bp, sc, maxo)}
\* regions: a partition of the rows into stacks; a row outside a region crosses all of its rows or none
Law_Regions(bp, sc) ==
  LET regs == Regions(bp, sc) IN
  /\ UNION {regs[r].rows : r \in DOMAIN regs} = DOMAIN bp
  /\ \A r, o \in DOMAIN regs : r # o => regs[r].rows \cap regs[o].rows = {}
  /\ \A r \in DOMAIN regs :
       /\ regs[r].rows # {} /\ KnotFree(bp, regs[r].rows)
       /\ \A i, j \in regs[r].rows : i # j => (Lo(bp[i]) < Lo(bp[j]) <=> Hi(bp[j]) < Hi(bp[i]))     \* nested
       /\ \A x \in DOMAIN bp \ regs[r].rows :
            (\A i \in regs[r].rows : Crosses(bp[x], bp[i])) \/ (\A i \in regs[r].rows : ~Crosses(bp[x], bp[i]))
\* the conflict graph of the code = crossing of regions = crossing of their pairs; and the
\* precondition of the dynamic programme: inside a component no region starts and stops at
\* neighbouring end points
Law_Graph(bp, sc) ==
  LET regs == Regions(bp, sc)
      edges == ConflictEdges(regs)
  IN /\ edges = {{x[1], x[2]} : x \in {y \in (DOMAIN regs) \X (DOMAIN regs) : RegionsCross(regs, y[1], y[2])}}
     /\ \A r, o \in DOMAIN regs :
          ({r, o} \in edges /\ r # o) <=> (\E i \in regs[r].rows, j \in regs[o].rows : Crosses(bp[i], bp[j]))
     /\ \A r \in DOMAIN regs : {r} \notin edges
     /\ \A c \in Components(DOMAIN regs \ Isolates(DOMAIN regs, edges), edges) :
          LET E == EndPoints(regs, c) IN \A k \in 1..(Len(E) - 1) : E[k][2] # E[k + 1][2]

(* ================================================================== dot_bracket() *)
Opening == <<"(", "[", "{", "<", "A", "B", "C", "D", "E", "F", "G", "H", "I", "J", "K", "L", "M",
             "N", "O", "P", "Q", "R", "S", "T", "U", "V", "W", "X", "Y", "Z">>
Closing == <<")", "]", "}", ">", "a", "b", "c", "d", "e", "f", "g", "h", "i", "j", "k", "l", "m",
             "n", "o", "p", "q", "r", "s", "t", "u", "v", "w", "x", "y", "z">>
NBrackets == Len(Opening)
Dot == "."
ASSUME Len(Closing) = NBrackets /\ NBrackets = 30
ASSUME Cardinality(ToSet(Opening) \cup ToSet(Closing) \cup {Dot}) = 2 * NBrackets + 1

\* as the code does it: a string of dots, then for every row with an order the two brackets
RenderImpl(bp, len, o) ==
  FoldLeft(LAMBDA s, i : IF o[i] = -1 THEN s
                         ELSE [s EXCEPT ![Lo(bp[i]) + 1] = Opening[o[i] + 1], ![Hi(bp[i]) + 1] = Closing[o[i] + 1]],
           [p \in 1..len |-> Dot], [i \in 1..Len(bp) |-> i])
\* declarative: the character of every base
Render(bp, len, o) ==
  [p \in 1..len |->
     IF \E i \in DOMAIN bp : o[i] # -1 /\ Lo(bp[i]) = p - 1 THEN Opening[o[CHOOSE i \in DOMAIN bp : o[i] # -1 /\ Lo(bp[i]) = p - 1] + 1]
     ELSE IF \E i \in DOMAIN bp : o[i] # -1 /\ Hi(bp[i]) = p - 1 THEN Closing[o[CHOOSE i \in DOMAIN bp : o[i] # -1 /\ Hi(bp[i]) = p - 1] + 1]
     ELSE Dot]
\* a bracket has to be written that the strand has no place for, or that the alphabet does not have
CannotRender(bp, len, rows) == \E o \in rows : \E i \in DOMAIN bp : o[i] # -1 /\ (Hi(bp[i]) >= len \/ o[i] >= NBrackets)

\* val = the set of notations, one per solution of pseudoknots()
DotBracketWith(bp, len, pk) ==
  IF pk.oc # "ok" \/ CannotRender(bp, len, pk.val) THEN Result("Rejected", {})
  ELSE Result("ok", {Render(bp, len, o) : o \in pk.val})
DotBracket(bp, len, scOpt, maxo) == Bind(Pseudoknots(bp, scOpt, maxo), LAMBDA pk : DotBracketWith(bp, len, pk))
\* outside Dom_Length the documentation does not say what happens to a pair that gets no order
DotBracketOutcomeSpecified(bp, len, scOpt, maxo) == Dom_Length(bp, len) \/ IsNone(maxo)

Law_RenderImplDecl(bp, len, rows) == \A o \in rows : RenderImpl(bp, len, o) = Render(bp, len, o)
\* different solutions are written differently
Law_RenderInjective(bp, len, rows) == Cardinality({Render(bp, len, o) : o \in rows}) = Cardinality(rows)

(* ================================================================== base_pairs_from_dot_bracket() *)
OpenType(ch) == IF \E t \in 1..NBrackets : Opening[t] = ch THEN CHOOSE t \in 1..NBrackets : Opening[t] = ch ELSE 0
CloseType(ch) == IF \E t \in 1..NBrackets : Closing[t] = ch THEN CHOOSE t \in 1..NBrackets : Closing[t] = ch ELSE 0
SortPairs(P) == SetToSortSeq(P, LAMBDA a, b : a[1] < b[1])

\* as the code does it: one stack of open positions per bracket type; pairs sorted by their first base at the end
ParseImpl(s) ==
  LET Step(st, k) ==
        IF st.oc # "ok" THEN st
        ELSE LET ot == OpenType(s[k])  ct == CloseType(s[k]) IN
             IF ot # 0 THEN [st EXCEPT !.stacks[ot] = Append(@, k - 1)]
             ELSE IF ct # 0 THEN
                    IF st.stacks[ct] = <<>> THEN [st EXCEPT !.oc = "Rejected"]
                    ELSE [st EXCEPT !.stacks[ct] = Front(@), !.pairs = @ \cup {<<Last(st.stacks[ct]), k - 1>>}]
             ELSE IF s[k] = Dot THEN st
             ELSE [st EXCEPT !.oc = "Rejected"]
      end == FoldLeft(Step, [oc |-> "ok", stacks |-> [t \in 1..NBrackets |-> <<>>], pairs |-> {}], [k \in 1..Len(s) |-> k])
  IN IF end.oc # "ok" \/ \E t \in 1..NBrackets : end.stacks[t] # <<>> THEN Result("Rejected", <<>>)
     ELSE Result("ok", SortPairs(end.pairs))

\* declarative: only dots and brackets; per bracket type every prefix has at least as many opening as
\* closing brackets and the whole string as many; an opening bracket pairs with the first later
\* position at which its type is balanced again
BasePairsFromDotBracket(s) ==
  LET n == Len(s)
      ot == TLCEval([k \in 1..n |-> OpenType(s[k])])
      ct == TLCEval([k \in 1..n |-> CloseType(s[k])])
      types == ({ot[k] : k \in 1..n} \cup {ct[k] : k \in 1..n}) \ {0}
      \* pre[t][k + 1] = opening minus closing brackets of type t among the first k characters
      pre == TLCEval([t \in types |->
                FoldLeft(LAMBDA acc, k : Append(acc, acc[k] + (IF ot[k] = t THEN 1 ELSE IF ct[k] = t THEN -1 ELSE 0)),
                         <<0>>, [k \in 1..n |-> k])])
      wellFormed == /\ \A k \in 1..n : s[k] = Dot \/ ot[k] # 0 \/ ct[k] # 0
                    /\ \A t \in types : pre[t][n + 1] = 0 /\ \A k \in 1..n : pre[t][k + 1] >= 0
      Partner(i) == Min({j \in (i + 1)..n : pre[ot[i]][j + 1] = pre[ot[i]][i]})
  IN IF ~wellFormed THEN Result("Rejected", <<>>)
     ELSE Result("ok", SortPairs({<<i - 1, Partner(i) - 1>> : i \in {k \in 1..n : ot[k] # 0}}))

Law_ParseImplDecl(s) == ParseImpl(s) = BasePairsFromDotBracket(s)
\* what an accepted notation yields: every bracket in exactly one pair, opening before closing, same
\* type, no crossing inside a type; writing the pairs back with their types gives the notation again
Law_ParseWellFormed(s) ==
  LET r == BasePairsFromDotBracket(s)
      P == ToSet(r.val)
  IN r.oc = "ok" =>
       /\ \A p \in P : p[1] < p[2] /\ OpenType(s[p[1] + 1]) # 0 /\ OpenType(s[p[1] + 1]) = CloseType(s[p[2] + 1])
       /\ \A p, q \in P : p # q => {p[1], p[2]} \cap {q[1], q[2]} = {}
       /\ \A p, q \in P : OpenType(s[p[1] + 1]) = OpenType(s[q[1] + 1]) => ~Crosses(p, q)
       /\ {p[1] : p \in P} \cup {p[2] : p \in P} = {k - 1 : k \in {k \in 1..Len(s) : s[k] # Dot}}
       /\ IsSorted(r.val, LAMBDA a, b : a[1] < b[1])
       /\ Render(r.val, Len(s), [i \in DOMAIN r.val |-> OpenType(s[r.val[i][1] + 1]) - 1]) = s

\* base_pairs_from_dot_bracket(dot_bracket(p)) gives back p (the pairs that got an order)
KeptPairs(bp, o) == SortPairs({Norm(bp[i]) : i \in {k \in DOMAIN bp : o[k] # -1}})
Law_RoundTrip(bp, len, rows) ==
  \A o \in rows : BasePairsFromDotBracket(Render(bp, len, o)) = Result("ok", KeptPairs(bp, o))
                  /\ ParseImpl(RenderImpl(bp, len, o)) = Result("ok", KeptPairs(bp, o))

(* ================================================================== dot_bracket_from_structure()
   with the detection of base pairs (base_pairs()) taken as given: resOf[a + 1] = position of the
   residue of atom a in the strand (0, 0, .., 1, 1, ..), ap = pairs of atom indices as base_pairs()
   reports them.  No base pair at all gives the one notation "" (as the code does, whatever the
   number of residues). *)
Dom_Structure(resOf, ap) ==
  /\ Len(resOf) > 0 /\ resOf[1] = 0 /\ \A a \in 1..(Len(resOf) - 1) : resOf[a + 1] - resOf[a] \in {0, 1}
  /\ \A i \in DOMAIN ap : ap[i][1] \in 0..(Len(resOf) - 1) /\ ap[i][2] \in 0..(Len(resOf) - 1)
ResiduePairs(resOf, ap) == [i \in DOMAIN ap |-> <<resOf[ap[i][1] + 1], resOf[ap[i][2] + 1]>>]
ResidueCount(resOf) == resOf[Len(resOf)] + 1
DotBracketFromStructure(resOf, ap, scOpt, maxo) ==
  IF Len(ap) = 0 THEN Result("ok", {<<>>})
  ELSE DotBracket(ResiduePairs(resOf, ap), ResidueCount(resOf), scOpt, maxo)
=============================================================================
