------------------------------- MODULE MCKnot -------------------------------
(* X02 S1/S2 for pseudoknots() / dot_bracket() / the round trip through
   base_pairs_from_dot_bracket().

   Init enumerates the inputs (phase 0); one step computes what the specification says (phase 1).
   Inputs:
     "unit"    every set of disjoint base pairs on the positions 0..NPos-1 (the empty set, nested,
               crossing, multiply crossing ones), default scores, in every presentation of Variants
               and every such set on 0..NPosOne-1 in presentation 2 only
               and every set that pairs all of the positions 0..NPosPerfect-1, rows sorted
     "scored"  every such set on 0..NPosScored-1 with every score vector over ScoreVals
     "short"   every such set on 0..NPosScored-1 with a strand one base too short (no maximum order)
   "unit" and "scored" with max_pseudoknot_order = None and every value of MaxOrderVals.
   Presentations (Present): 0 rows sorted, lower base first; 1 rows in reverse order, higher base
   first, positions spread out (2p + 1), strand longer than needed; 2 odd rows before even rows,
   every second row flipped, irregular gaps between the positions.
   The states of phase 1 are the cases of S2: the real functions are called with `inp`, and
   must return `res`. *)
EXTENDS Pseudoknot
CONSTANTS NPos, NPosOne, NPosPerfect, NPosScored, ScoreVals, MaxOrderVals, Variants
VARIABLES inp, res, phase
vars == <<inp, res, phase>>

RECURSIVE MatchingsOf(_)
MatchingsOf(P) ==
  IF Cardinality(P) < 2 THEN {{}}
  ELSE LET a == Min(P)  rest == P \ {a} IN
       MatchingsOf(rest) \cup UNION {{{<<a, b>>} \cup m : m \in MatchingsOf(rest \ {b})} : b \in rest}
Matchings(n) == MatchingsOf(0..(n - 1))
RECURSIVE PerfectOf(_)
PerfectOf(P) ==
  IF P = {} THEN {{}}
  ELSE LET a == Min(P)  rest == P \ {a} IN UNION {{{<<a, b>>} \cup m : m \in PerfectOf(rest \ {b})} : b \in rest}
PerfectMatchings(n) == IF n % 2 = 0 THEN PerfectOf(0..(n - 1)) ELSE {}

Stretch(p, v) == CASE v = 1 -> 2 * p + 1
                   [] v = 2 -> p + 5 * (p \div 3)
                   [] OTHER -> p
Present(m, v) ==
  LET rows == SetToSortSeq(m, LAMBDA a, b : a[1] < b[1])
      n == Len(rows)
      S(p) == <<Stretch(p[1], v), Stretch(p[2], v)>>
      F(p) == <<p[2], p[1]>>
      odd == SelectSeq([k \in 1..n |-> k], LAMBDA k : k % 2 = 1)
      even == SelectSeq([k \in 1..n |-> k], LAMBDA k : k % 2 = 0)
      perm == odd \o even
  IN CASE v = 1 -> [k \in 1..n |-> F(S(rows[n + 1 - k]))]
       [] v = 2 -> [k \in 1..n |-> IF k % 2 = 0 THEN F(S(rows[perm[k]])) ELSE S(rows[perm[k]])]
       [] OTHER -> rows
StrandLen(bp, v) == IF Len(bp) = 0 THEN 3 + v ELSE MaxPos(bp) + 1 + (IF v = 1 THEN 2 ELSE 0)

MaxOrders == {<<>>} \cup {<<m>> : m \in MaxOrderVals}
Case(kind, bp, scOpt, maxo, len) == [kind |-> kind, bp |-> bp, sc |-> scOpt, maxo |-> maxo, len |-> len]
NoRes == [pk |-> Result("ok", {}), db |-> Result("ok", {}), back |-> {}]

Init ==
  /\ phase = 0
  /\ res = NoRes
  /\ \/ \E m \in Matchings(NPos) : \E v \in Variants : \E maxo \in MaxOrders :
          \E bp \in {Present(m, v)} : inp = Case("unit", bp, <<>>, maxo, StrandLen(bp, v))
     \/ \E m \in Matchings(NPosOne) : \E maxo \in MaxOrders :
          \E bp \in {Present(m, 2)} : inp = Case("unit", bp, <<>>, maxo, StrandLen(bp, 2))
     \/ \E m \in PerfectMatchings(NPosPerfect) : \E maxo \in MaxOrders :
          \E bp \in {Present(m, 0)} : inp = Case("unit", bp, <<>>, maxo, StrandLen(bp, 0))
     \/ \E m \in Matchings(NPosScored) \ {{}} : \E maxo \in MaxOrders :
          \E bp \in {Present(m, 2)} : \E sc \in [1..Len(bp) -> ScoreVals] :
             inp = Case("scored", bp, <<sc>>, maxo, StrandLen(bp, 2))
     \/ \E m \in Matchings(NPosScored) \ {{}} :
          \E bp \in {Present(m, 0)} : inp = Case("short", bp, <<>>, <<>>, MaxPos(bp))

\* what the real functions have to return: the rows of pseudoknots(), the notations of dot_bracket(),
\* and for every notation the base pairs base_pairs_from_dot_bracket() reads from it
Compute(c) ==
  Bind(Pseudoknots(c.bp, c.sc, c.maxo), LAMBDA pk :
    Bind(DotBracketWith(c.bp, c.len, pk), LAMBDA db :
      [pk |-> pk, db |-> db, back |-> {<<s, BasePairsFromDotBracket(s)>> : s \in db.val}]))

Next == /\ phase = 0
        /\ phase' = 1
        /\ res' = Compute(inp)
        /\ UNCHANGED inp
Spec == Init /\ [][Next]_vars

(* ---------------------------------------------------------------- S1: laws on every case *)
SC == Scores(inp.sc, Len(inp.bp))
Done == phase = 1
InvDomain    == /\ Dom_Pairs(inp.bp) /\ Dom_Scores(inp.sc, Len(inp.bp)) /\ Dom_MaxOrder(inp.maxo)
                /\ DotBracketOutcomeSpecified(inp.bp, inp.len, inp.sc, inp.maxo)
                /\ (inp.kind # "short" => Dom_Length(inp.bp, inp.len))
InvImplDecl  == Done => /\ Law_ImplDecl(inp.bp, SC, inp.maxo)
                        /\ PseudoknotsImpl(inp.bp, inp.sc, inp.maxo) = res.pk
InvLevels    == Done => Law_Levels(inp.bp, SC, inp.maxo, res.pk.val) /\ Law_LevelOptimal(inp.bp, SC, res.pk.val)
InvTruncation == Done => (~IsNone(inp.maxo) => Law_Truncation(inp.bp, SC, Val(inp.maxo)))
InvPresentation == (Done /\ inp.kind = "scored") => Law_Presentation(inp.bp, SC, inp.maxo)
InvRegions   == Done => (Len(inp.bp) > 0 => Law_Regions(inp.bp, SC) /\ Law_Graph(inp.bp, SC))
InvRender    == Done => /\ res.pk.oc = "ok" /\ res.pk.val # {}
                        /\ res.db.oc = (IF inp.kind = "short" THEN "Rejected" ELSE "ok")
                        /\ (res.db.oc = "ok" =>
                              /\ Law_RenderImplDecl(inp.bp, inp.len, res.pk.val)
                              /\ Law_RenderInjective(inp.bp, inp.len, res.pk.val)
                              /\ Cardinality(res.db.val) = Cardinality(res.pk.val)
                              /\ \A s \in res.db.val : Len(s) = inp.len)
InvRoundTrip == Done => (res.db.oc = "ok" =>
                           /\ Law_RoundTrip(inp.bp, inp.len, res.pk.val)
                           /\ \A b \in res.back : Law_ParseImplDecl(b[1]) /\ Law_ParseWellFormed(b[1]))
=============================================================================
