SPECIFICATION Spec
CONSTANTS
  DeclMax = 12
CHECK_DEADLOCK FALSE
