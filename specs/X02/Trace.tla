------------------------------- MODULE Trace -------------------------------
(* X02 code -> spec: calls recorded from the real API, re-computed by the operators of Pseudoknot.
   Every event carries its arguments and is judged on its own; the events of one trace were
   executed one after the other in one process (a history of calls).  Field op:

   "pk"     pseudoknots(bp, sc, maxo): bp = rows as given, sc = <<>> (None) or <<scores>>, maxo = <<>> or <<m>>;
            obs = <<outcome, rows>>; same = the caller's arrays equal the copies taken before the call
   "db"     dot_bracket(bp, len, sc, maxo): obs = <<outcome, notations>> (a notation = sequence of characters);
            back = for every notation what base_pairs_from_dot_bracket() made of it, <<outcome, pairs>>; same
   "parse"  base_pairs_from_dot_bracket(s): obs = <<outcome, pairs>>
   "fs"     dot_bracket_from_structure(strand, sc, maxo) with base_pairs() replaced by the recorded
            atom pairs ap; resOf = residue position of every atom; obs = <<outcome, notations>>

   Up to DeclMax base pairs (and for pairs that all cross each other) the expected rows are the
   declarative ones (up to DeclMax the code-shaped definition is compared with them: last flag); beyond, the code-shaped definition, which S1
   shows to be the same on every bounded input, gives them, and every observed row must obey the
   documented laws (Law_Levels).
   PrintT(<<"MISMATCH", tid, l, flags, expected>>) for disagreements, PrintT(<<"DIAG", tid, l, what>>)
   for differences that carry no verdict. *)
EXTENDS Pseudoknot, Json, IOUtils
CONSTANT DeclMax

Tr == JsonDeserialize(IOEnv.TRACE_FILE)

VARIABLES tid, l
tvars == <<tid, l>>

AllTrue(flags) == \A q \in DOMAIN flags : flags[q]
Diag(cond, what) == IF cond THEN PrintT(<<"DIAG", tid, l + 1, what>>) ELSE TRUE

Dom_Call(bp, sc, maxo) == Dom_Pairs(bp) /\ Dom_MaxOrder(maxo)
                          /\ (Dom_Scores(sc, Len(bp)) \/ (~IsNone(sc) /\ Len(Val(sc)) # Len(bp)))
Small(bp) == Len(bp) <= DeclMax
\* (when every two pairs cross, the knot-free subsets are the single pairs: declarative at any size)
Ladder(bp) == \A i, j \in DOMAIN bp : i # j => Crosses(bp[i], bp[j])
Expected(bp, sc, maxo) == IF Small(bp) \/ Ladder(bp) THEN Pseudoknots(bp, sc, maxo) ELSE PseudoknotsImpl(bp, sc, maxo)
ImplDeclOK(bp, sc, maxo, exp) == (Small(bp) /\ exp.oc = "ok") => PseudoknotsImpl(bp, sc, maxo) = exp

JudgePk(e) ==
  \E dom \in {Dom_Call(e.bp, e.sc, e.maxo)} :
  \E exp \in {IF dom THEN Expected(e.bp, e.sc, e.maxo) ELSE Result("Rejected", {})} :
  \E rows \in {ToSet(e.obs[2])} :
  \E f \in {<<dom, e.obs[1] = exp.oc, rows = exp.val,
              e.obs[1] = "ok" /\ exp.oc = "ok" => Law_Levels(e.bp, Scores(e.sc, Len(e.bp)), e.maxo, rows),
              e.same, dom => ImplDeclOK(e.bp, e.sc, e.maxo, exp)>>} :
    /\ Diag(Cardinality(rows) # Len(e.obs[2]), "duplicate-rows")
    /\ IF AllTrue(f) THEN TRUE ELSE PrintT(<<"MISMATCH", tid, l + 1, f, exp>>)

\* the notations, and what the real parser made of each of them
JudgeNotations(e, bp, len, f0) ==
  \E dom \in {f0 /\ Dom_Call(bp, e.sc, e.maxo) /\ len \in Nat} :
  \E pk \in {IF dom THEN Expected(bp, e.sc, e.maxo) ELSE Result("Rejected", {})} :
  \E exp \in {DotBracketWith(bp, len, pk)} :
  \E notes \in {ToSet(e.obs[2])} :
  \E spec \in {dom /\ DotBracketOutcomeSpecified(bp, len, e.sc, e.maxo)} :
  \E f \in {<<dom, (spec \/ e.obs[1] = "ok") => e.obs[1] = exp.oc, e.obs[1] = "ok" => notes = exp.val,
              \A k \in DOMAIN e.back :
                 LET b == BasePairsFromDotBracket(e.obs[2][k]) IN
                 e.back[k][1] = b.oc /\ ToSet(e.back[k][2]) = ToSet(b.val),
              (e.obs[1] = "ok" /\ exp.oc = "ok") =>
                 /\ Len(e.back) = Len(e.obs[2])
                 /\ {ToSet(e.back[k][2]) : k \in DOMAIN e.back} = {ToSet(KeptPairs(bp, o)) : o \in pk.val}
                 /\ \A k \in DOMAIN e.back : e.back[k][1] = "ok",
              e.same, dom => ImplDeclOK(bp, e.sc, e.maxo, pk)>>} :
    /\ Diag(Cardinality(notes) # Len(e.obs[2]), "duplicate-notations")
    /\ Diag(\E k \in DOMAIN e.back : ~IsSorted(e.back[k][2], LAMBDA a, b : a[1] < b[1]), "pairs-unsorted")
    /\ IF AllTrue(f) THEN TRUE ELSE PrintT(<<"MISMATCH", tid, l + 1, f, exp>>)

JudgeDb(e) == JudgeNotations(e, e.bp, e.len, TRUE)
JudgeFs(e) ==
  \E dom \in {Dom_Structure(e.resOf, e.ap)} :
    IF dom /\ Len(e.ap) > 0 THEN JudgeNotations(e, ResiduePairs(e.resOf, e.ap), ResidueCount(e.resOf), TRUE)
    ELSE \E f \in {<<dom, e.obs[1] = "ok", ToSet(e.obs[2]) = {<<>>}, Len(e.back) = 1 /\ e.back[1] = <<"ok", <<>>>>,
                     TRUE, e.same, TRUE>>} :
           IF AllTrue(f) THEN TRUE ELSE PrintT(<<"MISMATCH", tid, l + 1, f, DotBracketFromStructure(e.resOf, e.ap, e.sc, e.maxo)>>)

JudgeParse(e) ==
  \E exp \in {BasePairsFromDotBracket(e.s)} :
  \E f \in {<<e.obs[1] = exp.oc, ToSet(e.obs[2]) = ToSet(exp.val), Law_ParseImplDecl(e.s)>>} :
    /\ Diag(e.obs[1] = "ok" /\ exp.oc = "ok" /\ e.obs[2] # exp.val, "pairs-unsorted")
    /\ IF AllTrue(f) THEN TRUE ELSE PrintT(<<"MISMATCH", tid, l + 1, f, exp>>)

Judge(e) ==
  CASE e.op = "pk" -> JudgePk(e)
    [] e.op = "db" -> JudgeDb(e)
    [] e.op = "fs" -> JudgeFs(e)
    [] e.op = "parse" -> JudgeParse(e)

Init == tid \in 1..Len(Tr) /\ l = 0
Next == /\ l < Len(Tr[tid])
        /\ Judge(Tr[tid][l + 1])
        /\ l' = l + 1
        /\ UNCHANGED tid
Spec == Init /\ [][Next]_tvars
=============================================================================
