SPECIFICATION Spec
CONSTANTS
  NPos = 9
  NPosOne = 10
  NPosPerfect = 10
  NPosScored = 7
  ScoreVals = {1, 2, 3}
  MaxOrderVals = {0, 1, 2}
  Variants = {0, 1, 2}
INVARIANT InvDomain
INVARIANT InvImplDecl
INVARIANT InvLevels
INVARIANT InvTruncation
INVARIANT InvPresentation
INVARIANT InvRegions
INVARIANT InvRender
INVARIANT InvRoundTrip
CHECK_DEADLOCK FALSE
