SPECIFICATION Spec
CONSTANTS
  LenWide = 5
  LenNarrow = 7
INVARIANT InvImplDecl
INVARIANT InvWellFormed
INVARIANT InvReadBack
CHECK_DEADLOCK FALSE
