SPECIFICATION Spec
CONSTANTS
  Depth = 3
  Rich = TRUE
INVARIANT InvWellFormed
INVARIANT InvLocsInSeq
INVARIANT InvSliceLawsHere
INVARIANT InvSlicePairsHere
INVARIANT InvRevCompHere
INVARIANT InvGetSetHere
PROPERTY RefusalIsNoOp
CHECK_DEADLOCK FALSE
