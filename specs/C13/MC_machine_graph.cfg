SPECIFICATION Spec
CONSTANTS
  Depth = 3
  Rich = FALSE
INVARIANT InvWellFormed
INVARIANT InvLocsInSeq
PROPERTY RefusalIsNoOp
CHECK_DEADLOCK FALSE
