------------------------------- MODULE AnnotSlice -------------------------------
(* C13, exhaustive single-call configuration.

   Every initial state is one case  c = [kind, ann, seq, start, op, a]  of the bounded
   universe together with the specification's answer  r = Apply(...).  TLC
     * checks the laws of AnnotSliceOps on every case (S1: the specified design has the
       property, the code-shaped definitions equal the per-base ones), and
     * dumps all (c, r) pairs; the driver executes each c against the real classes and
       compares with r (S2).
   Histories (slice of a slice, reverse complement of a slice, ...) are AnnotMachine.tla.  *)
EXTENDS AnnotSliceOps

CONSTANTS MaxLen,      \* annotated sequences of length 0..MaxLen
          Starts,      \* sequence starts
          Rich         \* TRUE: larger defect / location universe (thorough tier)

VARIABLES c, r
vars == <<c, r>>

(* ---------------------------------------------------------------- universes *)
Intervals(P) == {i \in P \X P : i[1] <= i[2]}
Defs1 == IF Rich THEN {{}, {"ML"}, {"MR"}, {"BL", "UNK"}, {"BR", "BTW"}, {"ML", "MR"}}
                 ELSE {{}, {"ML"}, {"MR", "BL"}, {"BR", "UNK", "BTW"}}
Defs2 == IF Rich THEN {{}, {"ML"}, {"MR"}} ELSE {{}}
LocsOver(P, D)     == {Loc(i[1], i[2], s, d) : i \in Intervals(P), s \in Strands, d \in D}
Feats1(P, k, D)    == {Feat(k, {l}) : l \in LocsOver(P, D)}
Feats2(P, k, D)    == {Feat(k, {l1, l2}) : l1 \in LocsOver(P, D), l2 \in LocsOver(P, D)}
\* three single-base locations on one strand (order of concatenation / writing matters)
Feats3(P, k)       == {Feat(k, {Loc(p[1], p[1], s, {}), Loc(p[2], p[2], s, {}), Loc(p[3], p[3], s, {})}) :
                         p \in {q \in P \X P \X P : q[1] < q[2] /\ q[2] < q[3]}, s \in Strands}
\* two features; equal keys on purpose: clipping can make two features equal (they collapse)
AnnPairs(P) ==
  IF P = {} THEN {} ELSE
  LET lo == Min(P)  hi == Max(P)
      G == {Feat("g", {Loc(i[1], i[2], "+", {})}) : i \in Intervals(P)}
             \cup {Feat("h", {Loc(lo, hi, "+", {})}), Feat("h", {Loc(lo, lo, "-", {"BR"})})}
  IN {{f, g} : f \in Feats1(P, "g", {{}}), g \in G} \ {{f} : f \in G}

AnnUniverse(P) == {{}} \cup {{f} : f \in Feats1(P, "g", Defs1) \cup Feats2(P, "g", Defs2) \cup Feats3(P, "t")}
                       \cup AnnPairs(P)

BaseSeqs == IF Rich THEN {<<0, 0, 2, 1, 3, 2>>, <<3, 1, 1, 0, 2, 0>>} ELSE {<<0, 0, 2, 1, 3, 2>>}
\* (the values written by setfeat / setint / setslice are XFor / NextSym of AnnotSliceOps)

UnambAnnSeqs == UNION {{AS(A, SubSeq(sn[1], 1, sn[3]), sn[2]) : A \in AnnUniverse(sn[2]..(sn[2] + sn[3] - 1))} :
                         sn \in BaseSeqs \X Starts \X (0..MaxLen)}

\* Symbol family: the calls whose result depends on the MEANING of the symbols (reverse strand
\* = complement) on sequences over both nucleotide alphabets.  Every one of the 15 codes occurs
\*  - alone (<<x>>: codes 0..3 give sequences with the unambiguous alphabet, 4..14 ambiguous),
\*  - in windows of a fixed permutation of all codes (order of reversal / concatenation).
\* The annotations are the ones that matter for reading / writing through a feature: one
\* location, two disjoint locations on one strand, three single-base locations; both strands.
SymRing     == <<10, 1, 12, 5, 4, 13, 6, 0, 8, 11, 2, 9, 14, 3, 7>>       \* H C V Y R D W A M B G K N T S
SymOffsets  == IF Rich THEN 0..11 ELSE {0, 4, 8, 11}
SymSeqs(n)  == IF n = 1 THEN {<<x>> : x \in AmbSyms}
               ELSE {SubSeq(SymRing, o + 1, o + n) : o \in {q \in SymOffsets : q + n <= 15}}
SymAnnUniverse(P) ==
  {{}} \cup {{f} : f \in Feats1(P, "g", {{}})
                      \cup {g \in Feats2(P, "g", {{}}) : Cardinality(g.locs) = 2 /\ SingleStrand(g) /\ DisjointLocs(g)}
                      \cup Feats3(P, "t")}
SymAnnSeqs == UNION {UNION {{AS(A, q, st) : A \in SymAnnUniverse(st..(st + n - 1))} : q \in SymSeqs(n)} :
                       <<st, n>> \in Starts \X (1..MaxLen)}
ASSUME UNION {{q[k] : k \in DOMAIN q} : q \in SymSeqs(MaxLen)} = AmbSyms \/ MaxLen < 4

AnnSeqs == UnambAnnSeqs \cup SymAnnSeqs

SliceArgs(lo, hi) == {ab \in OptInts(lo..hi) \X OptInts(lo..hi) : Dom_SliceOrdered(ab[1], ab[2])}

\* slicing does not look at the symbols: in the symbol family only the empty annotation and the
\* three-location features are sliced (every slice of the unambiguous family is enumerated)
SliceHere(S) == ~IsAmb(S.seq) \/ S.ann = {} \/ \E f \in S.ann : f.key = "t"
CallsAnnSeq(S) ==
       (IF ~SliceHere(S) THEN {} ELSE
        {<<"slice", ab>> : ab \in {x \in SliceArgs(S.start - 1, SeqEnd(S)) :
                                    \/ Dom_SliceInSeq(S, x[1], x[2])
                                    \/ (x[1] = Some(S.start - 1)             \* documented refusal
                                        /\ (IsNone(x[2]) \/ Val(x[2]) >= S.start))}})
  \cup {<<"getfeat", <<f>>>> : f \in {g \in S.ann : Dom_FeatIndex(S, g)}}
  \cup {<<"setfeat", <<f, XFor(S, FeatLen(f))>>>> : f \in {g \in S.ann : Dom_FeatIndex(S, g) /\ SingleStrand(g)}}
  \cup {<<"revcomp", <<s2>>>> : s2 \in {1, 2}}
  \cup {<<"copy", <<>>>>}
  \cup (IF S.ann # {} THEN {} ELSE     \* sequence-only calls do not depend on the annotation
          {<<"getint", <<p>>>> : p \in PosSet(S)}
     \cup {<<"setint", <<p, NextSym(S, p)>>>> : p \in PosSet(S)}
     \cup {<<"setslice", <<ab[1], ab[2], XFor(S, SliceHi(S, ab[2]) - SliceLo(S, ab[1]))>>>> :
             ab \in SliceArgs(S.start, SeqEnd(S))})

\* bare annotations: positions around zero, negative ones included
BarePos == IF Rich THEN -2..3 ELSE -2..2
BareAnns == {{}} \cup {{f} : f \in Feats1(BarePos, "g", Defs1) \cup Feats2(IF Rich THEN BarePos ELSE -1..1, "g", {{}})}
                 \cup AnnPairs(-1..1)
ProbeFeats == {Feat("g", {Loc(0, 0, "+", {})}), Feat("p", {Loc(-1, 1, "-", {"UNK"})})}
CallsAnnot(A) ==
       {<<"slice", ab>> : ab \in SliceArgs(-3, IF Rich THEN 4 ELSE 3)}
  \cup (IF Cardinality(A) = 1 /\ \E f \in A : Cardinality(f.locs) = 2 THEN {} ELSE
          {<<"copy", <<>>>>, <<"len", <<>>>>}
     \cup {<<"add", <<f>>>> : f \in ProbeFeats \cup A}
     \cup {<<"del", <<f>>>> : f \in ProbeFeats \cup A}
     \cup {<<"contains", <<f>>>> : f \in ProbeFeats \cup A}
     \cup {<<"plus", <<B>>>> : B \in {{}, ProbeFeats, A}}
     \cup (IF A = {} THEN {} ELSE {<<"range", <<>>>>}))

Case(kind, S, call) == [kind |-> kind, ann |-> S.ann, seq |-> S.seq, start |-> S.start,
                        op |-> call[1], a |-> call[2]]
S0 == AS(c.ann, c.seq, c.start)

\* Two levels: the initial states are the objects (op = "init"); one step applies one call.
\* (TLC computes initial states sequentially but successors with all workers; and nested
\* quantifiers instead of one big set of cases never compare argument tuples of different calls.)
Calls(kind, S) == IF kind = "annseq" THEN CallsAnnSeq(S) ELSE CallsAnnot(S.ann)
Init == /\ \/ \E S \in AnnSeqs : c = Case("annseq", S, <<"init", <<>>>>)
           \/ \E A \in BareAnns : c = Case("annot", AS(A, <<>>, 0), <<"init", <<>>>>)
        /\ r = Res(S0, "ok", <<>>)
Next == /\ c.op = "init"
        /\ \E call \in Calls(c.kind, S0) :
              /\ c' = Case(c.kind, S0, call)
              /\ r' = Apply(c.kind, S0, call[1], call[2])
Spec == Init /\ [][Next]_vars

(* ---------------------------------------------------------------- laws per case *)
IsSlice    == c.op = "slice"
InDomSlice == IsSlice /\ (c.kind = "annot" \/ Dom_SliceInSeq(S0, c.a[1], c.a[2]))
Inner(a, b) ==      \* slices nested in <<a, b>> (bounded)
  LET lo == IF IsNone(a) THEN (IF c.kind = "annot" THEN -3 ELSE c.start) ELSE Val(a)
      hi == IF IsNone(b) THEN (IF c.kind = "annot" THEN 4 ELSE SeqEnd(S0)) ELSE Val(b)
  IN {cd \in SliceArgs(lo, hi) : (IsNone(cd[1]) => IsNone(a)) /\ (IsNone(cd[2]) => IsNone(b))}

InvSliceImplDecl == InDomSlice => Law_SliceImplDecl(c.ann, c.a[1], c.a[2])
InvSliceBases    == InDomSlice => Law_SliceBases(c.ann, c.a[1], c.a[2])
InvSliceNested   == InDomSlice => \A cd \in Inner(c.a[1], c.a[2]) :
                                    Law_SliceNested(c.ann, c.a[1], c.a[2], cd[1], cd[2])
InvSliceASPairs  == (InDomSlice /\ c.kind = "annseq") => Law_SliceASPairs(S0, c.a[1], c.a[2])
InvSliceKeepsFeatureSeq ==
  (InDomSlice /\ c.kind = "annseq") =>
     \A f \in c.ann : (Dom_FeatIndex(S0, f) /\ SingleStrand(f)) =>
        Law_SliceKeepsFeatureSeq(S0, c.a[1], c.a[2], f)
InvGetImplDecl   == (c.op = "getfeat" /\ r.oc = "ok") => Law_GetImplDecl(S0, c.a[1])
InvSetGet        == c.op = "setfeat" => (Dom_SetFeature(S0, c.a[1], c.a[2]) /\ Law_SetGet(S0, c.a[1], c.a[2]))
InvRevComp       == c.op = "revcomp" => Law_RevComp(S0, c.a[1])
\* the written data of the configuration lie in the property's domain (alphabet of the target)
InvWriteDom      == /\ c.op = "setint" => Dom_WriteSym(S0, c.a[2]) /\ c.a[2] # SymAt(S0, c.a[1])
                    /\ c.op = "setslice" => Dom_Write(S0, c.a[3])
InvResult        == /\ WellFormedAnn(r.ann)
                    /\ r.oc \in {"ok", "Rejected"}
                    /\ (r.oc = "Rejected" => (r.ann = c.ann /\ r.seq = c.seq /\ r.start = c.start))
                    /\ (c.kind = "annseq" => Dom_LocsInSeq(AS(r.ann, r.seq, r.start)))
                    /\ Dom_Syms(r.seq)
=============================================================================
