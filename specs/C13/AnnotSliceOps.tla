---------------------------- MODULE AnnotSliceOps ----------------------------
(* C13: biotite.sequence.Location / Feature / Annotation / AnnotatedSequence.

   Per-base model.  Positions are integers (bare annotations: any integer, also negative;
   annotated sequences: the sequence occupies start .. start+Len(seq)-1).

     Location   [first, last, strand \in {"+","-"}, defect \subseteq DefectNames]
     Feature    [key, locs]            locs = non-empty SET of locations (the code's frozenset)
     Annotation SET of features        (the code's set; equal features collapse)
     AnnSeq     [ann, seq, start]      seq = sequence of nucleotide symbol codes 0..14
                                       (A C G T | R Y W S M K H B V D N, see "nucleotide symbols")

   Every public call is one operator; `Apply(kind, S, op, a)` dispatches and is total on the
   call universe of the configurations:  [ann, seq, start, oc, out], oc \in {"ok","Rejected"}.
   For kind = "annot" (a bare Annotation) only S.ann is meaningful (seq = <<>>, start = 0).

   Declarative ("Decl", per base) definitions state the property; implementation-shaped
   ("Impl") definitions follow the index arithmetic of annotation.py.  Model checking (S1)
   proves Impl = Decl on the bounded universe; the conformance stages compare the code with
   the Decl definitions.                                                                   *)
EXTENDS PyIndex, SequencesExt, FiniteSetsExt, TLC

Strands     == {"+", "-"}
DefectNames == {"ML", "MR", "BL", "BR", "UNK", "BTW"}   \* MISS_LEFT, MISS_RIGHT, BEYOND_LEFT,
                                                          \* BEYOND_RIGHT, UNK_LOC, BETWEEN

Loc(f, l, s, d) == [first |-> f, last |-> l, strand |-> s, defect |-> d]
Feat(k, locs)   == [key |-> k, locs |-> locs]
AS(ann, seq, start) == [ann |-> ann, seq |-> seq, start |-> start]

Bases(l)        == l.first .. l.last
FeatBases(f)    == UNION {Bases(l) : l \in f.locs}
AnnBases(A)     == UNION {FeatBases(f) : f \in A}
AllLocs(A)      == UNION {f.locs : f \in A}

WellFormedLoc(l)  == l.first <= l.last /\ l.strand \in Strands /\ l.defect \subseteq DefectNames
WellFormedFeat(f) == f.locs # {} /\ \A l \in f.locs : WellFormedLoc(l)
WellFormedAnn(A)  == \A f \in A : WellFormedFeat(f)

(* ------------------------------------------------------------------ slicing by position *)
\* A slice is a pair of optional integers <<a, b>>: positions p with a <= p < b, a missing
\* bound is unbounded IN POSITION COORDINATES.
InWin(p, a, b) == (IsNone(a) \/ p >= Val(a)) /\ (IsNone(b) \/ p < Val(b))

Dom_SliceOrdered(a, b) == IsNone(a) \/ IsNone(b) \/ Val(a) <= Val(b)

\* Declarative: keep exactly the bases inside the window; a side is marked as cut iff a base
\* of the location on that side of the kept bases was removed; nothing kept -> no location.
SliceLocDecl(l, a, b) ==
  LET K == {p \in Bases(l) : InWin(p, a, b)} IN
  IF K = {} THEN {}
  ELSE {Loc(Min(K), Max(K), l.strand,
            l.defect \cup (IF \E p \in Bases(l) : p < Min(K) THEN {"ML"} ELSE {})
                     \cup (IF \E p \in Bases(l) : p > Max(K) THEN {"MR"} ELSE {}))}

\* Implementation-shaped (Annotation.__getitem__): inclusive bounds i_first / i_last, overlap
\* test, clipping.  The code builds Location(first, last) and its constructor refuses
\* first > last; that refusal is the "bad" flag.
SliceLocImpl(l, a, b) ==
  LET hasA == ~IsNone(a)   hasB == ~IsNone(b)
      inScope == (~hasB \/ l.first <= Val(b) - 1) /\ (~hasA \/ l.last >= Val(a))
      cutL == hasA /\ l.first < Val(a)
      cutR == hasB /\ l.last > Val(b) - 1
      f2 == IF cutL THEN Val(a) ELSE l.first
      l2 == IF cutR THEN Val(b) - 1 ELSE l.last
  IN IF ~inScope THEN [bad |-> FALSE, locs |-> {}]
     ELSE [bad |-> f2 > l2,
           locs |-> {Loc(f2, l2, l.strand,
                         l.defect \cup (IF cutL THEN {"ML"} ELSE {}) \cup (IF cutR THEN {"MR"} ELSE {}))}]

SliceFeat(f, a, b) ==
  LET L2 == UNION {SliceLocDecl(l, a, b) : l \in f.locs} IN
  IF L2 = {} THEN {} ELSE {Feat(f.key, L2)}

SliceAnnot(A, a, b) == UNION {SliceFeat(f, a, b) : f \in A}

SliceAnnotImpl(A, a, b) ==
  LET R(f) == {SliceLocImpl(l, a, b) : l \in f.locs}
      L2(f) == UNION {r.locs : r \in R(f)}
  IN [bad |-> \E f \in A : \E r \in R(f) : r.bad,
      ann |-> {Feat(f.key, L2(f)) : f \in {g \in A : L2(g) # {}}}]

\* Known defect of the code's shape (findings.d/C13.json, C13-empty-slice-spanned): an empty
\* slice [a:a] inside a location makes the code construct Location(a, a-1) -> ValueError,
\* where the per-base model keeps no base and drops the feature.
KB_C13_EmptySliceSpanned(A, a, b) ==
  /\ ~IsNone(a) /\ ~IsNone(b) /\ Val(a) = Val(b)
  /\ \E l \in AllLocs(A) : l.first < Val(a) /\ Val(a) <= l.last

(* ------------------------------------------------------------------ annotated sequences *)
SeqEnd(S)   == S.start + Len(S.seq)                 \* exclusive end position
PosSet(S)   == S.start .. (SeqEnd(S) - 1)
SymAt(S, p) == S.seq[p - S.start + 1]
\* symbols at the inclusive position range lo..hi
SubSeqPos(S, lo, hi) == [k \in 1..(hi - lo + 1) |-> SymAt(S, lo + k - 1)]

Dom_LocsInSeq(S)    == AnnBases(S.ann) \subseteq PosSet(S)
\* features may begin upstream of a non-empty sequence but end inside it; only slicing, copying, reading
\* a symbol and deleting a feature are driven on such objects (an omitted start is "no bound on the left":
\* the upstream bases stay and no MISS_LEFT is set, exactly as Annotation[:b] does)
Dom_LeftOverhang(S) == Len(S.seq) >= 1 /\ \A p \in AnnBases(S.ann) : p < SeqEnd(S)
Dom_FeatInSeq(S, f) == FeatBases(f) \subseteq PosSet(S)
\* "all slices ... within the sequence": given bounds lie in start..end and are ordered
Dom_SliceInSeq(S, a, b) ==
  /\ (IsNone(a) \/ Val(a) \in S.start..SeqEnd(S))
  /\ (IsNone(b) \/ Val(b) \in S.start..SeqEnd(S))
  /\ Dom_SliceOrdered(a, b)

SliceLo(S, a) == IF IsNone(a) THEN S.start ELSE Val(a)
SliceHi(S, b) == IF IsNone(b) THEN SeqEnd(S) ELSE Val(b)

\* Declarative: the sub-annotation paired with the symbols at the positions of the window,
\* first symbol at position a (or the old start)
SliceAS(S, a, b) ==
  AS(SliceAnnot(S.ann, a, b), SubSeqPos(S, SliceLo(S, a), SliceHi(S, b) - 1), SliceLo(S, a))

\* Implementation-shaped (AnnotatedSequence.__getitem__, slice branch): 0-based index
\* arithmetic on the sequence; the annotation is sliced with the same index object
SliceASImpl(S, a, b) ==
  LET i0 == IF IsNone(a) THEN 0 ELSE Val(a) - S.start
      i1 == IF IsNone(b) THEN Len(S.seq) ELSE Val(b) - S.start
  IN AS(SliceAnnot(S.ann, a, b), SubSeq(S.seq, i0 + 1, i1), IF IsNone(a) THEN S.start ELSE Val(a))

(* ------------------------------------------------------------------ nucleotide symbols   *)
\* A symbol is its index in the IUPAC letter list  A C G T R Y W S M K H B V D N  (the driver
\* maps codes <-> letters).  Codes 0..3 are the unambiguous alphabet, 0..14 the ambiguous one;
\* a NucleotideSequence built from letters has the unambiguous alphabet iff all its symbols
\* are in 0..3 (the constructor's default), so the alphabet is a function of the symbols.
UnambSyms == 0..3
AmbSyms   == 0..14
\* IUPAC meaning of a code: the set of bases (0..3) it stands for
BaseSet(x) ==
  CASE x \in 0..3 -> {x}
    [] x = 4  -> {0, 2}          \* R  purine        A/G
    [] x = 5  -> {1, 3}          \* Y  pyrimidine    C/T
    [] x = 6  -> {0, 3}          \* W  weak          A/T
    [] x = 7  -> {1, 2}          \* S  strong        C/G
    [] x = 8  -> {0, 1}          \* M  amino         A/C
    [] x = 9  -> {2, 3}          \* K  keto          G/T
    [] x = 10 -> {0, 1, 3}       \* H  not G
    [] x = 11 -> {1, 2, 3}       \* B  not A
    [] x = 12 -> {0, 1, 2}       \* V  not T
    [] x = 13 -> {0, 2, 3}       \* D  not C
    [] x = 14 -> {0, 1, 2, 3}    \* N  any
CompBase(b) == 3 - b                                    \* A<->T, C<->G
\* complement of a code = the code of the complemented base set (evaluated once, as a table)
CompTab == [x \in AmbSyms |-> CHOOSE y \in AmbSyms : BaseSet(y) = {CompBase(b) : b \in BaseSet(x)}]
Comp(x) == CompTab[x]
\* the 15 codes are exactly the non-empty sets of bases, so Comp is total and well defined
ASSUME {BaseSet(x) : x \in AmbSyms} = (SUBSET UnambSyms) \ {{}}
ASSUME \A x, y \in AmbSyms : BaseSet(x) = BaseSet(y) => x = y
ASSUME \A x \in AmbSyms : BaseSet(Comp(x)) = {CompBase(b) : b \in BaseSet(x)}
ASSUME \A x \in AmbSyms : Comp(Comp(x)) = x /\ (x \in UnambSyms => Comp(x) = 3 - x)
\* the documented table NucleotideSequence.compl_symbol_dict:
\*   A-T C-G  M-K R-Y W-W S-S  V-B H-D  N-N
ASSUME <<Comp(8), Comp(4), Comp(6), Comp(7), Comp(12), Comp(10), Comp(14)>> = <<9, 5, 6, 7, 11, 13, 14>>

IsAmb(s)        == \E k \in DOMAIN s : s[k] > 3        \* needs the ambiguous alphabet
Dom_Syms(s)     == \A k \in DOMAIN s : s[k] \in AmbSyms
\* a written value must fit the alphabet of the target: Sequence.__setitem__ copies the codes of
\* the value without looking at its alphabet, so ambiguous symbols may only be written into a
\* sequence that (visibly) has the ambiguous alphabet
Dom_Write(S, x)    == Dom_Syms(x) /\ (IsAmb(x) => IsAmb(S.seq))
Dom_WriteSym(S, y) == y \in AmbSyms /\ (y > 3 => IsAmb(S.seq))

\* values used as written data by the configurations (any value of the right length would do):
\* unambiguous targets get a fixed unambiguous pattern, ambiguous targets a value that runs
\* over all 15 codes as the target's own symbols do (n <= Len(S.seq))
XSeq(n)       == SubSeq(<<1, 3, 0, 2, 1, 0, 3, 3>>, 1, n)
XFor(S, n)    == IF IsAmb(S.seq) THEN [k \in 1..n |-> (S.seq[k] + 7) % 15] ELSE XSeq(n)
NextSym(S, p) == LET y == S.seq[p - S.start + 1] IN IF IsAmb(S.seq) THEN (y + 4) % 15 ELSE (y + 1) % 4

(* ------------------------------------------------------------------ feature index       *)
RevSeq(s)     == [k \in 1..Len(s) |-> s[Len(s) + 1 - k]]
RevCompSeq(s) == [k \in 1..Len(s) |-> Comp(s[Len(s) + 1 - k])]

SingleStrand(f) == \A l1, l2 \in f.locs : l1.strand = l2.strand
StrandOf(f)     == (CHOOSE l \in f.locs : TRUE).strand
DisjointLocs(f) == \A l1, l2 \in f.locs : l1 = l2 \/ Bases(l1) \cap Bases(l2) = {}
FeatLen(f)      == Cardinality(FeatBases(f))

\* biological order is only defined for locations that do not overlap
Dom_FeatIndex(S, f) == WellFormedFeat(f) /\ Dom_FeatInSeq(S, f) /\ DisjointLocs(f)

\* Implementation-shaped (AnnotatedSequence.__getitem__, Feature branch): sort the locations
\* (ascending first / descending last), cut each piece, reverse-complement reverse pieces,
\* concatenate.
OrderedLocs(f) ==
  SetToSortSeq(f.locs, LAMBDA x, y : IF StrandOf(f) = "+" THEN x.first < y.first ELSE x.last > y.last)
LocSeq(S, l) ==
  LET s == SubSeqPos(S, l.first, l.last) IN IF l.strand = "+" THEN s ELSE RevCompSeq(s)
GetFeatureImpl(S, f) ==
  LET ord == OrderedLocs(f) IN FlattenSeq([k \in DOMAIN ord |-> LocSeq(S, ord[k])])

\* Declarative: the covered positions in reading direction (ascending on the forward strand,
\* descending on the reverse strand) ...
BioPos(f) ==
  SetToSortSeq(FeatBases(f), LAMBDA p, q : IF StrandOf(f) = "+" THEN p < q ELSE p > q)
\* ... read (complemented on the reverse strand)
GetFeature(S, f) ==
  LET P == BioPos(f) IN
  [k \in DOMAIN P |-> IF StrandOf(f) = "+" THEN SymAt(S, P[k]) ELSE Comp(SymAt(S, P[k]))]

\* ... and written: afterwards GetFeature returns x, every other base is untouched
Dom_SetFeature(S, f, x) == Dom_FeatIndex(S, f) /\ SingleStrand(f) /\ Len(x) = FeatLen(f) /\ Dom_Write(S, x)
SetFeature(S, f, x) ==
  LET P == BioPos(f)
      IdxOf(p) == CHOOSE k \in DOMAIN P : P[k] = p
      new == [i \in DOMAIN S.seq |->
                LET p == S.start + i - 1 IN
                IF p \in FeatBases(f)
                  THEN (IF StrandOf(f) = "+" THEN x[IdxOf(p)] ELSE Comp(x[IdxOf(p)]))
                  ELSE S.seq[i]]
  IN AS(S.ann, new, S.start)

(* ------------------------------------------------------------------ reverse complement  *)
SwapDefect(d) == CASE d = "ML" -> "MR" [] d = "MR" -> "ML" [] d = "BL" -> "BR" [] d = "BR" -> "BL"
                   [] OTHER -> d
FlipStrand(s) == IF s = "+" THEN "-" ELSE "+"
\* position of base p of S in S.reverse_complement(s2)
MirrorPos(S, p, s2) == s2 + (SeqEnd(S) - 1 - p)

\* implementation-shaped: the arithmetic of reverse_complement()
RevLoc(S, l, s2) ==
  Loc((Len(S.seq) - 1) - (l.last - S.start) + s2, (Len(S.seq) - 1) - (l.first - S.start) + s2,
      FlipStrand(l.strand), {SwapDefect(d) : d \in l.defect})
RevFeat(S, f, s2) == Feat(f.key, {RevLoc(S, l, s2) : l \in f.locs})
RevCompAS(S, s2)  == AS({RevFeat(S, f, s2) : f \in S.ann}, RevCompSeq(S.seq), s2)

(* ------------------------------------------------------------------ Annotation container *)
LocationRange(A) == <<Min({l.first : l \in AllLocs(A)}), Max({l.last : l \in AllLocs(A)}) + 1>>

(* ------------------------------------------------------------------ dispatcher           *)
Res(S, oc, out)  == [ann |-> S.ann, seq |-> S.seq, start |-> S.start, oc |-> oc, out |-> out]
Refuse(S)        == Res(S, "Rejected", <<>>)
CopyOut          == [eq |-> TRUE, indep |-> TRUE]

Apply(kind, S, op, a) ==
  CASE op = "construct" -> Res(AS(a[1], a[2], a[3]), "ok", <<>>)     \* a = <<ann, seq, start>>
    [] op = "slice" ->                            \* a = <<optA, optB>>
         IF kind = "annot" THEN Res(AS(SliceAnnot(S.ann, a[1], a[2]), S.seq, S.start), "ok", <<>>)
         ELSE IF ~IsNone(a[1]) /\ Val(a[1]) < S.start THEN Refuse(S)   \* documented IndexError
         ELSE Res(SliceAS(S, a[1], a[2]), "ok", <<>>)
    [] op = "getfeat" ->                          \* a = <<f>>
         IF ~SingleStrand(a[1]) THEN Refuse(S) ELSE Res(S, "ok", GetFeature(S, a[1]))
    [] op = "setfeat" ->                          \* a = <<f, x>>
         Res(SetFeature(S, a[1], a[2]), "ok", <<>>)
    [] op = "getint" -> Res(S, "ok", SymAt(S, a[1]))                 \* a = <<p>>
    [] op = "setint" ->                           \* a = <<p, sym>>
         Res(AS(S.ann, [S.seq EXCEPT ![a[1] - S.start + 1] = a[2]], S.start), "ok", <<>>)
    [] op = "setslice" ->                         \* a = <<optA, optB, x>>, Len(x) = window length
         LET lo == SliceLo(S, a[1])  hi == SliceHi(S, a[2]) IN
         Res(AS(S.ann, [i \in DOMAIN S.seq |->
                          LET p == S.start + i - 1 IN IF p >= lo /\ p < hi THEN a[3][p - lo + 1] ELSE S.seq[i]],
                S.start), "ok", <<>>)
    [] op = "revcomp" -> Res(RevCompAS(S, a[1]), "ok", <<>>)         \* a = <<newstart>>
    [] op = "copy" -> Res(S, "ok", CopyOut)
    [] op = "add" -> Res(AS(S.ann \cup {a[1]}, S.seq, S.start), "ok", <<>>)        \* add_feature / +=
    [] op = "del" ->                              \* del_feature / del annot[f]: KeyError if absent
         IF a[1] \in S.ann THEN Res(AS(S.ann \ {a[1]}, S.seq, S.start), "ok", <<>>) ELSE Refuse(S)
    [] op = "plus" -> Res(AS(S.ann \cup a[1], S.seq, S.start), "ok", <<>>)          \* annot + Annotation(a[1])
    [] op = "range" -> Res(S, "ok", LocationRange(S.ann))           \* Dom: S.ann # {}
    [] op = "contains" -> Res(S, "ok", a[1] \in S.ann)
    [] op = "len" -> Res(S, "ok", Cardinality(S.ann))

(* ------------------------------------------------------------------ laws (checked in S1) *)
\* L1  code-shaped clipping = per-base definition (or the recorded empty-slice defect)
Law_SliceImplDecl(A, a, b) ==
  LET r == SliceAnnotImpl(A, a, b) IN
  IF KB_C13_EmptySliceSpanned(A, a, b) THEN r.bad
  ELSE ~r.bad /\ r.ann = SliceAnnot(A, a, b)
\* L2  slicing commutes with taking bases, nothing is invented, cut marks are exact
Law_SliceBases(A, a, b) ==
  LET A2 == SliceAnnot(A, a, b) IN
  /\ WellFormedAnn(A2)
  /\ AnnBases(A2) = {p \in AnnBases(A) : InWin(p, a, b)}
  /\ \A f \in A : FeatBases(f) \cap {p \in AnnBases(A) : InWin(p, a, b)} # {} =>
        \E g \in A2 : g.key = f.key /\ FeatBases(g) = {p \in FeatBases(f) : InWin(p, a, b)}
\* L3  a nested slice equals the direct one (also for the cut marks)
Law_SliceNested(A, a, b, c, d) == SliceAnnot(SliceAnnot(A, a, b), c, d) = SliceAnnot(A, c, d)
\* L4  annotated sequence: the result pairs exactly the window's positions with their symbols
Law_SliceASPairs(S, a, b) ==
  LET S2 == SliceAS(S, a, b) IN
  /\ S2 = SliceASImpl(S, a, b)
  /\ PosSet(S2) = {p \in PosSet(S) : InWin(p, a, b)}
  /\ \A p \in PosSet(S2) : SymAt(S2, p) = SymAt(S, p)
  /\ (Dom_LocsInSeq(S) => Dom_LocsInSeq(S2))
\* L5  a feature that lies inside the window reads the same from the sliced object
Law_SliceKeepsFeatureSeq(S, a, b, f) ==
  (\A p \in FeatBases(f) : InWin(p, a, b)) => GetFeature(SliceAS(S, a, b), f) = GetFeature(S, f)
\* L6  code-shaped concatenation = per-base reading
Law_GetImplDecl(S, f) == GetFeatureImpl(S, f) = GetFeature(S, f)
\* L7  write then read; other bases untouched
Law_SetGet(S, f, x) ==
  LET S2 == SetFeature(S, f, x) IN
  /\ GetFeature(S2, f) = x
  /\ Len(S2.seq) = Len(S.seq)
  /\ \A p \in PosSet(S) \ FeatBases(f) : SymAt(S2, p) = SymAt(S, p)
\* L8  reverse complement: involution, per-base mirror, and features read the same
Law_RevComp(S, s2) ==
  LET R == RevCompAS(S, s2) IN
  /\ RevCompAS(R, S.start) = S
  /\ PosSet(R) = {MirrorPos(S, p, s2) : p \in PosSet(S)}
  /\ \A p \in PosSet(S) : SymAt(R, MirrorPos(S, p, s2)) = Comp(SymAt(S, p))
  /\ \A f \in S.ann : \A l \in f.locs :
        Bases(RevLoc(S, l, s2)) = {MirrorPos(S, p, s2) : p \in Bases(l)}
  /\ \A f \in S.ann : (Dom_FeatIndex(S, f) /\ SingleStrand(f)) =>
        GetFeature(R, RevFeat(S, f, s2)) = GetFeature(S, f)

(* documented examples (docstrings of Annotation / AnnotatedSequence) pin the operators *)
ASSUME SliceAnnot({Feat("t5", {Loc(-50, 200, "+", {})}), Feat("t2", {Loc(20, 50, "+", {})}),
                   Feat("t1", {Loc(-10, 30, "+", {})}), Feat("t3", {Loc(100, 130, "+", {})}),
                   Feat("t4", {Loc(150, 250, "+", {})})}, Some(40), Some(150))
        = {Feat("t5", {Loc(40, 149, "+", {"ML", "MR"})}), Feat("t2", {Loc(40, 50, "+", {"ML"})}),
           Feat("t3", {Loc(100, 130, "+", {})})}
\* ATGGCGTACGATTAGAAAAAAA ; annot_seq[feature1] = "ATAT"; annot_seq[2] = "T"
DocSeq == <<0,3,2,2,1,2,3,0,1,2,0,3,3,0,2,0,0,0,0,0,0,0>>
DocF1  == Feat("walker", {Loc(1, 2, "+", {}), Loc(11, 12, "+", {})})
ASSUME GetFeature(AS({DocF1}, DocSeq, 1), DocF1) = <<0, 3, 0, 3>>
ASSUME GetFeatureImpl(AS({DocF1}, DocSeq, 1), DocF1) = <<0, 3, 0, 3>>
ASSUME SymAt(AS({}, DocSeq, 1), 2) = 3
ASSUME SliceAS(AS({DocF1}, DocSeq, 1), None, Some(16)).seq = SubSeq(DocSeq, 1, 15)
ASSUME SetFeature(AS({DocF1}, DocSeq, 1), DocF1, <<1,1,1,1>>).seq
         = <<1,1,2,2,1,2,3,0,1,2,1,1,3,0,2,0,0,0,0,0,0,0>>
=============================================================================
