SPECIFICATION Spec
CONSTANTS
  Depth = 3
  Rich = TRUE
INVARIANT InvWellFormed
INVARIANT InvLocsInSeq
PROPERTY RefusalIsNoOp
CHECK_DEADLOCK FALSE
