------------------------------ MODULE AnnotMachine ------------------------------
(* C13, histories: Annotation / AnnotatedSequence as a state machine over AnnotSliceOps.Apply.
   A behaviour starts from one of a few objects and applies up to Depth public calls
   (slice of a slice, slice of a reverse complement, write through a clipped feature, ...).
   TLC checks the invariants on every reachable state; every transition of the state graph
   is replayed against the real classes (S2).

   Calls that refer to "the feature with key k of the current annotation" (getfeatk, setfeatk,
   delk) are resolved against the current state, so the feature objects used as indices are
   the clipped / mirrored ones produced by earlier calls.                                   *)
EXTENDS AnnotSliceOps

CONSTANTS Depth,       \* maximum number of calls per behaviour
          Rich         \* TRUE: more initial objects and arguments (thorough tier)

VARIABLES kind, ann, seq, start, oc, out, steps
vars == <<kind, ann, seq, start, oc, out, steps>>
Cur  == AS(ann, seq, start)

(* ---------------------------------------------------------------- initial objects *)
O1 == AS({Feat("g", {Loc(1, 2, "+", {}), Loc(4, 4, "+", {})}), Feat("h", {Loc(2, 4, "-", {"BL"})})},
         <<0, 0, 2, 1>>, 1)
O2 == AS({Feat("r", {Loc(3, 3, "-", {}), Loc(5, 6, "-", {})}), Feat("g", {Loc(3, 7, "+", {"UNK"})})},
         <<0, 0, 2, 1, 3>>, 3)
O3 == AS({Feat("t", {Loc(2, 2, "+", {}), Loc(4, 4, "+", {"BR"}), Loc(1, 1, "+", {})})}, <<2, 1, 3, 3>>, 1)
\* a sequence over the ambiguous alphabet (H D V B) under reverse-strand pieces
O4 == AS({Feat("r", {Loc(1, 2, "-", {}), Loc(4, 4, "-", {"MR"})})}, <<10, 13, 12, 11>>, 1)
B1 == AS({Feat("g", {Loc(-1, 2, "+", {})}), Feat("h", {Loc(0, 0, "-", {"BR"}), Loc(2, 3, "-", {})})}, <<>>, 0)
B2 == AS({}, <<>>, 0)
InitObjs == IF Rich THEN {<<"annseq", O1>>, <<"annseq", O2>>, <<"annseq", O3>>, <<"annseq", O4>>,
                          <<"annot", B1>>, <<"annot", B2>>}
                    ELSE {<<"annseq", O1>>, <<"annseq", O2>>, <<"annseq", O4>>, <<"annot", B1>>}

(* ---------------------------------------------------------------- call universe (constant) *)
Keys == {"g", "h", "r", "t", "x"}
FX == Feat("x", {Loc(2, 3, "+", {})})
FM == Feat("m", {Loc(3, 3, "+", {}), Loc(4, 4, "-", {})})          \* mixed strands: refused by getfeat
FN == Feat("x", {Loc(-2, 0, "-", {"ML"})})

SlicePairs(lo, hi) == {ab \in OptInts(lo..hi) \X OptInts(lo..hi) : Dom_SliceOrdered(ab[1], ab[2])}
\* the machine's slice calls: every single slice is already enumerated by AnnotSlice.tla; as
\* steps of a history the windows of width 1 are left out unless Rich (keeps the graph small)
StepPairs(lo, hi) == {ab \in SlicePairs(lo, hi) :
                        Rich \/ IsNone(ab[1]) \/ IsNone(ab[2]) \/ Val(ab[2]) - Val(ab[1]) # 1}

CallsSeq ==
       {<<"annseq", "slice", ab>> : ab \in StepPairs(0, 8)}
  \cup {<<"annseq", "getfeatk", <<k>>>> : k \in Keys}
  \cup {<<"annseq", "setfeatk", <<k>>>> : k \in Keys}
  \cup {<<"annseq", "getfeat", <<f>>>> : f \in {FX, FM}}
  \cup {<<"annseq", "add", <<f>>>> : f \in {FX, FM}}
  \cup {<<"annseq", "delk", <<k>>>> : k \in {"g", "x"}}
  \cup {<<"annseq", "revcomp", <<s2>>>> : s2 \in {1, 2}}
  \cup {<<"annseq", "copy", <<>>>>}
  \cup {<<"annseq", "getint", <<p>>>> : p \in {1, 4, 5}}
  \cup {<<"annseq", "setintk", <<p>>>> : p \in {2, 5}}
  \cup {<<"annseq", "setslicek", ab>> : ab \in {<<None, Some(3)>>, <<Some(4), None>>, <<Some(2), Some(4)>>}}
CallsBare ==
       {<<"annot", "slice", ab>> : ab \in StepPairs(-2, 4)}
  \cup {<<"annot", "add", <<f>>>> : f \in {FX, FN}}
  \cup {<<"annot", "del", <<f>>>> : f \in {FX, FN}}
  \cup {<<"annot", "delk", <<k>>>> : k \in {"g", "h"}}
  \cup {<<"annot", "contains", <<f>>>> : f \in {FX, FN}}
  \cup {<<"annot", "plus", <<B>>>> : B \in {{}, {FX, FN}, B1.ann}}
  \cup {<<"annot", "range", <<>>>>, <<"annot", "len", <<>>>>, <<"annot", "copy", <<>>>>}
AllCalls == CallsSeq \cup CallsBare

HasKey(S, k)   == Cardinality({f \in S.ann : f.key = k}) = 1
FeatByKey(S, k) == CHOOSE f \in S.ann : f.key = k

\* the call is in the property's domain in state S (cheap tests first)
Enabled(S, op, a) ==
  CASE op = "slice" ->
         IF kind = "annot" THEN TRUE
         ELSE Dom_SliceInSeq(S, a[1], a[2]) \/ (~IsNone(a[1]) /\ Val(a[1]) = S.start - 1
                                                 /\ (IsNone(a[2]) \/ Val(a[2]) \in S.start..SeqEnd(S)))
    [] op = "getfeatk" -> HasKey(S, a[1]) /\ Dom_FeatIndex(S, FeatByKey(S, a[1]))
    [] op = "setfeatk" -> HasKey(S, a[1]) /\ Dom_FeatIndex(S, FeatByKey(S, a[1]))
                                          /\ SingleStrand(FeatByKey(S, a[1]))
    [] op = "getfeat"  -> Dom_FeatIndex(S, a[1])
    [] op = "add"      -> kind = "annot" \/ Dom_FeatInSeq(S, a[1])
    [] op = "delk"     -> HasKey(S, a[1])
    [] op = "getint"   -> a[1] \in PosSet(S)
    [] op = "setintk"  -> a[1] \in PosSet(S)
    [] op = "setslicek" -> Dom_SliceInSeq(S, a[1], a[2])
    [] op = "range"    -> S.ann # {}
    [] OTHER -> TRUE

\* resolve the state-relative calls to calls of Apply
Concrete(S, op, a) ==
  CASE op = "getfeatk" -> <<"getfeat", <<FeatByKey(S, a[1])>>>>
    [] op = "setfeatk" -> <<"setfeat", <<FeatByKey(S, a[1]), XFor(S, FeatLen(FeatByKey(S, a[1])))>>>>
    [] op = "delk"     -> <<"del", <<FeatByKey(S, a[1])>>>>
    [] op = "setintk"  -> <<"setint", <<a[1], NextSym(S, a[1])>>>>
    [] op = "setslicek" -> <<"setslice", <<a[1], a[2], XFor(S, SliceHi(S, a[2]) - SliceLo(S, a[1]))>>>>
    [] OTHER -> <<op, a>>

\* what the driver has to pass for the state-relative writes is published in `out`
Written(cc) == CASE cc[1] = "setfeat" -> cc[2][2] [] cc[1] = "setint" -> cc[2][2]
                 [] cc[1] = "setslice" -> cc[2][3] [] OTHER -> <<>>

\* "= TRUE": the guard is evaluated as a value.  As a bare action conjunct TLC would explore
\* every disjunct of the guard (no short circuit) and evaluate Val(None).
Do(op, a) ==
  /\ Enabled(Cur, op, a) = TRUE
  /\ LET cc == Concrete(Cur, op, a)
         res == Apply(kind, Cur, cc[1], cc[2])
     IN /\ ann' = res.ann /\ seq' = res.seq /\ start' = res.start /\ oc' = res.oc
        /\ out' = IF cc[1] \in {"setfeat", "setint", "setslice"} THEN Written(cc) ELSE res.out
  /\ UNCHANGED kind
  /\ steps' = steps + 1

Init == /\ \E o \in InitObjs : kind = o[1] /\ ann = o[2].ann /\ seq = o[2].seq /\ start = o[2].start
        /\ oc = "ok" /\ out = <<>> /\ steps = 0
Call(cl) == steps < Depth /\ cl[1] = kind /\ Do(cl[2], cl[3])
\* The depth is bounded by a counter in the state and not by a CONSTRAINT on TLCGet("level"):
\* TLC evaluates every invariant on each successor that a CONSTRAINT discards, every time it
\* is generated (measured: 13-28 s per law invariant instead of < 1 s).
Next == \E cl \in AllCalls : Call(cl)
Spec == Init /\ [][Next]_vars

(* ---------------------------------------------------------------- properties *)
InvWellFormed == WellFormedAnn(ann)
\* the domain assumption "locations lie within the sequence" is closed under all calls
InvLocsInSeq  == kind = "annseq" => (Dom_LocsInSeq(Cur) /\ Dom_Syms(seq))
RefusalIsNoOp == [][oc' # "ok" => (ann' = ann /\ seq' = seq /\ start' = start)]_vars
\* the laws hold at every reachable object, not only at the hand-made ones
HereSlices == IF kind = "annot" THEN SlicePairs(-2, 4) ELSE SlicePairs(start, SeqEnd(Cur))
InvSliceLawsHere ==
  \A ab \in HereSlices : Law_SliceImplDecl(ann, ab[1], ab[2]) /\ Law_SliceBases(ann, ab[1], ab[2])
InvSlicePairsHere == kind = "annseq" => \A ab \in HereSlices : Law_SliceASPairs(Cur, ab[1], ab[2])
InvRevCompHere == kind = "annseq" => Law_RevComp(Cur, 2)
InvGetSetHere ==
  kind = "annseq" =>
    \A f \in ann : (Dom_FeatIndex(Cur, f) /\ SingleStrand(f)) =>
       Law_GetImplDecl(Cur, f) /\ Law_SetGet(Cur, f, XFor(Cur, FeatLen(f)))
=============================================================================
