SPECIFICATION Spec
CONSTANTS
  MaxLen = 4
  Starts = {1, 3}
  Rich = FALSE
INVARIANT InvSliceImplDecl
INVARIANT InvSliceBases
INVARIANT InvSliceNested
INVARIANT InvSliceASPairs
INVARIANT InvSliceKeepsFeatureSeq
INVARIANT InvGetImplDecl
INVARIANT InvSetGet
INVARIANT InvRevComp
INVARIANT InvWriteDom
INVARIANT InvResult
CHECK_DEADLOCK FALSE
