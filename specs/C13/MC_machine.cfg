SPECIFICATION Spec
CONSTANTS
  Depth = 2
  Rich = FALSE
INVARIANT InvWellFormed
INVARIANT InvLocsInSeq
INVARIANT InvSliceLawsHere
INVARIANT InvSlicePairsHere
INVARIANT InvRevCompHere
INVARIANT InvGetSetHere
PROPERTY RefusalIsNoOp
CHECK_DEADLOCK FALSE
