------------------------------- MODULE Trace -------------------------------
(* C13 direction code -> spec: executions recorded from the real Annotation /
   AnnotatedSequence classes are re-computed by AnnotSliceOps.Apply.
   TRACE_FILE is a JSON array of traces; a trace is an array of events
     {kind, op, a, oc, ann, seq, start, out}
   (ann / seq / start: projection of the object AFTER the call; event 1 is "construct").
   Sets are logged as lists: a location is {first, last, strand, defect:[names]}, a feature
   {key, locs:[...]}, an annotation a list of features.
   Every event is judged on its own from the logged pre-state, so one run reports every
   disagreement (printed as <<"MISMATCH", tid, event, flags, expected ...>>).            *)
EXTENDS AnnotSliceOps, Json, IOUtils

Tr == JsonDeserialize(IOEnv.TRACE_FILE)

VARIABLES tid, l, S
tvars == <<tid, l, S>>

JLoc(j)   == Loc(j.first, j.last, j.strand, ToSet(j.defect))
JFeat(j)  == Feat(j.key, {JLoc(x) : x \in ToSet(j.locs)})
JAnn(js)  == {JFeat(j) : j \in ToSet(js)}

Args(e) ==
  CASE e.op \in {"getfeat", "add", "del", "contains"} -> <<JFeat(e.a[1])>>
    [] e.op = "setfeat"   -> <<JFeat(e.a[1]), e.a[2]>>
    [] e.op = "plus"      -> <<JAnn(e.a[1])>>
    [] e.op = "construct" -> <<JAnn(e.a[1]), e.a[2], e.a[3]>>
    [] OTHER -> e.a

HasOut(op) == op \in {"getfeat", "getint", "copy", "range", "contains", "len"}

Judge(e, r) ==
  LET okOc    == r.oc = e.oc
      okAnn   == r.ann = JAnn(e.ann) /\ Cardinality(JAnn(e.ann)) = Len(e.ann)
      okSeq   == r.seq = e.seq
      okStart == r.start = e.start
      okOut   == IF r.oc = "ok" /\ e.oc = "ok" /\ HasOut(e.op) THEN r.out = e.out ELSE TRUE
  IN IF okOc /\ okAnn /\ okSeq /\ okStart /\ okOut THEN TRUE
     ELSE PrintT(<<"MISMATCH", tid, l + 1, <<okOc, okAnn, okSeq, okStart, okOut>>,
                   r.oc, r.ann, r.seq, r.start, r.out>>)

\* the recorded call lies in the domain the property quantifies over (the S3 generator is
\* supposed to stay inside; a violation is a failure of the machinery, not of biotite)
DomOK(e, a) ==
  IF e.kind = "annseq" THEN
    CASE e.op = "construct" -> /\ WellFormedAnn(a[1]) /\ Dom_Syms(a[2])
                               /\ (Dom_LocsInSeq(AS(a[1], a[2], a[3])) \/ Dom_LeftOverhang(AS(a[1], a[2], a[3])))
      [] e.op = "slice" -> \/ Dom_SliceInSeq(S, a[1], a[2])
                           \/ (~IsNone(a[1]) /\ Val(a[1]) = S.start - 1 /\ ~Dom_SliceInSeq(S, a[1], a[2]))
      [] e.op = "getfeat" -> Dom_FeatIndex(S, a[1])
      [] e.op = "setfeat" -> Dom_SetFeature(S, a[1], a[2])
      [] e.op = "getint" -> a[1] \in PosSet(S)
      [] e.op = "setint" -> a[1] \in PosSet(S) /\ Dom_WriteSym(S, a[2])
      [] e.op = "setslice" -> Dom_SliceInSeq(S, a[1], a[2]) /\ Len(a[3]) = SliceHi(S, a[2]) - SliceLo(S, a[1])
                              /\ Dom_Write(S, a[3])
      [] e.op = "add" -> WellFormedFeat(a[1]) /\ Dom_FeatInSeq(S, a[1])
      [] OTHER -> TRUE
  ELSE
    CASE e.op = "construct" -> WellFormedAnn(a[1])
      [] e.op = "slice" -> Dom_SliceOrdered(a[1], a[2])
      [] e.op = "range" -> S.ann # {}
      [] e.op = "add" -> WellFormedFeat(a[1])
      [] e.op = "plus" -> WellFormedAnn(a[1])
      [] OTHER -> TRUE
CheckDom(e) ==
  IF DomOK(e, Args(e)) THEN TRUE
  ELSE PrintT(<<"MISMATCH", tid, l + 1, <<"DOMAIN">>, "", {}, <<>>, 0, <<>>>>)

Init == /\ tid \in 1..Len(Tr)
        /\ l = 0
        /\ S = AS({}, <<>>, 0)

Next == /\ l < Len(Tr[tid])
        /\ l' = l + 1
        /\ UNCHANGED tid
        /\ LET e == Tr[tid][l + 1]
               r == Apply(e.kind, S, e.op, Args(e))
           IN /\ CheckDom(e)
              /\ Judge(e, r)
              /\ S' = AS(JAnn(e.ann), e.seq, e.start)     \* resynchronise on the logged observation

Spec == Init /\ [][Next]_tvars
=============================================================================
