------------------------------- MODULE KmerSelect -------------------------------
(* C10, part 2: k-mer subset selectors (biotite.sequence.align.selector, permutation).

   All selectors work on a row of sort keys `ord` (one key per k-mer or s-mer position; the
   k-mer code itself, or the key a Permutation assigns to it).  Positions are 0-based.

     Minimizers(ord, w)     declarative: for every window of w consecutive k-mers the leftmost
                            position of the minimum key; consecutive duplicates reported once
     VanHerk(ord, w)        implementation-shaped: chunk-wise forward / reverse argument of
                            the cumulative minimum (selector.pyx:_minimize)
     Syncmers(sord, k, s, offsets)  k-mers whose leftmost minimum s-mer sits at an allowed offset
     Mincode(ord, lo, range, c)     positions whose key is below lo + range / c *)
EXTENDS Integers, Sequences, FiniteSets, SequencesExt

(* ------------------------------------------------------------------ declarative *)
\* leftmost position (0-based) of the minimum of ord over positions a..b (0-based, inclusive)
LeftmostArgMin(ord, a, b) ==
  CHOOSE p \in a..b : /\ \A x \in a..b : ord[p + 1] <= ord[x + 1]
                      /\ \A x \in a..(p - 1) : ord[x + 1] > ord[p + 1]
NumWindows(n, w) == n - w + 1
WindowMinPos(ord, w) == [x \in 1..NumWindows(Len(ord), w) |-> LeftmostArgMin(ord, x - 1, x + w - 2)]
\* drop an entry equal to its predecessor
DropRepeats(s) == SelectSeq([i \in DOMAIN s |-> <<i, s[i]>>], LAMBDA e : e[1] = 1 \/ s[e[1] - 1] # e[2])
Seconds(s) == [i \in DOMAIN s |-> s[i][2]]
Minimizers(ord, w) == Seconds(DropRepeats(WindowMinPos(ord, w)))

(* ------------------------------------------------------------------ implementation-shaped *)
\* _chunk_wise_forward_argcummin: running leftmost argmin, restarted at every multiple of w
ForwardArgCumMin(ord, w) ==
  FoldLeft(LAMBDA acc, i :
             LET restart == (i - 1) % w = 0
                 cur == IF restart \/ acc = <<>> THEN i - 1 ELSE acc[Len(acc)]
             IN Append(acc, IF ~restart /\ acc # <<>> /\ ord[cur + 1] <= ord[i] THEN cur ELSE i - 1),
           <<>>, [i \in 1..Len(ord) |-> i])
\* _chunk_wise_reverse_argcummin: from the right, restarted where (i % w = w-1), '<=' keeps the leftmost
ReverseArgCumMin(ord, w) ==
  LET n == Len(ord)
      r == FoldLeft(LAMBDA acc, j :
                      LET i == n - j + 1                       \* 1-based position, descending
                          restart == (i - 1) % w = w - 1
                          cur == IF restart \/ acc = <<>> THEN i - 1 ELSE acc[1]
                      IN <<IF ~restart /\ acc # <<>> /\ ord[i] > ord[cur + 1] THEN cur ELSE i - 1>> \o acc,
                    <<>>, [j \in 1..n |-> j])
  IN r
VanHerkAll(ord, w) ==
  LET f == ForwardArgCumMin(ord, w)  r == ReverseArgCumMin(ord, w) IN
  [x \in 1..NumWindows(Len(ord), w) |->
     LET fa == f[x + w - 1]  ra == r[x] IN
     IF ord[fa + 1] < ord[ra + 1] THEN fa ELSE ra]
VanHerk(ord, w) == Seconds(DropRepeats(VanHerkAll(ord, w)))

(* ------------------------------------------------------------------ permutations *)
\* FrequencyPermutation(kmer_alphabet, counts): key of code c = rank of c under the stable
\* sort by count (ties: smaller code first)
FreqKey(counts, c) ==
  Cardinality({d \in 0..(Len(counts) - 1) :
                 counts[d + 1] < counts[c + 1] \/ (counts[d + 1] = counts[c + 1] /\ d < c)})
FreqKeys(counts, codes) == [i \in DOMAIN codes |-> FreqKey(counts, codes[i])]

(* ------------------------------------------------------------------ public calls *)
SR(oc, out) == [oc |-> oc, out |-> out]
\* MinimizerSelector(kmer_alphabet, window, permutation).select_from_kmers(kmers):
\* ord = keys of the k-mers; returns (positions, k-mers at these positions)
Op_Minimizers(kmers, ord, w) ==
  IF w < 2 \/ Len(kmers) < w THEN SR("Rejected", <<>>)
  ELSE LET pos == VanHerk(ord, w) IN SR("ok", [pos |-> pos, kmers |-> [i \in DOMAIN pos |-> kmers[pos[i] + 1]]])

\* SyncmerSelector(alphabet, k, s, permutation, offset): sord = keys of the s-mers of the
\* sequence; k-mer i covers s-mers i .. i+k-s
WrapOffset(o, win) == IF o < 0 THEN win + o ELSE o
Dom_Offsets(offsets, win) ==
  /\ \A x \in DOMAIN offsets : 0 <= WrapOffset(offsets[x], win) /\ WrapOffset(offsets[x], win) < win
  /\ \A x, y \in DOMAIN offsets : x # y => WrapOffset(offsets[x], win) # WrapOffset(offsets[y], win)
SyncmerPositions(sord, k, s, offsets) ==
  LET win == k - s + 1
      allowed == {WrapOffset(offsets[x], win) : x \in DOMAIN offsets}
      nk == Len(sord) - win + 1
  IN SelectSeq([i \in 1..nk |-> i - 1], LAMBDA i : (LeftmostArgMin(sord, i, i + win - 1) - i) \in allowed)
\* the same through the implementation's route: van Herk with duplicates, then relative position
ImplSyncmerPositions(sord, k, s, offsets) ==
  LET win == k - s + 1
      allowed == {WrapOffset(offsets[x], win) : x \in DOMAIN offsets}
      mp == VanHerkAll(sord, win)
  IN SelectSeq([i \in DOMAIN mp |-> i - 1], LAMBDA i : (mp[i + 1] - i) \in allowed)
Op_Syncmers(kmers, sord, k, s, offsets) ==
  IF ~(s < k) \/ ~Dom_Offsets(offsets, k - s + 1) THEN SR("Rejected", <<>>)
  ELSE LET pos == ImplSyncmerPositions(sord, k, s, offsets) IN
       SR("ok", [pos |-> pos, kmers |-> [i \in DOMAIN pos |-> kmers[pos[i] + 1]]])

\* MincodeSelector(kmer_alphabet, compression, permutation): key < lo + range / compression,
\* with an integer compression factor c:  (key - lo) * c < range
MincodePositions(ord, lo, range, c) ==
  SelectSeq([i \in DOMAIN ord |-> i - 1], LAMBDA i : (ord[i + 1] - lo) * c < range)
Op_Mincode(kmers, ord, lo, range, c) ==
  IF c < 1 THEN SR("Rejected", <<>>)
  ELSE LET pos == MincodePositions(ord, lo, range, c) IN
       SR("ok", [pos |-> pos, kmers |-> [i \in DOMAIN pos |-> kmers[pos[i] + 1]]])

(* ------------------------------------------------------------------ laws *)
Law_VanHerk(ord, w) ==
  (w >= 2 /\ Len(ord) >= w) =>
    /\ VanHerkAll(ord, w) = WindowMinPos(ord, w)
    /\ VanHerk(ord, w) = Minimizers(ord, w)
    \* window minima move to the right only: the reported positions are strictly increasing
    /\ \A i \in 1..(Len(VanHerk(ord, w)) - 1) : VanHerk(ord, w)[i] < VanHerk(ord, w)[i + 1]
Law_Syncmers(sord, k, s, offsets) ==
  (s < k /\ Dom_Offsets(offsets, k - s + 1) /\ Len(sord) >= k - s + 1) =>
    ImplSyncmerPositions(sord, k, s, offsets) = SyncmerPositions(sord, k, s, offsets)

ASSUME Minimizers(<<3, 1, 2, 1, 5>>, 2) = <<1, 3>>
ASSUME Minimizers(<<2, 2, 2>>, 2) = <<0, 1>>
ASSUME FreqKeys(<<5, 0, 5, 1>>, <<0, 1, 2, 3>>) = <<2, 0, 3, 1>>
=============================================================================
