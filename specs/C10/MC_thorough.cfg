SPECIFICATION Spec
CONSTANTS
  KmersLen2 = 8
  KmersLen3 = 5
  MaskLen = 8
  RefLen2 = 5
  RefLen3 = 4
  MiniLen = 7
  SelLen = 8
  SimLevel = 2
  LabelRefLen = 4
  FormLevel = 2
INVARIANT InvKmers
INVARIANT InvMask
INVARIANT InvTable
INVARIANT InvSimilar
INVARIANT InvSelTab
INVARIANT InvForms
INVARIANT InvMini
INVARIANT InvSelect
CHECK_DEADLOCK FALSE
