SPECIFICATION Spec
CONSTANTS
  KmersLen2 = 6
  KmersLen3 = 4
  MaskLen = 6
  RefLen2 = 4
  RefLen3 = 3
  MiniLen = 5
  SelLen = 6
  SimLevel = 1
  LabelRefLen = 0
  FormLevel = 1
INVARIANT InvKmers
INVARIANT InvMask
INVARIANT InvTable
INVARIANT InvSimilar
INVARIANT InvSelTab
INVARIANT InvForms
INVARIANT InvMini
INVARIANT InvSelect
CHECK_DEADLOCK FALSE
