------------------------------- MODULE ArrayForm -------------------------------
(* C10, part 3: the MEMORY FORM of an array argument.

   Every array the caller hands to the k-mer index API (k-mer codes, positions, reference ids,
   ignore masks, sequence codes, score matrices, selector keys, spacing models) is a *value* - a
   row or a matrix of numbers - that reaches the code as a numpy view

        [buf, off, shape, st, dt, ro, kind]

   buf    the caller's buffer: a sequence of cells (the base array; it may hold other data of
          the caller around and between the addressed cells)
   off    index of the cell of element 0 (0-based)
   shape  <<n>> or <<n, m>>
   st     strides in cells, one per axis: element (i) sits in cell off + i*st[1], element (i, j) in
          cell off + i*st[1] + j*st[2]; strides may be negative (reversed views), larger than
          the extent (slices with a step, columns of a wider matrix) or swapped (transposed /
          Fortran order)
   dt     numpy dtype of the buffer
   ro     the buffer is read-only
   kind   "ndarray", or "list" / "tuple" (a Python sequence holding the value)

   The property quantifies over the values.  The form is not part of the value, so every answer
   is a function of  Value(view)  only, and the call leaves the caller's buffer as it was
   (Frame).  An implementation that reads the cells off, off+1, off+2, .. (a dense C-ordered
   block: memcpy, a raw pointer walk, a reinterpretation of the buffer) sees  DenseRead(view),
   which equals the value only for contiguous views: `Discriminates` says that the view can
   tell the two apart.

   What has to be accepted (MustAccept): an ndarray of a documented dtype that is writable -
   whatever its strides.  The statement is silent on read-only buffers, on dtypes the
   documentation does not name, on Python lists where an ndarray is documented, and on strided
   boolean masks (the code passes masks on as bytes through the buffer protocol): there the call
   may raise, but if it returns, the answer is the one of the value ("OkOrRejected"). *)
EXTENDS Integers, Sequences, FiniteSets, SequencesExt

Rank(v) == Len(v.shape)
NumElems(v) == IF Rank(v) = 1 THEN v.shape[1] ELSE v.shape[1] * v.shape[2]
Addr1(v, i) == v.off + i * v.st[1]
Addr2(v, i, j) == v.off + i * v.st[1] + j * v.st[2]
Cells(v) ==
  IF Rank(v) = 1 THEN {Addr1(v, i) : i \in 0..(v.shape[1] - 1)}
  ELSE {Addr2(v, p[1], p[2]) : p \in (0..(v.shape[1] - 1)) \X (0..(v.shape[2] - 1))}
\* every addressed cell lies inside the buffer, and no cell is addressed twice
InBounds(v) == Cells(v) \subseteq 0..(Len(v.buf) - 1)
NoOverlap(v) == Cardinality(Cells(v)) = NumElems(v)
Dom_View(v) == v.off >= 0 /\ InBounds(v) /\ NoOverlap(v)

\* the value a view denotes
Value1(v) == [i \in 1..v.shape[1] |-> v.buf[Addr1(v, i - 1) + 1]]
Value2(v) == [i \in 1..v.shape[1] |-> [j \in 1..v.shape[2] |-> v.buf[Addr2(v, i - 1, j - 1) + 1]]]
Value(v) == IF Rank(v) = 1 THEN Value1(v) ELSE Value2(v)
Flat(v) == IF Rank(v) = 1 THEN Value1(v) ELSE FlattenSeq(Value2(v))

\* C-contiguity as numpy defines it (axes of extent 1 and arrays with at most one element do not count)
Contiguous(v) ==
  \/ NumElems(v) <= 1
  \/ Rank(v) = 1 /\ v.st[1] = 1
  \/ Rank(v) = 2 /\ v.st[2] = 1 /\ (v.shape[1] = 1 \/ v.st[1] = v.shape[2])
  \/ Rank(v) = 2 /\ v.shape[2] = 1 /\ v.st[1] = 1

\* implementation-shaped misreading: the cells from `off` on, taken for a dense block
DenseRead(v) ==
  LET avail == Len(v.buf) - v.off
      n == IF NumElems(v) < avail THEN NumElems(v) ELSE avail
  IN [c \in 1..n |-> v.buf[v.off + c]]
Discriminates(v) == DenseRead(v) # Flat(v)

\* after any call the caller's buffer holds what it held before
Frame(v) == v.buf

(* ------------------------------------------------------------------ layouts *)
(* The buffer of L cells in which the cells addressed by (off, strides) hold the value x and
   every other cell holds a filler (fillers are legal values of the same kind, so that a
   misreading yields a legal, wrong argument and not a refusal). *)
FillAt(fill, c) == fill[((c - 1) % Len(fill)) + 1]
Buf1(x, off, s, L, fill) ==
  [c \in 1..L |->
     IF \E i \in 0..(Len(x) - 1) : off + i * s = c - 1
     THEN x[(CHOOSE i \in 0..(Len(x) - 1) : off + i * s = c - 1) + 1]
     ELSE FillAt(fill, c)]
Buf2(x, n, m, off, s1, s2, L, fill) ==
  [c \in 1..L |->
     IF \E p \in (0..(n - 1)) \X (0..(m - 1)) : off + p[1] * s1 + p[2] * s2 = c - 1
     THEN LET q == CHOOSE p \in (0..(n - 1)) \X (0..(m - 1)) : off + p[1] * s1 + p[2] * s2 = c - 1
          IN x[q[1] + 1][q[2] + 1]
     ELSE FillAt(fill, c)]

\* named forms.  1-D, value x of length n:
Forms1 == {"c", "off", "step2", "step3", "rev", "revstep2"}
Geometry1(form, n) ==      \* <<off, stride, buffer length>>
  CASE form = "c"        -> <<0, 1, n>>                                     \* a fresh array
    [] form = "off"      -> <<2, 1, n + 3>>                                 \* a[2:-1]
    [] form = "step2"    -> <<0, 2, 2 * n>>                                 \* a[::2]
    [] form = "step3"    -> <<1, 3, 3 * n + 1>>                             \* a[1::3]
    [] form = "rev"      -> <<IF n = 0 THEN 0 ELSE n - 1, -1, 2 * n>>       \* a[n-1::-1] of a longer array
    [] form = "revstep2" -> <<IF n = 0 THEN 0 ELSE 2 * n - 1, -2, 4 * n>>   \* a[2n-1::-2]
\* 2-D, value x with n rows and m columns:
Forms2 == {"c", "f", "off", "rowstep", "colstep", "rowrev", "colrev", "fstep"}
Geometry2(form, n, m) ==   \* <<off, row stride, column stride, buffer length>>
  CASE form = "c"       -> <<0, m, 1, n * m>>
    [] form = "f"       -> <<0, 1, n, n * m>>                               \* Fortran order = transposed (m, n) array
    [] form = "off"     -> <<m + 2, m + 1, 1, (n + 1) * (m + 1)>>           \* a[1:, 1:] of an (n+1, m+1) array
    [] form = "rowstep" -> <<0, 2 * m, 1, 2 * n * m>>                       \* a[::2]
    [] form = "colstep" -> <<0, 2 * m, 2, 2 * n * m>>                       \* a[:, ::2] of an (n, 2m) array
    [] form = "rowrev"  -> <<IF n = 0 THEN 0 ELSE (n - 1) * m, -m, 1, 2 * n * m>>   \* a[n-1::-1]
    [] form = "colrev"  -> <<m - 1, m, -1, n * m + m>>                      \* a[:, ::-1]
    [] form = "fstep"   -> <<1, 2, 2 * n, 2 * n * m + 1>>                   \* transposed with a step

Variant(form, dt, ro, kind) == [form |-> form, dt |-> dt, ro |-> ro, kind |-> kind]
Lay1(x, w, fill) ==
  LET g == Geometry1(w.form, Len(x)) IN
  [buf |-> Buf1(x, g[1], g[2], g[3], fill), off |-> g[1], shape |-> <<Len(x)>>, st |-> <<g[2]>>,
   dt |-> w.dt, ro |-> w.ro, kind |-> w.kind]
Lay2(x, m, w, fill) ==
  LET n == Len(x)  g == Geometry2(w.form, n, m) IN
  [buf |-> Buf2(x, n, m, g[1], g[2], g[3], g[4], fill), off |-> g[1], shape |-> <<n, m>>, st |-> <<g[2], g[3]>>,
   dt |-> w.dt, ro |-> w.ro, kind |-> w.kind]

(* ------------------------------------------------------------------ who must accept what *)
IntDtypes == {"uint8", "uint16", "int32", "uint32", "int64", "uint64"}
SignedDtypes == {"int32", "int64"}
\* roles = array parameters of the API
Roles1 == {"fk_kmers", "fk_masks", "fs_pos", "fs_kmers", "ms_pos", "ms_kmers", "count", "code", "imask",
           "ids", "spacing", "sel_kmers", "freq"}
Roles2 == {"fp_pos", "matrix"}
MaskRoles == {"fk_masks", "imask"}
\* parameters documented as "iterable of int" / "list or ndarray": any sequence kind, any integer dtype
SequenceRoles == {"ids", "spacing"}
\* the dtypes the documentation names for a parameter
DocDtypes(role) ==
  CASE role \in {"fk_kmers", "fs_kmers", "ms_kmers", "count", "sel_kmers", "freq"} -> {"int64"}
    [] role \in {"fs_pos", "ms_pos"}   -> {"uint32"}
    [] role = "fp_pos"                 -> IntDtypes              \* "ndarray, shape=(n,2), dtype=int"
    [] role \in MaskRoles              -> {"bool"}
    [] role = "code"                   -> {"uint8", "uint16", "uint32", "uint64"}
    [] role \in SequenceRoles          -> IntDtypes
    [] role = "matrix"                 -> SignedDtypes           \* "an integer ndarray"
MustAccept(role, v) ==
  \/ role \in SequenceRoles
  \/ /\ v.kind = "ndarray" /\ v.dt \in DocDtypes(role) /\ ~v.ro
     /\ (role \in MaskRoles => Contiguous(v))
Outcome(role, v) == IF MustAccept(role, v) THEN "ok" ELSE "OkOrRejected"

ASSUME LET v == Lay1(<<5, 6, 7>>, Variant("step2", "int64", FALSE, "ndarray"), <<0>>) IN
       /\ v.buf = <<5, 0, 6, 0, 7, 0>> /\ Value(v) = <<5, 6, 7>> /\ Dom_View(v) /\ ~Contiguous(v)
       /\ DenseRead(v) = <<5, 0, 6>> /\ Discriminates(v)
ASSUME LET v == Lay1(<<5, 6, 7>>, Variant("rev", "int64", FALSE, "ndarray"), <<0>>) IN
       /\ v.buf = <<7, 6, 5, 0, 0, 0>> /\ v.off = 2 /\ Value(v) = <<5, 6, 7>> /\ Dom_View(v)
\* np.array([[7, 7, 11], [0, 4, 2]]).T : rows (7,0) (7,4) (11,2), dense read (7,7) (11,0) (4,2)
ASSUME LET v == Lay2(<<<<7, 0>>, <<7, 4>>, <<11, 2>>>>, 2, Variant("f", "uint32", FALSE, "ndarray"), <<0>>) IN
       /\ v.buf = <<7, 7, 11, 0, 4, 2>> /\ Value(v) = <<<<7, 0>>, <<7, 4>>, <<11, 2>>>> /\ Dom_View(v)
       /\ DenseRead(v) = <<7, 7, 11, 0, 4, 2>> /\ Discriminates(v) /\ ~Contiguous(v)
=============================================================================
