------------------------------- MODULE KmerIndex -------------------------------
(* C10, part 1: k-mer decomposition, k-mer index tables and matching
   (biotite.sequence.align: KmerAlphabet.create_kmers, KmerTable, BucketKmerTable,
   ScoreThresholdRule).

   Symbols are codes 0..A-1, a sequence is a TLA+ sequence of symbol codes, a k-mer is the
   tuple of its k informative symbols.  A spacing model `sp` is the strictly increasing tuple of
   the informative offsets (continuous k-mers: <<0, 1, .., k-1>>).  Sequence positions,
   reference ids and k-mer codes are 0-based like the code's.

   An index table is, abstractly, the set
        T  \subseteq  Kmer \X RefId \X Pos          (entries <<kmer, ref, pos>>)
   and every query is a set comprehension over T (declarative layer).  The
   implementation-shaped layer stores the entries in buckets chosen by  code % nb  (the direct
   KmerTable is the case nb = A^k, one bucket per k-mer), merges tables bucket by bucket and
   pickles them as one concatenated array plus the bucket lengths; the model checker decides
   that every query on the bucket layer equals its definition on T  (MCKmer.tla).

   Outcomes:  "ok"               the call returns `out`
              "Rejected"         any exception
              "RejectedOrEmpty"  a sequence shorter than the k-mer span: the code refuses it
                                 (ValueError); there are no k-mers, so an empty answer is
                                 accepted as well. *)
EXTENDS Integers, Sequences, FiniteSets, SequencesExt

Opt(x) == <<x>>
NoneV == <<>>
IsNone(o) == o = <<>>

RECURSIVE Pow(_, _)
Pow(a, n) == IF n = 0 THEN 1 ELSE a * Pow(a, n - 1)
Min2(a, b) == IF a < b THEN a ELSE b

(* ------------------------------------------------------------------ labels *)
(* Reference ids, the positions stored with from_kmer_selection / from_positions and the
   positions handed to match_kmer_selection are free labels of the caller: unsigned 32-bit
   integers (documented dtype uint32) that a table stores and reports, and never computes with.
   Every operator below uses them only as values (equality, membership in tuples), so a label
   may be any TLA+ value.  Labels beyond TLC's 32-bit signed integers are written as two 16-bit
   limbs  <<"u32", hi, lo>> = hi * 2^16 + lo ; the driver maps them to and from Python ints.
   (Ids / positions of the small-integer families stay plain integers: one table never mixes the
   two forms in one column.) *)
Limb == 65536
U32(hi, lo) == <<"u32", hi, lo>>
Dom_Label(x) == Len(x) = 3 /\ x[1] = "u32" /\ x[2] \in 0..(Limb - 1) /\ x[3] \in 0..(Limb - 1)
LabelLess(x, y) == x[2] < y[2] \/ (x[2] = y[2] /\ x[3] < y[3])
\* the label of 2^w (w < 32) and the predecessor of a non-zero label
PowerLabel(w) == IF w < 16 THEN U32(0, Pow(2, w)) ELSE U32(Pow(2, w - 16), 0)
PredLabel(x) == IF x[3] > 0 THEN U32(x[2], x[3] - 1) ELSE U32(x[2] - 1, Limb - 1)
(* the labels at the limits of every width through which a 32-bit label could be read or copied
   (signed / unsigned 8, 16, 32 bit): 0, 2^w - 1 and 2^w for w in {7, 8, 15, 16, 31}, 2^32 - 1 *)
LabelWidths == {7, 8, 15, 16, 31}
BoundaryLabels ==
  {U32(0, 0), U32(Limb - 1, Limb - 1)} \cup {PowerLabel(w) : w \in LabelWidths} \cup {PredLabel(PowerLabel(w)) : w \in LabelWidths}
BoundarySeq == SetToSortSeq(BoundaryLabels, LabelLess)
\* the d-th cyclic successor of a boundary label in ascending order (2^32 - 1 is followed by 0)
LabelIndex(x) == CHOOSE i \in DOMAIN BoundarySeq : BoundarySeq[i] = x
ShiftLabel(x, d) == BoundarySeq[((LabelIndex(x) - 1 + d) % Len(BoundarySeq)) + 1]
ASSUME /\ Cardinality(BoundaryLabels) = 12 /\ \A x \in BoundaryLabels : Dom_Label(x)
       /\ {U32(32767, 65535), U32(32768, 0), U32(65535, 65535), U32(0, 127), U32(0, 128)} \subseteq BoundaryLabels
       /\ ShiftLabel(U32(32767, 65535), 1) = U32(32768, 0) /\ ShiftLabel(U32(65535, 65535), 1) = U32(0, 0)

(* ------------------------------------------------------------------ k-mers *)
Symbols(A) == 0..(A - 1)
AllKmers(A, k) == [1..k -> Symbols(A)]
Continuous(k) == [j \in 1..k |-> j - 1]
Span(sp) == sp[Len(sp)] + 1
Dom_Spacing(sp) ==
  /\ Len(sp) >= 2
  /\ sp[1] >= 0
  /\ \A j \in 1..(Len(sp) - 1) : sp[j] < sp[j + 1]

\* number of k-mers of a sequence of length n (not positive: the sequence is too short)
NumKmers(n, sp) == n - Span(sp) + 1
\* the k-mer starting at 0-based position i
KmerAt(s, i, sp) == [j \in 1..Len(sp) |-> s[i + sp[j] + 1]]
Kmers(s, sp) == [i \in 1..NumKmers(Len(s), sp) |-> KmerAt(s, i - 1, sp)]
TooShort(s, sp) == NumKmers(Len(s), sp) < 1

\* k-mer code: sum of A^(k-j) * symbol_j   (KmerAlphabet.fuse)
KmerCode(km, A) == FoldLeft(LAMBDA acc, x : acc * A + x, 0, km)
NumCodes(A, k) == Pow(A, k)

(* implementation-shaped: continuous k-mers are computed by a rolling update
   code_i = (code_(i-1) - s[i-1] * A^(k-1)) * A + s[i+k-1] *)
RollingCodes(s, k, A) ==
  LET n == Len(s) - k + 1
      first == KmerCode(SubSeq(s, 1, k), A)
      step(acc, i) == Append(acc, (acc[Len(acc)] - s[i - 1] * Pow(A, k - 1)) * A + s[i + k - 1])
  IN FoldLeft(step, <<first>>, [i \in 1..(n - 1) |-> i + 1])

\* KmerAlphabet.create_kmers(seq_code)
Op_CreateKmers(s, sp, A) ==
  IF TooShort(s, sp) THEN [oc |-> "Rejected", out |-> <<>>]
  ELSE [oc |-> "ok", out |-> [i \in 1..NumKmers(Len(s), sp) |-> KmerCode(KmerAt(s, i - 1, sp), A)]]

(* ------------------------------------------------------------------ ignore masks *)
\* an ignore mask is NoneV or Opt(<<b1..bn>>), TRUE = ignore this sequence position;
\* a k-mer is kept iff none of its informative positions is ignored
KmerKept(m, i, sp) == \A j \in 1..Len(sp) : ~m[i + sp[j] + 1]
KmerMask(om, n, sp) ==
  [i \in 1..NumKmers(n, sp) |-> IF IsNone(om) THEN TRUE ELSE KmerKept(om[1], i - 1, sp)]
Dom_Mask(om, n) == IsNone(om) \/ Len(om[1]) = n

(* Known defect C10-spaced-kmer-mask (kmertable.pyx:_to_kmer_mask, spaced branch): the code
   tests mask[j + offset_j] instead of mask[i + offset_j]; its answer does not depend on the
   k-mer position i and it reads behind the end of short masks (so even an all-False mask can
   drop k-mers).  The predicate names the inputs on which the real answer can differ from
   KmerMask: a spacing model is given together with an ignore mask. *)
KB_SpacedMask(om, spacedAlphabet) == spacedAlphabet /\ ~IsNone(om)

(* ------------------------------------------------------------------ similarity *)
(* a rule is NoneV (identity) or Opt([M |-> symmetric n x n score matrix, t |-> threshold]) with
   n >= A: the matrix may be defined over a larger alphabet that extends the table's (the
   class accepts it; only the leading A x A block scores k-mers).  Nothing is assumed about the
   entries: a diagonal entry need not be the maximum of its row (wildcard-like symbols, e.g. X
   in BLOSUM62 with X/X = -1 < X/A = 0) and may be negative. *)
Score(M, a, b) == FoldLeft(LAMBDA acc, j : acc + M[a[j] + 1][b[j] + 1], 0, [j \in 1..Len(a) |-> j])
Similar(rule, a, b) == IF IsNone(rule) THEN a = b ELSE Score(rule[1].M, a, b) >= rule[1].t
SimilarSet(rule, a, A) == {b \in AllKmers(A, Len(a)) : Similar(rule, a, b)}
Dom_Rule(rule, A) ==
  IsNone(rule) \/ (Len(rule[1].M) >= A /\ \A x, y \in 1..Len(rule[1].M) : Len(rule[1].M[x]) = Len(rule[1].M) /\ rule[1].M[x][y] = rule[1].M[y][x])

(* implementation-shaped: ScoreThresholdRule.similar_kmers is a branch-and-bound search;
   position p is only entered if the score of the prefix can still reach the threshold
   assuming the maximal row score at every later position.  The bound is the maximum of the
   whole (untrimmed) matrix row - not the diagonal entry: the search is exact only because the
   bound is an upper bound of every entry the row can contribute (InvSimilar / InvTable). *)
RowMax(M, x) == FoldLeft(LAMBDA acc, y : IF M[x + 1][y] > acc THEN M[x + 1][y] ELSE acc, M[x + 1][1], [y \in 1..Len(M) |-> y])
PosThreshold(M, t, a, p) ==
  t - FoldLeft(LAMBDA acc, j : acc + RowMax(M, a[j]), 0, [j \in 1..(Len(a) - p) |-> p + j])
RECURSIVE BranchBound(_, _, _, _, _)
BranchBound(M, t, a, A, prefix) ==
  LET p == Len(prefix) IN
  IF p > 0 /\ Score(M, SubSeq(a, 1, p), prefix) < PosThreshold(M, t, a, p) THEN {}
  ELSE IF p = Len(a) THEN {prefix}
  ELSE UNION {BranchBound(M, t, a, A, Append(prefix, c)) : c \in Symbols(A)}
ImplSimilarSet(rule, a, A) ==
  IF IsNone(rule) THEN {a} ELSE BranchBound(rule[1].M, rule[1].t, a, A, <<>>)

(* ------------------------------------------------------------------ the abstract table *)
\* a reference is [id, seq, mask]
RefEntries(ref, sp) ==
  LET km == Kmers(ref.seq, sp)  keep == KmerMask(ref.mask, Len(ref.seq), sp) IN
  {<<km[i], ref.id, i - 1>> : i \in {x \in DOMAIN km : keep[x]}}
Dom_Refs(refs) ==
  /\ \A x, y \in DOMAIN refs : x # y => refs[x].id # refs[y].id      \* T is a set, not a bag
  /\ \A x \in DOMAIN refs : Dom_Mask(refs[x].mask, Len(refs[x].seq))

TableOf(refs, sp) == UNION {RefEntries(refs[x], sp) : x \in {y \in DOMAIN refs : ~TooShort(refs[y].seq, sp)}}

\* KmerTable.from_sequences / BucketKmerTable.from_sequences
Op_FromSequences(refs, sp) ==
  [oc |-> IF \E x \in DOMAIN refs : TooShort(refs[x].seq, sp) THEN "RejectedOrEmpty" ELSE "ok",
   out |-> TableOf(refs, sp)]
\* from_kmers(kmer_alphabet, kmer arrays, ref_ids, masks): masks are positive (TRUE = add)
Op_FromKmers(arrays, ids, masks) ==
  [oc |-> "ok",
   out |-> UNION {{<<arrays[x][i], ids[x], i - 1>> : i \in {y \in DOMAIN arrays[x] : masks[x][y]}} : x \in DOMAIN arrays}]
\* from_kmer_selection(kmer_alphabet, positions, kmers, ref_ids)
Op_FromSelection(positions, arrays, ids) ==
  [oc |-> "ok",
   out |-> UNION {{<<arrays[x][i], ids[x], positions[x][i]>> : i \in DOMAIN arrays[x]} : x \in DOMAIN arrays}]
\* from_tables(tables)
Op_FromTables(tables) == [oc |-> "ok", out |-> UNION {tables[x] : x \in DOMAIN tables}]
\* from_positions(kmer_alphabet, {kmer: [[ref, pos], ..]}): `entries` is a sequence of
\* <<kmer, rows>>, rows a sequence of <<ref id, position>> (an (n, 2) array); pickling is the identity on T
Op_FromPositions(entries) ==
  [oc |-> "ok",
   out |-> UNION {{<<entries[x][1], entries[x][2][i][1], entries[x][2][i][2]>> : i \in DOMAIN entries[x][2]} : x \in DOMAIN entries}]
\* the k-mer with a given code (inverse of KmerCode)
KmerOfCode(c, A, k) == CHOOSE km \in AllKmers(A, k) : KmerCode(km, A) = c
DecodeKmers(codes, A, k) == [i \in DOMAIN codes |-> KmerOfCode(codes[i], A, k)]

(* ------------------------------------------------------------------ queries (declarative) *)
\* table.match(sequence, similarity_rule, ignore_mask) -> rows (query pos, ref id, ref pos)
MatchSet(T, q, qmask, rule, sp) ==
  LET km == Kmers(q, sp)  keep == KmerMask(qmask, Len(q), sp) IN
  UNION {{<<i - 1, e[2], e[3]>> : e \in {x \in T : Similar(rule, km[i], x[1])}} : i \in {y \in DOMAIN km : keep[y]}}
Op_Match(T, q, qmask, rule, sp) ==
  IF TooShort(q, sp) THEN [oc |-> "RejectedOrEmpty", out |-> {}]
  ELSE [oc |-> "ok", out |-> MatchSet(T, q, qmask, rule, sp)]
\* table.match_table(other, similarity_rule) -> rows (other ref, other pos, ref id, ref pos)
Op_MatchTable(T, U, rule) ==
  [oc |-> "ok",
   out |-> UNION {{<<u[2], u[3], e[2], e[3]>> : e \in {x \in T : Similar(rule, u[1], x[1])}} : u \in U}]
\* table.match_kmer_selection(positions, kmers) -> rows (given position, ref id, ref pos)
Dom_Selection(positions, kmers) ==
  /\ Len(positions) = Len(kmers)
  /\ \A x, y \in DOMAIN kmers : (x # y /\ kmers[x] = kmers[y]) => positions[x] # positions[y]
Op_MatchSelection(T, positions, kmers) ==
  [oc |-> "ok",
   out |-> UNION {{<<positions[i], e[2], e[3]>> : e \in {x \in T : x[1] = kmers[i]}} : i \in DOMAIN kmers}]
\* table.count(kmers) ; table[kmer] ; table.get_kmers() / iteration
Op_Count(T, kmers) == [oc |-> "ok", out |-> [i \in DOMAIN kmers |-> Cardinality({e \in T : e[1] = kmers[i]})]]
Op_Lookup(T, km) == [oc |-> "ok", out |-> {<<e[2], e[3]>> : e \in {x \in T : x[1] = km}}]
Op_GetKmers(T) == [oc |-> "ok", out |-> {e[1] : e \in T}]

(* ------------------------------------------------------------------ bucket layer (implementation-shaped) *)
\* BucketKmerTable.__cinit__: no more buckets than k-mers
EffBuckets(nb, A, k) == Min2(nb, NumCodes(A, k))
BucketOf(km, A, nb) == KmerCode(km, A) % nb
\* buckets: function 0..nb-1 -> sequence of entries, filled in insertion order
EmptyBuckets(nb) == [b \in 0..(nb - 1) |-> <<>>]
BucketAdd(B, entries, A, nb) ==
  FoldLeft(LAMBDA acc, e : [acc EXCEPT ![BucketOf(e[1], A, nb)] = Append(@, e)], B, entries)
BucketAbs(B) == UNION {ToSet(B[b]) : b \in DOMAIN B}
\* from_tables: _count_table_entries / _init_c_arrays / _append_entries, bucket by bucket
BucketMerge(Bs, nb) ==
  FoldLeft(LAMBDA acc, B : [b \in 0..(nb - 1) |-> acc[b] \o B[b]], EmptyBuckets(nb), Bs)
\* __getstate__ / __setstate__: one concatenated array and the length of every bucket
BucketPickle(B, nb) ==
  [flat |-> FlattenSeq([x \in 1..nb |-> B[x - 1]]), lens |-> [x \in 1..nb |-> Len(B[x - 1])]]
BucketUnpickle(P, nb) ==
  LET start(x) == FoldLeft(LAMBDA acc, y : acc + P.lens[y], 0, [y \in 1..(x - 1) |-> y]) IN
  [b \in 0..(nb - 1) |-> SubSeq(P.flat, start(b + 1) + 1, start(b + 1) + P.lens[b + 1])]

\* match: for every kept query k-mer, for every similar k-mer, scan that k-mer's bucket
BucketMatch(B, q, qmask, rule, sp, A, nb) ==
  LET km == Kmers(q, sp)  keep == KmerMask(qmask, Len(q), sp) IN
  UNION {UNION {{<<i - 1, e[2], e[3]>> : e \in {x \in ToSet(B[BucketOf(sk, A, nb)]) : x[1] = sk}}
                : sk \in ImplSimilarSet(rule, km[i], A)}
         : i \in {y \in DOMAIN km : keep[y]}}
BucketMatchTable(B, C, rule, A, nb) ==
  UNION {UNION {{<<u[2], u[3], e[2], e[3]>> : e \in {x \in ToSet(B[BucketOf(sk, A, nb)]) : x[1] = sk}}
                : sk \in ImplSimilarSet(rule, u[1], A)}
         : u \in BucketAbs(C)}
\* match_kmer_selection: the given position, then every entry of that k-mer in its bucket
BucketMatchSelection(B, positions, kmers, A, nb) ==
  UNION {{<<positions[i], e[2], e[3]>> : e \in {x \in ToSet(B[BucketOf(kmers[i], A, nb)]) : x[1] = kmers[i]}} : i \in DOMAIN kmers}
BucketCount(B, km, A, nb) == Len(SelectSeq(B[BucketOf(km, A, nb)], LAMBDA e : e[1] = km))
BucketLookup(B, km, A, nb) == {<<e[2], e[3]>> : e \in {x \in ToSet(B[BucketOf(km, A, nb)]) : x[1] = km}}

(* Known defect C10-bucket-getitem-32bit (kmertable.pyx:BucketKmerTable.__getitem__): the stored
   64-bit k-mer code is read through a uint32 pointer, so the lookup of a k-mer whose code is
   >= 2^32 compares only the low half and finds nothing.  TLC integers are 32-bit, so the fact
   "the code of this k-mer needs more than 32 bits" is supplied by the driver with the event. *)
KB_BucketLookup32(bucketed, codeNeeds64) == bucketed /\ codeNeeds64

(* examples from the documentation *)
\* NucleotideSequence("ATTGCT") with k = 2 over ACGT -> [3 15 14 9 7]
ASSUME Op_CreateKmers(<<0, 3, 3, 2, 1, 3>>, Continuous(2), 4).out = <<3, 15, 14, 9, 7>>
ASSUME RollingCodes(<<0, 3, 3, 2, 1, 3>>, 2, 4) = <<3, 15, 14, 9, 7>>
\* table of TTATA (ref 0) and CTAG (ref 1), query TAG -> (0,0,1) (0,0,3) (0,1,1) (1,1,2)
ASSUME Op_Match(TableOf(<<[id |-> 0, seq |-> <<3,3,0,3,0>>, mask |-> NoneV], [id |-> 1, seq |-> <<1,3,0,2>>, mask |-> NoneV]>>, Continuous(2)),
                <<3, 0, 2>>, NoneV, NoneV, Continuous(2)).out
         = {<<0, 0, 1>>, <<0, 0, 3>>, <<0, 1, 1>>, <<1, 1, 2>>}
=============================================================================
