------------------------------- MODULE MCKmer -------------------------------
(* C10: bounded exhaustive model (pure-function pattern).  Init enumerates the inputs of eight
   families; `exp` holds the specification's answers; the invariants state that the
   implementation-shaped definitions equal the declarative ones on the input at hand.

     kind = "kmers"   sequence x spacing model           -> k-mer codes (or refusal)
     kind = "mask"    ignore mask x spacing model        -> kept k-mer positions
     kind = "table"   references (+masks) x spacing      -> the table T, and on it: counts, lookups,
                                                             matches of a list of queries (with
                                                             masks / similarity rules), match_table,
                                                             match_kmer_selection
                                                             (group 5: reference ids, other-table ids and
                                                             given positions are uint32 labels at the
                                                             limits of every width)
     kind = "similar" symmetric score matrix x threshold -> the similar k-mers of every k-mer, and
                      (every matrix over a value set, not    match / match_table of a table holding every
                      only diagonally dominant ones)         k-mer once
     kind = "seltab"  label ids x label positions x      -> the table built from k-mer selections /
                      k-mer selections                       explicit positions, counts, lookups,
                                                             match_kmer_selection, match_table
     kind = "forms"   data set x array parameter x       -> every array argument as a view (buffer,
                      memory form of that argument           offset, strides, dtype, flags) and the
                      (strides, order, dtype, read-only,     answers of the builders / queries /
                      list)                                  selectors on the values the views denote
     kind = "mini"    row of keys x window               -> minimizer positions
     kind = "select"  sequence                           -> minimizers / syncmers / mincode under
                                                             several parameter sets and orders *)
EXTENDS KmerIndex, KmerSelect, ArrayForm, TLC

CONSTANTS KmersLen2,    \* kmers family: sequences over 2 symbols up to this length
          KmersLen3,    \* ... over 3 symbols
          MaskLen,      \* mask family: masks up to this length
          RefLen2,      \* table family, 2 symbols: first reference up to this length
          RefLen3,      \* table family, 3 symbols: reference up to this length
          MiniLen,      \* mini family: rows over 0..3 up to this length
          SelLen,       \* select family: sequences over 2 symbols up to this length (3 symbols: SelLen - 1)
          SimLevel,     \* similar family: 1 = quick value sets, 2 = thorough value sets
          LabelRefLen,  \* table group 5: 0 = three fixed first references, n = all over 2 symbols up to length n
          FormLevel     \* forms family: 1 = every form with the documented dtype, two forms with the other dtypes
                        \* and read-only; 2 = every form x every dtype x writable / read-only

VARIABLES kind, inp, exp
vars == <<kind, inp, exp>>

SeqsLen(S, lo, hi) == UNION {[1..m -> S] : m \in lo..hi}

(* ------------------------------------------------------------------ kmers / mask families *)
Models2 == {<<0, 1>>, <<0, 2>>, <<1, 2>>, <<0, 3>>}
Models3 == {<<0, 1, 2>>, <<0, 1, 3>>, <<0, 2, 3>>, <<1, 2, 4>>}

KmersExp(s, sp, A) ==
  [r |-> Op_CreateKmers(s, sp, A), n |-> NumKmers(Len(s), sp), spaced |-> sp # Continuous(Len(sp))]
MaskExp(m, sp) ==
  [kept |-> SelectSeq([i \in 1..NumKmers(Len(m), sp) |-> i - 1], LAMBDA i : KmerKept(m, i, sp)),
   n |-> NumKmers(Len(m), sp),
   kb |-> KB_SpacedMask(Opt(m), TRUE)]

(* ------------------------------------------------------------------ table family *)
\* score matrices (symmetric) and thresholds of the similarity rules
Mat2 == <<<<2, -1>>, <<-1, 3>>>>
Mat3 == <<<<3, 1, -2>>, <<1, 2, 0>>, <<-2, 0, 4>>>>
Rules(A, k) ==
  IF A = 2 THEN <<NoneV, Opt([M |-> Mat2, t |-> 1]), Opt([M |-> Mat2, t |-> 2 * k])>>
  ELSE <<NoneV, Opt([M |-> Mat3, t |-> 3]), Opt([M |-> Mat3, t |-> 3 * k - 1])>>

SingleMasks(n) == {NoneV} \cup {Opt([p \in 1..n |-> p = q]) : q \in 1..n}
EdgeMasks(n) == {NoneV} \cup (IF n = 0 THEN {} ELSE {Opt([p \in 1..n |-> p = 1]), Opt([p \in 1..n |-> p = n]), Opt([p \in 1..n |-> p # 1])})

Second2 == {<<>>, <<0, 1, 1, 0>>, <<1, 1, 1>>, <<1, 0>>}

\* table inputs are grouped by (group, first reference) so that TLC's workers share them
TableGroups ==
  {<<1, s1>> : s1 \in SeqsLen({0, 1}, 1, RefLen2)} \cup {<<2, s1>> : s1 \in SeqsLen({0, 1}, 2, RefLen2)}
  \cup {<<3, s1>> : s1 \in SeqsLen({0, 1}, 2, RefLen2 + 1)} \cup {<<4, s1>> : s1 \in SeqsLen({0, 1, 2}, 1, RefLen3)}
  \cup {<<5, lab>> : lab \in BoundaryLabels}
LabelSeqs == IF LabelRefLen = 0 THEN {<<0, 1, 1, 0>>, <<1, 1, 1>>, <<0, 0, 1, 0, 1>>} ELSE SeqsLen({0, 1}, 2, LabelRefLen)
TableInputsOf(g, s1) ==
  CASE g = 1 ->   \* two symbols, k = 2: all first references, a few second ones
         {[A |-> 2, sp |-> sp, lab |-> FALSE, refs |-> IF s2 = <<>> THEN <<[id |-> 7, seq |-> s1, mask |-> NoneV]>>
                                        ELSE <<[id |-> 7, seq |-> s1, mask |-> NoneV], [id |-> 2, seq |-> s2, mask |-> NoneV]>>] :
            sp \in {<<0, 1>>, <<0, 2>>}, s2 \in Second2}
    [] g = 2 ->   \* ... every single-position mask on the first reference, a masked second reference
         {[A |-> 2, sp |-> sp, lab |-> FALSE, refs |-> <<[id |-> 0, seq |-> s1, mask |-> m1],
                                          [id |-> 1, seq |-> <<1, 0, 0, 1>>, mask |-> Opt(<<FALSE, TRUE, FALSE, FALSE>>)]>>] :
            sp \in {<<0, 1>>, <<0, 2>>}, m1 \in SingleMasks(Len(s1))}
    [] g = 3 ->   \* two symbols, k = 3
         {[A |-> 2, sp |-> sp, lab |-> FALSE, refs |-> <<[id |-> 3, seq |-> s1, mask |-> m1]>>] :
            sp \in {<<0, 1, 2>>, <<0, 1, 3>>}, m1 \in EdgeMasks(Len(s1))}
    [] g = 4 ->   \* three symbols, k = 2
         {[A |-> 3, sp |-> sp, lab |-> FALSE, refs |-> <<[id |-> 5, seq |-> s1, mask |-> m1]>>] :
            sp \in {<<0, 1>>, <<1, 2>>}, m1 \in EdgeMasks(Len(s1))}
    [] g = 5 ->   \* two symbols, k = 2; the reference ids are the boundary label s1 and its successor
                  \* (so 2^31 - 1 / 2^31, 2^32 - 1 / 0, 2^w - 1 / 2^w share a table)
         {[A |-> 2, sp |-> <<0, 1>>, lab |-> TRUE,
           refs |-> <<[id |-> s1, seq |-> r1, mask |-> NoneV], [id |-> ShiftLabel(s1, 1), seq |-> <<1, 0, 0, 1>>, mask |-> NoneV]>>] :
            r1 \in LabelSeqs}

\* the queries asked of every table: one too short sequence; all sequences of span length
\* (and one more symbol for two letters) without and with the wide rule; longer ones with all
\* rules and with every single-position mask
Queries(A, sp) ==
  LET qs == SeqsLen(Symbols(A), Span(sp), IF A = 2 /\ Span(sp) <= 3 THEN Span(sp) + 1 ELSE Span(sp))
      longer == IF A = 2 THEN {<<0, 1, 1, 0, 1>>, <<1, 1, 0, 0, 0, 1>>} ELSE {<<0, 1, 2, 2, 1, 0>>, <<2, 2, 0, 1>>}
  IN {[q |-> [p \in 1..(Span(sp) - 1) |-> 0], mask |-> NoneV, rule |-> 1]}
     \cup {[q |-> q, mask |-> NoneV, rule |-> r] : q \in qs, r \in 1..2}
     \cup {[q |-> q, mask |-> NoneV, rule |-> r] : q \in longer, r \in 1..3}
     \cup UNION {{[q |-> q, mask |-> m, rule |-> r] : m \in SingleMasks(Len(q)) \ {NoneV}, r \in 1..2} : q \in longer}

\* group 5: the other table's ids are labels as well (first column of match_table)
OtherRefsLab(lab) ==
  <<[id |-> ShiftLabel(lab, 6), seq |-> <<0, 1, 1, 0, 0>>, mask |-> NoneV], [id |-> ShiftLabel(lab, 7), seq |-> <<1, 1, 1, 0>>, mask |-> NoneV]>>
OtherRefs(A) ==
  IF A = 2 THEN <<[id |-> 11, seq |-> <<0, 1, 1, 0, 0>>, mask |-> NoneV], [id |-> 12, seq |-> <<1, 1, 1, 0>>, mask |-> NoneV]>>
  ELSE <<[id |-> 11, seq |-> <<0, 1, 2, 2, 0, 1>>, mask |-> NoneV]>>

TableExp(x) ==
  LET A == x.A  sp == x.sp  k == Len(sp)  refs == x.refs
      T == TableOf(refs, sp)
      rules == Rules(A, k)
      kms == SetToSortSeq(AllKmers(A, k), LAMBDA a, b : KmerCode(a, A) < KmerCode(b, A))
      other == IF x.lab THEN OtherRefsLab(refs[1].id) ELSE OtherRefs(A)
      U == TableOf(other, sp)
      selq == IF A = 2 THEN <<1, 0, 0, 1, 1, 1>> ELSE <<2, 0, 1, 1, 2>>
      selk == Kmers(selq, sp)
      \* the positions handed to match_kmer_selection are labels too (group 5: boundary labels)
      selp == [i \in DOMAIN selk |-> IF x.lab THEN ShiftLabel(refs[1].id, 2 + i) ELSE 5 + 2 * i]
  IN [build    |-> Op_FromSequences(refs, sp),
      T        |-> T,
      k        |-> k,
      spaced   |-> sp # Continuous(k),
      codes    |-> [i \in DOMAIN kms |-> <<kms[i], KmerCode(kms[i], A)>>],
      perRef   |-> [r \in DOMAIN refs |->
                      [short |-> TooShort(refs[r].seq, sp),
                       kmers |-> Kmers(refs[r].seq, sp),
                       keep  |-> KmerMask(refs[r].mask, Len(refs[r].seq), sp),
                       kb    |-> KB_SpacedMask(refs[r].mask, TRUE)]],
      counts   |-> Op_Count(T, kms).out,
      lookups  |-> [i \in DOMAIN kms |-> Op_Lookup(T, kms[i]).out],
      present  |-> Op_GetKmers(T).out,
      rules    |-> rules,
      queries  |-> LET qs == SetToSeq(Queries(A, sp)) IN
                   [i \in DOMAIN qs |-> [q |-> qs[i].q, mask |-> qs[i].mask, rule |-> qs[i].rule,
                                         res |-> Op_Match(T, qs[i].q, qs[i].mask, rules[qs[i].rule], sp)]],
      other    |-> other,
      tmatch   |-> [r \in 1..3 |-> Op_MatchTable(T, U, rules[r]).out],
      sel      |-> [pos |-> selp, kmers |-> selk, out |-> Op_MatchSelection(T, selp, selk).out]]

(* ------------------------------------------------------------------ similar family *)
(* Every symmetric n x n matrix with entries from a value set (so: rows whose maximum lies off
   the diagonal, negative diagonals, constant matrices, ... - not a hand-picked matrix), used
   on an alphabet of A <= n symbols, with every threshold from "all k-mers are similar" to
   "none is".  A case is [A, n, k, V]. *)
SymMatrices(n, V) ==
  LET upper == {p \in (1..n) \X (1..n) : p[1] <= p[2]} IN
  {[i \in 1..n |-> [j \in 1..n |-> IF i <= j THEN f[<<i, j>>] ELSE f[<<j, i>>]]] : f \in [upper -> V]}
SimCase(A, n, k, V) == [A |-> A, n |-> n, k |-> k, V |-> V]
SimCases ==
  IF SimLevel = 1
  THEN {SimCase(2, 2, 2, -2..2), SimCase(2, 2, 3, -2..2), SimCase(3, 3, 2, {-1, 2}), SimCase(2, 3, 2, {-1, 2})}
  ELSE {SimCase(2, 2, 2, -3..3), SimCase(2, 2, 3, -3..3), SimCase(3, 3, 2, {-1, 0, 1, 2}), SimCase(3, 3, 3, {-1, 2}),
        SimCase(2, 3, 2, {-1, 0, 2}), SimCase(2, 3, 3, {-1, 0, 2})}
\* smallest / largest entry of the leading A x A block
BlockEntries(M, A) == {M[x][y] : x, y \in 1..A}
LeastOf(S) == CHOOSE x \in S : \A y \in S : x <= y
GreatestOf(S) == CHOOSE x \in S : \A y \in S : x >= y
ThresholdRange(M, A, k) == (k * LeastOf(BlockEntries(M, A)))..(k * GreatestOf(BlockEntries(M, A)) + 1)
\* a sequence in which every k-mer occurs exactly once (de Bruijn sequence, written linearly)
DeBruijn(A, k) ==
  CASE A = 2 /\ k = 2 -> <<0, 0, 1, 1, 0>>
    [] A = 2 /\ k = 3 -> <<0, 0, 0, 1, 0, 1, 1, 1, 0, 0>>
    [] A = 3 /\ k = 2 -> <<0, 0, 1, 0, 2, 1, 1, 2, 2, 0>>
    [] A = 3 /\ k = 3 -> <<0, 0, 0, 1, 0, 0, 2, 0, 1, 1, 0, 1, 2, 0, 2, 1, 0, 2, 2, 1, 1, 1, 2, 1, 2, 2, 2, 0, 0>>
ASSUME \A c \in {<<2, 2>>, <<2, 3>>, <<3, 2>>, <<3, 3>>} :
         LET km == Kmers(DeBruijn(c[1], c[2]), Continuous(c[2])) IN
         Len(km) = NumCodes(c[1], c[2]) /\ ToSet(km) = AllKmers(c[1], c[2])
\* some symbol scores higher with another symbol than with itself (the row maximum of the used
\* block is not on the diagonal)
Wildcard(M, A) == \E x, y \in 1..A : M[x][y] > M[x][x]

SimilarExp(A, k, M, t) ==
  LET rule == Opt([M |-> M, t |-> t])
      kms == SetToSortSeq(AllKmers(A, k), LAMBDA a, b : KmerCode(a, A) < KmerCode(b, A))
      db == DeBruijn(A, k)
      refs == <<[id |-> 4, seq |-> db, mask |-> NoneV]>>
      other == <<[id |-> 9, seq |-> db, mask |-> NoneV]>>
      T == TableOf(refs, Continuous(k))
  IN [kmers  |-> kms,
      sim    |-> [i \in DOMAIN kms |-> SimilarSet(rule, kms[i], A)],
      refs   |-> refs,
      other  |-> other,
      match  |-> Op_Match(T, db, NoneV, rule, Continuous(k)),
      tmatch |-> Op_MatchTable(T, TableOf(other, Continuous(k)), rule).out,
      wild   |-> Wildcard(M, A),
      \* the exact search prunes: some k-mer has a proper, non-empty neighbourhood
      proper |-> \E a \in AllKmers(A, k) : LET S == SimilarSet(rule, a, A) IN S # {} /\ S # AllKmers(A, k)]

(* ------------------------------------------------------------------ seltab family *)
(* Tables made from k-mer selections / explicit positions: ids AND positions are labels.  Input:
   the id label a and the position label p range over all boundary labels; the table holds two
   references (ids a, a+1) whose selected k-mers sit at positions p, p+1, p+2 resp. p, p+3
   ("+" = cyclic successor among the boundary labels); the query selection and the other
   table use further labels. *)
SelShapes ==
  <<[A |-> 2, arrays |-> << <<<<0, 1>>, <<1, 1>>, <<0, 1>>>>, <<<<0, 1>>, <<1, 0>>>> >>],
    [A |-> 2, arrays |-> << <<<<1, 1>>, <<1, 1>>, <<1, 1>>>>, <<<<1, 1>>, <<0, 0>>>> >>],
    [A |-> 3, arrays |-> << <<<<2, 2>>, <<0, 2>>, <<2, 0>>>>, <<<<2, 2>>, <<1, 1>>>> >>]>>
SelTabInput(a, p, sh) ==
  [A |-> SelShapes[sh].A, k |-> 2,
   ids |-> <<a, ShiftLabel(a, 1)>>,
   pos |-> << <<p, ShiftLabel(p, 1), ShiftLabel(p, 2)>>, <<p, ShiftLabel(p, 3)>> >>,
   arrays |-> SelShapes[sh].arrays]
SelTabExp(x) ==
  LET A == x.A  k == x.k
      T == Op_FromSelection(x.pos, x.arrays, x.ids).out
      kms == SetToSortSeq(AllKmers(A, k), LAMBDA a, b : KmerCode(a, A) < KmerCode(b, A))
      p == x.pos[1][1]
      \* query selection: every k-mer once, the first k-mer of the table a second time
      qk == kms \o <<x.arrays[1][1]>>
      qp == [i \in DOMAIN qk |-> ShiftLabel(p, 4 + i)]
      oid == ShiftLabel(x.ids[1], 5)
  IN [T       |-> T,
      codes   |-> [i \in DOMAIN kms |-> <<kms[i], KmerCode(kms[i], A)>>],
      perRef  |-> [r \in DOMAIN x.ids |-> Op_FromSelection(<<x.pos[r]>>, <<x.arrays[r]>>, <<x.ids[r]>>).out],
      counts  |-> Op_Count(T, kms).out,
      lookups |-> [i \in DOMAIN kms |-> Op_Lookup(T, kms[i]).out],
      present |-> Op_GetKmers(T).out,
      sel     |-> [pos |-> qp, kmers |-> qk, out |-> Op_MatchSelection(T, qp, qk).out],
      other   |-> [ids |-> <<oid>>, pos |-> <<qp>>, arrays |-> <<qk>>],
      tmatch  |-> Op_MatchTable(T, Op_FromSelection(<<qp>>, <<qk>>, <<oid>>).out, NoneV).out]

(* ------------------------------------------------------------------ selector families *)
\* order tables for the 4 k-mers of (A = 2, k = 2): identity, reversed, and a frequency table
Counts4 == <<5, 0, 5, 1>>
MiniExp(row, w) ==
  [plain |-> Op_Minimizers(row, row, w),
   freq  |-> Op_Minimizers(row, FreqKeys(Counts4, row), w),
   counts |-> Counts4]

OffsetSets == <<<<0>>, <<0, -1>>, <<1>>, <<-1>>>>
SelCounts(A, k) == [c \in 1..NumCodes(A, k) |-> (c * 7) % 5]
SelectExp(s, A) ==
  LET k2 == Kmers(s, Continuous(2))   c2 == [i \in DOMAIN k2 |-> KmerCode(k2[i], A)]
      k3 == Kmers(s, Continuous(3))   c3 == [i \in DOMAIN k3 |-> KmerCode(k3[i], A)]
      s1 == [i \in DOMAIN s |-> s[i]]                                   \* 1-mers are not k-mers (k >= 2)
      f2 == SelCounts(A, 2)
  IN [short3 |-> TooShort(s, Continuous(3)),
      counts2 |-> f2,
      mini   |-> [i \in 1..2 |-> LET w == i + 1 IN
                                  [w |-> w,
                                   plain |-> IF TooShort(s, Continuous(2)) THEN SR("Rejected", <<>>) ELSE Op_Minimizers(c2, c2, w),
                                   freq  |-> IF TooShort(s, Continuous(2)) THEN SR("Rejected", <<>>) ELSE Op_Minimizers(c2, FreqKeys(f2, c2), w)]],
      \* syncmers: k = 3 (k = 4 for the longer window), s = 2, s-mer order plain or by frequency
      sync   |-> [oi \in DOMAIN OffsetSets |-> LET o == OffsetSets[oi] IN
                    [o |-> o,
                     k3 |-> IF TooShort(s, Continuous(3)) THEN SR("Rejected", <<>>) ELSE Op_Syncmers(c3, c2, 3, 2, o),
                     k3f |-> IF TooShort(s, Continuous(3)) THEN SR("Rejected", <<>>) ELSE Op_Syncmers(c3, FreqKeys(f2, c2), 3, 2, o),
                     k4 |-> IF TooShort(s, Continuous(4)) THEN SR("Rejected", <<>>)
                            ELSE LET k4 == Kmers(s, Continuous(4)) IN
                                 Op_Syncmers([i \in DOMAIN k4 |-> KmerCode(k4[i], A)], c2, 4, 2, o)]],
      minc   |-> [c \in 1..4 |-> [plain |-> IF TooShort(s, Continuous(2)) THEN SR("Rejected", <<>>) ELSE Op_Mincode(c2, c2, 0, NumCodes(A, 2), c),
                                   freq  |-> IF TooShort(s, Continuous(2)) THEN SR("Rejected", <<>>) ELSE Op_Mincode(c2, FreqKeys(f2, c2), 0, NumCodes(A, 2), c)]]]

(* ------------------------------------------------------------------ forms family *)
(* The memory form of the array arguments (ArrayForm.tla).  A case is a data set, ONE array
   parameter of the API (role) and a variant of its form - every named stride pattern with the
   documented dtype, other dtypes, read-only buffers, Python lists - or role "all": every array
   parameter at once in a non-contiguous form.  `views` are the arguments as the driver has to
   lay them out in memory, `res` the answers, computed from the values the views denote. *)
FormData ==
  <<[A |-> 2, sp |-> <<0, 1>>, lab |-> FALSE, sel |-> TRUE, p0 |-> 0,
     refs |-> <<[id |-> 7, seq |-> <<0, 1, 1, 0, 1, 1>>, mask |-> NoneV],
                [id |-> 2, seq |-> <<1, 1, 1, 0>>, mask |-> Opt(<<FALSE, TRUE, FALSE, FALSE>>)]>>,
     q |-> <<1, 0, 1, 1, 1, 0>>, qmask |-> Opt(<<FALSE, FALSE, FALSE, TRUE, FALSE, FALSE>>),
     M |-> Mat2, t |-> 1, ss |-> <<0, 1, 1, 0, 0, 1, 0, 1>>],
    [A |-> 3, sp |-> <<0, 1>>, lab |-> FALSE, sel |-> TRUE, p0 |-> 0,
     refs |-> <<[id |-> 5, seq |-> <<2, 0, 1, 1, 2>>, mask |-> Opt(<<TRUE, FALSE, FALSE, FALSE, FALSE>>)],
                [id |-> 6, seq |-> <<0, 1, 2>>, mask |-> NoneV]>>,
     q |-> <<0, 1, 2, 2, 0, 1>>, qmask |-> Opt(<<FALSE, FALSE, TRUE, FALSE, FALSE, FALSE>>),
     M |-> Mat3, t |-> 3, ss |-> <<2, 0, 1, 1, 2, 0, 0>>],
    \* spaced k-mers (no ignore masks: spaced k-mers with a mask are the known defect C10-spaced-kmer-mask)
    [A |-> 2, sp |-> <<0, 1, 3>>, lab |-> FALSE, sel |-> FALSE, p0 |-> 0,
     refs |-> <<[id |-> 3, seq |-> <<0, 1, 1, 0, 1, 0, 0>>, mask |-> NoneV],
                [id |-> 4, seq |-> <<1, 1, 0, 1, 1>>, mask |-> NoneV]>>,
     q |-> <<1, 1, 0, 0, 1, 0, 1>>, qmask |-> NoneV,
     M |-> Mat2, t |-> 4, ss |-> <<0, 1>>],
    \* ids and explicit positions are uint32 labels around 2^31 and 2^32
    [A |-> 2, sp |-> <<0, 1>>, lab |-> TRUE, sel |-> FALSE, p0 |-> U32(32767, 65535),
     refs |-> <<[id |-> U32(32767, 65535), seq |-> <<0, 1, 1, 0, 1>>, mask |-> NoneV],
                [id |-> U32(32768, 0), seq |-> <<1, 1, 0>>, mask |-> NoneV]>>,
     q |-> <<1, 0, 1>>, qmask |-> NoneV,
     M |-> Mat2, t |-> 1, ss |-> <<0, 1>>]>>

LabRoles == {"ids", "fs_pos", "ms_pos", "fp_pos"}
KmerRoles == {"fk_kmers", "fs_kmers", "ms_kmers", "count", "sel_kmers"}
PrimaryDt(role) ==
  CASE role \in KmerRoles \cup {"freq", "spacing"} -> "int64"
    [] role \in {"fs_pos", "ms_pos", "fp_pos", "ids"} -> "uint32"
    [] role \in MaskRoles -> "bool"
    [] role = "code" -> "uint8"
    [] role = "matrix" -> "int32"
\* the form in which the check passes an argument that is not under test
Canon(role) == Variant("c", PrimaryDt(role), FALSE, IF role \in SequenceRoles THEN "list" ELSE "ndarray")
NoVariant == [form |-> "c", form2 |-> "c", dt |-> "doc", ro |-> FALSE, kind |-> "ndarray"]
VariantFor(r, role, w) ==
  IF role = r THEN Variant(IF r \in Roles2 THEN w.form2 ELSE w.form, w.dt, w.ro, w.kind)
  ELSE IF role = "all"
       THEN Variant(IF r \in Roles2 THEN w.form2 ELSE IF r \in MaskRoles /\ w.form # "c" THEN "off" ELSE w.form,
                    PrimaryDt(r), FALSE, "ndarray")
       ELSE Canon(r)

LabelDtypes == {"uint32", "int64", "uint64"}
OtherDts(role, lab) ==
  ((CASE role \in MaskRoles -> {"uint8"} [] role = "matrix" -> SignedDtypes [] OTHER -> IntDtypes) \ {PrimaryDt(role)})
  \cap (IF lab /\ role \in LabRoles THEN LabelDtypes ELSE IntDtypes)
FormVariants(role, lab) ==
  LET two == role \in Roles2
      S == IF two THEN "f" ELSE "step2"
      W(f, dt, ro, kd) == [form |-> IF two THEN "c" ELSE f, form2 |-> IF two THEN f ELSE "c", dt |-> dt, ro |-> ro, kind |-> kd]
      forms == IF two THEN Forms2 ELSE Forms1
  IN (IF FormLevel = 1
      THEN {W(f, PrimaryDt(role), FALSE, "ndarray") : f \in forms}
           \cup {W(f, dt, FALSE, "ndarray") : f \in {"c", S}, dt \in OtherDts(role, lab)}
           \cup {W(f, PrimaryDt(role), TRUE, "ndarray") : f \in {"c", S}}
      ELSE {W(f, dt, ro, "ndarray") : f \in forms, dt \in {PrimaryDt(role)} \cup OtherDts(role, lab), ro \in BOOLEAN})
     \cup {W("c", PrimaryDt(role), FALSE, kd) : kd \in IF role = "ids" THEN {"list", "tuple"} ELSE {"list"}}
AllVariants ==
  {[form |-> p[1], form2 |-> p[2], dt |-> "doc", ro |-> FALSE, kind |-> "ndarray"] :
     p \in {<<"off", "off">>, <<"step2", "f">>, <<"step3", "rowstep">>, <<"rev", "colstep">>, <<"revstep2", "rowrev">>,
            <<"step2", "colrev">>, <<"off", "fstep">>}}
HasMask(D) == (\E r \in DOMAIN D.refs : ~IsNone(D.refs[r].mask)) \/ ~IsNone(D.qmask)
RolesOf(D) ==
  IF D.lab THEN LabRoles \cup {"all"}
  ELSE ((Roles1 \cup Roles2 \cup {"all"}) \ (IF HasMask(D) THEN {} ELSE {"imask"})) \ (IF D.sel THEN {} ELSE {"sel_kmers", "freq"})

KFill == <<1, 0, 3, 2>>
PosFill(D) == IF D.lab THEN <<ShiftLabel(D.p0, 5), ShiftLabel(D.p0, 9)>> ELSE <<9, 8, 6>>
IdFill(D) == IF D.lab THEN <<PowerLabel(8), U32(0, 0)>> ELSE <<1, 3>>
SortedKmers(S, A) == SetToSortSeq(S, LAMBDA a, b : KmerCode(a, A) < KmerCode(b, A))

FormsViews(D, role, w) ==
  LET A == D.A  sp == D.sp  k == Len(sp)  refs == D.refs  nr == Len(refs)
      VO(r) == VariantFor(r, role, w)
      cds(s) == [i \in DOMAIN s |-> KmerCode(s[i], A)]
      km(r) == Kmers(refs[r].seq, sp)
      selpos(r) == [i \in DOMAIN km(r) |-> IF D.lab THEN ShiftLabel(D.p0, 3 * (r - 1) + i - 1) ELSE 10 * r + 3 * i]
      Ts == Op_FromSelection([r \in 1..nr |-> selpos(r)], [r \in 1..nr |-> km(r)], [r \in 1..nr |-> refs[r].id]).out
      pk == SortedKmers({e[1] : e \in Ts}, A)
      rows(x) == SetToSeq({<<e[2], e[3]>> : e \in {y \in Ts : y[1] = x}})
      qk == SortedKmers(AllKmers(A, k), A) \o <<km(1)[1]>>
  IN [ids      |-> <<Lay1([r \in 1..nr |-> refs[r].id], VO("ids"), IdFill(D))>>,
      code     |-> [r \in 1..nr |-> Lay1(refs[r].seq, VO("code"), <<1, 0>>)],
      qcode    |-> <<Lay1(D.q, VO("code"), <<1, 0>>)>>,
      imask    |-> [r \in 1..nr |-> IF IsNone(refs[r].mask) THEN NoneV
                                     ELSE Opt(Lay1(refs[r].mask[1], VO("imask"), <<TRUE, FALSE>>))],
      qmask    |-> IF IsNone(D.qmask) THEN NoneV ELSE Opt(Lay1(D.qmask[1], VO("imask"), <<TRUE, FALSE>>)),
      spacing  |-> <<Lay1(sp, VO("spacing"), <<0, 2, 1>>)>>,
      fk_kmers |-> [r \in 1..nr |-> Lay1(cds(km(r)), VO("fk_kmers"), KFill)],
      fk_masks |-> [r \in 1..nr |-> Lay1(KmerMask(refs[r].mask, Len(refs[r].seq), sp), VO("fk_masks"), <<FALSE, TRUE>>)],
      fs_pos   |-> [r \in 1..nr |-> Lay1(selpos(r), VO("fs_pos"), PosFill(D))],
      fs_kmers |-> [r \in 1..nr |-> Lay1(cds(km(r)), VO("fs_kmers"), KFill)],
      fp_kmers |-> cds(pk),      \* the keys of the dictionary given to from_positions
      fp_pos   |-> [i \in DOMAIN pk |-> Lay2(rows(pk[i]), 2, VO("fp_pos"), PosFill(D))],
      ms_pos   |-> <<Lay1([i \in DOMAIN qk |-> IF D.lab THEN ShiftLabel(D.p0, 6 + i) ELSE 40 + i], VO("ms_pos"), PosFill(D))>>,
      ms_kmers |-> <<Lay1(cds(qk), VO("ms_kmers"), KFill)>>,
      count    |-> <<Lay1(cds(qk), VO("count"), KFill)>>,
      matrix   |-> <<Lay2(D.M, Len(D.M), VO("matrix"), <<-1, 2, 0>>)>>,
      sel_kmers |-> <<Lay1([i \in 1..(Len(D.ss) - 1) |-> KmerCode(KmerAt(D.ss, i - 1, Continuous(2)), A)], VO("sel_kmers"), KFill),
                      Lay1([i \in 1..(Len(D.ss) - 2) |-> KmerCode(KmerAt(D.ss, i - 1, Continuous(3)), A)], VO("sel_kmers"), KFill)>>,
      freq     |-> <<Lay1(SelCounts(A, 2), VO("freq"), <<3, 0, 1>>)>>]

\* SyncmerSelector.select_from_kmers: the k-mers need not overlap; a k-mer is selected iff the
\* leftmost minimum among its own s-mers sits at an allowed offset
SyncmersOfKmers(codes, A, k, s, offsets) ==
  LET win == k - s + 1
      allowed == {WrapOffset(offsets[x], win) : x \in DOMAIN offsets}
      smers(c) == LET km == KmerOfCode(c, A, k) IN [i \in 1..win |-> KmerCode(SubSeq(km, i, i + s - 1), A)]
      pos == SelectSeq([i \in DOMAIN codes |-> i - 1], LAMBDA i : LeftmostArgMin(smers(codes[i + 1]), 0, win - 1) \in allowed)
  IN SR("ok", [pos |-> pos, kmers |-> [i \in DOMAIN pos |-> codes[pos[i] + 1]]])

\* the views of a role (ignore masks: those that are given)
ViewSeq(V, role) ==
  CASE role = "code"  -> V.code \o V.qcode
    [] role = "imask" -> FlattenSeq(V.imask) \o V.qmask
    [] role = "ids" -> V.ids [] role = "spacing" -> V.spacing
    [] role = "fk_kmers" -> V.fk_kmers [] role = "fk_masks" -> V.fk_masks
    [] role = "fs_pos" -> V.fs_pos [] role = "fs_kmers" -> V.fs_kmers [] role = "fp_pos" -> V.fp_pos
    [] role = "ms_pos" -> V.ms_pos [] role = "ms_kmers" -> V.ms_kmers [] role = "count" -> V.count
    [] role = "matrix" -> V.matrix [] role = "sel_kmers" -> V.sel_kmers [] role = "freq" -> V.freq

FormsRes(D, V) ==
  LET A == D.A  k == Len(D.sp)  nr == Len(D.refs)
      ids == Value1(V.ids[1])
      spv == Value1(V.spacing[1])
      dec(v) == DecodeKmers(Value1(v), A, k)
      Ts == Op_FromSelection([r \in 1..nr |-> Value1(V.fs_pos[r])], [r \in 1..nr |-> dec(V.fs_kmers[r])], ids).out
      rq == [r \in 1..nr |-> [id |-> ids[r], seq |-> Value1(V.code[r]),
                              mask |-> IF V.imask[r] = NoneV THEN NoneV ELSE Opt(Value1(V.imask[r][1]))]]
      Tq == TableOf(rq, spv)
      qm == IF V.qmask = NoneV THEN NoneV ELSE Opt(Value1(V.qmask[1]))
      rule == Opt([M |-> Value2(V.matrix[1]), t |-> D.t])
      q == Value1(V.qcode[1])
      x2 == Value1(V.sel_kmers[1])  x3 == Value1(V.sel_kmers[2])  f == Value1(V.freq[1])
      kms == SortedKmers(AllKmers(A, k), A)
  IN [Tk     |-> Op_FromKmers([r \in 1..nr |-> dec(V.fk_kmers[r])], ids, [r \in 1..nr |-> Value1(V.fk_masks[r])]).out,
      Ts     |-> Ts,
      Tp     |-> Op_FromPositions([i \in DOMAIN V.fp_pos |-> <<KmerOfCode(V.fp_kmers[i], A, k), Value2(V.fp_pos[i])>>]).out,
      Tq     |-> Tq,
      sel    |-> Op_MatchSelection(Ts, Value1(V.ms_pos[1]), dec(V.ms_kmers[1])).out,
      counts |-> Op_Count(Ts, dec(V.count[1])).out,
      match  |-> Op_Match(Tq, q, qm, NoneV, spv).out,
      matchr |-> Op_Match(Tq, q, NoneV, rule, spv).out,
      kmers  |-> Op_CreateKmers(q, spv, A).out,
      sim    |-> [i \in DOMAIN kms |-> {KmerCode(b, A) : b \in SimilarSet(rule, kms[i], A)}],
      mini   |-> IF D.sel THEN Op_Minimizers(x2, x2, 2) ELSE SR("Rejected", <<>>),
      minif  |-> IF D.sel THEN Op_Minimizers(x2, FreqKeys(f, x2), 3) ELSE SR("Rejected", <<>>),
      sync   |-> IF D.sel THEN SyncmersOfKmers(x3, A, 3, 2, <<0>>) ELSE SR("Rejected", <<>>),
      minc   |-> IF D.sel THEN Op_Mincode(x2, FreqKeys(f, x2), 0, NumCodes(A, 2), 2) ELSE SR("Rejected", <<>>)]

VariedRoles(role) == IF role = "all" THEN Roles1 \cup Roles2 ELSE {role}
FormsExp(D, role, w) ==
  LET V == FormsViews(D, role, w)
      varied == UNION {ToSet(ViewSeq(V, r)) : r \in VariedRoles(role)}
  IN [data  |-> D,
      k     |-> Len(D.sp),
      views |-> V,
      res   |-> FormsRes(D, V),
      \* must every call that takes the varied argument(s) succeed?
      oc    |-> IF \A r \in VariedRoles(role) : \A v \in ToSet(ViewSeq(V, r)) : MustAccept(r, v) THEN "ok" ELSE "OkOrRejected",
      \* some varied view tells the value from a dense read of its cells
      disc  |-> \E v \in varied : v.kind = "ndarray" /\ Discriminates(v)]
      \* (after every call each buffer holds Frame(view) = view.buf: the driver compares the
      \*  caller's buffers with the `buf` printed here)

(* ------------------------------------------------------------------ Init / Next *)
(* root -> one "chunk" state per group of inputs -> the inputs.  (TLC evaluates initial states
   and their invariants in one thread; successors of different chunk states are generated and
   checked by all workers.) *)
Chunks ==
  {<<"kmers", A>> : A \in {2, 3}} \cup {<<"mask", n>> : n \in 2..MaskLen}
  \cup {<<"table", g[1], g[2]>> : g \in TableGroups}
  \cup UNION {{<<"similar", cs, d>> : d \in cs.V \X cs.V \X cs.V} : cs \in SimCases}   \* d = M[1][1], M[1][2], M[2][2]
  \cup {<<"seltab", a>> : a \in BoundaryLabels}
  \cup UNION {{<<"forms", d, role>> : role \in RolesOf(FormData[d])} : d \in DOMAIN FormData}
  \cup {<<"mini", v, w>> : v \in 0..3, w \in 2..4}
  \cup {<<"select", A, v>> : A \in {2, 3}, v \in {0, 1}}

Set(k, i, e) == kind' = k /\ inp' = i /\ exp' = e

Expand(c) ==
  CASE c[1] = "kmers" ->
         \E s \in SeqsLen(Symbols(c[2]), 1, IF c[2] = 2 THEN KmersLen2 ELSE KmersLen3) : \E sp \in Models2 \cup Models3 :
           Set("kmers", [A |-> c[2], s |-> s, sp |-> sp], KmersExp(s, sp, c[2]))
    [] c[1] = "mask" ->
         \E m \in [1..c[2] -> BOOLEAN] : \E sp \in Models2 \cup Models3 :
           NumKmers(Len(m), sp) >= 1 /\ Set("mask", [m |-> m, sp |-> sp], MaskExp(m, sp))
    [] c[1] = "table" ->
         \E x \in TableInputsOf(c[2], c[3]) : Set("table", x, TableExp(x))
    [] c[1] = "similar" ->
         LET cs == c[2] IN
         /\ \E M \in SymMatrices(cs.n, cs.V) :
              /\ <<M[1][1], M[1][2], M[2][2]>> = c[3]
              /\ \E t \in ThresholdRange(M, cs.A, cs.k) :
                   Set("similar", [A |-> cs.A, k |-> cs.k, M |-> M, t |-> t], SimilarExp(cs.A, cs.k, M, t))
    [] c[1] = "seltab" ->
         \E p \in BoundaryLabels : \E sh \in DOMAIN SelShapes :
           LET x == SelTabInput(c[2], p, sh) IN Set("seltab", x, SelTabExp(x))
    [] c[1] = "forms" ->
         \E w \in (IF c[3] = "all" THEN AllVariants ELSE FormVariants(c[3], FormData[c[2]].lab)) :
           Set("forms", [d |-> c[2], role |-> c[3], w |-> w], FormsExp(FormData[c[2]], c[3], w))
    [] c[1] = "mini" ->
         \E rest \in SeqsLen(0..3, 0, MiniLen - 1) :
           LET row == <<c[2]>> \o rest IN Set("mini", [row |-> row, w |-> c[3]], MiniExp(row, c[3]))
    [] c[1] = "select" ->
         \E rest \in SeqsLen(Symbols(c[2]), 0, (IF c[2] = 2 THEN SelLen ELSE SelLen - 1) - 1) :
           LET s == <<c[3]>> \o rest IN Set("select", [A |-> c[2], s |-> s], SelectExp(s, c[2]))

Init == kind = "root" /\ inp = <<>> /\ exp = <<>>
Next ==
  \/ kind = "root" /\ \E c \in Chunks : Set("chunk", c, <<>>)
  \/ kind = "chunk" /\ Expand(inp)
Spec == Init /\ [][Next]_vars

(* ------------------------------------------------------------------ invariants *)
InvKmers ==
  kind = "kmers" =>
    /\ Dom_Spacing(inp.sp)
    /\ (exp.r.oc = "ok") = (Len(inp.s) >= Span(inp.sp))
    \* the rolling update computes the same codes as the definition
    /\ (exp.r.oc = "ok" /\ ~exp.spaced) => RollingCodes(inp.s, Len(inp.sp), inp.A) = exp.r.out
    /\ exp.r.oc = "ok" => \A i \in DOMAIN exp.r.out : 0 <= exp.r.out[i] /\ exp.r.out[i] < NumCodes(inp.A, Len(inp.sp))

\* a k-mer is dropped exactly if it overlaps an ignored position at an informative offset
InvMask ==
  kind = "mask" =>
    ToSet(exp.kept) = {i \in 0..(exp.n - 1) : \A p \in DOMAIN inp.m : inp.m[p] => \A j \in DOMAIN inp.sp : i + inp.sp[j] + 1 # p}

Buckets == {1, 2, 3, 7}
InvTable ==
  kind = "table" =>
    LET A == inp.A  sp == inp.sp  k == Len(sp)  T == exp.T
        entries == SetToSeq(T)
    IN /\ Dom_Refs(inp.refs) /\ Dom_Spacing(sp)
       /\ \A r \in 1..3 : Dom_Rule(exp.rules[r], A)
       \* branch-and-bound = definition of the similarity neighbourhood
       /\ \A r \in 1..3 : \A a \in AllKmers(A, k) : ImplSimilarSet(exp.rules[r], a, A) = SimilarSet(exp.rules[r], a, A)
       \* counts / lookups / presence are consistent with T
       /\ \A i \in DOMAIN exp.codes : exp.counts[i] = Cardinality(exp.lookups[i])
       /\ exp.present = {exp.codes[i][1] : i \in {j \in DOMAIN exp.codes : exp.counts[j] > 0}}
       \* every builder gives the same T
       /\ Op_FromKmers([r \in DOMAIN inp.refs |-> exp.perRef[r].kmers], [r \in DOMAIN inp.refs |-> inp.refs[r].id],
                       [r \in DOMAIN inp.refs |-> exp.perRef[r].keep]).out = T
       /\ Op_FromTables([r \in DOMAIN inp.refs |-> TableOf(<<inp.refs[r]>>, sp)]).out = T
       \* bucket layer: for the bucketed variants and the direct table (one bucket per code)
       /\ \A nb0 \in Buckets \cup {NumCodes(A, k)} :
            LET nb == EffBuckets(nb0, A, k)
                B == BucketAdd(EmptyBuckets(nb), entries, A, nb)
                half == Len(entries) \div 2
                B1 == BucketAdd(EmptyBuckets(nb), SubSeq(entries, 1, half), A, nb)
                B2 == BucketAdd(EmptyBuckets(nb), SubSeq(entries, half + 1, Len(entries)), A, nb)
            IN /\ BucketAbs(B) = T
               /\ BucketAbs(BucketMerge(<<B1, B2>>, nb)) = T
               /\ BucketUnpickle(BucketPickle(B, nb), nb) = B
               /\ \A i \in DOMAIN exp.codes :
                    /\ BucketCount(B, exp.codes[i][1], A, nb) = exp.counts[i]
                    /\ BucketLookup(B, exp.codes[i][1], A, nb) = exp.lookups[i]
               /\ \A i \in DOMAIN exp.queries :
                    LET qq == exp.queries[i] IN
                    qq.res.oc = "ok" =>
                      BucketMatch(B, qq.q, qq.mask, exp.rules[qq.rule], sp, A, nb) = qq.res.out
               /\ \A r \in 1..3 :
                    BucketMatchTable(B, BucketAdd(EmptyBuckets(nb), SetToSeq(TableOf(exp.other, sp)), A, nb),
                                     exp.rules[r], A, nb) = exp.tmatch[r]
               /\ BucketMatchSelection(B, exp.sel.pos, exp.sel.kmers, A, nb) = exp.sel.out
       /\ Dom_Selection(exp.sel.pos, exp.sel.kmers)
       \* labels pass through unchanged: every reported id is an id of the table / the other table
       /\ inp.lab =>
            /\ \A r1 \in DOMAIN inp.refs : Dom_Label(inp.refs[r1].id)
            /\ \A r2 \in DOMAIN exp.other : Dom_Label(exp.other[r2].id)
            /\ \A i \in DOMAIN exp.sel.pos : Dom_Label(exp.sel.pos[i])
            /\ {e[2] : e \in exp.sel.out} \subseteq {inp.refs[r3].id : r3 \in DOMAIN inp.refs}
            /\ {e[1] : e \in exp.sel.out} \subseteq ToSet(exp.sel.pos)

(* the branch-and-bound search is exact for EVERY symmetric matrix (the bound must be the row
   maximum), similarity is symmetric, and a k-mer is similar to itself iff its self score
   reaches the threshold *)
InvSimilar ==
  kind = "similar" =>
    LET A == inp.A  k == inp.k  rule == Opt([M |-> inp.M, t |-> inp.t]) IN
    /\ Dom_Rule(rule, A)
    /\ \A i \in DOMAIN exp.kmers :
         /\ ImplSimilarSet(rule, exp.kmers[i], A) = exp.sim[i]
         /\ (exp.kmers[i] \in exp.sim[i]) = (Score(inp.M, exp.kmers[i], exp.kmers[i]) >= inp.t)
         /\ \A j \in DOMAIN exp.kmers : (exp.kmers[j] \in exp.sim[i]) = (exp.kmers[i] \in exp.sim[j])
    \* the table holds every k-mer once: row (i, ref, j) iff the j-th k-mer is similar to the i-th
    /\ exp.match.oc = "ok"
    /\ LET km == Kmers(exp.refs[1].seq, Continuous(k)) IN
       exp.match.out = {<<i - 1, 4, j - 1>> : <<i, j>> \in {p \in (DOMAIN km) \X (DOMAIN km) : Similar(rule, km[p[1]], km[p[2]])}}
    /\ \A nb0 \in {3, NumCodes(A, k)} :      \* one bucketed layout and the direct table (all layouts: InvTable)
         LET nb == EffBuckets(nb0, A, k)
             B == BucketAdd(EmptyBuckets(nb), SetToSeq(TableOf(exp.refs, Continuous(k))), A, nb)
         IN /\ BucketMatch(B, exp.refs[1].seq, NoneV, rule, Continuous(k), A, nb) = exp.match.out
            /\ BucketMatchTable(B, BucketAdd(EmptyBuckets(nb), SetToSeq(TableOf(exp.other, Continuous(k))), A, nb),
                                rule, A, nb) = exp.tmatch

InvSelTab ==
  kind = "seltab" =>
    LET A == inp.A  k == inp.k  T == exp.T  entries == SetToSeq(T) IN
    /\ \A r \in DOMAIN inp.ids : Dom_Label(inp.ids[r]) /\ \A i \in DOMAIN inp.pos[r] : Dom_Label(inp.pos[r][i])
    /\ \A x, y \in DOMAIN inp.ids : x # y => inp.ids[x] # inp.ids[y]
    /\ \A r \in DOMAIN inp.ids : Dom_Selection(inp.pos[r], inp.arrays[r])
    /\ Dom_Selection(exp.sel.pos, exp.sel.kmers)
    /\ Cardinality(T) = Len(inp.arrays[1]) + Len(inp.arrays[2])
    /\ Op_FromTables(exp.perRef).out = T
    /\ \A i \in DOMAIN exp.codes : exp.counts[i] = Cardinality(exp.lookups[i])
    /\ exp.present = {exp.codes[i][1] : i \in {j \in DOMAIN exp.codes : exp.counts[j] > 0}}
    \* labels pass through unchanged
    /\ {e[2] : e \in exp.sel.out} \subseteq ToSet(inp.ids)
    /\ {e[3] : e \in exp.sel.out} \subseteq ToSet(inp.pos[1]) \cup ToSet(inp.pos[2])
    /\ {e[1] : e \in exp.sel.out} \subseteq ToSet(exp.sel.pos)
    /\ \A nb0 \in Buckets \cup {NumCodes(A, k)} :
         LET nb == EffBuckets(nb0, A, k)
             B == BucketAdd(EmptyBuckets(nb), entries, A, nb)
             Bs == [r \in DOMAIN exp.perRef |-> BucketAdd(EmptyBuckets(nb), SetToSeq(exp.perRef[r]), A, nb)]
             C == BucketAdd(EmptyBuckets(nb), SetToSeq(Op_FromSelection(exp.other.pos, exp.other.arrays, exp.other.ids).out), A, nb)
         IN /\ BucketAbs(B) = T
            /\ BucketAbs(BucketMerge(Bs, nb)) = T
            /\ BucketUnpickle(BucketPickle(B, nb), nb) = B
            /\ \A i \in DOMAIN exp.codes :
                 /\ BucketCount(B, exp.codes[i][1], A, nb) = exp.counts[i]
                 /\ BucketLookup(B, exp.codes[i][1], A, nb) = exp.lookups[i]
            /\ BucketMatchSelection(B, exp.sel.pos, exp.sel.kmers, A, nb) = exp.sel.out
            /\ BucketMatchTable(B, C, NoneV, A, nb) = exp.tmatch

(* memory form: every view is a legal numpy view that denotes the intended value, so the answers
   are those of the canonical call (form transparency); the builders agree; what the check
   passes for role "all" has to be accepted *)
Dom_Cells(v, r, lab) ==
  IF r \in MaskRoles THEN v.dt \in {"bool", "uint8"} /\ \A c \in DOMAIN v.buf : v.buf[c] \in BOOLEAN
  ELSE IF lab /\ r \in LabRoles THEN v.dt \in LabelDtypes /\ \A c \in DOMAIN v.buf : Dom_Label(v.buf[c])
  ELSE /\ v.dt \in IntDtypes
       /\ \A c \in DOMAIN v.buf : v.buf[c] \in (IF v.dt \in SignedDtypes THEN -128 ELSE 0)..127
InvForms ==
  kind = "forms" =>
    LET D == FormData[inp.d]  V == exp.views  A == D.A IN
    /\ \A r \in Roles1 \cup Roles2 : \A i \in DOMAIN ViewSeq(V, r) :
         LET v == ViewSeq(V, r)[i] IN
         /\ Dom_View(v) /\ Dom_Cells(v, r, D.lab)
         /\ (Contiguous(v) => ~Discriminates(v))
         /\ Frame(v) = v.buf
    /\ exp.res = FormsRes(D, FormsViews(D, "none", NoVariant))
    /\ (inp.role = "all" => exp.oc = "ok" /\ exp.disc)
    /\ exp.res.Tp = exp.res.Ts
    /\ exp.res.Tk = exp.res.Tq
    /\ Dom_Selection(Value1(V.ms_pos[1]), Value1(V.ms_kmers[1]))
    \* k-mers taken from one sequence: selection from the k-mers = selection on the sequence
    /\ D.sel => exp.res.sync = Op_Syncmers(Value1(V.sel_kmers[2]), Value1(V.sel_kmers[1]), 3, 2, <<0>>)

InvMini ==
  kind = "mini" =>
    /\ Law_VanHerk(inp.row, inp.w)
    /\ Law_VanHerk(FreqKeys(Counts4, inp.row), inp.w)
    /\ (exp.plain.oc = "ok") = (Len(inp.row) >= inp.w)

InvSelect ==
  kind = "select" =>
    LET s == inp.s  A == inp.A IN
    ~TooShort(s, Continuous(3)) =>
      LET k2 == Kmers(s, Continuous(2))  c2 == [i \in DOMAIN k2 |-> KmerCode(k2[i], A)] IN
      \A o \in ToSet(OffsetSets) :
        /\ Law_Syncmers(c2, 3, 2, o)
        /\ Law_Syncmers(FreqKeys(exp.counts2, c2), 3, 2, o)
        /\ (~TooShort(s, Continuous(4)) => Law_Syncmers(c2, 4, 2, o))
=============================================================================
