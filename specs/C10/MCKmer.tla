------------------------------- MODULE MCKmer -------------------------------
(* C10: bounded exhaustive model (pure-function pattern).  Init enumerates the inputs of five
   families; `exp` holds the specification's answers; the invariants state that the
   implementation-shaped definitions equal the declarative ones on the input at hand.

     kind = "kmers"   sequence x spacing model           -> k-mer codes (or refusal)
     kind = "mask"    ignore mask x spacing model        -> kept k-mer positions
     kind = "table"   references (+masks) x spacing      -> the table T, and on it: counts, lookups,
                                                             matches of a list of queries (with
                                                             masks / similarity rules), match_table,
                                                             match_kmer_selection
     kind = "mini"    row of keys x window               -> minimizer positions
     kind = "select"  sequence                           -> minimizers / syncmers / mincode under
                                                             several parameter sets and orders *)
EXTENDS KmerIndex, KmerSelect, TLC

CONSTANTS KmersLen2,    \* kmers family: sequences over 2 symbols up to this length
          KmersLen3,    \* ... over 3 symbols
          MaskLen,      \* mask family: masks up to this length
          RefLen2,      \* table family, 2 symbols: first reference up to this length
          RefLen3,      \* table family, 3 symbols: reference up to this length
          MiniLen,      \* mini family: rows over 0..3 up to this length
          SelLen        \* select family: sequences over 2 symbols up to this length (3 symbols: SelLen - 1)

VARIABLES kind, inp, exp
vars == <<kind, inp, exp>>

SeqsLen(S, lo, hi) == UNION {[1..m -> S] : m \in lo..hi}

(* ------------------------------------------------------------------ kmers / mask families *)
Models2 == {<<0, 1>>, <<0, 2>>, <<1, 2>>, <<0, 3>>}
Models3 == {<<0, 1, 2>>, <<0, 1, 3>>, <<0, 2, 3>>, <<1, 2, 4>>}

KmersExp(s, sp, A) ==
  [r |-> Op_CreateKmers(s, sp, A), n |-> NumKmers(Len(s), sp), spaced |-> sp # Continuous(Len(sp))]
MaskExp(m, sp) ==
  [kept |-> SelectSeq([i \in 1..NumKmers(Len(m), sp) |-> i - 1], LAMBDA i : KmerKept(m, i, sp)),
   n |-> NumKmers(Len(m), sp),
   kb |-> KB_SpacedMask(Opt(m), TRUE)]

(* ------------------------------------------------------------------ table family *)
\* score matrices (symmetric) and thresholds of the similarity rules
Mat2 == <<<<2, -1>>, <<-1, 3>>>>
Mat3 == <<<<3, 1, -2>>, <<1, 2, 0>>, <<-2, 0, 4>>>>
Rules(A, k) ==
  IF A = 2 THEN <<NoneV, Opt([M |-> Mat2, t |-> 1]), Opt([M |-> Mat2, t |-> 2 * k])>>
  ELSE <<NoneV, Opt([M |-> Mat3, t |-> 3]), Opt([M |-> Mat3, t |-> 3 * k - 1])>>

SingleMasks(n) == {NoneV} \cup {Opt([p \in 1..n |-> p = q]) : q \in 1..n}
EdgeMasks(n) == {NoneV} \cup (IF n = 0 THEN {} ELSE {Opt([p \in 1..n |-> p = 1]), Opt([p \in 1..n |-> p = n]), Opt([p \in 1..n |-> p # 1])})

Second2 == {<<>>, <<0, 1, 1, 0>>, <<1, 1, 1>>, <<1, 0>>}

\* table inputs are grouped by (group, first reference) so that TLC's workers share them
TableGroups ==
  {<<1, s1>> : s1 \in SeqsLen({0, 1}, 1, RefLen2)} \cup {<<2, s1>> : s1 \in SeqsLen({0, 1}, 2, RefLen2)}
  \cup {<<3, s1>> : s1 \in SeqsLen({0, 1}, 2, RefLen2 + 1)} \cup {<<4, s1>> : s1 \in SeqsLen({0, 1, 2}, 1, RefLen3)}
TableInputsOf(g, s1) ==
  CASE g = 1 ->   \* two symbols, k = 2: all first references, a few second ones
         {[A |-> 2, sp |-> sp, refs |-> IF s2 = <<>> THEN <<[id |-> 7, seq |-> s1, mask |-> NoneV]>>
                                        ELSE <<[id |-> 7, seq |-> s1, mask |-> NoneV], [id |-> 2, seq |-> s2, mask |-> NoneV]>>] :
            sp \in {<<0, 1>>, <<0, 2>>}, s2 \in Second2}
    [] g = 2 ->   \* ... every single-position mask on the first reference, a masked second reference
         {[A |-> 2, sp |-> sp, refs |-> <<[id |-> 0, seq |-> s1, mask |-> m1],
                                          [id |-> 1, seq |-> <<1, 0, 0, 1>>, mask |-> Opt(<<FALSE, TRUE, FALSE, FALSE>>)]>>] :
            sp \in {<<0, 1>>, <<0, 2>>}, m1 \in SingleMasks(Len(s1))}
    [] g = 3 ->   \* two symbols, k = 3
         {[A |-> 2, sp |-> sp, refs |-> <<[id |-> 3, seq |-> s1, mask |-> m1]>>] :
            sp \in {<<0, 1, 2>>, <<0, 1, 3>>}, m1 \in EdgeMasks(Len(s1))}
    [] g = 4 ->   \* three symbols, k = 2
         {[A |-> 3, sp |-> sp, refs |-> <<[id |-> 5, seq |-> s1, mask |-> m1]>>] :
            sp \in {<<0, 1>>, <<1, 2>>}, m1 \in EdgeMasks(Len(s1))}

\* the queries asked of every table: one too short sequence; all sequences of span length
\* (and one more symbol for two letters) without and with the wide rule; longer ones with all
\* rules and with every single-position mask
Queries(A, sp) ==
  LET qs == SeqsLen(Symbols(A), Span(sp), IF A = 2 /\ Span(sp) <= 3 THEN Span(sp) + 1 ELSE Span(sp))
      longer == IF A = 2 THEN {<<0, 1, 1, 0, 1>>, <<1, 1, 0, 0, 0, 1>>} ELSE {<<0, 1, 2, 2, 1, 0>>, <<2, 2, 0, 1>>}
  IN {[q |-> [p \in 1..(Span(sp) - 1) |-> 0], mask |-> NoneV, rule |-> 1]}
     \cup {[q |-> q, mask |-> NoneV, rule |-> r] : q \in qs, r \in 1..2}
     \cup {[q |-> q, mask |-> NoneV, rule |-> r] : q \in longer, r \in 1..3}
     \cup UNION {{[q |-> q, mask |-> m, rule |-> r] : m \in SingleMasks(Len(q)) \ {NoneV}, r \in 1..2} : q \in longer}

OtherRefs(A) ==
  IF A = 2 THEN <<[id |-> 11, seq |-> <<0, 1, 1, 0, 0>>, mask |-> NoneV], [id |-> 12, seq |-> <<1, 1, 1, 0>>, mask |-> NoneV]>>
  ELSE <<[id |-> 11, seq |-> <<0, 1, 2, 2, 0, 1>>, mask |-> NoneV]>>

TableExp(x) ==
  LET A == x.A  sp == x.sp  k == Len(sp)  refs == x.refs
      T == TableOf(refs, sp)
      rules == Rules(A, k)
      kms == SetToSortSeq(AllKmers(A, k), LAMBDA a, b : KmerCode(a, A) < KmerCode(b, A))
      U == TableOf(OtherRefs(A), sp)
      selq == IF A = 2 THEN <<1, 0, 0, 1, 1, 1>> ELSE <<2, 0, 1, 1, 2>>
      selk == Kmers(selq, sp)
      selp == [i \in DOMAIN selk |-> 5 + 2 * i]
  IN [build    |-> Op_FromSequences(refs, sp),
      T        |-> T,
      k        |-> k,
      spaced   |-> sp # Continuous(k),
      codes    |-> [i \in DOMAIN kms |-> <<kms[i], KmerCode(kms[i], A)>>],
      perRef   |-> [r \in DOMAIN refs |->
                      [short |-> TooShort(refs[r].seq, sp),
                       kmers |-> Kmers(refs[r].seq, sp),
                       keep  |-> KmerMask(refs[r].mask, Len(refs[r].seq), sp),
                       kb    |-> KB_SpacedMask(refs[r].mask, TRUE)]],
      counts   |-> Op_Count(T, kms).out,
      lookups  |-> [i \in DOMAIN kms |-> Op_Lookup(T, kms[i]).out],
      present  |-> Op_GetKmers(T).out,
      rules    |-> rules,
      queries  |-> LET qs == SetToSeq(Queries(A, sp)) IN
                   [i \in DOMAIN qs |-> [q |-> qs[i].q, mask |-> qs[i].mask, rule |-> qs[i].rule,
                                         res |-> Op_Match(T, qs[i].q, qs[i].mask, rules[qs[i].rule], sp)]],
      other    |-> OtherRefs(A),
      tmatch   |-> [r \in 1..3 |-> Op_MatchTable(T, U, rules[r]).out],
      sel      |-> [pos |-> selp, kmers |-> selk, out |-> Op_MatchSelection(T, selp, selk).out]]

(* ------------------------------------------------------------------ selector families *)
\* order tables for the 4 k-mers of (A = 2, k = 2): identity, reversed, and a frequency table
Counts4 == <<5, 0, 5, 1>>
MiniExp(row, w) ==
  [plain |-> Op_Minimizers(row, row, w),
   freq  |-> Op_Minimizers(row, FreqKeys(Counts4, row), w),
   counts |-> Counts4]

OffsetSets == <<<<0>>, <<0, -1>>, <<1>>, <<-1>>>>
SelCounts(A, k) == [c \in 1..NumCodes(A, k) |-> (c * 7) % 5]
SelectExp(s, A) ==
  LET k2 == Kmers(s, Continuous(2))   c2 == [i \in DOMAIN k2 |-> KmerCode(k2[i], A)]
      k3 == Kmers(s, Continuous(3))   c3 == [i \in DOMAIN k3 |-> KmerCode(k3[i], A)]
      s1 == [i \in DOMAIN s |-> s[i]]                                   \* 1-mers are not k-mers (k >= 2)
      f2 == SelCounts(A, 2)
  IN [short3 |-> TooShort(s, Continuous(3)),
      counts2 |-> f2,
      mini   |-> [i \in 1..2 |-> LET w == i + 1 IN
                                  [w |-> w,
                                   plain |-> IF TooShort(s, Continuous(2)) THEN SR("Rejected", <<>>) ELSE Op_Minimizers(c2, c2, w),
                                   freq  |-> IF TooShort(s, Continuous(2)) THEN SR("Rejected", <<>>) ELSE Op_Minimizers(c2, FreqKeys(f2, c2), w)]],
      \* syncmers: k = 3 (k = 4 for the longer window), s = 2, s-mer order plain or by frequency
      sync   |-> [oi \in DOMAIN OffsetSets |-> LET o == OffsetSets[oi] IN
                    [o |-> o,
                     k3 |-> IF TooShort(s, Continuous(3)) THEN SR("Rejected", <<>>) ELSE Op_Syncmers(c3, c2, 3, 2, o),
                     k3f |-> IF TooShort(s, Continuous(3)) THEN SR("Rejected", <<>>) ELSE Op_Syncmers(c3, FreqKeys(f2, c2), 3, 2, o),
                     k4 |-> IF TooShort(s, Continuous(4)) THEN SR("Rejected", <<>>)
                            ELSE LET k4 == Kmers(s, Continuous(4)) IN
                                 Op_Syncmers([i \in DOMAIN k4 |-> KmerCode(k4[i], A)], c2, 4, 2, o)]],
      minc   |-> [c \in 1..4 |-> [plain |-> IF TooShort(s, Continuous(2)) THEN SR("Rejected", <<>>) ELSE Op_Mincode(c2, c2, 0, NumCodes(A, 2), c),
                                   freq  |-> IF TooShort(s, Continuous(2)) THEN SR("Rejected", <<>>) ELSE Op_Mincode(c2, FreqKeys(f2, c2), 0, NumCodes(A, 2), c)]]]

(* ------------------------------------------------------------------ Init / Next *)
(* root -> one "chunk" state per group of inputs -> the inputs.  (TLC evaluates initial states
   and their invariants in one thread; successors of different chunk states are generated and
   checked by all workers.) *)
Chunks ==
  {<<"kmers", A>> : A \in {2, 3}} \cup {<<"mask", n>> : n \in 2..MaskLen}
  \cup {<<"table", g[1], g[2]>> : g \in TableGroups}
  \cup {<<"mini", v, w>> : v \in 0..3, w \in 2..4}
  \cup {<<"select", A, v>> : A \in {2, 3}, v \in {0, 1}}

Set(k, i, e) == kind' = k /\ inp' = i /\ exp' = e

Expand(c) ==
  CASE c[1] = "kmers" ->
         \E s \in SeqsLen(Symbols(c[2]), 1, IF c[2] = 2 THEN KmersLen2 ELSE KmersLen3) : \E sp \in Models2 \cup Models3 :
           Set("kmers", [A |-> c[2], s |-> s, sp |-> sp], KmersExp(s, sp, c[2]))
    [] c[1] = "mask" ->
         \E m \in [1..c[2] -> BOOLEAN] : \E sp \in Models2 \cup Models3 :
           NumKmers(Len(m), sp) >= 1 /\ Set("mask", [m |-> m, sp |-> sp], MaskExp(m, sp))
    [] c[1] = "table" ->
         \E x \in TableInputsOf(c[2], c[3]) : Set("table", x, TableExp(x))
    [] c[1] = "mini" ->
         \E rest \in SeqsLen(0..3, 0, MiniLen - 1) :
           LET row == <<c[2]>> \o rest IN Set("mini", [row |-> row, w |-> c[3]], MiniExp(row, c[3]))
    [] c[1] = "select" ->
         \E rest \in SeqsLen(Symbols(c[2]), 0, (IF c[2] = 2 THEN SelLen ELSE SelLen - 1) - 1) :
           LET s == <<c[3]>> \o rest IN Set("select", [A |-> c[2], s |-> s], SelectExp(s, c[2]))

Init == kind = "root" /\ inp = <<>> /\ exp = <<>>
Next ==
  \/ kind = "root" /\ \E c \in Chunks : Set("chunk", c, <<>>)
  \/ kind = "chunk" /\ Expand(inp)
Spec == Init /\ [][Next]_vars

(* ------------------------------------------------------------------ invariants *)
InvKmers ==
  kind = "kmers" =>
    /\ Dom_Spacing(inp.sp)
    /\ (exp.r.oc = "ok") = (Len(inp.s) >= Span(inp.sp))
    \* the rolling update computes the same codes as the definition
    /\ (exp.r.oc = "ok" /\ ~exp.spaced) => RollingCodes(inp.s, Len(inp.sp), inp.A) = exp.r.out
    /\ exp.r.oc = "ok" => \A i \in DOMAIN exp.r.out : 0 <= exp.r.out[i] /\ exp.r.out[i] < NumCodes(inp.A, Len(inp.sp))

\* a k-mer is dropped exactly if it overlaps an ignored position at an informative offset
InvMask ==
  kind = "mask" =>
    ToSet(exp.kept) = {i \in 0..(exp.n - 1) : \A p \in DOMAIN inp.m : inp.m[p] => \A j \in DOMAIN inp.sp : i + inp.sp[j] + 1 # p}

Buckets == {1, 2, 3, 7}
InvTable ==
  kind = "table" =>
    LET A == inp.A  sp == inp.sp  k == Len(sp)  T == exp.T
        entries == SetToSeq(T)
    IN /\ Dom_Refs(inp.refs) /\ Dom_Spacing(sp)
       /\ \A r \in 1..3 : Dom_Rule(exp.rules[r], A)
       \* branch-and-bound = definition of the similarity neighbourhood
       /\ \A r \in 1..3 : \A a \in AllKmers(A, k) : ImplSimilarSet(exp.rules[r], a, A) = SimilarSet(exp.rules[r], a, A)
       \* counts / lookups / presence are consistent with T
       /\ \A i \in DOMAIN exp.codes : exp.counts[i] = Cardinality(exp.lookups[i])
       /\ exp.present = {exp.codes[i][1] : i \in {j \in DOMAIN exp.codes : exp.counts[j] > 0}}
       \* every builder gives the same T
       /\ Op_FromKmers([r \in DOMAIN inp.refs |-> exp.perRef[r].kmers], [r \in DOMAIN inp.refs |-> inp.refs[r].id],
                       [r \in DOMAIN inp.refs |-> exp.perRef[r].keep]).out = T
       /\ Op_FromTables([r \in DOMAIN inp.refs |-> TableOf(<<inp.refs[r]>>, sp)]).out = T
       \* bucket layer: for the bucketed variants and the direct table (one bucket per code)
       /\ \A nb0 \in Buckets \cup {NumCodes(A, k)} :
            LET nb == EffBuckets(nb0, A, k)
                B == BucketAdd(EmptyBuckets(nb), entries, A, nb)
                half == Len(entries) \div 2
                B1 == BucketAdd(EmptyBuckets(nb), SubSeq(entries, 1, half), A, nb)
                B2 == BucketAdd(EmptyBuckets(nb), SubSeq(entries, half + 1, Len(entries)), A, nb)
            IN /\ BucketAbs(B) = T
               /\ BucketAbs(BucketMerge(<<B1, B2>>, nb)) = T
               /\ BucketUnpickle(BucketPickle(B, nb), nb) = B
               /\ \A i \in DOMAIN exp.codes :
                    /\ BucketCount(B, exp.codes[i][1], A, nb) = exp.counts[i]
                    /\ BucketLookup(B, exp.codes[i][1], A, nb) = exp.lookups[i]
               /\ \A i \in DOMAIN exp.queries :
                    LET qq == exp.queries[i] IN
                    qq.res.oc = "ok" =>
                      BucketMatch(B, qq.q, qq.mask, exp.rules[qq.rule], sp, A, nb) = qq.res.out
               /\ \A r \in 1..3 :
                    BucketMatchTable(B, BucketAdd(EmptyBuckets(nb), SetToSeq(TableOf(exp.other, sp)), A, nb),
                                     exp.rules[r], A, nb) = exp.tmatch[r]
       /\ Dom_Selection(exp.sel.pos, exp.sel.kmers)

InvMini ==
  kind = "mini" =>
    /\ Law_VanHerk(inp.row, inp.w)
    /\ Law_VanHerk(FreqKeys(Counts4, inp.row), inp.w)
    /\ (exp.plain.oc = "ok") = (Len(inp.row) >= inp.w)

InvSelect ==
  kind = "select" =>
    LET s == inp.s  A == inp.A IN
    ~TooShort(s, Continuous(3)) =>
      LET k2 == Kmers(s, Continuous(2))  c2 == [i \in DOMAIN k2 |-> KmerCode(k2[i], A)] IN
      \A o \in ToSet(OffsetSets) :
        /\ Law_Syncmers(c2, 3, 2, o)
        /\ Law_Syncmers(FreqKeys(exp.counts2, c2), 3, 2, o)
        /\ (~TooShort(s, Continuous(4)) => Law_Syncmers(c2, 4, 2, o))
=============================================================================
