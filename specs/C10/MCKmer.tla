------------------------------- MODULE MCKmer -------------------------------
(* C10: bounded exhaustive model (pure-function pattern).  Init enumerates the inputs of seven
   families; `exp` holds the specification's answers; the invariants state that the
   implementation-shaped definitions equal the declarative ones on the input at hand.

     kind = "kmers"   sequence x spacing model           -> k-mer codes (or refusal)
     kind = "mask"    ignore mask x spacing model        -> kept k-mer positions
     kind = "table"   references (+masks) x spacing      -> the table T, and on it: counts, lookups,
                                                             matches of a list of queries (with
                                                             masks / similarity rules), match_table,
                                                             match_kmer_selection
                                                             (group 5: reference ids, other-table ids and
                                                             given positions are uint32 labels at the
                                                             limits of every width)
     kind = "similar" symmetric score matrix x threshold -> the similar k-mers of every k-mer, and
                      (every matrix over a value set, not    match / match_table of a table holding every
                      only diagonally dominant ones)         k-mer once
     kind = "seltab"  label ids x label positions x      -> the table built from k-mer selections /
                      k-mer selections                       explicit positions, counts, lookups,
                                                             match_kmer_selection, match_table
     kind = "mini"    row of keys x window               -> minimizer positions
     kind = "select"  sequence                           -> minimizers / syncmers / mincode under
                                                             several parameter sets and orders *)
EXTENDS KmerIndex, KmerSelect, TLC

CONSTANTS KmersLen2,    \* kmers family: sequences over 2 symbols up to this length
          KmersLen3,    \* ... over 3 symbols
          MaskLen,      \* mask family: masks up to this length
          RefLen2,      \* table family, 2 symbols: first reference up to this length
          RefLen3,      \* table family, 3 symbols: reference up to this length
          MiniLen,      \* mini family: rows over 0..3 up to this length
          SelLen,       \* select family: sequences over 2 symbols up to this length (3 symbols: SelLen - 1)
          SimLevel,     \* similar family: 1 = quick value sets, 2 = thorough value sets
          LabelRefLen   \* table group 5: 0 = three fixed first references, n = all over 2 symbols up to length n

VARIABLES kind, inp, exp
vars == <<kind, inp, exp>>

SeqsLen(S, lo, hi) == UNION {[1..m -> S] : m \in lo..hi}

(* ------------------------------------------------------------------ kmers / mask families *)
Models2 == {<<0, 1>>, <<0, 2>>, <<1, 2>>, <<0, 3>>}
Models3 == {<<0, 1, 2>>, <<0, 1, 3>>, <<0, 2, 3>>, <<1, 2, 4>>}

KmersExp(s, sp, A) ==
  [r |-> Op_CreateKmers(s, sp, A), n |-> NumKmers(Len(s), sp), spaced |-> sp # Continuous(Len(sp))]
MaskExp(m, sp) ==
  [kept |-> SelectSeq([i \in 1..NumKmers(Len(m), sp) |-> i - 1], LAMBDA i : KmerKept(m, i, sp)),
   n |-> NumKmers(Len(m), sp),
   kb |-> KB_SpacedMask(Opt(m), TRUE)]

(* ------------------------------------------------------------------ table family *)
\* score matrices (symmetric) and thresholds of the similarity rules
Mat2 == <<<<2, -1>>, <<-1, 3>>>>
Mat3 == <<<<3, 1, -2>>, <<1, 2, 0>>, <<-2, 0, 4>>>>
Rules(A, k) ==
  IF A = 2 THEN <<NoneV, Opt([M |-> Mat2, t |-> 1]), Opt([M |-> Mat2, t |-> 2 * k])>>
  ELSE <<NoneV, Opt([M |-> Mat3, t |-> 3]), Opt([M |-> Mat3, t |-> 3 * k - 1])>>

SingleMasks(n) == {NoneV} \cup {Opt([p \in 1..n |-> p = q]) : q \in 1..n}
EdgeMasks(n) == {NoneV} \cup (IF n = 0 THEN {} ELSE {Opt([p \in 1..n |-> p = 1]), Opt([p \in 1..n |-> p = n]), Opt([p \in 1..n |-> p # 1])})

Second2 == {<<>>, <<0, 1, 1, 0>>, <<1, 1, 1>>, <<1, 0>>}

\* table inputs are grouped by (group, first reference) so that TLC's workers share them
TableGroups ==
  {<<1, s1>> : s1 \in SeqsLen({0, 1}, 1, RefLen2)} \cup {<<2, s1>> : s1 \in SeqsLen({0, 1}, 2, RefLen2)}
  \cup {<<3, s1>> : s1 \in SeqsLen({0, 1}, 2, RefLen2 + 1)} \cup {<<4, s1>> : s1 \in SeqsLen({0, 1, 2}, 1, RefLen3)}
  \cup {<<5, lab>> : lab \in BoundaryLabels}
LabelSeqs == IF LabelRefLen = 0 THEN {<<0, 1, 1, 0>>, <<1, 1, 1>>, <<0, 0, 1, 0, 1>>} ELSE SeqsLen({0, 1}, 2, LabelRefLen)
TableInputsOf(g, s1) ==
  CASE g = 1 ->   \* two symbols, k = 2: all first references, a few second ones
         {[A |-> 2, sp |-> sp, lab |-> FALSE, refs |-> IF s2 = <<>> THEN <<[id |-> 7, seq |-> s1, mask |-> NoneV]>>
                                        ELSE <<[id |-> 7, seq |-> s1, mask |-> NoneV], [id |-> 2, seq |-> s2, mask |-> NoneV]>>] :
            sp \in {<<0, 1>>, <<0, 2>>}, s2 \in Second2}
    [] g = 2 ->   \* ... every single-position mask on the first reference, a masked second reference
         {[A |-> 2, sp |-> sp, lab |-> FALSE, refs |-> <<[id |-> 0, seq |-> s1, mask |-> m1],
                                          [id |-> 1, seq |-> <<1, 0, 0, 1>>, mask |-> Opt(<<FALSE, TRUE, FALSE, FALSE>>)]>>] :
            sp \in {<<0, 1>>, <<0, 2>>}, m1 \in SingleMasks(Len(s1))}
    [] g = 3 ->   \* two symbols, k = 3
         {[A |-> 2, sp |-> sp, lab |-> FALSE, refs |-> <<[id |-> 3, seq |-> s1, mask |-> m1]>>] :
            sp \in {<<0, 1, 2>>, <<0, 1, 3>>}, m1 \in EdgeMasks(Len(s1))}
    [] g = 4 ->   \* three symbols, k = 2
         {[A |-> 3, sp |-> sp, lab |-> FALSE, refs |-> <<[id |-> 5, seq |-> s1, mask |-> m1]>>] :
            sp \in {<<0, 1>>, <<1, 2>>}, m1 \in EdgeMasks(Len(s1))}
    [] g = 5 ->   \* two symbols, k = 2; the reference ids are the boundary label s1 and its successor
                  \* (so 2^31 - 1 / 2^31, 2^32 - 1 / 0, 2^w - 1 / 2^w share a table)
         {[A |-> 2, sp |-> <<0, 1>>, lab |-> TRUE,
           refs |-> <<[id |-> s1, seq |-> r1, mask |-> NoneV], [id |-> ShiftLabel(s1, 1), seq |-> <<1, 0, 0, 1>>, mask |-> NoneV]>>] :
            r1 \in LabelSeqs}

\* the queries asked of every table: one too short sequence; all sequences of span length
\* (and one more symbol for two letters) without and with the wide rule; longer ones with all
\* rules and with every single-position mask
Queries(A, sp) ==
  LET qs == SeqsLen(Symbols(A), Span(sp), IF A = 2 /\ Span(sp) <= 3 THEN Span(sp) + 1 ELSE Span(sp))
      longer == IF A = 2 THEN {<<0, 1, 1, 0, 1>>, <<1, 1, 0, 0, 0, 1>>} ELSE {<<0, 1, 2, 2, 1, 0>>, <<2, 2, 0, 1>>}
  IN {[q |-> [p \in 1..(Span(sp) - 1) |-> 0], mask |-> NoneV, rule |-> 1]}
     \cup {[q |-> q, mask |-> NoneV, rule |-> r] : q \in qs, r \in 1..2}
     \cup {[q |-> q, mask |-> NoneV, rule |-> r] : q \in longer, r \in 1..3}
     \cup UNION {{[q |-> q, mask |-> m, rule |-> r] : m \in SingleMasks(Len(q)) \ {NoneV}, r \in 1..2} : q \in longer}

\* group 5: the other table's ids are labels as well (first column of match_table)
OtherRefsLab(lab) ==
  <<[id |-> ShiftLabel(lab, 6), seq |-> <<0, 1, 1, 0, 0>>, mask |-> NoneV], [id |-> ShiftLabel(lab, 7), seq |-> <<1, 1, 1, 0>>, mask |-> NoneV]>>
OtherRefs(A) ==
  IF A = 2 THEN <<[id |-> 11, seq |-> <<0, 1, 1, 0, 0>>, mask |-> NoneV], [id |-> 12, seq |-> <<1, 1, 1, 0>>, mask |-> NoneV]>>
  ELSE <<[id |-> 11, seq |-> <<0, 1, 2, 2, 0, 1>>, mask |-> NoneV]>>

TableExp(x) ==
  LET A == x.A  sp == x.sp  k == Len(sp)  refs == x.refs
      T == TableOf(refs, sp)
      rules == Rules(A, k)
      kms == SetToSortSeq(AllKmers(A, k), LAMBDA a, b : KmerCode(a, A) < KmerCode(b, A))
      other == IF x.lab THEN OtherRefsLab(refs[1].id) ELSE OtherRefs(A)
      U == TableOf(other, sp)
      selq == IF A = 2 THEN <<1, 0, 0, 1, 1, 1>> ELSE <<2, 0, 1, 1, 2>>
      selk == Kmers(selq, sp)
      \* the positions handed to match_kmer_selection are labels too (group 5: boundary labels)
      selp == [i \in DOMAIN selk |-> IF x.lab THEN ShiftLabel(refs[1].id, 2 + i) ELSE 5 + 2 * i]
  IN [build    |-> Op_FromSequences(refs, sp),
      T        |-> T,
      k        |-> k,
      spaced   |-> sp # Continuous(k),
      codes    |-> [i \in DOMAIN kms |-> <<kms[i], KmerCode(kms[i], A)>>],
      perRef   |-> [r \in DOMAIN refs |->
                      [short |-> TooShort(refs[r].seq, sp),
                       kmers |-> Kmers(refs[r].seq, sp),
                       keep  |-> KmerMask(refs[r].mask, Len(refs[r].seq), sp),
                       kb    |-> KB_SpacedMask(refs[r].mask, TRUE)]],
      counts   |-> Op_Count(T, kms).out,
      lookups  |-> [i \in DOMAIN kms |-> Op_Lookup(T, kms[i]).out],
      present  |-> Op_GetKmers(T).out,
      rules    |-> rules,
      queries  |-> LET qs == SetToSeq(Queries(A, sp)) IN
                   [i \in DOMAIN qs |-> [q |-> qs[i].q, mask |-> qs[i].mask, rule |-> qs[i].rule,
                                         res |-> Op_Match(T, qs[i].q, qs[i].mask, rules[qs[i].rule], sp)]],
      other    |-> other,
      tmatch   |-> [r \in 1..3 |-> Op_MatchTable(T, U, rules[r]).out],
      sel      |-> [pos |-> selp, kmers |-> selk, out |-> Op_MatchSelection(T, selp, selk).out]]

(* ------------------------------------------------------------------ similar family *)
(* Every symmetric n x n matrix with entries from a value set (so: rows whose maximum lies off
   the diagonal, negative diagonals, constant matrices, ... - not a hand-picked matrix), used
   on an alphabet of A <= n symbols, with every threshold from "all k-mers are similar" to
   "none is".  A case is [A, n, k, V]. *)
SymMatrices(n, V) ==
  LET upper == {p \in (1..n) \X (1..n) : p[1] <= p[2]} IN
  {[i \in 1..n |-> [j \in 1..n |-> IF i <= j THEN f[<<i, j>>] ELSE f[<<j, i>>]]] : f \in [upper -> V]}
SimCase(A, n, k, V) == [A |-> A, n |-> n, k |-> k, V |-> V]
SimCases ==
  IF SimLevel = 1
  THEN {SimCase(2, 2, 2, -2..2), SimCase(2, 2, 3, -2..2), SimCase(3, 3, 2, {-1, 2}), SimCase(2, 3, 2, {-1, 2})}
  ELSE {SimCase(2, 2, 2, -3..3), SimCase(2, 2, 3, -3..3), SimCase(3, 3, 2, {-1, 0, 1, 2}), SimCase(3, 3, 3, {-1, 2}),
        SimCase(2, 3, 2, {-1, 0, 2}), SimCase(2, 3, 3, {-1, 0, 2})}
\* smallest / largest entry of the leading A x A block
BlockEntries(M, A) == {M[x][y] : x, y \in 1..A}
LeastOf(S) == CHOOSE x \in S : \A y \in S : x <= y
GreatestOf(S) == CHOOSE x \in S : \A y \in S : x >= y
ThresholdRange(M, A, k) == (k * LeastOf(BlockEntries(M, A)))..(k * GreatestOf(BlockEntries(M, A)) + 1)
\* a sequence in which every k-mer occurs exactly once (de Bruijn sequence, written linearly)
DeBruijn(A, k) ==
  CASE A = 2 /\ k = 2 -> <<0, 0, 1, 1, 0>>
    [] A = 2 /\ k = 3 -> <<0, 0, 0, 1, 0, 1, 1, 1, 0, 0>>
    [] A = 3 /\ k = 2 -> <<0, 0, 1, 0, 2, 1, 1, 2, 2, 0>>
    [] A = 3 /\ k = 3 -> <<0, 0, 0, 1, 0, 0, 2, 0, 1, 1, 0, 1, 2, 0, 2, 1, 0, 2, 2, 1, 1, 1, 2, 1, 2, 2, 2, 0, 0>>
ASSUME \A c \in {<<2, 2>>, <<2, 3>>, <<3, 2>>, <<3, 3>>} :
         LET km == Kmers(DeBruijn(c[1], c[2]), Continuous(c[2])) IN
         Len(km) = NumCodes(c[1], c[2]) /\ ToSet(km) = AllKmers(c[1], c[2])
\* some symbol scores higher with another symbol than with itself (the row maximum of the used
\* block is not on the diagonal)
Wildcard(M, A) == \E x, y \in 1..A : M[x][y] > M[x][x]

SimilarExp(A, k, M, t) ==
  LET rule == Opt([M |-> M, t |-> t])
      kms == SetToSortSeq(AllKmers(A, k), LAMBDA a, b : KmerCode(a, A) < KmerCode(b, A))
      db == DeBruijn(A, k)
      refs == <<[id |-> 4, seq |-> db, mask |-> NoneV]>>
      other == <<[id |-> 9, seq |-> db, mask |-> NoneV]>>
      T == TableOf(refs, Continuous(k))
  IN [kmers  |-> kms,
      sim    |-> [i \in DOMAIN kms |-> SimilarSet(rule, kms[i], A)],
      refs   |-> refs,
      other  |-> other,
      match  |-> Op_Match(T, db, NoneV, rule, Continuous(k)),
      tmatch |-> Op_MatchTable(T, TableOf(other, Continuous(k)), rule).out,
      wild   |-> Wildcard(M, A),
      \* the exact search prunes: some k-mer has a proper, non-empty neighbourhood
      proper |-> \E a \in AllKmers(A, k) : LET S == SimilarSet(rule, a, A) IN S # {} /\ S # AllKmers(A, k)]

(* ------------------------------------------------------------------ seltab family *)
(* Tables made from k-mer selections / explicit positions: ids AND positions are labels.  Input:
   the id label a and the position label p range over all boundary labels; the table holds two
   references (ids a, a+1) whose selected k-mers sit at positions p, p+1, p+2 resp. p, p+3
   ("+" = cyclic successor among the boundary labels); the query selection and the other
   table use further labels. *)
SelShapes ==
  <<[A |-> 2, arrays |-> << <<<<0, 1>>, <<1, 1>>, <<0, 1>>>>, <<<<0, 1>>, <<1, 0>>>> >>],
    [A |-> 2, arrays |-> << <<<<1, 1>>, <<1, 1>>, <<1, 1>>>>, <<<<1, 1>>, <<0, 0>>>> >>],
    [A |-> 3, arrays |-> << <<<<2, 2>>, <<0, 2>>, <<2, 0>>>>, <<<<2, 2>>, <<1, 1>>>> >>]>>
SelTabInput(a, p, sh) ==
  [A |-> SelShapes[sh].A, k |-> 2,
   ids |-> <<a, ShiftLabel(a, 1)>>,
   pos |-> << <<p, ShiftLabel(p, 1), ShiftLabel(p, 2)>>, <<p, ShiftLabel(p, 3)>> >>,
   arrays |-> SelShapes[sh].arrays]
SelTabExp(x) ==
  LET A == x.A  k == x.k
      T == Op_FromSelection(x.pos, x.arrays, x.ids).out
      kms == SetToSortSeq(AllKmers(A, k), LAMBDA a, b : KmerCode(a, A) < KmerCode(b, A))
      p == x.pos[1][1]
      \* query selection: every k-mer once, the first k-mer of the table a second time
      qk == kms \o <<x.arrays[1][1]>>
      qp == [i \in DOMAIN qk |-> ShiftLabel(p, 4 + i)]
      oid == ShiftLabel(x.ids[1], 5)
  IN [T       |-> T,
      codes   |-> [i \in DOMAIN kms |-> <<kms[i], KmerCode(kms[i], A)>>],
      perRef  |-> [r \in DOMAIN x.ids |-> Op_FromSelection(<<x.pos[r]>>, <<x.arrays[r]>>, <<x.ids[r]>>).out],
      counts  |-> Op_Count(T, kms).out,
      lookups |-> [i \in DOMAIN kms |-> Op_Lookup(T, kms[i]).out],
      present |-> Op_GetKmers(T).out,
      sel     |-> [pos |-> qp, kmers |-> qk, out |-> Op_MatchSelection(T, qp, qk).out],
      other   |-> [ids |-> <<oid>>, pos |-> <<qp>>, arrays |-> <<qk>>],
      tmatch  |-> Op_MatchTable(T, Op_FromSelection(<<qp>>, <<qk>>, <<oid>>).out, NoneV).out]

(* ------------------------------------------------------------------ selector families *)
\* order tables for the 4 k-mers of (A = 2, k = 2): identity, reversed, and a frequency table
Counts4 == <<5, 0, 5, 1>>
MiniExp(row, w) ==
  [plain |-> Op_Minimizers(row, row, w),
   freq  |-> Op_Minimizers(row, FreqKeys(Counts4, row), w),
   counts |-> Counts4]

OffsetSets == <<<<0>>, <<0, -1>>, <<1>>, <<-1>>>>
SelCounts(A, k) == [c \in 1..NumCodes(A, k) |-> (c * 7) % 5]
SelectExp(s, A) ==
  LET k2 == Kmers(s, Continuous(2))   c2 == [i \in DOMAIN k2 |-> KmerCode(k2[i], A)]
      k3 == Kmers(s, Continuous(3))   c3 == [i \in DOMAIN k3 |-> KmerCode(k3[i], A)]
      s1 == [i \in DOMAIN s |-> s[i]]                                   \* 1-mers are not k-mers (k >= 2)
      f2 == SelCounts(A, 2)
  IN [short3 |-> TooShort(s, Continuous(3)),
      counts2 |-> f2,
      mini   |-> [i \in 1..2 |-> LET w == i + 1 IN
                                  [w |-> w,
                                   plain |-> IF TooShort(s, Continuous(2)) THEN SR("Rejected", <<>>) ELSE Op_Minimizers(c2, c2, w),
                                   freq  |-> IF TooShort(s, Continuous(2)) THEN SR("Rejected", <<>>) ELSE Op_Minimizers(c2, FreqKeys(f2, c2), w)]],
      \* syncmers: k = 3 (k = 4 for the longer window), s = 2, s-mer order plain or by frequency
      sync   |-> [oi \in DOMAIN OffsetSets |-> LET o == OffsetSets[oi] IN
                    [o |-> o,
                     k3 |-> IF TooShort(s, Continuous(3)) THEN SR("Rejected", <<>>) ELSE Op_Syncmers(c3, c2, 3, 2, o),
                     k3f |-> IF TooShort(s, Continuous(3)) THEN SR("Rejected", <<>>) ELSE Op_Syncmers(c3, FreqKeys(f2, c2), 3, 2, o),
                     k4 |-> IF TooShort(s, Continuous(4)) THEN SR("Rejected", <<>>)
                            ELSE LET k4 == Kmers(s, Continuous(4)) IN
                                 Op_Syncmers([i \in DOMAIN k4 |-> KmerCode(k4[i], A)], c2, 4, 2, o)]],
      minc   |-> [c \in 1..4 |-> [plain |-> IF TooShort(s, Continuous(2)) THEN SR("Rejected", <<>>) ELSE Op_Mincode(c2, c2, 0, NumCodes(A, 2), c),
                                   freq  |-> IF TooShort(s, Continuous(2)) THEN SR("Rejected", <<>>) ELSE Op_Mincode(c2, FreqKeys(f2, c2), 0, NumCodes(A, 2), c)]]]

(* ------------------------------------------------------------------ Init / Next *)
(* root -> one "chunk" state per group of inputs -> the inputs.  (TLC evaluates initial states
   and their invariants in one thread; successors of different chunk states are generated and
   checked by all workers.) *)
Chunks ==
  {<<"kmers", A>> : A \in {2, 3}} \cup {<<"mask", n>> : n \in 2..MaskLen}
  \cup {<<"table", g[1], g[2]>> : g \in TableGroups}
  \cup UNION {{<<"similar", cs, d>> : d \in cs.V \X cs.V \X cs.V} : cs \in SimCases}   \* d = M[1][1], M[1][2], M[2][2]
  \cup {<<"seltab", a>> : a \in BoundaryLabels}
  \cup {<<"mini", v, w>> : v \in 0..3, w \in 2..4}
  \cup {<<"select", A, v>> : A \in {2, 3}, v \in {0, 1}}

Set(k, i, e) == kind' = k /\ inp' = i /\ exp' = e

Expand(c) ==
  CASE c[1] = "kmers" ->
         \E s \in SeqsLen(Symbols(c[2]), 1, IF c[2] = 2 THEN KmersLen2 ELSE KmersLen3) : \E sp \in Models2 \cup Models3 :
           Set("kmers", [A |-> c[2], s |-> s, sp |-> sp], KmersExp(s, sp, c[2]))
    [] c[1] = "mask" ->
         \E m \in [1..c[2] -> BOOLEAN] : \E sp \in Models2 \cup Models3 :
           NumKmers(Len(m), sp) >= 1 /\ Set("mask", [m |-> m, sp |-> sp], MaskExp(m, sp))
    [] c[1] = "table" ->
         \E x \in TableInputsOf(c[2], c[3]) : Set("table", x, TableExp(x))
    [] c[1] = "similar" ->
         LET cs == c[2] IN
         /\ \E M \in SymMatrices(cs.n, cs.V) :
              /\ <<M[1][1], M[1][2], M[2][2]>> = c[3]
              /\ \E t \in ThresholdRange(M, cs.A, cs.k) :
                   Set("similar", [A |-> cs.A, k |-> cs.k, M |-> M, t |-> t], SimilarExp(cs.A, cs.k, M, t))
    [] c[1] = "seltab" ->
         \E p \in BoundaryLabels : \E sh \in DOMAIN SelShapes :
           LET x == SelTabInput(c[2], p, sh) IN Set("seltab", x, SelTabExp(x))
    [] c[1] = "mini" ->
         \E rest \in SeqsLen(0..3, 0, MiniLen - 1) :
           LET row == <<c[2]>> \o rest IN Set("mini", [row |-> row, w |-> c[3]], MiniExp(row, c[3]))
    [] c[1] = "select" ->
         \E rest \in SeqsLen(Symbols(c[2]), 0, (IF c[2] = 2 THEN SelLen ELSE SelLen - 1) - 1) :
           LET s == <<c[3]>> \o rest IN Set("select", [A |-> c[2], s |-> s], SelectExp(s, c[2]))

Init == kind = "root" /\ inp = <<>> /\ exp = <<>>
Next ==
  \/ kind = "root" /\ \E c \in Chunks : Set("chunk", c, <<>>)
  \/ kind = "chunk" /\ Expand(inp)
Spec == Init /\ [][Next]_vars

(* ------------------------------------------------------------------ invariants *)
InvKmers ==
  kind = "kmers" =>
    /\ Dom_Spacing(inp.sp)
    /\ (exp.r.oc = "ok") = (Len(inp.s) >= Span(inp.sp))
    \* the rolling update computes the same codes as the definition
    /\ (exp.r.oc = "ok" /\ ~exp.spaced) => RollingCodes(inp.s, Len(inp.sp), inp.A) = exp.r.out
    /\ exp.r.oc = "ok" => \A i \in DOMAIN exp.r.out : 0 <= exp.r.out[i] /\ exp.r.out[i] < NumCodes(inp.A, Len(inp.sp))

\* a k-mer is dropped exactly if it overlaps an ignored position at an informative offset
InvMask ==
  kind = "mask" =>
    ToSet(exp.kept) = {i \in 0..(exp.n - 1) : \A p \in DOMAIN inp.m : inp.m[p] => \A j \in DOMAIN inp.sp : i + inp.sp[j] + 1 # p}

Buckets == {1, 2, 3, 7}
InvTable ==
  kind = "table" =>
    LET A == inp.A  sp == inp.sp  k == Len(sp)  T == exp.T
        entries == SetToSeq(T)
    IN /\ Dom_Refs(inp.refs) /\ Dom_Spacing(sp)
       /\ \A r \in 1..3 : Dom_Rule(exp.rules[r], A)
       \* branch-and-bound = definition of the similarity neighbourhood
       /\ \A r \in 1..3 : \A a \in AllKmers(A, k) : ImplSimilarSet(exp.rules[r], a, A) = SimilarSet(exp.rules[r], a, A)
       \* counts / lookups / presence are consistent with T
       /\ \A i \in DOMAIN exp.codes : exp.counts[i] = Cardinality(exp.lookups[i])
       /\ exp.present = {exp.codes[i][1] : i \in {j \in DOMAIN exp.codes : exp.counts[j] > 0}}
       \* every builder gives the same T
       /\ Op_FromKmers([r \in DOMAIN inp.refs |-> exp.perRef[r].kmers], [r \in DOMAIN inp.refs |-> inp.refs[r].id],
                       [r \in DOMAIN inp.refs |-> exp.perRef[r].keep]).out = T
       /\ Op_FromTables([r \in DOMAIN inp.refs |-> TableOf(<<inp.refs[r]>>, sp)]).out = T
       \* bucket layer: for the bucketed variants and the direct table (one bucket per code)
       /\ \A nb0 \in Buckets \cup {NumCodes(A, k)} :
            LET nb == EffBuckets(nb0, A, k)
                B == BucketAdd(EmptyBuckets(nb), entries, A, nb)
                half == Len(entries) \div 2
                B1 == BucketAdd(EmptyBuckets(nb), SubSeq(entries, 1, half), A, nb)
                B2 == BucketAdd(EmptyBuckets(nb), SubSeq(entries, half + 1, Len(entries)), A, nb)
            IN /\ BucketAbs(B) = T
               /\ BucketAbs(BucketMerge(<<B1, B2>>, nb)) = T
               /\ BucketUnpickle(BucketPickle(B, nb), nb) = B
               /\ \A i \in DOMAIN exp.codes :
                    /\ BucketCount(B, exp.codes[i][1], A, nb) = exp.counts[i]
                    /\ BucketLookup(B, exp.codes[i][1], A, nb) = exp.lookups[i]
               /\ \A i \in DOMAIN exp.queries :
                    LET qq == exp.queries[i] IN
                    qq.res.oc = "ok" =>
                      BucketMatch(B, qq.q, qq.mask, exp.rules[qq.rule], sp, A, nb) = qq.res.out
               /\ \A r \in 1..3 :
                    BucketMatchTable(B, BucketAdd(EmptyBuckets(nb), SetToSeq(TableOf(exp.other, sp)), A, nb),
                                     exp.rules[r], A, nb) = exp.tmatch[r]
               /\ BucketMatchSelection(B, exp.sel.pos, exp.sel.kmers, A, nb) = exp.sel.out
       /\ Dom_Selection(exp.sel.pos, exp.sel.kmers)
       \* labels pass through unchanged: every reported id is an id of the table / the other table
       /\ inp.lab =>
            /\ \A r1 \in DOMAIN inp.refs : Dom_Label(inp.refs[r1].id)
            /\ \A r2 \in DOMAIN exp.other : Dom_Label(exp.other[r2].id)
            /\ \A i \in DOMAIN exp.sel.pos : Dom_Label(exp.sel.pos[i])
            /\ {e[2] : e \in exp.sel.out} \subseteq {inp.refs[r3].id : r3 \in DOMAIN inp.refs}
            /\ {e[1] : e \in exp.sel.out} \subseteq ToSet(exp.sel.pos)

(* the branch-and-bound search is exact for EVERY symmetric matrix (the bound must be the row
   maximum), similarity is symmetric, and a k-mer is similar to itself iff its self score
   reaches the threshold *)
InvSimilar ==
  kind = "similar" =>
    LET A == inp.A  k == inp.k  rule == Opt([M |-> inp.M, t |-> inp.t]) IN
    /\ Dom_Rule(rule, A)
    /\ \A i \in DOMAIN exp.kmers :
         /\ ImplSimilarSet(rule, exp.kmers[i], A) = exp.sim[i]
         /\ (exp.kmers[i] \in exp.sim[i]) = (Score(inp.M, exp.kmers[i], exp.kmers[i]) >= inp.t)
         /\ \A j \in DOMAIN exp.kmers : (exp.kmers[j] \in exp.sim[i]) = (exp.kmers[i] \in exp.sim[j])
    \* the table holds every k-mer once: row (i, ref, j) iff the j-th k-mer is similar to the i-th
    /\ exp.match.oc = "ok"
    /\ LET km == Kmers(exp.refs[1].seq, Continuous(k)) IN
       exp.match.out = {<<i - 1, 4, j - 1>> : <<i, j>> \in {p \in (DOMAIN km) \X (DOMAIN km) : Similar(rule, km[p[1]], km[p[2]])}}
    /\ \A nb0 \in {3, NumCodes(A, k)} :      \* one bucketed layout and the direct table (all layouts: InvTable)
         LET nb == EffBuckets(nb0, A, k)
             B == BucketAdd(EmptyBuckets(nb), SetToSeq(TableOf(exp.refs, Continuous(k))), A, nb)
         IN /\ BucketMatch(B, exp.refs[1].seq, NoneV, rule, Continuous(k), A, nb) = exp.match.out
            /\ BucketMatchTable(B, BucketAdd(EmptyBuckets(nb), SetToSeq(TableOf(exp.other, Continuous(k))), A, nb),
                                rule, A, nb) = exp.tmatch

InvSelTab ==
  kind = "seltab" =>
    LET A == inp.A  k == inp.k  T == exp.T  entries == SetToSeq(T) IN
    /\ \A r \in DOMAIN inp.ids : Dom_Label(inp.ids[r]) /\ \A i \in DOMAIN inp.pos[r] : Dom_Label(inp.pos[r][i])
    /\ \A x, y \in DOMAIN inp.ids : x # y => inp.ids[x] # inp.ids[y]
    /\ \A r \in DOMAIN inp.ids : Dom_Selection(inp.pos[r], inp.arrays[r])
    /\ Dom_Selection(exp.sel.pos, exp.sel.kmers)
    /\ Cardinality(T) = Len(inp.arrays[1]) + Len(inp.arrays[2])
    /\ Op_FromTables(exp.perRef).out = T
    /\ \A i \in DOMAIN exp.codes : exp.counts[i] = Cardinality(exp.lookups[i])
    /\ exp.present = {exp.codes[i][1] : i \in {j \in DOMAIN exp.codes : exp.counts[j] > 0}}
    \* labels pass through unchanged
    /\ {e[2] : e \in exp.sel.out} \subseteq ToSet(inp.ids)
    /\ {e[3] : e \in exp.sel.out} \subseteq ToSet(inp.pos[1]) \cup ToSet(inp.pos[2])
    /\ {e[1] : e \in exp.sel.out} \subseteq ToSet(exp.sel.pos)
    /\ \A nb0 \in Buckets \cup {NumCodes(A, k)} :
         LET nb == EffBuckets(nb0, A, k)
             B == BucketAdd(EmptyBuckets(nb), entries, A, nb)
             Bs == [r \in DOMAIN exp.perRef |-> BucketAdd(EmptyBuckets(nb), SetToSeq(exp.perRef[r]), A, nb)]
             C == BucketAdd(EmptyBuckets(nb), SetToSeq(Op_FromSelection(exp.other.pos, exp.other.arrays, exp.other.ids).out), A, nb)
         IN /\ BucketAbs(B) = T
            /\ BucketAbs(BucketMerge(Bs, nb)) = T
            /\ BucketUnpickle(BucketPickle(B, nb), nb) = B
            /\ \A i \in DOMAIN exp.codes :
                 /\ BucketCount(B, exp.codes[i][1], A, nb) = exp.counts[i]
                 /\ BucketLookup(B, exp.codes[i][1], A, nb) = exp.lookups[i]
            /\ BucketMatchSelection(B, exp.sel.pos, exp.sel.kmers, A, nb) = exp.sel.out
            /\ BucketMatchTable(B, C, NoneV, A, nb) = exp.tmatch

InvMini ==
  kind = "mini" =>
    /\ Law_VanHerk(inp.row, inp.w)
    /\ Law_VanHerk(FreqKeys(Counts4, inp.row), inp.w)
    /\ (exp.plain.oc = "ok") = (Len(inp.row) >= inp.w)

InvSelect ==
  kind = "select" =>
    LET s == inp.s  A == inp.A IN
    ~TooShort(s, Continuous(3)) =>
      LET k2 == Kmers(s, Continuous(2))  c2 == [i \in DOMAIN k2 |-> KmerCode(k2[i], A)] IN
      \A o \in ToSet(OffsetSets) :
        /\ Law_Syncmers(c2, 3, 2, o)
        /\ Law_Syncmers(FreqKeys(exp.counts2, c2), 3, 2, o)
        /\ (~TooShort(s, Continuous(4)) => Law_Syncmers(c2, 4, 2, o))
=============================================================================
