------------------------------- MODULE Trace -------------------------------
(* C10 direction B: sessions recorded from the real API are re-computed with the operators of
   KmerIndex / KmerSelect.  TRACE_FILE is a JSON array of traces.  The first event fixes the
   subject:
     {op: "table", A, sp, refs: [{id, seq, mask}], nb, oc, out: [[kmer, ref, pos], ..]}
         a table built by from_sequences; `out` is what the real table holds
         (reference ids, the ids of other tables and the positions given to
         match_kmer_selection are uint32 labels ["u32", hi, lo] - KmerIndex!Dom_Label - in the
         calls and in the reported rows)
     {op: "sequence", A, s}            a sequence for the selectors
     {op: "from_positions", entries: [[kmer, [[ref id, pos], ..]], ..], views, oc, out}
         KmerTable.from_positions of the listed entries; `out` is what the new table holds
   `views` (calls match, count, match_sel, from_positions) lists the memory form in which the
   driver handed an array argument over: {arg, buf, off, shape, st} (ArrayForm.tla; cells are
   abstract values: k-mer tuples, labels, symbols, booleans).  TLC checks that each view is a
   legal view that denotes the logged argument; the expected answer is that of the value.
   later events are single calls with their logged outcome and observation.  Every event is
   judged on its own (queries against the logged table content), disagreements are printed as
     <<"MISMATCH", tid, eventIndex, expected outcome, expected value>>. *)
EXTENDS KmerIndex, KmerSelect, ArrayForm, Json, IOUtils, TLC

Tr == JsonDeserialize(IOEnv.TRACE_FILE)

VARIABLES tid, l, S
tvars == <<tid, l, S>>

NoDupSeq(s) == Cardinality(ToSet(s)) = Len(s)
RR(oc, out) == [oc |-> oc, out |-> out]

\* the labels of a call are uint32 values (a driver that logs anything else is rejected)
LabelsOk(e) ==
  CASE e.op = "table"       -> \A r \in DOMAIN e.refs : Dom_Label(e.refs[r].id)
    [] e.op = "match_table" -> \A r \in DOMAIN e.other : Dom_Label(e.other[r].id)
    [] e.op = "match_sel"   -> \A i \in DOMAIN e.pos : Dom_Label(e.pos[i])
    [] e.op = "from_positions" -> \A x \in DOMAIN e.entries : \A i \in DOMAIN e.entries[x][2] : Dom_Label(e.entries[x][2][i][1])
    [] OTHER                -> TRUE

\* the arrays the driver laid out in memory denote the logged arguments
ArgValue(e, name) ==
  CASE name = "pos" -> e.pos [] name = "kmers" -> e.kmers [] name = "q" -> e.q [] name = "mask" -> e.mask[1]
ViewsOk(e) ==
  CASE e.op \in {"match", "count", "match_sel"} ->
         \A i \in DOMAIN e.views : Dom_View(e.views[i]) /\ Value1(e.views[i]) = ArgValue(e, e.views[i].arg)
    [] e.op = "from_positions" ->
         /\ Len(e.views) = Len(e.entries)
         /\ \A i \in DOMAIN e.views : Dom_View(e.views[i]) /\ Value2(e.views[i]) = e.entries[i][2]
    [] OTHER -> TRUE

Expected(e) ==
  CASE ~LabelsOk(e)         -> RR("OutOfDomain", {})
    [] ~ViewsOk(e)          -> RR("OutOfDomain", {})
    [] e.op = "from_positions" -> Op_FromPositions(e.entries)
    [] e.op = "table"       -> Op_FromSequences(e.refs, e.sp)
    [] e.op = "match"       -> Op_Match(S.T, e.q, e.mask, e.rule, S.sp)
    [] e.op = "count"       -> Op_Count(S.T, e.kmers)
    [] e.op = "lookup"      -> Op_Lookup(S.T, e.kmer)
    [] e.op = "get_kmers"   -> Op_GetKmers(S.T)
    [] e.op = "match_table" -> Op_MatchTable(S.T, TableOf(e.other, S.sp), e.rule)
    [] e.op = "match_sel"   -> IF Dom_Selection(e.pos, e.kmers) THEN Op_MatchSelection(S.T, e.pos, e.kmers)
                               ELSE RR("OutOfDomain", {})
    [] e.op = "minimizers"  -> Op_Minimizers(e.kmers, e.ord, e.w)
    [] e.op = "syncmers"    -> Op_Syncmers(e.kmers, e.sord, e.k, e.s, e.offsets)
    [] e.op = "mincode"     -> Op_Mincode(e.kmers, e.ord, e.lo, e.range, e.c)

\* the k-mers (and, without permutation, the keys) logged with a selector call are those of the
\* session's sequence
KeysConsistent(e) ==
  e.op \in {"minimizers", "syncmers", "mincode"} =>
    /\ Op_CreateKmers(S.s, Continuous(e.k), S.A).out = e.kmers
    /\ (e.perm = "none" /\ e.op # "syncmers") => e.ord = e.kmers
    /\ (e.perm = "none" /\ e.op = "syncmers") => e.sord = Op_CreateKmers(S.s, Continuous(e.s), S.A).out

OutMatches(e, r) ==
  CASE e.op \in {"table", "match", "lookup", "get_kmers", "match_table", "match_sel", "from_positions"} ->
         ToSet(e.out) = r.out /\ NoDupSeq(e.out)
    [] e.op = "count" -> e.out = r.out
    [] OTHER -> e.out.pos = r.out.pos /\ e.out.kmers = r.out.kmers /\ ~e.is_mask

Judge(e, r) ==
  LET good == CASE r.oc = "RejectedOrEmpty" -> e.oc = "Rejected" \/ e.out = <<>>
                [] r.oc = "Rejected"        -> e.oc = "Rejected"
                [] r.oc = "ok"              -> e.oc = "ok" /\ OutMatches(e, r) /\ KeysConsistent(e)
                [] OTHER                    -> FALSE
  IN IF good THEN TRUE ELSE PrintT(<<"MISMATCH", tid, l + 1, r.oc, r.out>>)

Empty == [A |-> 0, sp |-> <<0, 1>>, T |-> {}, s |-> <<>>]

Init == tid \in 1..Len(Tr) /\ l = 0 /\ S = Empty

Next ==
  /\ l < Len(Tr[tid])
  /\ l' = l + 1
  /\ UNCHANGED tid
  /\ LET e == Tr[tid][l + 1] IN
     CASE e.op = "sequence" -> S' = [S EXCEPT !.A = e.A, !.s = e.s]
       [] e.op = "table"    -> /\ Judge(e, Expected(e))
                               \* resynchronise on what the real table holds
                               /\ S' = [S EXCEPT !.A = e.A, !.sp = e.sp, !.T = ToSet(e.out)]
       [] OTHER             -> Judge(e, Expected(e)) /\ UNCHANGED S

Spec == Init /\ [][Next]_tvars
=============================================================================
