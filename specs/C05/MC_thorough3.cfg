SPECIFICATION Spec
CONSTANTS
  IntLen = 3
  Rich = FALSE
INVARIANT InvInvertible
INVARIANT InvRejected
INVARIANT InvKnownBadTight
INVARIANT InvAcceptSpec
INVARIANT InvCandidates
INVARIANT InvRepFree
INVARIANT InvKnownRepTight
CHECK_DEADLOCK FALSE
