SPECIFICATION Spec
CONSTANTS
  Rich = FALSE
  SciLen = 2
INVARIANT InvTolerance
INVARIANT InvReturns
INVARIANT InvRepFree
INVARIANT InvLevelFree
CHECK_DEADLOCK FALSE
