SPECIFICATION Spec
CONSTANTS
  Rich = FALSE
  SciLen = 2
INVARIANT InvTolerance
INVARIANT InvReturns
CHECK_DEADLOCK FALSE
