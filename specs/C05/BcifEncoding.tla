------------------------------- MODULE BcifEncoding -------------------------------
(* C05: the BinaryCIF data encodings of biotite.structure.io.pdbx (encoding.pyx), chains of them
   (encode_stepwise / decode_stepwise, BinaryCIFData.serialize / deserialize) and the chains
   chosen by compress.py.

   Arrays.  Arr(t, v): t a BinaryCIF type code (1 INT8, 2 INT16, 3 INT32, 4 UINT8, 5 UINT16,
   6 UINT32, 32 FLOAT32, 33 FLOAT64), StrT for strings, BytesT for the bytes of an integer array,
   -32 / -33 for the (opaque) bytes of a float array.
     integer element : an Int                       (UINT32 only below 2^31: TLC integers)
     float element   : [k, fx, ex]  k = "fin"   value fx / 2^20 (ex) or within 2^-21 of it (~ex), |value| <= 1024 (inputs: < 1024)
                                    k = "whole" value fx (ex) or within 1/2 of it (~ex), 1024 < |fx| < 2^31
                                    k = "nan" | "pinf" | "ninf"      (fx = 0)
                                    k = "junk"  any other float (e.g. what overflow produces)
     string element  : a sequence of character tokens
   Encodings are tagged tuples, optional parameters <<>> / <<v>>:
     <<"BA", type>>  <<"FP", factor, srcType>>  <<"IQ", min, max, numSteps, srcType>>
     <<"RL", srcSize, srcType>>  <<"DE", srcType, origin>>  <<"IP", byteCount, srcSize, isUnsigned>>
     <<"SA", strings, dataEncoding, offsetEncoding>>

   Enc(e, A) = [oc, a, e]  (e with the parameters the first encoding pass fills in),
   Dec(e, B) = [oc, a];  EncodeChain / DecodeChain fold them.   Impl = what the code does.
   The property (Ideal): Holds(e, A) says whether the target representation can hold A; where it
   cannot, the call must be "Rejected"; where it can, decoding returns A exactly (integers,
   strings, raw floats) or inside AcceptFx (fixed point: half a step; interval quantisation: the
   documented binning, up to the next step).  KB_* are the recorded defects. *)
EXTENDS Integers, Sequences, FiniteSets, SequencesExt, FiniteSetsExt, TLC

None == <<>>
Some(v) == <<v>>
IsNone(o) == o = <<>>
OptOr(o, d) == IF o = <<>> THEN d ELSE o[1]

Scale == 1048576                     \* 2^20: float elements are fixed-point numbers of 20 fractional bits
MaxInt32 == 2147483647
MinInt32 == -2147483647 - 1
StrT == 100
BytesT == 0
IntTypes == {1, 2, 3, 4, 5, 6}
FloatTypes == {32, 33}
Arr(t, v) == [t |-> t, v |-> v]
Abs(x) == IF x < 0 THEN -x ELSE x
\* concatenation of a sequence of sequences (FlattenSeq of the community modules recurses per element)
Flat(ss) == FoldLeft(LAMBDA acc, s : acc \o s, <<>>, ss)

TLo(t) == CASE t = 1 -> -128 [] t = 2 -> -32768 [] t = 3 -> MinInt32 [] OTHER -> 0
THi(t) == CASE t = 1 -> 127 [] t = 2 -> 32767 [] t = 3 -> MaxInt32 [] t = 4 -> 255 [] t = 5 -> 65535
            [] t = 6 -> MaxInt32          \* model restriction: UINT32 values stay below 2^31
TBytes(t) == CASE t \in {1, 4} -> 1 [] t \in {2, 5} -> 2 [] OTHER -> 4
TMod(t) == IF TBytes(t) = 1 THEN 256 ELSE 65536          \* only used for 8 / 16 bit types
Fits(t, v) == TLo(t) <= v /\ v <= THi(t)
\* numpy arithmetic in an integer dtype: modulo the width (32-bit: Dom_NoWrap32 keeps results in range)
Wrap(t, v) == IF TBytes(t) = 4 THEN v ELSE ((v - TLo(t)) % TMod(t)) + TLo(t)

Fin(fx)   == [k |-> "fin", fx |-> fx, ex |-> TRUE]
FinApprox(fx, ex) == [k |-> "fin", fx |-> fx, ex |-> ex]
Whole(n)  == [k |-> "whole", fx |-> n, ex |-> TRUE]
NaN  == [k |-> "nan", fx |-> 0, ex |-> TRUE]
PInf == [k |-> "pinf", fx |-> 0, ex |-> TRUE]
NInf == [k |-> "ninf", fx |-> 0, ex |-> TRUE]
Junk == [k |-> "junk", fx |-> 0, ex |-> FALSE]
IsFinite(x) == x.k \in {"fin", "whole"}

R(oc, a, e) == [oc |-> oc, a |-> a, e |-> e]
Rej(e) == R("Rejected", Arr(BytesT, <<>>), e)
D(oc, a) == [oc |-> oc, a |-> a]
DRej == D("Rejected", Arr(BytesT, <<>>))

(* ================================================================== ByteArray *)
\* little-endian two's complement bytes (\div and % floor, so negative numbers come out right)
IntBytes(v, n) == [k \in 1..n |-> (v \div (256 ^ (k - 1))) % 256]
BytesInt(bs, signed) ==
  LET n == Len(bs)
      top == IF signed /\ bs[n] >= 128 THEN bs[n] - 256 ELSE bs[n]
  IN FoldLeft(LAMBDA acc, k : acc + bs[k] * (256 ^ (k - 1)), top * (256 ^ (n - 1)), [k \in 1..(n - 1) |-> k])
\* _safe_cast(data, type).tobytes()
EncBA(e, A) ==
  LET ty == OptOr(e[2], A.t)
      e2 == <<"BA", Some(ty)>>
  IN IF A.t \notin IntTypes \cup FloatTypes THEN Rej(e)
     ELSE IF ty \in IntTypes THEN
          IF A.t \notin IntTypes THEN Rej(e2)                       \* "Cannot cast floating point to integer"
          ELSE IF \E i \in DOMAIN A.v : ~Fits(ty, A.v[i]) THEN Rej(e2)   \* "Integer values do not fit"
          ELSE R("ok", Arr(BytesT, Flat([i \in DOMAIN A.v |-> IntBytes(A.v[i], TBytes(ty))])), e2)
     ELSE IF A.t = ty THEN R("ok", Arr(-ty, A.v), e2)               \* raw IEEE bytes, kept opaque
     ELSE Rej(e2)                                                    \* outside Dom (see Dom_BAType)
DecBA(e, B) ==
  LET ty == e[2][1] IN
  IF ty \in IntTypes THEN
     IF B.t # BytesT \/ Len(B.v) % TBytes(ty) # 0 THEN DRej
     ELSE D("ok", Arr(ty, [i \in 1..(Len(B.v) \div TBytes(ty)) |->
                BytesInt(SubSeq(B.v, (i - 1) * TBytes(ty) + 1, i * TBytes(ty)), ty \in {1, 2, 3})]))
  ELSE IF B.t = -ty THEN D("ok", Arr(ty, B.v)) ELSE DRej

(* ================================================================== FixedPoint *)
\* factor: a positive integer F <= 1000 (10, 100, 1000 in real files)
RoundHalfEven(num, den) ==          \* num / den for den > 0, ties to even
  LET q == num \div den  r == num % den IN
  IF 2 * r < den THEN q ELSE IF 2 * r > den THEN q + 1 ELSE IF q % 2 = 0 THEN q ELSE q + 1
\* round(x * F) for a "fin" element, without leaving 32 bits:  x * F = whole + frac / 2^20
FixQ(fx, F) ==
  LET ip == fx \div Scale  fp == fx % Scale
      w  == fp * F
  IN ip * F + (w \div Scale) + RoundHalfEven(w % Scale, Scale)
\* can int32 hold round(x * F) ?
FixHolds(x, F) ==
  CASE x.k = "fin"   -> TRUE                      \* |x| < 1024 and F <= 1000
    [] x.k = "whole" -> Abs(x.fx) <= MaxInt32 \div F
    [] OTHER -> FALSE
FixEnc1(x, F) == IF x.k = "fin" THEN FixQ(x.fx, F) ELSE x.fx * F
\* np.round(data * factor).astype(np.int32): no check; NaN, infinities and overflow become INT_MIN
EncFP(e, A) ==
  LET F  == e[2]
      e2 == <<"FP", F, Some(OptOr(e[3], A.t))>>
  IN IF A.t \notin FloatTypes \/ (e[3] # None /\ e[3][1] \notin FloatTypes) THEN Rej(e)  \* "Only floating point types"
     ELSE R("ok", Arr(3, [i \in DOMAIN A.v |-> IF FixHolds(A.v[i], F) THEN FixEnc1(A.v[i], F) ELSE MinInt32]), e2)
\* (data / factor).astype(src_type): q / F to the nearest 2^-20
DecFP(e, B) ==
  LET F == e[2]
      One(q) == IF q = MinInt32 THEN Junk
                ELSE IF Abs(q) \div F > 1024 \/ (Abs(q) \div F = 1024 /\ Abs(q) % F # 0)
                     THEN (IF q % F = 0 THEN Whole(q \div F) ELSE Junk)
                ELSE FinApprox((q \div F) * Scale + RoundHalfEven((q % F) * Scale, F), ((q % F) * Scale) % F = 0)
  IN IF B.t \notin IntTypes THEN DRej ELSE D("ok", Arr(e[3][1], [i \in DOMAIN B.v |-> One(B.v[i])]))

(* ================================================================== IntervalQuantization *)
\* min, max: fx values; (max - min) divisible by numSteps - 1 (Dom_IQ), so the steps are exact
IQStep(e) == (e[3] - e[2]) \div (e[4] - 1)
IQHolds(e, x) == x.k = "fin" /\ e[2] <= x.fx /\ x.fx <= e[3]
\* searchsorted(linspace(min, max, numSteps), data, "left"): the number of steps below x
EncIQ(e, A) ==
  LET st == IQStep(e)
      e2 == <<"IQ", e[2], e[3], e[4], Some(OptOr(e[5], A.t))>>
      One(x) == CASE x.k \in {"nan", "pinf"} -> e[4]
                  [] x.k = "ninf" -> 0
                  [] x.k = "whole" -> IF x.fx > 0 THEN e[4] ELSE 0          \* |x| >= 1024: beyond every interval
                  [] OTHER -> IF x.fx <= e[2] THEN 0 ELSE IF x.fx > e[3] THEN e[4]
                              ELSE (x.fx - e[2] + st - 1) \div st
  IN IF A.t \notin FloatTypes THEN Rej(e)
     ELSE R("ok", Arr(3, [i \in DOMAIN A.v |-> One(A.v[i])]), e2)
DecIQ(e, B) ==
  IF B.t \notin IntTypes THEN DRej
  ELSE D("ok", Arr(e[5][1], [i \in DOMAIN B.v |-> Fin(e[2] + B.v[i] * IQStep(e))]))

(* ================================================================== RunLength *)
\* runs as <<value, length>> pairs, left to right
Runs(v) ==
  FoldLeft(LAMBDA acc, x : IF acc # <<>> /\ acc[Len(acc)][1] = x
                           THEN [acc EXCEPT ![Len(acc)] = <<x, @[2] + 1>>]
                           ELSE Append(acc, <<x, 1>>), <<>>, v)
EncRL(e, A) ==
  LET ty == OptOr(e[3], A.t)
      e2 == <<"RL", Some(OptOr(e[2], Len(A.v))), Some(ty)>>
  IN IF A.t \notin IntTypes \/ ty \notin IntTypes THEN Rej(e)         \* no matching signature / float cast
     ELSE IF e[2] # None /\ e[2][1] # Len(A.v) THEN Rej(e)             \* "source size does not match"
     ELSE IF \E i \in DOMAIN A.v : ~Fits(ty, A.v[i]) THEN Rej(e)       \* _safe_cast
     ELSE IF A.v = <<>> THEN Rej(e)                                    \* data[0] of an empty array
     ELSE R("ok", Arr(3, Flat(Runs(A.v))), e2)
DecRL(e, B) ==
  IF B.t \notin IntTypes \/ Len(B.v) % 2 # 0 THEN DRej
  ELSE LET out == Flat([p \in 1..(Len(B.v) \div 2) |-> [q \in 1..B.v[2 * p] |-> B.v[2 * p - 1]]])
       IN IF Len(out) # e[2][1] \/ \E i \in DOMAIN out : ~Fits(e[3][1], out[i]) THEN DRej
          ELSE D("ok", Arr(e[3][1], out))

(* ================================================================== Delta *)
\* (data - origin) in the dtype of the data, np.diff(prepend = 0), then astype(int32);
\* decode: cumsum in src_type, + origin.  Modular arithmetic makes this exact for 8/16 bits.
EncDE(e, A) ==
  LET t == A.t
      og == OptOr(e[3], IF A.v = <<>> THEN 0 ELSE A.v[1])
      sh == [i \in DOMAIN A.v |-> Wrap(t, A.v[i] - og)]
      \* np.diff(..., prepend=0) promotes to int64: the differences themselves do not wrap
      df == [i \in DOMAIN A.v |-> sh[i] - (IF i = 1 THEN 0 ELSE sh[i - 1])]
      e2 == <<"DE", Some(OptOr(e[2], t)), Some(og)>>
  IN IF t \notin IntTypes THEN Rej(e)
     ELSE IF e[3] = None /\ A.v = <<>> THEN Rej(e)              \* origin = data[0]
     ELSE IF e[3] # None /\ ~Fits(t, e[3][1]) THEN Rej(e)       \* Python integer out of bounds for the dtype
     ELSE IF e[2] # None /\ e[2][1] # t THEN Rej(e)             \* outside Dom (Dom_DeltaType)
     ELSE R("ok", Arr(3, df), e2)
DecDE(e, B) ==
  LET t == e[2][1]
      cs == FoldLeft(LAMBDA acc, x : Append(acc, Wrap(t, (IF acc = <<>> THEN 0 ELSE acc[Len(acc)]) + Wrap(t, x))),
                     <<>>, B.v)
  IN IF B.t \notin IntTypes THEN DRej
     ELSE D("ok", Arr(t, [i \in DOMAIN cs |-> Wrap(t, cs[i] + e[3][1])]))

(* ================================================================== IntegerPacking *)
PackT(bc, uns) == IF bc = 1 THEN (IF uns THEN 4 ELSE 1) ELSE (IF uns THEN 5 ELSE 2)
\* one number: the bound as often as it fits, then the remainder (code shaped: two loops)
RECURSIVE PackOne(_, _, _, _)
PackOne(rem, lo, hi, acc) ==
  IF rem < 0 /\ rem <= lo THEN PackOne(rem - lo, lo, hi, Append(acc, lo))
  ELSE IF rem > 0 /\ rem >= hi THEN PackOne(rem - hi, lo, hi, Append(acc, hi))
  ELSE Append(acc, rem)
\* the same, declaratively: k bounds and one remainder strictly inside the bound (used by EncIP: no
\* deep recursion for large numbers; MCEnc checks PackOne = PackOneDecl on a range of numbers)
PackOneDecl(n, lo, hi) ==
  IF n >= 0 THEN [i \in 1..(n \div hi) |-> hi] \o <<n % hi>>
  ELSE [i \in 1..((-n) \div (-lo)) |-> lo] \o <<-((-n) % (-lo))>>
EncIP(e, A) ==
  LET bc  == e[2]
      uns == OptOr(e[4], \A i \in DOMAIN A.v : A.v[i] >= 0)
      pt  == PackT(bc, uns)
      e2  == <<"IP", bc, Some(OptOr(e[3], Len(A.v))), Some(uns)>>
  IN IF A.t \notin IntTypes THEN Rej(e)                         \* outside Dom for floats (silently truncated)
     ELSE IF e[3] # None /\ e[3][1] # Len(A.v) THEN Rej(e)
     ELSE IF e[4] = None /\ A.v = <<>> THEN Rej(e)              \* data.min() of an empty array
     ELSE IF bc \notin {1, 2} THEN Rej(e2)                      \* "Unsupported byte count"
     ELSE IF uns /\ \E i \in DOMAIN A.v : A.v[i] < 0 THEN Rej(e2)   \* "Cannot pack negative numbers"
     ELSE R("ok", Arr(pt, Flat([i \in DOMAIN A.v |-> PackOneDecl(A.v[i], TLo(pt), THi(pt))])), e2)
\* decode: the bounds come from the dtype of the packed array; sum until a non-bound value closes a number
DecIP(e, B) ==
  LET lo == IF TLo(B.t) = 0 THEN -1 ELSE TLo(B.t)
      hi == THi(B.t)
      r == FoldLeft(LAMBDA acc, p : IF p = hi \/ p = lo THEN [acc EXCEPT !.cur = @ + p]
                                    ELSE [out |-> Append(acc.out, acc.cur + p), cur |-> 0],
                    [out |-> <<>>, cur |-> 0], B.v)
  IN IF B.t \notin IntTypes \/ Len(r.out) # e[3][1] THEN DRej ELSE D("ok", Arr(3, r.out))

(* ================================================================== chains *)
\* StringArray refers to chains and chains to StringArray: one recursive operator for both directions
RECURSIVE EncodeChain(_, _)
RECURSIVE DecodeChain(_, _)
Uniq(v) == FoldLeft(LAMBDA acc, s : IF \E i \in DOMAIN acc : acc[i] = s THEN acc ELSE Append(acc, s), <<>>, v)
IndexIn(strings, s) == Min({i \in DOMAIN strings : strings[i] = s}) - 1
EncSA(e, A) ==
  IF A.t # StrT THEN Rej(e)                                              \* "Data must be of string type"
  ELSE LET strings == OptOr(e[2], Uniq(A.v)) IN
       IF \E i \in DOMAIN A.v : \A j \in DOMAIN strings : strings[j] # A.v[i] THEN Rej(e)   \* not in 'strings'
       ELSE LET r == EncodeChain(e[3], Arr(3, [i \in DOMAIN A.v |-> IndexIn(strings, A.v[i])]))
                \* serialize() also encodes the offsets of the strings with the offset encoding
                o == EncodeChain(e[4], Arr(3, FoldLeft(LAMBDA acc, s : Append(acc, acc[Len(acc)] + Len(s)), <<0>>, strings)))
            IN IF o.oc # "ok" THEN Rej(e) ELSE R(r.oc, r.a, <<"SA", Some(strings), r.e, o.e>>)
DecSA(e, B) ==
  LET r == DecodeChain(e[3], B) IN
  IF r.oc # "ok" THEN DRej
  ELSE IF \E i \in DOMAIN r.a.v : r.a.v[i] < 0 \/ r.a.v[i] >= Len(e[2][1]) THEN DRej
  ELSE D("ok", Arr(StrT, [i \in DOMAIN r.a.v |-> e[2][1][r.a.v[i] + 1]]))

Enc(e, A) ==
  CASE e[1] = "BA" -> EncBA(e, A) [] e[1] = "FP" -> EncFP(e, A) [] e[1] = "IQ" -> EncIQ(e, A)
    [] e[1] = "RL" -> EncRL(e, A) [] e[1] = "DE" -> EncDE(e, A) [] e[1] = "IP" -> EncIP(e, A)
    [] e[1] = "SA" -> EncSA(e, A)
Dec(e, B) ==
  CASE e[1] = "BA" -> DecBA(e, B) [] e[1] = "FP" -> DecFP(e, B) [] e[1] = "IQ" -> DecIQ(e, B)
    [] e[1] = "RL" -> DecRL(e, B) [] e[1] = "DE" -> DecDE(e, B) [] e[1] = "IP" -> DecIP(e, B)
    [] e[1] = "SA" -> DecSA(e, B)
\* encode_stepwise: [oc, a, e] with e the chain after the pass
EncodeChain(chain, A) ==
  IF chain = <<>> THEN R("ok", A, <<>>)
  ELSE LET r == Enc(chain[1], A) IN
       IF r.oc # "ok" THEN R(r.oc, r.a, chain)
       ELSE LET s == EncodeChain(Tail(chain), r.a) IN R(s.oc, s.a, <<r.e>> \o s.e)
\* decode_stepwise: last encoding first
DecodeChain(chain, B) ==
  IF chain = <<>> THEN D("ok", B)
  ELSE LET r == DecodeChain(Tail(chain), B) IN
       IF r.oc # "ok" THEN r ELSE Dec(chain[1], r.a)
IsBytes(A) == A.t = BytesT \/ A.t \in {-32, -33}
\* BinaryCIFData.serialize: the last encoding must produce bytes
SerializeData(chain, A) ==
  LET r == EncodeChain(chain, A) IN
  IF r.oc = "ok" /\ ~IsBytes(r.a) THEN R("Rejected", r.a, r.e) ELSE r
\* BinaryCIFData.deserialize(BinaryCIFData(A, chain).serialize())
ImplRoundTrip(chain, A) ==
  LET s == SerializeData(chain, A) IN
  IF s.oc # "ok" THEN D(s.oc, Arr(BytesT, <<>>)) ELSE DecodeChain(s.e, s.a)

\* StringArrayEncoding.serialize / deserialize: the strings travel as one string plus offsets
SAOffsets(strings) == FoldLeft(LAMBDA acc, s : Append(acc, acc[Len(acc)] + Len(s)), <<0>>, strings)
SASerialize(e) == [stringData |-> Flat(e[2][1]),
                   offsets |-> EncodeChain(e[4], Arr(3, SAOffsets(e[2][1])))]
SADeserializeStrings(ser) ==
  LET o == DecodeChain(ser.offsets.e, ser.offsets.a).a.v
  IN [i \in 1..(Len(o) - 1) |-> SubSeq(ser.stringData, o[i] + 1, o[i + 1])]

(* ================================================================== memory representation of the input array *)
(* The encoders receive numpy arrays.  The property speaks about the VALUES of "arrays of every supported width
   and sign"; the same values reach the code in different representations:
     "native"    contiguous, native (little-endian) byte order, writable, aligned
     "swapped"   non-native byte order (dtype '>i2', '>f8', '>U3': arrays taken from big-endian binary sources)
     "strided"   every second element of a larger buffer (a column of a table, a slice with a step)
     "reversed"  a view with a negative stride
     "readonly"  not writable (np.frombuffer, memory maps, the arrays of a file that was read)
     "unaligned" elements not aligned to their size (a field of a packed record)
     "foreign"   swapped + strided + read-only at once
     "wide"      32-bit values carried by the 64-bit integer type (what numpy makes of Python integers)
     "list"      a Python list instead of an array (array_like arguments; integers arrive as int64)
   Specification: every operation is a function of the values alone - Enc, ImplRoundTrip, IdealOutcome, SciImpl,
   the candidates of compress() never see the representation; a case is to be executed under every member of
   RepsOf(array) with the same expected result.
   Code shape: two places of encoding.pyx look at the representation -
     _safe_cast(array, dtype) returns the ARRAY ITSELF when its dtype equals the target dtype, and numpy dtypes
        are equal only when type AND byte order agree (one-byte types have no byte order, '|'); otherwise it
        returns a converted copy with the target dtype (all target dtypes are little-endian: _TYPE_CODE_TO_DTYPE);
     ndarray.tobytes() writes the elements in index order (strides do not matter) in the byte order OF THE ARRAY,
        while the type ByteArray declares, and decodes with, is little-endian;
     the typed memoryview of RunLength._encode accepts strided and read-only buffers, but no foreign byte order.
   Every other encoder computes a new native array from the values (data * factor, data - origin, searchsorted,
   astype(np.int32), np.unique) - with one exception, Delta on uint64 (DeltaPromoted below); TypeCode.from_dtype
   ignores the byte order and maps the 64-bit integers to the 32-bit codes.  EncR is Enc with these places spelled
   out; MCEnc checks EncR = Enc outside the recorded class (InvRepFree). *)
Reps == {"native", "swapped", "strided", "reversed", "readonly", "unaligned", "foreign", "wide", "list"}
RepsOf(A) ==
  {"native", "strided", "reversed", "readonly"}
  \cup (IF A.t = StrT \/ TBytes(A.t) > 1 THEN {"swapped", "foreign"} ELSE {})
  \cup (IF A.t # StrT /\ TBytes(A.t) > 1 THEN {"unaligned"} ELSE {})
  \cup (IF A.t \in {3, 6} THEN {"wide"} ELSE {})
  \cup (IF A.t \in {3, 33, StrT} /\ A.v # <<>> THEN {"list"} ELSE {})
RepBE(r) == r \in {"swapped", "foreign"}
RepWide(t, r) == t \in IntTypes /\ r \in {"wide", "list"}
\* numpy dtype of the array: <<type (64 + t: the 64-bit carrier), byte order>>
DtypeOf(t, r) == <<IF RepWide(t, r) THEN 64 + t ELSE t,
                   IF TBytes(t) = 1 THEN "|" ELSE IF RepBE(r) THEN ">" ELSE "<">>
\* TypeCode.to_dtype()
TargetDtype(ty) == <<ty, IF TBytes(ty) = 1 THEN "|" ELSE "<">>
\* byte order of the array _safe_cast(array, to_dtype(ty)) hands on
SafeCastOrder(t, r, ty) == IF DtypeOf(t, r) = TargetDtype(ty) THEN DtypeOf(t, r)[2] ELSE TargetDtype(ty)[2]
EncBAR(e, A, r) ==
  LET base == EncBA(e, A)
      ty == OptOr(e[2], A.t)
  IN IF base.oc # "ok" \/ SafeCastOrder(A.t, r, ty) # ">" THEN base
     ELSE IF ty \in IntTypes
          THEN R("ok", Arr(BytesT, Flat([i \in DOMAIN A.v |-> Reverse(IntBytes(A.v[i], TBytes(ty)))])), base.e)
          ELSE R("ok", Arr(-ty - 100, A.v), base.e)       \* float bytes in an order DecBA does not read
EncRLR(e, A, r) ==
  LET base == EncRL(e, A) IN
  IF base.oc = "ok" /\ SafeCastOrder(A.t, r, OptOr(e[3], A.t)) = ">" THEN Rej(e)    \* buffer dtype mismatch
  ELSE base
(* Delta on the unsigned 64-bit carrier (recorded defect DeltaUint64Promoted).  `data - origin` is computed in the
   dtype of the data: for uint64 an element below the origin becomes 2^64 - k.  np.diff(data, prepend=0) then joins
   the Python integer 0 with a uint64 array, which numpy promotes to float64: 2^64 - k is rounded to a multiple of
   2048, the differences are taken in float64 and .astype(np.int32) turns +-1.8e19 into INT_MIN (numpy only warns
   "invalid value encountered in cast").  For all other dtypes the arithmetic stays in the integer type (modulo its
   width), which Wrap models; int64 cannot wrap on 32-bit values. *)
DeltaPromoted(e, A, r) ==
  /\ e[1] = "DE" /\ A.t = 6 /\ r = "wide" /\ A.v # <<>>
  /\ \E i \in DOMAIN A.v : A.v[i] < OptOr(e[3], A.v[1])
EncDER(e, A, r) ==
  LET base == EncDE(e, A) IN
  IF base.oc # "ok" \/ ~DeltaPromoted(e, A, r) THEN base
  ELSE LET og == OptOr(e[3], A.v[1])
           wrapped(i) == i >= 1 /\ A.v[i] < og                         \* the prepended 0 is not
           below(i) == RoundHalfEven(og - A.v[i], 2048)                 \* float64(2^64 - k) = 2^64 - 2048 * below
           df == [i \in DOMAIN A.v |->
                    IF wrapped(i) # wrapped(i - 1) THEN MinInt32
                    ELSE IF wrapped(i) THEN 2048 * (below(i - 1) - below(i))
                    ELSE base.a.v[i]]
       IN R("ok", Arr(3, df), base.e)
EncR(e, A, r) == CASE e[1] = "BA" -> EncBAR(e, A, r) [] e[1] = "RL" -> EncRLR(e, A, r)
                   [] e[1] = "DE" -> EncDER(e, A, r) [] OTHER -> Enc(e, A)
\* recorded defects that depend on the representation (only the first encoding of a chain sees the input array;
\* as KB_Data: only if the code gets as far as writing bytes)
KB_Rep(chain, A, r) ==
  IF chain # <<>> /\ DeltaPromoted(chain[1], A, r) /\ SerializeData(chain, A).oc = "ok"
  THEN {"DeltaUint64Promoted"} ELSE {}
\* BinaryCIFData.serialize with the code-shaped first step: in the recorded class the INT_MIN values go on through the
\* rest of the chain - a narrow ByteArray / RunLength type then refuses them ("Rejected" instead of altered values)
SerializeDataR(chain, A, r) ==
  IF chain = <<>> THEN SerializeData(chain, A)
  ELSE LET r1 == EncR(chain[1], A, r) IN
       IF r1.oc # "ok" THEN R(r1.oc, r1.a, chain)
       ELSE LET s == EncodeChain(Tail(chain), r1.a) IN
            IF s.oc = "ok" /\ ~IsBytes(s.a) THEN R("Rejected", s.a, <<r1.e>> \o s.e) ELSE R(s.oc, s.a, <<r1.e>> \o s.e)
\* the representation does not matter, except in the recorded class (and there it does)
RepFree(chain, A) ==
  chain = <<>> \/ \A r \in RepsOf(A) : (EncR(chain[1], A, r) = Enc(chain[1], A)) = ~DeltaPromoted(chain[1], A, r)
\* INT_MIN (what the promoted Delta produces) is not pushed through integer packing: one number would become
\* 2^31 / 127 bytes
Dom_RepSafe(chain, A, r) ==
  (chain # <<>> /\ DeltaPromoted(chain[1], A, r)) => \A i \in DOMAIN chain : chain[i][1] # "IP"

(* ================================================================== the property *)
\* can the target representation of one encoding hold its input?
Holds(e, A) ==
  CASE e[1] = "FP" -> \A i \in DOMAIN A.v : FixHolds(A.v[i], e[2])
    [] e[1] = "IQ" -> \A i \in DOMAIN A.v : IQHolds(e, A.v[i])
    [] OTHER -> TRUE                \* the other encodings check their range themselves (Rejected)
RECURSIVE ChainHolds(_, _)
ChainHolds(chain, A) ==
  chain = <<>> \/ LET r == Enc(chain[1], A) IN
                  r.oc # "ok" \/ (Holds(chain[1], A) /\ ChainHolds(Tail(chain), r.a))
\* the lossy step of a chain (at most one, the first): tolerance in fx units
LossyOf(chain) == IF chain # <<>> /\ chain[1][1] \in {"FP", "IQ"} THEN chain[1] ELSE <<>>
\* float32 keeps 24 significant bits: decoded values carry that representation error
FloatSlack(t, fx) == 1 + (IF t = 32 THEN Abs(fx) \div 4194304 ELSE 0)
\* is the observed element y acceptable for the original element x under the lossy encoding le?
AcceptElem(le, t, x, y) ==
  IF le = <<>> \/ ~IsFinite(x) THEN y = x
  ELSE IF x.k = "whole" THEN y = x           \* x * F is an integer: exact
  ELSE IF y.k # "fin" THEN FALSE
  ELSE IF le[1] = "FP" THEN Abs(y.fx - x.fx) <= Scale \div (2 * le[2]) + FloatSlack(t, x.fx)
  ELSE -FloatSlack(t, x.fx) <= y.fx - x.fx /\ y.fx - x.fx < IQStep(le) + FloatSlack(t, x.fx)
AcceptArr(le, A, B) ==
  /\ Len(A.v) = Len(B.v)
  /\ IF A.t \in FloatTypes THEN B.t \in FloatTypes /\ \A i \in DOMAIN A.v : AcceptElem(le, A.t, A.v[i], B.v[i])
     ELSE \A i \in DOMAIN A.v : A.v[i] = B.v[i]
\* Ideal outcome of write-then-read with an explicit chain
IdealOutcome(chain, A) ==
  LET s == SerializeData(chain, A) IN
  IF s.oc # "ok" \/ ~ChainHolds(chain, A) THEN "Rejected" ELSE "ok"

(* ------------------------------------------------------------------ recorded defects *)
RECURSIVE KB_Chain(_, _)
KB_Chain(chain, A) ==
  IF chain = <<>> THEN {}
  ELSE LET r == Enc(chain[1], A) IN
       IF r.oc # "ok" THEN {}
       ELSE (IF chain[1][1] = "FP" /\ ~Holds(chain[1], A) THEN {"FixedPointUnchecked"} ELSE {})
         \cup (IF chain[1][1] = "IQ" /\ ~Holds(chain[1], A) THEN {"IntervalUnchecked"} ELSE {})
         \cup KB_Chain(Tail(chain), r.a)

\* for a whole BinaryCIFData: only if the code gets as far as writing bytes
KB_Data(chain, A) == IF SerializeData(chain, A).oc = "ok" THEN KB_Chain(chain, A) ELSE {}

(* ------------------------------------------------------------------ domain *)
Dom_NoWrap32(A) == A.t \in {3, 6} => \A i \in DOMAIN A.v : -536870912 <= A.v[i] /\ A.v[i] <= 536870912   \* 2^29
Dom_Elem(t, x) ==
  IF t \in IntTypes THEN Fits(t, x)
  ELSE IF t \in FloatTypes THEN
       CASE x.k = "fin" -> x.ex /\ Abs(x.fx) < 1073741824 /\ (t = 32 => x.fx % 128 = 0 \/ Abs(x.fx) < 16777216)
         [] x.k = "whole" -> Abs(x.fx) > 1024 /\ Abs(x.fx) <= MaxInt32 /\ (t = 32 => Abs(x.fx) < 16777216 \/ x.fx % 256 = 0)
         [] OTHER -> x.k \in {"nan", "pinf", "ninf"}
  ELSE TRUE
Dom_Array(A) == \A i \in DOMAIN A.v : Dom_Elem(A.t, A.v[i])
\* INT_MIN (what the unchecked float -> int32 cast produces) cannot go through the model's Delta /
\* IntegerPacking arithmetic (TLC integers are 32 bit): such chains are only modelled on arrays the
\* lossy step can hold
Dom_ArithSafe(chain, A) ==
  (chain # <<>> /\ chain[1][1] \in {"FP", "IQ"} /\ \E i \in 2..Len(chain) : chain[i][1] \in {"DE", "IP"})
     => Holds(chain[1], A)
\* ByteArray of a float array keeps the type (a narrower float is lossy by nature, an integer
\* array is not stored as float)
Dom_Enc(e, t) ==
  CASE e[1] = "BA" -> e[2] = None \/ (((e[2][1] \in IntTypes) = (t \in IntTypes)) /\ (t \in FloatTypes => e[2][1] = t))
    [] e[1] = "FP" -> e[2] \in 1..1000 /\ t \in FloatTypes
    [] e[1] = "IQ" -> e[4] >= 2 /\ e[3] > e[2] /\ (e[3] - e[2]) % (e[4] - 1) = 0 /\ t \in FloatTypes
    [] e[1] = "DE" -> (e[2] = None \/ e[2][1] = t) /\ t \in IntTypes
    [] e[1] \in {"RL", "IP"} -> t \in IntTypes
    [] e[1] = "SA" -> t = StrT
\* IntegerPacking.decode takes the bounds from the dtype of the array it is given (not from its own
\* byte_count / is_unsigned): the ByteArray that follows must keep the packed type (type omitted)
RECURSIVE Dom_Chain(_)
Dom_Chain(chain) ==
  /\ \A i \in 1..(Len(chain) - 1) : (chain[i][1] = "IP" /\ chain[i + 1][1] = "BA") => chain[i + 1][2] = None
  /\ \A i \in DOMAIN chain : chain[i][1] = "SA" => Dom_Chain(chain[i][3]) /\ Dom_Chain(chain[i][4])
\* FixedPoint arithmetic is exact in the float type of the data: x * F has at most 24 / 53 bits
Dom_FixedExact(e, A) ==
  (e[1] = "FP" /\ A.t = 32) => \A i \in DOMAIN A.v :
     LET x == A.v[i]
         m == IF x.k = "fin" /\ x.fx % 128 = 0 THEN Abs(x.fx) \div 128 ELSE Abs(x.fx)
     IN IsFinite(x) => m < 16777216 \div e[2]

(* ================================================================== compress.py *)
\* _to_smallest_integer_type
Smallest(A) ==
  IF A.v # <<>> /\ \A i \in DOMAIN A.v : A.v[i] >= 0
  THEN Arr(IF \A i \in DOMAIN A.v : A.v[i] <= 255 THEN 4 ELSE IF \A i \in DOMAIN A.v : A.v[i] <= 65535 THEN 5 ELSE 6, A.v)
  ELSE Arr(IF \A i \in DOMAIN A.v : Fits(1, A.v[i]) THEN 1 ELSE IF \A i \in DOMAIN A.v : Fits(2, A.v[i]) THEN 2 ELSE 3, A.v)
\* the twelve chains _find_best_integer_compression tries (all parameters left to the first pass)
Candidates ==
  {(IF d THEN <<<<"DE", None, None>>>> ELSE <<>>) \o (IF r THEN <<<<"RL", None, None>>>> ELSE <<>>)
     \o (IF p = 0 THEN <<>> ELSE <<<<"IP", p, None, None>>>>) \o <<<<"BA", None>>>>
   : d \in BOOLEAN, r \in BOOLEAN, p \in {0, 1, 2}}
\* shape of a chain with its parameters removed
Strip(e) == CASE e[1] = "BA" -> <<"BA", None>> [] e[1] = "RL" -> <<"RL", None, None>>
              [] e[1] = "DE" -> <<"DE", None, None>> [] e[1] = "IP" -> <<"IP", e[2], None, None>>
              [] OTHER -> e
IsCandidate(chain) == [i \in DOMAIN chain |-> Strip(chain[i])] \in Candidates
\* relative tolerance 1 / T of compress(): |y - x| <= |x| / T   (fx units, one unit of slack)
AcceptRel(T, t, x, y) ==
  IF ~IsFinite(x) THEN y = x
  \* (same sign first: |x| > 1024, and the difference of two values of opposite sign may leave TLC's integers)
  ELSE IF x.k = "whole" THEN y.k = "whole" /\ (y.fx > 0) = (x.fx > 0) /\ Abs(y.fx - x.fx) <= Abs(x.fx) \div T + 1
  ELSE y.k = "fin" /\ Abs(y.fx - x.fx) <= Abs(x.fx) \div T + FloatSlack(t, x.fx)
(* compress() of a float array multiplies by 10^d (d chosen from the element that needs most
   decimals) and rounds to int32 without a range or finiteness check: the FixedPoint defect, reached
   through the public entry point.  d is read from the returned encoding.  The predicate holds
   when an element is not finite or |x| * 10^d reaches 2^31 (with a margin of one unit). *)
Pow10(d) == 10 ^ d
OverflowThrFx == <<225179, 22517, 2251, 225, 22, 2>>      \* floor(2^51 / 10^d) for d = 10 .. 15
MayOverflow(x, d) ==
  LET mag == IF x.k = "whole" THEN Abs(x.fx) ELSE Abs(x.fx) \div Scale IN     \* floor |x|
  IF d <= 0 THEN FALSE
  ELSE IF d <= 9 THEN mag >= MaxInt32 \div Pow10(d)
  ELSE IF x.k = "whole" THEN TRUE
  ELSE IF d <= 15 THEN Abs(x.fx) >= OverflowThrFx[d - 9] - 1
  ELSE Abs(x.fx) > 0
KB_CompressFloat(A, hasFP, d) ==
  A.t \in FloatTypes /\ hasFP /\ \E i \in DOMAIN A.v : ~IsFinite(A.v[i]) \/ MayOverflow(A.v[i], d)

(* ================================================================== compress(): the level it is called at *)
(* compress(x, float_tolerance) accepts a BinaryCIFData, a BinaryCIFColumn, a BinaryCIFCategory, a BinaryCIFBlock or a
   BinaryCIFFile.  Specification: the tolerance clause holds for the tolerance that was PASSED, at every level -
   compressing a container is compressing every data array in it with that tolerance (masks included; integer and
   string arrays come back exactly).  Code shape (compress.py): _compress_file -> _compress_block ->
   _compress_category -> _compress_column -> _compress_data, each handing its float_tolerance argument on; Pass is
   that hand-over, TolArriving the tolerance _compress_data finally works with.  MCCompress checks
   TolArriving(level, T) = T for every level; the driver executes every case at every level. *)
Levels == {"data", "column", "category", "block", "file"}
LevelPath(level) == CASE level = "file" -> <<"file", "block", "category", "column">>
                      [] level = "block" -> <<"block", "category", "column">>
                      [] level = "category" -> <<"category", "column">>
                      [] level = "column" -> <<"column">>
                      [] OTHER -> <<>>
Pass(lv, T) == T                     \* `_compress_<next level>(child, float_tolerance)`
TolArriving(level, T) == FoldLeft(LAMBDA t, lv : Pass(lv, t), T, LevelPath(level))

(* ================================================================== compress(): floats of any magnitude *)
(* The fixed-point universe above (20 fractional bits, |x| < 2^31) cannot express what the float
   branch of compress() is about: the NUMBER OF DECIMALS it chooses from the data (any sign, up to
   MaxDec), the range check of the scaled values against int32 and the fall-back to lossless bytes.
   Decimal floats:   Num(m, p) = m * 10^p, the nearest float of the array's type, with a NORMALISED
   nine-digit mantissa (10^8 <= |m| < 10^9) or m = p = 0; plus nan / pinf / ninf.  An observed
   element is projected with the unit 10^p of the input element it belongs to:
   [k |-> "num", fx |-> round(y / 10^p), ex |-> (y / 10^p is that integer)] (k = "junk" beyond 32 bits).

   Code shape (compress.py):
     _get_decimal_places: d runs upwards from -(order of magnitude of the largest element) and stops
        at the first d with  |round(x, d) - x| < |x| / T  for every finite non-zero element.
        RoundErr(m, k) is that error (in units 10^p) when the last k digits of m are rounded away.
        Float arithmetic decides the comparison only up to rounding noise, so the model keeps two
        thresholds per element: PassK (surely passes) and MayK (does not surely fail).
     np.round multiplies by 10.0^d in the float type of the array: for d > MaxDec(t), or when an element
        times 10^d leaves the float range, the rounded value is inf / NaN, for this and every later d: the
        search ends without a result (None) at the first such d (SciExhausted; until commit 03760635 it went
        on for ever: repaired defect CompressDecimalsUnbounded).
     _compress_data: no decimals found -> lossless ByteArray; factor 10^d (a float when it is >= 2^64, so that
        every factor can be written by msgpack); non-finite or |round(x * 10^d)| >= 2^31 (computed and compared in
        the float type of the array, i.e. on the very values FixedPoint casts to int32) -> lossless ByteArray;
        otherwise FixedPoint(10^d) + best integer chain, or ByteArray when that is not smaller. *)
Num(m, p) == [k |-> "num", m |-> m, p |-> p]
SciNaN  == [k |-> "nan",  m |-> 0, p |-> 0]
SciPInf == [k |-> "pinf", m |-> 0, p |-> 0]
SciNInf == [k |-> "ninf", m |-> 0, p |-> 0]
MantLo == 100000000
MantHi == 999999999
IsNZ(x) == x.k = "num" /\ x.m # 0
\* largest power of ten (and largest exponent of a finite value, conservatively) of the float types
MaxDec(t) == IF t = 32 THEN 38 ELSE 308
\* number of decimal digits of n >= 1 (n < 2^31)
Digits(n) == CHOOSE k \in 1..10 : (k = 1 \/ n >= Pow10(k - 1)) /\ (k = 10 \/ n < Pow10(k))
\* m * 10^p with any mantissa 1 <= |m| < 10^9, normalised
Sci(m, p) == LET s == 9 - Digits(Abs(m)) IN Num(m * Pow10(s), p - s)
\* error (units 10^p) of rounding away the last k digits of m
RoundErr(m, k) == IF k <= 0 THEN 0 ELSE IF k >= 10 THEN Abs(m)
                  ELSE Abs(RoundHalfEven(m, Pow10(k)) * Pow10(k) - m)
\* float noise in  error < |x| / T :  relative 2^-21 (float32), below one unit (float64)
SciSlack(t, m, T) == IF t = 32 THEN Abs(m) \div (2097152 \div T) + 1 ELSE 1
PassK(t, m, T) == Max({k \in 0..9 : RoundErr(m, k) <= (Abs(m) - 1 - SciSlack(t, m, T)) \div T})
MayK(t, m, T)  == Max({k \in 0..9 : RoundErr(m, k) < (Abs(m) + SciSlack(t, m, T) + T - 1) \div T})
\* the distinct finite non-zero elements
SciNZ(A) == {x \in {A.v[i] : i \in DOMAIN A.v} : IsNZ(x)}
\* first d tried: -(order of magnitude) of the largest element
SciLo(A) == IF SciNZ(A) = {} THEN 0 ELSE -(8 + Max({x.p : x \in SciNZ(A)}))
\* smallest d at which every element surely passes / no element surely fails
SciNeed(A, T) == Max({SciLo(A)} \cup {-x.p - PassK(A.t, x.m, T) : x \in SciNZ(A)})
SciMay(A, T)  == Max({SciLo(A)} \cup {-x.p - MayK(A.t, x.m, T) : x \in SciNZ(A)})
\* largest d at which 10^d and every x * 10^d are surely finite ( < 10^MaxDec ) / not surely infinite ( < 10^(MaxDec+1) )
SciCapSure(A) == Min({MaxDec(A.t)} \cup {MaxDec(A.t) - 9 - x.p : x \in SciNZ(A)})
SciCapMay(A)  == Min({MaxDec(A.t)} \cup {MaxDec(A.t) - 8 - x.p : x \in SciNZ(A)})
\* an array of one element is returned as it is (no search, no fixed point)
SciTrivial(A) == Len(A.v) = 1
\* the search surely ends without a result: up to the last d at which the rounded values can be finite some
\* element fails the test (the code then keeps the array losslessly)
SciExhausted(A, T) == ~SciTrivial(A) /\ SciMay(A, T) > SciCapMay(A)
SciTerm(A, T) == SciTrivial(A) \/ SciNeed(A, T) <= SciCapSure(A)     \* the search surely finds decimals, at the latest SciNeed
SciDecimals(A, T) == SciNeed(A, T)                      \* = the d the code returns (inside Dom_SciDecisive)
\* round(x * 10^d) does not fit into int32 (nine-digit mantissa: e = 0 always fits, e >= 2 never)
SciOverflow(x, d) == IsNZ(x) /\ LET e == x.p + d IN e >= 1 /\ (e > 9 \/ Abs(x.m) > MaxInt32 \div Pow10(e))
\* float32 only: |x * 10^d| is so close to 2^31 that float32 arithmetic cannot tell the side
\* (2^31 - 2000 .. 2^31 + 2500: the product carries a relative error of 2^-22, and float32 rounds
\* everything from 2^31 - 64 to 2^31 + 128 to 2^31).  The range check is done in float32 on the rounded
\* product: a value that rounds to 2^31 is refused (lossless bytes) although SciOverflow may say it fits, one
\* that rounds below 2^31 is cast exactly; either way the result is in SciImpl(..).ys.  (Until commit
\* 2ef3a4f6 the check compared with float32(int32 max) = 2^31 using ">", so a product of exactly 2^31 passed
\* and was cast to INT_MIN: repaired defect CompressFloat32RangeCheck.)
SciZone(t, x, d) == t = 32 /\ IsNZ(x) /\ x.p + d = 1 /\ 214748200 <= Abs(x.m) /\ Abs(x.m) <= 214748450
\* the value FixedPoint(10^d) gives back, in units 10^p
SciFixed(x, d) ==
  IF ~IsNZ(x) THEN 0
  ELSE LET e == x.p + d IN
       IF e >= 0 THEN x.m ELSE IF -e >= 10 THEN 0 ELSE RoundHalfEven(x.m, Pow10(-e)) * Pow10(-e)
\* code-shaped result: the set of arrays compress() may hand back (lossless / fixed point: the size
\* comparison between the two is not modelled), each as a sequence of values in units 10^p; no decimals
\* found (SciExhausted): lossless only
SciImpl(A, T) ==
  LET lossless == [i \in DOMAIN A.v |-> A.v[i].m] IN
  IF SciExhausted(A, T) THEN [oc |-> "ok", ys |-> {lossless}, fits |-> FALSE]
  ELSE LET d == SciDecimals(A, T)
           fits == ~SciTrivial(A) /\ \A i \in DOMAIN A.v : A.v[i].k = "num" /\ ~SciOverflow(A.v[i], d)
       IN [oc |-> "ok", fits |-> fits,
           ys |-> {lossless} \cup (IF fits THEN {[i \in DOMAIN A.v |-> SciFixed(A.v[i], d)]} ELSE {})]
\* the property: relative tolerance 1 / T (two units of slack for the projection, float32: the
\* representation error of x and of the decoded value)
SciTol(t, T, m) == Abs(m) \div T + 2 + (IF t = 32 THEN Abs(m) \div 1048576 ELSE 0)
AcceptSci(t, T, x, y) ==
  IF x.k # "num" THEN y.k = x.k
  ELSE IF x.m = 0 THEN y.k = "num" /\ y.fx = 0 /\ y.ex
  \* (written without y.fx - x.m: a corrupted value may be 2^31 away from x.m, beyond TLC's integers)
  ELSE y.k = "num" /\ x.m - SciTol(t, T, x.m) <= y.fx /\ y.fx <= x.m + SciTol(t, T, x.m)
(* ------------------------------------------------------------------ recorded defects *)
\* the search for the decimals never ended when SciExhausted(A, T); repaired by commit 03760635 (/repo):
\* _get_decimal_places returns None as soon as the rounded values are not finite, compress() then keeps the
\* array losslessly.  No call may diverge any more.
KB_SciUnbounded(A, T) == FALSE
\* compress() built the factor as the Python integer 10^d; msgpack has no integers >= 2^64, so the returned
\* BinaryCIFData could not be written when d >= 20 (formerly: ~SciTrivial(A) /\ ~SciExhausted(A, T) /\
\* SciDecimals(A, T) >= 20).  Repaired by commit e5d2e79a (/repo): a factor >= 2^64 is handed over as a float,
\* which msgpack writes; the msgpack round trip must give the same array for every number of decimals.
KB_SciFactor(A, T) == FALSE
\* a float32 value in SciZone came back with the wrong sign (formerly: ~SciTrivial(A) /\ ~SciExhausted(A, T) /\
\* \E i \in DOMAIN A.v : SciZone(A.t, A.v[i], SciDecimals(A, T))).  Repaired by commit 2ef3a4f6 (/repo): the
\* scaled values are compared with 2^31 (exact in float32) using ">=".
KB_SciFloat32Range(A, T) == FALSE
(* ------------------------------------------------------------------ domain *)
Dom_SciElem(t, x) ==
  CASE x.k = "num" -> \/ x.m = 0 /\ x.p = 0
                      \* normalised, and not within 0.1 % of a power of ten (floor(log10 |x|) is then unambiguous)
                      \/ /\ MantLo + 100000 <= Abs(x.m) /\ Abs(x.m) <= MantHi - 999999
                         \* below 10^(MaxDec - 1); a normal number of the float type, and so far above
                         \* the smallest one that |x| / T still has 21 significant bits (T <= 10^4 / 10^6)
                         /\ 9 + x.p <= MaxDec(t) - 1 /\ 8 + x.p >= -(IF t = 32 THEN 33 ELSE 307)
    [] OTHER -> x.k \in {"nan", "pinf", "ninf"} /\ x.m = 0 /\ x.p = 0
Dom_SciArray(A) == A.t \in FloatTypes /\ A.v # <<>> /\ \A i \in DOMAIN A.v : Dom_SciElem(A.t, A.v[i])
\* tolerances 1/T well above the float noise
\* (float64: up to 10^8, i.e. stricter than the default tolerance 1e-6 of compress(); one unit of the nine-digit mantissa
\* is 1e-9 relative, so |x| / T is still at least one unit and the slack of two units does not swallow the tolerance;
\* float32 resolves 6e-8: nothing stricter than 1e-4 is decidable with the noise margins of PassK / MayK)
Dom_SciTol(t, T) == 2 <= T /\ T <= (IF t = 32 THEN 10000 ELSE 100000000)
\* tolerances stricter than 1e-6 only on values for which tol * |x| is a normal number with full precision
Dom_SciDeepTol(A, T) == T > 1000000 => \A i \in DOMAIN A.v : IsNZ(A.v[i]) => 8 + A.v[i].p >= -290
\* float arithmetic decides every comparison of the search the way decimal arithmetic does
Dom_SciDecisive(A, T) == SciTrivial(A) \/ SciExhausted(A, T) \/ (SciTerm(A, T) /\ SciNeed(A, T) = SciMay(A, T))
Dom_Sci(A, T) == Dom_SciArray(A) /\ Dom_SciTol(A.t, T) /\ Dom_SciDeepTol(A, T) /\ Dom_SciDecisive(A, T)
=============================================================================
