SPECIFICATION Spec
CONSTANTS
  Rich = TRUE
  SciLen = 2
INVARIANT InvTolerance
INVARIANT InvReturns
CHECK_DEADLOCK FALSE
