SPECIFICATION Spec
CONSTANTS
  Rich = TRUE
  SciLen = 2
INVARIANT InvTolerance
INVARIANT InvReturns
INVARIANT InvRepFree
CHECK_DEADLOCK FALSE
