SPECIFICATION Spec
CONSTANTS
  HistLen = 3
  Rich = FALSE
INVARIANT InvReadOnly
INVARIANT InvOuts
INVARIANT InvDomain
CHECK_DEADLOCK FALSE
