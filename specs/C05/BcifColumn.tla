------------------------------- MODULE BcifColumn -------------------------------
(* C05: "columns with masks and whole files read back equal to what was written" - as a statement about
   HISTORIES.  A BinaryCIFColumn is built from a data array and an optional mask; before it is written it may
   be looked at any number of times.  What is written is the column the caller built: a read access must not
   change what a later write stores.

   Column    Col(d, m):  d = Arr(t, v);  m = None | Some(mask), mask a sequence over Present / Inapplicable /
             Missing of the same length.
   Read accesses (ReadOps, all of the shape <<name, dtype choice, placeholder given>>):
     <<"as_array", dt, fill>>   column.as_array(dtype, masked_value)
          dt = "none" (argument omitted), "same" (exactly the dtype the data is stored in), "kind" (same numpy
          kind, other width), "cross" (integer <-> float; strings -> integer), "str";
          fill = a masked_value is given (-1, -1.0 or "-", by the target dtype)
     <<"as_item", ..>>          column.as_item()
     <<"serialize", ..>>        column.serialize()        (fills the unset parameters of the encodings)
     <<"compress", ..>>         compress(column)          (the result is dropped; it shares the arrays)
     <<"write", ..>>            a file holding the column is written (and dropped)
   Outcomes of the accesses themselves are not part of the property (as_item of a longer column raises, "-1"
   does not fit every dtype, ...): whatever an access answers, the column stays what it was.

   Code shape (bcif.py, BinaryCIFColumn.as_array).  The only accesses that WRITE are the branches of as_array that
   put placeholders into the rows the mask marks: the string branch ("." / "?" or masked_value) and the same-kind
   branch with a masked_value.  They write into `self._data.array.astype(dtype, copy=...)`, and
   ndarray.astype returns the array itself when copy = FALSE and the dtype is the one it already has.  Both
   branches therefore pass copy = TRUE; the branches that pass copy = FALSE (no mask; same kind without
   masked_value) write nothing; the remaining branch fills a new array.  ImplAsArray spells this out with the
   stored array as an object that can be aliased; InvReadOnly (MCColumn) checks that no history changes the
   column. *)
EXTENDS BcifEncoding

Present == 0
Inapplicable == 1
Missing == 2
Col(d, m) == [d |-> d, m |-> m]
Masked(C) == IF C.m = None THEN {} ELSE {i \in DOMAIN C.m[1] : C.m[1][i] # Present}

DtypeChoices == {"none", "same", "kind", "cross", "str"}
ReadOps == {<<"as_array", dt, fill>> : dt \in DtypeChoices, fill \in BOOLEAN}
           \cup {<<op, "none", FALSE>> : op \in {"as_item", "serialize", "compress", "write"}}

Int64T == 67                       \* the 64-bit integer dtype (no BinaryCIF type; only as a target of as_array)
KindOf(t) == IF t \in {1, 2, 3, Int64T} THEN "i" ELSE IF t \in {4, 5, 6} THEN "u" ELSE IF t \in FloatTypes THEN "f" ELSE "U"
\* the dtype as_array converts to
TargetOf(t, dt) ==
  CASE dt \in {"none", "same"} -> t
    [] dt = "str" -> StrT
    [] dt = "kind" -> (CASE t = 1 -> 2 [] t = 2 -> 3 [] t = 3 -> Int64T [] t = 4 -> 5 [] t = 5 -> 6 [] t = 6 -> 5
                         [] t = 32 -> 33 [] t = 33 -> 32 [] OTHER -> StrT)
    [] dt = "cross" -> (IF t \in IntTypes THEN 33 ELSE 3)
Placeholder(ty) == IF ty = StrT THEN <<"-">> ELSE IF ty \in FloatTypes THEN Fin(-Scale) ELSE -1

\* ndarray.astype(dtype, copy): the array itself only when copy = FALSE and it already has the dtype
AsTypeIsSelf(t, ty, copy) == ~copy /\ ty = t
\* the result of one access: the column afterwards, whether placeholders were written into the array the access
\* returns, and whether that array has the dtype of the stored one (then only the copy keeps them apart)
Acc(C, wrote, samedt) == [col |-> C, wrote |-> wrote, samedt |-> samedt]
\* array[mask == INAPPLICABLE] = x; array[mask == MISSING] = y   on an array that is / is not the stored one
Poke(C, self, x, y) ==
  IF ~self THEN C
  ELSE [C EXCEPT !.d.v = [i \in DOMAIN @ |-> IF C.m[1][i] = Inapplicable THEN x
                                              ELSE IF C.m[1][i] = Missing THEN y ELSE @[i]]]
ImplAsArray(C, dt, fill) ==
  LET t  == C.d.t
      ty == TargetOf(t, dt)
      wr == Masked(C) # {}
  IN IF C.m = None THEN Acc(C, FALSE, ty = t)                              \* astype(dtype, copy=False); nothing written
     ELSE IF ty = StrT                                                     \* astype(dtype, copy=True); marks written
     THEN Acc(Poke(C, AsTypeIsSelf(t, ty, TRUE), IF fill THEN Placeholder(ty) ELSE <<".">>,
                   IF fill THEN Placeholder(ty) ELSE <<"?">>), wr, ty = t)
     ELSE IF KindOf(ty) = KindOf(t)
     THEN IF ~fill THEN Acc(C, FALSE, ty = t)                              \* astype(dtype, copy=False); nothing written
          ELSE Acc(Poke(C, AsTypeIsSelf(t, ty, TRUE), Placeholder(ty), Placeholder(ty)), wr, ty = t)   \* copy=True
     ELSE Acc(C, wr /\ fill, FALSE)                                        \* np.zeros / np.full: a new array
\* as_item reads one element; serialize / write run encode_stepwise over the arrays (every encoder computes a new
\* array or bytes) and fill unset encoding parameters, which are not content of the column; compress() wraps the
\* same arrays (or converted copies) into new BinaryCIFData objects
ImplOp(C, op) == IF op[1] = "as_array" THEN ImplAsArray(C, op[2], op[3]) ELSE Acc(C, FALSE, FALSE)
\* the column after a history of accesses
After(C, hist) == FoldLeft(LAMBDA c, op : ImplOp(c, op).col, C, hist)
\* situations a history runs through (properties of the case in the model, whatever the code does):
\*   PlaceholderIntoStoredDtype  placeholders were written into an array of exactly the stored dtype
\*   PlaceholderIntoOtherDtype   ... of another dtype
\*   AccessWithoutWrite          an access of a masked column that writes nothing
HistSituations(C, hist) ==
  LET step(acc, op) == LET r == ImplOp(acc.c, op) IN
        [c |-> r.col,
         s |-> acc.s \cup (IF r.wrote /\ r.samedt THEN {"PlaceholderIntoStoredDtype"} ELSE {})
                     \cup (IF r.wrote /\ ~r.samedt THEN {"PlaceholderIntoOtherDtype"} ELSE {})
                     \cup (IF ~r.wrote /\ Masked(acc.c) # {} THEN {"AccessWithoutWrite"} ELSE {})]
  IN FoldLeft(step, [c |-> C, s |-> {}], hist).s

(* ------------------------------------------------------------------ domain *)
Dom_Col(C) == /\ C.d.v # <<>> /\ C.d.t \in IntTypes \cup FloatTypes \cup {StrT} /\ Dom_Array(C.d)
              /\ C.m # None => (Len(C.m[1]) = Len(C.d.v) /\ \A i \in DOMAIN C.m[1] : C.m[1][i] \in {Present, Inapplicable, Missing})
Dom_Hist(hist) == \A i \in DOMAIN hist : hist[i] \in ReadOps

(* ------------------------------------------------------------------ files: columns with histories *)
\* a recorded column <<name, A, M>> (M = <<>> or <<mask array>>) as a Col, and back
ColOf(c) == Col(c.A, IF c.M = <<>> THEN None ELSE Some(c.M[1].v))
\* accesses of a file: <<j, op>> - op on column j
OpsOn(hist, j) == LET s == SelectSeq(hist, LAMBDA h : h[1] = j) IN [k \in DOMAIN s |-> s[k][2]]
ColsAfter(cin, hist) == [j \in DOMAIN cin |-> After(ColOf(cin[j]), OpsOn(hist, j))]
\* the columns that came back are the expected ones (types first: TLC cannot compare values of different kinds)
SameCols(cout, want, names) ==
  /\ Len(cout) = Len(want)
  /\ \A j \in DOMAIN want : LET c == ColOf(cout[j]) IN
        /\ cout[j].name = names[j] /\ c.d.t = want[j].d.t /\ Len(c.d.v) = Len(want[j].d.v)
        /\ c.d.v = want[j].d.v /\ c.m = want[j].m
=============================================================================
