------------------------------- MODULE BcifColumn -------------------------------
(* C05: "columns with masks and whole files read back equal to what was written" - as a statement about
   HISTORIES.  A BinaryCIFColumn is built from a data array and an optional mask; before it is written it may
   be looked at any number of times.  What is written is the column the caller built: a read access must not
   change what a later write stores.

   Column    Col(d, m):  d = Arr(t, v);  m = None | Some(mask), mask a sequence over Present / Inapplicable /
             Missing of the same length.
   Read accesses (ReadOps, all of the shape <<name, dtype choice, placeholder given>>):
     <<"as_array", dt, fill>>   column.as_array(dtype, masked_value)
          dt = "none" (argument omitted), "same" (exactly the dtype the data is stored in), "kind" (same numpy
          kind, other width), "cross" (integer <-> float; strings -> integer), "str";
          fill = a masked_value is given (-1, -1.0 or "-", by the target dtype)
     <<"as_item", ..>>          column.as_item()
     <<"serialize", ..>>        column.serialize()        (fills the unset parameters of the encodings)
     <<"compress", ..>>         compress(column)          (the result is dropped; it shares the arrays)
     <<"write", ..>>            a file holding the column is written (and dropped)
   Outcomes of the accesses themselves are not part of the property (as_item of a longer column raises, "-1"
   does not fit every dtype, ...): whatever an access answers, the column stays what it was.

   Code shape (bcif.py, BinaryCIFColumn.as_array).  The only accesses that WRITE are the branches of as_array that
   put placeholders into the rows the mask marks: the string branch ("." / "?" or masked_value) and the same-kind
   branch with a masked_value.  They write into `self._data.array.astype(dtype, copy=...)`, and
   ndarray.astype returns the array itself when copy = FALSE and the dtype is the one it already has.  Both
   branches therefore pass copy = TRUE; the branches that pass copy = FALSE (no mask; same kind without
   masked_value) write nothing; the remaining branch fills a new array.  ImplAsArray spells this out with the
   stored array as an object that can be aliased; InvReadOnly (MCColumn) checks that no history changes the
   column. *)
EXTENDS BcifEncoding

Present == 0
Inapplicable == 1
Missing == 2
Col(d, m) == [d |-> d, m |-> m]
Masked(C) == IF C.m = None THEN {} ELSE {i \in DOMAIN C.m[1] : C.m[1][i] # Present}

DtypeChoices == {"none", "same", "kind", "cross", "str"}
ReadOps == {<<"as_array", dt, fill>> : dt \in DtypeChoices, fill \in BOOLEAN}
           \cup {<<op, "none", FALSE>> : op \in {"as_item", "serialize", "compress", "write"}}

Int64T == 67                       \* the 64-bit integer dtype (no BinaryCIF type; only as a target of as_array)
KindOf(t) == IF t \in {1, 2, 3, Int64T} THEN "i" ELSE IF t \in {4, 5, 6} THEN "u" ELSE IF t \in FloatTypes THEN "f" ELSE "U"
\* the dtype as_array converts to
TargetOf(t, dt) ==
  CASE dt \in {"none", "same"} -> t
    [] dt = "str" -> StrT
    [] dt = "kind" -> (CASE t = 1 -> 2 [] t = 2 -> 3 [] t = 3 -> Int64T [] t = 4 -> 5 [] t = 5 -> 6 [] t = 6 -> 5
                         [] t = 32 -> 33 [] t = 33 -> 32 [] OTHER -> StrT)
    [] dt = "cross" -> (IF t \in IntTypes THEN 33 ELSE 3)
Placeholder(ty) == IF ty = StrT THEN <<"-">> ELSE IF ty \in FloatTypes THEN Fin(-Scale) ELSE -1

\* ndarray.astype(dtype, copy): the array itself only when copy = FALSE and it already has the dtype
AsTypeIsSelf(t, ty, copy) == ~copy /\ ty = t
\* the result of one access: the column afterwards, whether placeholders were written into the array the access
\* returns, and whether that array has the dtype of the stored one (then only the copy keeps them apart)
Acc(C, wrote, samedt) == [col |-> C, wrote |-> wrote, samedt |-> samedt]
\* array[mask == INAPPLICABLE] = x; array[mask == MISSING] = y   on an array that is / is not the stored one
Poke(C, self, x, y) ==
  IF ~self THEN C
  ELSE [C EXCEPT !.d.v = [i \in DOMAIN @ |-> IF C.m[1][i] = Inapplicable THEN x
                                              ELSE IF C.m[1][i] = Missing THEN y ELSE @[i]]]
ImplAsArray(C, dt, fill) ==
  LET t  == C.d.t
      ty == TargetOf(t, dt)
      wr == Masked(C) # {}
  IN IF C.m = None THEN Acc(C, FALSE, ty = t)                              \* astype(dtype, copy=False); nothing written
     ELSE IF ty = StrT                                                     \* astype(dtype, copy=True); marks written
     THEN Acc(Poke(C, AsTypeIsSelf(t, ty, TRUE), IF fill THEN Placeholder(ty) ELSE <<".">>,
                   IF fill THEN Placeholder(ty) ELSE <<"?">>), wr, ty = t)
     ELSE IF KindOf(ty) = KindOf(t)
     THEN IF ~fill THEN Acc(C, FALSE, ty = t)                              \* astype(dtype, copy=False); nothing written
          ELSE Acc(Poke(C, AsTypeIsSelf(t, ty, TRUE), Placeholder(ty), Placeholder(ty)), wr, ty = t)   \* copy=True
     ELSE Acc(C, wr /\ fill, FALSE)                                        \* np.zeros / np.full: a new array
\* as_item reads one element; serialize / write run encode_stepwise over the arrays (every encoder computes a new
\* array or bytes) and fill unset encoding parameters, which are not content of the column; compress() wraps the
\* same arrays (or converted copies) into new BinaryCIFData objects
ImplOp(C, op) == IF op[1] = "as_array" THEN ImplAsArray(C, op[2], op[3]) ELSE Acc(C, FALSE, FALSE)
(* ------------------------------------------------------------------ the owner WRITES between serialisations
   A column is an object with a life: the data array and the mask array it holds can be changed in place by their
   owner (column.data.array[i] = y; coord += shift on the buffer the column was built from), and the column of a
   category can be re-assigned (category[name] = BinaryCIFColumn(...)).  The property speaks about every
   serialisation: serialize() / write() / compress() at any moment of this life store the content the column has
   AT THAT MOMENT - not the content it had when it was built, first serialised or last looked at.

   Write operations (WriteOps, same shape as the read accesses <<name, "none", all>>):
     <<"set_data", "none", all>>   in-place update of the data array through column.data.array: the last row
                                   (all = FALSE:  a[-1] = Bump(a[-1])) or every row (all = TRUE:  a[:] = Bump(a))
     <<"set_mask", "none", all>>   the same on the mask array with MaskBump (nothing when the column has no mask)
     <<"assign", "none", FALSE>>   the column is replaced by a NEW column object built from Bump of every data row
                                   and MaskBump of every mask row
   Bump(t, x) is a value of the same dtype that differs from x and needs no arithmetic that could round
   (integers: the neighbour inside the type; floats: the negative, 0 -> 1; strings: first character replaced,
   "" -> "c": never longer than one character or than the string it replaces, so it fits the fixed-width array).

   Code shape.  BinaryCIFData keeps the array object (np.asarray), serialize() runs encode_stepwise over it each
   time, so every serialisation sees the current rows.  One piece of state does survive a serialisation:
   encodings fill their unset parameters in place at the first encode, and for the default StringArrayEncoding
   that is the table of strings (`tbl`).  A later serialisation of the same object whose data hold a string outside
   this table is REFUSED (check_present; ValueError / IndexError / SerializationError), which the property
   allows ("rejected or kept losslessly, never silently altered").  compress() builds new BinaryCIFData objects
   with new encodings: it never refuses and fills nothing.  A column read from a file carries the table of the
   file. *)
WriteOps == {<<op, "none", all>> : op \in {"set_data", "set_mask"}, all \in BOOLEAN} \cup {<<"assign", "none", FALSE>>}
Ops == ReadOps \cup WriteOps
SerOps == {"serialize", "write", "compress"}

Bump(t, x) ==
  IF t \in IntTypes THEN (IF x >= THi(t) THEN x - 1 ELSE x + 1)
  ELSE IF t \in FloatTypes
  THEN (CASE x.k = "fin" -> (IF x.fx = 0 THEN Fin(Scale) ELSE [x EXCEPT !.fx = -x.fx])
          [] x.k = "whole" -> [x EXCEPT !.fx = -x.fx]
          [] x.k = "pinf" -> NInf
          [] x.k = "ninf" -> PInf
          [] OTHER -> Fin(0))
  ELSE (IF x = <<>> THEN <<"c">> ELSE IF x[1] = "c" THEN <<"a">> \o Tail(x) ELSE <<"c">> \o Tail(x))
MaskBump(m) == (m + 1) % 3
Rows(all, n) == IF all THEN 1..n ELSE {n}
BumpData(C, all) == [C EXCEPT !.d.v = [i \in DOMAIN @ |-> IF i \in Rows(all, Len(@)) THEN Bump(C.d.t, @[i]) ELSE @[i]]]
BumpMask(C, all) ==
  IF C.m = None THEN C
  ELSE [C EXCEPT !.m = Some([i \in DOMAIN C.m[1] |-> IF i \in Rows(all, Len(C.m[1])) THEN MaskBump(C.m[1][i]) ELSE C.m[1][i]])]
\* the content after a write operation
ApplyWrite(C, op) ==
  CASE op[1] = "set_data" -> BumpData(C, op[3])
    [] op[1] = "set_mask" -> BumpMask(C, op[3])
    [] op[1] = "assign" -> BumpMask(BumpData(C, TRUE), TRUE)

\* the table of strings a first serialisation fills in (None: not filled / not a string column)
TableOf(C) == IF C.d.t = StrT THEN Some(ToSet(C.d.v)) ELSE None
Refuses(C, tbl) == C.d.t = StrT /\ tbl # None /\ \E i \in DOMAIN C.d.v : C.d.v[i] \notin tbl[1]
\* what one serialisation gives back when it is read again: [oc, c]; "none" for operations that serialise nothing;
\* "ok": the column c; "values" (compress): the rows and the mask of c, integer data in whichever integer type
\* compress() chose (it stores integers in the smallest type that holds them)
Out(oc, C) == [oc |-> oc, c |-> C]

(* One step of the life of a column object.  acc = [c: content, tbl: string table of its encoding, ser: it was
   serialised before, outs: one Out per operation so far, s: situations]. *)
Step(acc, op) ==
  LET C == acc.c IN
  IF op[1] \in {"as_array", "as_item"}
  THEN LET r == ImplOp(C, op) IN
       [acc EXCEPT !.c = r.col, !.outs = Append(@, Out("none", r.col)),
                   !.s = @ \cup (IF r.wrote /\ r.samedt THEN {"PlaceholderIntoStoredDtype"} ELSE {})
                           \cup (IF r.wrote /\ ~r.samedt THEN {"PlaceholderIntoOtherDtype"} ELSE {})
                           \cup (IF ~r.wrote /\ Masked(C) # {} THEN {"AccessWithoutWrite"} ELSE {})]
  ELSE IF op[1] = "compress"
  THEN [acc EXCEPT !.outs = Append(@, Out("values", C)),
                   !.s = @ \cup (IF Masked(C) # {} THEN {"AccessWithoutWrite"} ELSE {})]
  ELSE IF op[1] \in {"serialize", "write"}
  THEN IF Refuses(C, acc.tbl)
       THEN [acc EXCEPT !.outs = Append(@, Out("Rejected", C)), !.s = @ \cup {"RefusedStringOutsideTable"}]
       ELSE [acc EXCEPT !.outs = Append(@, Out("ok", C)), !.ser = TRUE,
                        !.tbl = IF @ = None THEN TableOf(C) ELSE @,
                        !.s = @ \cup (IF Masked(C) # {} THEN {"AccessWithoutWrite"} ELSE {})
                                \cup acc.dirty,
                        !.dirty = {}]
  ELSE LET C2 == ApplyWrite(C, op) IN
       [acc EXCEPT !.c = C2, !.outs = Append(@, Out("none", C2)),
                   !.tbl = IF op[1] = "assign" THEN None ELSE @,
                   !.dirty = @ \cup (IF acc.ser /\ C2 # C
                                     THEN {CASE op[1] = "set_data" -> "DataWrittenBetweenSerialisations"
                                             [] op[1] = "set_mask" -> "MaskWrittenBetweenSerialisations"
                                             [] OTHER -> "ReassignedBetweenSerialisations"}
                                     ELSE {})]
Life(C, tbl, hist) == FoldLeft(Step, [c |-> C, tbl |-> tbl, ser |-> FALSE, outs |-> <<>>, s |-> {}, dirty |-> {}], hist)
\* ... followed by the write of the file that holds the column
Final(C, tbl, hist) == Step(Life(C, tbl, hist), <<"write", "none", FALSE>>)

\* the column after a history of operations
After(C, hist) == Life(C, None, hist).c
\* the declarative content: the write operations applied to what was built; read accesses are invisible
Written(C, hist) == FoldLeft(LAMBDA c, op : IF op \in WriteOps THEN ApplyWrite(c, op) ELSE c, C, hist)
\* situations a history (with the final write) runs through (properties of the case in the model, whatever the
\* code does):
\*   PlaceholderIntoStoredDtype  placeholders were written into an array of exactly the stored dtype
\*   PlaceholderIntoOtherDtype   ... of another dtype
\*   AccessWithoutWrite          an access of a masked column that writes nothing
\*   DataWrittenBetweenSerialisations, MaskWritten..., Reassigned...: the column was serialised, its content
\*                               was then changed, and it was serialised again
\*   RefusedStringOutsideTable   a serialisation is refused because of the string table filled by an earlier one
HistSituations(C, hist) == Life(C, None, hist).s \cup (Final(C, None, hist).s \ {"AccessWithoutWrite"})

(* ------------------------------------------------------------------ domain *)
Dom_Col(C) == /\ C.d.v # <<>> /\ C.d.t \in IntTypes \cup FloatTypes \cup {StrT} /\ Dom_Array(C.d)
              /\ C.m # None => (Len(C.m[1]) = Len(C.d.v) /\ \A i \in DOMAIN C.m[1] : C.m[1][i] \in {Present, Inapplicable, Missing})
Dom_Hist(hist) == \A i \in DOMAIN hist : hist[i] \in Ops

(* ------------------------------------------------------------------ files: columns with histories *)
\* a recorded column <<name, A, M>> (M = <<>> or <<mask array>>) as a Col, and back
ColOf(c) == Col(c.A, IF c.M = <<>> THEN None ELSE Some(c.M[1].v))
\* operations on a file: <<j, op>> - op on column j
OpsOn(hist, j) == LET s == SelectSeq(hist, LAMBDA h : h[1] = j) IN [k \in DOMAIN s |-> s[k][2]]
ColsAfter(cin, hist) == [j \in DOMAIN cin |-> After(ColOf(cin[j]), OpsOn(hist, j))]
\* one column that came back is the expected one (types first: TLC cannot compare values of different kinds)
SameCol(c, want) == /\ c.d.t = want.d.t /\ Len(c.d.v) = Len(want.d.v) /\ c.d.v = want.d.v /\ c.m = want.m
SameCols(cout, want, names) ==
  /\ Len(cout) = Len(want)
  /\ \A j \in DOMAIN want : cout[j].name = names[j] /\ SameCol(ColOf(cout[j]), want[j])
\* the lives of the columns of a file that was built (no string table yet) ...
Lives1(cin, hist) == [j \in DOMAIN cin |-> Life(ColOf(cin[j]), None, OpsOn(hist, j))]
\* ... and of a file that was read (every string column carries the table of the file)
Lives2(L1, hist2) == [j \in DOMAIN L1 |-> Life(L1[j].c, TableOf(L1[j].c), OpsOn(hist2, j))]
\* writing the whole file is refused when one column is
FileRefused(L) == \E j \in DOMAIN L : Refuses(L[j].c, L[j].tbl)
ContentOf(L) == [j \in DOMAIN L |-> L[j].c]
\* recorded serialisations during a history: outs[n] = [k, oc, A, M] - operation k of hist (a serialize / write of
\* one column) was read back as column (A, M) or refused; every such operation is recorded, and every one
\* reflects the content its column had at that moment
SerialisedAt(hist) == {k \in DOMAIN hist : hist[k][2][1] \in {"serialize", "write"}}
PosOf(hist, k) == Cardinality({i \in 1..k : hist[i][1] = hist[k][1]})
OutsOk(outs, hist, L) ==
  /\ Len(outs) = Cardinality(SerialisedAt(hist))
  /\ {outs[n].k : n \in DOMAIN outs} = SerialisedAt(hist)
  /\ \A n \in DOMAIN outs :
        LET k == outs[n].k
            want == L[hist[k][1]].outs[PosOf(hist, k)]
        IN /\ outs[n].oc = want.oc
           /\ (want.oc = "ok" => SameCol(ColOf(outs[n]), want.c))
=============================================================================
