SPECIFICATION Spec
CONSTANTS
  Rich = FALSE
  SciLen = 3
INVARIANT InvTolerance
INVARIANT InvReturns
INVARIANT InvRepFree
CHECK_DEADLOCK FALSE
