SPECIFICATION Spec
CONSTANTS
  Rich = FALSE
  SciLen = 3
INVARIANT InvTolerance
INVARIANT InvReturns
CHECK_DEADLOCK FALSE
