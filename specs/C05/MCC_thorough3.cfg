SPECIFICATION Spec
CONSTANTS
  Rich = FALSE
  SciLen = 3
INVARIANT InvTolerance
INVARIANT InvReturns
INVARIANT InvRepFree
INVARIANT InvLevelFree
CHECK_DEADLOCK FALSE
