SPECIFICATION Spec
CONSTANTS
  HistLen = 2
  Rich = TRUE
INVARIANT InvReadOnly
INVARIANT InvOuts
INVARIANT InvDomain
CHECK_DEADLOCK FALSE
