------------------------------- MODULE Trace -------------------------------
(* C05 direction B: executions recorded from the real library, re-computed by TLC with the
   operators of BcifEncoding.  TRACE_FILE is a JSON array of traces, a trace an array of
   independent events:

   kind = "chain":    {A, chain, oc, B, ser_eq, data_eq}
        BinaryCIFData(A, chain) was serialised, packed with msgpack, unpacked and deserialised;
        oc "ok" / "Rejected", B the decoded array; ser_eq: every encoding of the chain equals
        deserialize_encoding(enc.serialize()); data_eq: the read BinaryCIFData == the written one.
   kind = "compress": {A, T, chain, hasFP, d, oc, B}
        compress(BinaryCIFData(A), float_tolerance = 1/T) was serialised and read back;
        chain is the encoding compress() chose (hasFP / d: it starts with FixedPoint(10^d)).
   kind = "compressx": {A, T, oc, B, packed, hasFP, d}
        the same for a float array of decimal floats of any magnitude (A.v: [k, m, p], see BcifEncoding
        "floats of any magnitude").  oc: "ok" / "Rejected" / "Diverges" (compress() used more CPU time
        than a thousand ordinary calls); B: what BinaryCIFData.deserialize(compress(..).serialize())
        returns, element i projected with the unit 10^A.v[i].p; packed: "ok" when the msgpack round
        trip works and gives the same array, "Rejected" when it raises, "differs" otherwise.
   kind = "file":     {cin, reps, hist, outs, werr, cout, eq, hist2, outs2, werr2, cout2, eq2, nm, nm1, nm2}
                      (nm = <<block names, category names>> as built, nm1 / nm2 as read back)
        a BinaryCIFFile with the columns cin (each [name, A, M] with M = <<>> or <<mask array>>; reps[j] = the
        memory representations of data and mask array of column j) was built, the operations hist (each
        <<j, op>>: op of BcifColumn.Ops on column j - read accesses, in-place writes into the data / mask array,
        re-assignment of the column) were performed; outs: what every serialize / write among them gave back when
        it was read again ([k, oc, A, M]: operation k of hist); the file was written (werr: that raised) and read:
        cout what came back, eq: read file == written file; then the operations hist2 were performed on the file
        that was read (outs2), it was written again and read: werr2, cout2, eq2.
   Every chain / compress / compressx event has a field rep: the memory representation of the input array
   (BcifEncoding.Reps); every compress / compressx event a field level: the container compress() was called on
   (BcifEncoding.Levels; T is the tolerance that was passed to that call).  The judgement depends on neither.

   Printed, never stopping:
     <<"MISMATCH", tid, i, "known" | "unknown", kb, expected outcome>>
     <<"NOTDOM", tid, i>>       the generator left the domain (machinery failure)
     <<"OUTDOM", tid, i>>       compressx: float arithmetic does not decide the search for the decimals the
                                way decimal arithmetic does (Dom_SciDecisive); the event is skipped, counted
     <<"DDIFF", tid, i>>        diagnostic: compress() chose another number of decimals than the model (or some
                                where the model finds none)
     <<"NOTCAND", tid, i>>      diagnostic: compress() chose a chain outside the twelve candidates *)
EXTENDS BcifColumn, Json, IOUtils

Tr == JsonDeserialize(IOEnv.TRACE_FILE)

VARIABLES tid, l
tvars == <<tid, l>>

NoNaN(A) == A.t \in FloatTypes => \A i \in DOMAIN A.v : A.v[i].k # "nan"

JudgeChain(e, i) ==
  LET dom == /\ Dom_Array(e.A) /\ Dom_NoWrap32(e.A) /\ e.chain # <<>> /\ Dom_Enc(e.chain[1], e.A.t)
             /\ Dom_FixedExact(e.chain[1], e.A) /\ Dom_ArithSafe(e.chain, e.A) /\ Dom_Chain(e.chain)
             /\ e.rep \in RepsOf(e.A) /\ Dom_RepSafe(e.chain, e.A, e.rep)
  IN IF ~dom THEN PrintT(<<"NOTDOM", tid, i>>)
     ELSE LET exp == IdealOutcome(e.chain, e.A)
              le  == LossyOf(e.chain)
              ok  == IF exp = "ok"
                     THEN /\ e.oc = "ok" /\ AcceptArr(le, e.A, e.B) /\ e.ser_eq
                          /\ ((le = <<>> /\ NoNaN(e.A)) => e.data_eq)
                     ELSE e.oc = "Rejected"
          IN IF ok THEN TRUE
             ELSE LET kb == KB_Data(e.chain, e.A)
                      kbr == KB_Rep(e.chain, e.A, e.rep) IN
                  PrintT(<<"MISMATCH", tid, i,
                           IF \/ kb # {} /\ exp = "Rejected" /\ e.oc = "ok"
                              \/ kbr # {} /\ exp = "ok" /\ e.oc = SerializeDataR(e.chain, e.A, e.rep).oc
                           THEN "known" ELSE "unknown", kb \cup kbr, exp>>)

JudgeCompress(e, i) ==
  IF ~(Dom_Array(e.A) /\ e.rep \in RepsOf(e.A) /\ e.level \in Levels) THEN PrintT(<<"NOTDOM", tid, i>>)
  ELSE LET ok == /\ e.oc = "ok" /\ Len(e.B.v) = Len(e.A.v)
                 /\ IF e.A.t \in FloatTypes
                    THEN e.B.t \in FloatTypes /\ \A j \in DOMAIN e.A.v : AcceptRel(e.T, e.A.t, e.A.v[j], e.B.v[j])
                    ELSE \A j \in DOMAIN e.A.v : e.A.v[j] = e.B.v[j]
       IN /\ (IF e.A.t \in IntTypes /\ e.oc = "ok" /\ Len(e.A.v) > 1 /\ ~IsCandidate(e.chain)
              THEN PrintT(<<"NOTCAND", tid, i>>) ELSE TRUE)
          /\ IF ok THEN TRUE
             ELSE LET kb == IF KB_CompressFloat(e.A, e.hasFP, e.d) THEN {"CompressFloatUnchecked"} ELSE {} IN
                  PrintT(<<"MISMATCH", tid, i, IF kb # {} /\ e.oc = "ok" THEN "known" ELSE "unknown", kb, "ok">>)

JudgeCompressX(e, i) ==
  IF ~(Dom_SciArray(e.A) /\ Dom_SciTol(e.A.t, e.T) /\ Dom_SciDeepTol(e.A, e.T) /\ e.rep \in RepsOf(e.A)
       /\ e.level \in Levels) THEN PrintT(<<"NOTDOM", tid, i>>)
  ELSE IF ~Dom_SciDecisive(e.A, e.T) THEN PrintT(<<"OUTDOM", tid, i>>)
  ELSE LET t == e.A.t
           nodec == SciExhausted(e.A, e.T)     \* no decimals reach the tolerance: the array is kept losslessly
           d == IF nodec THEN 0 ELSE SciDecimals(e.A, e.T)
           shape == e.oc = "ok" /\ Len(e.B.v) = Len(e.A.v) /\ e.B.t = t
           good(j) == AcceptSci(t, e.T, e.A.v[j], e.B.v[j])
           values == shape /\ \A j \in DOMAIN e.A.v : good(j)
           ok == values /\ e.packed = "ok"
           \* the recorded defects, each only in its own shape
           kb == (IF KB_SciUnbounded(e.A, e.T) /\ e.oc = "Diverges" THEN {"CompressDecimalsUnbounded"} ELSE {})
                 \cup (IF KB_SciFactor(e.A, e.T) /\ values /\ e.hasFP /\ e.d >= 20 /\ e.packed = "Rejected"
                       THEN {"CompressFactorUnserialisable"} ELSE {})
                 \cup (IF KB_SciFloat32Range(e.A, e.T) /\ shape /\ e.hasFP /\ e.d = d /\ e.packed = "ok"
                          /\ \A j \in DOMAIN e.A.v : good(j) \/ SciZone(t, e.A.v[j], d)
                       THEN {"CompressFloat32RangeCheck"} ELSE {})
       IN /\ (IF e.oc = "ok" /\ e.hasFP /\ (nodec \/ e.d # d) THEN PrintT(<<"DDIFF", tid, i>>) ELSE TRUE)
          /\ IF ok THEN TRUE
             ELSE PrintT(<<"MISMATCH", tid, i, IF kb # {} THEN "known" ELSE "unknown", kb, "ok">>)

JudgeFile(e, i) ==
  LET dom == /\ \A j \in DOMAIN e.cin : /\ Dom_Col(ColOf(e.cin[j])) /\ e.reps[j][1] \in RepsOf(e.cin[j].A)
                                         /\ (e.cin[j].M # <<>> => e.reps[j][2] \in RepsOf(e.cin[j].M[1]))
             /\ \A k \in DOMAIN e.hist : e.hist[k][1] \in DOMAIN e.cin /\ e.hist[k][2] \in Ops
             /\ \A k \in DOMAIN e.hist2 : e.hist2[k][1] \in DOMAIN e.cin /\ e.hist2[k][2] \in Ops
             /\ \A n \in DOMAIN e.outs : e.outs[n].k \in DOMAIN e.hist
             /\ \A n \in DOMAIN e.outs2 : e.outs2[n].k \in DOMAIN e.hist2
      names == [j \in DOMAIN e.cin |-> e.cin[j].name]
      L1 == Lives1(e.cin, e.hist)          \* the columns that were built, through the first history
      L2 == Lives2(L1, e.hist2)            \* the columns that were read, through the second
  IN IF ~dom THEN PrintT(<<"NOTDOM", tid, i>>)
     ELSE IF /\ OutsOk(e.outs, e.hist, L1)
             /\ IF FileRefused(L1) THEN e.werr
                ELSE /\ ~e.werr /\ e.eq /\ SameCols(e.cout, ContentOf(L1), names)
                     /\ e.nm1 = e.nm       \* the names of the block and of the category come back unchanged
                     /\ OutsOk(e.outs2, e.hist2, L2)
                     /\ IF FileRefused(L2) THEN e.werr2
                        ELSE ~e.werr2 /\ e.eq2 /\ SameCols(e.cout2, ContentOf(L2), names) /\ e.nm2 = e.nm
          THEN TRUE ELSE PrintT(<<"MISMATCH", tid, i, "unknown", {}, "ok">>)

Init == tid \in 1..Len(Tr) /\ l = 0
Next == /\ l < Len(Tr[tid])
        /\ l' = l + 1
        /\ UNCHANGED tid
        /\ LET e == Tr[tid][l + 1] IN
           CASE e.kind = "chain" -> JudgeChain(e, l + 1)
             [] e.kind = "compress" -> JudgeCompress(e, l + 1)
             [] e.kind = "compressx" -> JudgeCompressX(e, l + 1)
             [] e.kind = "file" -> JudgeFile(e, l + 1)
Spec == Init /\ [][Next]_tvars
=============================================================================
