------------------------------- MODULE MCCompress -------------------------------
(* C05 exhaustive configuration for compress(): Init enumerates (array, tolerance) cases of two
   families, one Compute step evaluates the specification.

   fam = "sci": float32 / float64 arrays over decimal floats of every magnitude class (far below the
                resolution of the fixed-point universe, fractions, coordinates, the int32 boundary of
                the scaled values on both sides, above 2^31, near the top of the float range), both
                signs, zero, NaN and the infinities; tolerances 1e-1 .. 1e-6; optionally the last
                element repeated (Stretch: longer arrays, on which the fixed-point route is smaller
                than the raw floats also for float32).
   fam = "int": int32 arrays whose extreme values sit on the type boundaries of
                _to_smallest_integer_type (T is ignored).
   The cases are executed by the driver (S2) and judged by Trace.tla (kind "compressx" / "compress"). *)
EXTENDS BcifEncoding

CONSTANTS Rich,        \* BOOLEAN: the larger value sets
          SciLen       \* length of the enumerated part of a float array

VARIABLES fam, arr, tol,   \* the case
          done,
          dom,             \* the case is inside the domain (Dom_Sci); evaluated in Compute, i.e. by all TLC
                           \* workers (as a filter of Init it was two thirds of the run time); the driver
                           \* drops (and counts) the cases outside
          impl,            \* sci: SciImpl(arr, tol)
          dstar,           \* sci: the number of decimals of the model (0 when the search finds none)
          sit,             \* sci: situations of the model's float branch the case is in (Situations; the driver
                           \* requires each of them to be enumerated)
          kb,              \* recorded-defect predicates that hold
          reps,            \* the memory representations under which the driver executes the case (RepsOf(arr)): compress()
                           \* hands the array object it was given to the encoders (ByteArray for the lossless form and
                           \* for arrays of one element, FixedPoint otherwise); the result is a function of the values
          levels,          \* the container levels at which the driver calls compress() for the case (Levels); the
                           \* expected result is the same at all of them
          ok               \* sci: every array the model may return is inside the tolerance;
                           \* int: all 12 candidate chains return Smallest(arr) exactly
vars == <<fam, arr, tol, done, dom, impl, dstar, sit, kb, reps, levels, ok>>

\* the last element repeated r more times
Stretch(v, r) == v \o [i \in 1..r |-> v[Len(v)]]

(* ---------------------------------------------------------------- float cases *)
Specials == {Num(0, 0), SciNaN, SciPInf, SciNInf}
\* magnitude classes shared by both float types
Common == {Sci(15, -13), Sci(-7125, -16),                 \* 1.5e-12, -7.125e-13
           Sci(-12345678, -23),                           \* -1.2345678e-16: 17 .. 22 decimals, rounded
           Sci(125, -3), Sci(-5, -1), Sci(25, -2),        \* fractions
           Sci(12345, -3),                                \* a coordinate
           Num(123456789, -8), Num(-987654321, -7),       \* nine significant digits: 1.23456789, -98.7654321
           Num(214748364, -1), Num(214748365, -1), Num(-214748365, -1),   \* x * 10^2 = int32 max -+ : fits / does not
           Sci(3, 9), Sci(-3, 9),                         \* beyond int32 already unscaled
           Sci(15, 29)}                                   \* 1.5e30
RichCommon == {Sci(-15, -9), Sci(6626, -37), Sci(999, -3), Sci(-214748364, -1), Sci(2147483, -3),
               Sci(-2147484, -3), Sci(17, 0), Sci(-45501, -3)}
Vals(t) == Common \cup Specials \cup (IF Rich THEN RichCommon ELSE {})
           \cup (IF t = 33 THEN {Sci(225, -22), Sci(-225, 298)} ELSE {})     \* 2.25e-20, -2.25e300
\* a value whose decimals cannot be expressed as a power of ten of the float type (float64; below 1e-33
\* float32 leaves the domain: the search then diverges only through a large value in the same array)
Deep == Sci(12345, -310)                                                     \* 1.2345e-306
DeepArrays(t) == IF t = 32 THEN {}
                 ELSE {<<Deep>>, <<Deep, Deep>>, <<Deep, Sci(125, -3)>>, <<Sci(125, -3), Deep>>,
                       <<Deep, SciNaN>>, <<Sci(15, 29), Deep>>}
\* 1e-1, 1e-3 looser than the default tolerance of compress() (1e-6), 1e-6 the default, 1e-8 stricter
Tols(t) == IF t = 33 THEN {10, 1000, 1000000, 100000000} ELSE {10, 1000}
Stretches(t) == IF t = 33 /\ ~Rich THEN {0} ELSE {0, 12}
\* (no union of the families / lengths is ever built: TLC merges large unions quadratically; see Init)

(* ---------------------------------------------------------------- integer cases *)
EdgeVals == {0, 1, -1, 127, 128, 255, 256, 32767, 32768, 65535, 65536, -128, -129, -32768, -32769}

Y(x, fx) == [k |-> x.k, fx |-> fx, ex |-> TRUE]
\* situations of the float branch (properties of the case in the model, whatever the code does with it):
\* no number of decimals reaches the tolerance inside the float range; the decimals found need a factor
\* 10^d >= 2^64; a float32 value whose scaled magnitude float32 arithmetic cannot tell from 2^31
Situations(A, T) ==
  IF SciTrivial(A) THEN {}
  ELSE IF SciExhausted(A, T) THEN {"DecimalsUnreachable"}
  ELSE (IF SciDecimals(A, T) >= 20 THEN {"FactorBeyondUint64"} ELSE {})
       \cup (IF \E i \in DOMAIN A.v : SciZone(A.t, A.v[i], SciDecimals(A, T)) THEN {"Float32Boundary"} ELSE {})
InitSci(t, v, r, T) == fam = "sci" /\ arr = Arr(t, Stretch(v, r)) /\ tol = T
Init == /\ \/ \E t \in FloatTypes, k \in 1..SciLen : \E v \in [1..k -> Vals(t)], r \in Stretches(t), T \in Tols(t) :
                 InitSci(t, v, r, T)
           \/ \E t \in FloatTypes : \E v \in DeepArrays(t), r \in Stretches(t), T \in Tols(t) : InitSci(t, v, r, T)
           \/ \E k \in 1..2 : \E v \in [1..k -> EdgeVals], r \in {0, 12} :
                 fam = "int" /\ arr = Arr(3, Stretch(v, r)) /\ tol = 1000
        /\ done = FALSE /\ dom = TRUE /\ impl = [oc |-> "todo", ys |-> {}, fits |-> FALSE] /\ dstar = 0 /\ sit = {} /\ kb = {} /\ ok = TRUE /\ reps = {} /\ levels = {}
Compute ==
  /\ ~done /\ done' = TRUE
  /\ dom' = (fam = "sci" => Dom_Sci(arr, tol))
  /\ IF fam = "sci" /\ ~dom'
     THEN impl' = [oc |-> "outside", ys |-> {}, fits |-> FALSE] /\ dstar' = 0 /\ sit' = {} /\ kb' = {} /\ ok' = TRUE
     ELSE IF fam = "sci"
     THEN /\ impl' = SciImpl(arr, tol)
          /\ dstar' = IF SciExhausted(arr, tol) THEN 0 ELSE SciDecimals(arr, tol)
          /\ sit' = Situations(arr, tol)
          /\ kb' = (IF KB_SciUnbounded(arr, tol) THEN {"CompressDecimalsUnbounded"} ELSE {})
                   \cup (IF KB_SciFactor(arr, tol) THEN {"CompressFactorUnserialisable"} ELSE {})
                   \cup (IF KB_SciFloat32Range(arr, tol) THEN {"CompressFloat32RangeCheck"} ELSE {})
          /\ ok' = \A ys \in impl'.ys : \A i \in DOMAIN arr.v : AcceptSci(arr.t, tol, arr.v[i], Y(arr.v[i], ys[i]))
     ELSE /\ impl' = [oc |-> "ok", ys |-> {}, fits |-> FALSE] /\ dstar' = 0 /\ sit' = {} /\ kb' = {}
          /\ ok' = \A c \in Candidates : LET r == ImplRoundTrip(c, Smallest(arr)) IN r.oc = "ok" /\ r.a.v = arr.v
  /\ reps' = RepsOf(arr)
  /\ levels' = Levels
  /\ UNCHANGED <<fam, arr, tol>>
Next == Compute
Spec == Init /\ [][Next]_vars

(* ---------------------------------------------------------------- properties of the specified design *)
\* whatever compress() may return for a float array (lossless bytes, or fixed point with the decimals
\* found by the search whenever every scaled value fits into int32) is inside the relative tolerance;
\* every candidate chain returns the integers it was given
InvTolerance == done => ok
\* the call returns (at least the lossless array), also when no number of decimals reaches the tolerance
\* the lossless form ByteArray writes is the same under every representation of the array
InvRepFree == done => ("native" \in reps /\ RepFree(<<<<"BA", None>>>>, arr))
\* the tolerance that was passed is the tolerance every data array is compressed with, whatever the level of the call
InvLevelFree == done => (levels = Levels /\ \A lv \in levels : TolArriving(lv, tol) = tol)
InvReturns == (done /\ dom /\ fam = "sci") =>
                 /\ impl.oc = "ok" /\ [i \in DOMAIN arr.v |-> arr.v[i].m] \in impl.ys
                 /\ ("DecimalsUnreachable" \in sit => ~impl.fits)

\* _get_decimal_places, pinned on hand-computed examples (|round(x, d) - x| < |x| / T; the real function
\* returns the same eight numbers)
ASSUME SciDecimals(Arr(33, <<Sci(12345, -3)>>), 100) = 1            \* 12.345 -> 12.3
ASSUME SciDecimals(Arr(33, <<Sci(12345, -3)>>), 10) = 0             \* 12.345 -> 12
ASSUME SciDecimals(Arr(33, <<Sci(12345, -3)>>), 1000000) = 3
ASSUME SciDecimals(Arr(33, <<Num(123456789, -8), Num(-5, -1)>>), 100000000) = 7      \* 1.23456789 at 1e-8: 1.2345679
ASSUME SciDecimals(Arr(33, <<Num(123456789, -8), Num(-5, -1)>>), 1000000) = 6        \* ... at the default: 1.234568
ASSUME SciDecimals(Arr(33, <<Sci(15, -13), Sci(125, -3)>>), 1000) = 13
ASSUME SciDecimals(Arr(33, <<Sci(3, 9), Sci(-5, -1)>>), 1000) = 1
ASSUME SciDecimals(Arr(33, <<Sci(15, 29)>>), 10) = -29 /\ SciDecimals(Arr(33, <<Sci(15, 29), Sci(225, 28)>>), 1000) = -28
ASSUME SciDecimals(Arr(33, <<Num(0, 0), SciNaN>>), 1000) = 0
ASSUME SciExhausted(Arr(33, <<Sci(12345, -310), Num(0, 0)>>), 1000) /\ ~SciExhausted(Arr(33, <<Sci(12345, -310), Num(0, 0)>>), 10)
ASSUME ~SciExhausted(Arr(33, <<Sci(12345, -310)>>), 1000)
ASSUME SciExhausted(Arr(32, <<Sci(15, 29), Sci(15, -13)>>), 10) /\ ~SciExhausted(Arr(33, <<Sci(15, 29), Sci(15, -13)>>), 10)
ASSUME SciOverflow(Num(214748365, -1), 2) /\ ~SciOverflow(Num(214748364, -1), 2) /\ SciOverflow(Sci(-3, 9), 1)
ASSUME RoundErr(123456789, 4) = 3211 /\ RoundErr(-150000000, 8) = 50000000 /\ RoundErr(5, 0) = 0
ASSUME Digits(1) = 1 /\ Digits(999999999) = 9 /\ Digits(1000000000) = 10 /\ Sci(-15, -13) = Num(-150000000, -20)
=============================================================================
