SPECIFICATION Spec
CONSTANTS
  IntLen = 2
  Rich = TRUE
INVARIANT InvInvertible
INVARIANT InvRejected
INVARIANT InvKnownBadTight
INVARIANT InvAcceptSpec
INVARIANT InvCandidates
INVARIANT InvRepFree
INVARIANT InvKnownRepTight
CHECK_DEADLOCK FALSE
