SPECIFICATION Spec
CONSTANTS
  IntLen = 2
  Rich = TRUE
INVARIANT InvInvertible
INVARIANT InvRejected
INVARIANT InvKnownBadTight
INVARIANT InvAcceptSpec
INVARIANT InvCandidates
CHECK_DEADLOCK FALSE
