SPECIFICATION Spec
CONSTANTS
  HistLen = 2
  Rich = FALSE
INVARIANT InvReadOnly
INVARIANT InvOuts
INVARIANT InvDomain
CHECK_DEADLOCK FALSE
