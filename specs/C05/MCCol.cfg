SPECIFICATION Spec
CONSTANTS
  HistLen = 2
  Rich = FALSE
INVARIANT InvReadOnly
INVARIANT InvDomain
CHECK_DEADLOCK FALSE
