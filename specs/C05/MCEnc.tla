------------------------------- MODULE MCEnc -------------------------------
(* C05 exhaustive configuration: Init enumerates (chain, array); one Compute step evaluates the
   specification (pure-function pattern, shared by the TLC workers). *)
EXTENDS BcifEncoding

CONSTANTS IntLen, Rich

VARIABLES chain, arr,   \* the case
          done,
          exp,          \* Ideal outcome of BinaryCIFData.deserialize(BinaryCIFData(arr, chain).serialize())
          impl,         \* the code-shaped model's result [oc, a]
          form,         \* the serialised form [oc, a (bytes), e (chain with filled parameters)]
          acc,          \* per element: what a decoded value must satisfy ([k, lo, hi, ex])
          kb,           \* recorded-defect predicates that hold
          cand,         \* integers: all 12 compress() candidates return Smallest(arr) exactly
          reps,         \* the memory representations under which the driver executes the case (RepsOf(arr));
                        \* the expected outcome / values are the same for all of them
          kbrep,        \* recorded defects that depend on the representation: triples <<rep, class, outcome of the
                        \* code-shaped model ("ok": other values come back / "Rejected": a later step refuses them)>>
          repfree       \* the code-shaped first encoding step gives the same result under every representation
vars == <<chain, arr, done, exp, impl, form, acc, kb, cand, reps, kbrep, repfree>>

BA(t) == <<"BA", t>>
BAb == <<"BA", None>>
Seqs(S, n) == UNION {[1..k -> S] : k \in 0..n}

(* ---------------------------------------------------------------- integer cases *)
IntVals(t) == {v \in (IF Rich THEN {TLo(t), TLo(t) + 1, -1, 0, 1, THi(t) - 1, THi(t), 127, 128, 255, 256, -129, 300}
                         ELSE {TLo(t), -1, 0, 1, THi(t), 128, 300}) : Fits(t, v)}
IntArrays == UNION {{Arr(t, v) : v \in Seqs(IntVals(t), IntLen)} : t \in {1, 2, 4, 5}}
        \cup {Arr(3, v) : v \in Seqs(IF Rich THEN {-129, -1, 0, 1, 128, 300, 40000, -40000} ELSE {-129, 0, 1, 300, -40000}, IntLen)}
        \cup {Arr(t, v) : t \in {1, 4, 2}, v \in {<<1, 1, 1>>, <<0, 0, 5>>, <<5, 0, 0>>, <<1, 2, 3>>, <<3, 3, 1, 1>>}}
        \* unsigned 32-bit values (also carried by uint64: "wide")
        \cup {Arr(6, v) : v \in Seqs(IF Rich THEN {0, 1, 5, 300, 70000} ELSE {0, 5, 300, 70000}, IntLen)}
\* isolated 32-bit boundary values (no arithmetic on them)
BoundaryArrays == {Arr(3, <<MinInt32>>), Arr(3, <<MaxInt32, MinInt32>>), Arr(6, <<MaxInt32>>), Arr(6, <<0, 65536>>)}
IntChains ==
  Candidates
  \cup {<<BA(Some(t))>> : t \in {1, 2, 3, 4, 5}}
  \cup {<<<<"RL", None, Some(4)>>, BAb>>, <<<<"RL", Some(2), None>>, BAb>>,
        <<<<"IP", 1, None, Some(TRUE)>>, BAb>>, <<<<"IP", 2, None, Some(FALSE)>>, BAb>>,
        <<<<"IP", 3, None, None>>, BAb>>, <<<<"DE", None, Some(0)>>, BAb>>, <<<<"DE", None, Some(127)>>, BAb>>,
        <<<<"DE", None, None>>>>, <<<<"RL", None, None>>, <<"DE", None, None>>, BA(Some(2))>>}
BoundaryChains == {<<BAb>>, <<<<"RL", None, None>>, BAb>>, <<BA(Some(2))>>, <<BA(Some(3))>>}

(* ---------------------------------------------------------------- float cases *)
FloatVals == {Fin(0), Fin(524288), Fin(-131072), Fin(393216), Fin(2621440), Fin(262668288),
              Fin(1048576), Fin(-2097152), Fin(104857), NaN, PInf, NInf, Whole(3000000), Whole(-5000)}
FloatValsQuick == {Fin(0), Fin(524288), Fin(-131072), Fin(262668288), Fin(104857), NaN, PInf, Whole(3000000)}
FloatArrays == {A \in {Arr(t, v) : t \in {32, 33}, v \in Seqs(IF Rich THEN FloatVals ELSE FloatValsQuick, 2)} : Dom_Array(A)}
IQ1 == <<"IQ", 0, Scale, 3, None>>                   \* [0, 1] in steps of 0.5
IQ2 == <<"IQ", -2 * Scale, 2 * Scale, 9, None>>      \* [-2, 2] in steps of 0.5
IQ3 == <<"IQ", 10 * Scale, 20 * Scale, 21, None>>    \* the docstring example
FloatChains ==
  {<<<<"FP", F, None>>, BAb>> : F \in {1, 10, 100, 1000}}
  \cup {<<<<"FP", 10, None>>, <<"DE", None, None>>, <<"IP", 1, None, None>>, BAb>>,
        <<<<"FP", 100, Some(33)>>, <<"RL", None, None>>, BA(Some(3))>>,
        <<IQ1, BAb>>, <<IQ2, <<"IP", 1, None, None>>, BAb>>, <<IQ3, <<"RL", None, None>>, BAb>>,
        <<BAb>>, <<<<"FP", 10, None>>>>}

(* ---------------------------------------------------------------- string cases *)
StrVals == {<<>>, <<"a">>, <<"a", "b">>, <<"b">>}
StrArrays == {Arr(StrT, v) : v \in Seqs(StrVals, 3)}
SA(st, de, oe) == <<"SA", st, de, oe>>
StrChains ==
  {<<SA(None, <<BA(Some(3))>>, <<BA(Some(3))>>)>>,
   <<SA(None, <<<<"RL", None, None>>, BAb>>, <<<<"DE", None, None>>, BAb>>)>>,
   <<SA(None, <<<<"IP", 1, None, None>>, BAb>>, <<BA(Some(4))>>)>>,
   <<SA(Some(<<<<"a">>, <<"b">>>>), <<BA(Some(3))>>, <<BA(Some(3))>>)>>,
   <<SA(None, <<>>, <<BA(Some(3))>>)>>}

Cases == {<<c, A>> \in (IntChains \X IntArrays) \cup (FloatChains \X FloatArrays) \cup (StrChains \X StrArrays) :
            /\ Dom_Array(A) /\ Dom_NoWrap32(A)
            /\ Dom_Enc(c[1], A.t) /\ Dom_FixedExact(c[1], A) /\ Dom_ArithSafe(c, A) /\ Dom_Chain(c)
            \* packing a number of millions into bytes explodes (compress() avoids it by a size estimate)
            /\ ((\E i \in DOMAIN c : c[i][1] = "IP") /\ A.t \in FloatTypes => \A i \in DOMAIN A.v : A.v[i].k # "whole")}
         \cup (BoundaryChains \X BoundaryArrays)

AcceptSpec(le, t, x) ==
  IF le = <<>> \/ ~IsFinite(x) \/ x.k = "whole" THEN [k |-> x.k, lo |-> x.fx, hi |-> x.fx, ex |-> TRUE]
  ELSE IF le[1] = "FP" THEN [k |-> "fin", lo |-> x.fx - (Scale \div (2 * le[2]) + FloatSlack(t, x.fx)),
                             hi |-> x.fx + Scale \div (2 * le[2]) + FloatSlack(t, x.fx), ex |-> FALSE]
  ELSE [k |-> "fin", lo |-> x.fx - FloatSlack(t, x.fx), hi |-> x.fx + IQStep(le) - 1 + FloatSlack(t, x.fx), ex |-> FALSE]

Init == /\ \E c \in Cases : chain = c[1] /\ arr = c[2]
        /\ done = FALSE /\ exp = "todo" /\ impl = DRej /\ form = Rej(<<>>) /\ acc = <<>> /\ kb = {} /\ cand = TRUE
        /\ reps = {} /\ kbrep = {} /\ repfree = TRUE
Compute ==
  /\ ~done /\ done' = TRUE
  /\ exp' = IdealOutcome(chain, arr)
  /\ impl' = ImplRoundTrip(chain, arr)
  /\ form' = SerializeData(chain, arr)
  /\ acc' = IF arr.t \in FloatTypes THEN [i \in DOMAIN arr.v |-> AcceptSpec(LossyOf(chain), arr.t, arr.v[i])] ELSE <<>>
  /\ kb' = KB_Data(chain, arr)
  /\ cand' = (arr.t \in IntTypes /\ arr.v # <<>> /\ Dom_NoWrap32(arr) =>
                 \A c \in Candidates : LET r == ImplRoundTrip(c, Smallest(arr)) IN r.oc = "ok" /\ r.a.v = arr.v)
  /\ reps' = {r \in RepsOf(arr) : Dom_RepSafe(chain, arr, r)}
  /\ kbrep' = UNION {{<<r, k, SerializeDataR(chain, arr, r).oc>> : k \in KB_Rep(chain, arr, r)} : r \in reps'}
  /\ repfree' = RepFree(chain, arr)
  /\ UNCHANGED <<chain, arr>>
Next == Compute
Spec == Init /\ [][Next]_vars

(* ---------------------------------------------------------------- properties of the specified design *)
\* what the representation can hold comes back: exactly, or inside the stated precision
InvInvertible == (done /\ exp = "ok") => (impl.oc = "ok" /\ AcceptArr(LossyOf(chain), arr, impl.a))
\* what it cannot hold is refused - except in the recorded classes, where the code alters it silently
InvRejected == (done /\ exp = "Rejected") => (impl.oc = "Rejected" \/ kb # {})
InvKnownBadTight == (done /\ kb # {}) => (exp = "Rejected" /\ impl.oc = "ok")
\* the acceptance record handed to the driver says the same as AcceptArr
InvAcceptSpec == (done /\ impl.oc = "ok" /\ arr.t \in FloatTypes) =>
   (AcceptArr(LossyOf(chain), arr, impl.a) =
      \A i \in DOMAIN arr.v : LET y == impl.a.v[i]  s == acc[i] IN
         y.k = s.k /\ s.lo <= y.fx /\ y.fx <= s.hi /\ (s.ex => y.ex))
\* every chain compress() may choose returns the integers it was given
InvCandidates == cand
\* byte order, strides, write protection, alignment and the 64-bit carrier of the input array do not matter
InvRepFree == done => (repfree /\ "native" \in reps)
\* the representation-dependent class is one the representation can hold: the values are silently altered
InvKnownRepTight == (done /\ kbrep # {}) => (exp = "ok" /\ impl.oc = "ok")
\* ... and the model would notice: bytes written in the order of a big-endian array are not what ByteArray declares
ASSUME LET bad == R("ok", Arr(BytesT, <<255, 254>>), <<"BA", Some(2)>>) IN
         /\ EncBA(BAb, Arr(2, <<-2>>)).a.v = <<254, 255>> /\ DecBA(bad.e, bad.a).a.v = <<-257>>
         /\ SafeCastOrder(2, "swapped", 2) = "<" /\ SafeCastOrder(3, "wide", 3) = "<" /\ SafeCastOrder(1, "swapped", 1) = "|"
         /\ DtypeOf(2, "swapped") # TargetDtype(2) /\ DtypeOf(2, "strided") = TargetDtype(2) /\ DtypeOf(3, "list") = <<67, "<">>
\* integer packing: the two loops of the code are "bound as often as it fits, then the rest"
ASSUME \A n \in -700..700 : /\ PackOne(n, -128, 127, <<>>) = PackOneDecl(n, -128, 127)
                            /\ (n >= 0 => PackOne(n, 0, 255, <<>>) = PackOneDecl(n, 0, 255))
ASSUME \A n \in {-70000, -65536, -32769, -32768, 32767, 65534, 65535, 70000} :
          PackOne(n, -32768, 32767, <<>>) = PackOneDecl(n, -32768, 32767)
\* docstring examples
ASSUME EncIP(<<"IP", 1, None, None>>, Arr(3, <<1, 2, -3, 128>>)).a.v = <<1, 2, -3, 127, 1>>
ASSUME EncRL(<<"RL", None, None>>, Arr(3, <<1, 1, 1, 5, 3, 3>>)).a.v = <<1, 3, 5, 1, 3, 2>>
ASSUME EncDE(<<"DE", None, None>>, Arr(3, <<1, 1, 2, 3, 5, 8>>)).a.v = <<0, 0, 1, 1, 2, 3>>
ASSUME EncIQ(IQ3, Arr(33, <<Fin(11 * Scale), Fin(11744051), Fin(12 * Scale)>>)).a.v = <<2, 3, 4>>
ASSUME EncBA(BAb, Arr(3, <<0, 1, 2>>)).a.v = <<0, 0, 0, 0, 1, 0, 0, 0, 2, 0, 0, 0>>
\* the strings of a StringArray survive its own serialisation
ASSUME \A st \in {<<>>, <<<<"a">>>>, <<<<>>, <<"a", "b">>, <<"b">>>>} :
          SADeserializeStrings(SASerialize(SA(Some(st), <<BAb>>, <<<<"DE", None, None>>, BAb>>))) = st
=============================================================================
