------------------------------- MODULE MCColumn -------------------------------
(* C05 exhaustive configuration for columns with histories: Init enumerates (column, history of read accesses),
   one Compute step evaluates the specification.  The driver builds the column, performs the accesses, and compares
   the column in memory and the column read back from a written file with `exp`. *)
EXTENDS BcifColumn

CONSTANTS HistLen,     \* longest history
          Rich         \* BOOLEAN: more columns

VARIABLES col, hist,   \* the case
          done,
          exp,         \* the column after the history (code-shaped model) = what a write must store
          sit          \* HistSituations(col, hist)
vars == <<col, hist, done, exp, sit>>

Data(t) == CASE t = 1 -> {<<-128, 127>>, <<5>>} \cup (IF Rich THEN {<<0, -1, 7>>} ELSE {})
             [] t = 2 -> {<<300, -300>>}
             [] t = 3 -> {<<11, -70000>>, <<5>>} \cup (IF Rich THEN {<<-1, -1, 40000>>} ELSE {})
             [] t \in FloatTypes -> {<<Fin(1572864), Fin(-262144)>>, <<Fin(524288)>>}
                                    \cup (IF Rich THEN {<<Fin(-Scale), Fin(0), Whole(3000000)>>} ELSE {})
             [] OTHER -> {<< <<"a", "b">>, <<>> >>, << <<"a">> >>} \cup (IF Rich THEN {<< <<"-">>, <<".">>, <<"u1">> >>} ELSE {})
Types == {1, 3, 32, 33, StrT} \cup (IF Rich THEN {2} ELSE {})
Masks(n) == {None} \cup {Some(m) : m \in IF n = 1 THEN {<<0>>, <<1>>, <<2>>}
                                         ELSE IF n = 2 THEN {<<0, 1>>, <<2, 0>>, <<1, 2>>, <<0, 0>>}
                                         ELSE {<<0, 1, 2>>, <<2, 2, 0>>, <<0, 0, 0>>}}
Hists == UNION {[1..k -> ReadOps] : k \in 0..HistLen}

Init == /\ \E t \in Types : \E v \in Data(t) : \E m \in Masks(Len(v)) : col = Col(Arr(t, v), m)
        /\ hist \in Hists
        /\ done = FALSE /\ exp = col /\ sit = {}
Compute ==
  /\ ~done /\ done' = TRUE
  /\ exp' = After(col, hist)
  /\ sit' = HistSituations(col, hist)
  /\ UNCHANGED <<col, hist>>
Next == Compute
Spec == Init /\ [][Next]_vars

\* no history of read accesses changes the column: what is written afterwards is what the caller built
InvReadOnly == done => exp = col
InvDomain == Dom_Col(col) /\ Dom_Hist(hist)
\* ... and the model would notice an access that writes into the stored array
ASSUME LET C == Col(Arr(3, <<11, 22, 33>>), Some(<<0, 1, 2>>)) IN
         /\ Poke(C, TRUE, -1, -1).d.v = <<11, -1, -1>> /\ Poke(C, FALSE, -1, -1) = C
         /\ AsTypeIsSelf(3, 3, FALSE) /\ ~AsTypeIsSelf(3, 3, TRUE) /\ ~AsTypeIsSelf(3, Int64T, FALSE)
         /\ HistSituations(C, <<<<"as_array", "same", TRUE>>>>) = {"PlaceholderIntoStoredDtype"}
         /\ HistSituations(C, <<<<"as_array", "str", FALSE>>, <<"as_array", "none", FALSE>>>>) = {"PlaceholderIntoOtherDtype", "AccessWithoutWrite"}
         /\ HistSituations(Col(Arr(StrT, <<<<"a">>>>), Some(<<1>>)), <<<<"as_array", "none", FALSE>>>>) = {"PlaceholderIntoStoredDtype"}
=============================================================================
