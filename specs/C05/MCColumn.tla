------------------------------- MODULE MCColumn -------------------------------
(* C05 exhaustive configuration for columns with histories: Init enumerates (column, history of read accesses),
   one Compute step evaluates the specification.  The driver builds the column, performs the accesses, and compares
   the column in memory and the column read back from a written file with `exp`. *)
EXTENDS BcifColumn

CONSTANTS HistLen,     \* longest history
          Rich         \* BOOLEAN: more columns

VARIABLES col, hist,   \* the case
          done,
          exp,         \* the column after the history (code-shaped model) = what a write must store
          outs,        \* one [oc, c] per operation: what the serialisation at that moment gives back ("none": nothing serialised)
          fin,         \* [oc, c]: the final write of the file holding the column
          sit          \* HistSituations(col, hist)
vars == <<col, hist, done, exp, outs, fin, sit>>

Data(t) == CASE t = 1 -> {<<-128, 127>>, <<5>>} \cup (IF Rich THEN {<<0, -1, 7>>} ELSE {})
             [] t = 2 -> {<<300, -300>>}
             [] t = 3 -> {<<11, -70000>>, <<5>>} \cup (IF Rich THEN {<<-1, -1, 40000>>} ELSE {})
             [] t \in FloatTypes -> {<<Fin(1572864), Fin(-262144)>>, <<Fin(524288)>>}
                                    \cup (IF Rich THEN {<<Fin(-Scale), Fin(0), Whole(3000000)>>} ELSE {})
             [] OTHER -> {<< <<"a", "b">>, <<>> >>, << <<"a">> >>} \cup (IF Rich THEN {<< <<"-">>, <<".">>, <<"u1">> >>} ELSE {})
Types == {1, 3, 32, 33, StrT} \cup (IF Rich THEN {2} ELSE {})
Masks(n) == {None} \cup {Some(m) : m \in IF n = 1 THEN {<<0>>, <<1>>, <<2>>}
                                         ELSE IF n = 2 THEN {<<0, 1>>, <<2, 0>>, <<1, 2>>, <<0, 0>>}
                                         ELSE {<<0, 1, 2>>, <<2, 2, 0>>, <<0, 0, 0>>}}
\* every history of read accesses and write operations up to the bound; at length 3 (thorough) the histories that
\* consist of read accesses only or have a write operation in the middle (something before it, something after it)
Hists == UNION {[1..k -> Ops] : k \in 0..(IF HistLen > 2 THEN 2 ELSE HistLen)}
         \cup (IF HistLen > 2 THEN [1..3 -> ReadOps] \cup {h \in [1..3 -> Ops] : h[2] \in WriteOps} ELSE {})

Init == /\ \E t \in Types : \E v \in Data(t) : \E m \in Masks(Len(v)) : col = Col(Arr(t, v), m)
        /\ hist \in Hists
        /\ done = FALSE /\ exp = col /\ outs = <<>> /\ fin = Out("none", col) /\ sit = {}
Compute ==
  /\ ~done /\ done' = TRUE
  /\ LET F == Final(col, None, hist) IN
       /\ exp' = After(col, hist)
       /\ outs' = SubSeq(F.outs, 1, Len(hist))
       /\ fin' = F.outs[Len(hist) + 1]
       /\ sit' = HistSituations(col, hist)
  /\ UNCHANGED <<col, hist>>
Next == Compute
Spec == Init /\ [][Next]_vars

\* no read access changes the column: the content is what the caller built and wrote into it
InvReadOnly == done => exp = Written(col, hist)
\* every serialisation gives back the content of its moment (declaratively: the write operations before it applied
\* to what was built), or is refused - only a string column that was serialised before and whose data were written
\* since; operations that serialise nothing give nothing
SerOut(o, k) ==
  \/ o.oc \in {"ok", "values"} /\ o.c = Written(col, SubSeq(hist, 1, k))
  \/ /\ o.oc = "Rejected" /\ col.d.t = StrT
     /\ \E i \in 1..k : \E j \in (i + 1)..k : hist[i][1] \in {"serialize", "write"} /\ hist[j][1] = "set_data"
InvOuts == done => /\ Len(outs) = Len(hist)
                   /\ \A k \in DOMAIN hist : IF hist[k][1] \in SerOps THEN SerOut(outs[k], k - 1) /\ (outs[k].oc = "values" <=> hist[k][1] = "compress")
                                                ELSE outs[k].oc = "none"
                   /\ SerOut(fin, Len(hist))
                   /\ (col.d.t # StrT => fin.oc = "ok")
InvDomain == Dom_Col(col) /\ Dom_Hist(hist)
\* ... and the model would notice an access that writes into the stored array
ASSUME LET C == Col(Arr(3, <<11, 22, 33>>), Some(<<0, 1, 2>>)) IN
         /\ Poke(C, TRUE, -1, -1).d.v = <<11, -1, -1>> /\ Poke(C, FALSE, -1, -1) = C
         /\ AsTypeIsSelf(3, 3, FALSE) /\ ~AsTypeIsSelf(3, 3, TRUE) /\ ~AsTypeIsSelf(3, Int64T, FALSE)
         /\ HistSituations(C, <<<<"as_array", "same", TRUE>>>>) = {"PlaceholderIntoStoredDtype"}
         /\ HistSituations(C, <<<<"as_array", "str", FALSE>>, <<"as_array", "none", FALSE>>>>) = {"PlaceholderIntoOtherDtype", "AccessWithoutWrite"}
         /\ HistSituations(Col(Arr(StrT, <<<<"a">>>>), Some(<<1>>)), <<<<"as_array", "none", FALSE>>>>) = {"PlaceholderIntoStoredDtype"}
\* the write operations, and the serialisations that follow them
ASSUME LET C == Col(Arr(3, <<11, 22, 33>>), Some(<<0, 1, 2>>))
           S == Col(Arr(StrT, << <<"a", "b">>, <<>> >>), None)
           sd == <<"set_data", "none", FALSE>>  sa == <<"set_data", "none", TRUE>>  sm == <<"set_mask", "none", TRUE>>
           ser == <<"serialize", "none", FALSE>>  wr == <<"write", "none", FALSE>>  cp == <<"compress", "none", FALSE>>
       IN /\ After(C, <<sd>>).d.v = <<11, 22, 34>> /\ After(C, <<sa, sm>>) = Col(Arr(3, <<12, 23, 34>>), Some(<<1, 2, 0>>))
          /\ After(C, <<<<"assign", "none", FALSE>>>>) = After(C, <<sa, sm>>)
          /\ Bump(1, 127) = 126 /\ Bump(33, Fin(0)) = Fin(Scale) /\ Bump(33, Fin(-524288)) = Fin(524288) /\ Bump(32, PInf) = NInf
          /\ After(S, <<sa>>).d.v = << <<"c", "b">>, <<"c">> >> /\ After(S, <<sa, sa>>).d.v = << <<"a", "b">>, <<"a">> >>
          /\ Final(C, None, <<ser, sd>>).outs[3] = Out("ok", After(C, <<sd>>))
          /\ HistSituations(C, <<ser, sd>>) = {"AccessWithoutWrite", "DataWrittenBetweenSerialisations"}
          /\ Final(S, None, <<wr, sd>>).outs[3].oc = "Rejected" /\ Final(S, None, <<cp, sd>>).outs[3].oc = "ok" /\ Final(S, None, <<cp, sd>>).outs[1] = Out("values", S)
          /\ Final(S, None, <<wr, sd, <<"assign", "none", FALSE>>>>).outs[4].oc = "ok"
          /\ Final(S, None, <<wr, sa, sa>>).outs[4].oc = "Rejected"
          /\ LET T == Col(Arr(StrT, << <<"a">> >>), None) IN Final(T, None, <<wr, sa, sa>>).outs[4] = Out("ok", T)
=============================================================================
