------------------------------- MODULE GffOps -------------------------------
(* C12 / GFF3: biotite.sequence.io.gff.GFFFile as a list of entries.

     lines : the text
     ent   : entry index -> 0-based line index (comment, directive and blank lines skipped)
     dirs  : <<directive text, line index>> in the order the class keeps them
     fasta : TRUE once a "##FASTA" directive was indexed (appending is refused then)

   An entry value is the 9-column tuple
     <<seqid, source, type, start, end, score, strand, phase, attrs>>
   with strings as character sequences, score None or <<n>> meaning n/2 (n >= 0, so that the
   float is exact and its text is d.0 / d.5), strand one of "+", "-", ".", phase None or <<p>>,
   attrs an ordered dictionary key -> value.

   X_CreateLine / X_ParseLine are shaped like _create_line / __getitem__ (percent quoting with
   urllib.parse.quote / unquote, tab separated columns, line.strip() before splitting). *)
EXTENDS Text

(* ---------------------------------------------------------------- percent quoting *)
\* urllib.parse.quote(s, safe=_NOT_QUOTED): letters, digits, "_.-~" and every punctuation
\* character except  % ; = & ,  stay; everything else (control characters incl. tab and
\* line break, and those five) becomes %XX with upper-case hex digits.  ASCII only.
IsSafe(c) == c >= 32 /\ c <= 126 /\ c \notin {PCT, SEMI, EQ, AMP, COMMA}
HexDigit(v) == IF v < 10 THEN 48 + v ELSE 55 + v
IsHex(c) == IsDigit(c) \/ (c >= 65 /\ c <= 70) \/ (c >= 97 /\ c <= 102)
HexVal(c) == IF IsDigit(c) THEN c - 48 ELSE IF c >= 97 THEN c - 87 ELSE c - 55
Quote(s) ==
  FlattenSeq([k \in 1..Len(s) |->
     IF IsSafe(s[k]) THEN <<s[k]>> ELSE <<PCT, HexDigit(s[k] \div 16), HexDigit(s[k] % 16)>>])
\* urllib.parse.unquote: %XX with two hex digits is decoded, any other '%' stays
Unquote(s) ==
  LET step(acc, k) ==
        IF acc.skip > 0 THEN [acc EXCEPT !.skip = @ - 1]
        ELSE IF s[k] = PCT /\ k + 2 <= Len(s) /\ IsHex(s[k + 1]) /\ IsHex(s[k + 2])
          THEN [out |-> Append(acc.out, 16 * HexVal(s[k + 1]) + HexVal(s[k + 2])), skip |-> 2]
          ELSE [acc EXCEPT !.out = Append(@, s[k])]
  IN FoldLeft(step, [out |-> <<>>, skip |-> 0], [k \in 1..Len(s) |-> k]).out

(* ---------------------------------------------------------------- domain *)
Dom_Ascii(s)  == \A k \in 1..Len(s) : s[k] >= 9 /\ s[k] <= 126
\* seqid / source: stripped, non-empty ASCII strings (the writer strips them; control
\* characters inside are percent-quoted, so even a line break is carried)
Dom_Col(s)    == s # <<>> /\ IsStripped(s) /\ Dom_Ascii(s)
\* the type column is written without quoting: a word
Dom_Type(s)   == s # <<>> /\ \A k \in 1..Len(s) : IsAlnum(s[k]) \/ s[k] \in {USCORE, MINUS}
Dom_Attrs(at) == /\ DistinctKeys(at)
                 /\ \A k \in 1..Len(at) : Dom_Ascii(at[k][1]) /\ Dom_Ascii(at[k][2])
Dom_Entry(e) ==
  /\ Dom_Col(e[1]) /\ Dom_Col(e[2]) /\ Dom_Type(e[3])
  /\ (e[6] = None \/ e[6][1] >= 0) /\ e[7] \in {"+", "-", "."}
  /\ (e[8] = None \/ e[8][1] \in 0..2) /\ Dom_Attrs(e[9])

\* known defects (NOTES.md): C12-gff-trailing-blank, C12-gff-hash-seqid
KB_GffTrailingBlank(e) ==
  e[9] # <<>> /\ LET v == e[9][Len(e[9])][2] IN v # <<>> /\ v[Len(v)] = SP
KB_GffHashSeqid(e) == StripWs(e[1]) # <<>> /\ StripWs(e[1])[1] = HASH

(* ---------------------------------------------------------------- lines *)
ScoreText(sc) == IF sc = None THEN <<DOT>>
                 ELSE IntText(sc[1] \div 2) \o <<DOT, IF sc[1] % 2 = 1 THEN 53 ELSE 48>>
ScoreValue(t) == IF t = <<DOT>> THEN None
                 ELSE LET d == IndexOfCh(t, DOT) IN
                      Some(2 * NatValue(SubSeq(t, 1, d - 1)) + (IF t[d + 1] = 53 THEN 1 ELSE 0))
StrandCh(s) == IF s = "+" THEN PLUS ELSE IF s = "-" THEN MINUS ELSE DOT
StrandOf(t) == IF t = <<PLUS>> THEN "+" ELSE IF t = <<MINUS>> THEN "-" ELSE "."

AttrText(at) ==
  IF at = <<>> THEN <<DOT>>
  ELSE Join([k \in 1..Len(at) |-> Quote(at[k][1]) \o <<EQ>> \o Quote(at[k][2])], <<SEMI>>)

\* _create_line: [ok |-> the checks passed, line |-> the text]
X_CreateLine(e) ==
  LET seqid == Quote(StripWs(e[1]))  source == Quote(StripWs(e[2]))  type == StripWs(e[3]) IN
  \* the class refuses a leading '>' only; a leading '#' would turn the line into a comment
  \* (KB_GffHashSeqid), so the specified writer refuses it as well
  IF seqid = <<>> \/ source = <<>> \/ type = <<>> \/ seqid[1] \in {GT, HASH}
    THEN [ok |-> FALSE, line |-> <<>>]
    ELSE [ok |-> TRUE,
          line |-> Join(<<seqid, source, type, IntText(e[4]), IntText(e[5]), ScoreText(e[6]),
                          <<StrandCh(e[7])>>, IF e[8] = None THEN <<DOT>> ELSE IntText(e[8][1]),
                          AttrText(e[9])>>, <<TAB>>)]

\* _parse_attributes
X_ParseAttrs(t) ==
  IF t = <<DOT>> THEN [ok |-> TRUE, at |-> <<>>]
  ELSE LET es == SplitOn(t, SEMI)
           cs == [k \in 1..Len(es) |-> SplitOn(es[k], EQ)] IN
       IF \E k \in 1..Len(cs) : Len(cs[k]) # 2 THEN [ok |-> FALSE, at |-> <<>>]
       ELSE [ok |-> TRUE,
             at |-> OdFromList([k \in 1..Len(cs) |-> <<Unquote(cs[k][1]), Unquote(cs[k][2])>>])]

\* __getitem__ on one line
X_ParseLine(line) ==
  LET s == SplitOn(StripWs(line), TAB) IN
  IF Len(s) # 9 THEN [ok |-> FALSE, e |-> <<>>]
  ELSE LET pa == X_ParseAttrs(s[9]) IN
       IF ~pa.ok \/ ~IsIntText(s[4]) \/ ~IsIntText(s[5]) THEN [ok |-> FALSE, e |-> <<>>]
       ELSE [ok |-> TRUE,
             e |-> <<Unquote(s[1]), Unquote(s[2]), Unquote(s[3]), IntValue(s[4]), IntValue(s[5]),
                     ScoreValue(s[6]), StrandOf(s[7]),
                     IF s[8] = <<DOT>> THEN None ELSE Some(IntValue(s[8])), pa.at>>]

(* ---------------------------------------------------------------- the index *)
S_FASTA == <<70, 65, 83, 84, 65>>
\* _index_entries
X_Reindex(lines) ==
  LET step(acc, k) ==
        LET l == lines[k] IN
        IF acc.fasta \/ l = <<>> \/ l[1] = SP THEN acc
        ELSE IF l[1] = HASH THEN
               IF Len(l) >= 2 /\ l[2] = HASH
                 THEN [acc EXCEPT !.dirs = Append(@, <<Drop(l, 2), k - 1>>),
                                  !.fasta = (Drop(l, 2) = S_FASTA)]
                 ELSE acc
        ELSE [acc EXCEPT !.ent = Append(@, k - 1)]
  IN FoldLeft(step, [ent |-> <<>>, dirs |-> <<>>, fasta |-> FALSE], [k \in 1..Len(lines) |-> k])

Mk(lines, ix) == [lines |-> lines, ent |-> ix.ent, dirs |-> ix.dirs, fasta |-> ix.fasta]
R(st, oc, out) == [st |-> st, oc |-> oc, out |-> out]

\* append_directive
X_AppendDirective(st, name, args) ==
  IF StartsWith(name, S_FASTA) THEN R(st, "Rejected", <<>>)       \* documented NotImplementedError
  ELSE LET l == <<HASH, HASH>> \o name \o <<SP>> \o Join(args, <<SP>>) IN
       R([st EXCEPT !.dirs = Append(@, <<Drop(l, 2), Len(st.lines)>>), !.lines = Append(@, l)], "ok", <<>>)

S_GFFVERSION == <<103, 102, 102, 45, 118, 101, 114, 115, 105, 111, 110>>
X_New == X_AppendDirective(Mk(<<>>, X_Reindex(<<>>)), S_GFFVERSION, <<<<51>>>>).st

X_Len(st) == Len(st.ent)
\* Python list index on ent
ListIdxOk(i, n) == i >= -n /\ i < n
ListPos(i, n)   == IF i < 0 THEN n + i + 1 ELSE i + 1          \* 1-based

X_Append(st, e) ==
  LET cl == X_CreateLine(e) IN
  IF st.fasta \/ ~cl.ok THEN R(st, "Rejected", <<>>)
  ELSE R([st EXCEPT !.lines = Append(@, cl.line), !.ent = Append(@, Len(st.lines))], "ok", <<>>)

X_Insert(st, i, e) ==
  IF i = X_Len(st) THEN X_Append(st, e)
  ELSE LET cl == X_CreateLine(e) IN
       IF ~ListIdxOk(i, X_Len(st)) \/ ~cl.ok THEN R(st, "Rejected", <<>>)
       ELSE LET li == st.ent[ListPos(i, X_Len(st))]
                ls == SubSeq(st.lines, 1, li) \o <<cl.line>> \o SubSeq(st.lines, li + 1, Len(st.lines))
            IN R(Mk(ls, X_Reindex(ls)), "ok", <<>>)

X_SetItem(st, i, e) ==
  LET cl == X_CreateLine(e) IN
  IF ~ListIdxOk(i, X_Len(st)) \/ ~cl.ok THEN R(st, "Rejected", <<>>)
  ELSE R([st EXCEPT !.lines[st.ent[ListPos(i, X_Len(st))] + 1] = cl.line], "ok", <<>>)

X_GetItem(st, i) ==
  IF ~ListIdxOk(i, X_Len(st)) THEN R(st, "Rejected", <<>>)
  ELSE LET p == X_ParseLine(st.lines[st.ent[ListPos(i, X_Len(st))] + 1]) IN
       IF p.ok THEN R(st, "ok", p.e) ELSE R(st, "Rejected", <<>>)

X_DelItem(st, i) ==
  IF ~ListIdxOk(i, X_Len(st)) THEN R(st, "Rejected", <<>>)
  ELSE LET li == st.ent[ListPos(i, X_Len(st))]
           ls == SubSeq(st.lines, 1, li) \o SubSeq(st.lines, li + 2, Len(st.lines))
       IN R(Mk(ls, X_Reindex(ls)), "ok", <<>>)

X_Read(raw) == R(Mk(raw, X_Reindex(raw)), "ok", <<>>)

\* the list view: iterating the file object; a line that cannot be parsed ends the view
\* with "bad" (the real iteration raises there)
X_View(st) == [k \in 1..Len(st.ent) |->
                 LET p == X_ParseLine(st.lines[st.ent[k] + 1]) IN IF p.ok THEN p.e ELSE <<"bad">>]
\* directives(): texts in line order
X_Directives(st) ==
  LET ord == SetToSortSeq(1..Len(st.dirs), LAMBDA a, b : st.dirs[a][2] < st.dirs[b][2])
  IN [k \in 1..Len(ord) |-> st.dirs[ord[k]]]

(* ---------------------------------------------------------------- declarative layer *)
\* the value an entry denotes (the writer strips the first three columns)
NormE(e) == <<StripWs(e[1]), StripWs(e[2]), StripWs(e[3]), e[4], e[5], e[6], e[7], e[8], e[9]>>
IdealInsert(m, i, e) ==
  IF i = Len(m) THEN Append(m, NormE(e))
  ELSE LET p == ListPos(i, Len(m)) IN SubSeq(m, 1, p - 1) \o <<NormE(e)>> \o SubSeq(m, p, Len(m))
IdealSetItem(m, i, e) == [m EXCEPT ![ListPos(i, Len(m))] = NormE(e)]
IdealDelItem(m, i) == LET p == ListPos(i, Len(m)) IN SubSeq(m, 1, p - 1) \o SubSeq(m, p + 1, Len(m))

X_Apply(st, op, a) ==
  CASE op = "new"       -> R(X_New, "ok", <<>>)
    [] op = "append"    -> X_Append(st, a[1])
    [] op = "insert"    -> X_Insert(st, a[1], a[2])
    [] op = "setitem"   -> X_SetItem(st, a[1], a[2])
    [] op = "delitem"   -> X_DelItem(st, a[1])
    [] op = "getitem"   -> X_GetItem(st, a[1])
    [] op = "directive" -> X_AppendDirective(st, a[1], a[2])
    [] op = "read"      -> X_Read(a[1])
    [] OTHER            -> R(st, "Rejected", <<>>)

IdealApply(m, op, a, oc) ==
  IF oc # "ok" THEN m
  ELSE CASE op = "new"     -> <<>>
         [] op = "append"  -> Append(m, NormE(a[1]))
         [] op = "insert"  -> IdealInsert(m, a[1], a[2])
         [] op = "setitem" -> IdealSetItem(m, a[1], a[2])
         [] op = "delitem" -> IdealDelItem(m, a[1])
         [] OTHER          -> m

ASSUME Quote(<<97, SEMI, 98, SP, TAB, PCT>>) = <<97, PCT, 51, 66, 98, SP, PCT, 48, 57, PCT, 50, 53>>
ASSUME Unquote(<<PCT, 51, 98, PCT, 90, PCT>>) = <<SEMI, PCT, 90, PCT>>
ASSUME X_New.lines = <<<<HASH, HASH>> \o S_GFFVERSION \o <<SP, 51>>>>
=============================================================================
