------------------------------- MODULE GbCodec -------------------------------
(* C12 / GenBank: exhaustive single-step check of the feature-table and ORIGIN codecs
   (GbFeature.tla).  Init enumerates the cases, r holds what the specification computes for
   the case; the dump of all states is the table the driver executes against the library. *)
EXTENDS GbFeature

CONSTANTS Positions,      \* positions used in locations
          MaxParts,       \* largest number of locations per feature
          PairPositions,  \* positions used in features with two locations
          QualValues,     \* qualifier values (None | <<string>>)
          OriginLens, OriginStarts

VARIABLES c, r
vars == <<c, r>>

Defects == {d \in SUBSET {"BL", "BR", "UNK", "BTW"} : ~({"UNK", "BTW"} \subseteq d)}
LocUniverse == {x \in {Loc(f, l, s, d) : f \in Positions, l \in Positions, s \in {"+", "-"}, d \in Defects} : Dom_Loc(x)}
\* all sets of 1..2 locations; for MaxParts = 3 also the triples of defect-free locations
\* pairs over the positions PairPositions (all of them in the thorough tier)
PairUniverse == {x \in LocUniverse : x.first \in PairPositions /\ x.last \in PairPositions}
Plain == {x \in PairUniverse : x.defect = {}}
LocSets == {{a} : a \in LocUniverse}
           \cup (IF MaxParts >= 2 THEN {{a, b} : a \in PairUniverse, b \in PairUniverse} ELSE {})
           \cup (IF MaxParts >= 3 THEN {{a, b, d} : a \in Plain, b \in Plain, d \in Plain} ELSE {})

S_gene == <<103, 101, 110, 101>>
S_note == <<110, 111, 116, 101>>
S_pseudo == <<112, 115, 101, 117, 100, 111>>
S_db == <<100, 98, 95, 120, 114, 101, 102>>
Quals == {<<>>}
         \cup {<<<<S_note, v>>>> : v \in QualValues}
         \cup {<<<<S_note, v>>, <<S_pseudo, w>>>> : v \in QualValues, w \in QualValues}
         \cup {<<<<S_pseudo, None>>, <<S_db, None>>, <<S_note, v>>>> : v \in QualValues}
QualLocs == {{Loc(1, 12, "+", {})}, {Loc(3, 4, "-", {"BL"}), Loc(7, 7, "+", {})}}

Alphabet(kind) == CASE kind = "nuc"  -> <<65, 67, 71, 84>>
                    [] kind = "amb"  -> <<65, 67, 71, 84, 78, 82, 89, 87, 83>>
                    [] kind = "prot" -> <<77, 75, 86, STAR, 65, 88, 66, 90, 87, 89, 70>>
Pattern(kind, n) == LET a == Alphabet(kind) IN [k \in 1..n |-> a[((k - 1) % Len(a)) + 1]]

\* whole tables: every subset of three features (the empty annotation included)
A_f1 == [key |-> S_gene, locs |-> {Loc(1, 12, "+", {})}, qual |-> <<<<S_note, Some(<<97, SP, 98>>)>>>>]
A_f2 == [key |-> <<67, 68, 83>>, locs |-> {Loc(3, 4, "-", {"BL"}), Loc(7, 9, "-", {})}, qual |-> <<<<S_pseudo, None>>, <<S_note, Some(<<120>>)>>>>]
A_f3 == [key |-> S_gene, locs |-> {Loc(1, 12, "+", {})}, qual |-> <<>>]
AnnotCases == SUBSET {A_f1, A_f2, A_f3}

Cases ==    {<<"loc", x>> : x \in LocSets}
       \cup {<<"annot", fs>> : fs \in AnnotCases}
       \cup {<<"feat", <<ls, q>>>> : ls \in QualLocs, q \in Quals}
       \cup {<<"origin", <<kind, n, st>>>> : kind \in {"nuc", "amb", "prot"}, n \in OriginLens, st \in OriginStarts}

Order(S) == SetToSeq(S)        \* some iteration order of a location set
KBs(locs, qual) ==
  (IF KB_GbSingleBaseBeyondRight(locs) THEN {"C12-gb-single-base-beyond-right"} ELSE {})
  \cup (IF KB_GbOnlyValuelessQualifiers(qual) THEN {"C12-gb-only-valueless-qualifiers"} ELSE {})

FeatsOf(lines) == LET fs == ReadFeatures(lines) IN {FeatVal(fs[k]) : k \in 1..Len(fs)}

Compute(cs) ==
  CASE cs[1] = "loc" ->
         LET x == cs[2]  lines == WriteFeature(S_gene, Order(x), <<>>) IN
         [want |-> {FeatVal([key |-> S_gene, locs |-> x, qual |-> <<>>])},
          text |-> lines, back |-> FeatsOf(lines), kb |-> KBs(x, <<>>), ref |-> RefWriteLocs(x)]
    [] cs[1] = "feat" ->
         LET x == cs[2][1]  q == cs[2][2]  lines == WriteFeature(S_gene, Order(x), q) IN
         [want |-> {FeatVal([key |-> S_gene, locs |-> x, qual |-> q])},
          text |-> lines, back |-> FeatsOf(lines), kb |-> KBs(x, q), ref |-> {}]
    [] cs[1] = "annot" ->
         LET fs == SetToSeq(cs[2])
             lines == FlattenSeq([k \in 1..Len(fs) |-> WriteFeature(fs[k].key, Order(fs[k].locs), fs[k].qual)]) IN
         [want |-> {FeatVal(f) : f \in cs[2]}, text |-> lines,
          back |-> IF ReadFeaturesOc(lines) = "ok" THEN FeatsOf(lines) ELSE {<<"Rejected">>},
          kb |-> IF KB_GbEmptyAnnotation(cs[2]) THEN {"C12-gb-empty-annotation"} ELSE {}, ref |-> {}]
    [] cs[1] = "origin" ->
         LET s == Pattern(cs[2][1], cs[2][2])  lines == WriteOrigin(s, cs[2][3])  ro == ReadOrigin(lines) IN
         [want |-> {<<s, cs[2][3]>>}, text |-> lines, back |-> {<<ro.seq, ro.start>>}, kb |-> {}, ref |-> {}]

Init == c \in Cases /\ r = Compute(c)
Next == UNCHANGED vars
Spec == Init /\ [][Next]_vars

(* ---------------------------------------------------------------- model values *)
PositionsQuick == {1, 2, 12}
PositionsThorough == {-2, 1, 2, 3, 12}
PairPositionsQuick == {1, 12}
PairPositionsThorough == {-2, 1, 2, 12}
V(s) == Some(s)
QualValuesQuick == {None, V(<<>>), V(<<97>>), V(<<97, SP, 98>>), V(<<SP, 97, SP>>), V(<<SLASH>>), V(<<EQ>>),
                    V(<<SLASH, 97, EQ, 98>>), V(<<97, NL, 98>>), V(<<120, SLASH, 121, EQ, 122, SP, 119>>)}
QualValuesThorough == QualValuesQuick \cup {V(<<SP>>), V(<<97, NL>>), V(<<SLASH, SLASH, EQ, EQ>>), V(<<EQ, SLASH>>),
                                             V(<<39, 97, 39>>), V(<<97, SP, SLASH, 98, EQ>>)}
OriginLensQuick == {1, 9, 10, 11, 59, 60, 61, 121}
OriginLensThorough == {1, 2, 9, 10, 11, 19, 20, 21, 59, 60, 61, 69, 70, 71, 119, 120, 121, 180, 181}
OriginStartsQuick == {1, 5, 61}
OriginStartsThorough == {1, 5, 61, 99999, 1234567}

(* ---------------------------------------------------------------- properties *)
IsLoc == c[1] = "loc"
\* a correct codec exists: every encoding the grammar allows is read back as the location set
InvCodecExists ==
  IsLoc => \A t \in RefWriteLocs(c[2]) : LET p == ParseLocs(t) IN p.ok /\ ToSet(p.locs) = c[2]
\* the writer (in any iteration order) produces one of the grammar's encodings, or the input is known-bad
InvWriterInGrammar ==
  IsLoc => \A p \in Perms(c[2]) : ImplWriteLocs(p) \in RefWriteLocs(c[2]) \/ KB_GbSingleBaseBeyondRight(c[2])
\* writer followed by reader is the identity, in any iteration order, or the input is known-bad ...
InvRoundTrip ==
  /\ IsLoc => \A p \in Perms(c[2]) :
        LET b == ParseLocs(ImplWriteLocs(p)) IN
        (b.ok /\ ToSet(b.locs) = c[2]) \/ KB_GbSingleBaseBeyondRight(c[2])
  /\ (r.back = r.want) \/ r.kb # {}
\* ... and the known-bad predicates are exact: on those inputs the round trip does fail
InvKnownBadExact == r.kb # {} => r.back # r.want
\* the ORIGIN block as written is the block as defined
InvOrigin == c[1] = "origin" => WriteOrigin(Pattern(c[2][1], c[2][2]), c[2][3]) = OriginDecl(Pattern(c[2][1], c[2][2]), c[2][3])
InvDomain ==
  /\ c[1] = "annot" => \A f \in c[2] : Dom_Feature(f)
  /\ c[1] \in {"loc", "feat"} => Dom_Feature([key |-> S_gene, locs |-> IF IsLoc THEN c[2] ELSE c[2][1],
                                               qual |-> IF IsLoc THEN <<>> ELSE c[2][2]])
  /\ c[1] = "origin" => Dom_Origin(Pattern(c[2][1], c[2][2]), c[2][3])
=============================================================================
