------------------------------- MODULE GffAnnot -------------------------------
(* C12 / GFF3: the annotation converters gff.set_annotation / gff.get_annotation on top of
   the entry list (GffOps).

   A GFF feature is [key, locs, qual]: locs a set of [first, last, strand \in {"+","-"}]
   (GFF3 cannot express location defects), qual an ordered dictionary key -> None | <<value>>. *)
EXTENDS GffOps

S_ID == <<73, 68>>
S_CDS == <<67, 68, 83>>
S_DOTCOL == <<DOT>>

(* ---------------------------------------------------------------- annotation converters *)
GLoc(f, l, s) == [first |-> f, last |-> l, strand |-> s]
Dom_GffFeature(f) ==
  /\ Dom_Type(f.key) /\ f.locs # {} /\ (\A x \in f.locs : x.first <= x.last /\ x.strand \in {"+", "-"})
  /\ DistinctKeys(f.qual)
  /\ \A k \in 1..Len(f.qual) : Dom_Ascii(f.qual[k][1]) /\ (f.qual[k][2] # None => Dom_Ascii(f.qual[k][2][1]))
IdOf(f) == IF OdHas(f.qual, S_ID) THEN OdGet(f.qual, S_ID) ELSE None
\* features with several locations need an ID; two features must not share an ID (entries
\* with the same ID *are* one feature in GFF3); GFF3 has no value-less attributes
Dom_GffAnnot(fs) ==
  /\ \A f \in fs : Dom_GffFeature(f) /\ (Cardinality(f.locs) > 1 => IdOf(f) # None)
                   /\ \A k \in 1..Len(f.qual) : f.qual[k][2] # None
  /\ \A f, g \in fs : (f # g /\ IdOf(f) # None) => IdOf(f) # IdOf(g)

\* stable sort of a sequence of locations by first (ascending, or descending with reverse=True;
\* Python keeps the original order of equal keys in both cases)
SortByFirst(ls, rev) ==
  LET lessEq(i, j) == IF ls[i].first = ls[j].first THEN i < j
                      ELSE IF rev THEN ls[i].first > ls[j].first ELSE ls[i].first < ls[j].first
      ord == SetToSortSeq(1..Len(ls), lessEq)
  IN [k \in 1..Len(ls) |-> ls[ord[k]]]

\* set_annotation for one feature, locations in iteration order ls: the entries, or "Rejected"
A_FeatureEntries(f, ls, seqid, source) ==
  IF Len(ls) > 1 /\ ~OdHas(f.qual, S_ID) THEN [ok |-> FALSE, es |-> <<>>]      \* documented ValueError
  ELSE IF \E k \in 1..Len(f.qual) : f.qual[k][2] = None THEN [ok |-> FALSE, es |-> <<>>]   \* quote(None)
  ELSE
    LET sl == SortByFirst(ls, ls[1].strand = "-")
        attrs == [k \in 1..Len(f.qual) |-> <<f.qual[k][1], f.qual[k][2][1]>>]
        \* phase of the k-th written location of a CDS
        phase(k) == FoldLeft(LAMBDA ph, j : (ph - (sl[j].last - sl[j].first + 1)) % 3, 0, [j \in 1..(k - 1) |-> j])
    IN [ok |-> TRUE,
        es |-> [k \in 1..Len(sl) |->
                  <<seqid, source, f.key, sl[k].first, sl[k].last, None, sl[k].strand,
                    IF f.key = S_CDS THEN Some(phase(k)) ELSE None, attrs>>]]

\* get_annotation over the entries of a file: consecutive entries with the same ID are one feature
A_Read(es) ==
  LET step(acc, e) ==
        LET id == IF OdHas(e[9], S_ID) THEN Some(OdGet(e[9], S_ID)) ELSE None
            loc == GLoc(e[4], e[5], e[7]) IN
        IF id # acc.id \/ id = None
          THEN [fs |-> IF acc.cur = None THEN acc.fs ELSE Append(acc.fs, acc.cur[1]),
                cur |-> Some([key |-> e[3], locs |-> {loc}, qual |-> e[9]]), id |-> id]
          ELSE [acc EXCEPT !.cur = Some([@[1] EXCEPT !.locs = @ \cup {loc}])]
      fin == FoldLeft(step, [fs |-> <<>>, cur |-> None, id |-> None], es)
  IN IF fin.cur = None THEN fin.fs ELSE Append(fin.fs, fin.cur[1])

GFeatVal(f) == <<f.key, f.locs, {<<f.qual[k][1], f.qual[k][2]>> : k \in 1..Len(f.qual)}>>
\* value of a feature as read back: attribute values are plain strings
GFeatValRead(f) == <<f.key, f.locs, {<<f.qual[k][1], Some(f.qual[k][2])>> : k \in 1..Len(f.qual)}>>

Perms(S) == {p \in [1..Cardinality(S) -> S] : \A i, j \in 1..Cardinality(S) : p[i] = p[j] => i = j}
\* all ways set_annotation may order the features and each feature's locations
\* (sorted() of a set with a partial order, iteration of a frozenset)
RECURSIVE Picks(_)
Picks(sets) == IF sets = <<>> THEN {<<>>} ELSE {<<h>> \o t : h \in sets[1], t \in Picks(Tail(sets))}
Writings(fs) ==
  {[k \in 1..Len(p) |-> <<p[k], lo[k]>>] : p \in Perms(fs), lo \in UNION {Picks([k \in 1..Len(q) |-> Perms(q[k].locs)]) : q \in Perms(fs)}}

\* lines of one writing; "Rejected" as soon as one feature is refused
A_WriteLines(w) ==
  LET fe == [k \in 1..Len(w) |-> A_FeatureEntries(w[k][1], w[k][2], S_DOTCOL, S_DOTCOL)] IN
  IF \E k \in 1..Len(fe) : ~fe[k].ok THEN [ok |-> FALSE, lines |-> <<>>]
  ELSE LET es == FlattenSeq([k \in 1..Len(fe) |-> fe[k].es]) IN
       [ok |-> TRUE, lines |-> [k \in 1..Len(es) |-> X_CreateLine(es[k]).line]]
A_Back(lines) ==
  LET es == [k \in 1..Len(lines) |-> X_ParseLine(lines[k]).e]
      fs == A_Read(es) IN {GFeatValRead(fs[k]) : k \in 1..Len(fs)}
\* a writing whose location orders belong to its own features
Consistent(w) == \A k \in 1..Len(w) : ToSet(w[k][2]) = w[k][1].locs
SomeWriting(fs) == CHOOSE w \in Writings(fs) : Consistent(w)

=============================================================================
