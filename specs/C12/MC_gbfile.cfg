SPECIFICATION Spec
CONSTANTS
  Fields <- FieldsQuick
  Names <- NamesQuick
  MaxLen = 3
  Depth = 100
CONSTRAINT DepthBound
INVARIANT InvIndex
INVARIANT InvReread
INVARIANT InvView
INVARIANT InvTerminated
INVARIANT InvTiling
INVARIANT InvIndices
PROPERTY RefusalIsNoOp
CHECK_DEADLOCK FALSE
