SPECIFICATION Spec
CONSTANTS
  Idents <- IdentsQuick
  Values <- ValuesQuick
  Cfgs <- CfgsQuick
  Depth = 100
CONSTRAINT DepthBound
INVARIANT InvIndex
INVARIANT InvView
INVARIANT InvMeaning
INVARIANT InvReread
INVARIANT InvBlocks
PROPERTY RefusalIsNoOp
CHECK_DEADLOCK FALSE
