------------------------------- MODULE GbFile -------------------------------
(* C12 / GenBank: exhaustive edit-history machine of the field list (GbFileOps). *)
EXTENDS GbFileOps

CONSTANTS Fields,      \* field values <<name, content, sub>> used as arguments
          Names,       \* names asked for in get_indices
          MaxLen,      \* largest number of fields explored
          Depth

VARIABLES lines, fpos, ideal, oc, out, alt
vars == <<lines, fpos, ideal, oc, out, alt>>
Cur == [lines |-> lines, fpos |-> fpos]

IdxRange == (-MaxLen - 1)..(MaxLen + 1)

AllCalls ==    {<<"insert", <<i, f>>>> : i \in IdxRange, f \in Fields}
          \cup {<<"append", <<f>>>> : f \in Fields}
          \cup {<<"setitem", <<i, f>>>> : i \in IdxRange, f \in Fields}
          \cup {<<"delitem", <<i>>>> : i \in IdxRange}
          \cup {<<"getitem", <<i>>>> : i \in IdxRange}
          \cup {<<"set_field", <<f>>>> : f \in Fields}
          \cup {<<"indices", <<nm>>>> : nm \in Names}

\* insert with an index below -len is refused by the specification (the class means to check
\* index boundaries); clamping to the front like list.insert would be equally consistent:
\* alt is the list view of that alternative (None otherwise)
AltView(op, a) ==
  IF op = "insert" /\ KB_GbIndexBelow(a[1], Len(ideal)) /\ NameOk(a[2]) /\ Len(ideal) < MaxLen
    THEN Some(IdealInsert(ideal, -Len(ideal), a[2])) ELSE None

Call(c) ==
  LET r == G_Apply(Cur, c[1], c[2]) IN
  /\ Len(r.st.fpos) <= MaxLen
  /\ lines' = r.st.lines /\ fpos' = r.st.fpos
  /\ ideal' = IdealApply(ideal, c[1], c[2], r.oc)
  /\ oc' = r.oc /\ out' = r.out /\ alt' = AltView(c[1], c[2])

Init == lines = G_New.lines /\ fpos = G_New.fpos /\ ideal = <<>> /\ oc = "ok" /\ out = <<>> /\ alt = None
Next == \E c \in AllCalls : Call(c)
Spec == Init /\ [][Next]_vars
DepthBound == TLCGet("level") <= Depth

(* ---------------------------------------------------------------- model values *)
T(str) == str
F_A    == <<<<65>>, <<<<120>>>>, <<>>>>                                  \* A: ["x"]
F_b    == <<<<98>>, <<<<121>>, <<>>>>, <<<<<<115>>, <<<<117>>>>>>>>>>    \* b: ["y", ""], {s: ["u"]}
F_A2   == <<<<65>>, <<<<120, SP, 121>>>>,                                 \* A: ["x y"], {S1: ["u","v"], T: ["w"]}
           <<<<<<83, 49>>, <<<<117>>, <<118>>>>>>, <<<<84>>, <<<<119>>>>>>>>>>
F_FEAT == <<S_FEATURES, <<<<SP, 103>>, <<SP, SP, SLASH, 97>>>>, <<>>>>   \* FEATURES: [" g", "  /a"]
F_ORI  == <<<<111, 114, 105, 103, 105, 110>>, <<>>, <<>>>>               \* origin: []
F_LONG == <<<<76, 79, 78, 71, 70, 73, 69, 76, 68, 78, 65, 77>>, <<<<122>>>>, <<>>>>   \* 12-character name
F_BAD  == <<<<SP>>, <<<<120>>>>, <<>>>>                                   \* blank name: refused
FieldsQuick    == {F_A, F_b, F_FEAT, F_BAD}
FieldsThorough == {F_b, F_A2, F_FEAT, F_ORI, F_LONG, F_BAD}
NamesQuick     == {<<65>>, <<97>>, <<66>>, S_FEATURES}

ASSUME \A f \in FieldsThorough \ {F_BAD} : Dom_Field(f)

(* ---------------------------------------------------------------- properties *)
\* the shifted index is what a full re-scan of the text gives ...
InvIndex == fpos = G_Reindex(lines)
\* ... so re-reading the written text gives the same list of fields
InvReread == G_View(G_Read(lines).st) = ideal
\* the live list view is the list of (normalised) fields the edits denote
InvView == G_View(Cur) = ideal
InvTerminated == lines # <<>> /\ lines[Len(lines)] = S_TERM
\* field blocks tile the text before the terminator
InvTiling ==
  /\ \A k \in 1..Len(fpos) : fpos[k][1] < fpos[k][2]
  /\ \A k \in 1..(Len(fpos) - 1) : fpos[k][2] = fpos[k + 1][1]
  /\ (fpos # <<>> => fpos[1][1] = 0 /\ fpos[Len(fpos)][2] = Len(lines) - 1)
RefusalIsNoOp == [][oc' # "ok" => (lines' = lines /\ fpos' = fpos /\ ideal' = ideal)]_vars
InvIndices == \A nm \in Names : G_GetIndices(Cur, nm) = IdealIndices(ideal, nm)
=============================================================================
