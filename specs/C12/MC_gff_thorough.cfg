SPECIFICATION Spec
CONSTANTS
  Entries <- EntriesThorough
  Directives <- DirectivesThorough
  Texts <- TextsQuick
  MaxLen = 3
  MaxDirs = 2
  Depth = 5
CONSTRAINT DepthBound
INVARIANT InvIndex
INVARIANT InvView
INVARIANT InvReread
INVARIANT InvLines
PROPERTY RefusalIsNoOp
CHECK_DEADLOCK FALSE
