SPECIFICATION Spec
CONSTANTS
  Entries <- EntriesThorough
  Directives <- DirectivesThorough
  Texts <- TextsQuick
  MaxLen = 2
  MaxDirs = 3
  Depth = 7
CONSTRAINT DepthBound
INVARIANT InvIndex
INVARIANT InvView
INVARIANT InvReread
INVARIANT InvLines
PROPERTY RefusalIsNoOp
CHECK_DEADLOCK FALSE
