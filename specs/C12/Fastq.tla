------------------------------- MODULE Fastq -------------------------------
(* C12 / FASTQ: exhaustive edit-history machine over FastqOps. *)
EXTENDS FastqOps

CONSTANTS Idents, Values, Cfgs, Depth
\* Values: set of <<sequence, score string (characters)>>; Cfgs: set of <<offset, cpl>>

VARIABLES lines, ent, cpl, off, ideal, oc, out
vars == <<lines, ent, cpl, off, ideal, oc, out>>
Cur == [lines |-> lines, ent |-> ent, cpl |-> cpl, off |-> off]

\* values are given by their score *characters* so that '@' and '+' appear for every offset
ValueFor(v, o) == <<v[1], ScoresOf(v[2], o)>>

AllCalls ==    {<<o, "set", <<h, v[1], ScoresOf(v[2], o)>>>> : h \in Idents, v \in Values, o \in {c[1] : c \in Cfgs}}
          \cup {<<o, "del", <<h>>>> : h \in Idents, o \in {c[1] : c \in Cfgs}}
          \cup {<<o, "get", <<h>>>> : h \in Idents, o \in {c[1] : c \in Cfgs}}

IdealAfter(op, a, r) ==
  IF r.oc # "ok" THEN ideal
  ELSE CASE op = "set" -> IdealSet(ideal, a[1], <<a[2], a[3]>>)
         [] op = "del" -> IdealDel(ideal, a[1])
         [] OTHER      -> ideal

Call(c) ==
  /\ c[1] = off
  /\ LET r == Q_Apply(Cur, c[2], c[3]) IN
     /\ lines' = r.st.lines /\ ent' = r.st.ent /\ cpl' = cpl /\ off' = off
     /\ ideal' = IdealAfter(c[2], c[3], r)
     /\ oc' = r.oc /\ out' = r.out

Init == /\ \E c \in Cfgs : off = c[1] /\ cpl = c[2]
        /\ lines = <<>> /\ ent = <<>> /\ ideal = <<>> /\ oc = "ok" /\ out = <<>>
Next == \E c \in AllCalls : Call(c)
Spec == Init /\ [][Next]_vars
DepthBound == TLCGet("level") <= Depth

(* ---------------------------------------------------------------- model values *)
IdentsQuick == {<<97>>, <<98, 32, 64>>, <<64, 99>>}       \* "a", "b @", "@c"
\* (sequence, score characters): '@' and '+' first on a line under every wrapping,
\* a length mismatch (refused), one- and several-line values
ValuesQuick == {<<<<65, 67, 71>>, <<AT, PLUS, AT>>>>,
                <<<<71, 65, 84, 84, 65>>, <<73, AT, PLUS, 73, AT>>>>,
                <<<<65, 67>>, <<73>>>>}
ValuesThorough == ValuesQuick \cup {<<<<65>>, <<AT>>>>,
                                    <<<<65, 67, 71, 84>>, <<PLUS, PLUS, AT, AT>>>>,
                                    <<<<84, 84, 84, 84, 84, 84, 84>>, <<AT, 73, AT, 73, PLUS, 73, AT>>>>}
CfgsQuick == {<<33, 2>>, <<64, 0>>}
CfgsThorough == {<<33, 0>>, <<33, 1>>, <<64, 3>>}

(* ---------------------------------------------------------------- properties *)
InvIndex ==
  LET sc == Q_Scan(lines) IN sc.ok /\ ent = sc.ent
InvView == Q_View(Cur) = ideal
InvMeaning ==
  LET r == Q_ReadIter(lines, off) IN r.ok /\ r.items = ideal
InvReread ==
  LET r == Q_Read(lines, off, cpl) IN
  IF ideal = <<>> THEN r.oc = "Rejected" ELSE r.oc = "ok" /\ Q_View(r.st) = ideal
\* each entry's lines form a block of the declarative grammar
InvBlocks ==
  \A k \in 1..Len(ent) :
    Q_IsBlock(SubSeq(lines, ent[k][2][1], ent[k][2][4]), ideal[k][1], ideal[k][2][1],
              ScoreStr(ideal[k][2][2], off))
RefusalIsNoOp == [][oc' # "ok" => (lines' = lines /\ ent' = ent /\ ideal' = ideal)]_vars
=============================================================================
