SPECIFICATION Spec
CONSTANTS
  Idents <- IdentsQuick
  Values <- ValuesThorough
  Cfgs <- CfgsThorough
  Depth = 100
CONSTRAINT DepthBound
INVARIANT InvIndex
INVARIANT InvView
INVARIANT InvMeaning
INVARIANT InvReread
INVARIANT InvBlocks
PROPERTY RefusalIsNoOp
CHECK_DEADLOCK FALSE
